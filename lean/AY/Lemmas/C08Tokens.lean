/-
  AY.Lemmas.C08Tokens — the string step of command-line overrides (`AY.Model.Cmdline`): canonical
  spelling (`renderGroupC`, `renderKeyC`, `renderOverrideC`, `groups`), the round trip
  `tokensE (render …) = …`, the document emitted for tokens (`emitDoc`) and its identification with
  `c08_rawDoc`, and the "names never contain '.' or '='" facts.
-/
import AY.Model.Cmdline
import AY.Lemmas.C08Cmd
import AY.Lemmas.C17Lemmas
namespace AY
open Container

/-! ### characters -/

theorem c08_ident_bounds (c : Char) (h : isIdentChar c = true) :
    (48 ≤ c.toNat ∧ c.toNat ≤ 57) ∨ (65 ≤ c.toNat ∧ c.toNat ≤ 90) ∨ (97 ≤ c.toNat ∧ c.toNat ≤ 122) ∨
      c.toNat = 95 := by
  simp only [isIdentChar, Char.isAlphanum, Char.isAlpha, Char.isUpper, Char.isLower, Char.isDigit,
    Bool.or_eq_true, Bool.and_eq_true, decide_eq_true_eq] at h
  rcases h with ((h | h) | h) | h
  · exact .inr (.inl ⟨UInt32.le_iff_toNat_le.1 h.1, UInt32.le_iff_toNat_le.1 h.2⟩)
  · exact .inr (.inr (.inl ⟨UInt32.le_iff_toNat_le.1 h.1, UInt32.le_iff_toNat_le.1 h.2⟩))
  · exact .inl ⟨UInt32.le_iff_toNat_le.1 h.1, UInt32.le_iff_toNat_le.1 h.2⟩
  · right; right; right; rw [h]; rfl

theorem c08_digit_bounds (c : Char) (h : c.isDigit = true) : 48 ≤ c.toNat ∧ c.toNat ≤ 57 := by
  simp only [Char.isDigit, Bool.and_eq_true, decide_eq_true_eq] at h
  exact ⟨UInt32.le_iff_toNat_le.1 h.1, UInt32.le_iff_toNat_le.1 h.2⟩

theorem c08_digit_ident (c : Char) (h : c.isDigit = true) : isIdentChar c = true := by
  simp [isIdentChar, Char.isAlphanum, h]

/-- characters of the canonical spelling of one part `name[i][j]`: identifier characters (digits
    among them), brackets and the minus sign -/
def grpChar (c : Char) : Bool := isIdentChar c || c = '[' || c = ']' || c = '-'

theorem c08_grpChar_bounds (c : Char) (h : grpChar c = true) :
    (48 ≤ c.toNat ∧ c.toNat ≤ 57) ∨ (65 ≤ c.toNat ∧ c.toNat ≤ 90) ∨ (97 ≤ c.toNat ∧ c.toNat ≤ 122) ∨
      c.toNat = 95 ∨ c.toNat = 91 ∨ c.toNat = 93 ∨ c.toNat = 45 := by
  simp only [grpChar, Bool.or_eq_true, decide_eq_true_eq] at h
  rcases h with ((h | h) | h) | h
  · have := c08_ident_bounds c h; omega
  · rw [h]; decide
  · rw [h]; decide
  · rw [h]; decide

theorem c08_grpChar_nospace (c : Char) (h : grpChar c = true) : pyIsSpace c = false := by
  have := c08_grpChar_bounds c h
  simp only [pyIsSpace, Bool.or_eq_false_iff, Bool.and_eq_false_iff, decide_eq_false_iff_not]
  omega

theorem c08_grpChar_ne (c d : Char) (h : grpChar c = true)
    (hd : d.toNat = 46 ∨ d.toNat = 61 ∨ d.toNat = 10 ∨ d.toNat = 33 ∨ d.toNat = 123) : c ≠ d := by
  intro e
  have := c08_grpChar_bounds c h
  rw [e] at this
  omega

theorem c08_ident_ne (c d : Char) (h : isIdentChar c = true)
    (hd : d.toNat = 46 ∨ d.toNat = 61 ∨ d.toNat = 10 ∨ d.toNat = 33 ∨ d.toNat = 123 ∨ d.toNat = 91 ∨
      d.toNat = 93 ∨ d.toNat = 45 ∨ d.toNat = 43) : c ≠ d := by
  intro e
  have := c08_ident_bounds c h
  rw [e] at this
  omega

theorem c08_ident_grp (c : Char) (h : isIdentChar c = true) : grpChar c = true := by simp [grpChar, h]

/-! ### Python string primitives -/

theorem c08_hasChar_iff (d : Char) (l : List Char) : hasChar d l = true ↔ d ∈ l := by
  induction l with
  | nil => simp [hasChar]
  | cons c cs ih =>
    simp only [hasChar, Bool.or_eq_true, decide_eq_true_eq, ih, List.mem_cons]
    exact ⟨fun h => h.imp Eq.symm id, fun h => h.imp Eq.symm id⟩

theorem c08_hasChar_false (d : Char) (l : List Char) : hasChar d l = false ↔ d ∉ l := by
  rw [← c08_hasChar_iff]; simp

theorem c08_lstrip_cons (c : Char) (cs : List Char) (h : pyIsSpace c = false) :
    pyLStrip (c :: cs) = c :: cs := by simp [pyLStrip, h]

theorem c08_rstrip_cons (c : Char) (cs : List Char) (h : pyIsSpace c = false) :
    pyRStrip (c :: cs) = c :: pyRStrip cs := by
  simp only [pyRStrip]
  cases pyRStrip cs <;> simp [h]

theorem c08_rstrip_append (a b : List Char) (ha : ∀ c ∈ a, pyIsSpace c = false) :
    pyRStrip (a ++ b) = a ++ pyRStrip b := by
  induction a with
  | nil => rfl
  | cons x xs ih =>
    rw [List.cons_append, c08_rstrip_cons x _ (ha x List.mem_cons_self),
      ih (fun c hc => ha c (List.mem_cons_of_mem _ hc))]
    rfl

theorem c08_rstrip_nil : pyRStrip [] = [] := rfl

theorem c08_strip_nospace (l : List Char) (h : ∀ c ∈ l, pyIsSpace c = false) : pyStrip l = l := by
  have e : pyLStrip l = l := by
    cases l with
    | nil => rfl
    | cons c cs => exact c08_lstrip_cons c cs (h c List.mem_cons_self)
  have := c08_rstrip_append l [] h
  simp only [List.append_nil, c08_rstrip_nil] at this
  rw [pyStrip, e, this]

/-- what `strip` keeps is part of the text -/
theorem c08_mem_lstrip (l : List Char) : ∀ c ∈ pyLStrip l, c ∈ l := by
  induction l with
  | nil => intro c h; exact h
  | cons x xs ih =>
    intro c h
    simp only [pyLStrip] at h
    split at h
    · exact List.mem_cons_of_mem _ (ih c h)
    · exact h

theorem c08_mem_rstrip (l : List Char) : ∀ c ∈ pyRStrip l, c ∈ l := by
  induction l with
  | nil => intro c h; exact h
  | cons x xs ih =>
    intro c h
    simp only [pyRStrip] at h
    cases hr : pyRStrip xs with
    | nil =>
      rw [hr] at h
      simp only at h
      split at h
      · cases h
      · exact List.mem_cons.2 (.inl (List.mem_singleton.1 h))
    | cons r rs =>
      rw [hr] at h
      simp only at h
      rcases List.mem_cons.1 h with h | h
      · exact List.mem_cons.2 (.inl h)
      · exact List.mem_cons_of_mem _ (ih c (hr ▸ h))

theorem c08_mem_strip (l : List Char) : ∀ c ∈ pyStrip l, c ∈ l :=
  fun c h => c08_mem_lstrip l c (c08_mem_rstrip _ c h)

/-- a character that is not white space survives `strip` -/
theorem c08_mem_lstrip_of (l : List Char) (d : Char) (hd : pyIsSpace d = false) (h : d ∈ l) :
    d ∈ pyLStrip l := by
  induction l with
  | nil => exact h
  | cons x xs ih =>
    simp only [pyLStrip]
    split
    · rename_i hx
      rcases List.mem_cons.1 h with e | e
      · rw [e, hx] at hd; cases hd
      · exact ih e
    · exact h

theorem c08_mem_rstrip_of (l : List Char) (d : Char) (hd : pyIsSpace d = false) (h : d ∈ l) :
    d ∈ pyRStrip l := by
  induction l with
  | nil => exact h
  | cons x xs ih =>
    simp only [pyRStrip]
    rcases List.mem_cons.1 h with e | e
    · subst e
      cases pyRStrip xs <;> simp [hd]
    · have := ih e
      cases hr : pyRStrip xs with
      | nil => rw [hr] at this; cases this
      | cons r rs => rw [hr] at this; exact List.mem_cons_of_mem _ this

theorem c08_mem_strip_iff (l : List Char) (d : Char) (hd : pyIsSpace d = false) :
    d ∈ pyStrip l ↔ d ∈ l :=
  ⟨c08_mem_strip l d, fun h => c08_mem_rstrip_of _ d hd (c08_mem_lstrip_of l d hd h)⟩

theorem c08_splitFirst_append (d : Char) (a b : List Char) (ha : d ∉ a) :
    splitFirst d (a ++ d :: b) = some (a, b) := by
  induction a with
  | nil => simp [splitFirst]
  | cons x xs ih =>
    have hx : x ≠ d := fun e => ha (e ▸ List.mem_cons_self)
    simp [splitFirst, hx, ih (fun h => ha (List.mem_cons_of_mem _ h))]

/-- the part before the first `d` does not contain `d` -/
theorem c08_splitFirst_notMem (d : Char) (l a b : List Char) (h : splitFirst d l = some (a, b)) :
    d ∉ a := by
  induction l generalizing a b with
  | nil => simp [splitFirst] at h
  | cons x xs ih =>
    simp only [splitFirst] at h
    split at h
    · injection h with h; injection h with h1 _; rw [← h1]; exact List.not_mem_nil
    · rename_i hx
      cases hs : splitFirst d xs with
      | none => simp [hs] at h
      | some ab =>
        obtain ⟨a', b'⟩ := ab
        simp only [hs, Option.some.injEq, Prod.mk.injEq] at h
        rw [← h.1]
        intro hm
        rcases List.mem_cons.1 hm with e | e
        · exact hx e.symm
        · exact ih a' b' hs e

theorem c08_splitOnChar_ne_nil (d : Char) (l : List Char) : splitOnChar d l ≠ [] := by
  cases l with
  | nil => simp [splitOnChar]
  | cons c cs =>
    simp only [splitOnChar]
    cases splitOnChar d cs with
    | nil => simp
    | cons p ps =>
      simp only
      split <;> simp

theorem c08_splitOnChar_single (d : Char) (a : List Char) (ha : d ∉ a) : splitOnChar d a = [a] := by
  induction a with
  | nil => rfl
  | cons x xs ih =>
    have hx : x ≠ d := fun e => ha (e ▸ List.mem_cons_self)
    simp [splitOnChar, ih (fun h => ha (List.mem_cons_of_mem _ h)), hx]

theorem c08_splitOnChar_append (d : Char) (a b : List Char) (ha : d ∉ a) :
    splitOnChar d (a ++ d :: b) = a :: splitOnChar d b := by
  induction a with
  | nil =>
    simp only [List.nil_append, splitOnChar]
    cases hs : splitOnChar d b with
    | nil => exact absurd hs (c08_splitOnChar_ne_nil d b)
    | cons p ps => simp
  | cons x xs ih =>
    have hx : x ≠ d := fun e => ha (e ▸ List.mem_cons_self)
    simp [splitOnChar, ih (fun h => ha (List.mem_cons_of_mem _ h)), hx]

/-- no piece of `split(d)` contains `d` -/
theorem c08_splitOnChar_notMem (d : Char) (l : List Char) : ∀ p ∈ splitOnChar d l, d ∉ p := by
  induction l with
  | nil => intro p hp; simp [splitOnChar] at hp; rw [hp]; exact List.not_mem_nil
  | cons x xs ih =>
    intro p hp
    simp only [splitOnChar] at hp
    cases hs : splitOnChar d xs with
    | nil => exact absurd hs (c08_splitOnChar_ne_nil d xs)
    | cons q qs =>
      rw [hs] at hp ih
      simp only at hp
      split at hp
      · rcases List.mem_cons.1 hp with e | e
        · rw [e]; exact List.not_mem_nil
        · exact ih p e
      · rename_i hx
        rcases List.mem_cons.1 hp with e | e
        · rw [e]
          intro hm
          rcases List.mem_cons.1 hm with e' | e'
          · exact hx e'.symm
          · exact ih q List.mem_cons_self e'
        · exact ih p (List.mem_cons_of_mem _ e)

/-- the pieces are made of characters of the text -/
theorem c08_splitOnChar_mem (d : Char) (l : List Char) : ∀ p ∈ splitOnChar d l, ∀ c ∈ p, c ∈ l := by
  induction l with
  | nil => intro p hp c hc; simp [splitOnChar] at hp; rw [hp] at hc; cases hc
  | cons x xs ih =>
    intro p hp c hc
    simp only [splitOnChar] at hp
    cases hs : splitOnChar d xs with
    | nil => exact absurd hs (c08_splitOnChar_ne_nil d xs)
    | cons q qs =>
      rw [hs] at hp ih
      simp only at hp
      split at hp
      · rcases List.mem_cons.1 hp with e | e
        · rw [e] at hc; cases hc
        · exact List.mem_cons_of_mem _ (ih p e c hc)
      · rcases List.mem_cons.1 hp with e | e
        · rw [e] at hc
          rcases List.mem_cons.1 hc with e' | e'
          · exact List.mem_cons.2 (.inl e')
          · exact List.mem_cons_of_mem _ (ih q List.mem_cons_self c e')
        · exact List.mem_cons_of_mem _ (ih p (List.mem_cons_of_mem _ e) c hc)

theorem c08_endsWith_snoc (d c : Char) (a : List Char) : endsWithChar d (a ++ [c]) = decide (c = d) := by
  induction a with
  | nil => rfl
  | cons x xs ih =>
    cases xs with
    | nil => exact ih
    | cons y ys => exact ih

theorem c08_endsWith_false (d : Char) (l : List Char) (h : ∀ c ∈ l, c ≠ d) : endsWithChar d l = false := by
  induction l with
  | nil => rfl
  | cons x xs ih =>
    cases xs with
    | nil => simp [endsWithChar, h x List.mem_cons_self]
    | cons y ys => exact ih (fun c hc => h c (List.mem_cons_of_mem _ hc))

theorem c08_dropLast_snoc (c : Char) (a : List Char) : dropLastC (a ++ [c]) = a := by
  induction a with
  | nil => rfl
  | cons x xs ih =>
    cases xs with
    | nil => rfl
    | cons y ys =>
      simp only [List.cons_append, dropLastC] at ih ⊢
      rw [ih]

theorem c08_rsplitLast_none (d : Char) (b : List Char) (hb : d ∉ b) : rsplitLast d b = none := by
  induction b with
  | nil => rfl
  | cons x xs ih =>
    have hx : x ≠ d := fun e => hb (e ▸ List.mem_cons_self)
    simp [rsplitLast, ih (fun h => hb (List.mem_cons_of_mem _ h)), hx]

theorem c08_rsplitLast_append (d : Char) (a b : List Char) (hb : d ∉ b) :
    rsplitLast d (a ++ d :: b) = some (a, b) := by
  induction a with
  | nil => simp [rsplitLast, c08_rsplitLast_none d b hb]
  | cons x xs ih => simp [rsplitLast, ih]

/-- `dropLastC` and the front part of `rsplitLast` only keep characters of the text -/
theorem c08_mem_dropLast (l : List Char) : ∀ c ∈ dropLastC l, c ∈ l := by
  induction l with
  | nil => intro c h; exact h
  | cons x xs ih =>
    cases xs with
    | nil => intro c h; cases h
    | cons y ys =>
      intro c h
      simp only [dropLastC] at h
      rcases List.mem_cons.1 h with e | e
      · exact List.mem_cons.2 (.inl e)
      · exact List.mem_cons_of_mem _ (ih c e)

theorem c08_mem_rsplitLast (d : Char) (l a b : List Char) (h : rsplitLast d l = some (a, b)) :
    ∀ c ∈ a, c ∈ l := by
  induction l generalizing a b with
  | nil => simp [rsplitLast] at h
  | cons x xs ih =>
    simp only [rsplitLast] at h
    cases hs : rsplitLast d xs with
    | some ab =>
      obtain ⟨a', b'⟩ := ab
      simp only [hs, Option.some.injEq, Prod.mk.injEq] at h
      intro c hc
      rw [← h.1] at hc
      rcases List.mem_cons.1 hc with e | e
      · exact List.mem_cons.2 (.inl e)
      · exact List.mem_cons_of_mem _ (ih a' b' hs c e)
    | none =>
      simp only [hs] at h
      split at h
      · simp only [Option.some.injEq, Prod.mk.injEq] at h
        intro c hc; rw [← h.1] at hc; cases hc
      · cases h

/-! ### `int(str(i)) = i` -/

theorem c08_trIntChars_ascii (l : List Char) (h : ∀ c ∈ l, c.toNat < 127) : trIntChars l = some l := by
  induction l with
  | nil => rfl
  | cons x xs ih =>
    simp [trIntChars, trIntChar, h x List.mem_cons_self, ih (fun c hc => h c (List.mem_cons_of_mem _ hc))]

theorem c08_scanMore_digits (ds : List Char) (h : ∀ c ∈ ds, c.isDigit = true) : scanMore ds = some (ds, []) := by
  induction ds with
  | nil => rfl
  | cons x xs ih =>
    have hx := h x List.mem_cons_self
    have := ih (fun c hc => h c (List.mem_cons_of_mem _ hc))
    unfold scanMore
    simp only [hx, if_true, this]

theorem c08_digit_notCSpace (c : Char) (h : c.isDigit = true) : cIsSpace c = false := by
  have := c08_digit_bounds c h
  simp only [cIsSpace, Bool.or_eq_false_iff, Bool.and_eq_false_iff, decide_eq_false_iff_not]
  omega

/-- digits (not more than `sys.int_max_str_digits`) read as the number they spell -/
theorem c08_pyIntC_digits (neg : Bool) (d : Char) (ds : List Char) (hd : ∀ c ∈ d :: ds, c.isDigit = true)
    (hlen : (d :: ds).length ≤ pyMaxStrDigits) :
    pyIntC ((if neg then ['-'] else []) ++ d :: ds) =
      some (if neg then - (digitsToNat (d :: ds) : Int) else (digitsToNat (d :: ds) : Int)) := by
  have hd0 := hd d List.mem_cons_self
  have hb := c08_digit_bounds d hd0
  have hasc : ∀ c ∈ (if neg then ['-'] else []) ++ d :: ds, c.toNat < 127 := by
    intro c hc
    rcases List.mem_append.1 hc with h | h
    · cases neg
      · cases h
      · simp only [if_true, List.mem_singleton] at h
        rw [h]; decide
    · have := c08_digit_bounds c (hd c h); omega
  have hm : d ≠ '-' := fun e => by rw [e] at hb; revert hb; decide
  have hp : d ≠ '+' := fun e => by rw [e] at hb; revert hb; decide
  have hsp := c08_digit_notCSpace d hd0
  have hscan := c08_scanMore_digits ds (fun c hc => hd c (List.mem_cons_of_mem _ hc))
  have hl : decide ((d :: ds).length ≤ pyMaxStrDigits) = true := decide_eq_true hlen
  unfold pyIntC
  rw [c08_trIntChars_ascii _ hasc]
  cases neg
  · simp only [Bool.false_eq_true, if_false, List.nil_append, dropCSpace, hsp, splitSign, hm, hp, hd0,
      hscan, List.all_nil, Bool.true_and, hl, if_true]
  · have hmsp : cIsSpace '-' = false := by decide
    simp only [if_true, List.cons_append, List.nil_append, dropCSpace, hmsp, Bool.false_eq_true, if_false,
      splitSign, hd0, hscan, List.all_nil, Bool.true_and, hl]

/-- `int(str(i)) == i`, as long as `str(i)` has at most `sys.int_max_str_digits` digits -/
theorem c08_pyIntC_intToChars (i : Int) (h : (natToDigits i.natAbs).length ≤ pyMaxStrDigits) :
    pyIntC (intToChars i) = some i := by
  unfold intToChars
  split
  · rename_i hneg
    have hne := natToDigits_ne_nil i.natAbs
    have hdig := natToDigits_isDigit i.natAbs
    have hval := digitsToNat_natToDigits i.natAbs
    generalize natToDigits i.natAbs = D at hne hdig hval h
    cases D with
    | nil => exact absurd rfl hne
    | cons d ds =>
      have := c08_pyIntC_digits true d ds hdig h
      simp only [if_true, List.cons_append, List.nil_append] at this
      rw [this, hval]
      congr 1
      omega
  · rename_i hneg
    have e : i.toNat = i.natAbs := by omega
    rw [e]
    have hne := natToDigits_ne_nil i.natAbs
    have hdig := natToDigits_isDigit i.natAbs
    have hval := digitsToNat_natToDigits i.natAbs
    generalize natToDigits i.natAbs = D at hne hdig hval h
    cases D with
    | nil => exact absurd rfl hne
    | cons d ds =>
      have := c08_pyIntC_digits false d ds hdig h
      simp only [Bool.false_eq_true, if_false, List.nil_append] at this
      rw [this, hval]
      congr 1
      omega

theorem c08_intToChars_grp (i : Int) : ∀ c ∈ intToChars i, grpChar c = true ∧ c ≠ '[' := by
  intro c hc
  have hdg : ∀ n, ∀ c ∈ natToDigits n, grpChar c = true ∧ c ≠ '[' := by
    intro n c hc
    have hd := natToDigits_isDigit n c hc
    refine ⟨c08_ident_grp c (c08_digit_ident c hd), fun e => ?_⟩
    have := c08_digit_bounds c hd
    rw [e] at this; revert this; decide
  unfold intToChars at hc
  split at hc
  · rcases List.mem_cons.1 hc with e | e
    · rw [e]; decide
    · exact hdg _ c e
  · exact hdg _ c hc

/-! ### the canonical spelling -/

/-- `[i][j]…` -/
def subsC : List Int → List Char
  | [] => []
  | i :: is => '[' :: (intToChars i ++ ']' :: subsC is)

/-- `name[i][j]…` -/
def renderGroupC (g : List Char × List Int) : List Char := g.1 ++ subsC g.2

/-- parts joined with '.' -/
def renderKeyC : List (List Char × List Int) → List Char
  | [] => []
  | [g] => renderGroupC g
  | g :: g' :: gs => renderGroupC g ++ '.' :: renderKeyC (g' :: gs)

/-- `a.b[i][j].c=value` -/
def renderOverrideC (gs : List (List Char × List Int)) (value : List Char) : List Char :=
  renderKeyC gs ++ '=' :: value

/-- a name the round trip covers: a non-empty word over `[A-Za-z0-9_]` -/
def IdentName (nm : List Char) : Prop := nm ≠ [] ∧ ∀ c ∈ nm, isIdentChar c = true

/-- an index the round trip covers: `str(i)` has at most `sys.int_max_str_digits` digits -/
def SmallInt (i : Int) : Prop := (natToDigits i.natAbs).length ≤ pyMaxStrDigits

def GoodGroup (g : List Char × List Int) : Prop := IdentName g.1 ∧ ∀ i ∈ g.2, SmallInt i

theorem c08_subsC_append (a : List Int) (i : Int) : subsC (a ++ [i]) = subsC a ++ '[' :: (intToChars i ++ [']']) := by
  induction a with
  | nil => simp [subsC]
  | cons x xs ih => simp [subsC, ih]

theorem c08_subsC_grp (is : List Int) : ∀ c ∈ subsC is, grpChar c = true := by
  induction is with
  | nil => intro c h; cases h
  | cons i is ih =>
    intro c h
    simp only [subsC, List.mem_cons, List.mem_append] at h
    rcases h with e | e | e | e
    · rw [e]; decide
    · exact (c08_intToChars_grp i c e).1
    · rw [e]; decide
    · exact ih c e

theorem c08_length_subsC (is : List Int) : is.length ≤ (subsC is).length := by
  induction is with
  | nil => simp
  | cons i is ih => simp [subsC]; omega

theorem c08_renderGroupC_grp (g : List Char × List Int) (hg : IdentName g.1) :
    ∀ c ∈ renderGroupC g, grpChar c = true := by
  intro c h
  rcases List.mem_append.1 h with e | e
  · exact c08_ident_grp c (hg.2 c e)
  · exact c08_subsC_grp _ c e

theorem c08_renderKeyC_cons (g : List Char × List Int) (gs : List (List Char × List Int)) (h : gs ≠ []) :
    renderKeyC (g :: gs) = renderGroupC g ++ '.' :: renderKeyC gs := by
  cases gs with
  | nil => exact absurd rfl h
  | cons g' gs' => rfl

/-- characters of a canonical key: those of its parts and the separating dots -/
theorem c08_renderKeyC_chars (gs : List (List Char × List Int)) (h : ∀ g ∈ gs, IdentName g.1) :
    ∀ c ∈ renderKeyC gs, grpChar c = true ∨ c = '.' := by
  induction gs with
  | nil => intro c hc; cases hc
  | cons g gs ih =>
    cases gs with
    | nil => intro c hc; exact .inl (c08_renderGroupC_grp g (h g List.mem_cons_self) c hc)
    | cons g' gs' =>
      intro c hc
      rw [c08_renderKeyC_cons g _ (by simp)] at hc
      rcases List.mem_append.1 hc with e | e
      · exact .inl (c08_renderGroupC_grp g (h g List.mem_cons_self) c e)
      · rcases List.mem_cons.1 e with e | e
        · exact .inr e
        · exact ih (fun x hx => h x (List.mem_cons_of_mem _ hx)) c e

theorem c08_keyChar_facts (c : Char) (h : grpChar c = true ∨ c = '.') :
    pyIsSpace c = false ∧ c ≠ '=' ∧ c ≠ '\n' := by
  rcases h with h | h
  · exact ⟨c08_grpChar_nospace c h, c08_grpChar_ne c _ h (by decide), c08_grpChar_ne c _ h (by decide)⟩
  · rw [h]; decide

theorem c08_renderKeyC_head (g : List Char × List Int) (gs : List (List Char × List Int)) (hg : IdentName g.1) :
    ∃ k rest, renderKeyC (g :: gs) = k :: rest ∧ isIdentChar k = true := by
  obtain ⟨nm, is⟩ := g
  cases nm with
  | nil => exact absurd rfl hg.1
  | cons k nm' =>
    have hk := hg.2 k List.mem_cons_self
    cases gs with
    | nil => exact ⟨k, _, rfl, hk⟩
    | cons g' gs' => exact ⟨k, _, rfl, hk⟩

/-! ### the key is taken apart again -/

theorem c08_splitParts_render (gs : List (List Char × List Int)) (hne : gs ≠ []) (h : ∀ g ∈ gs, IdentName g.1) :
    splitPartsC (renderKeyC gs) = gs.map renderGroupC := by
  have hdot : ∀ g ∈ gs, '.' ∉ renderGroupC g := fun g hg hm =>
    c08_grpChar_ne _ '.' (c08_renderGroupC_grp g (h g hg) _ hm) (by decide) rfl
  have hsp : ∀ g ∈ gs, pyStrip (renderGroupC g) = renderGroupC g := fun g hg =>
    c08_strip_nospace _ (fun c hc => c08_grpChar_nospace c (c08_renderGroupC_grp g (h g hg) c hc))
  unfold splitPartsC
  induction gs with
  | nil => exact absurd rfl hne
  | cons g gs ih =>
    cases gs with
    | nil =>
      simp only [renderKeyC, c08_splitOnChar_single '.' _ (hdot g List.mem_cons_self), List.map,
        hsp g List.mem_cons_self]
    | cons g' gs' =>
      rw [c08_renderKeyC_cons g _ (by simp), c08_splitOnChar_append '.' _ _ (hdot g List.mem_cons_self)]
      simp only [List.map_cons, hsp g List.mem_cons_self] at ih ⊢
      rw [ih (by simp) (fun x hx => h x (List.mem_cons_of_mem _ hx))
        (fun x hx => hdot x (List.mem_cons_of_mem _ hx)) (fun x hx => hsp x (List.mem_cons_of_mem _ hx))]

theorem c08_peelLoop_render (nm : List Char) (hnm : endsWithChar ']' nm = false) :
    ∀ (ris acc : List Int) (fuel : Nat), ris.length < fuel → (∀ i ∈ ris, SmallInt i) →
      peelLoop fuel (nm ++ subsC ris.reverse) acc = some (nm, ris.reverse ++ acc)
  | [], acc, fuel, hf, _ => by
    obtain ⟨f, rfl⟩ : ∃ f, fuel = f + 1 := ⟨fuel - 1, by simp at hf; omega⟩
    simp [peelLoop, subsC, hnm]
  | i :: ris, acc, fuel, hf, hs => by
    obtain ⟨f, rfl⟩ : ∃ f, fuel = f + 1 := ⟨fuel - 1, by omega⟩
    have hpart : nm ++ subsC (i :: ris).reverse = (nm ++ subsC ris.reverse ++ '[' :: intToChars i) ++ [']'] := by
      simp [c08_subsC_append]
    have hbr : '[' ∉ intToChars i := fun hm => (c08_intToChars_grp i _ hm).2 rfl
    have hrec := c08_peelLoop_render nm hnm ris (i :: acc) f (by simp at hf; omega)
      (fun j hj => hs j (List.mem_cons_of_mem _ hj))
    rw [hpart]
    simp only [peelLoop, c08_endsWith_snoc, decide_true, if_true, peelOne, c08_dropLast_snoc]
    rw [c08_rsplitLast_append '[' _ _ hbr]
    simp only [c08_pyIntC_intToChars i (hs i List.mem_cons_self), hrec]
    simp

theorem c08_peel_render (g : List Char × List Int) (hg : GoodGroup g) :
    peelSubscriptsC (renderGroupC g) = some g := by
  obtain ⟨nm, is⟩ := g
  have hnm : endsWithChar ']' nm = false :=
    c08_endsWith_false _ _ (fun c hc => c08_ident_ne c _ (hg.1.2 c hc) (by decide))
  have := c08_peelLoop_render nm hnm is.reverse [] ((nm ++ subsC is).length + 1)
    (by have := c08_length_subsC is; simp; omega) (fun i hi => hg.2 i (List.mem_reverse.1 hi))
  simpa [peelSubscriptsC, renderGroupC] using this

theorem c08_peelAll_render (gs : List (List Char × List Int)) (h : ∀ g ∈ gs, GoodGroup g) :
    peelAllC (gs.map renderGroupC) = some gs := by
  induction gs with
  | nil => rfl
  | cons g gs ih =>
    simp [peelAllC, c08_peel_render g (h g List.mem_cons_self), ih (fun x hx => h x (List.mem_cons_of_mem _ hx))]

/-- the stripped option: only the value loses (trailing) white space -/
theorem c08_strip_render (gs : List (List Char × List Int)) (value : List Char) (h : ∀ g ∈ gs, IdentName g.1) :
    pyStrip (renderOverrideC gs value) = renderKeyC gs ++ '=' :: pyRStrip value := by
  have hk : ∀ c ∈ renderKeyC gs ++ ['='], pyIsSpace c = false := by
    intro c hc
    rcases List.mem_append.1 hc with e | e
    · exact (c08_keyChar_facts c (c08_renderKeyC_chars gs h c e)).1
    · rw [List.mem_singleton.1 e]; decide
  have e1 : renderOverrideC gs value = (renderKeyC gs ++ ['=']) ++ value := by simp [renderOverrideC]
  have e2 : pyLStrip ((renderKeyC gs ++ ['=']) ++ value) = (renderKeyC gs ++ ['=']) ++ value := by
    cases hh : renderKeyC gs ++ ['='] with
    | nil => simp at hh
    | cons c cs =>
      rw [hh] at hk
      exact c08_lstrip_cons c _ (hk c List.mem_cons_self)
  rw [pyStrip, e1, e2, c08_rstrip_append _ _ hk]
  simp

theorem c08_optionType_render (g : List Char × List Int) (gs : List (List Char × List Int)) (value : List Char)
    (h : ∀ x ∈ g :: gs, IdentName x.1) (hv : '\n' ∉ pyRStrip value) :
    optionTypeC (renderOverrideC (g :: gs) value) = .inline := by
  obtain ⟨k, rest, hk, hki⟩ := c08_renderKeyC_head g gs (h g List.mem_cons_self)
  have hnl : '\n' ∉ renderKeyC (g :: gs) := fun hm =>
    (c08_keyChar_facts _ (c08_renderKeyC_chars _ h _ hm)).2.2 rfl
  have h1 : hasChar '\n' (renderKeyC (g :: gs) ++ '=' :: pyRStrip value) = false := by
    rw [c08_hasChar_false]
    intro hm
    rcases List.mem_append.1 hm with e | e
    · exact hnl e
    · rcases List.mem_cons.1 e with e | e
      · revert e; decide
      · exact hv e
  have h2 : startsWithChar '{' (renderKeyC (g :: gs) ++ '=' :: pyRStrip value) = false := by
    rw [hk]
    simp only [List.cons_append, startsWithChar, decide_eq_false_iff_not]
    exact c08_ident_ne k _ hki (by decide)
  have h3 : hasChar '=' (renderKeyC (g :: gs) ++ '=' :: pyRStrip value) = true := by
    rw [c08_hasChar_iff]; simp
  simp [optionTypeC, c08_strip_render _ value h, isRawOpt, h1, h2, h3]

/-- the inline branch on the canonical spelling: not tagged, the groups, the stripped value -/
theorem c08_tokensE_render (g : List Char × List Int) (gs : List (List Char × List Int)) (value : List Char)
    (h : ∀ x ∈ g :: gs, GoodGroup x) :
    tokensE (renderOverrideC (g :: gs) value) = .ok (false, g :: gs, pyStrip value) := by
  have hi : ∀ x ∈ g :: gs, IdentName x.1 := fun x hx => (h x hx).1
  obtain ⟨k, rest, hk, hki⟩ := c08_renderKeyC_head g gs (hi g List.mem_cons_self)
  have hfacts := fun c hc => c08_keyChar_facts c (c08_renderKeyC_chars (g :: gs) hi c hc)
  have heq : '=' ∉ renderKeyC (g :: gs) := fun hm => (hfacts _ hm).2.1 rfl
  have hstrip : pyStrip (renderKeyC (g :: gs)) = renderKeyC (g :: gs) :=
    c08_strip_nospace _ (fun c hc => (hfacts c hc).1)
  have hbang : decide (k = '!') = false := decide_eq_false (c08_ident_ne k _ hki (by decide))
  have hparts := c08_splitParts_render (g :: gs) (by simp) hi
  have hpeel := c08_peelAll_render (g :: gs) h
  unfold tokensE splitKeyValueC renderOverrideC
  rw [c08_splitFirst_append '=' _ _ heq]
  simp only [hstrip]
  rw [hk] at hparts ⊢
  simp only [hparts, hpeel, hbang]

theorem c08_tokensC_render (g : List Char × List Int) (gs : List (List Char × List Int)) (value : List Char)
    (h : ∀ x ∈ g :: gs, GoodGroup x) (hv : '\n' ∉ pyRStrip value) :
    tokensC (renderOverrideC (g :: gs) value) = some (false, g :: gs, pyStrip value) := by
  simp [tokensC, c08_optionType_render g gs value (fun x hx => (h x hx).1) hv, c08_tokensE_render g gs value h]

/-! ### names never contain '.' or '=' -/

theorem c08_peelOne_mem (part part' : List Char) (i : Int) (h : peelOne part = some (part', i)) :
    ∀ c ∈ part', c ∈ part := by
  unfold peelOne at h
  cases hs : rsplitLast '[' (dropLastC part) with
  | some ab =>
    obtain ⟨pre, inner⟩ := ab
    simp only [hs] at h
    cases hi : pyIntC inner with
    | none => simp [hi] at h
    | some j =>
      simp only [hi, Option.some.injEq, Prod.mk.injEq] at h
      intro c hc
      rw [← h.1] at hc
      exact c08_mem_dropLast part c (c08_mem_rsplitLast '[' _ pre inner hs c hc)
  | none =>
    simp only [hs] at h
    cases hi : pyIntC (dropLastC part) with
    | none => simp [hi] at h
    | some j =>
      simp only [hi, Option.some.injEq, Prod.mk.injEq] at h
      intro c hc
      rw [← h.1] at hc
      exact c08_mem_dropLast part c hc

theorem c08_peelLoop_mem : ∀ (fuel : Nat) (part : List Char) (acc : List Int) (nm : List Char) (is : List Int),
    peelLoop fuel part acc = some (nm, is) → ∀ c ∈ nm, c ∈ part
  | 0, _, _, _, _, h => by simp [peelLoop] at h
  | fuel + 1, part, acc, nm, is, h => by
    simp only [peelLoop] at h
    split at h
    · cases hp : peelOne part with
      | none => simp [hp] at h
      | some pi =>
        obtain ⟨part', i⟩ := pi
        simp only [hp] at h
        intro c hc
        exact c08_peelOne_mem part part' i hp c (c08_peelLoop_mem fuel part' (i :: acc) nm is h c hc)
    · simp only [Option.some.injEq, Prod.mk.injEq] at h
      intro c hc; rw [← h.1] at hc; exact hc

theorem c08_peelAll_mem : ∀ (ps : List (List Char)) (gs : List (List Char × List Int)),
    peelAllC ps = some gs → ∀ g ∈ gs, ∃ p ∈ ps, ∀ c ∈ g.1, c ∈ p
  | [], gs, h => by
    simp only [peelAllC, Option.some.injEq] at h
    intro g hg; rw [← h] at hg; cases hg
  | p :: ps, gs, h => by
    simp only [peelAllC] at h
    cases hp : peelSubscriptsC p with
    | none => simp [hp] at h
    | some g0 =>
      cases hr : peelAllC ps with
      | none => simp [hp, hr] at h
      | some gs0 =>
        simp only [hp, hr, Option.some.injEq] at h
        intro g hg
        rw [← h] at hg
        rcases List.mem_cons.1 hg with e | e
        · refine ⟨p, List.mem_cons_self, ?_⟩
          rw [e]
          exact c08_peelLoop_mem _ p [] g0.1 g0.2 hp
        · obtain ⟨q, hq, hc⟩ := c08_peelAll_mem ps gs0 hr g e
          exact ⟨q, List.mem_cons_of_mem _ hq, hc⟩

/-- whatever the option: no name that the inline branch produces contains '.' or '=' -/
theorem c08_tokensE_names (opt : List Char) (t : Bool) (gs : List (List Char × List Int)) (v : List Char)
    (h : tokensE opt = .ok (t, gs, v)) : ∀ g ∈ gs, '.' ∉ g.1 ∧ '=' ∉ g.1 := by
  unfold tokensE splitKeyValueC at h
  cases hs : splitFirst '=' opt with
  | none => simp [hs] at h
  | some kv =>
    obtain ⟨k0, v0⟩ := kv
    have hk0 := c08_splitFirst_notMem '=' opt k0 v0 hs
    simp only [hs] at h
    cases hk : pyStrip k0 with
    | nil => simp [hk] at h
    | cons k key =>
      simp only [hk] at h
      cases hp : peelAllC (splitPartsC (k :: key)) with
      | none => simp [hp] at h
      | some gs0 =>
        simp only [hp, Except.ok.injEq, Prod.mk.injEq] at h
        intro g hg
        rw [← h.2.1] at hg
        obtain ⟨p, hpm, hc⟩ := c08_peelAll_mem _ gs0 hp g hg
        simp only [splitPartsC, List.mem_map] at hpm
        obtain ⟨q, hq, rfl⟩ := hpm
        have hqdot := c08_splitOnChar_notMem '.' (k :: key) q hq
        have hqeq : '=' ∉ q := by
          intro hm
          have h1 : '=' ∈ pyStrip k0 := hk ▸ c08_splitOnChar_mem '.' (k :: key) q hq _ hm
          exact hk0 (c08_mem_strip k0 _ h1)
        exact ⟨fun hm => hqdot (c08_mem_strip q _ (hc _ hm)), fun hm => hqeq (c08_mem_strip q _ (hc _ hm))⟩

/-! ### paths as groups: a name followed by its indices -/

/-- groups of a path after its first name `nm` (indices collected in reverse in `acc`); a float key
    (never produced by `tokensToPath`) is treated like a name -/
def groupsAux : String → List Int → Path → List (String × List Int)
  | nm, acc, [] => [(nm, acc.reverse)]
  | nm, acc, .int i :: rest => groupsAux nm (i :: acc) rest
  | nm, acc, .str s :: rest => (nm, acc.reverse) :: groupsAux s [] rest
  | nm, acc, .float r :: rest => (nm, acc.reverse) :: groupsAux r [] rest

/-- `a.b[i][j].c` ↦ `[(a, []), (b, [i, j]), (c, [])]`; a path must start with a name -/
def groups : Path → List (String × List Int)
  | .str s :: rest => groupsAux s [] rest
  | _ => []

def groupC (g : String × List Int) : List Char × List Int := (g.1.toList, g.2)

/-- the canonical spelling `a.b[i][j].c=value` of the override of `path` -/
def renderOverride (path : Path) (value : String) : String :=
  String.ofList (renderOverrideC ((groups path).map groupC) value.toList)

/-- paths an override string can address in the canonical spelling: first a name, names are
    non-empty words over `[A-Za-z0-9_]`, indices any integers `str()` can print -/
def CmdPath (p : Path) : Prop :=
  (∃ s rest, p = .str s :: rest) ∧ ValidComponents p ∧ ∀ i, Key.int i ∈ p → SmallInt i

theorem c08_groupsAux_ne_nil (nm : String) (acc : List Int) (rest : Path) : groupsAux nm acc rest ≠ [] := by
  induction rest generalizing nm acc with
  | nil => simp [groupsAux]
  | cons k ks ih => cases k <;> simp [groupsAux, ih]

theorem c08_tokensToPath_groupsAux (rest : Path) : ∀ (nm : String) (acc : List Int),
    (∀ r, Key.float r ∉ rest) →
    tokensToPath (groupsAux nm acc rest) = Key.str nm :: (acc.reverse.map Key.int ++ rest) := by
  induction rest with
  | nil => intro nm acc _; simp [groupsAux, tokensToPath, groupPath]
  | cons k ks ih =>
    intro nm acc hf
    have hf' : ∀ r, Key.float r ∉ ks := fun r h => hf r (List.mem_cons_of_mem _ h)
    cases k with
    | int i => simp [groupsAux, ih nm (i :: acc) hf']
    | str s => simp [groupsAux, tokensToPath, groupPath, ih s [] hf']
    | float r => exact absurd List.mem_cons_self (hf r)

theorem c08_tokensToPath_groups (p : Path) (h : CmdPath p) : tokensToPath (groups p) = p := by
  obtain ⟨⟨s, rest, rfl⟩, hv, _⟩ := h
  have hf : ∀ r, Key.float r ∉ rest := fun r hm => by
    have := hv (.float r) (List.mem_cons_of_mem _ hm)
    simp [validKey] at this
  simp [groups, c08_tokensToPath_groupsAux rest s [] hf]

/-- every group collects a name and indices of the path -/
theorem c08_groupsAux_mem (rest : Path) : ∀ (nm : String) (acc : List Int), ∀ g ∈ groupsAux nm acc rest,
    (g.1 = nm ∨ Key.str g.1 ∈ rest ∨ Key.float g.1 ∈ rest) ∧ ∀ i ∈ g.2, i ∈ acc ∨ Key.int i ∈ rest := by
  induction rest with
  | nil =>
    intro nm acc g hg
    simp only [groupsAux, List.mem_singleton] at hg
    rw [hg]
    exact ⟨.inl rfl, fun i hi => .inl (List.mem_reverse.1 hi)⟩
  | cons k ks ih =>
    intro nm acc g hg
    cases k with
    | int j =>
      obtain ⟨h1, h2⟩ := ih nm (j :: acc) g hg
      refine ⟨h1.imp id (fun h => h.imp (List.mem_cons_of_mem _) (List.mem_cons_of_mem _)), fun i hi => ?_⟩
      rcases h2 i hi with e | e
      · rcases List.mem_cons.1 e with e | e
        · exact .inr (e ▸ List.mem_cons_self)
        · exact .inl e
      · exact .inr (List.mem_cons_of_mem _ e)
    | str s =>
      simp only [groupsAux] at hg
      rcases List.mem_cons.1 hg with e | e
      · rw [e]; exact ⟨.inl rfl, fun i hi => .inl (List.mem_reverse.1 hi)⟩
      · obtain ⟨h1, h2⟩ := ih s [] g e
        refine ⟨.inr ?_, fun i hi => ?_⟩
        · rcases h1 with h | h | h
          · exact .inl (h ▸ List.mem_cons_self)
          · exact .inl (List.mem_cons_of_mem _ h)
          · exact .inr (List.mem_cons_of_mem _ h)
        · rcases h2 i hi with e' | e'
          · cases e'
          · exact .inr (List.mem_cons_of_mem _ e')
    | float s =>
      simp only [groupsAux] at hg
      rcases List.mem_cons.1 hg with e | e
      · rw [e]; exact ⟨.inl rfl, fun i hi => .inl (List.mem_reverse.1 hi)⟩
      · obtain ⟨h1, h2⟩ := ih s [] g e
        refine ⟨.inr ?_, fun i hi => ?_⟩
        · rcases h1 with h | h | h
          · exact .inr (h ▸ List.mem_cons_self)
          · exact .inl (List.mem_cons_of_mem _ h)
          · exact .inr (List.mem_cons_of_mem _ h)
        · rcases h2 i hi with e' | e'
          · cases e'
          · exact .inr (List.mem_cons_of_mem _ e')

theorem c08_groups_good (p : Path) (h : CmdPath p) : ∀ g ∈ (groups p).map groupC, GoodGroup g := by
  obtain ⟨⟨s, rest, rfl⟩, hv, hi⟩ := h
  intro g hg
  obtain ⟨g0, hg0, rfl⟩ := List.mem_map.1 hg
  obtain ⟨h1, h2⟩ := c08_groupsAux_mem rest s [] g0 hg0
  have hname : Key.str g0.1 ∈ Key.str s :: rest := by
    rcases h1 with h | h | h
    · rw [h]; exact List.mem_cons_self
    · exact List.mem_cons_of_mem _ h
    · have := hv _ (List.mem_cons_of_mem _ h); simp [validKey] at this
  have hvk := hv _ hname
  simp only [validKey, Bool.and_eq_true, Bool.not_eq_true', List.isEmpty_eq_false_iff, List.all_eq_true] at hvk
  refine ⟨⟨hvk.1, hvk.2⟩, fun i hi' => ?_⟩
  rcases h2 i hi' with e | e
  · cases e
  · exact hi i (List.mem_cons_of_mem _ e)

theorem c08_groups_cons (p : Path) (h : CmdPath p) : ∃ g gs, (groups p).map groupC = g :: gs := by
  obtain ⟨⟨s, rest, rfl⟩, _, _⟩ := h
  cases hh : groupsAux s [] rest with
  | nil => exact absurd hh (c08_groupsAux_ne_nil s [] rest)
  | cons g gs => exact ⟨groupC g, gs.map groupC, by simp [groups, hh]⟩

/-- the canonical key is what `NodePath.join_path` writes -/
theorem c08_renderKeyC_groupsAux (rest : Path) : ∀ (nm : String) (acc : List Int),
    renderKeyC ((groupsAux nm acc rest).map groupC) = nm.toList ++ subsC acc.reverse ++ restChars rest := by
  induction rest with
  | nil => intro nm acc; simp [groupsAux, renderKeyC, renderGroupC, groupC, restChars]
  | cons k ks ih =>
    intro nm acc
    cases k with
    | int i =>
      simp only [groupsAux, ih nm (i :: acc), List.reverse_cons, c08_subsC_append, restChars, childAccessor]
      simp
    | str s =>
      simp only [groupsAux, List.map_cons]
      rw [c08_renderKeyC_cons _ _ (by simpa using c08_groupsAux_ne_nil s [] ks), ih s []]
      simp [renderGroupC, groupC, restChars, childAccessor, subsC]
    | float s =>
      simp only [groupsAux, List.map_cons]
      rw [c08_renderKeyC_cons _ _ (by simpa using c08_groupsAux_ne_nil s [] ks), ih s []]
      simp [renderGroupC, groupC, restChars, childAccessor, subsC]

theorem c08_renderKeyC_joinPath (p : Path) (h : CmdPath p) :
    renderKeyC ((groups p).map groupC) = joinPathChars p := by
  obtain ⟨⟨s, rest, rfl⟩, hv, _⟩ := h
  have hvk := hv _ List.mem_cons_self
  simp only [validKey, Bool.and_eq_true, Bool.not_eq_true', List.isEmpty_eq_false_iff] at hvk
  have e : joinPathChars (Key.str s :: rest) = s.toList ++ restChars rest := by
    unfold joinPathChars
    rw [joinPathAux, joinPathAux_eq _ _ (by simpa [childAccessor] using hvk.1)]
    simp [childAccessor]
  rw [e, groups, c08_renderKeyC_groupsAux]
  simp [subsC]

/-! ### the document emitted for tokens -/

/-- keys of the parts as the YAML loader resolves them (`none`: a name outside `yamlNameKey`) -/
def resolveNames : List (String × List Int) → Option (List (Key × List Int))
  | [] => some []
  | (nm, is) :: gs =>
    match yamlNameKey nm with
    | none => none
    | some k =>
      match resolveNames gs with
      | none => none
      | some r => some ((k, is) :: r)

/-- `{ i: { j: … inner }}` -/
def emitIdx : List Int → Raw → Raw
  | [], inner => inner
  | i :: is, inner => .map .none {} [(.int i, emitIdx is inner)]

/-- the untagged mappings ` { part: { i: … value }}` below the root -/
def emitParts : List (Key × List Int) → Scalar → Raw
  | [], v => .scalar .none {} (.lit v)
  | (k, is) :: gs, v => .map .none {} [(k, emitIdx is (emitParts gs v))]

/-- representation tree of the text `!notnew { part: { i: …  { part: … value }}}`: one single-key
    mapping per name and per index, `!notnew` on the root mapping only -/
def emitDocK : List (Key × List Int) → Scalar → Raw
  | [], v => .scalar .plain { new := some false } (.lit v)
  | (k, is) :: gs, v => .map .plain { new := some false } [(k, emitIdx is (emitParts gs v))]

/-- the document `process_cmdline` emits for the (untagged) tokens `gs` and a value text that YAML
    reads as the scalar `v` -/
def emitDoc (gs : List (String × List Int)) (v : Scalar) : Option Raw :=
  match resolveNames gs with
  | none => none
  | some kgs => some (emitDocK kgs v)

def keyPath : List (Key × List Int) → Path
  | [] => []
  | (k, is) :: gs => k :: (is.map Key.int ++ keyPath gs)

theorem c08_emitIdx_rawIn (is : List Int) (rest : Path) (v : Scalar) :
    emitIdx is (c08_rawIn rest v) = c08_rawIn (is.map Key.int ++ rest) v := by
  induction is with
  | nil => rfl
  | cons i is ih => simp [emitIdx, c08_rawIn, ih]

theorem c08_emitParts_rawIn (kgs : List (Key × List Int)) (v : Scalar) :
    emitParts kgs v = c08_rawIn (keyPath kgs) v := by
  induction kgs with
  | nil => rfl
  | cons g gs ih =>
    obtain ⟨k, is⟩ := g
    simp [emitParts, keyPath, c08_rawIn, ih, c08_emitIdx_rawIn]

theorem c08_emitDocK_rawDoc (kgs : List (Key × List Int)) (v : Scalar) :
    emitDocK kgs v = c08_rawDoc (keyPath kgs) v := by
  cases kgs with
  | nil => rfl
  | cons g gs =>
    obtain ⟨k, is⟩ := g
    simp [emitDocK, keyPath, c08_rawDoc, c08_emitParts_rawIn, c08_emitIdx_rawIn]

/-- names the YAML loader keeps as strings -/
def StrNames (gs : List (String × List Int)) : Prop := ∀ g ∈ gs, yamlNameKey g.1 = some (.str g.1)

theorem c08_resolveNames_str (gs : List (String × List Int)) (h : StrNames gs) :
    resolveNames gs = some (gs.map (fun g => (Key.str g.1, g.2))) := by
  induction gs with
  | nil => rfl
  | cons g gs ih =>
    obtain ⟨nm, is⟩ := g
    have := h (nm, is) List.mem_cons_self
    simp only at this
    simp [resolveNames, this, ih (fun x hx => h x (List.mem_cons_of_mem _ hx))]

theorem c08_keyPath_str (gs : List (String × List Int)) :
    keyPath (gs.map (fun g => (Key.str g.1, g.2))) = tokensToPath gs := by
  induction gs with
  | nil => rfl
  | cons g gs ih => simp [keyPath, tokensToPath, groupPath, ih]

theorem c08_emitDoc_rawDoc (gs : List (String × List Int)) (v : Scalar) (h : StrNames gs) :
    emitDoc gs v = some (c08_rawDoc (tokensToPath gs) v) := by
  simp [emitDoc, c08_resolveNames_str gs h, c08_emitDocK_rawDoc, c08_keyPath_str]

/-- names of a path that YAML keeps as strings -/
def StrPath (p : Path) : Prop := ∀ s, Key.str s ∈ p → yamlNameKey s = some (.str s)

theorem c08_groups_strNames (p : Path) (h : CmdPath p) (hs : StrPath p) : StrNames (groups p) := by
  obtain ⟨⟨s, rest, rfl⟩, hv, _⟩ := h
  intro g hg
  obtain ⟨h1, _⟩ := c08_groupsAux_mem rest s [] g hg
  apply hs
  rcases h1 with h | h | h
  · rw [h]; exact List.mem_cons_self
  · exact List.mem_cons_of_mem _ h
  · have := hv _ (List.mem_cons_of_mem _ h); simp [validKey] at this

/-! ### strings -/

/-- the exception of a failed inline option (for examples) -/
def cmdErrOf {α : Type} : Except CmdErr α → Option CmdErr
  | .ok _ => none
  | .error e => some e

theorem c08_groupStr_groupC (g : String × List Int) : groupStr (groupC g) = g := by
  obtain ⟨nm, is⟩ := g
  simp [groupStr, groupC, String.ofList_toList]

theorem c08_tokens_render (p : Path) (value : String) (h : CmdPath p) (hv : '\n' ∉ pyRStrip value.toList) :
    tokens (renderOverride p value) = some (false, groups p, strip value) := by
  obtain ⟨g, gs, hgs⟩ := c08_groups_cons p h
  have hgood := c08_groups_good p h
  rw [hgs] at hgood
  have := c08_tokensC_render g gs value.toList hgood hv
  unfold tokens renderOverride
  rw [String.toList_ofList, hgs, this]
  simp only [← hgs, List.map_map, strip]
  congr 3
  have e : (groupStr ∘ groupC) = id := funext c08_groupStr_groupC
  rw [e, List.map_id]

end AY
