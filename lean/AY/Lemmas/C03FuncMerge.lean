/-
  AY.Lemmas.C03FuncMerge — the merge on entry-shaped trees: at every entry path (a path through
  plain mappings that ends at a scalar leaf or at a function node) the information of the merged
  entry is the leaf rule `pickInfo` of the two informations; entries present on one side only are
  kept.  Main induction of C03 for documents with function-node entries.
-/
import AY.Lemmas.C03FuncArgs
set_option linter.unusedVariables false
set_option linter.unusedSimpArgs false
namespace AY.C03F
open AY

/-! ### one entry merged onto one entry -/

theorem isMap_false_func {f k cs} (h : isMap (.comp f k cs) = false) : k.isFunc = true := by
  simpa [isMap] using h

theorem isFuncN_of_entry_comp {f k cs} (h : isMap (.comp f k cs) = false) : isFuncN (.comp f k cs) = true :=
  isMap_false_func h

/-- an entry carries an information, and re-flagging it keeps its value -/
theorem entry_info {n : Node} (h : entShaped n = true) (hm : isMap n = false) :
    ∃ v, entryInfo n = some (ePrio n.flags, v, n.flags.md) ∧
      ∀ fl, entryInfo (propagate (n.setFlags fl)) = some (ePrio fl, v, fl.md) := by
  cases n with
  | leaf f k =>
    obtain ⟨v, rfl, _, _⟩ := es_leaf h
    exact ⟨v, rfl, fun fl => rfl⟩
  | comp f k cs =>
    obtain ⟨t, ht⟩ := isFunc_func? (isMap_false_func hm)
    refine ⟨.str t, entryInfo_func ht, fun fl => ?_⟩
    obtain ⟨cs', h1, _⟩ := propagate_kind fl k cs
    simp only [Node.setFlags, h1, entryInfo_func ht]

/-- the surviving side of the leaf rule is an entry again -/
theorem winner_entry {w l : Node} (hw : entShaped w = true) (hl : entShaped l = true)
    (hmw : isMap w = false) :
    entShaped (propagate (w.setFlags (replaceOtherFlags w.flags l.flags))) = true ∧
    isMap (propagate (w.setFlags (replaceOtherFlags w.flags l.flags))) = false ∧
    isFuncN (propagate (w.setFlags (replaceOtherFlags w.flags l.flags))) = isFuncN w := by
  have hls := safe_of_FN (es_flagsFN hl)
  cases w with
  | leaf f k =>
    obtain ⟨v, rfl, hf, hv⟩ := es_leaf hw
    refine ⟨?_, rfl, rfl⟩
    show entShaped (.leaf (replaceOtherFlags f l.flags) (.scalar v)) = true
    simp [entShaped, flagsDS_replaceOther hf hls, hv]
  | comp f k cs =>
    obtain ⟨t, ht⟩ := isFunc_func? (isMap_false_func hmw)
    obtain ⟨hf, htne, hcs⟩ := es_func ht hw
    obtain ⟨cs', h1, _⟩ := propagate_kind (replaceOtherFlags f l.flags) k cs
    refine ⟨propagate_func_es ht (flagsFN_replaceOther hf hls) htne (argsW_of_S hcs), ?_, ?_⟩
    · show isMap (propagate (.comp (replaceOtherFlags f l.flags) k cs)) = false
      rw [h1]; exact hmw
    · show isFuncN (propagate (.comp (replaceOtherFlags f l.flags) k cs)) = _
      rw [h1]; rfl

/-- `ConfigNode.on_merge_impl` on two entries -/
theorem leafRule_entry {a b : Node} (ha : entShaped a = true) (hb : entShaped b = true)
    (hma : isMap a = false) (hmb : isMap b = false) :
    entShaped (leafRule a b).1 = true ∧ isMap (leafRule a b).1 = false ∧
    entryInfo (leafRule a b).1 = pickInfo (entryInfo a) (entryInfo b) ∧
    (isFuncN a = true → isFuncN b = true → isFuncN (leafRule a b).1 = true) := by
  obtain ⟨va, ha1, ha2⟩ := entry_info ha hma
  obtain ⟨vb, hb1, hb2⟩ := entry_info hb hmb
  by_cases hp : ePrio a.flags > ePrio b.flags
  · rw [leafRule_self_wins hp]
    obtain ⟨h1, h2, h3⟩ := winner_entry ha hb hma
    refine ⟨h1, h2, ?_, fun hfa _ => by rw [h3]; exact hfa⟩
    rw [ha2, ha1, hb1]
    simp only [pickInfo, hp, if_true]; rfl
  · rw [leafRule_other_wins hp]
    obtain ⟨h1, h2, h3⟩ := winner_entry hb ha hmb
    refine ⟨h1, h2, ?_, fun _ hfb => by rw [h3]; exact hfb⟩
    rw [hb2, ha1, hb1]
    simp only [pickInfo, hp, if_false]; rfl

/-- `FunctionNode.on_merge_impl` for a writer that is an entry: it succeeds with an entry -/
theorem funcMerge_total (n : Nat) (sf : Flags) (sk : CompKind) (f : String) (scs : List (Key × Node)) (b : Node)
    (hsk : sk.func? = some f) (hs : entShaped (.comp sf sk scs) = true) (hb : entShaped b = true)
    (hmb : isMap b = false) (hd : b.depth ≤ n) :
    ∃ r same, funcMerge (mergeF n) sf sk f scs b = .ok (r, same) ∧ entShaped r = true := by
  obtain ⟨hsf, hfne, hscs⟩ := es_func hsk hs
  have hscsW := argsW_of_S hscs
  cases b with
  | leaf of lk =>
    obtain ⟨v, rfl, hof, hv⟩ := es_leaf hb
    have hofs : of.safe = none := safe_of_FN (flagsFN_of_DS hof)
    cases v with
    | str g =>
      have hg : g ≠ "" := fun e => hv (by rw [e])
      have hsv : (LeafKind.scalar (.str g)).strVal = g := rfl
      simp only [funcMerge, LeafKind.isStr, Scalar.isStr, if_true, hsv]
      split
      · split
        · exact ⟨_, _, rfl, propagate_func_es (setFunc_func? g hsk) (flagsFN_replaceSelf hsf hofs) hg rfl⟩
        · exact ⟨_, _, rfl, propagate_func_es hsk (flagsFN_replaceSelf hsf hofs) hfne hscsW⟩
      · exact ⟨_, _, rfl, propagate_func_es hsk (flagsFN_replaceOther hsf hofs) hfne hscsW⟩
    | null => exact ⟨_, _, rfl, (leafRule_entry hs hb (by simp [isMap, isFunc_of_func? hsk]) rfl).1⟩
    | bool x => exact ⟨_, _, rfl, (leafRule_entry hs hb (by simp [isMap, isFunc_of_func? hsk]) rfl).1⟩
    | int x => exact ⟨_, _, rfl, (leafRule_entry hs hb (by simp [isMap, isFunc_of_func? hsk]) rfl).1⟩
    | float x => exact ⟨_, _, rfl, (leafRule_entry hs hb (by simp [isMap, isFunc_of_func? hsk]) rfl).1⟩
  | comp of ok ocs =>
    obtain ⟨g, hg⟩ := isFunc_func? (isMap_false_func hmb)
    obtain ⟨hof, hgne, hocs⟩ := es_func hg hb
    have hofs := safe_of_FN hof
    obtain ⟨m, rfl⟩ : ∃ m, n = m + 1 := by
      simp only [Node.depth] at hd
      exact ⟨n - 1, by omega⟩
    simp only [funcMerge, hg]
    split
    · split
      · exact ⟨_, _, rfl, propagate_func_es hsk (flagsFN_replaceOther hsf hofs) hfne hscsW⟩
      · exact compMerge_args_total m sf (sk.setFunc g) _ of ok ocs g g (setFunc_func? g hsk) hg hgne hgne hsf hof
          (by split <;> first | rfl | exact hscsW) hocs
    · exact compMerge_args_total m sf sk scs of ok ocs f g hsk hg hfne hgne hsf hof hscsW hocs

/-- ENTRY ← ENTRY: merging an entry `b` (scalar leaf or function node with scalar arguments) onto an
    entry `a` succeeds; the result is an entry whose information is the leaf rule applied to the
    two informations; a function node merged onto a function node gives a function node -/
theorem entMerge_total (n : Nat) (a b : Node) (ha : entShaped a = true) (hb : entShaped b = true)
    (hma : isMap a = false) (hmb : isMap b = false) (hd : b.depth ≤ n) :
    ∃ r same, mergeF (n + 1) a b = .ok (r, same) ∧ entShaped r = true ∧ isMap r = false ∧
      entryInfo r = pickInfo (entryInfo a) (entryInfo b) ∧
      (isFuncN a = true → isFuncN b = true → isFuncN r = true) ∧
      (isFuncN a = true → isWriter b = true → isFuncN r = true) := by
  cases a with
  | leaf fa ka =>
    obtain ⟨h1, h2, h3, h4⟩ := leafRule_entry ha hb hma hmb
    exact ⟨_, _, rfl, h1, h2, h3, h4, fun hh => by cases hh⟩
  | comp sf sk scs =>
    obtain ⟨f, hsk⟩ := isFunc_func? (isMap_false_func hma)
    obtain ⟨r, same, h, hr⟩ := funcMerge_total n sf sk f scs b hsk ha hb hmb hd
    have hm : mergeF (n + 1) (.comp sf sk scs) b = .ok (r, same) := by rw [mergeF_func n sf sk f scs b hsk]; exact h
    by_cases hw : isWriter b = true
    · obtain ⟨h1, h2, _⟩ := funcStep n sf sk f scs b r same hsk hw hm
      refine ⟨r, same, hm, hr, ?_, h2, (fun _ _ => h1), fun _ _ => h1⟩
      cases r with
      | leaf _ _ => cases h1
      | comp fr kr cr => simpa [isMap, isFuncN] using h1
    · -- a scalar that is not a string: the leaf rule
      cases b with
      | comp of ok ocs => exact absurd (isMap_false_func hmb) hw
      | leaf of lk =>
        obtain ⟨v, rfl, _, _⟩ := es_leaf hb
        have hns : (LeafKind.scalar v).isStr = false := by
          cases v <;> first | rfl | (exfalso; exact hw rfl)
        have hlr : funcMerge (mergeF n) sf sk f scs (.leaf of (.scalar v)) =
            .ok (leafRule (.comp sf sk scs) (.leaf of (.scalar v))) := by
          simp [funcMerge, hns, compMerge]
        rw [hlr] at h
        simp only [Except.ok.injEq] at h
        obtain ⟨h1, h2, h3, h4⟩ := leafRule_entry ha hb hma hmb
        rw [h] at h1 h2 h3 h4
        exact ⟨r, same, hm, h1, h2, h3, h4, fun _ hw' => absurd hw' hw⟩

/-! ### entry paths -/

/-- `some true` = plain mapping, `some false` = entry (scalar leaf or function node), `none` = the
    path does not exist; paths do not descend into function nodes -/
def shapeE : Node → Path → Option Bool
  | n, [] => some (isMap n)
  | .leaf .., _ :: _ => none
  | .comp _ k cs, key :: rest =>
    if k.isFunc then none
    else
      match alookup key cs with
      | none => none
      | some c => shapeE c rest

/-- the entry stored at a path (through plain mappings only) -/
def entAt : Node → Path → Option Node
  | n, [] => if isMap n then none else some n
  | .leaf .., _ :: _ => none
  | .comp _ k cs, key :: rest =>
    if k.isFunc then none
    else
      match alookup key cs with
      | none => none
      | some c => entAt c rest

/-- the information written at an entry path -/
def infoAt (n : Node) (p : Path) : Option LeafInfo := (entAt n p).bind entryInfo

/-- the entry at the path is a function node -/
def funcAt (n : Node) (p : Path) : Bool :=
  match entAt n p with
  | some e => isFuncN e
  | none => false

/-- the entry at the path, if there is one, is a writer of a function entry: a function node or a
    string naming a target -/
def writerAt (n : Node) (p : Path) : Bool :=
  match entAt n p with
  | some e => isWriter e
  | none => true

/-- shape compatibility: a path existing on both sides is an entry in both or a mapping in both -/
def compatE (a b : Node) : Prop :=
  ∀ p x y, shapeE a p = some x → shapeE b p = some y → x = y

theorem shapeE_nil (n : Node) : shapeE n [] = some (isMap n) := by cases n <;> rfl

theorem shapeE_map_cons {f k cs} (hk : k.isFunc = false) (key : Key) (rest : Path) :
    shapeE (.comp f k cs) (key :: rest) = (match alookup key cs with | none => none | some c => shapeE c rest) := by
  simp [shapeE, hk]

theorem infoAt_map_cons {f k cs} (hk : k.isFunc = false) (key : Key) (rest : Path) :
    infoAt (.comp f k cs) (key :: rest) = (match alookup key cs with | none => none | some c => infoAt c rest) := by
  simp only [infoAt, entAt, hk, Bool.false_eq_true, if_false]
  cases alookup key cs <;> rfl

theorem entAt_map_cons {f k cs} (hk : k.isFunc = false) (key : Key) (rest : Path) :
    entAt (.comp f k cs) (key :: rest) = (match alookup key cs with | none => none | some c => entAt c rest) := by
  simp [entAt, hk]

theorem entAt_map_nil {n : Node} (h : isMap n = true) : entAt n [] = none := by
  cases n <;> simp [entAt, h]

theorem entAt_entry_nil {n : Node} (h : isMap n = false) : entAt n [] = some n := by
  cases n <;> simp [entAt, h]

theorem entAt_entry_cons {n : Node} (h : isMap n = false) (key : Key) (rest : Path) : entAt n (key :: rest) = none := by
  cases n with
  | leaf f k => rfl
  | comp f k cs => simp [entAt, isMap_false_func h]

theorem infoAt_map_nil {n : Node} (h : isMap n = true) : infoAt n [] = none := by
  cases n <;> simp [infoAt, entAt, h]

theorem infoAt_entry_nil {n : Node} (h : isMap n = false) : infoAt n [] = entryInfo n := by
  cases n <;> simp [infoAt, entAt, h]

theorem shapeE_entry_cons {n : Node} (h : isMap n = false) (key : Key) (rest : Path) : shapeE n (key :: rest) = none := by
  cases n with
  | leaf f k => rfl
  | comp f k cs => simp [shapeE, isMap_false_func h]

theorem infoAt_entry_cons {n : Node} (h : isMap n = false) (key : Key) (rest : Path) : infoAt n (key :: rest) = none := by
  cases n with
  | leaf f k => rfl
  | comp f k cs => simp [infoAt, entAt, isMap_false_func h]

theorem compatE_child {fa ca fb cb} (h : compatE (.comp fa .dict ca) (.comp fb .dict cb)) {k : Key} {c v : Node}
    (h1 : alookup k ca = some c) (h2 : alookup k cb = some v) : compatE c v := by
  intro p x y hx hy
  apply h (k :: p) x y
  · rw [shapeE_map_cons rfl, h1]; exact hx
  · rw [shapeE_map_cons rfl, h2]; exact hy

/-! ### what one merge guarantees -/

/-- postcondition of `a ⊕ b = r` on entry-shaped trees -/
def PostE (a b r : Node) : Prop :=
  entShaped r = true ∧
  (∀ p, shapeE r p = (shapeE a p).or (shapeE b p)) ∧
  (∀ p, infoAt r p = pickInfo (infoAt a p) (infoAt b p)) ∧
  (∀ p, funcAt a p = true → writerAt b p = true → funcAt r p = true)

theorem PostE_entry {a b r : Node} (hma : isMap a = false) (hmb : isMap b = false) (hmr : isMap r = false)
    (hr : entShaped r = true) (hi : entryInfo r = pickInfo (entryInfo a) (entryInfo b))
    (hk : isFuncN a = true → isWriter b = true → isFuncN r = true) : PostE a b r := by
  refine ⟨hr, ?_, ?_, ?_⟩
  rotate_left 2
  · intro p
    cases p with
    | nil => simpa [funcAt, writerAt, entAt_entry_nil hma, entAt_entry_nil hmb, entAt_entry_nil hmr] using hk
    | cons k p => simp [funcAt, entAt_entry_cons hma]
  · intro p
    cases p with
    | nil => simp [shapeE_nil, hma, hmb, hmr]
    | cons k p => simp [shapeE_entry_cons hma, shapeE_entry_cons hmb, shapeE_entry_cons hmr]
  · intro p
    cases p with
    | nil => rw [infoAt_entry_nil hma, infoAt_entry_nil hmb, infoAt_entry_nil hmr]; exact hi
    | cons k p => rw [infoAt_entry_cons hma, infoAt_entry_cons hmb, infoAt_entry_cons hmr]; rfl

/-- pointwise description of the children after the key loop -/
def LoopPtE (rec : Node → Node → Except Err (Node × Bool)) (oa ob or : Option Node) : Prop :=
  match oa, ob with
  | x, none => or = x
  | none, some v => or = some v
  | some c, some v => ∃ nw same, rec c v = .ok (nw, same) ∧ or = some nw ∧ PostE c v nw

theorem es_truthy_func {f k cs} (hk : k.isFunc = true) (h : entShaped (.comp f k cs) = true) :
    (Node.comp f k cs).truthy = true := by
  obtain ⟨t, ht⟩ := isFunc_func? hk
  obtain ⟨_, hne, _⟩ := es_func ht h
  simp [Node.truthy, ht, hne]

theorem es_del_none {n : Node} (h : entShaped n = true) (hf : isFuncN n = false) : n.flags.del = none := by
  cases n with
  | leaf f k => obtain ⟨v, _, hd, _⟩ := es_leaf h; exact ((flagsDS_iff _).1 hd).1
  | comp f k cs => exact ((flagsDS_iff _).1 (es_map hf h).2.1).1

/-- an entry is never removed by the `delete`-and-falsy rule of the key loop -/
theorem es_entry_keep {x : Node} (h : entShaped x = true) (hm : isMap x = false) :
    (!x.truthy && x.flags.del == some true) = false := by
  cases x with
  | leaf f k => simp [es_del_none h rfl]
  | comp f k cs => simp [es_truthy_func (isMap_false_func hm) h]

theorem mergeStep_ES {rec : Node → Node → Except Err (Node × Bool)} {sf : Flags} (hsf : flagsDS sf = true)
    {acc : List (Key × Node)} (hacc : entShapedList acc = true) {k : Key} {v : Node} (hv : entShaped v = true)
    (hrec : ∀ c, alookup k acc = some c →
      ∃ nw same, rec c v = .ok (nw, same) ∧ PostE c v nw ∧ isMap c = isMap v ∧ isMap nw = isMap c ∧
        (isFuncN c = true → isFuncN v = true → isFuncN nw = true)) :
    ∃ x, mergeStep rec sf .dict [] acc (k, v) = .ok (aset k x acc) ∧ entShaped x = true ∧
      LoopPtE rec (alookup k acc) (some v) (some x) := by
  simp only [mergeStep, getChild, CompKind.isDictFam, if_true]
  cases hl : alookup k acc with
  | none =>
    refine ⟨v, ?_, hv, rfl⟩
    simp only [excBelow_nil, reqNew_allNew [] [] v (allNew_ES v hv), setChild, CompKind.isDictFam, if_true, adopt_ES hsf hv]
  | some c =>
    have hcES := alookup_es k acc hacc c hl
    obtain ⟨nw, same, hr, hpost, hcv, hnc, hfn⟩ := hrec c hl
    have hnw : entShaped nw = true := hpost.1
    refine ⟨nw, ?_, hnw, nw, same, hr, rfl, hpost⟩
    -- the branch taken for a container child never removes the entry
    have hF1 : c.isComp = true →
        (!nw.truthy && !hasPrio nw.flags v.flags false && v.flags.del == some true) = false := by
      intro hcc
      cases hvf : isFuncN v with
      | false => simp [es_del_none hv hvf]
      | true =>
        have hmv : isMap v = false := by
          cases v with
          | leaf _ _ => rfl
          | comp f kk cc => simpa [isMap, isFuncN] using hvf
        have hcf : isFuncN c = true := by
          cases c with
          | leaf _ _ => cases hcc
          | comp f kk cc => exact isFuncN_of_entry_comp (by rw [hcv, hmv])
        have hnf := hfn hcf hvf
        cases nw with
        | leaf _ _ => cases hnf
        | comp f kk cc => simp [es_truthy_func hnf hnw]
    have hF2 : c.isComp = false → (!nw.truthy && nw.flags.del == some true) = false := by
      intro hcc
      apply es_entry_keep hnw
      rw [hnc]
      cases c with
      | leaf _ _ => rfl
      | comp _ _ _ => cases hcc
    simp only [hr, reqNewBelow_allNew (allNew_ES nw hnw), setChild, replaceChild,
      CompKind.isDictFam, if_true, adopt_ES hsf hnw]
    cases hcc : c.isComp
    · simp only [Bool.false_eq_true, if_false, hF2 hcc]
      cases same <;> simp
    · simp only [if_true, hF1 hcc, Bool.false_eq_true, if_false]
      cases same <;> simp

theorem LoopPtE_frame {rec : Node → Node → Except Err (Node × Bool)} {oa or : Option Node}
    (h : LoopPtE rec oa none or) : or = oa := by
  cases oa <;> exact h

theorem mergeLoop_ES {rec : Node → Node → Except Err (Node × Bool)} {sf : Flags} (hsf : flagsDS sf = true) :
    ∀ (ocs acc : List (Key × Node)), entShapedList acc = true → keysNodup acc = true →
      entShapedList ocs = true → keysNodup ocs = true →
      (∀ k c v, alookup k acc = some c → alookup k ocs = some v →
        ∃ nw same, rec c v = .ok (nw, same) ∧ PostE c v nw ∧ isMap c = isMap v ∧ isMap nw = isMap c ∧
          (isFuncN c = true → isFuncN v = true → isFuncN nw = true)) →
      ∃ acc', mergeLoop rec sf .dict [] acc ocs = .ok acc' ∧ entShapedList acc' = true ∧ keysNodup acc' = true ∧
        ∀ k, LoopPtE rec (alookup k acc) (alookup k ocs) (alookup k acc')
  | [], acc, hacc, hnd, _, _, _ => by
    refine ⟨acc, rfl, hacc, hnd, ?_⟩
    intro k
    simp only [alookup]
    cases alookup k acc <;> rfl
  | (k, v) :: rest, acc, hacc, hnd, ho, hond, hrec => by
    have ho' : entShaped v = true ∧ entShapedList rest = true := by simpa [entShapedList] using ho
    have hond' : (akeys rest).contains k = false ∧ keysNodup rest = true := by simpa [keysNodup] using hond
    have hkrest : alookup k rest = none := (alookup_none_iff k rest).2 hond'.1
    obtain ⟨x, hstep, hx, hpt⟩ := mergeStep_ES hsf hacc (k := k) ho'.1
      (fun c hc => hrec k c v hc (by simp [alookup]))
    obtain ⟨acc', hloop, h1, h2, h3⟩ := mergeLoop_ES hsf rest (aset k x acc) (aset_es k x hx acc hacc)
      (keysNodup_aset k x acc hnd) ho'.2 hond'.2 (by
        intro k' c' v' hc' hv'
        have hne : ¬ k = k' := by intro e; subst e; rw [hkrest] at hv'; cases hv'
        rw [alookup_aset] at hc'
        simp only [hne, if_false] at hc'
        exact hrec k' c' v' hc' (by simp [alookup, hne, hv']))
    refine ⟨acc', by simp only [mergeLoop, hstep, hloop], h1, h2, ?_⟩
    intro k'
    have h3' := h3 k'
    rw [alookup_aset] at h3'
    by_cases hk : k = k'
    · subst hk
      simp only [if_true, hkrest] at h3'
      have e : alookup k acc' = some x := LoopPtE_frame h3'
      simp only [alookup, if_true, e]
      exact hpt
    · simp only [hk, if_false] at h3'
      simp only [alookup, hk, if_false]
      exact h3'

/-! ### main induction -/

theorem isMap_es_comp_dict {n : Node} (h : entShaped n = true) (hm : isMap n = true) :
    ∃ f cs, n = .comp f .dict cs := by
  cases n with
  | leaf _ _ => cases hm
  | comp f k cs =>
    have hk : k.isFunc = false := by simpa [isMap] using hm
    obtain ⟨rfl, _⟩ := es_map hk h
    exact ⟨f, cs, rfl⟩

theorem mergeF_ES : ∀ (fuel : Nat) (a b : Node), entShaped a = true → entShaped b = true → compatE a b →
    b.depth < fuel →
    ∃ r same, mergeF fuel a b = .ok (r, same) ∧ PostE a b r ∧ isMap r = isMap a ∧ isMap a = isMap b ∧
      (isFuncN a = true → isFuncN b = true → isFuncN r = true) ∧
      (isMap a = true → same = true ∧ r.flags = finishFlags a.flags b.flags) := by
  intro fuel
  induction fuel with
  | zero => intro a b _ _ _ h; omega
  | succ fuel ih =>
    intro a b ha hb hc hd
    have hshape : isMap a = isMap b := hc [] _ _ (shapeE_nil a) (shapeE_nil b)
    cases hma : isMap a with
    | false =>
      have hmb : isMap b = false := by rw [← hshape]; exact hma
      obtain ⟨r, same, h, hr, hmr, hi, hf, hw⟩ := entMerge_total fuel a b ha hb hma hmb (by omega)
      exact ⟨r, same, h, PostE_entry hma hmb hmr hr hi hw, hmr, hmb.symm, hf, fun hh => by cases hh⟩
    | true =>
      have hmb : isMap b = true := by rw [← hshape]; exact hma
      obtain ⟨fa, ca, rfl⟩ := isMap_es_comp_dict ha hma
      obtain ⟨fb, cb, rfl⟩ := isMap_es_comp_dict hb hmb
      obtain ⟨_, hfa, hnda, hca⟩ := es_map rfl ha
      obtain ⟨_, hfb, hndb, hcb⟩ := es_map rfl hb
      have hdep : depthList cb < fuel := by simp only [Node.depth] at hd; omega
      obtain ⟨acc', hloop, h1, h2, h3⟩ := mergeLoop_ES (rec := mergeF fuel) hfa cb ca hca hnda hcb hndb (by
        intro k c v hc' hv'
        have hcd := alookup_es k ca hca c hc'
        have hvd := alookup_es k cb hcb v hv'
        have hdv := depthList_lookup k cb v hv'
        obtain ⟨nw, same, hr, hpost, hm1, hm2, hfn, _⟩ := ih c v hcd hvd (compatE_child hc hc' hv') (by omega)
        exact ⟨nw, same, hr, hpost, hm2, hm1, hfn⟩)
      have hff := finishFlags_DS hfa hfb
      have hres : mergeF (fuel + 1) (.comp fa .dict ca) (.comp fb .dict cb) =
          .ok (.comp (finishFlags fa fb) .dict acc', true) := by
        simp only [mergeF, compMerge, eDel_DS hfb, Bool.false_eq_true, if_false, hloop, finishMerge,
          Node.flags, maybePromote, CompKind.sameClass, if_true, finishFlags]
        split
        · rw [propagate_ES (es_mk_map (replaceSelfFlags_DS hfa hfb) h2 h1)]
        · rw [propagate_ES (es_mk_map (replaceOtherFlags_DS hfa hfb) h2 h1)]
      refine ⟨_, true, hres, ⟨es_mk_map hff h2 h1, ?_, ?_, ?_⟩, rfl, rfl, (fun hh => by cases hh), fun _ => ⟨rfl, rfl⟩⟩
      rotate_left 2
      · intro p
        cases p with
        | nil => intro hh; simp [funcAt, entAt, isMap, CompKind.isFunc] at hh
        | cons k p =>
          simp only [funcAt, writerAt, entAt_map_cons (show CompKind.dict.isFunc = false from rfl)]
          have hk := h3 k
          cases hla : alookup k ca with
          | none => intro hh; simp at hh
          | some c =>
            cases hlb : alookup k cb with
            | none => simp only [hla, hlb, LoopPtE] at hk; rw [hk]; exact fun hh _ => hh
            | some v =>
              simp only [hla, hlb, LoopPtE] at hk
              obtain ⟨nw, same, _, e, hpost⟩ := hk
              rw [e]; exact hpost.2.2.2 p
      · intro p
        cases p with
        | nil => rfl
        | cons k p =>
          simp only [shapeE_map_cons (show CompKind.dict.isFunc = false from rfl)]
          have hk := h3 k
          cases hla : alookup k ca with
          | none =>
            cases hlb : alookup k cb with
            | none => simp only [hla, hlb, LoopPtE] at hk; rw [hk]; rfl
            | some v => simp only [hla, hlb, LoopPtE] at hk; rw [hk]; rfl
          | some c =>
            cases hlb : alookup k cb with
            | none => simp only [hla, hlb, LoopPtE] at hk; rw [hk]; simp
            | some v =>
              simp only [hla, hlb, LoopPtE] at hk
              obtain ⟨nw, same, _, e, hpost⟩ := hk
              rw [e]; exact hpost.2.1 p
      · intro p
        cases p with
        | nil => rfl
        | cons k p =>
          simp only [infoAt_map_cons (show CompKind.dict.isFunc = false from rfl)]
          have hk := h3 k
          cases hla : alookup k ca with
          | none =>
            cases hlb : alookup k cb with
            | none => simp only [hla, hlb, LoopPtE] at hk; rw [hk]; rfl
            | some v => simp only [hla, hlb, LoopPtE] at hk; rw [hk]; simp [pickInfo]
          | some c =>
            cases hlb : alookup k cb with
            | none =>
              simp only [hla, hlb, LoopPtE] at hk; rw [hk]
              show infoAt c p = pickInfo (infoAt c p) none
              cases infoAt c p <;> rfl
            | some v =>
              simp only [hla, hlb, LoopPtE] at hk
              obtain ⟨nw, same, _, e, hpost⟩ := hk
              rw [e]; exact hpost.2.2.1 p

/-- shape compatibility is inherited by the merged tree -/
theorem compatE_merged {a b r c : Node} (hab : compatE a b) (hac : compatE a c) (hbc : compatE b c)
    (hs : ∀ p, shapeE r p = (shapeE a p).or (shapeE b p)) : compatE r c := by
  intro p x y hx hy
  rw [hs p] at hx
  cases ha : shapeE a p with
  | some xa =>
    rw [ha] at hx
    simp at hx
    subst hx
    exact hac p _ _ ha hy
  | none =>
    rw [ha] at hx
    simp at hx
    exact hbc p _ _ hx hy

end AY.C03F
