/-
  AY.Lemmas.KeyInvariants — the key invariants of `_children`, written by different people for
  different properties, are one invariant; every tree the library builds has it.

    WellKeyed               Model/Copy.lean (C19)        distinct dict keys AND lists numbered 0..n-1
    uniqueKeys              Lemmas/PlainEvalLemmas (C07/C09/C10/C11)   distinct keys, every container
    distinctKeys            Lemmas/C14Lemmas (C14)       distinct keys, every container
    Container.distinctKeys  Model/Container.lean (C17)   distinct keys, every container
    wfKeys, c16_numbered, Assoc.keysNodup, c08_keysNodupH   → Lemmas/KeyInvariantsAssoc.lean
                            (those files import Lemmas/Assoc.lean, whose `AY.keysNodup` clashes with
                            the one of Model/Copy.lean, so they cannot be imported here)

  `KI.Keyed` (Lemmas/KeyInv.lean) IS `WellKeyed` (`keyed_eq_wellKeyed`), and `WellKeyed` implies the
  three "distinct keys" predicates (a numbered list has distinct keys).  The converse fails only for
  lists (`[(int 5, x)]` has distinct keys but is not numbered).

  Whole-build statements, in terms of `WellKeyed`:
    construct_wellKeyed   the loader, for documents without duplicate sibling keys (`KI.rawKeyed`,
                          FULL tag vocabulary of `Raw`)
    mergeF_wellKeyed / merge_wellKeyed      `on_merge`
    flatten_wellKeyed                       `Builder.flatten`
    built_wellKeyed / built_uniqueKeys / built_distinctKeys / built_containerDistinctKeys
-/
import AY.Lemmas.KeyInvConstruct
import AY.Lemmas.KeyInvFlatten
import AY.Model.Copy
import AY.Model.Container
import AY.Lemmas.PlainEvalLemmas
import AY.Lemmas.C14Lemmas
namespace AY

/-! ### `KI.Keyed` is `WellKeyed` -/

theorem ki_bne (a b : Key) : (a != b) = !(b == a) := by
  rw [bne, BEq.comm]

theorem ki_keyFresh (k : Key) : ∀ (cs : List (Key × Node)), keyFresh k cs = !(KI.keysOf cs).contains k
  | [] => rfl
  | (k', v) :: rest => by
    simp only [keyFresh, KI.keysOf_cons, List.contains_cons, ki_keyFresh k rest, Bool.not_or, ki_bne]

theorem ki_keysNodup : ∀ (cs : List (Key × Node)), keysNodup cs = KI.ndK (KI.keysOf cs)
  | [] => rfl
  | (k, v) :: rest => by
    simp only [keysNodup, KI.keysOf_cons, KI.ndK, ki_keyFresh, ki_keysNodup rest]

theorem ki_numberedFrom : ∀ (i : Nat) (cs : List (Key × Node)), numberedFrom i cs = KI.numK i (KI.keysOf cs)
  | _, [] => rfl
  | i, (k, v) :: rest => by
    simp only [numberedFrom, KI.keysOf_cons, KI.numK, ki_numberedFrom (i + 1) rest]

mutual
theorem keyed_eq_wellKeyed : ∀ (n : Node), KI.Keyed n = WellKeyed n
  | .leaf f k => rfl
  | .comp f k cs => by
    simp only [KI.Keyed, WellKeyed, KI.topOK, ki_keysNodup, ki_numberedFrom, keyedL_eq_wellKeyedList cs]
theorem keyedL_eq_wellKeyedList : ∀ (cs : List (Key × Node)), KI.KeyedL cs = wellKeyedList cs
  | [] => rfl
  | (k, c) :: rest => by
    simp only [KI.KeyedL, wellKeyedList, keyed_eq_wellKeyed c, keyedL_eq_wellKeyedList rest]
end

/-! ### `WellKeyed` implies the "distinct keys" predicates -/

theorem ki_ahas (k : Key) : ∀ (cs : List (Key × Node)), ahas k cs = (KI.keysOf cs).contains k
  | [] => rfl
  | (k', v) :: rest => by
    have ih := ki_ahas k rest
    simp only [ahas] at ih
    simp only [ahas, alookup, KI.keysOf_cons, List.contains_cons]
    by_cases e : k' = k
    · subst e; simp
    · have e' : ¬ k = k' := fun h => e h.symm
      simp [e, e', ih]

theorem ki_topOK_ndK {k : CompKind} {ks : List Key} (h : KI.topOK k ks = true) : KI.ndK ks = true := by
  unfold KI.topOK at h
  split at h
  · exact h
  · exact KI.ndK_of_numK h

mutual
theorem keyed_uniqueKeys : ∀ (n : Node), KI.Keyed n = true → uniqueKeys n = true
  | .leaf f k, _ => rfl
  | .comp f k cs, h => by
    rw [KI.keyed_comp] at h
    simp only [uniqueKeys]
    exact keyedL_uniqueKeysList cs (ki_topOK_ndK h.1) h.2
theorem keyedL_uniqueKeysList : ∀ (cs : List (Key × Node)), KI.ndK (KI.keysOf cs) = true → KI.KeyedL cs = true →
    uniqueKeysList cs = true
  | [], _, _ => rfl
  | (k, c) :: rest, hn, hk => by
    rw [KI.keysOf_cons] at hn
    simp only [KI.ndK, Bool.and_eq_true] at hn
    rw [KI.KeyedL_cons] at hk
    simp only [uniqueKeysList, Bool.and_eq_true, ki_ahas]
    exact ⟨⟨hn.1, keyed_uniqueKeys c hk.1⟩, keyedL_uniqueKeysList rest hn.2 hk.2⟩
end

theorem ki_keysOf_c14 (cs : List (Key × Node)) : keysOf cs = KI.keysOf cs := rfl

mutual
theorem keyed_distinctKeys : ∀ (n : Node), KI.Keyed n = true → distinctKeys n = true
  | .leaf f k, _ => rfl
  | .comp f k cs, h => by
    rw [KI.keyed_comp] at h
    simp only [distinctKeys]
    exact keyedL_distinctKeysList cs (ki_topOK_ndK h.1) h.2
theorem keyedL_distinctKeysList : ∀ (cs : List (Key × Node)), KI.ndK (KI.keysOf cs) = true → KI.KeyedL cs = true →
    distinctKeysList cs = true
  | [], _, _ => rfl
  | (k, c) :: rest, hn, hk => by
    rw [KI.keysOf_cons] at hn
    simp only [KI.ndK, Bool.and_eq_true] at hn
    rw [KI.KeyedL_cons] at hk
    simp only [distinctKeysList, Bool.and_eq_true, ki_keysOf_c14]
    exact ⟨⟨hn.1, keyed_distinctKeys c hk.1⟩, keyedL_distinctKeysList rest hn.2 hk.2⟩
end

theorem ki_nodupKeys : ∀ (cs : List (Key × Node)), Container.nodupKeys cs = KI.ndK (KI.keysOf cs)
  | [] => rfl
  | (k, v) :: rest => by
    simp only [Container.nodupKeys, KI.keysOf_cons, KI.ndK, ki_ahas, ki_nodupKeys rest]

mutual
theorem keyed_containerDistinctKeys : ∀ (n : Node), KI.Keyed n = true → Container.distinctKeys n = true
  | .leaf f k, _ => rfl
  | .comp f k cs, h => by
    rw [KI.keyed_comp] at h
    simp only [Container.distinctKeys, Bool.and_eq_true, ki_nodupKeys]
    exact ⟨ki_topOK_ndK h.1, keyedL_containerDistinctKeysL cs h.2⟩
theorem keyedL_containerDistinctKeysL : ∀ (cs : List (Key × Node)), KI.KeyedL cs = true →
    Container.distinctKeysL cs = true
  | [], _ => rfl
  | (k, c) :: rest, hk => by
    rw [KI.KeyedL_cons] at hk
    simp only [Container.distinctKeysL, Bool.and_eq_true]
    exact ⟨keyed_containerDistinctKeys c hk.1, keyedL_containerDistinctKeysL rest hk.2⟩
end

theorem wellKeyed_uniqueKeys {n : Node} (h : WellKeyed n = true) : uniqueKeys n = true :=
  keyed_uniqueKeys n (by rw [keyed_eq_wellKeyed]; exact h)
theorem wellKeyed_distinctKeys {n : Node} (h : WellKeyed n = true) : distinctKeys n = true :=
  keyed_distinctKeys n (by rw [keyed_eq_wellKeyed]; exact h)
theorem wellKeyed_containerDistinctKeys {n : Node} (h : WellKeyed n = true) : Container.distinctKeys n = true :=
  keyed_containerDistinctKeys n (by rw [keyed_eq_wellKeyed]; exact h)

/-! ### the three "distinct keys" predicates are literally the same predicate -/

mutual
theorem uniqueKeys_eq_distinctKeys : ∀ (n : Node), uniqueKeys n = distinctKeys n
  | .leaf f k => rfl
  | .comp f k cs => by simp only [uniqueKeys, distinctKeys]; exact uniqueKeysList_eq_distinctKeysList cs
theorem uniqueKeysList_eq_distinctKeysList : ∀ (cs : List (Key × Node)), uniqueKeysList cs = distinctKeysList cs
  | [] => rfl
  | (k, c) :: rest => by
    simp only [uniqueKeysList, distinctKeysList, ki_ahas, ki_keysOf_c14, uniqueKeys_eq_distinctKeys c,
      uniqueKeysList_eq_distinctKeysList rest]
end

mutual
theorem uniqueKeys_eq_containerDistinctKeys : ∀ (n : Node), uniqueKeys n = Container.distinctKeys n
  | .leaf f k => rfl
  | .comp f k cs => by
    simp only [uniqueKeys, Container.distinctKeys]; exact uniqueKeysList_eq_container cs
theorem uniqueKeysList_eq_container : ∀ (cs : List (Key × Node)),
    uniqueKeysList cs = (Container.nodupKeys cs && Container.distinctKeysL cs)
  | [] => rfl
  | (k, c) :: rest => by
    simp only [uniqueKeysList, Container.nodupKeys, Container.distinctKeysL, uniqueKeys_eq_containerDistinctKeys c,
      uniqueKeysList_eq_container rest]
    generalize ahas k rest = a
    generalize Container.distinctKeys c = b
    generalize Container.nodupKeys rest = d
    generalize Container.distinctKeysL rest = e
    cases a <;> cases b <;> cases d <;> cases e <;> rfl
end

/-! ### every tree the library builds is well-keyed -/

/-- the loader: documents without duplicate sibling keys, the full tag vocabulary of `Raw` -/
theorem construct_wellKeyed (env : Env) (r : Raw) (n : Node) (hr : KI.rawKeyed r = true)
    (h : construct env r = .ok n) : WellKeyed n = true := by
  rw [← keyed_eq_wellKeyed]; exact KI.construct_keyed env r n hr h

/-- `on_merge` (every dispatch, promotions, the pruning pre-filter, list deletion with renumbering) -/
theorem mergeF_wellKeyed (fuel : Nat) (a b r : Node) (same : Bool) (ha : WellKeyed a = true) (hb : WellKeyed b = true)
    (h : mergeF fuel a b = .ok (r, same)) : WellKeyed r = true := by
  rw [← keyed_eq_wellKeyed] at ha hb ⊢; exact KI.mergeF_keyed fuel a b r same ha hb h

theorem merge_wellKeyed (a b m : Node) (ha : WellKeyed a = true) (hb : WellKeyed b = true)
    (h : merge a b = .ok m) : WellKeyed m = true := by
  rw [← keyed_eq_wellKeyed] at ha hb ⊢; exact KI.merge_keyed ha hb h

/-- `Builder.flatten` (`!prev`, `!clear`, `!append`, `!extend`, nested streams, re-sets, the fold of merges) -/
theorem flatten_wellKeyed (stages : List Node) (r : Node) (hs : ∀ s, s ∈ stages → WellKeyed s = true)
    (h : flatten stages = .ok r) : WellKeyed r = true := by
  rw [← keyed_eq_wellKeyed]
  exact KI.flatten_keyed stages r (fun s hm => by rw [keyed_eq_wellKeyed]; exact hs s hm) h

/-- the stages come from the loader, from documents without duplicate sibling keys -/
def BuiltFrom (stages : List Node) : Prop :=
  ∀ s, s ∈ stages → ∃ env raw, KI.rawKeyed raw = true ∧ construct env raw = .ok s

theorem built_wellKeyed {stages : List Node} {r : Node} (hs : BuiltFrom stages) (h : flatten stages = .ok r) :
    WellKeyed r = true :=
  flatten_wellKeyed stages r
    (fun s hm => by obtain ⟨env, raw, hr, e⟩ := hs s hm; exact construct_wellKeyed env raw s hr e) h

theorem built_uniqueKeys {stages : List Node} {r : Node} (hs : BuiltFrom stages) (h : flatten stages = .ok r) :
    uniqueKeys r = true := wellKeyed_uniqueKeys (built_wellKeyed hs h)

theorem built_distinctKeys {stages : List Node} {r : Node} (hs : BuiltFrom stages) (h : flatten stages = .ok r) :
    distinctKeys r = true := wellKeyed_distinctKeys (built_wellKeyed hs h)

theorem built_containerDistinctKeys {stages : List Node} {r : Node} (hs : BuiltFrom stages)
    (h : flatten stages = .ok r) : Container.distinctKeys r = true :=
  wellKeyed_containerDistinctKeys (built_wellKeyed hs h)

end AY
