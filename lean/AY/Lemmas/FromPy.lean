/-
  AY.Lemmas.FromPy — invariants of API-built trees (`fromPy`, Model/FromPy.lean): the inherited flags
  are what the parents prescribe (`FlagsConsistent`), the child maps are well-keyed when the input's
  mappings have distinct keys, the tree is a plain tree.
-/
import AY.Model.FromPy
import AY.Model.Copy
import AY.Lemmas.KeyInvariants
namespace AY.FP

theorem fromPy_flags (env : Env) (kw : PyKw) : ∀ (d : Plain), (fromPy env kw d).flags = pyFlags env kw
  | .scalar _ => rfl
  | .list _ => rfl
  | .dict _ => rfl

/-- a child is born with exactly the inherited flags `_get_child_kwargs` of its parent prescribes -/
theorem child_ok (env : Env) (kw : PyKw) (f : Flags) (k : CompKind) (c : ChildKw) (h : childKw f k = some c) :
    childFlagsOK c (pyFlags env (pyChildKw kw f k)) = true := by
  simp [pyChildKw, h, pyFlags, childFlagsOK]

mutual
theorem fromPy_cons (env : Env) : ∀ (kw : PyKw) (d : Plain), FlagsConsistent (fromPy env kw d) = true
  | _, .scalar _ => rfl
  | kw, .list xs => by
    simp only [fromPy, FlagsConsistent]
    exact fromPyList_cons env _ _ (child_ok env kw (pyFlags env kw) .list) 0 xs
  | kw, .dict xs => by
    simp only [fromPy, FlagsConsistent]
    exact fromPyMap_cons env _ _ (child_ok env kw (pyFlags env kw) .dict) xs
theorem fromPyList_cons (env : Env) : ∀ (okw : Option ChildKw) (kw : PyKw),
    (∀ c, okw = some c → childFlagsOK c (pyFlags env kw) = true) → ∀ (i : Nat) (xs : List Plain),
    consistentList okw (fromPyList env kw i xs) = true
  | _, _, _, _, [] => rfl
  | okw, kw, h, i, x :: rest => by
    simp only [fromPyList, consistentList, Bool.and_eq_true]
    refine ⟨⟨?_, fromPy_cons env kw x⟩, fromPyList_cons env okw kw h (i + 1) rest⟩
    cases okw with
    | none => rfl
    | some c => simp only [fromPy_flags]; exact h c rfl
theorem fromPyMap_cons (env : Env) : ∀ (okw : Option ChildKw) (kw : PyKw),
    (∀ c, okw = some c → childFlagsOK c (pyFlags env kw) = true) → ∀ (xs : List (Key × Plain)),
    consistentList okw (fromPyMap env kw xs) = true
  | _, _, _, [] => rfl
  | okw, kw, h, (k, x) :: rest => by
    simp only [fromPyMap, consistentList, Bool.and_eq_true]
    refine ⟨⟨?_, fromPy_cons env kw x⟩, fromPyMap_cons env okw kw h rest⟩
    cases okw with
    | none => rfl
    | some c => simp only [fromPy_flags]; exact h c rfl
end

/-! ### keys -/

theorem keyFresh_fromPyMap (env : Env) (kw : PyKw) (k : Key) : ∀ (xs : List (Key × Plain)),
    keyFresh k (fromPyMap env kw xs) = pyKeyFresh k xs
  | [] => rfl
  | (k', x) :: rest => by simp only [fromPyMap, keyFresh, pyKeyFresh, keyFresh_fromPyMap env kw k rest]

theorem keysNodup_fromPyMap (env : Env) (kw : PyKw) : ∀ (xs : List (Key × Plain)),
    keysNodup (fromPyMap env kw xs) = pyKeysNodup xs
  | [] => rfl
  | (k, x) :: rest => by
    simp only [fromPyMap, keysNodup, pyKeysNodup, keyFresh_fromPyMap, keysNodup_fromPyMap env kw rest]

theorem numberedFrom_fromPyList (env : Env) (kw : PyKw) : ∀ (i : Nat) (xs : List Plain),
    numberedFrom i (fromPyList env kw i xs) = true
  | _, [] => rfl
  | i, x :: rest => by
    simp only [fromPyList, numberedFrom, beq_self_eq_true, Bool.true_and]
    exact numberedFrom_fromPyList env kw (i + 1) rest

mutual
theorem fromPy_wellKeyed (env : Env) : ∀ (kw : PyKw) (d : Plain), pyKeysDistinct d = true →
    WellKeyed (fromPy env kw d) = true
  | _, .scalar _, _ => rfl
  | kw, .list xs, h => by
    simp only [pyKeysDistinct] at h
    simp only [fromPy, WellKeyed, CompKind.isDictFam, Bool.false_eq_true, if_false, Bool.and_eq_true]
    exact ⟨numberedFrom_fromPyList env _ 0 xs, fromPyList_wellKeyed env _ 0 xs h⟩
  | kw, .dict xs, h => by
    simp only [pyKeysDistinct, Bool.and_eq_true] at h
    simp only [fromPy, WellKeyed, CompKind.isDictFam, if_true, Bool.and_eq_true, keysNodup_fromPyMap]
    exact ⟨h.1, fromPyMap_wellKeyed env _ xs h.2⟩
theorem fromPyList_wellKeyed (env : Env) : ∀ (kw : PyKw) (i : Nat) (xs : List Plain), pyKeysDistinctL xs = true →
    wellKeyedList (fromPyList env kw i xs) = true
  | _, _, [], _ => rfl
  | kw, i, x :: rest, h => by
    simp only [pyKeysDistinctL, Bool.and_eq_true] at h
    simp only [fromPyList, wellKeyedList, Bool.and_eq_true]
    exact ⟨fromPy_wellKeyed env kw x h.1, fromPyList_wellKeyed env kw (i + 1) rest h.2⟩
theorem fromPyMap_wellKeyed (env : Env) : ∀ (kw : PyKw) (xs : List (Key × Plain)), pyKeysDistinctM xs = true →
    wellKeyedList (fromPyMap env kw xs) = true
  | _, [], _ => rfl
  | kw, (k, x) :: rest, h => by
    simp only [pyKeysDistinctM, Bool.and_eq_true] at h
    simp only [fromPyMap, wellKeyedList, Bool.and_eq_true]
    exact ⟨fromPy_wellKeyed env kw x h.1, fromPyMap_wellKeyed env kw rest h.2⟩
end

/-- the hypothesis is needed: without it the first level of a mapping may repeat a key -/
theorem fromPy_wellKeyed_iff_top (env : Env) (kw : PyKw) (xs : List (Key × Plain)) :
    WellKeyed (fromPy env kw (.dict xs)) = true → pyKeysNodup xs = true := by
  simp only [fromPy, WellKeyed, CompKind.isDictFam, if_true, Bool.and_eq_true, keysNodup_fromPyMap]
  exact fun h => h.1

/-! ### plain trees -/

mutual
theorem fromPy_plainTree (env : Env) : ∀ (kw : PyKw) (d : Plain), plainTree (fromPy env kw d) = true
  | _, .scalar _ => rfl
  | kw, .list xs => by
    simp only [fromPy, plainTree, plainComp, Bool.true_and]; exact fromPyList_plainTree env _ 0 xs
  | kw, .dict xs => by
    simp only [fromPy, plainTree, plainComp, Bool.true_and]; exact fromPyMap_plainTree env _ xs
theorem fromPyList_plainTree (env : Env) : ∀ (kw : PyKw) (i : Nat) (xs : List Plain),
    plainTreeList (fromPyList env kw i xs) = true
  | _, _, [] => rfl
  | kw, i, x :: rest => by
    simp only [fromPyList, plainTreeList, fromPy_plainTree env kw x, fromPyList_plainTree env kw (i + 1) rest, Bool.and_self]
theorem fromPyMap_plainTree (env : Env) : ∀ (kw : PyKw) (xs : List (Key × Plain)),
    plainTreeList (fromPyMap env kw xs) = true
  | _, [] => rfl
  | kw, (k, x) :: rest => by
    simp only [fromPyMap, plainTreeList, fromPy_plainTree env kw x, fromPyMap_plainTree env kw rest, Bool.and_self]
end

end AY.FP
