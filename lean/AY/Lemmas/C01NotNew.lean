/-
  AY.Lemmas.C01NotNew — the first-stage `allow_new` check of the builder cannot fire on a document
  that carries no `!notnew` (`allow_new = False`) keyword: the loader never produces an inherited
  `allow_new = False` (`iNew = some false`) out of nothing.  The inherited flag of a child is
  `f.new.or f.iNew` of its parent (`childKw`), so the invariant "no node has `new = some false` or
  `iNew = some false`" (`newOK`) is preserved by every flag operation of the loader
  (`applyKw`, `propagate`, `setPrioAll`, `inheritInto`, `adopt`, `initChildren`) and established by
  the class constructors (`wrapScalar/wrapSeq/wrapMap`) for keywords without `new = some false`.
-/
import AY.Lemmas.C01Construct
set_option linter.unusedVariables false
namespace AY

/-! ### the invariant -/

/-- neither the explicit nor the inherited `allow_new` is `False` -/
def fNewOK (f : Flags) : Bool := f.new != some false && f.iNew != some false

mutual
/-- no node of the tree has `allow_new = False`, explicit or inherited -/
def newOK : Node → Bool
  | .leaf f _ => fNewOK f
  | .comp f _ cs => fNewOK f && newOKList cs
def newOKList : List (Key × Node) → Bool
  | [] => true
  | (_, c) :: rest => newOK c && newOKList rest
end

/-- the inherited `allow_new` handed down is not `False` -/
def kwNewOK (kw : ChildKw) : Bool := kw.iNew != some false

theorem fNewOK_iff (f : Flags) : fNewOK f = true ↔ f.new ≠ some false ∧ f.iNew ≠ some false := by
  simp [fNewOK]

theorem newOK_flags {n : Node} (h : newOK n = true) : fNewOK n.flags = true := by
  cases n with
  | leaf f k => simpa [newOK, Node.flags] using h
  | comp f k cs =>
    have h' : fNewOK f = true ∧ newOKList cs = true := by simpa [newOK] using h
    exact h'.1

theorem childKw_newOK {f : Flags} {k : CompKind} {kw : ChildKw} (hf : fNewOK f = true)
    (h : childKw f k = some kw) : kwNewOK kw = true := by
  obtain ⟨h1, h2⟩ := (fNewOK_iff f).1 hf
  have hor : f.new.or f.iNew ≠ some false := by
    cases hn : f.new with
    | none => simpa using h2
    | some b => rw [hn] at h1; simpa using h1
  cases k <;> simp only [childKw] at h <;> first
    | (cases h; done)
    | (injection h with h; subst h; simpa [kwNewOK] using hor)

theorem updFlags_newOK {kw : ChildKw} {f : Flags} (hkw : kwNewOK kw = true) (hf : fNewOK f = true) :
    fNewOK (updFlags kw f) = true := by
  obtain ⟨h1, _⟩ := (fNewOK_iff f).1 hf
  rw [fNewOK_iff]
  exact ⟨h1, by simpa [kwNewOK, updFlags] using hkw⟩

mutual
theorem applyKw_newOK : ∀ (kw : ChildKw) (n : Node), kwNewOK kw = true → newOK n = true →
    newOK (applyKw kw n) = true
  | kw, .leaf f k, hkw, h => by
    have hf : fNewOK f = true := by simpa [newOK] using h
    simpa [applyKw, newOK] using updFlags_newOK hkw hf
  | kw, .comp f k cs, hkw, h => by
    have h' : fNewOK f = true ∧ newOKList cs = true := by simpa [newOK] using h
    have hu := updFlags_newOK hkw h'.1
    simp only [applyKw]
    split
    · split
      · simp [newOK, hu, h'.2]
      · rename_i kw' hk
        simp [newOK, hu, applyKwList_newOK kw' cs (childKw_newOK hu hk) h'.2]
    · exact h
theorem applyKwList_newOK : ∀ (kw : ChildKw) (cs : List (Key × Node)), kwNewOK kw = true →
    newOKList cs = true → newOKList (applyKwList kw cs) = true
  | _, [], _, _ => rfl
  | kw, (k, c) :: rest, hkw, h => by
    have h' : newOK c = true ∧ newOKList rest = true := by simpa [newOKList] using h
    simp [applyKwList, newOKList, applyKw_newOK kw c hkw h'.1, applyKwList_newOK kw rest hkw h'.2]
end

theorem propagate_newOK {n : Node} (h : newOK n = true) : newOK (propagate n) = true := by
  cases n with
  | leaf f k => exact h
  | comp f k cs =>
    have h' : fNewOK f = true ∧ newOKList cs = true := by simpa [newOK] using h
    simp only [propagate]
    split
    · exact h
    · rename_i kw hk
      simp [newOK, h'.1, applyKwList_newOK kw cs (childKw_newOK h'.1 hk) h'.2]

mutual
theorem setPrioAll_newOK : ∀ (p : Int) (n : Node), newOK n = true → newOK (setPrioAll p n) = true
  | p, .leaf f k, h => by simpa [setPrioAll, newOK, fNewOK] using h
  | p, .comp f k cs, h => by
    have h' : fNewOK f = true ∧ newOKList cs = true := by simpa [newOK] using h
    have hf : fNewOK { f with prio := some p } = true := by simpa [fNewOK] using h'.1
    simp [setPrioAll, newOK, hf, setPrioAllList_newOK p cs h'.2]
theorem setPrioAllList_newOK : ∀ (p : Int) (cs : List (Key × Node)), newOKList cs = true →
    newOKList (setPrioAllList p cs) = true
  | _, [], _ => rfl
  | p, (k, c) :: rest, h => by
    have h' : newOK c = true ∧ newOKList rest = true := by simpa [newOKList] using h
    simp [setPrioAllList, newOKList, setPrioAll_newOK p c h'.1, setPrioAllList_newOK p rest h'.2]
end

theorem setFlags_newOK {n : Node} {f : Flags} (h : newOK n = true) (hf : fNewOK f = true) :
    newOK (n.setFlags f) = true := by
  cases n with
  | leaf g k => simpa [Node.setFlags, newOK] using hf
  | comp g k cs =>
    have h' : fNewOK g = true ∧ newOKList cs = true := by simpa [newOK] using h
    simp [Node.setFlags, newOK, hf, h'.2]

theorem inheritInto_newOK (p : Option Int) (kw : Option ChildKw) {n : Node}
    (hkw : ∀ k, kw = some k → kwNewOK k = true) (h : newOK n = true) :
    newOK (inheritInto p kw n) = true := by
  have h1 : newOK (match p with | some p => setPrioAll p n | none => n) = true := by
    cases p with
    | none => exact h
    | some p => exact setPrioAll_newOK p n h
  simp only [inheritInto]
  cases kw with
  | none => exact h1
  | some kw =>
    exact propagate_newOK (setFlags_newOK h1 (updFlags_newOK (hkw kw rfl) (newOK_flags h1)))

theorem adopt_newOK {pf : Flags} (pk : CompKind) {v : Node} (hpf : fNewOK pf = true)
    (h : newOK v = true) : newOK (adopt pf pk v) = true := by
  simp only [adopt]
  exact propagate_newOK (inheritInto_newOK none _ (fun k hk => childKw_newOK hpf hk) h)

/-- the adopting parent, when there is one, has no `allow_new = False` -/
def ParentNewOK (parent : Option (Flags × CompKind)) : Prop :=
  ∀ pf pk, parent = some (pf, pk) → fNewOK pf = true

theorem adoptBy_newOK {parent : Option (Flags × CompKind)} (hp : ParentNewOK parent) {n : Node}
    (h : newOK n = true) : newOK (adoptBy parent n) = true := by
  cases parent with
  | none => exact h
  | some pr => obtain ⟨pf, pk⟩ := pr; exact adopt_newOK pk (hp pf pk rfl) h

theorem initChildren_newOK {f : Flags} (k : CompKind) (p : Option Int) (hf : fNewOK f = true) :
    ∀ cs : List (Key × Node), newOKList cs = true → newOKList (initChildren f k p cs) = true
  | [], _ => rfl
  | (key, c) :: rest, h => by
    have h' : newOK c = true ∧ newOKList rest = true := by simpa [newOKList] using h
    have ih := initChildren_newOK k p hf rest h'.2
    simp only [initChildren, List.map_cons, newOKList, Bool.and_eq_true] at ih ⊢
    exact ⟨inheritInto_newOK p _ (fun kw hk => childKw_newOK hf hk) h'.1, ih⟩

theorem aset_newOK {k : Key} {n : Node} (hn : newOK n = true) : ∀ acc : List (Key × Node),
    newOKList acc = true → newOKList (aset k n acc) = true
  | [], _ => by simp [aset, newOKList, hn]
  | (k', v') :: r, h => by
    have h' : newOK v' = true ∧ newOKList r = true := by simpa [newOKList] using h
    by_cases hk : k' = k <;> simp [aset, newOKList, hk, hn, h'.1, h'.2, aset_newOK hn r h'.2]

/-! ### documents without `!notnew` -/

/-- the keyword set of one node does not say `allow_new = False` (keywords of an untagged node
    are never read) -/
def kwNotNew (t : TagKind) (kw : CtorKw) : Bool := t == .none || kw.new != some false

mutual
/-- no tag of the document carries `allow_new = False` (`!notnew`, `!metadata{{'allow_new': False}}`) -/
def noNotNew : Raw → Bool
  | .scalar t kw _ => kwNotNew t kw
  | .seq t kw items => kwNotNew t kw && noNotNewSeq items
  | .map t kw items => kwNotNew t kw && noNotNewMap items
def noNotNewSeq : List Raw → Bool
  | [] => true
  | r :: rest => noNotNew r && noNotNewSeq rest
def noNotNewMap : List (Key × Raw) → Bool
  | [] => true
  | (_, r) :: rest => noNotNew r && noNotNewMap rest
end

theorem fNewOK_bare (env : Env) : fNewOK (bareFlags env) = true := rfl

theorem fNewOK_mk (env : Env) {kw : CtorKw} (h : kw.new ≠ some false) : fNewOK (mkFlags env kw) = true := by
  rw [fNewOK_iff]; exact ⟨h, by simp [mkFlags]⟩

theorem kwNotNew_plain {kw : CtorKw} (h : kwNotNew .plain kw = true) : kw.new ≠ some false := by
  simpa [kwNotNew] using h

theorem wrapScalar_newOK (env : Env) {t : TagKind} {kw : CtorKw} {v : RVal} {n : Node}
    (ht : tagOK t = true) (hkw : kwNotNew t kw = true) (h : wrapScalar env t kw v = .ok n) :
    newOK n = true := by
  rcases (tagOK_iff t).1 ht with e | e <;> subst e
  · simp only [wrapScalar] at h; cases h; rfl
  · have hk := kwNotNew_plain hkw
    simp only [wrapScalar] at h
    split at h
    · cases h; rfl
    · cases h; simpa [newOK] using fNewOK_mk env hk

theorem wrapSeq_newOK (env : Env) {t : TagKind} {kw : CtorKw} {cs : List (Key × Node)} {n : Node}
    (ht : tagOK t = true) (hkw : kwNotNew t kw = true) (hcs : newOKList cs = true)
    (h : wrapSeq env t kw cs = .ok n) : newOK n = true := by
  rcases (tagOK_iff t).1 ht with e | e <;> subst e
  · simp only [wrapSeq] at h; cases h
    simp [newOK, fNewOK_bare, initChildren_newOK .list none (fNewOK_bare env) cs hcs]
  · have hf := fNewOK_mk env (kwNotNew_plain hkw)
    simp only [wrapSeq] at h; cases h
    simp [newOK, hf, initChildren_newOK .list kw.prio hf cs hcs]

theorem wrapMap_newOK (env : Env) {t : TagKind} {kw : CtorKw} {cs : List (Key × Node)} {n : Node}
    (ht : tagOK t = true) (hkw : kwNotNew t kw = true) (hcs : newOKList cs = true)
    (h : wrapMap env t kw cs = .ok n) : newOK n = true := by
  rcases (tagOK_iff t).1 ht with e | e <;> subst e
  · simp only [wrapMap] at h; cases h
    simp [newOK, fNewOK_bare, initChildren_newOK .dict none (fNewOK_bare env) cs hcs]
  · have hf := fNewOK_mk env (kwNotNew_plain hkw)
    simp only [wrapMap] at h; cases h
    simp [newOK, hf, initChildren_newOK .dict kw.prio hf cs hcs]

/-! ### bottom-up construction -/

mutual
theorem constructDeep_newOK (env : Env) : ∀ (r : Raw) (n : Node), rawTagged r = true → noNotNew r = true →
    constructDeep env r = .ok n → newOK n = true
  | .scalar t kw v, n, ht, hn, h => by
    have ht' : tagOK t = true := by simpa [rawTagged] using ht
    have hn' : kwNotNew t kw = true := by simpa [noNotNew] using hn
    simp only [constructDeep] at h
    exact wrapScalar_newOK env ht' hn' h
  | .seq t kw items, n, ht, hn, h => by
    have ht' : tagOK t = true ∧ rawTaggedSeq items = true := by simpa [rawTagged] using ht
    have hn' : kwNotNew t kw = true ∧ noNotNewSeq items = true := by simpa [noNotNew] using hn
    simp only [constructDeep] at h
    split at h
    · cases h
    · rename_i cs hcs
      have hall := constructDeepList_newOK env 0 items cs ht'.2 hn'.2 hcs
      rcases (tagOK_iff t).1 ht'.1 with e | e <;> subst e
      · exact wrapSeq_newOK env rfl hn'.1 hall h
      · exact wrapSeq_newOK env rfl hn'.1 hall h
  | .map t kw items, n, ht, hn, h => by
    have ht' : (tagOK t = true ∧ keysNodup items = true) ∧ rawTaggedMap items = true := by
      simpa [rawTagged] using ht
    have hn' : kwNotNew t kw = true ∧ noNotNewMap items = true := by simpa [noNotNew] using hn
    simp only [constructDeep] at h
    split at h
    · cases h
    · rename_i cs hcs
      exact wrapMap_newOK env ht'.1.1 hn'.1 (constructDeepMap_newOK env items cs ht'.2 hn'.2 hcs) h
theorem constructDeepList_newOK (env : Env) : ∀ (i : Nat) (items : List Raw) (cs : List (Key × Node)),
    rawTaggedSeq items = true → noNotNewSeq items = true →
    constructDeepList env i items = .ok cs → newOKList cs = true
  | _, [], cs, _, _, h => by simp only [constructDeepList] at h; cases h; rfl
  | i, r :: rest, cs, ht, hn, h => by
    have ht' : rawTagged r = true ∧ rawTaggedSeq rest = true := by simpa [rawTaggedSeq] using ht
    have hn' : noNotNew r = true ∧ noNotNewSeq rest = true := by simpa [noNotNewSeq] using hn
    simp only [constructDeepList] at h
    split at h
    · cases h
    · rename_i m hm
      split at h
      · cases h
      · rename_i ns hns
        cases h
        simp [newOKList, constructDeep_newOK env r m ht'.1 hn'.1 hm,
          constructDeepList_newOK env (i + 1) rest ns ht'.2 hn'.2 hns]
theorem constructDeepMap_newOK (env : Env) : ∀ (items : List (Key × Raw)) (cs : List (Key × Node)),
    rawTaggedMap items = true → noNotNewMap items = true →
    constructDeepMap env items = .ok cs → newOKList cs = true
  | [], cs, _, _, h => by simp only [constructDeepMap] at h; cases h; rfl
  | (k, r) :: rest, cs, ht, hn, h => by
    have ht' : rawTagged r = true ∧ rawTaggedMap rest = true := by simpa [rawTaggedMap] using ht
    have hn' : noNotNew r = true ∧ noNotNewMap rest = true := by simpa [noNotNewMap] using hn
    simp only [constructDeepMap] at h
    split at h
    · cases h
    · rename_i m hm
      split at h
      · cases h
      · rename_i ns hns
        cases h
        simp [newOKList, constructDeep_newOK env r m ht'.1 hn'.1 hm,
          constructDeepMap_newOK env rest ns ht'.2 hn'.2 hns]
end

/-! ### top-down construction -/

mutual
theorem constructTD_newOK (env : Env) : ∀ (r : Raw) (parent : Option (Flags × CompKind)) (n : Node),
    rawTagged r = true → noNotNew r = true → ParentNewOK parent →
    constructTD env parent r = .ok n → newOK n = true
  | .scalar t kw v, parent, n, ht, hn, hp, h => by
    have ht' : tagOK t = true := by simpa [rawTagged] using ht
    have hn' : kwNotNew t kw = true := by simpa [noNotNew] using hn
    rcases (tagOK_iff t).1 ht' with e | e <;> subst e
    · simp only [constructTD] at h; cases h
      exact adoptBy_newOK hp rfl
    · simp only [constructTD] at h
      split at h
      · cases h
      · rename_i m hm
        cases h
        exact adoptBy_newOK hp (wrapScalar_newOK env rfl hn' hm)
  | .seq t kw items, parent, n, ht, hn, hp, h => by
    have ht' : tagOK t = true ∧ rawTaggedSeq items = true := by simpa [rawTagged] using ht
    have hn' : kwNotNew t kw = true ∧ noNotNewSeq items = true := by simpa [noNotNew] using hn
    rcases (tagOK_iff t).1 ht'.1 with e | e <;> subst e
    · obtain ⟨f', hf'⟩ := adoptBy_empty parent (bareFlags env) .list
      have ha : newOK (adoptBy parent (.comp (bareFlags env) .list [])) = true :=
        adoptBy_newOK hp rfl
      rw [hf'] at ha
      have hf : fNewOK f' = true := by simpa [newOK, newOKList] using ha
      simp only [constructTD, hf'] at h
      split at h
      · cases h
      · rename_i cs hcs
        cases h
        simp [newOK, hf, constructTDList_newOK env f' .list 0 items cs ht'.2 hn'.2 hf hcs]
    · simp only [constructTD] at h
      split at h
      · cases h
      · rename_i m hm
        cases h
        exact adoptBy_newOK hp (constructDeep_newOK env _ m ht hn hm)
  | .map t kw items, parent, n, ht, hn, hp, h => by
    have ht' : (tagOK t = true ∧ keysNodup items = true) ∧ rawTaggedMap items = true := by
      simpa [rawTagged] using ht
    have hn' : kwNotNew t kw = true ∧ noNotNewMap items = true := by simpa [noNotNew] using hn
    rcases (tagOK_iff t).1 ht'.1.1 with e | e <;> subst e
    · obtain ⟨f', hf'⟩ := adoptBy_empty parent (bareFlags env) .dict
      have ha : newOK (adoptBy parent (.comp (bareFlags env) .dict [])) = true :=
        adoptBy_newOK hp rfl
      rw [hf'] at ha
      have hf : fNewOK f' = true := by simpa [newOK, newOKList] using ha
      simp only [constructTD, hf'] at h
      split at h
      · cases h
      · rename_i cs hcs
        cases h
        simp [newOK, hf, constructTDMap_newOK env f' .dict items [] cs ht'.2 hn'.2 hf rfl hcs]
    · simp only [constructTD] at h
      split at h
      · cases h
      · rename_i m hm
        cases h
        exact adoptBy_newOK hp (constructDeep_newOK env _ m ht hn hm)
theorem constructTDList_newOK (env : Env) (pf : Flags) (pk : CompKind) :
    ∀ (i : Nat) (items : List Raw) (cs : List (Key × Node)),
    rawTaggedSeq items = true → noNotNewSeq items = true → fNewOK pf = true →
    constructTDList env pf pk i items = .ok cs → newOKList cs = true
  | _, [], cs, _, _, _, h => by simp only [constructTDList] at h; cases h; rfl
  | i, r :: rest, cs, ht, hn, hpf, h => by
    have ht' : rawTagged r = true ∧ rawTaggedSeq rest = true := by simpa [rawTaggedSeq] using ht
    have hn' : noNotNew r = true ∧ noNotNewSeq rest = true := by simpa [noNotNewSeq] using hn
    simp only [constructTDList] at h
    split at h
    · cases h
    · rename_i m hm
      split at h
      · cases h
      · rename_i ns hns
        cases h
        have h1 := constructTD_newOK env r (some (pf, pk)) m ht'.1 hn'.1
          (fun pf' pk' e => by cases e; exact hpf) hm
        simp [newOKList, h1, constructTDList_newOK env pf pk (i + 1) rest ns ht'.2 hn'.2 hpf hns]
theorem constructTDMap_newOK (env : Env) (pf : Flags) (pk : CompKind) :
    ∀ (items : List (Key × Raw)) (acc cs : List (Key × Node)),
    rawTaggedMap items = true → noNotNewMap items = true → fNewOK pf = true → newOKList acc = true →
    constructTDMap env pf pk items acc = .ok cs → newOKList cs = true
  | [], acc, cs, _, _, _, hacc, h => by simp only [constructTDMap] at h; cases h; exact hacc
  | (k, r) :: rest, acc, cs, ht, hn, hpf, hacc, h => by
    have ht' : rawTagged r = true ∧ rawTaggedMap rest = true := by simpa [rawTaggedMap] using ht
    have hn' : noNotNew r = true ∧ noNotNewMap rest = true := by simpa [noNotNewMap] using hn
    simp only [constructTDMap] at h
    split at h
    · cases h
    · rename_i m hm
      have h1 := constructTD_newOK env r (some (pf, pk)) m ht'.1 hn'.1
        (fun pf' pk' e => by cases e; exact hpf) hm
      exact constructTDMap_newOK env pf pk rest _ cs ht'.2 hn'.2 hpf (aset_newOK h1 acc hacc) h
end

/-! ### the check -/

theorem eNew_of_newOK {f : Flags} (h : fNewOK f = true) : eNew f = true := by
  obtain ⟨_, h2⟩ := (fNewOK_iff f).1 h
  simp only [eNew, Tables.defaultAllowNew]
  cases hi : f.iNew with
  | none => rfl
  | some b => cases b <;> simp_all

mutual
/-- `_require_all_new` finds nothing on a tree without `allow_new = False` -/
theorem reqNew_newOK : ∀ (exc : List Path) (p : Path) (n : Node), newOK n = true → reqNew exc p n = none
  | exc, p, .leaf f k, h => by
    have hf : fNewOK f = true := by simpa [newOK] using h
    simp [reqNew, eNew_of_newOK hf]
  | exc, p, .comp f k cs, h => by
    have h' : fNewOK f = true ∧ newOKList cs = true := by simpa [newOK] using h
    simp [reqNew, eNew_of_newOK h'.1, reqNewList_newOK exc p cs h'.2]
theorem reqNewList_newOK : ∀ (exc : List Path) (p : Path) (cs : List (Key × Node)), newOKList cs = true →
    reqNewList exc p cs = none
  | _, _, [], _ => rfl
  | exc, p, (k, c) :: rest, h => by
    have h' : newOK c = true ∧ newOKList rest = true := by simpa [newOKList] using h
    simp [reqNewList, reqNew_newOK exc (p ++ [k]) c h'.1, reqNewList_newOK exc p rest h'.2]
end

/-! ### the excluded case: `allow_new = False` on the root tag -/

theorem nn_flags_propagate (n : Node) : (propagate n).flags = n.flags := by
  cases n with
  | leaf f k => rfl
  | comp f k cs => simp only [propagate]; split <;> rfl

theorem nn_flags_setFlags (n : Node) (f : Flags) : (n.setFlags f).flags = f := by
  cases n <;> rfl

theorem inheritInto_iNew (p : Option Int) (kw : ChildKw) (n : Node) :
    (inheritInto p (some kw) n).flags.iNew = kw.iNew := by
  simp only [inheritInto, nn_flags_propagate, nn_flags_setFlags]
  rfl

/-- a child that inherited `allow_new = False` is reported by `_require_all_new` -/
theorem reqNew_child_notnew (f : Flags) (k : CompKind) (key : Key) (c : Node) (rest : List (Key × Node))
    (hf : eNew f = true) (hc : c.flags.iNew = some false) :
    reqNew [] [] (.comp f k ((key, c) :: rest)) = some [key] := by
  have hn : eNew c.flags = false := by simp [eNew, hc]
  have h1 : reqNew [] [key] c = some [key] := by
    cases c with
    | leaf g lk => simp only [Node.flags] at hn; simp [reqNew, hn]
    | comp g ck ccs => simp only [Node.flags] at hn; simp [reqNew, hn]
  simp [reqNew, hf, reqNewList, h1]

end AY
