/-
  AY.Lemmas.C18Lemmas — helper lemmas for AY.Props.C18 (dump ∘ parse on the tag-free vocabulary).
-/
import AY.Model.Dump
import AY.Lemmas.C19Lemmas
namespace AY

/-! ### the tag-free vocabulary -/

mutual
/-- no awesomeyaml tag anywhere; scalars are resolved literals or empty values -/
def Untagged : Raw → Bool
  | .scalar t _ v => t == .none && (match v with | .text _ => false | _ => true)
  | .seq t _ items => t == .none && untaggedList items
  | .map t _ items => t == .none && untaggedMap items
def untaggedList : List Raw → Bool
  | [] => true
  | r :: rest => Untagged r && untaggedList rest
def untaggedMap : List (Key × Raw) → Bool
  | [] => true
  | (_, r) :: rest => Untagged r && untaggedMap rest
end

/-- the node carries no explicit flag and no user metadata -/
def ExplicitFree (f : Flags) : Prop :=
  f.prio = none ∧ f.del = none ∧ f.new = none ∧ f.safe = none ∧ f.md = []

theorem explicitFree_bare (env : Env) : ExplicitFree (bareFlags env) := ⟨rfl, rfl, rfl, rfl, rfl⟩

theorem explicitFree_updFlags {kw : ChildKw} {f : Flags} (h : ExplicitFree f) : ExplicitFree (updFlags kw f) := by
  obtain ⟨h1, h2, h3, h4, h5⟩ := h
  exact ⟨h1, h2, h3, h4, h5⟩

theorem nodeInfo_free (st : DStack) (n : Node) (h : ExplicitFree n.flags) : nodeInfo st n = {} := by
  obtain ⟨h1, h2, h3, h4, h5⟩ := h
  simp only [nodeInfo, h1, h2, h3, h4, h5, keepFlag]

theorem adopt_flags (pf : Flags) (pk : CompKind) (n : Node) :
    (adopt pf pk n).flags = match childKw pf pk with
      | some kw => updFlags kw n.flags
      | none => n.flags := by
  simp only [adopt, inheritInto, propagate_flags]
  cases childKw pf pk with
  | none => simp
  | some kw => simp [propagate_flags, setFlags_flags']

theorem adoptBy_free (parent : Option (Flags × CompKind)) {n : Node} (h : ExplicitFree n.flags) :
    ExplicitFree (adoptBy parent n).flags := by
  cases parent with
  | none => exact h
  | some pr =>
    obtain ⟨pf, pk⟩ := pr
    simp only [adoptBy, adopt_flags]
    split
    · exact explicitFree_updFlags h
    · exact h

theorem adoptBy_leaf (parent : Option (Flags × CompKind)) (f : Flags) (k : LeafKind) :
    ∃ f', adoptBy parent (.leaf f k) = .leaf f' k := by
  cases parent with
  | none => exact ⟨f, rfl⟩
  | some pr =>
    obtain ⟨pf, pk⟩ := pr
    simp only [adoptBy, adopt, inheritInto]
    cases childKw pf pk with
    | none => exact ⟨f, rfl⟩
    | some kw => exact ⟨updFlags kw f, rfl⟩

theorem propagate_empty (g : Flags) (k : CompKind) : propagate (.comp g k []) = .comp g k [] := by
  simp only [propagate]
  split <;> simp [applyKwList]

theorem adoptBy_empty_comp (parent : Option (Flags × CompKind)) (f : Flags) (k : CompKind) :
    ∃ f', adoptBy parent (.comp f k []) = .comp f' k [] := by
  cases parent with
  | none => exact ⟨f, rfl⟩
  | some pr =>
    obtain ⟨pf, pk⟩ := pr
    simp only [adoptBy, adopt, inheritInto]
    cases childKw pf pk with
    | none => exact ⟨f, by simp [propagate_empty]⟩
    | some kw => exact ⟨updFlags kw f, by simp [Node.setFlags, Node.flags, propagate_empty]⟩

/-! ### keys -/

theorem mem_aset {key : Key} {v : Node} : ∀ {l : List (Key × Node)} {x : Key × Node},
    x ∈ aset key v l → x = (key, v) ∨ x ∈ l
  | [], x, h => by simp [aset] at h; exact Or.inl h
  | (k', v') :: l, x, h => by
    simp only [aset] at h
    split at h
    · simp only [List.mem_cons] at h
      rcases h with h | h
      · exact Or.inl h
      · exact Or.inr (List.mem_cons_of_mem _ h)
    · simp only [List.mem_cons] at h
      rcases h with h | h
      · exact Or.inr (by simp [h])
      · rcases mem_aset h with h | h
        · exact Or.inl h
        · exact Or.inr (List.mem_cons_of_mem _ h)

theorem keyFresh_aset {k' key : Key} {v : Node} (hne : k' ≠ key) : ∀ {l : List (Key × Node)},
    keyFresh k' l = true → keyFresh k' (aset key v l) = true
  | [], _ => by simp [aset, keyFresh]; exact fun e => hne e.symm
  | (k2, v2) :: l, h => by
    simp only [keyFresh, Bool.and_eq_true, bne_iff_ne, ne_eq] at h
    simp only [aset]
    split
    · simp only [keyFresh, Bool.and_eq_true, bne_iff_ne, ne_eq]; exact ⟨fun e => hne e.symm, h.2⟩
    · simp only [keyFresh, Bool.and_eq_true, bne_iff_ne, ne_eq]; exact ⟨h.1, keyFresh_aset hne h.2⟩

theorem keysNodup_aset {key : Key} {v : Node} : ∀ {l : List (Key × Node)},
    keysNodup l = true → keysNodup (aset key v l) = true
  | [], _ => by simp [aset, keysNodup, keyFresh]
  | (k2, v2) :: l, h => by
    simp only [keysNodup, Bool.and_eq_true] at h
    simp only [aset]
    split
    · rename_i e; subst e; simp only [keysNodup, Bool.and_eq_true]; exact h
    · rename_i hne
      simp only [keysNodup, Bool.and_eq_true]
      exact ⟨keyFresh_aset hne h.1, keysNodup_aset h.2⟩

/-! ### dump ∘ parse is the identity on trees built from tag-free documents -/

/-- the node, dumped with an empty stack and parsed again below the same parent, is itself -/
def RT (env : Env) (parent : Option (Flags × CompKind)) (n : Node) : Prop :=
  ∃ r', representWith {} n = .ok r' ∧ constructTD env parent r' = .ok n

def AllRT (env : Env) (parent : Option (Flags × CompKind)) (cs : List (Key × Node)) : Prop :=
  ∀ kv, kv ∈ cs → RT env parent kv.2

theorem constructTDMap_nodup (env : Env) (pf : Flags) (pk : CompKind) :
    ∀ (items : List (Key × Raw)) (acc cs : List (Key × Node)),
    keysNodup acc = true → constructTDMap env pf pk items acc = .ok cs → keysNodup cs = true
  | [], acc, cs, ha, h => by simp only [constructTDMap] at h; cases h; exact ha
  | (k, r) :: rest, acc, cs, ha, h => by
    simp only [constructTDMap] at h
    split at h
    · cases h
    · exact constructTDMap_nodup env pf pk rest _ cs (keysNodup_aset ha) h

/-- re-parsing the dumped children of a mapping rebuilds exactly these children -/
theorem representMap_rt (env : Env) (pf : Flags) (pk : CompKind) :
    ∀ (cs acc : List (Key × Node)), AllRT env (some (pf, pk)) cs → keysNodup (acc ++ cs) = true →
    ∃ items', representMap {} cs = .ok items' ∧ constructTDMap env pf pk items' acc = .ok (acc ++ cs)
  | [], acc, _, _ => ⟨[], by simp [representMap], by simp [constructTDMap]⟩
  | (key, c) :: rest, acc, hall, hn => by
    obtain ⟨r', hr1, hr2⟩ := hall (key, c) (by simp)
    have hfresh := keysNodup_append_cons hn
    obtain ⟨items', hi1, hi2⟩ := representMap_rt env pf pk rest (acc ++ [(key, c)])
      (fun kv hkv => hall kv (List.mem_cons_of_mem _ hkv)) (by simpa using hn)
    refine ⟨(key, r') :: items', by simp [representMap, hr1, hi1], ?_⟩
    simp only [constructTDMap, hr2, aset_fresh hfresh, hi2]
    simp

mutual
theorem td_rt (env : Env) : ∀ (parent : Option (Flags × CompKind)) (r : Raw) (n : Node),
    Untagged r = true → constructTD env parent r = .ok n → RT env parent n ∧ ExplicitFree n.flags
  | parent, .scalar t kw v, n, hu, h => by
    simp only [Untagged, Bool.and_eq_true, beq_iff_eq] at hu
    obtain ⟨ht, hv⟩ := hu
    subst ht
    simp only [constructTD] at h
    cases h
    have hfree := adoptBy_free parent (n := .leaf (bareFlags env) (.scalar v.toScalar)) (explicitFree_bare env)
    obtain ⟨f', hf'⟩ := adoptBy_leaf parent (bareFlags env) (.scalar v.toScalar)
    refine ⟨?_, hfree⟩
    rw [hf'] at hfree ⊢
    have hni : nodeInfo {} (.leaf f' (.scalar v.toScalar)) = {} := nodeInfo_free _ _ hfree
    cases hs : v.toScalar with
    | null =>
      rw [hs] at hni hf'
      refine ⟨.scalar .null {} .empty, by simp [representWith, representLeaf, hni], ?_⟩
      simp only [constructTD, wrapScalar]
      rw [← hf']; rfl
    | bool b =>
      rw [hs] at hni hf'
      refine ⟨.scalar .none {} (.lit (.bool b)), by simp [representWith, representLeaf, hni, isShortcut, CtorKw.flagCount, plainTag, CtorKw.isEmpty], ?_⟩
      simp only [constructTD, RVal.toScalar]; rw [← hf']
    | int i =>
      rw [hs] at hni hf'
      refine ⟨.scalar .none {} (.lit (.int i)), by simp [representWith, representLeaf, hni, isShortcut, CtorKw.flagCount, plainTag, CtorKw.isEmpty], ?_⟩
      simp only [constructTD, RVal.toScalar]; rw [← hf']
    | float x =>
      rw [hs] at hni hf'
      refine ⟨.scalar .none {} (.lit (.float x)), by simp [representWith, representLeaf, hni, isShortcut, CtorKw.flagCount, plainTag, CtorKw.isEmpty], ?_⟩
      simp only [constructTD, RVal.toScalar]; rw [← hf']
    | str s =>
      rw [hs] at hni hf'
      refine ⟨.scalar .none {} (.lit (.str s)), by simp [representWith, representLeaf, hni, isShortcut, CtorKw.flagCount, plainTag, CtorKw.isEmpty], ?_⟩
      simp only [constructTD, RVal.toScalar]; rw [← hf']
  | parent, .seq t kw items, n, hu, h => by
    simp only [Untagged, Bool.and_eq_true, beq_iff_eq] at hu
    obtain ⟨ht, hitems⟩ := hu
    subst ht
    simp only [constructTD] at h
    have hfree := adoptBy_free parent (n := .comp (bareFlags env) .list []) (explicitFree_bare env)
    obtain ⟨f', hf'⟩ := adoptBy_empty_comp parent (bareFlags env) .list
    rw [hf'] at h hfree
    simp only at h
    split at h
    · cases h
    · rename_i cs hcs
      cases h
      obtain ⟨items', hi1, hi2⟩ := tdList_rt env f' .list 0 items cs hitems hcs
      refine ⟨⟨.seq .none {} items', ?_, ?_⟩, hfree⟩
      · have hni : nodeInfo {} (.comp f' .list cs) = {} := nodeInfo_free _ _ hfree
        simp [representWith, hni, CompKind.isDictFam, pushStack, isShortcut, CtorKw.flagCount, CompKind.tagged, hi1,
          representComp, plainTag, CtorKw.isEmpty]
      · simp only [constructTD, hf', hi2]
  | parent, .map t kw items, n, hu, h => by
    simp only [Untagged, Bool.and_eq_true, beq_iff_eq] at hu
    obtain ⟨ht, hitems⟩ := hu
    subst ht
    simp only [constructTD] at h
    have hfree := adoptBy_free parent (n := .comp (bareFlags env) .dict []) (explicitFree_bare env)
    obtain ⟨f', hf'⟩ := adoptBy_empty_comp parent (bareFlags env) .dict
    rw [hf'] at h hfree
    simp only at h
    split at h
    · cases h
    · rename_i cs hcs
      cases h
      have hall := tdMap_rt env f' .dict items [] cs hitems (fun kv hkv => by cases hkv) hcs
      have hnd := constructTDMap_nodup env f' .dict items [] cs (by simp [keysNodup]) hcs
      obtain ⟨items', hi1, hi2⟩ := representMap_rt env f' .dict cs [] hall (by simpa using hnd)
      refine ⟨⟨.map .none {} items', ?_, ?_⟩, hfree⟩
      · have hni : nodeInfo {} (.comp f' .dict cs) = {} := nodeInfo_free _ _ hfree
        simp [representWith, hni, CompKind.isDictFam, pushStack, isShortcut, CtorKw.flagCount, CompKind.tagged, hi1,
          representComp, plainTag, CtorKw.isEmpty]
      · simp only [constructTD, hf', hi2]; simp
theorem tdList_rt (env : Env) (pf : Flags) (pk : CompKind) :
    ∀ (i : Nat) (items : List Raw) (cs : List (Key × Node)), untaggedList items = true →
    constructTDList env pf pk i items = .ok cs →
    ∃ items', representSeq {} cs = .ok items' ∧ constructTDList env pf pk i items' = .ok cs
  | _, [], cs, _, h => by
    simp only [constructTDList] at h; cases h
    exact ⟨[], by simp [representSeq], by simp [constructTDList]⟩
  | i, r :: rest, cs, hu, h => by
    simp only [untaggedList, Bool.and_eq_true] at hu
    simp only [constructTDList] at h
    split at h
    · cases h
    · rename_i n hn
      split at h
      · cases h
      · rename_i ns hns
        cases h
        obtain ⟨⟨r', hr1, hr2⟩, _⟩ := td_rt env (some (pf, pk)) r n hu.1 hn
        obtain ⟨items', hi1, hi2⟩ := tdList_rt env pf pk (i + 1) rest ns hu.2 hns
        exact ⟨r' :: items', by simp [representSeq, hr1, hi1], by simp [constructTDList, hr2, hi2]⟩
theorem tdMap_rt (env : Env) (pf : Flags) (pk : CompKind) :
    ∀ (items : List (Key × Raw)) (acc cs : List (Key × Node)), untaggedMap items = true →
    AllRT env (some (pf, pk)) acc → constructTDMap env pf pk items acc = .ok cs → AllRT env (some (pf, pk)) cs
  | [], acc, cs, _, hacc, h => by simp only [constructTDMap] at h; cases h; exact hacc
  | (k, r) :: rest, acc, cs, hu, hacc, h => by
    simp only [untaggedMap, Bool.and_eq_true] at hu
    simp only [constructTDMap] at h
    split at h
    · cases h
    · rename_i n hn
      have hrt := (td_rt env (some (pf, pk)) r n hu.1 hn).1
      refine tdMap_rt env pf pk rest _ cs hu.2 (fun kv hkv => ?_) h
      rcases mem_aset hkv with e | hm
      · rw [e]; exact hrt
      · exact hacc kv hm
end

/-! ### leaves whose keywords are all kept by the dumper -/

/-- no keyword repeats a type default of a leaf parsed in source `env` (such a keyword is elided by the
    dumper: findings D17a / D17f / D17g) -/
def noDefaultKw (env : Env) (kw : CtorKw) : Bool :=
  kw.prio != some Tables.defaultPriority && kw.del != some Tables.defaultDeleteNode &&
  kw.new != some Tables.defaultAllowNew && kw.safe != some env.dSafe

theorem keepFlag_top {α : Type} [DecidableEq α] (cur : Option α) (d : α) (h : cur ≠ some d) :
    keepFlag cur none d = cur := by
  cases cur with
  | none => rfl
  | some c =>
    have : c ≠ d := fun e => h (by rw [e])
    simp [keepFlag, this]

/-- at the top of the dumper's stack every keyword of such a leaf is written -/
theorem nodeInfo_leaf_top (env : Env) (kw : CtorKw) (k : LeafKind) (h : noDefaultKw env kw = true) :
    nodeInfo {} (.leaf (mkFlags env kw) k) = kw := by
  simp only [noDefaultKw, Bool.and_eq_true, bne_iff_ne, ne_eq] at h
  obtain ⟨⟨⟨h1, h2⟩, h3⟩, h4⟩ := h
  simp only [nodeInfo, Node.flags, mkFlags, Node.defaultDel, keepFlag_top _ _ h1, keepFlag_top _ _ h2,
    keepFlag_top _ _ h3, keepFlag_top _ _ h4]

end AY
