/-
  AY.Lemmas.C18Lemmas — helper lemmas for AY.Props.C18 (dump ∘ parse on the tag-free vocabulary).
-/
import AY.Model.Dump
import AY.Lemmas.C19Lemmas
namespace AY

/-! ### the tag-free vocabulary -/

mutual
/-- no awesomeyaml tag anywhere; scalars are resolved literals or empty values -/
def Untagged : Raw → Bool
  | .scalar t _ v => t == .none && (match v with | .text _ => false | _ => true)
  | .seq t _ items => t == .none && untaggedList items
  | .map t _ items => t == .none && untaggedMap items
def untaggedList : List Raw → Bool
  | [] => true
  | r :: rest => Untagged r && untaggedList rest
def untaggedMap : List (Key × Raw) → Bool
  | [] => true
  | (_, r) :: rest => Untagged r && untaggedMap rest
end

/-- the node carries no explicit flag and no user metadata -/
def ExplicitFree (f : Flags) : Prop :=
  f.prio = none ∧ f.del = none ∧ f.new = none ∧ f.safe = none ∧ f.md = []

theorem explicitFree_bare (env : Env) : ExplicitFree (bareFlags env) := ⟨rfl, rfl, rfl, rfl, rfl⟩

theorem explicitFree_updFlags {kw : ChildKw} {f : Flags} (h : ExplicitFree f) : ExplicitFree (updFlags kw f) := by
  obtain ⟨h1, h2, h3, h4, h5⟩ := h
  exact ⟨h1, h2, h3, h4, h5⟩

theorem nodeInfo_free (st : DStack) (n : Node) (h : ExplicitFree n.flags) : nodeInfo st n = {} := by
  obtain ⟨h1, h2, h3, h4, h5⟩ := h
  simp only [nodeInfo, h1, h2, h3, h4, h5, keepFlag, keepDel]

theorem adopt_flags (pf : Flags) (pk : CompKind) (n : Node) :
    (adopt pf pk n).flags = match childKw pf pk with
      | some kw => updFlags kw n.flags
      | none => n.flags := by
  simp only [adopt, inheritInto, propagate_flags]
  cases childKw pf pk with
  | none => simp
  | some kw => simp [propagate_flags, setFlags_flags']

theorem adoptBy_free (parent : Option (Flags × CompKind)) {n : Node} (h : ExplicitFree n.flags) :
    ExplicitFree (adoptBy parent n).flags := by
  cases parent with
  | none => exact h
  | some pr =>
    obtain ⟨pf, pk⟩ := pr
    simp only [adoptBy, adopt_flags]
    split
    · exact explicitFree_updFlags h
    · exact h

theorem adoptBy_leaf (parent : Option (Flags × CompKind)) (f : Flags) (k : LeafKind) :
    ∃ f', adoptBy parent (.leaf f k) = .leaf f' k := by
  cases parent with
  | none => exact ⟨f, rfl⟩
  | some pr =>
    obtain ⟨pf, pk⟩ := pr
    simp only [adoptBy, adopt, inheritInto]
    cases childKw pf pk with
    | none => exact ⟨f, rfl⟩
    | some kw => exact ⟨updFlags kw f, rfl⟩

theorem propagate_empty (g : Flags) (k : CompKind) : propagate (.comp g k []) = .comp g k [] := by
  simp only [propagate]
  split <;> simp [applyKwList]

theorem adoptBy_empty_comp (parent : Option (Flags × CompKind)) (f : Flags) (k : CompKind) :
    ∃ f', adoptBy parent (.comp f k []) = .comp f' k [] := by
  cases parent with
  | none => exact ⟨f, rfl⟩
  | some pr =>
    obtain ⟨pf, pk⟩ := pr
    simp only [adoptBy, adopt, inheritInto]
    cases childKw pf pk with
    | none => exact ⟨f, by simp [propagate_empty]⟩
    | some kw => exact ⟨updFlags kw f, by simp [Node.setFlags, Node.flags, propagate_empty]⟩

/-! ### keys -/

theorem mem_aset {key : Key} {v : Node} : ∀ {l : List (Key × Node)} {x : Key × Node},
    x ∈ aset key v l → x = (key, v) ∨ x ∈ l
  | [], x, h => by simp [aset] at h; exact Or.inl h
  | (k', v') :: l, x, h => by
    simp only [aset] at h
    split at h
    · simp only [List.mem_cons] at h
      rcases h with h | h
      · exact Or.inl h
      · exact Or.inr (List.mem_cons_of_mem _ h)
    · simp only [List.mem_cons] at h
      rcases h with h | h
      · exact Or.inr (by simp [h])
      · rcases mem_aset h with h | h
        · exact Or.inl h
        · exact Or.inr (List.mem_cons_of_mem _ h)

theorem keyFresh_aset {k' key : Key} {v : Node} (hne : k' ≠ key) : ∀ {l : List (Key × Node)},
    keyFresh k' l = true → keyFresh k' (aset key v l) = true
  | [], _ => by simp [aset, keyFresh]; exact fun e => hne e.symm
  | (k2, v2) :: l, h => by
    simp only [keyFresh, Bool.and_eq_true, bne_iff_ne, ne_eq] at h
    simp only [aset]
    split
    · simp only [keyFresh, Bool.and_eq_true, bne_iff_ne, ne_eq]; exact ⟨fun e => hne e.symm, h.2⟩
    · simp only [keyFresh, Bool.and_eq_true, bne_iff_ne, ne_eq]; exact ⟨h.1, keyFresh_aset hne h.2⟩

theorem keysNodup_aset {key : Key} {v : Node} : ∀ {l : List (Key × Node)},
    keysNodup l = true → keysNodup (aset key v l) = true
  | [], _ => by simp [aset, keysNodup, keyFresh]
  | (k2, v2) :: l, h => by
    simp only [keysNodup, Bool.and_eq_true] at h
    simp only [aset]
    split
    · rename_i e; subst e; simp only [keysNodup, Bool.and_eq_true]; exact h
    · rename_i hne
      simp only [keysNodup, Bool.and_eq_true]
      exact ⟨keyFresh_aset hne h.1, keysNodup_aset h.2⟩

theorem plainTag_empty : plainTag {} = .none := rfl

/-! ### dump ∘ parse is the identity on trees built from tag-free documents -/

/-- the node, dumped with any stack and parsed again below the same parent, is itself -/
def RT (env : Env) (parent : Option (Flags × CompKind)) (n : Node) : Prop :=
  ∀ st, constructTD env parent (representWith st n) = .ok n

def AllRT (env : Env) (parent : Option (Flags × CompKind)) (cs : List (Key × Node)) : Prop :=
  ∀ kv, kv ∈ cs → RT env parent kv.2

theorem constructTDMap_nodup (env : Env) (pf : Flags) (pk : CompKind) :
    ∀ (items : List (Key × Raw)) (acc cs : List (Key × Node)),
    keysNodup acc = true → constructTDMap env pf pk items acc = .ok cs → keysNodup cs = true
  | [], acc, cs, ha, h => by simp only [constructTDMap] at h; cases h; exact ha
  | (k, r) :: rest, acc, cs, ha, h => by
    simp only [constructTDMap] at h
    split at h
    · cases h
    · exact constructTDMap_nodup env pf pk rest _ cs (keysNodup_aset ha) h

/-- re-parsing the dumped children of a mapping rebuilds exactly these children -/
theorem representMap_rt (env : Env) (pf : Flags) (pk : CompKind) :
    ∀ (cs acc : List (Key × Node)) (st : DStack), AllRT env (some (pf, pk)) cs → keysNodup (acc ++ cs) = true →
    constructTDMap env pf pk (representMap st cs) acc = .ok (acc ++ cs)
  | [], acc, _, _, _ => by simp [representMap, constructTDMap]
  | (key, c) :: rest, acc, st, hall, hn => by
    have hr2 : constructTD env (some (pf, pk)) (representWith st c) = .ok c := hall (key, c) (by simp) st
    have hfresh := keysNodup_append_cons hn
    have hi2 := representMap_rt env pf pk rest (acc ++ [(key, c)]) st
      (fun kv hkv => hall kv (List.mem_cons_of_mem _ hkv)) (by simpa using hn)
    simp only [representMap, constructTDMap, hr2, aset_fresh hfresh, hi2]
    simp

mutual
theorem td_rt (env : Env) : ∀ (parent : Option (Flags × CompKind)) (r : Raw) (n : Node),
    Untagged r = true → constructTD env parent r = .ok n → RT env parent n ∧ ExplicitFree n.flags
  | parent, .scalar t kw v, n, hu, h => by
    simp only [Untagged, Bool.and_eq_true, beq_iff_eq] at hu
    obtain ⟨ht, hv⟩ := hu
    subst ht
    simp only [constructTD] at h
    cases h
    have hfree := adoptBy_free parent (n := .leaf (bareFlags env) (.scalar v.toScalar)) (explicitFree_bare env)
    obtain ⟨f', hf'⟩ := adoptBy_leaf parent (bareFlags env) (.scalar v.toScalar)
    refine ⟨?_, hfree⟩
    rw [hf'] at hfree ⊢
    intro st
    have hni : nodeInfo st (.leaf f' (.scalar v.toScalar)) = {} := nodeInfo_free _ _ hfree
    cases hs : v.toScalar with
    | null =>
      rw [hs] at hni hf'
      simp only [representWith, representLeaf, hni, constructTD, wrapScalar]
      rw [← hf']; rfl
    | bool b =>
      rw [hs] at hni hf'
      simp only [representWith, representLeaf, hni, plainTag_empty]
      simp only [constructTD, RVal.toScalar]; rw [← hf']
    | int i =>
      rw [hs] at hni hf'
      simp only [representWith, representLeaf, hni, plainTag_empty]
      simp only [constructTD, RVal.toScalar]; rw [← hf']
    | float x =>
      rw [hs] at hni hf'
      simp only [representWith, representLeaf, hni, plainTag_empty]
      simp only [constructTD, RVal.toScalar]; rw [← hf']
    | str s =>
      rw [hs] at hni hf'
      simp only [representWith, representLeaf, hni, plainTag_empty]
      simp only [constructTD, RVal.toScalar]; rw [← hf']
  | parent, .seq t kw items, n, hu, h => by
    simp only [Untagged, Bool.and_eq_true, beq_iff_eq] at hu
    obtain ⟨ht, hitems⟩ := hu
    subst ht
    simp only [constructTD] at h
    have hfree := adoptBy_free parent (n := .comp (bareFlags env) .list []) (explicitFree_bare env)
    obtain ⟨f', hf'⟩ := adoptBy_empty_comp parent (bareFlags env) .list
    rw [hf'] at h hfree
    simp only at h
    split at h
    · cases h
    · rename_i cs hcs
      cases h
      refine ⟨?_, hfree⟩
      intro st
      have hni : nodeInfo st (.comp f' .list cs) = {} := nodeInfo_free _ _ hfree
      have hi2 := tdList_rt env f' .list 0 items cs hitems hcs (pushStack st {} (handedDelete f' .list))
      simp only [representWith, hni, CompKind.isDictFam, Bool.false_eq_true, if_false, representComp,
        plainTag_empty]
      simp only [constructTD, hf', hi2]
  | parent, .map t kw items, n, hu, h => by
    simp only [Untagged, Bool.and_eq_true, beq_iff_eq] at hu
    obtain ⟨ht, hitems⟩ := hu
    subst ht
    simp only [constructTD] at h
    have hfree := adoptBy_free parent (n := .comp (bareFlags env) .dict []) (explicitFree_bare env)
    obtain ⟨f', hf'⟩ := adoptBy_empty_comp parent (bareFlags env) .dict
    rw [hf'] at h hfree
    simp only at h
    split at h
    · cases h
    · rename_i cs hcs
      cases h
      have hall := tdMap_rt env f' .dict items [] cs hitems (fun kv hkv => by cases hkv) hcs
      have hnd := constructTDMap_nodup env f' .dict items [] cs (by simp [keysNodup]) hcs
      refine ⟨?_, hfree⟩
      intro st
      have hi2 := representMap_rt env f' .dict cs [] (pushStack st {} (handedDelete f' .dict)) hall (by simpa using hnd)
      have hni : nodeInfo st (.comp f' .dict cs) = {} := nodeInfo_free _ _ hfree
      simp only [representWith, hni, CompKind.isDictFam, if_true, representComp,
        plainTag_empty]
      simp only [constructTD, hf', hi2]; simp
theorem tdList_rt (env : Env) (pf : Flags) (pk : CompKind) :
    ∀ (i : Nat) (items : List Raw) (cs : List (Key × Node)), untaggedList items = true →
    constructTDList env pf pk i items = .ok cs →
    ∀ st, constructTDList env pf pk i (representSeq st cs) = .ok cs
  | _, [], cs, _, h => by
    simp only [constructTDList] at h; cases h
    intro st
    simp [representSeq, constructTDList]
  | i, r :: rest, cs, hu, h => by
    simp only [untaggedList, Bool.and_eq_true] at hu
    simp only [constructTDList] at h
    split at h
    · cases h
    · rename_i n hn
      split at h
      · cases h
      · rename_i ns hns
        cases h
        intro st
        have hr2 : constructTD env (some (pf, pk)) (representWith st n) = .ok n := (td_rt env (some (pf, pk)) r n hu.1 hn).1 st
        have hi2 := tdList_rt env pf pk (i + 1) rest ns hu.2 hns st
        simp [representSeq, constructTDList, hr2, hi2]
theorem tdMap_rt (env : Env) (pf : Flags) (pk : CompKind) :
    ∀ (items : List (Key × Raw)) (acc cs : List (Key × Node)), untaggedMap items = true →
    AllRT env (some (pf, pk)) acc → constructTDMap env pf pk items acc = .ok cs → AllRT env (some (pf, pk)) cs
  | [], acc, cs, _, hacc, h => by simp only [constructTDMap] at h; cases h; exact hacc
  | (k, r) :: rest, acc, cs, hu, hacc, h => by
    simp only [untaggedMap, Bool.and_eq_true] at hu
    simp only [constructTDMap] at h
    split at h
    · cases h
    · rename_i n hn
      have hrt := (td_rt env (some (pf, pk)) r n hu.1 hn).1
      refine tdMap_rt env pf pk rest _ cs hu.2 (fun kv hkv => ?_) h
      rcases mem_aset hkv with e | hm
      · rw [e]; exact hrt
      · exact hacc kv hm
end

/-! ### leaves whose keywords are all kept by the dumper -/

/-- no keyword of a leaf repeats what the re-parsed leaf gets anyway at the top of a document: the
    default priority, `delete = False` (the scalar class default), the default `allow_new` -/
def noDefaultKw (kw : CtorKw) : Bool :=
  kw.prio != some Tables.defaultPriority && kw.del != some Tables.defaultDeleteNode &&
  kw.new != some Tables.defaultAllowNew

theorem keepFlag_top {α : Type} [DecidableEq α] (cur : Option α) (d : α) (h : cur ≠ some d) :
    keepFlag cur none (some d) = cur := by
  cases cur with
  | none => rfl
  | some c =>
    have : c ≠ d := fun e => h (by rw [e])
    simp [keepFlag, this]

theorem keepFlag_top_none {α : Type} [DecidableEq α] (cur : Option α) : keepFlag cur none none = cur := by
  cases cur <;> simp [keepFlag]

theorem keepDel_top_leaf (cur : Option Bool) (h : cur ≠ some Tables.defaultDeleteNode) :
    keepDel false false cur none Tables.defaultDeleteNode = cur := by
  rcases cur with _ | _ | _ <;> simp [keepDel, Tables.defaultDeleteNode] at h ⊢

/-- at the top of the dumper's stack every keyword of such a leaf is written (`safe` always is) -/
theorem nodeInfo_leaf_top (env : Env) (kw : CtorKw) (k : LeafKind) (h : noDefaultKw kw = true) :
    nodeInfo {} (.leaf (mkFlags env kw) k) = kw := by
  simp only [noDefaultKw, Bool.and_eq_true, bne_iff_ne, ne_eq] at h
  obtain ⟨⟨h1, h2⟩, h3⟩ := h
  simp only [nodeInfo, Node.flags, mkFlags, Node.defaultDel, Node.isFuncNode, Node.isComp, keepFlag_top _ _ h1,
    keepDel_top_leaf _ h2, keepFlag_top _ _ h3, keepFlag_top_none]

end AY
