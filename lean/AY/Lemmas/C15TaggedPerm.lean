/-
  AY.Lemmas.C15TaggedPerm — trees of mappings up to the order of keys (`PermD`), for property C15 on
  tagged documents.

  * `PermD n n'`: both trees consist of `.dict` mappings with pairwise distinct keys and leaves (of
    any kind); they have the same flags on every node and, at every mapping, the same keys with
    related values — the order in which a mapping lists its keys is the only thing that may differ.
    The relation is stated through `alookup`, so it IS the domain: `PermD n n` holds exactly for the
    trees of the domain (`dictTree_PermD`).
  * `PermD.ind`: induction over related trees; symmetry.
  * what the relation preserves: flags, `isComp`, truthiness, `delete`, the flag bookkeeping
    (`applyKw`, `propagate`, `adopt`), `_require_all_new` (as an outcome), `get_first_not_missing_node`
    (flags), `filter_nodes` (result up to key order, the same SET of removed paths).
-/
import AY.Lemmas.C15TaggedBase
import AY.Lemmas.OutcomeNestedDefs
import AY.Lemmas.C03Dict
namespace AY.C15T

/-! ### the relation -/

/-- equal up to the order of keys inside every mapping; mappings only, distinct keys -/
inductive PermD : Node → Node → Prop
  | leaf (f : Flags) (k : LeafKind) : PermD (.leaf f k) (.leaf f k)
  | dict (f : Flags) {cs cs' : List (Key × Node)} : keysNodup cs = true → keysNodup cs' = true →
      (∀ k, OptRel PermD (alookup k cs) (alookup k cs')) → PermD (.comp f .dict cs) (.comp f .dict cs')

theorem PermD.flags_eq {n n' : Node} (h : PermD n n') : n'.flags = n.flags := by
  cases h <;> rfl

theorem PermD.isComp_eq {n n' : Node} (h : PermD n n') : n'.isComp = n.isComp := by
  cases h <;> rfl

theorem PermD.leaf_inv {f : Flags} {k : LeafKind} {n' : Node} (h : PermD (.leaf f k) n') : n' = .leaf f k := by
  cases h; rfl

theorem PermD.leaf_inv' {f : Flags} {k : LeafKind} {n : Node} (h : PermD n (.leaf f k)) : n = .leaf f k := by
  cases h; rfl

theorem PermD.comp_inv {f : Flags} {kd : CompKind} {cs : List (Key × Node)} {n' : Node}
    (h : PermD (.comp f kd cs) n') :
    kd = .dict ∧ ∃ cs', n' = .comp f .dict cs' ∧ keysNodup cs = true ∧ keysNodup cs' = true ∧
      ∀ key, OptRel PermD (alookup key cs) (alookup key cs') := by
  cases h with
  | dict _ h1 h2 h3 => exact ⟨rfl, _, rfl, h1, h2, h3⟩

theorem PermD.comp_inv' {f : Flags} {kd : CompKind} {cs' : List (Key × Node)} {n : Node}
    (h : PermD n (.comp f kd cs')) :
    kd = .dict ∧ ∃ cs, n = .comp f .dict cs ∧ keysNodup cs = true ∧ keysNodup cs' = true ∧
      ∀ key, OptRel PermD (alookup key cs) (alookup key cs') := by
  cases h with
  | dict _ h1 h2 h3 => exact ⟨rfl, _, rfl, h1, h2, h3⟩

theorem _root_.AY.OptRel.someL {α : Type} {R : α → α → Prop} {a : α} {b : Option α} (h : OptRel R (some a) b) :
    ∃ a', b = some a' ∧ R a a' := by
  cases h with
  | some hr => exact ⟨_, rfl, hr⟩

theorem _root_.AY.OptRel.someR {α : Type} {R : α → α → Prop} {a : Option α} {b : α} (h : OptRel R a (some b)) :
    ∃ a', a = some a' ∧ R a' b := by
  cases h with
  | some hr => exact ⟨_, rfl, hr⟩

theorem _root_.AY.OptRel.noneL {α : Type} {R : α → α → Prop} {b : Option α} (h : OptRel R none b) : b = none := by
  cases h; rfl

theorem _root_.AY.OptRel.noneR {α : Type} {R : α → α → Prop} {a : Option α} (h : OptRel R a none) : a = none := by
  cases h; rfl

theorem _root_.AY.OptRel.monoR {α : Type} {R S : α → α → Prop} (hrs : ∀ a b, R a b → S a b) {a b : Option α}
    (h : OptRel R a b) : OptRel S a b := by
  cases h with
  | none => exact .none
  | some hr => exact .some (hrs _ _ hr)

/-- induction over related trees: the children under a common key are related, and the motive may
    be assumed for them -/
theorem PermD.ind {motive : Node → Node → Prop}
    (hleaf : ∀ f k, motive (.leaf f k) (.leaf f k))
    (hdict : ∀ f (cs cs' : List (Key × Node)), keysNodup cs = true → keysNodup cs' = true →
      (∀ k, OptRel PermD (alookup k cs) (alookup k cs')) →
      (∀ k c c', alookup k cs = some c → alookup k cs' = some c' → motive c c') →
      motive (.comp f .dict cs) (.comp f .dict cs')) :
    ∀ {n n' : Node}, PermD n n' → motive n n' := by
  have key : ∀ (d : Nat) (n n' : Node), n.depth ≤ d → PermD n n' → motive n n' := by
    intro d
    induction d with
    | zero =>
      intro n n' hd h
      cases h with
      | leaf f k => exact hleaf f k
      | dict f h1 h2 h3 => simp [Node.depth] at hd
    | succ d ih =>
      intro n n' hd h
      cases h with
      | leaf f k => exact hleaf f k
      | dict f h1 h2 h3 =>
        rename_i cs cs'
        refine hdict f cs cs' h1 h2 h3 ?_
        intro k c c' hc hc'
        have hdc : c.depth ≤ d := by
          have := depthList_lookup k cs c hc
          simp only [Node.depth] at hd
          omega
        have := h3 k
        rw [hc, hc'] at this
        cases this with
        | some hr => exact ih c c' hdc hr
  intro n n' h
  exact key n.depth n n' (Nat.le_refl _) h

theorem PermD.symm {n n' : Node} (h : PermD n n') : PermD n' n := by
  refine PermD.ind (motive := fun n n' => PermD n' n) (fun f k => .leaf f k) ?_ h
  intro f cs cs' h1 h2 h3 ih
  refine .dict f h2 h1 ?_
  intro k
  have := h3 k
  cases hc : alookup k cs with
  | none => rw [hc] at this; rw [this.noneL]; exact .none
  | some c =>
    rw [hc] at this
    obtain ⟨c', hc', _⟩ := this.someL
    rw [hc']
    exact .some (ih k c c' hc hc')

/-! ### the domain -/

mutual
/-- mappings with pairwise distinct keys and leaves, nothing else -/
def dictTree : Node → Bool
  | .leaf .. => true
  | .comp _ k cs => k == .dict && keysNodup cs && dictTreeList cs
def dictTreeList : List (Key × Node) → Bool
  | [] => true
  | (_, c) :: rest => dictTree c && dictTreeList rest
end

theorem dictTree_comp {f k cs} (h : dictTree (.comp f k cs) = true) :
    k = .dict ∧ keysNodup cs = true ∧ dictTreeList cs = true := by
  simpa [dictTree, and_assoc] using h

theorem dictTreeList_lookup : ∀ (cs : List (Key × Node)), dictTreeList cs = true → ∀ k c,
    alookup k cs = some c → dictTree c = true
  | [], _, k, c, h => by simp [alookup] at h
  | (k', x) :: rest, hn, k, c, h => by
    have hn' : dictTree x = true ∧ dictTreeList rest = true := by simpa [dictTreeList] using hn
    by_cases e : k' = k
    · simp [alookup, e] at h; subst h; exact hn'.1
    · simp [alookup, e] at h; exact dictTreeList_lookup rest hn'.2 k c h

/-- the relation is reflexive exactly on the domain -/
theorem dictTree_PermD : ∀ (d : Nat) (n : Node), n.depth ≤ d → dictTree n = true → PermD n n := by
  intro d
  induction d with
  | zero =>
    intro n hd h
    cases n with
    | leaf f k => exact .leaf f k
    | comp f k cs => simp [Node.depth] at hd
  | succ d ih =>
    intro n hd h
    cases n with
    | leaf f k => exact .leaf f k
    | comp f k cs =>
      obtain ⟨rfl, hn, hl⟩ := dictTree_comp h
      refine .dict f hn hn ?_
      intro key
      cases hc : alookup key cs with
      | none => exact .none
      | some c =>
        have hdc : c.depth ≤ d := by
          have := depthList_lookup key cs c hc
          simp only [Node.depth] at hd
          omega
        exact .some (ih c hdc (dictTreeList_lookup cs hl key c hc))

theorem PermD.refl {n : Node} (h : dictTree n = true) : PermD n n :=
  dictTree_PermD n.depth n (Nat.le_refl _) h

theorem dictTreeList_of_lookup : ∀ (cs : List (Key × Node)),
    (∀ k c, (k, c) ∈ cs → dictTree c = true) → dictTreeList cs = true
  | [], _ => rfl
  | (k, c) :: rest, h => by
    simp only [dictTreeList, h k c (by simp), Bool.true_and]
    exact dictTreeList_of_lookup rest (fun k' c' hm => h k' c' (List.mem_cons_of_mem _ hm))

/-- related trees lie in the domain -/
theorem PermD.dictTree_left {n n' : Node} (h : PermD n n') : dictTree n = true := by
  refine PermD.ind (motive := fun n _ => dictTree n = true) (fun f k => rfl) ?_ h
  intro f cs cs' h1 h2 h3 ih
  simp only [dictTree, beq_self_eq_true, h1, Bool.true_and]
  apply dictTreeList_of_lookup
  intro k c hm
  have hc := alookup_of_mem h1 hm
  have := h3 k
  rw [hc] at this
  obtain ⟨c', hc', _⟩ := this.someL
  exact ih k c c' hc hc'

theorem PermD.dictTree_right {n n' : Node} (h : PermD n n') : dictTree n' = true := h.symm.dictTree_left

/-! ### simple observations -/

theorem isEmpty_of_lookups {α : Type} {cs cs' : List (Key × α)}
    (h : ∀ k, (alookup k cs).isSome = (alookup k cs').isSome) : cs.isEmpty = cs'.isEmpty := by
  cases cs with
  | nil =>
    cases cs' with
    | nil => rfl
    | cons kv rest =>
      have := h kv.1
      simp [alookup] at this
  | cons kv rest =>
    cases cs' with
    | nil =>
      have := h kv.1
      simp [alookup] at this
    | cons kv' rest' => rfl

theorem _root_.AY.OptRel.isSomeEq {α : Type} {R : α → α → Prop} {a b : Option α} (h : OptRel R a b) : a.isSome = b.isSome := by
  cases h <;> rfl

theorem PermD.children_isEmpty {n n' : Node} (h : PermD n n') : n'.children.isEmpty = n.children.isEmpty := by
  cases h with
  | leaf f k => rfl
  | dict f h1 h2 h3 => exact (isEmpty_of_lookups (fun k => (h3 k).isSomeEq)).symm

theorem PermD.truthy_eq {n n' : Node} (h : PermD n n') : n'.truthy = n.truthy := by
  cases h with
  | leaf f k => rfl
  | dict f h1 h2 h3 =>
    simp only [Node.truthy, CompKind.func?]
    rw [isEmpty_of_lookups (fun k => (h3 k).isSomeEq)]

theorem PermD.eDel_eq {n n' : Node} (h : PermD n n') : eDel n' = eDel n := by
  cases h <;> rfl

theorem PermD.setFlags {n n' : Node} (h : PermD n n') (g : Flags) : PermD (n.setFlags g) (n'.setFlags g) := by
  cases h with
  | leaf f k => exact .leaf g k
  | dict f h1 h2 h3 => exact .dict g h1 h2 h3

/-! ### the flag bookkeeping -/

theorem keysNodup_applyKwList (kw : ChildKw) (cs : List (Key × Node)) :
    keysNodup (applyKwList kw cs) = keysNodup cs :=
  keysNodup_congr _ _ (c04_akeys_applyKwList kw cs)

theorem PermD.applyKw {n n' : Node} (h : PermD n n') : ∀ kw, PermD (applyKw kw n) (applyKw kw n') := by
  refine PermD.ind (motive := fun n n' => ∀ kw, PermD (AY.applyKw kw n) (AY.applyKw kw n')) ?_ ?_ h
  · intro f k kw
    exact .leaf _ k
  · intro f cs cs' h1 h2 h3 ih kw
    simp only [AY.applyKw]
    split
    · have hk : childKw (updFlags kw f) .dict =
          some { iDel := (updFlags kw f).del.or ((updFlags kw f).iDel.or (if defaultDelete .dict then some true else none)),
                 iNew := (updFlags kw f).new.or (updFlags kw f).iNew,
                 iSafe := if (updFlags kw f).iSafe = some false then some false
                          else (updFlags kw f).safe.or (updFlags kw f).iSafe } := rfl
      rw [hk]
      simp only
      refine .dict _ (by rw [keysNodup_applyKwList]; exact h1) (by rw [keysNodup_applyKwList]; exact h2) ?_
      intro k
      rw [alookup_applyKwList, alookup_applyKwList]
      have := h3 k
      cases hc : alookup k cs with
      | none => rw [hc] at this; rw [this.noneL]; exact .none
      | some c =>
        rw [hc] at this
        obtain ⟨c', hc', _⟩ := this.someL
        rw [hc']
        exact .some (ih k c c' hc hc' _)
    · exact .dict f h1 h2 h3

theorem PermD.propagate {n n' : Node} (h : PermD n n') : PermD (propagate n) (propagate n') := by
  cases h with
  | leaf f k => exact .leaf f k
  | dict f h1 h2 h3 =>
    rename_i cs cs'
    have hk : childKw f .dict =
        some { iDel := f.del.or (f.iDel.or (if defaultDelete .dict then some true else none)),
               iNew := f.new.or f.iNew,
               iSafe := if f.iSafe = some false then some false else f.safe.or f.iSafe } := rfl
    simp only [AY.propagate, hk]
    refine .dict _ (by rw [keysNodup_applyKwList]; exact h1) (by rw [keysNodup_applyKwList]; exact h2) ?_
    intro k
    rw [alookup_applyKwList, alookup_applyKwList]
    have := h3 k
    cases hc : alookup k cs with
    | none => rw [hc] at this; rw [this.noneL]; exact .none
    | some c =>
      rw [hc] at this
      obtain ⟨c', hc', hr⟩ := this.someL
      rw [hc']
      exact .some (hr.applyKw _)

theorem PermD.adopt {n n' : Node} (h : PermD n n') (pf : Flags) :
    PermD (adopt pf .dict n) (adopt pf .dict n') := by
  have hk : childKw pf .dict =
      some { iDel := pf.del.or (pf.iDel.or (if defaultDelete .dict then some true else none)),
             iNew := pf.new.or pf.iNew,
             iSafe := if pf.iSafe = some false then some false else pf.safe.or pf.iSafe } := rfl
  simp only [AY.adopt, inheritInto, hk]
  rw [h.flags_eq]
  exact ((h.setFlags _).propagate).propagate

/-! ### `_require_all_new` -/

theorem reqNewList_none_iff (exc : List Path) (p : Path) : ∀ cs : List (Key × Node), keysNodup cs = true →
    (reqNewList exc p cs = none ↔ ∀ k c, alookup k cs = some c → reqNew exc (p ++ [k]) c = none)
  | [], _ => by simp [reqNewList, alookup]
  | (k0, c0) :: rest, hn => by
    have hn' : k0 ∉ akeys rest ∧ keysNodup rest = true := by simpa [keysNodup] using hn
    simp only [reqNewList]
    constructor
    · intro h k c hc
      cases h0 : reqNew exc (p ++ [k0]) c0 with
      | some q => simp [h0] at h
      | none =>
        simp only [h0] at h
        by_cases e : k0 = k
        · subst e
          simp only [alookup, if_true, Option.some.injEq] at hc
          subst hc
          exact h0
        · simp only [alookup, e, if_false] at hc
          exact (reqNewList_none_iff exc p rest hn'.2).1 h k c hc
    · intro h
      have h0 := h k0 c0 (by simp [alookup])
      simp only [h0]
      apply (reqNewList_none_iff exc p rest hn'.2).2
      intro k c hc
      apply h k c
      have : ¬ k0 = k := by
        intro e
        subst e
        exact hn'.1 (mem_akeys_of_mem (mem_of_alookup hc))
      simp only [alookup, this, if_false]
      exact hc

/-- the outcome of `_require_all_new` does not depend on the order of keys -/
theorem PermD.reqNew_none {n n' : Node} (h : PermD n n') (exc : List Path) :
    ∀ p, (reqNew exc p n = none ↔ reqNew exc p n' = none) := by
  refine PermD.ind (motive := fun n n' => ∀ p, (reqNew exc p n = none ↔ reqNew exc p n' = none)) ?_ ?_ h
  · intro f k p
    exact Iff.rfl
  · intro f cs cs' h1 h2 h3 ih p
    simp only [reqNew]
    split
    · exact Iff.rfl
    · rw [reqNewList_none_iff exc p cs h1, reqNewList_none_iff exc p cs' h2]
      constructor
      · intro hall k c' hc'
        have := h3 k
        rw [hc'] at this
        obtain ⟨c, hc, _⟩ := this.someR
        exact (ih k c c' hc hc' _).1 (hall k c hc)
      · intro hall k c hc
        have := h3 k
        rw [hc] at this
        obtain ⟨c', hc', _⟩ := this.someL
        exact (ih k c c' hc hc' _).2 (hall k c' hc')

theorem PermD.reqNewBelow_none {n n' : Node} (h : PermD n n') :
    (reqNewBelow n = none ↔ reqNewBelow n' = none) := by
  cases h with
  | leaf f k => exact Iff.rfl
  | dict f h1 h2 h3 =>
    rename_i cs cs'
    simp only [reqNewBelow]
    rw [reqNewList_none_iff [] [] cs h1, reqNewList_none_iff [] [] cs' h2]
    constructor
    · intro hall k c' hc'
      have := h3 k
      rw [hc'] at this
      obtain ⟨c, hc, hr⟩ := this.someR
      exact (hr.reqNew_none [] _).1 (hall k c hc)
    · intro hall k c hc
      have := h3 k
      rw [hc] at this
      obtain ⟨c', hc', hr⟩ := this.someL
      exact (hr.reqNew_none [] _).2 (hall k c' hc')

/-! ### `get_first_not_missing_node` -/

theorem PermD.firstNotMissing_flags : ∀ (p : Path) {o o' : Node}, PermD o o' →
    (firstNotMissing o' p).flags = (firstNotMissing o p).flags
  | [], o, o', h => by simp only [firstNotMissing]; exact h.flags_eq
  | key :: rest, o, o', h => by
    cases h with
    | leaf f k => rfl
    | dict f h1 h2 h3 =>
      rename_i cs cs'
      simp only [firstNotMissing]
      have := h3 key
      cases hc : alookup key cs with
      | none => rw [hc] at this; rw [this.noneL]; rfl
      | some c =>
        rw [hc] at this
        obtain ⟨c', hc', hr⟩ := this.someL
        rw [hc']
        exact PermD.firstNotMissing_flags rest hr

theorem PermD.maybeKeep_eq {o o' : Node} (h : PermD o o') : maybeKeep o' = maybeKeep o := by
  funext p n
  simp only [maybeKeep, PermD.firstNotMissing_flags p h]

/-! ### `filter_nodes`, any prefix -/

/-- what `filter_nodes` leaves of the child `c` stored under `k` below the prefix `pre` -/
def keptAtP (cond : Path → Node → Bool) (pre : Path) (k : Key) (c : Node) : Option Node :=
  if cond (pre ++ [k]) c || (c.isComp && !(filterNode cond (pre ++ [k]) c).1.children.isEmpty) then
    some (filterNode cond (pre ++ [k]) c).1
  else none

theorem akeys_keptChildren_sub (cond : Path → Node → Bool) (pre : Path) :
    ∀ (cs : List (Key × Node)) (x : Key), x ∈ akeys (keptChildren cond pre cs) → x ∈ akeys cs
  | [], _, h => by simp [keptChildren, akeys] at h
  | (name, child) :: rest, x, h => by
    simp only [keptChildren] at h
    split at h
    · simp only [akeys, List.mem_cons] at h ⊢
      rcases h with h | h
      · exact .inl h
      · exact .inr (akeys_keptChildren_sub cond pre rest x h)
    · simp only [akeys, List.mem_cons]
      exact .inr (akeys_keptChildren_sub cond pre rest x h)

theorem keysNodup_keptChildren (cond : Path → Node → Bool) (pre : Path) :
    ∀ cs : List (Key × Node), keysNodup cs = true → keysNodup (keptChildren cond pre cs) = true
  | [], _ => rfl
  | (name, child) :: rest, h => by
    have h' : name ∉ akeys rest ∧ keysNodup rest = true := by simpa [keysNodup] using h
    simp only [keptChildren]
    split
    · have : name ∉ akeys (keptChildren cond pre rest) := fun hm => h'.1 (akeys_keptChildren_sub cond pre rest name hm)
      simp [keysNodup, this, keysNodup_keptChildren cond pre rest h'.2]
    · exact keysNodup_keptChildren cond pre rest h'.2

/-- the surviving entry of a key depends on the entry of that key only -/
theorem alookup_keptChildren (cond : Path → Node → Bool) (pre : Path) (k : Key) :
    ∀ cs : List (Key × Node), keysNodup cs = true →
      alookup k (keptChildren cond pre cs) = (alookup k cs).bind (keptAtP cond pre k)
  | [], _ => rfl
  | (name, child) :: rest, h => by
    have h' : name ∉ akeys rest ∧ keysNodup rest = true := by simpa [keysNodup] using h
    by_cases e : name = k
    · subst e
      have hnone : alookup name (keptChildren cond pre rest) = none := by
        apply (alookup_none_iff name _).2
        cases hc : (akeys (keptChildren cond pre rest)).contains name with
        | false => rfl
        | true =>
          have hm : name ∈ akeys (keptChildren cond pre rest) := by simpa using hc
          exact absurd (akeys_keptChildren_sub cond pre rest name hm) h'.1
      simp only [keptChildren, alookup, if_true, Option.bind, keptAtP]
      split
      · simp [alookup]
      · exact hnone
    · simp only [keptChildren, alookup, e, if_false]
      split
      · simp only [alookup, e, if_false]
        exact alookup_keptChildren cond pre k rest h'.2
      · exact alookup_keptChildren cond pre k rest h'.2

/-- the paths removed inside the children -/
theorem mem_filterList_removed (cond : Path → Node → Bool) (pre : Path) (p : Path) :
    ∀ cs : List (Key × Node), keysNodup cs = true →
      (p ∈ (filterList cond pre cs).2 ↔
        ∃ k c, alookup k cs = some c ∧ p ∈ (filterNode cond (pre ++ [k]) c).2)
  | [], _ => by simp [filterList, alookup]
  | (name, child) :: rest, h => by
    have h' : name ∉ akeys rest ∧ keysNodup rest = true := by simpa [keysNodup] using h
    simp only [filterList, List.mem_append]
    rw [mem_filterList_removed cond pre p rest h'.2]
    constructor
    · rintro (h1 | ⟨k, c, hc, hp⟩)
      · exact ⟨name, child, by simp [alookup], h1⟩
      · refine ⟨k, c, ?_, hp⟩
        have : ¬ name = k := by
          intro e
          subst e
          exact h'.1 (mem_akeys_of_mem (mem_of_alookup hc))
        simp only [alookup, this, if_false]
        exact hc
    · rintro ⟨k, c, hc, hp⟩
      by_cases e : name = k
      · subst e
        simp only [alookup, if_true, Option.some.injEq] at hc
        subst hc
        exact .inl hp
      · simp only [alookup, e, if_false] at hc
        exact .inr ⟨k, c, hc, hp⟩

/-- the names removed at this level -/
theorem mem_notKeptNames (cond : Path → Node → Bool) (pre : Path) (nm : Key) :
    ∀ cs : List (Key × Node), keysNodup cs = true →
      (nm ∈ notKeptNames (filterList cond pre cs).1 ↔
        ∃ c, alookup nm cs = some c ∧ keptAtP cond pre nm c = none)
  | [], _ => by simp [filterList, notKeptNames, alookup]
  | (name, child) :: rest, h => by
    have h' : name ∉ akeys rest ∧ keysNodup rest = true := by simpa [keysNodup] using h
    simp only [filterList, notKeptNames]
    by_cases e : name = nm
    · subst e
      have hno : name ∉ notKeptNames (filterList cond pre rest).1 := by
        intro hm
        have := c04_notKeptNames_subset _ name hm
        rw [c04_akeys_dropMarks_filterList] at this
        exact h'.1 this
      simp only [alookup, if_true, Option.some.injEq, exists_eq_left', keptAtP]
      split <;> simp_all
    · simp only [alookup, e, if_false]
      split
      · exact mem_notKeptNames cond pre nm rest h'.2
      · simp only [List.mem_cons]
        constructor
        · rintro (h1 | h1)
          · exact absurd h1.symm e
          · exact (mem_notKeptNames cond pre nm rest h'.2).1 h1
        · exact fun h1 => .inr ((mem_notKeptNames cond pre nm rest h'.2).2 h1)

/-- the removed paths of a mapping with distinct keys, entry by entry -/
theorem mem_removed (cond : Path → Node → Bool) (f : Flags) (kd : CompKind) (pre : Path) (p : Path)
    (cs : List (Key × Node)) (hn : keysNodup cs = true) :
    (p ∈ (filterNode cond pre (.comp f kd cs)).2 ↔
      ∃ k c, alookup k cs = some c ∧
        (p ∈ (filterNode cond (pre ++ [k]) c).2 ∨ (p = pre ++ [k] ∧ keptAtP cond pre k c = none))) := by
  simp only [filterNode, List.mem_append, List.mem_map, List.mem_reverse]
  rw [mem_filterList_removed cond pre p cs hn]
  constructor
  · rintro (⟨k, c, hc, hp⟩ | ⟨nm, hnm, hp⟩)
    · exact ⟨k, c, hc, .inl hp⟩
    · obtain ⟨c, hc, hk⟩ := (mem_notKeptNames cond pre nm cs hn).1 hnm
      exact ⟨nm, c, hc, .inr ⟨hp.symm, hk⟩⟩
  · rintro ⟨k, c, hc, hp | ⟨hp, hk⟩⟩
    · exact .inl ⟨k, c, hc, hp⟩
    · exact .inr ⟨k, (mem_notKeptNames cond pre k cs hn).2 ⟨c, hc, hk⟩, hp.symm⟩

/-- `filter_nodes` with a condition that reads the flags of a node only: related trees give related
    results and the same set of removed paths -/
theorem PermD.filterNode (cond : Path → Node → Bool)
    (hcond : ∀ p (n n' : Node), n'.flags = n.flags → cond p n' = cond p n) {n n' : Node} (h : PermD n n') :
    ∀ pre, PermD (filterNode cond pre n).1 (filterNode cond pre n').1 ∧
      ∀ p, (p ∈ (filterNode cond pre n).2 ↔ p ∈ (filterNode cond pre n').2) := by
  refine PermD.ind (motive := fun n n' => ∀ pre, PermD (AY.filterNode cond pre n).1 (AY.filterNode cond pre n').1 ∧
      ∀ p, (p ∈ (AY.filterNode cond pre n).2 ↔ p ∈ (AY.filterNode cond pre n').2)) ?_ ?_ h
  · intro f k pre
    exact ⟨.leaf f k, fun p => Iff.rfl⟩
  · intro f cs cs' h1 h2 h3 ih pre
    have hkept : ∀ k c c', alookup k cs = some c → alookup k cs' = some c' →
        OptRel PermD (keptAtP cond pre k c) (keptAtP cond pre k c') := by
      intro k c c' hc hc'
      have hr : PermD c c' := by
        have := h3 k
        rw [hc, hc'] at this
        cases this with
        | some hr => exact hr
      obtain ⟨i1, _⟩ := ih k c c' hc hc' (pre ++ [k])
      simp only [keptAtP, hcond (pre ++ [k]) c c' hr.flags_eq, hr.isComp_eq, i1.children_isEmpty]
      split
      · exact .some i1
      · exact .none
    constructor
    · rw [c04_filterNode_dict_kept cond pre f .dict cs rfl h1, c04_filterNode_dict_kept cond pre f .dict cs' rfl h2]
      refine .dict f (keysNodup_keptChildren cond pre cs h1) (keysNodup_keptChildren cond pre cs' h2) ?_
      intro k
      rw [alookup_keptChildren cond pre k cs h1, alookup_keptChildren cond pre k cs' h2]
      have := h3 k
      cases hc : alookup k cs with
      | none => rw [hc] at this; rw [this.noneL]; exact .none
      | some c =>
        rw [hc] at this
        obtain ⟨c', hc', _⟩ := this.someL
        rw [hc']
        exact hkept k c c' hc hc'
    · intro p
      rw [mem_removed cond f .dict pre p cs h1, mem_removed cond f .dict pre p cs' h2]
      constructor
      · rintro ⟨k, c, hc, hp⟩
        have := h3 k
        rw [hc] at this
        obtain ⟨c', hc', _⟩ := this.someL
        refine ⟨k, c', hc', ?_⟩
        rcases hp with hp | ⟨hp, hk⟩
        · exact .inl (((ih k c c' hc hc' (pre ++ [k])).2 p).1 hp)
        · refine .inr ⟨hp, ?_⟩
          have := hkept k c c' hc hc'
          rw [hk] at this
          exact this.noneL
      · rintro ⟨k, c', hc', hp⟩
        have := h3 k
        rw [hc'] at this
        obtain ⟨c, hc, _⟩ := this.someR
        refine ⟨k, c, hc, ?_⟩
        rcases hp with hp | ⟨hp, hk⟩
        · exact .inl (((ih k c c' hc hc' (pre ++ [k])).2 p).2 hp)
        · refine .inr ⟨hp, ?_⟩
          have := hkept k c c' hc hc'
          rw [hk] at this
          exact this.noneR

theorem maybeKeep_flags (o : Node) (p : Path) (n n' : Node) (h : n'.flags = n.flags) :
    maybeKeep o p n' = maybeKeep o p n := by
  simp only [maybeKeep, h]

end AY.C15T
