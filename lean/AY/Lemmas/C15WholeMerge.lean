/-
  AY.Lemmas.C15WholeMerge — erasing the `safe` / `allow_new` flags commutes with `mergeF` on whole
  trees: for consistent trees without `!notnew`,
      mergeF fuel (eraseSN a) (eraseSN b) = eraseRes (mergeF fuel a b)
  (same error, or the erased result and the same `is self` answer).
-/
import AY.Lemmas.C15WholeProp
import AY.Lemmas.C15WholeNN
set_option linter.unusedVariables false
namespace AY
open AY.C15W

/-- the erased outcome of a merge -/
def eraseRes : Except Err (Node × Bool) → Except Err (Node × Bool)
  | .ok (r, s) => .ok (eraseSN r, s)
  | .error e => .error e

theorem children_eraseSN (n : Node) : (eraseSN n).children = eraseSNList n.children := by
  cases n <;> rfl

theorem isEmpty_eraseSNList (cs : List (Key × Node)) : (eraseSNList cs).isEmpty = cs.isEmpty := by
  cases cs with
  | nil => rfl
  | cons kv rest => obtain ⟨k, c⟩ := kv; rfl

theorem del_eraseF (f : Flags) : (eraseF f).del = f.del := rfl

theorem reqNew_eraseSN (exc : List Path) (p : Path) (n : Node) : reqNew exc p (eraseSN n) = none :=
  reqNew_allNew exc p _ (allNew_eraseSN n)

theorem reqNewBelow_eraseSN (n : Node) : reqNewBelow (eraseSN n) = none :=
  reqNewBelow_allNew (allNew_eraseSN n)

/-! ### `remove_child` in sequence, `filter_nodes` -/

theorem removeChild_allCons {pf : Flags} {pk : CompKind} {name : Key} {cs cs' : List (Key × Node)}
    (h : allConsistent cs = true) (hr : removeChild pf pk name cs = some cs') : allConsistent cs' = true :=
  removeChild_cons (kwLe_none pf pk) h hr

theorem removeMany_eraseSN (pf : Flags) (pk : CompKind) : ∀ (names : List Key) (cs : List (Key × Node)),
    allConsistent cs = true →
    removeMany (eraseF pf) pk names (eraseSNList cs) = eraseSNList (removeMany pf pk names cs)
  | [], cs, _ => rfl
  | nm :: rest, cs, h => by
    simp only [removeMany, removeChild_eraseSN pf pk nm h]
    cases hr : removeChild pf pk nm cs with
    | none => simp only [Option.map_none]; exact removeMany_eraseSN pf pk rest cs h
    | some cs' => simp only [Option.map_some]; exact removeMany_eraseSN pf pk rest cs' (removeChild_allCons h hr)

def eraseMarks : List (Key × Node × Bool) → List (Key × Node × Bool)
  | [] => []
  | (k, n, b) :: rest => (k, eraseSN n, b) :: eraseMarks rest

theorem notKeptNames_eraseMarks : ∀ l, notKeptNames (eraseMarks l) = notKeptNames l
  | [] => rfl
  | (k, n, b) :: rest => by cases b <;> simp [eraseMarks, notKeptNames, notKeptNames_eraseMarks rest]

theorem dropMarks_eraseMarks : ∀ l, dropMarks (eraseMarks l) = eraseSNList (dropMarks l)
  | [] => rfl
  | (k, n, b) :: rest => by simp [eraseMarks, dropMarks, eraseSNList, dropMarks_eraseMarks rest]

mutual
theorem filterNode_eraseSN (cond cond' : Path → Node → Bool) (hc : ∀ p m, cond' p (eraseSN m) = cond p m) :
    ∀ (pre : Path) (n : Node), ConsistentBelow n = true →
    filterNode cond' pre (eraseSN n) = (eraseSN (filterNode cond pre n).1, (filterNode cond pre n).2)
  | _, .leaf f k, _ => rfl
  | pre, .comp f k cs, h => by
    simp only [ConsistentBelow] at h
    have hd := filterList_cons cond none pre cs h
    simp only [eraseSN, filterNode, filterList_eraseSN cond cond' hc pre cs h, notKeptNames_eraseMarks,
      dropMarks_eraseMarks, removeMany_eraseSN f k _ _ hd]
theorem filterList_eraseSN (cond cond' : Path → Node → Bool) (hc : ∀ p m, cond' p (eraseSN m) = cond p m) :
    ∀ (pre : Path) (cs : List (Key × Node)), allConsistent cs = true →
    filterList cond' pre (eraseSNList cs) = (eraseMarks (filterList cond pre cs).1, (filterList cond pre cs).2)
  | _, [], _ => rfl
  | pre, (name, child) :: rest, h => by
    rw [allConsistent_cons] at h
    simp only [eraseSNList, filterList,
      filterNode_eraseSN cond cond' hc (pre ++ [name]) child (consistentBelow_of_consistent h.1),
      filterList_eraseSN cond cond' hc pre rest h.2, hc, isComp_eraseSN, children_eraseSN,
      isEmpty_eraseSNList, eraseMarks]
end

/-! ### the flag combinations and promotions -/

theorem leafRule_eraseSN' {s o : Node} (hs : ConsistentBelow s = true) (ho : ConsistentBelow o = true) :
    leafRule (eraseSN s) (eraseSN o) = (eraseSN (leafRule s o).1, (leafRule s o).2) := by
  simp only [leafRule, flags_eraseSN, hasPrio_eraseF]
  split
  · rw [propagate_eraseSN (consistentBelow_setFlags' _ hs), eraseSN_setFlags, eraseF_replaceOtherFlags]
  · rw [propagate_eraseSN (consistentBelow_setFlags' _ ho), eraseSN_setFlags, eraseF_replaceOtherFlags]

theorem setChild_allCons {pf : Flags} {pk : CompKind} {name : Key} {v : Node} {cs cs' : List (Key × Node)}
    (hv : FlagsConsistent v = true) (hcs : allConsistent cs = true) (h : setChild pf pk name v cs = .ok cs') :
    allConsistent cs' = true :=
  setChild_cons (kwLe_none pf pk) hv hcs h

theorem adoptAll_eraseSN (pf : Flags) (pk : CompKind) : ∀ (items acc : List (Key × Node)),
    allConsistent items = true → allConsistent acc = true →
    adoptAll (eraseF pf) pk (eraseSNList items) (eraseSNList acc) = (adoptAll pf pk items acc).map eraseSNList
  | [], acc, _, _ => rfl
  | (k, v) :: rest, acc, hi, hacc => by
    rw [allConsistent_cons] at hi
    simp only [eraseSNList, adoptAll, setChild_eraseSN pf pk k acc hi.1]
    cases hs : setChild pf pk k v acc with
    | error e => rfl
    | ok acc' =>
      simp only [Except.map]
      exact adoptAll_eraseSN pf pk rest acc' hi.2 (setChild_allCons hi.1 hacc hs)

theorem eraseF_promotedFlags (sf of : Flags) : eraseF (promotedFlags sf of) = eraseF sf := by
  unfold promotedFlags; split <;> rfl

theorem promotedFlags_eraseF (sf of : Flags) : promotedFlags (eraseF sf) (eraseF of) = eraseF sf := by
  unfold promotedFlags; rw [eSafe_eraseF]; rfl

theorem maybePromote_eraseSN (sf : Flags) (sk : CompKind) {scs : List (Key × Node)} (o : Node)
    (hscs : allConsistent scs = true) :
    maybePromote (eraseF sf) sk (eraseSNList scs) (eraseSN o) = eraseRes (maybePromote sf sk scs o) := by
  cases o with
  | leaf of lk => rfl
  | comp of ok ocs =>
    have ha := adoptAll_eraseSN of ok scs [] hscs nil_cons
    simp only [eraseSNList] at ha
    cases hh : adoptAll of ok scs [] with
    | error e =>
      simp only [hh, Except.map] at ha
      simp only [eraseSN, maybePromote, ha, hh]
      repeat' split
      all_goals rfl
    | ok cs' =>
      simp only [hh, Except.map] at ha
      simp only [eraseSN, maybePromote, ha, hh, promotedFlags_eraseF]
      repeat' split
      all_goals first | rfl | (simp only [eraseRes, Except.map, eraseSN, eraseF_promotedFlags])

theorem finishMerge_eraseSN (sf : Flags) (sk : CompKind) {scs : List (Key × Node)} (o : Node)
    (hscs : allConsistent scs = true) :
    finishMerge (eraseF sf) sk (eraseSNList scs) (eraseSN o) = eraseRes (finishMerge sf sk scs o) := by
  simp only [finishMerge, flags_eraseSN, hasPrio_eraseF, ← eraseF_replaceSelfFlags, ← eraseF_replaceOtherFlags,
    maybePromote_eraseSN _ sk o hscs]
  split
  · cases hp : maybePromote (replaceSelfFlags sf o.flags) sk scs o with
    | error e => rfl
    | ok rs =>
      obtain ⟨r, same⟩ := rs
      simp only [eraseRes, propagate_eraseSN (maybePromote_below hscs hp)]
  · cases hp : maybePromote (replaceOtherFlags sf o.flags) sk scs o with
    | error e => rfl
    | ok rs =>
      obtain ⟨r, same⟩ := rs
      simp only [eraseRes, propagate_eraseSN (maybePromote_below hscs hp)]

/-! ### the key loop -/

/-- the recursive merge commutes with erasing on consistent `!notnew`-free trees -/
def RecErase (rec : Node → Node → Except Err (Node × Bool)) : Prop :=
  ∀ a b, FlagsConsistent a = true → FlagsConsistent b = true → NN a = true → NN b = true →
    rec (eraseSN a) (eraseSN b) = eraseRes (rec a b)

theorem removeChildE_eraseSN (pf : Flags) (pk : CompKind) (name : Key) {cs : List (Key × Node)}
    (h : allConsistent cs = true) :
    removeChildE (eraseF pf) pk name (eraseSNList cs) = (removeChildE pf pk name cs).map eraseSNList := by
  simp only [removeChildE, removeChild_eraseSN pf pk name h]
  cases removeChild pf pk name cs <;> rfl

theorem mergeStep_eraseSN {exc : List Path} {rec : Node → Node → Except Err (Node × Bool)} (hE : RecErase rec) (hC : RecCons rec)
    (hN : RecNN rec) (sf : Flags) (sk : CompKind) {acc : List (Key × Node)} (key : Key) {v : Node}
    (hacc : allConsistent acc = true) (hnacc : nnList acc = true) (hv : FlagsConsistent v = true)
    (hnv : NN v = true) :
    mergeStep rec (eraseF sf) sk exc (eraseSNList acc) (key, eraseSN v) =
      (mergeStep rec sf sk exc acc (key, v)).map eraseSNList := by
  simp only [mergeStep, getChild_eraseSN]
  cases hg : getChild sk key acc with
  | none =>
    simp only [Option.map_none, reqNew_eraseSN, reqNew_NN _ [] hnv]
    exact setChild_eraseSN sf sk key acc hv
  | some child =>
    have hchild := getChild_cons hacc hg
    have hnchild := getChild_nn hnacc hg
    simp only [Option.map_some, hE child v hchild hv hnchild hnv]
    cases hr : rec child v with
    | error e => rfl
    | ok rs =>
      obtain ⟨nw, same⟩ := rs
      have hnw := hC _ _ _ _ hchild hv hr
      have hnnw := hN _ _ _ _ hnchild hnv hr
      simp only [eraseRes, isComp_eraseSN, truthy_eraseSN, flags_eraseSN, hasPrio_eraseF, del_eraseF,
        reqNewBelow_eraseSN, reqNewBelow_NN hnnw, removeChildE_eraseSN sf sk key hacc,
        setChild_eraseSN sf sk key acc hnw, ← replaceChild_eraseSN]
      repeat' split
      all_goals rfl

theorem mergeStep_allCons {exc : List Path} {rec : Node → Node → Except Err (Node × Bool)} (hC : RecCons rec) {sf : Flags}
    {sk : CompKind} {acc acc' : List (Key × Node)} {kv : Key × Node} (hacc : allConsistent acc = true)
    (hkv : FlagsConsistent kv.2 = true) (h : mergeStep rec sf sk exc acc kv = .ok acc') :
    allConsistent acc' = true :=
  mergeStep_cons hC hacc hkv h

theorem mergeLoop_eraseSN {exc : List Path} {rec : Node → Node → Except Err (Node × Bool)} (hE : RecErase rec) (hC : RecCons rec)
    (hN : RecNN rec) (sf : Flags) (hsf : nnF sf = true) (sk : CompKind) : ∀ (acc ocs : List (Key × Node)),
    allConsistent acc = true → nnList acc = true → allConsistent ocs = true → nnList ocs = true →
    mergeLoop rec (eraseF sf) sk exc (eraseSNList acc) (eraseSNList ocs) =
      (mergeLoop rec sf sk exc acc ocs).map eraseSNList
  | acc, [], _, _, _, _ => rfl
  | acc, (k, v) :: rest, hacc, hnacc, ho, hno => by
    rw [allConsistent_cons] at ho
    rw [nnList_cons] at hno
    simp only [eraseSNList, mergeLoop, mergeStep_eraseSN hE hC hN sf sk k hacc hnacc ho.1 hno.1]
    cases hs : mergeStep rec sf sk exc acc (k, v) with
    | error e => rfl
    | ok acc1 =>
      simp only [Except.map]
      exact mergeLoop_eraseSN hE hC hN sf hsf sk acc1 rest (mergeStep_cons hC hacc ho.1 hs)
        (mergeStep_nn hN hsf hnacc hno.1 hs) ho.2 hno.2

/-! ### `on_merge_impl` of the three families -/

theorem compMerge_eraseSN {rec : Node → Node → Except Err (Node × Bool)} (hE : RecErase rec) (hC : RecCons rec)
    (hN : RecNN rec) (sf : Flags) (sk : CompKind) {scs : List (Key × Node)} {o : Node}
    (hscs : allConsistent scs = true) (hsf : nnF sf = true) (hnscs : nnList scs = true)
    (ho : FlagsConsistent o = true) (hno : NN o = true) :
    compMerge rec (eraseF sf) sk (eraseSNList scs) (eraseSN o) = eraseRes (compMerge rec sf sk scs o) := by
  have hsB : ConsistentBelow (.comp sf sk scs) = true := hscs
  have hsN : NN (.comp sf sk scs) = true := (NN_comp sf sk scs).2 ⟨hsf, hnscs⟩
  cases o with
  | leaf of lk =>
    have := leafRule_eraseSN' hsB (o := .leaf of lk) rfl
    simp only [eraseSN] at this
    simp only [eraseSN, compMerge, this, eraseRes]
  | comp of ok ocs =>
    have hocs : allConsistent ocs = true := by
      simp only [FlagsConsistent] at ho; exact consistentList_weaken ho
    have hno' := (NN_comp of ok ocs).1 hno
    have hfil := filterNode_eraseSN (maybeKeep (.comp of ok ocs)) (maybeKeep (eraseSN (.comp of ok ocs)))
      (fun p m => maybeKeep_eraseSN _ p m) [] (.comp sf sk scs) hsB
    have hfB := filterNode_below (maybeKeep (.comp of ok ocs)) [] sf sk hscs
    have hfN := filterNode_nn (maybeKeep (.comp of ok ocs)) [] _ hsN
    have hed := eDel_eraseSN (.comp of ok ocs)
    have hrq := fun exc => reqNew_eraseSN exc [] (.comp of ok ocs)
    simp only [eraseSN] at hfil hed hrq
    have hloop1 := mergeLoop_eraseSN
      (exc := (filterNode (maybeKeep (.comp of ok ocs)) [] (.comp sf sk scs)).2) hE hC hN sf hsf sk _ ocs hfB (NN_children hfN) hocs hno'.2
    have hloop2 := mergeLoop_eraseSN (exc := []) hE hC hN sf hsf sk scs ocs hscs hnscs hocs hno'.2
    have hfin := fun scs' h => finishMerge_eraseSN sf sk (scs := scs') (.comp of ok ocs) h
    simp only [eraseSN] at hfin
    simp only [eraseSN, compMerge, hed, hfil, children_eraseSN, isEmpty_eraseSNList, hasPrio_eraseF, hrq,
      reqNew_NN _ _ hno, ← eraseF_replaceOtherFlags, hloop1, hloop2]
    split
    · split
      · rw [maybePromote_eraseSN _ ok _ hocs]
        cases hp : maybePromote (replaceOtherFlags of sf) ok ocs
            (filterNode (maybeKeep (.comp of ok ocs)) [] (.comp sf sk scs)).1 with
        | error e => rfl
        | ok rs =>
          obtain ⟨r, same⟩ := rs
          simp only [eraseRes, propagate_eraseSN (maybePromote_below hocs hp)]
      · cases hl : mergeLoop rec sf sk (filterNode (maybeKeep (.comp of ok ocs)) [] (.comp sf sk scs)).2
          (filterNode (maybeKeep (.comp of ok ocs)) [] (.comp sf sk scs)).1.children ocs with
        | error e => rfl
        | ok scs' =>
          simp only [Except.map]
          exact hfin scs' (mergeLoop_cons hC sf sk _ ocs scs' hfB hocs hl)
    · cases hl : mergeLoop rec sf sk [] scs ocs with
      | error e => rfl
      | ok scs' =>
        simp only [Except.map]
        exact hfin scs' (mergeLoop_cons hC sf sk _ ocs scs' hscs hocs hl)

theorem listKeysValid_eraseSN (len : Nat) : ∀ ocs : List (Key × Node),
    listKeysValid len (eraseSNList ocs) = listKeysValid len ocs
  | [] => rfl
  | (k, c) :: rest => by
    simp only [eraseSNList, listKeysValid, listKeysValid_eraseSN len rest]

theorem listMerge_eraseSN {rec : Node → Node → Except Err (Node × Bool)} (hE : RecErase rec) (hC : RecCons rec)
    (hN : RecNN rec) (sf : Flags) (sk : CompKind) {scs : List (Key × Node)} {o : Node}
    (hscs : allConsistent scs = true) (hsf : nnF sf = true) (hnscs : nnList scs = true)
    (ho : FlagsConsistent o = true) (hno : NN o = true) :
    listMerge rec (eraseF sf) sk (eraseSNList scs) (eraseSN o) = eraseRes (listMerge rec sf sk scs o) := by
  cases o with
  | leaf of lk =>
    have := compMerge_eraseSN hE hC hN sf sk hscs hsf hnscs ho hno
    simp only [eraseSN] at this
    simp only [eraseSN, listMerge, this]
  | comp of ok ocs =>
    have hfil := filterNode_eraseSN (keepIfExists (.comp sf sk scs)) (keepIfExists (eraseSN (.comp sf sk scs)))
      (fun p m => keepIfExists_eraseSN _ p m) [] (.comp of ok ocs) (consistentBelow_of_consistent ho)
    have hed := eDel_eraseSN (.comp of ok ocs)
    have hc := compMerge_eraseSN hE hC hN sf sk hscs hsf hnscs
      (filterNode_cons (keepIfExists (.comp sf sk scs)) [] _ ho) (filterNode_nn (keepIfExists (.comp sf sk scs)) [] _ hno)
    simp only [eraseSN] at hfil hed
    simp only [eraseSN, listMerge, hed, eraseSNList_length, listKeysValid_eraseSN, hfil, hc]
    split <;> rfl

theorem funcMerge_eraseSN {rec : Node → Node → Except Err (Node × Bool)} (hE : RecErase rec) (hC : RecCons rec)
    (hN : RecNN rec) (sf : Flags) (sk : CompKind) (f : String) {scs : List (Key × Node)} {o : Node}
    (hscs : allConsistent scs = true) (hsf : nnF sf = true) (hnscs : nnList scs = true)
    (ho : FlagsConsistent o = true) (hno : NN o = true) :
    funcMerge rec (eraseF sf) sk f (eraseSNList scs) (eraseSN o) = eraseRes (funcMerge rec sf sk f scs o) := by
  have hc := fun sk' => compMerge_eraseSN hE hC hN sf sk' hscs hsf hnscs ho hno
  have hc0 := fun sk' => compMerge_eraseSN hE hC hN sf sk' (scs := []) nil_cons hsf nnList_nil ho hno
  have hp := fun (g : Flags) (k' : CompKind) => propagate_eraseSN (n := .comp g k' scs) hscs
  have hp0 := fun (g : Flags) (k' : CompKind) => propagate_eraseSN (n := .comp g k' []) nil_cons
  simp only [eraseSN, eraseSNList] at hp hp0 hc0
  cases o with
  | leaf of lk =>
    simp only [eraseSN] at hc
    simp only [eraseSN, funcMerge, hasPrio_eraseF, ← eraseF_replaceSelfFlags, ← eraseF_replaceOtherFlags,
      ← hp, ← hp0, hc]
    repeat' split
    all_goals rfl
  | comp of ok ocs =>
    have hed := eDel_eraseSN (.comp of ok ocs)
    simp only [eraseSN] at hc hed
    simp only [eraseSN, funcMerge, hasPrio_eraseF, ← eraseF_replaceOtherFlags, ← hp, hc, hed]
    split
    · rfl
    · split
      · split
        · rfl
        · split
          · exact hc0 _
          · exact hc _
      · rfl

/-- `on_merge` commutes with erasing `safe` / `allow_new`, at every fuel -/
theorem mergeF_eraseSN : ∀ (fuel : Nat), RecErase (mergeF fuel)
  | 0 => fun a b _ _ _ _ => rfl
  | fuel + 1 => fun a b ha hb hna hnb => by
    have ihE := mergeF_eraseSN fuel
    have ihC := mergeF_cons fuel
    have ihN := mergeF_nn fuel
    cases a with
    | leaf f k =>
      have := leafRule_eraseSN' (s := .leaf f k) rfl (consistentBelow_of_consistent hb)
      simp only [eraseSN] at this
      simp only [eraseSN, mergeF, this, eraseRes]
    | comp sf sk scs =>
      have hscs : allConsistent scs = true := by
        simp only [FlagsConsistent] at ha; exact consistentList_weaken ha
      have hna' := (NN_comp sf sk scs).1 hna
      cases sk with
      | dict => simpa only [eraseSN, mergeF] using compMerge_eraseSN ihE ihC ihN sf .dict hscs hna'.1 hna'.2 hb hnb
      | call g => simpa only [eraseSN, mergeF] using funcMerge_eraseSN ihE ihC ihN sf (.call g) g hscs hna'.1 hna'.2 hb hnb
      | bind g => simpa only [eraseSN, mergeF] using funcMerge_eraseSN ihE ihC ihN sf (.bind g) g hscs hna'.1 hna'.2 hb hnb
      | list => simpa only [eraseSN, mergeF] using listMerge_eraseSN ihE ihC ihN sf .list hscs hna'.1 hna'.2 hb hnb
      | append => simpa only [eraseSN, mergeF] using listMerge_eraseSN ihE ihC ihN sf .append hscs hna'.1 hna'.2 hb hnb
      | extend => simpa only [eraseSN, mergeF] using listMerge_eraseSN ihE ihC ihN sf .extend hscs hna'.1 hna'.2 hb hnb
      | path p => simpa only [eraseSN, mergeF] using listMerge_eraseSN ihE ihC ihN sf (.path p) hscs hna'.1 hna'.2 hb hnb
      | stream => simpa only [eraseSN, mergeF] using listMerge_eraseSN ihE ihC ihN sf .stream hscs hna'.1 hna'.2 hb hnb

mutual
theorem depth_eraseSN : ∀ n : Node, (eraseSN n).depth = n.depth
  | .leaf f k => rfl
  | .comp f k cs => by simp only [eraseSN, Node.depth, depthList_eraseSN cs]
theorem depthList_eraseSN : ∀ cs : List (Key × Node), depthList (eraseSNList cs) = depthList cs
  | [] => rfl
  | (k, c) :: rest => by simp only [eraseSNList, depthList, depth_eraseSN c, depthList_eraseSN rest]
end

theorem merge_eraseSN {a b : Node} (ha : FlagsConsistent a = true) (hb : FlagsConsistent b = true)
    (hna : NN a = true) (hnb : NN b = true) : merge (eraseSN a) (eraseSN b) = (merge a b).map eraseSN := by
  simp only [merge, depth_eraseSN, mergeF_eraseSN _ a b ha hb hna hnb]
  cases mergeF (b.depth + 1) a b with
  | error e => rfl
  | ok rs => obtain ⟨r, s⟩ := rs; rfl

end AY
