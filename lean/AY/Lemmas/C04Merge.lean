/-
  AY.Lemmas.C04Merge — the deleting branch of `ComposedNode.on_merge_impl`, the key loop of a
  non-deleting merge (keys of the result), and the remove-this-key cases of the loop body.
-/
import AY.Lemmas.C04Filter
import AY.Lemmas.C05Frame
namespace AY

/-! ### the deleting branch -/

/-- `other` is deleting and nothing of `self` survives the filter: the early exit -/
theorem c04_compMerge_del_emptied (rec : Node → Node → Except Err (Node × Bool)) {sf sk scs of ok ocs}
    (hdel : eDel (.comp of ok ocs) = true) (hprio : hasPrio of sf true = true)
    (hfil : (filterNode (maybeKeep (.comp of ok ocs)) [] (.comp sf sk scs)).1 = .comp sf sk []) :
    compMerge rec sf sk scs (.comp of ok ocs) =
      match reqNew ([] :: (filterNode (maybeKeep (.comp of ok ocs)) [] (.comp sf sk scs)).2) []
          (.comp of ok ocs) with
      | some p => .error (.notnew p)
      | none =>
        match maybePromote (replaceOtherFlags of sf) ok ocs (.comp sf sk []) with
        | .error e => .error e
        | .ok (res, same) => .ok (propagate res, !same) := by
  simp only [compMerge, hdel, if_true, hfil, Node.children, List.isEmpty_nil, hprio, Bool.and_self]
  rfl

/-- the emptied `self` never changes the class of a deleting `other` when `self` is a plain
    mapping or list -/
theorem c04_maybePromote_emptied_plain (F sf : Flags) (ok sk : CompKind) (ocs : List (Key × Node))
    (hsk : sk = .dict ∨ sk = .list) :
    maybePromote F ok ocs (.comp sf sk []) = .ok (.comp F ok ocs, true) := by
  rcases hsk with h | h <;> subst h <;> cases ok <;>
    simp [maybePromote, CompKind.sameClass, CompKind.strictSub, CompKind.isPlain]

theorem c04_maybePromote_emptied_same (F sf : Flags) (ok sk : CompKind) (ocs : List (Key × Node))
    (h : ok.sameClass sk = true) :
    maybePromote F ok ocs (.comp sf sk []) = .ok (.comp F ok ocs, true) := by
  simp [maybePromote, h]

/-- a deleting `other` over a mapping `self` with distinct keys: what the filter leaves decides
    between the early exit and the key loop over the survivors -/
theorem c04_compMerge_del_dict (rec : Node → Node → Except Err (Node × Bool)) {sf sk scs of ok ocs}
    (hdel : eDel (.comp of ok ocs) = true) (hsk : sk.isDictFam = true) (hn : keysNodup scs = true) :
    compMerge rec sf sk scs (.comp of ok ocs) =
      if (keptChildren (maybeKeep (.comp of ok ocs)) [] scs).isEmpty && hasPrio of sf true then
        match reqNew ([] :: (filterNode (maybeKeep (.comp of ok ocs)) [] (.comp sf sk scs)).2) []
            (.comp of ok ocs) with
        | some p => .error (.notnew p)
        | none =>
          match maybePromote (replaceOtherFlags of sf) ok ocs
              (.comp sf sk (keptChildren (maybeKeep (.comp of ok ocs)) [] scs)) with
          | .error e => .error e
          | .ok (res, same) => .ok (propagate res, !same)
      else
        match mergeLoop rec sf sk (filterNode (maybeKeep (.comp of ok ocs)) [] (.comp sf sk scs)).2
            (keptChildren (maybeKeep (.comp of ok ocs)) [] scs) ocs with
        | .error e => .error e
        | .ok scs' => finishMerge sf sk scs' (.comp of ok ocs) := by
  simp only [compMerge, hdel, if_true, c04_filterNode_dict_kept _ _ sf sk scs hsk hn, Node.children]
  rfl

/-! ### keys after one iteration of the key loop (mapping family) -/

/-- whether the iteration for `kv` ends in `remove_child` -/
def stepRemoves (rec : Node → Node → Except Err (Node × Bool)) (sk : CompKind)
    (acc : List (Key × Node)) (kv : Key × Node) : Bool :=
  match getChild sk kv.1 acc with
  | none => false
  | some child =>
    match rec child kv.2 with
    | .error _ => false
    | .ok (nw, same) =>
      if child.isComp then
        !nw.truthy && !hasPrio nw.flags kv.2.flags false && kv.2.flags.del == some true
      else !same && !nw.truthy && nw.flags.del == some true

theorem c04_akeys_aset {α : Type} (k : Key) (v : α) (l : List (Key × α)) :
    akeys (aset k v l) = if k ∈ akeys l then akeys l else akeys l ++ [k] := by
  cases h : alookup k l with
  | none =>
    have hc := (alookup_none_iff k l).1 h
    have : k ∉ akeys l := by simpa using hc
    rw [aset_of_lookup_none k v l h, keysOf_append]
    simp [this, akeys]
  | some x =>
    have hm : k ∈ akeys l := (ahas_iff_mem k l).1 (by simp [ahas, h])
    rw [keysOf_aset_of_some k v l (by simp [h])]
    simp [hm]

theorem c04_getChild_dict {sk : CompKind} (hsk : sk.isDictFam = true) (k : Key) (acc : List (Key × Node)) :
    getChild sk k acc = alookup k acc := by simp [getChild, hsk]

theorem c04_setChild_dictFam {sf : Flags} {sk : CompKind} (hsk : sk.isDictFam = true) (k : Key) (v : Node)
    (acc : List (Key × Node)) : setChild sf sk k v acc = .ok (aset k (adopt sf sk v) acc) := by
  simp [setChild, hsk]

theorem c04_replaceChild_dictFam {sk : CompKind} (hsk : sk.isDictFam = true) (k : Key) (v : Node)
    (acc : List (Key × Node)) : replaceChild sk k v acc = aset k v acc := by
  simp [replaceChild, hsk]

theorem c04_removeChildE_dictFam {sf : Flags} {sk : CompKind} (hsk : sk.isDictFam = true) (k : Key)
    (acc : List (Key × Node)) (h : (alookup k acc).isSome = true) :
    removeChildE sf sk k acc = .ok (aerase k acc) := by
  simp [removeChildE, removeChild, hsk, ahas, h]

/-- keys after one successful iteration: the key is removed exactly when `stepRemoves`, appended
    when it was missing, and the key list is unchanged otherwise -/
theorem c04_mergeStep_keys {exc : List Path} (rec : Node → Node → Except Err (Node × Bool)) {sf : Flags} {sk : CompKind}
    (hsk : sk.isDictFam = true) {acc acc' : List (Key × Node)} {kv : Key × Node}
    (h : mergeStep rec sf sk exc acc kv = .ok acc') :
    akeys acc' =
      if stepRemoves rec sk acc kv then (akeys acc).erase kv.1
      else if kv.1 ∈ akeys acc then akeys acc else akeys acc ++ [kv.1] := by
  simp only [mergeStep, c04_getChild_dict hsk, c04_setChild_dictFam hsk, c04_replaceChild_dictFam hsk] at h
  simp only [stepRemoves, c04_getChild_dict hsk]
  cases hl : alookup kv.1 acc with
  | none =>
    simp only [hl] at h
    split at h
    · cases h
    · injection h with h
      subst h
      simp [c04_akeys_aset]
  | some child =>
    have hsome : (alookup kv.1 acc).isSome = true := by simp [hl]
    have hm : kv.1 ∈ akeys acc := (ahas_iff_mem kv.1 acc).1 (by simp [ahas, hl])
    simp only [hl, c04_removeChildE_dictFam hsk kv.1 acc hsome] at h
    cases hr : rec child kv.2 with
    | error e => simp [hr] at h
    | ok res =>
      obtain ⟨nw, same⟩ := res
      simp only [hr] at h ⊢
      cases hc : child.isComp with
      | true =>
        simp only [hc, if_true] at h ⊢
        split at h
        · rename_i hcond
          injection h with h; subst h
          rw [if_pos hcond, keysOf_aerase]
        · rename_i hcond
          rw [if_neg hcond]
          split at h <;> (injection h with h; subst h; simp [c04_akeys_aset, hm])
      | false =>
        simp only [hc, Bool.false_eq_true, if_false] at h ⊢
        cases hs : same with
        | true =>
          simp only [hs, if_true] at h
          injection h with h; subst h
          simp [c04_akeys_aset, hm]
        | false =>
          simp only [hs, Bool.false_eq_true, if_false] at h
          split at h
          · cases h
          · split at h
            · rename_i hcond
              injection h with h; subst h
              have : (!false && !nw.truthy && nw.flags.del == some true) = true := by simpa using hcond
              rw [if_pos this, keysOf_aerase]
            · rename_i hcond
              injection h with h; subst h
              have : ¬ ((!false && !nw.truthy && nw.flags.del == some true) = true) := by simpa using hcond
              rw [if_neg this]
              simp [c04_akeys_aset, hm]

/-- the recursive merge hands back the flags `delete` of the newer leaf when it replaces a leaf -/
def RecDelFaithful (rec : Node → Node → Except Err (Node × Bool)) : Prop :=
  ∀ c v nw, c.isComp = false → rec c v = .ok (nw, false) → nw.flags.del = v.flags.del

theorem c04_flags_setFlags (n : Node) (f : Flags) : (n.setFlags f).flags = f := by
  cases n <;> rfl

theorem c04_flags_propagate (n : Node) : (propagate n).flags = n.flags := by
  cases n with
  | leaf f k => rfl
  | comp f k cs => simp only [propagate]; split <;> rfl

/-- nothing to hand down into an empty container -/
theorem c04_propagate_empty (f : Flags) (k : CompKind) : propagate (.comp f k []) = .comp f k [] := by
  simp only [propagate]
  split <;> rfl

theorem c04_mergeF_delFaithful (fuel : Nat) : RecDelFaithful (mergeF fuel) := by
  intro c v nw hc h
  cases fuel with
  | zero => simp [mergeF] at h
  | succ n =>
    cases c with
    | comp f k cs => simp [Node.isComp] at hc
    | leaf f k =>
      simp only [mergeF, leafRule] at h
      split at h
      · injection h with h; injection h with _ h2; cases h2
      · injection h with h; injection h with h1 _
        rw [← h1, c04_flags_propagate, c04_flags_setFlags]; rfl

/-- no value of the newer mapping carries an explicit `!del` -/
def noExplicitDel : List (Key × Node) → Bool
  | [] => true
  | (_, v) :: rest => !(v.flags.del == some true) && noExplicitDel rest

theorem c04_stepRemoves_false (rec : Node → Node → Except Err (Node × Bool)) (hrec : RecDelFaithful rec)
    (sk : CompKind) (acc : List (Key × Node)) (kv : Key × Node)
    (hv : (kv.2.flags.del == some true) = false) : stepRemoves rec sk acc kv = false := by
  simp only [stepRemoves]
  split
  · rfl
  · rename_i child _
    split
    · rfl
    · rename_i nw same hr
      cases hc : child.isComp with
      | true => simp [hv]
      | false =>
        cases same with
        | true => simp
        | false =>
          have := hrec child kv.2 nw hc hr
          simp [this, hv]

/-- keys the newer mapping adds: its keys that are not yet present, once each, in order -/
def newKeys : List Key → List Key → List Key
  | _, [] => []
  | seen, k :: r => if k ∈ seen then newKeys seen r else k :: newKeys (seen ++ [k]) r

theorem c04_mergeLoop_keys {exc : List Path} (rec : Node → Node → Except Err (Node × Bool)) (hrec : RecDelFaithful rec)
    {sf : Flags} {sk : CompKind} (hsk : sk.isDictFam = true) :
    ∀ (ocs acc acc' : List (Key × Node)), noExplicitDel ocs = true →
      mergeLoop rec sf sk exc acc ocs = .ok acc' →
      akeys acc' = akeys acc ++ newKeys (akeys acc) (akeys ocs)
  | [], acc, acc', _, h => by
    simp only [mergeLoop] at h; injection h with h; simp [h, akeys, newKeys]
  | (k, v) :: rest, acc, acc', hd, h => by
    have hd' : (v.flags.del == some true) = false ∧ noExplicitDel rest = true := by
      simpa [noExplicitDel] using hd
    simp only [mergeLoop] at h
    cases hs : mergeStep rec sf sk exc acc (k, v) with
    | error e => simp [hs] at h
    | ok acc1 =>
      simp only [hs] at h
      have hk := c04_mergeStep_keys rec hsk hs
      rw [c04_stepRemoves_false rec hrec sk acc (k, v) hd'.1] at hk
      simp only [Bool.false_eq_true, if_false] at hk
      rw [c04_mergeLoop_keys rec hrec hsk rest acc1 acc' hd'.2 h, hk]
      by_cases hm : k ∈ akeys acc
      · simp [hm, akeys, newKeys]
      · simp [hm, akeys, newKeys]

/-- a key common to both mappings (distinct keys in the newer one, no removal): its value is the
    result of the recursive merge of the two old values -/
theorem c04_mergeLoop_common {exc : List Path} (rec : Node → Node → Except Err (Node × Bool)) (hrec : RecDelFaithful rec)
    {sf : Flags} {sk : CompKind} (hsk : sk.isDictFam = true) :
    ∀ (ocs acc acc' : List (Key × Node)), noExplicitDel ocs = true → keysNodup ocs = true →
      mergeLoop rec sf sk exc acc ocs = .ok acc' →
      ∀ k c v, alookup k acc = some c → alookup k ocs = some v →
        ∃ nw same, rec c v = .ok (nw, same) ∧
          alookup k acc' = some (if same then nw else adopt sf sk nw)
  | [], _, _, _, _, _, k, c, v, _, hv => by simp [alookup] at hv
  | (k', v') :: rest, acc, acc', hd, hn, h, k, c, v, hc, hv => by
    have hd' : (v'.flags.del == some true) = false ∧ noExplicitDel rest = true := by
      simpa [noExplicitDel] using hd
    have hn' : k' ∉ akeys rest ∧ keysNodup rest = true := by simpa [keysNodup] using hn
    simp only [mergeLoop] at h
    cases hs : mergeStep rec sf sk exc acc (k', v') with
    | error e => simp [hs] at h
    | ok acc1 =>
      simp only [hs] at h
      by_cases e : k' = k
      · subst e
        simp only [alookup, if_true, Option.some.injEq] at hv
        subst hv
        have hrest : alookup k' rest = none := (alookup_none_iff k' rest).2 (by simpa using hn'.1)
        rw [mergeLoop_frame rec hsk rest acc1 acc' h k' hrest]
        have hrm := c04_stepRemoves_false rec hrec sk acc (k', v') hd'.1
        simp only [stepRemoves, c04_getChild_dict hsk, hc] at hrm
        simp only [mergeStep, c04_getChild_dict hsk, hc, c04_setChild_dictFam hsk, c04_replaceChild_dictFam hsk] at hs
        cases hr : rec c v' with
        | error e => simp [hr] at hs
        | ok res =>
          obtain ⟨nw, same⟩ := res
          simp only [hr] at hs hrm
          refine ⟨nw, same, rfl, ?_⟩
          cases hcomp : c.isComp with
          | true =>
            simp only [hcomp, if_true] at hs hrm
            rw [if_neg (by simp [hrm])] at hs
            cases same with
            | true =>
              simp only [if_true] at hs; injection hs with hs; subst hs
              simp [alookup_aset]
            | false =>
              simp only [Bool.false_eq_true, if_false] at hs; injection hs with hs; subst hs
              simp [alookup_aset]
          | false =>
            simp only [hcomp, Bool.false_eq_true, if_false] at hs hrm
            cases same with
            | true =>
              simp only [if_true] at hs; injection hs with hs; subst hs
              simp [alookup_aset]
            | false =>
              simp only [Bool.false_eq_true, if_false] at hs
              split at hs
              · cases hs
              · rw [if_neg (by simpa using hrm)] at hs
                injection hs with hs; subst hs
                simp [alookup_aset]
      · simp only [alookup, e, if_false] at hv
        have hc1 : alookup k acc1 = some c := by
          rw [mergeStep_frame rec hsk hs k e]; exact hc
        exact c04_mergeLoop_common rec hrec hsk rest acc1 acc' hd'.2 hn'.2 h k c v hc1 hv

/-! ### remove-this-key cases of the loop body -/

/-- leaf child: the recursive merge returned a different object that is falsy and explicitly `!del` -/
theorem c04_mergeStep_leaf_removed {exc : List Path} (rec : Node → Node → Except Err (Node × Bool)) (sf : Flags) (sk : CompKind)
    (acc : List (Key × Node)) (k : Key) (v child nw : Node)
    (hget : getChild sk k acc = some child) (hleaf : child.isComp = false)
    (hrec : rec child v = .ok (nw, false)) (hnl : nw.isComp = false)
    (htruthy : nw.truthy = false) (hdel : nw.flags.del = some true) :
    mergeStep rec sf sk exc acc (k, v) = removeChildE sf sk k acc := by
  have hb : reqNewBelow nw = none := by
    cases nw with
    | leaf f lk => rfl
    | comp f ck cs => simp [Node.isComp] at hnl
  simp [mergeStep, hget, hrec, hleaf, hb, htruthy, hdel]

/-- composed child: it came out empty, does not outrank the newer value, and the newer value is
    explicitly `!del` -/
theorem c04_mergeStep_comp_removed {exc : List Path} (rec : Node → Node → Except Err (Node × Bool)) (sf : Flags) (sk : CompKind)
    (acc : List (Key × Node)) (k : Key) (v child nw : Node) (same : Bool)
    (hget : getChild sk k acc = some child) (hcomp : child.isComp = true)
    (hrec : rec child v = .ok (nw, same))
    (htruthy : nw.truthy = false) (hprio : hasPrio nw.flags v.flags false = false)
    (hdel : v.flags.del = some true) :
    mergeStep rec sf sk exc acc (k, v) = removeChildE sf sk k acc := by
  simp [mergeStep, hget, hrec, hcomp, htruthy, hprio, hdel]


/-! ### the tail of a mapping ⊕ mapping merge keeps the keys of the loop result -/

theorem c04_akeys_applyKwList (kw : ChildKw) : ∀ cs : List (Key × Node), akeys (applyKwList kw cs) = akeys cs
  | [] => rfl
  | (k, c) :: rest => by simp [applyKwList, akeys, c04_akeys_applyKwList kw rest]

theorem c04_akeys_children_propagate (n : Node) : akeys (propagate n).children = akeys n.children := by
  cases n with
  | leaf f k => rfl
  | comp f k cs =>
    simp only [propagate]
    split
    · rfl
    · simp [Node.children, c04_akeys_applyKwList]

theorem c04_finishMerge_dict_keys (sf of : Flags) (scs' ocs : List (Key × Node)) (r : Node) (s : Bool)
    (h : finishMerge sf .dict scs' (.comp of .dict ocs) = .ok (r, s)) :
    akeys r.children = akeys scs' ∧ s = true := by
  simp only [finishMerge, Node.flags, maybePromote, CompKind.sameClass, if_true] at h
  split at h
  · injection h with h
    injection h with h h2
    rw [← h, c04_akeys_children_propagate]
    exact ⟨rfl, h2.symm⟩
  · injection h with h
    injection h with h h2
    rw [← h, c04_akeys_children_propagate]
    exact ⟨rfl, h2.symm⟩

/-! ### `get_node` after an in-place replacement -/

theorem c04_getNode_setNodeAt (v : Node) : ∀ (path : Path) (root x : Node), getNode root path = some x →
    getNode (setNodeAt root path v) path = some v
  | [], _, _, _ => rfl
  | key :: rest, .leaf f k, x, h => by simp [getNode] at h
  | key :: rest, .comp f k cs, x, h => by
    simp only [getNode] at h
    cases hl : alookup key cs with
    | none => simp [hl] at h
    | some c =>
      simp only [hl] at h
      simp only [setNodeAt, hl, getNode, alookup_aset, if_true]
      exact c04_getNode_setNodeAt v rest c x h

theorem c04_alookup_aerase_self {α : Type} (k : Key) : ∀ l : List (Key × α), keysNodup l = true →
    alookup k (aerase k l) = none
  | [], _ => rfl
  | (k', v) :: rest, h => by
    have h' : k' ∉ akeys rest ∧ keysNodup rest = true := by simpa [keysNodup] using h
    by_cases e : k' = k
    · subst e
      simp only [aerase, if_true]
      exact (alookup_none_iff k' rest).2 (by simpa using h'.1)
    · simp [aerase, alookup, e, c04_alookup_aerase_self k rest h'.2]

/-- a deleting empty container as `other`: `first_not_missing` is always `other` itself -/
theorem c04_prioGe_empty (vf : Flags) (vk : CompKind) : prioGe (ePrio vf) (.comp vf vk []) = true := by
  simp [prioGe, prioGeList]

theorem c04_eDel_of_explicit {n : Node} (h : n.flags.del = some true) : eDel n = true := by
  simp [eDel, h]

end AY
