/-
  AY.Lemmas.C18CongrForce — flag propagation on interchangeable trees.

  On flag-consistent trees the conditional descent of `_propagate_implicit_values` (`applyKw`:
  recurse only when something changed) computes the same as the unconditional one (`forceKw`), and
  `forceKw` is a congruence for `congN`.  From this: `propagate`, `adopt`, `setChild`, `removeChild`,
  `listDelAt`, `adoptAll` map interchangeable arguments to interchangeable results.
-/
import AY.Lemmas.C18CongrDefs
set_option linter.unusedVariables false
set_option linter.unusedSimpArgs false
namespace AY

mutual
/-- `applyKw` without the "only when changed" shortcut -/
def forceKw (kw : ChildKw) : Node → Node
  | .leaf f k => .leaf (updFlags kw f) k
  | .comp f k cs =>
    match childKw (updFlags kw f) k with
    | none => .comp (updFlags kw f) k cs
    | some kw' => .comp (updFlags kw f) k (forceKwList kw' cs)
def forceKwList (kw : ChildKw) : List (Key × Node) → List (Key × Node)
  | [] => []
  | (key, c) :: rest => (key, forceKw kw c) :: forceKwList kw rest
end

/-! ### `applyKw` = `forceKw` on consistent trees -/

mutual
theorem forceKw_id (kw : ChildKw) : ∀ (c : Node), childFlagsOK kw c.flags = true → FlagsConsistent c = true →
    forceKw kw c = c
  | .leaf f k, h, _ => by simp only [Node.flags] at h; simp [forceKw, updFlags_of_ok h]
  | .comp f k cs, h, hc => by
    simp only [Node.flags] at h
    simp only [FlagsConsistent] at hc
    simp only [forceKw, updFlags_of_ok h]
    cases hk : childKw f k with
    | none => rfl
    | some kw' =>
      rw [hk] at hc
      simp only [forceKwList_id kw' cs hc]
theorem forceKwList_id (kw : ChildKw) : ∀ (cs : List (Key × Node)), consistentList (some kw) cs = true →
    forceKwList kw cs = cs
  | [], _ => rfl
  | (key, c) :: rest, h => by
    rw [consistentList_cons] at h
    simp only [forceKwList, forceKw_id kw c (h.1 kw rfl) h.2.1, forceKwList_id kw rest h.2.2]
end

mutual
theorem applyKw_eq_force (kw : ChildKw) : ∀ (c : Node), FlagsConsistent c = true → applyKw kw c = forceKw kw c
  | .leaf f k, _ => rfl
  | .comp f k cs, hc => by
    simp only [FlagsConsistent] at hc
    have hall := consistentList_weaken hc
    simp only [applyKw]
    by_cases hch : flagsChanged kw f = true
    · simp only [hch, if_true, forceKw]
      cases hk : childKw (updFlags kw f) k with
      | none => rfl
      | some kw' => simp only [applyKwList_eq_force kw' cs hall]
    · have hch' : flagsChanged kw f = false := by simpa using hch
      have hok := childFlagsOK_of_not_changed hch'
      simp only [hch', Bool.false_eq_true, if_false]
      exact (forceKw_id kw (.comp f k cs) hok (by simpa only [FlagsConsistent] using hc)).symm
theorem applyKwList_eq_force (kw : ChildKw) : ∀ (cs : List (Key × Node)), allConsistent cs = true →
    applyKwList kw cs = forceKwList kw cs
  | [], _ => rfl
  | (key, c) :: rest, h => by
    rw [allConsistent_cons] at h
    simp only [applyKwList, forceKwList, applyKw_eq_force kw c h.1, applyKwList_eq_force kw rest h.2]
end

/-- `propagate` in normal form -/
theorem propagate_eq (f : Flags) (k : CompKind) {cs : List (Key × Node)} (h : allConsistent cs = true) :
    propagate (.comp f k cs) =
      match childKw f k with
      | none => .comp f k cs
      | some kw => .comp f k (forceKwList kw cs) := by
  simp only [propagate]
  cases childKw f k with
  | none => rfl
  | some kw => simp only [applyKwList_eq_force kw cs h]

/-- `set_child` adoption in normal form -/
theorem adopt_eq (pf : Flags) (pk : CompKind) {v : Node} (hv : FlagsConsistent v = true) :
    adopt pf pk v =
      match childKw pf pk with
      | none => v
      | some kw => forceKw kw v := by
  have hi := inheritInto_cons none (childKw pf pk) hv
  simp only [adopt, propagate_id hi.1]
  cases hk : childKw pf pk with
  | none => rfl
  | some kw =>
    simp only [inheritInto]
    cases v with
    | leaf f k => rfl
    | comp f k cs =>
      simp only [FlagsConsistent] at hv
      simp only [Node.setFlags, Node.flags, propagate_eq _ _ (consistentList_weaken hv), forceKw]

/-! ### what `updFlags` / `childKw` do to the compared fields -/

/-- the handed-down `safe` is `False` -/
def kwF (kw : ChildKw) : Bool := kw.iSafe == some false

/-- a node hands `safe = False` to its children -/
def hf (f : Flags) : Bool := uI f || uS f

theorem uI_updFlags (kw : ChildKw) (f : Flags) : uI (updFlags kw f) = (uI f || kwF kw) := by
  simp only [uI, updFlags, kwF]
  by_cases h : f.iSafe = some false
  · simp [h]
  · simp [h]

theorem uS_updFlags (kw : ChildKw) (f : Flags) : uS (updFlags kw f) = uS f := rfl

theorem congF_updFlags {s : Bool} {f f' : Flags} {kw kw' : ChildKw} (h : congF s f f' = true)
    (hk : s = true → kwF kw = kwF kw') : congF s (updFlags kw f) (updFlags kw' f') = true := by
  rw [congF_iff] at h ⊢
  refine ⟨h.1, h.2.1, h.2.2.1, h.2.2.2.1, h.2.2.2.2.1, fun e => ?_⟩
  have := h.2.2.2.2.2 e
  rw [uI_updFlags, uI_updFlags, uS_updFlags, uS_updFlags, this.1, this.2, hk e]
  exact ⟨rfl, rfl⟩

theorem childKw_stream (f : Flags) : childKw f .stream = none := rfl

/-- the hand-down of a non-stream container -/
theorem childKw_some (f : Flags) (k : CompKind) :
    (k = .stream ∧ childKw f k = none) ∨
    ∃ kw, childKw f k = some kw ∧ kwF kw = hf f ∧ kw.iNew = f.new.or f.iNew ∧
      kw.iDel = f.del.or (f.iDel.or (if defaultDelete k then some true else none)) := by
  have key : kwF ⟨f.del.or (f.iDel.or (if defaultDelete k then some true else none)), f.new.or f.iNew,
      if f.iSafe = some false then some false else f.safe.or f.iSafe⟩ = hf f := by
    simp only [kwF, hf, uI, uS]
    rcases f.iSafe with _ | _ | _ <;> rcases f.safe with _ | _ | _ <;> simp
  cases k with
  | stream => exact .inl ⟨rfl, rfl⟩
  | dict => exact .inr ⟨_, rfl, key, rfl, rfl⟩
  | call g => exact .inr ⟨_, rfl, key, rfl, rfl⟩
  | bind g => exact .inr ⟨_, rfl, key, rfl, rfl⟩
  | list => exact .inr ⟨_, rfl, key, rfl, rfl⟩
  | append => exact .inr ⟨_, rfl, key, rfl, rfl⟩
  | extend => exact .inr ⟨_, rfl, key, rfl, rfl⟩
  | path r => exact .inr ⟨_, rfl, key, rfl, rfl⟩

theorem hf_updFlags (kw : ChildKw) (f : Flags) : hf (updFlags kw f) = (hf f || kwF kw) := by
  simp only [hf, uI_updFlags, uS_updFlags]
  cases uI f <;> cases uS f <;> cases kwF kw <;> rfl

/-- `hf` agrees where the safe flags are compared -/
theorem congF_hf {f f' : Flags} (h : congF true f f' = true) : hf f = hf f' := by
  simp only [hf, congF_uS h, congF_uI h]

/-! ### `forceKw` is a congruence -/

mutual
theorem forceKw_cong : ∀ (s : Bool) (kw kw' : ChildKw) (v v' : Node), congN s v v' = true →
    (s = true → kwF kw = kwF kw') → congN s (forceKw kw v) (forceKw kw' v') = true
  | s, kw, kw', .leaf f k, v', h, hk => by
    obtain ⟨f', rfl, h2⟩ := congN_leaf_inv h
    simp only [forceKw]
    exact congN_leaf_iff.2 ⟨rfl, congF_updFlags h2 hk⟩
  | s, kw, kw', .comp f k cs, v', h, hk => by
    obtain ⟨f', cs', rfl, h2, h3⟩ := congN_comp_inv h
    have hu := congF_updFlags h2 hk
    simp only [forceKw]
    rcases childKw_some (updFlags kw f) k with ⟨rfl, e⟩ | ⟨kw1, e1, e2, _, _⟩
    · simp only [childKw_stream]
      exact congN_comp_iff.2 ⟨rfl, hu, h3⟩
    · rcases childKw_some (updFlags kw' f') k with ⟨rfl, e'⟩ | ⟨kw1', e1', e2', _, _⟩
      · simp [childKw_stream] at e1
      · simp only [e1, e1']
        refine congN_comp_iff.2 ⟨rfl, hu, ?_⟩
        rw [uS_updFlags]
        refine forceKwList_cong _ kw1 kw1' cs cs' h3 ?_
        intro e
        simp only [Bool.and_eq_true] at e
        have hs : s = true := e.1
        subst hs
        rw [e2, e2', congF_hf hu]
theorem forceKwList_cong : ∀ (s : Bool) (kw kw' : ChildKw) (l l' : List (Key × Node)), congL s l l' = true →
    (s = true → kwF kw = kwF kw') → congL s (forceKwList kw l) (forceKwList kw' l') = true
  | _, _, _, [], l', h, _ => by rw [congL_nil_inv h]; rfl
  | s, kw, kw', (k, c) :: r, l', h, hk => by
    obtain ⟨c', r', rfl, h2, h3⟩ := congL_cons_inv h
    simp only [forceKwList]
    exact congL_cons_iff.2 ⟨rfl, forceKw_cong s kw kw' c c' h2 hk, forceKwList_cong s kw kw' r r' h3 hk⟩
end

/-- `propagate` on a node with related flags and related children -/
theorem propagate_cong {m c : Bool} {nf nf' : Flags} (k : CompKind) {cs cs' : List (Key × Node)}
    (hf : congF m nf nf' = true) (hcs : congL c cs cs' = true) (hc : allConsistent cs = true)
    (hc' : allConsistent cs' = true) (hm : (m && !uS nf) = true → c = true) :
    congN m (propagate (.comp nf k cs)) (propagate (.comp nf' k cs')) = true := by
  have hcs1 : congL (m && !uS nf) cs cs' = true := congL_mono cs cs' c _ hm hcs
  rw [propagate_eq nf k hc, propagate_eq nf' k hc']
  rcases childKw_some nf k with ⟨rfl, e⟩ | ⟨kw1, e1, e2, _, _⟩
  · simp only [childKw_stream]
    exact congN_comp_iff.2 ⟨rfl, hf, hcs1⟩
  · rcases childKw_some nf' k with ⟨rfl, e'⟩ | ⟨kw1', e1', e2', _, _⟩
    · simp [childKw_stream] at e1
    · simp only [e1, e1']
      refine congN_comp_iff.2 ⟨rfl, hf, forceKwList_cong _ kw1 kw1' cs cs' hcs1 ?_⟩
      intro e
      simp only [Bool.and_eq_true] at e
      have hs : m = true := e.1
      subst hs
      rw [e2, e2', congF_hf hf]

/-- the hand-down of two parents agrees as far as the mode `s` of their children requires -/
def HandOK (s : Bool) (pf pf' : Flags) : Prop := s = true → hf pf = hf pf'

theorem handOK_false (pf pf' : Flags) : HandOK false pf pf' := fun e => by cases e

/-- the children mode of related parents comes with `HandOK` -/
theorem handOK_child {s : Bool} {f f' : Flags} (h : congF s f f' = true) : HandOK (s && !uS f) f f' := by
  intro e
  simp only [Bool.and_eq_true] at e
  have hs : s = true := e.1
  subst hs
  exact congF_hf h

theorem adopt_cong {s : Bool} {pf pf' : Flags} (pk : CompKind) {v v' : Node} (h : congN s v v' = true)
    (hv : FlagsConsistent v = true) (hv' : FlagsConsistent v' = true) (hp : HandOK s pf pf') :
    congN s (adopt pf pk v) (adopt pf' pk v') = true := by
  rw [adopt_eq pf pk hv, adopt_eq pf' pk hv']
  rcases childKw_some pf pk with ⟨rfl, e⟩ | ⟨kw1, e1, e2, _, _⟩
  · simp only [childKw_stream]; exact h
  · rcases childKw_some pf' pk with ⟨rfl, e'⟩ | ⟨kw1', e1', e2', _, _⟩
    · simp [childKw_stream] at e1
    · simp only [e1, e1']
      exact forceKw_cong s kw1 kw1' v v' h (fun e => by rw [e2, e2', hp e])

/-! ### results that may fail -/

def exRel {α : Type} (R : α → α → Prop) : Except Err α → Except Err α → Prop
  | .ok a, .ok b => R a b
  | .error e, .error e' => e = e'
  | _, _ => False

def opRel {α : Type} (R : α → α → Prop) : Option α → Option α → Prop
  | some a, some b => R a b
  | none, none => True
  | _, _ => False

theorem allConsistent_mem {cs : List (Key × Node)} (h : allConsistent cs = true) :
    ∀ kv, kv ∈ cs → FlagsConsistent kv.2 = true :=
  fun kv hm => ((consistentList_iff none cs).1 h kv hm).2

/-! ### the child mutators -/

theorem getChild_cong {s : Bool} (sk : CompKind) (name : Key) {cs cs' : List (Key × Node)}
    (h : congL s cs cs' = true) :
    opRel (fun c c' => congN s c c' = true) (getChild sk name cs) (getChild sk name cs') := by
  simp only [getChild, ← congL_length h]
  split
  · rcases congL_alookup h name with ⟨e1, e2⟩ | ⟨c, c', e1, e2, e3⟩
    · rw [e1, e2]; trivial
    · rw [e1, e2]; exact e3
  · split
    · trivial
    · rename_i i _
      rcases congL_alookup h (.int i) with ⟨e1, e2⟩ | ⟨c, c', e1, e2, e3⟩
      · rw [e1, e2]; trivial
      · rw [e1, e2]; exact e3

theorem setChild_cong {s : Bool} {pf pf' : Flags} (pk : CompKind) (name : Key) {v v' : Node}
    {cs cs' : List (Key × Node)} (hcs : congL s cs cs' = true) (h : congN s v v' = true)
    (hv : FlagsConsistent v = true) (hv' : FlagsConsistent v' = true) (hp : HandOK s pf pf') :
    exRel (fun a a' => congL s a a' = true) (setChild pf pk name v cs) (setChild pf' pk name v' cs') := by
  have ha := adopt_cong pk h hv hv' hp
  simp only [setChild, ← congL_length hcs]
  split
  · exact congL_aset name hcs ha
  · split
    · exact rfl
    · exact congL_aset _ hcs ha

theorem replaceChild_cong {s : Bool} (pk : CompKind) (key : Key) {v v' : Node} {cs cs' : List (Key × Node)}
    (hcs : congL s cs cs' = true) (h : congN s v v' = true) :
    congL s (replaceChild pk key v cs) (replaceChild pk key v' cs') = true := by
  simp only [replaceChild, ← congL_length hcs]
  split
  · exact congL_aset key hcs h
  · split
    · exact congL_aset _ hcs h
    · exact hcs

theorem listDelAt_cong {s : Bool} {pf pf' : Flags} (pk : CompKind) (i : Nat) {cs cs' : List (Key × Node)}
    (hcs : congL s cs cs' = true) (hc : allConsistent cs = true) (hc' : allConsistent cs' = true)
    (hp : HandOK s pf pf') : congL s (listDelAt pf pk i cs) (listDelAt pf' pk i cs') = true := by
  simp only [listDelAt, renum, renumFrom_append]
  have e1 : ((cs.take i).map (·.2)).length = ((cs'.take i).map (·.2)).length := by
    simp only [List.length_map, List.length_take, congL_length hcs]
  rw [← e1]
  refine congL_append ?_ ?_
  · have := congL_renum_map (s := s) (g := id) (g' := id) (fun _ => True) (fun _ => True)
      (fun x x' h _ _ => h) (cs.take i) (cs'.take i) 0 (congL_take i hcs) (fun _ _ => trivial) (fun _ _ => trivial)
    simpa using this
  · exact congL_renum_map (s := s) (g := adopt pf pk) (g' := adopt pf' pk)
      (fun x => FlagsConsistent x = true) (fun x => FlagsConsistent x = true)
      (fun x x' h hx hx' => adopt_cong pk h hx hx' hp) (cs.drop (i + 1)) (cs'.drop (i + 1)) _ (congL_drop (i + 1) hcs)
      (fun kv hm => allConsistent_mem hc kv (List.mem_of_mem_drop hm))
      (fun kv hm => allConsistent_mem hc' kv (List.mem_of_mem_drop hm))

theorem removeChild_cong {s : Bool} {pf pf' : Flags} (pk : CompKind) (name : Key) {cs cs' : List (Key × Node)}
    (hcs : congL s cs cs' = true) (hc : allConsistent cs = true) (hc' : allConsistent cs' = true)
    (hp : HandOK s pf pf') :
    opRel (fun a a' => congL s a a' = true) (removeChild pf pk name cs) (removeChild pf' pk name cs') := by
  simp only [removeChild, ← congL_length hcs, ← congL_ahas hcs name]
  split
  · split
    · exact congL_aerase name hcs
    · trivial
  · split
    · trivial
    · exact listDelAt_cong pk _ hcs hc hc' hp

theorem removeChildE_cong {s : Bool} {pf pf' : Flags} (pk : CompKind) (name : Key) {cs cs' : List (Key × Node)}
    (hcs : congL s cs cs' = true) (hc : allConsistent cs = true) (hc' : allConsistent cs' = true)
    (hp : HandOK s pf pf') :
    exRel (fun a a' => congL s a a' = true) (removeChildE pf pk name cs) (removeChildE pf' pk name cs') := by
  have := removeChild_cong pk name hcs hc hc' hp
  simp only [removeChildE]
  cases h1 : removeChild pf pk name cs <;> cases h2 : removeChild pf' pk name cs' <;> simp only [h1, h2, opRel] at this
  · exact rfl
  · exact this

theorem adoptAll_cong {s : Bool} {pf pf' : Flags} (pk : CompKind) : ∀ (items items' acc acc' : List (Key × Node)),
    congL s items items' = true → congL s acc acc' = true → allConsistent items = true →
    allConsistent items' = true → HandOK s pf pf' →
    exRel (fun a a' => congL s a a' = true) (adoptAll pf pk items acc) (adoptAll pf' pk items' acc')
  | [], items', acc, acc', h, ha, _, _, _ => by rw [congL_nil_inv h]; exact ha
  | (k, v) :: rest, items', acc, acc', h, ha, hc, hc', hp => by
    obtain ⟨v', rest', rfl, h2, h3⟩ := congL_cons_inv h
    rw [allConsistent_cons] at hc hc'
    have hs := setChild_cong pk k ha h2 hc.1 hc'.1 hp
    simp only [adoptAll]
    cases e1 : setChild pf pk k v acc <;> cases e2 : setChild pf' pk k v' acc' <;> simp only [e1, e2, exRel] at hs
    · exact hs
    · exact adoptAll_cong pk rest rest' _ _ h3 hs hc.2 hc'.2 hp

theorem removeMany_cong {s : Bool} {pf pf' : Flags} (pk : CompKind) : ∀ (names : List Key) (cs cs' : List (Key × Node)),
    congL s cs cs' = true → allConsistent cs = true → allConsistent cs' = true → HandOK s pf pf' →
    congL s (removeMany pf pk names cs) (removeMany pf' pk names cs') = true
  | [], cs, cs', h, _, _, _ => h
  | nm :: rest, cs, cs', h, hc, hc', hp => by
    have hr := removeChild_cong pk nm h hc hc' hp
    simp only [removeMany]
    cases e1 : removeChild pf pk nm cs <;> cases e2 : removeChild pf' pk nm cs' <;> simp only [e1, e2, opRel] at hr
    · exact removeMany_cong pk rest cs cs' h hc hc' hp
    · exact removeMany_cong pk rest _ _ hr (removeChild_cons (kwLe_none pf pk) hc e1)
        (removeChild_cons (kwLe_none pf' pk) hc' e2) hp

/-! ### `_require_all_new` reads the inherited `allow_new` of the newer document only -/

mutual
theorem reqNew_doc : ∀ (exc : List Path) (p : Path) (n n' : Node), docN n n' = true → congN false n n' = true →
    reqNew exc p n = reqNew exc p n'
  | exc, p, .leaf f k, n', hd, hc => by
    obtain ⟨f', rfl, _⟩ := congN_leaf_inv hc
    have := docN_eNew hd
    simp only [Node.flags] at this
    simp only [reqNew, this]
  | exc, p, .comp f k cs, n', hd, hc => by
    obtain ⟨f', cs', rfl, _, h3⟩ := congN_comp_inv hc
    have := docN_eNew hd
    simp only [Node.flags] at this
    simp only [reqNew, this, reqNewList_doc exc p cs cs' (docN_comp_iff.1 hd).2.2 h3]
theorem reqNewList_doc : ∀ (exc : List Path) (p : Path) (l l' : List (Key × Node)), docL l l' = true →
    congL false l l' = true → reqNewList exc p l = reqNewList exc p l'
  | _, _, [], l', _, hc => by rw [congL_nil_inv hc]
  | exc, p, (k, c) :: r, l', hd, hc => by
    obtain ⟨c', r', rfl, h2, h3⟩ := congL_cons_inv hc
    rw [docL_cons_iff] at hd
    simp only [reqNewList, reqNew_doc exc (p ++ [k]) c c' hd.1 h2, reqNewList_doc exc p r r' hd.2 h3]
end

theorem reqNewBelow_doc {n n' : Node} (hd : docN n n' = true) (hc : congN false n n' = true) :
    reqNewBelow n = reqNewBelow n' := by
  cases n with
  | leaf f k => obtain ⟨f', rfl, _⟩ := congN_leaf_inv hc; rfl
  | comp f k cs =>
    obtain ⟨f', cs', rfl, _, h3⟩ := congN_comp_inv hc
    exact reqNewList_doc [] [] cs cs' (docN_comp_iff.1 hd).2.2 h3

mutual
/-- re-propagation with the `allow_new` a consistent child already has does not change the check -/
theorem reqNew_applyKw (kw : ChildKw) : ∀ (exc : List Path) (p : Path) (c : Node), FlagsConsistent c = true →
    c.flags.iNew = kw.iNew → reqNew exc p (applyKw kw c) = reqNew exc p c
  | exc, p, .leaf f k, _, hi => by
    simp only [Node.flags] at hi
    have he : eNew (updFlags kw f) = eNew f := by simp only [eNew, updFlags, hi]
    simp only [applyKw, reqNew, he]
  | exc, p, .comp f k cs, hc, hi => by
    simp only [Node.flags] at hi
    simp only [FlagsConsistent] at hc
    have he : eNew (updFlags kw f) = eNew f := by simp only [eNew, updFlags, hi]
    simp only [applyKw]
    split
    · rcases childKw_some (updFlags kw f) k with ⟨rfl, e⟩ | ⟨kw1, e1, _, e3, _⟩
      · simp only [childKw_stream, reqNew, he]
      · rcases childKw_some f k with ⟨rfl, e⟩ | ⟨kw0, e0, _, e03, _⟩
        · simp [childKw_stream] at e1
        · rw [e0] at hc
          simp only [e1, reqNew, he]
          have : kw0.iNew = kw1.iNew := by
            rw [e3, e03]; simp only [updFlags, hi]
          rw [reqNewList_applyKw kw1 kw0 exc p cs hc this]
    · rfl
theorem reqNewList_applyKw (kw kw0 : ChildKw) : ∀ (exc : List Path) (p : Path) (cs : List (Key × Node)),
    consistentList (some kw0) cs = true → kw0.iNew = kw.iNew →
    reqNewList exc p (applyKwList kw cs) = reqNewList exc p cs
  | _, _, [], _, _ => rfl
  | exc, p, (k, c) :: r, hc, hi => by
    rw [consistentList_cons] at hc
    have h1 := ((childFlagsOK_iff kw0 c.flags).1 (hc.1 kw0 rfl)).2.1
    simp only [applyKwList, reqNewList, reqNew_applyKw kw exc (p ++ [k]) c hc.2.1 (h1.trans hi),
      reqNewList_applyKw kw kw0 exc p r hc.2.2 hi]
end

/-- the check below a node that took over the flags of a loser but kept its own `allow_new` -/
theorem reqNewBelow_propagate_setFlags {o : Node} (nf : Flags) (ho : FlagsConsistent o = true)
    (h1 : nf.new = o.flags.new) (h2 : nf.iNew = o.flags.iNew) :
    reqNewBelow (propagate (o.setFlags nf)) = reqNewBelow o := by
  cases o with
  | leaf f k => rfl
  | comp f k cs =>
    simp only [Node.flags] at h1 h2
    simp only [FlagsConsistent] at ho
    simp only [Node.setFlags, propagate]
    rcases childKw_some nf k with ⟨rfl, e⟩ | ⟨kw1, e1, _, e3, _⟩
    · simp only [childKw_stream]; rfl
    · rcases childKw_some f k with ⟨rfl, e⟩ | ⟨kw0, e0, _, e03, _⟩
      · simp [childKw_stream] at e1
      · rw [e0] at ho
        simp only [e1, reqNewBelow]
        exact reqNewList_applyKw kw1 kw0 [] [] cs ho (by rw [e3, e03, h1, h2])

end AY
