/-
  AY.Lemmas.KeyInvConstruct — the loader establishes the key invariant `KI.Keyed` (= `WellKeyed`):
  for EVERY representation tree over the full tag vocabulary of `Raw` in which no mapping has two
  equal sibling keys (`KI.rawKeyed`), both construction modes (`constructDeep` inside a tagged node,
  `constructTD` for untagged regions).

  (The untagged top-down mode would not even need the hypothesis — `constructTDMap` stores through
  `aset`, i.e. a later duplicate replaces the earlier value like a Python dict — but a tagged mapping
  is built bottom-up from the item list as it stands.)
-/
import AY.Lemmas.KeyInv
import AY.Model.Construct
namespace AY
namespace KI

mutual
/-- no mapping of the document has two equal sibling keys (any tags, any keywords, any scalars) -/
def rawKeyed : Raw → Bool
  | .scalar _ _ _ => true
  | .seq _ _ items => rawKeyedSeq items
  | .map _ _ items => ndK (items.map (·.1)) && rawKeyedMap items
def rawKeyedSeq : List Raw → Bool
  | [] => true
  | r :: rest => rawKeyed r && rawKeyedSeq rest
def rawKeyedMap : List (Key × Raw) → Bool
  | [] => true
  | (_, r) :: rest => rawKeyed r && rawKeyedMap rest
end

theorem keys_initChildren (f : Flags) (k : CompKind) (p? : Option Int) : ∀ (cs : List (Key × Node)),
    keysOf (initChildren f k p? cs) = keysOf cs ∧ KeyedL (initChildren f k p? cs) = KeyedL cs
  | [] => ⟨rfl, rfl⟩
  | (key, c) :: rest => by
    have ih := keys_initChildren f k p? rest
    simp only [initChildren, List.map_cons] at ih ⊢
    simp only [keysOf_cons, KeyedL, keys_inheritInto, ih.1, ih.2, and_self]

theorem comp_init_keyed (f : Flags) {k : CompKind} (p? : Option Int) {cs : List (Key × Node)} (h : CS k cs) :
    Keyed (.comp f k (initChildren f k p? cs)) = true := by
  rw [keyed_comp]
  exact ⟨by rw [(keys_initChildren f k p? cs).1]; exact h.1, by rw [(keys_initChildren f k p? cs).2]; exact h.2⟩

/-- a numbered, well-keyed children list is legal for every class -/
theorem CS_of_numK (k : CompKind) {cs : List (Key × Node)} (hn : numK 0 (keysOf cs) = true) (hc : KeyedL cs = true) :
    CS k cs := ⟨topOK_of_numK k hn, hc⟩

theorem wrapSeq_keyed {env : Env} {t : TagKind} {kw : CtorKw} {cs : List (Key × Node)} {n : Node}
    (hn : numK 0 (keysOf cs) = true) (hc : KeyedL cs = true) (h : wrapSeq env t kw cs = .ok n) : Keyed n = true := by
  simp only [wrapSeq] at h
  split at h
  all_goals first
    | (cases h; exact comp_init_keyed _ _ (CS_of_numK _ hn hc))
    | (split at h
       · cases h
       · cases h; exact comp_init_keyed _ _ (CS_of_numK _ hn hc))
    | cases h

theorem wrapMap_keyed {env : Env} {t : TagKind} {kw : CtorKw} {cs : List (Key × Node)} {n : Node}
    (hn : ndK (keysOf cs) = true) (hc : KeyedL cs = true) (h : wrapMap env t kw cs = .ok n) : Keyed n = true := by
  simp only [wrapMap] at h
  split at h
  all_goals first
    | (cases h; exact comp_init_keyed _ _ ⟨topOK_of_ndK rfl hn, hc⟩)
    | (split at h
       · cases h
       · cases h; exact comp_init_keyed _ _ ⟨topOK_of_ndK rfl hn, hc⟩)
    | cases h

theorem scalarAsItems_num (env : Env) (v : RVal) :
    numK 0 (keysOf (scalarAsItems env v)) = true ∧ KeyedL (scalarAsItems env v) = true := by
  cases v <;> exact ⟨rfl, rfl⟩

theorem wrapScalar_keyed {env : Env} {t : TagKind} {kw : CtorKw} {v : RVal} {n : Node}
    (h : wrapScalar env t kw v = .ok n) : Keyed n = true := by
  have hs := scalarAsItems_num env v
  have hsd : ndK (keysOf (scalarAsItems env v)) = true := ndK_of_numK hs.1
  simp only [wrapScalar] at h
  split at h
  all_goals first
    | (cases h; rfl)
    | exact wrapSeq_keyed hs.1 hs.2 h
    | (split at h
       all_goals first
         | (cases h; rfl)
         | cases h
         | exact wrapSeq_keyed hs.1 hs.2 h
         | exact wrapMap_keyed hsd hs.2 h
         | exact wrapSeq_keyed (cs := []) rfl rfl h
         | exact wrapMap_keyed (cs := []) rfl rfl h
         | (split at h
            · exact wrapSeq_keyed hs.1 hs.2 h
            · exact wrapSeq_keyed (cs := []) rfl rfl h))

mutual
theorem constructDeep_keyed (env : Env) : ∀ (r : Raw) (n : Node), rawKeyed r = true →
    constructDeep env r = .ok n → Keyed n = true
  | .scalar t kw v, n, _, h => by
    simp only [constructDeep] at h
    exact wrapScalar_keyed h
  | .seq t kw items, n, hr, h => by
    simp only [rawKeyed] at hr
    simp only [constructDeep] at h
    split at h
    · cases h
    · rename_i cs hcs
      have hall := constructDeepList_keyed env 0 items cs hr hcs
      split at h
      · split at h
        · cases h; rfl
        · cases h
      · exact wrapSeq_keyed hall.1 hall.2 h
  | .map t kw items, n, hr, h => by
    simp only [rawKeyed, Bool.and_eq_true] at hr
    simp only [constructDeep] at h
    split at h
    · cases h
    · rename_i cs hcs
      have hall := constructDeepMap_keyed env items cs hr.2 hcs
      exact wrapMap_keyed (by rw [hall.1]; exact hr.1) hall.2 h
theorem constructDeepList_keyed (env : Env) : ∀ (i : Nat) (items : List Raw) (cs : List (Key × Node)),
    rawKeyedSeq items = true → constructDeepList env i items = .ok cs →
    numK i (keysOf cs) = true ∧ KeyedL cs = true
  | _, [], cs, _, h => by simp only [constructDeepList] at h; cases h; exact ⟨rfl, rfl⟩
  | i, r :: rest, cs, hr, h => by
    simp only [rawKeyedSeq, Bool.and_eq_true] at hr
    simp only [constructDeepList] at h
    split at h
    · cases h
    · rename_i n hn
      split at h
      · cases h
      · rename_i ns hns
        cases h
        have ih := constructDeepList_keyed env (i + 1) rest ns hr.2 hns
        rw [keysOf_cons, numK_cons, KeyedL_cons]
        exact ⟨⟨rfl, ih.1⟩, constructDeep_keyed env r n hr.1 hn, ih.2⟩
theorem constructDeepMap_keyed (env : Env) : ∀ (items : List (Key × Raw)) (cs : List (Key × Node)),
    rawKeyedMap items = true → constructDeepMap env items = .ok cs →
    keysOf cs = items.map (·.1) ∧ KeyedL cs = true
  | [], cs, _, h => by simp only [constructDeepMap] at h; cases h; exact ⟨rfl, rfl⟩
  | (k, r) :: rest, cs, hr, h => by
    simp only [rawKeyedMap, Bool.and_eq_true] at hr
    simp only [constructDeepMap] at h
    split at h
    · cases h
    · rename_i n hn
      split at h
      · cases h
      · rename_i ns hns
        cases h
        have ih := constructDeepMap_keyed env rest ns hr.2 hns
        rw [keysOf_cons, KeyedL_cons, ih.1]
        exact ⟨rfl, constructDeep_keyed env r n hr.1 hn, ih.2⟩
end

theorem keys_adoptBy (parent : Option (Flags × CompKind)) (n : Node) : Keyed (adoptBy parent n) = Keyed n := by
  cases parent with
  | none => rfl
  | some pr => obtain ⟨pf, pk⟩ := pr; exact keys_adopt pf pk n

theorem shape_adoptBy (parent : Option (Flags × CompKind)) (n : Node) : shape (adoptBy parent n) = shape n := by
  cases parent with
  | none => rfl
  | some pr => obtain ⟨pf, pk⟩ := pr; exact shape_adopt pf pk n

/-- the adopted empty container is still a container of the same class -/
theorem adoptBy_kind {parent : Option (Flags × CompKind)} {f0 f : Flags} {k0 k : CompKind} {cs : List (Key × Node)}
    (h : adoptBy parent (.comp f0 k0 []) = .comp f k cs) : k = k0 := by
  have := shape_adoptBy parent (.comp f0 k0 [])
  rw [h] at this
  simp only [shape, Option.some.injEq, Prod.mk.injEq] at this
  exact this.1

mutual
theorem constructTD_keyed (env : Env) : ∀ (parent : Option (Flags × CompKind)) (r : Raw) (n : Node),
    rawKeyed r = true → constructTD env parent r = .ok n → Keyed n = true
  | parent, .scalar t kw v, n, _, h => by
    cases t
    case none =>
      simp only [constructTD] at h
      cases h
      rw [keys_adoptBy]; rfl
    all_goals
      simp only [constructTD] at h
      split at h
      · cases h
      · rename_i m hm
        cases h
        rw [keys_adoptBy]; exact wrapScalar_keyed hm
  | parent, .seq t kw items, n, hr, h => by
    cases t
    case none =>
      simp only [rawKeyed] at hr
      simp only [constructTD] at h
      split at h
      · rename_i f k cs0 heq
        split at h
        · cases h
        · rename_i cs hcs
          cases h
          have hk := adoptBy_kind heq
          subst hk
          have := constructTDList_keyed env f .list 0 items cs hr hcs
          rw [keyed_comp]
          exact ⟨this.1, this.2⟩
      · cases h; rw [keys_adoptBy]; rfl
    all_goals
      simp only [constructTD] at h
      split at h
      · cases h
      · rename_i m hm
        cases h
        rw [keys_adoptBy]; exact constructDeep_keyed env _ m hr hm
  | parent, .map t kw items, n, hr, h => by
    cases t
    case none =>
      simp only [rawKeyed, Bool.and_eq_true] at hr
      simp only [constructTD] at h
      split at h
      · rename_i f k cs0 heq
        split at h
        · cases h
        · rename_i cs hcs
          cases h
          have hk := adoptBy_kind heq
          subst hk
          have := constructTDMap_keyed env f .dict items [] cs hr.2 ⟨rfl, rfl⟩ hcs
          rw [keyed_comp]
          exact ⟨this.1, this.2⟩
      · cases h; rw [keys_adoptBy]; rfl
    all_goals
      simp only [constructTD] at h
      split at h
      · cases h
      · rename_i m hm
        cases h
        rw [keys_adoptBy]; exact constructDeep_keyed env _ m hr hm
theorem constructTDList_keyed (env : Env) (pf : Flags) (pk : CompKind) :
    ∀ (i : Nat) (items : List Raw) (cs : List (Key × Node)), rawKeyedSeq items = true →
    constructTDList env pf pk i items = .ok cs → numK i (keysOf cs) = true ∧ KeyedL cs = true
  | _, [], cs, _, h => by simp only [constructTDList] at h; cases h; exact ⟨rfl, rfl⟩
  | i, r :: rest, cs, hr, h => by
    simp only [rawKeyedSeq, Bool.and_eq_true] at hr
    simp only [constructTDList] at h
    split at h
    · cases h
    · rename_i n hn
      split at h
      · cases h
      · rename_i ns hns
        cases h
        have ih := constructTDList_keyed env pf pk (i + 1) rest ns hr.2 hns
        rw [keysOf_cons, numK_cons, KeyedL_cons]
        exact ⟨⟨rfl, ih.1⟩, constructTD_keyed env (some (pf, pk)) r n hr.1 hn, ih.2⟩
theorem constructTDMap_keyed (env : Env) (pf : Flags) (pk : CompKind) :
    ∀ (items : List (Key × Raw)) (acc cs : List (Key × Node)), rawKeyedMap items = true →
    (ndK (keysOf acc) = true ∧ KeyedL acc = true) →
    constructTDMap env pf pk items acc = .ok cs → ndK (keysOf cs) = true ∧ KeyedL cs = true
  | [], acc, cs, _, hacc, h => by simp only [constructTDMap] at h; cases h; exact hacc
  | (k, r) :: rest, acc, cs, hr, hacc, h => by
    simp only [rawKeyedMap, Bool.and_eq_true] at hr
    simp only [constructTDMap] at h
    split at h
    · cases h
    · rename_i n hn
      have hc := constructTD_keyed env (some (pf, pk)) r n hr.1 hn
      exact constructTDMap_keyed env pf pk rest _ cs hr.2 ⟨ndK_aset _ _ hacc.1, KeyedL_aset hc hacc.2⟩ h
end

/-- `yaml.parse` of a document without duplicate sibling keys gives a well-keyed tree -/
theorem construct_keyed (env : Env) (r : Raw) (n : Node) (hr : rawKeyed r = true) (h : construct env r = .ok n) :
    Keyed n = true :=
  constructTD_keyed env none r n hr h

end KI
end AY
