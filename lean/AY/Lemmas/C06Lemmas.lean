/-
  AY.Lemmas.C06Lemmas — helper lemmas for Props/C06.lean.
-/
import AY.Model.Preprocess
namespace AY

/-! ### small list facts -/

theorem renumFrom_map_snd {α : Type} : ∀ (i : Nat) (xs : List α), (renumFrom i xs).map (·.2) = xs
  | _, [] => rfl
  | i, x :: xs => by simp [renumFrom, renumFrom_map_snd (i + 1) xs]

theorem renum_map_snd {α : Type} (xs : List α) : (renum xs).map (·.2) = xs := renumFrom_map_snd 0 xs

theorem depth_child_lt : ∀ (cs : List (Key × Node)) (kv : Key × Node), kv ∈ cs → kv.2.depth ≤ depthList cs
  | [], _, h => by cases h
  | (k, c) :: rest, kv, h => by
    simp only [depthList]
    cases h with
    | head => exact Nat.le_max_left _ _
    | tail _ h' => exact Nat.le_trans (depth_child_lt rest kv h') (Nat.le_max_right _ _)

/-! ### include-free trees are fixed points of preprocessing -/

theorem inclFree_not_isIncl (n : Node) (h : n.inclFree = true) : n.isIncl = false := by
  cases n with
  | leaf f lk => cases lk <;> simp_all [Node.inclFree, Node.isIncl]
  | comp f k cs => rfl

theorem preprocessChildren_fix (rec : Node → Except Err Node) :
    ∀ (cs : List (Key × Node)), (∀ kv ∈ cs, kv.2.inclFree = true ∧ rec kv.2 = .ok kv.2) →
      preprocessChildren rec cs = .ok (cs, [])
  | [], _ => rfl
  | (k, c) :: rest, h => by
    have hc := h (k, c) (List.mem_cons_self ..)
    have hr := preprocessChildren_fix rec rest (fun kv hkv => h kv (List.mem_cons_of_mem _ hkv))
    simp only [preprocessChildren, hc.2, hr, inclFree_not_isIncl c hc.1]
    rfl

theorem inclFreeList_mem : ∀ (cs : List (Key × Node)), inclFreeList cs = true → ∀ kv ∈ cs, kv.2.inclFree = true
  | [], _, _, h => by cases h
  | (k, c) :: rest, hf, kv, h => by
    simp only [inclFreeList, Bool.and_eq_true] at hf
    cases h with
    | head => exact hf.1
    | tail _ h' => exact inclFreeList_mem rest hf.2 kv h'

theorem preprocessF_inclFree (ctx : PCtx) :
    ∀ (fuel : Nat) (n : Node), n.inclFree = true → n.depth < fuel → preprocessF ctx fuel n = .ok n
  | 0, _, _, h => by cases h
  | fuel + 1, .leaf f lk, hf, _ => by
    cases lk <;> first | rfl | (simp [Node.inclFree] at hf)
  | fuel + 1, .comp f k cs, hf, hd => by
    have hd' : depthList cs < fuel := by
      simp only [Node.depth] at hd; omega
    have hcs : preprocessChildren (preprocessF ctx fuel) cs = .ok (cs, []) :=
      preprocessChildren_fix _ cs (fun kv hkv =>
        ⟨inclFreeList_mem cs (by simpa [Node.inclFree] using hf) kv hkv,
         preprocessF_inclFree ctx fuel kv.2 (inclFreeList_mem cs (by simpa [Node.inclFree] using hf) kv hkv)
           (Nat.lt_of_le_of_lt (depth_child_lt cs kv hkv) hd')⟩)
    simp only [preprocessF, hcs, applyResetsPre]

theorem spliceStage_not_incl (st st' : Node) (h : st.isIncl = false) : spliceStage st st' = .ok [st'] := by
  simp [spliceStage, h]

/-- `Builder.preprocess` leaves include-free stages as they are -/
theorem preprocessStagesWith_fix (pn : Node → Except Err Node) :
    ∀ (stages : List Node), (∀ n ∈ stages, n.inclFree = true ∧ pn n = .ok n) →
      preprocessStagesWith pn stages = .ok stages
  | [], _ => rfl
  | st :: rest, h => by
    have hs := h st (List.mem_cons_self ..)
    have hr := preprocessStagesWith_fix pn rest (fun n hn => h n (List.mem_cons_of_mem _ hn))
    simp [preprocessStagesWith, hs.2, hr, spliceStage_not_incl st st (inclFree_not_isIncl st hs.1)]

theorem preprocessStagesF_inclFree (ctx : PCtx) (fuel : Nat) (stages : List Node)
    (hf : ∀ n ∈ stages, n.inclFree = true) (hd : ∀ n ∈ stages, n.depth < fuel) :
    preprocessStagesF ctx fuel stages = .ok stages :=
  preprocessStagesWith_fix _ stages (fun n hn => ⟨hf n hn, preprocessF_inclFree ctx fuel n (hf n hn) (hd n hn)⟩)

/-! ### file lookup -/

theorem findFile_fsGet (ctx : PCtx) : ∀ (dirs : List String) (name file : String) (raws : List Raw),
    findFile ctx dirs name = some (file, raws) → fsGet ctx file = some raws
  | [], _, _, _, h => by simp [findFile] at h
  | d :: ds, name, file, raws, h => by
    simp only [findFile] at h
    split at h
    · next docs hg =>
      simp only [Option.some.injEq, Prod.mk.injEq] at h
      rw [← h.1, ← h.2]; exact hg
    · exact findFile_fsGet ctx ds name file raws h

/-- one included file: the name as written, the path under which the lookup finds it, its raw documents and
    their parsed form -/
structure Seg where
  name : String
  file : String
  raws : List Raw
  docs : List Node

def segDocs (segs : List Seg) : List Node := segs.flatMap (·.docs)

/-- all names are found and parse: the loop collects the documents in order and reports nothing missing -/
theorem includeLoop_found (ctx : PCtx) (dirs : List String) (safe : Bool) :
    ∀ (segs : List Seg) (acc : List Node) (miss : List String),
      (∀ s ∈ segs, findFile ctx dirs s.name = some (s.file, s.raws)) →
      (∀ s ∈ segs, parseAll (sourceEnv ctx safe (some s.file)) s.raws = .ok s.docs) →
      includeLoop ctx dirs safe (segs.map (·.name)) acc miss = .ok (acc ++ segDocs segs, miss)
  | [], acc, miss, _, _ => by simp [includeLoop, segDocs]
  | s :: rest, acc, miss, hfind, hparse => by
    have h1 := hfind s (List.mem_cons_self ..)
    have h2 := hparse s (List.mem_cons_self ..)
    have hr := includeLoop_found ctx dirs safe rest (acc ++ s.docs) miss
      (fun t ht => hfind t (List.mem_cons_of_mem _ ht)) (fun t ht => hparse t (List.mem_cons_of_mem _ ht))
    simp only [List.map_cons, includeLoop, h1, h2, hr, segDocs, List.flatMap_cons, List.append_assoc]

theorem includeNode_found (ctx : PCtx) (pp : List Node → Except Err (List Node)) (fI : Flags)
    (segs : List Seg) (stages : List Node)
    (hfind : ∀ s ∈ segs, findFile ctx (lookupDirs fI.src ctx.cwd) s.name = some (s.file, s.raws))
    (hparse : ∀ s ∈ segs, parseAll (sourceEnv ctx (eSafe fI) (some s.file)) s.raws = .ok s.docs)
    (hpp : pp (segDocs segs) = .ok stages) :
    includeNode ctx pp fI (segs.map (·.name)) = .ok (streamOf stages) := by
  simp [includeNode, includeLoop_found ctx _ _ segs [] [] hfind hparse, hpp]

/-- an include of include-free files preprocesses to the stream of their documents -/
theorem preprocessF_incl (ctx : PCtx) (fuel : Nat) (fI : Flags) (segs : List Seg)
    (hfind : ∀ s ∈ segs, findFile ctx (lookupDirs fI.src ctx.cwd) s.name = some (s.file, s.raws))
    (hparse : ∀ s ∈ segs, parseAll (sourceEnv ctx (eSafe fI) (some s.file)) s.raws = .ok s.docs)
    (hfree : ∀ n ∈ segDocs segs, n.inclFree = true) (hd : ∀ n ∈ segDocs segs, n.depth < fuel) :
    preprocessF ctx (fuel + 1) (.leaf fI (.incl (segs.map (·.name)))) = .ok (streamOf (segDocs segs)) := by
  simp only [preprocessF]
  exact includeNode_found ctx _ fI segs _ hfind hparse (preprocessStagesF_inclFree ctx fuel _ hfree hd)

theorem spliceStage_stream (fI : Flags) (names : List String) (docs : List Node) (hne : docs ≠ []) :
    spliceStage (.leaf fI (.incl names)) (streamOf docs) = .ok docs := by
  cases docs with
  | nil => exact absurd rfl hne
  | cons d ds =>
    have h := renum_map_snd (d :: ds)
    simp only [renum, renumFrom] at h
    simp only [spliceStage, Node.isIncl, streamOf, renum, renumFrom, if_true]
    simpa using h

theorem mem_segDocs (segs : List Seg) (s : Seg) (hs : s ∈ segs) (n : Node) (hn : n ∈ s.docs) : n ∈ segDocs segs := by
  simp only [segDocs, List.mem_flatMap]
  exact ⟨s, hs, hn⟩

/-- (d) one top-level include document per file -/
theorem stages_inceach (ctx : PCtx) (fuel : Nat) (fI : Flags) :
    ∀ (segs : List Seg),
      (∀ s ∈ segs, findFile ctx (lookupDirs fI.src ctx.cwd) s.name = some (s.file, s.raws)) →
      (∀ s ∈ segs, parseAll (sourceEnv ctx (eSafe fI) (some s.file)) s.raws = .ok s.docs) →
      (∀ n ∈ segDocs segs, n.inclFree = true) → (∀ n ∈ segDocs segs, n.depth < fuel) →
      (∀ s ∈ segs, s.docs ≠ []) →
      preprocessStagesWith (preprocessF ctx (fuel + 1)) (segs.map (fun s => .leaf fI (.incl [s.name])))
        = .ok (segDocs segs)
  | [], _, _, _, _, _ => rfl
  | s :: rest, hfind, hparse, hfree, hd, hne => by
    have hmem : ∀ n ∈ segDocs [s], n ∈ segDocs (s :: rest) := by
      intro n hn
      simp only [segDocs, List.flatMap_cons, List.flatMap_nil, List.append_nil] at hn
      exact mem_segDocs _ s (List.mem_cons_self ..) n hn
    have h1 := preprocessF_incl ctx fuel fI [s]
      (fun t ht => hfind t (by simp at ht; simp [ht]))
      (fun t ht => hparse t (by simp at ht; simp [ht]))
      (fun n hn => hfree n (hmem n hn)) (fun n hn => hd n (hmem n hn))
    have hsd : segDocs [s] = s.docs := by simp [segDocs]
    rw [hsd] at h1
    simp only [List.map_cons, List.map_nil] at h1
    have hr := stages_inceach ctx fuel fI rest
      (fun t ht => hfind t (List.mem_cons_of_mem _ ht)) (fun t ht => hparse t (List.mem_cons_of_mem _ ht))
      (fun n hn => hfree n (by
        simp only [segDocs, List.mem_flatMap] at hn ⊢
        obtain ⟨t, ht, hn⟩ := hn
        exact ⟨t, List.mem_cons_of_mem _ ht, hn⟩))
      (fun n hn => hd n (by
        simp only [segDocs, List.mem_flatMap] at hn ⊢
        obtain ⟨t, ht, hn⟩ := hn
        exact ⟨t, List.mem_cons_of_mem _ ht, hn⟩))
      (fun t ht => hne t (List.mem_cons_of_mem _ ht))
    simp only [List.map_cons, preprocessStagesWith, h1,
      spliceStage_stream fI [s.name] s.docs (hne s (List.mem_cons_self ..)), hr, segDocs, List.flatMap_cons]

/-- (c) one top-level include of all files -/
theorem stages_inclist (ctx : PCtx) (fuel : Nat) (fI : Flags) (segs : List Seg)
    (hfind : ∀ s ∈ segs, findFile ctx (lookupDirs fI.src ctx.cwd) s.name = some (s.file, s.raws))
    (hparse : ∀ s ∈ segs, parseAll (sourceEnv ctx (eSafe fI) (some s.file)) s.raws = .ok s.docs)
    (hfree : ∀ n ∈ segDocs segs, n.inclFree = true) (hd : ∀ n ∈ segDocs segs, n.depth < fuel)
    (hne : segDocs segs ≠ []) :
    preprocessStagesWith (preprocessF ctx (fuel + 1)) [.leaf fI (.incl (segs.map (·.name)))] = .ok (segDocs segs) := by
  simp [preprocessStagesWith, preprocessF_incl ctx fuel fI segs hfind hparse hfree hd,
    spliceStage_stream fI _ _ hne]

/-! ### sources -/

theorem addSources_append (ctx : PCtx) : ∀ (a b : List Source) (x y : List Node),
    addSources ctx a = .ok x → addSources ctx b = .ok y → addSources ctx (a ++ b) = .ok (x ++ y)
  | [], b, x, y, ha, hb => by
    simp only [addSources, Except.ok.injEq] at ha
    simpa [← ha] using hb
  | s :: a, b, x, y, ha, hb => by
    simp only [addSources] at ha
    split at ha
    · cases ha
    · next ns hs =>
      split at ha
      · cases ha
      · next ms hm =>
        simp only [Except.ok.injEq] at ha
        have := addSources_append ctx a b ms y hm hb
        simp [addSources, hs, this, ← ha]

/-- every document of a source as its own raw source carrying the file name -/
theorem addSources_rawsep (ctx : PCtx) (safe : Bool) (file : Option String) :
    ∀ (raws : List Raw) (docs : List Node), parseAll (sourceEnv ctx safe file) raws = .ok docs →
      addSources ctx (raws.map (fun d => .raw [d] file (some safe))) = .ok docs
  | [], docs, h => by
    simp only [parseAll, Except.ok.injEq] at h
    simp [addSources, ← h]
  | r :: rest, docs, h => by
    simp only [parseAll] at h
    split at h
    · cases h
    · next n hn =>
      split at h
      · cases h
      · next ns hns =>
        simp only [Except.ok.injEq] at h
        have := addSources_rawsep ctx safe file rest ns hns
        simp [addSources, addTop, parseAll, hn, this, ← h]

/-- (a) every file its own source, (b) every document its own raw source -/
theorem addSources_segs (ctx : PCtx) (safe : Bool) (dirs : List String) :
    ∀ (segs : List Seg),
      (∀ s ∈ segs, findFile ctx dirs s.name = some (s.file, s.raws)) →
      (∀ s ∈ segs, parseAll (sourceEnv ctx safe (some s.file)) s.raws = .ok s.docs) →
      addSources ctx (segs.map (fun s => .file s.file (some safe))) = .ok (segDocs segs) ∧
      addSources ctx (segs.flatMap (fun s => s.raws.map (fun d => .raw [d] (some s.file) (some safe))))
        = .ok (segDocs segs)
  | [], _, _ => ⟨rfl, rfl⟩
  | s :: rest, hfind, hparse => by
    have h1 := findFile_fsGet ctx dirs s.name s.file s.raws (hfind s (List.mem_cons_self ..))
    have h2 := hparse s (List.mem_cons_self ..)
    have hr := addSources_segs ctx safe dirs rest
      (fun t ht => hfind t (List.mem_cons_of_mem _ ht)) (fun t ht => hparse t (List.mem_cons_of_mem _ ht))
    constructor
    · simp [addSources, addTop, addSource, h1, h2, hr.1, segDocs]
    · simp only [List.flatMap_cons, segDocs]
      exact addSources_append ctx _ _ _ _ (addSources_rawsep ctx safe (some s.file) s.raws s.docs h2) hr.2

/-! ### missing files -/

/-- names found in no lookup directory, in the order in which they are written -/
def missingNames (ctx : PCtx) (dirs : List String) (names : List String) : List String :=
  names.filter (fun nm => (findFile ctx dirs nm).isNone)

theorem includeLoop_missing (ctx : PCtx) (dirs : List String) (safe : Bool) :
    ∀ (names : List String) (acc : List Node) (miss : List String),
      (∀ nm ∈ names, ∀ file raws, findFile ctx dirs nm = some (file, raws) →
          ∃ ns, parseAll (sourceEnv ctx safe (some file)) raws = .ok ns) →
      ∃ docs, includeLoop ctx dirs safe names acc miss = .ok (docs, miss ++ missingNames ctx dirs names)
  | [], acc, miss, _ => ⟨acc, by simp [includeLoop, missingNames]⟩
  | nm :: rest, acc, miss, hp => by
    cases hf : findFile ctx dirs nm with
    | none =>
      obtain ⟨docs, h⟩ := includeLoop_missing ctx dirs safe rest acc (miss ++ [nm])
        (fun n hn => hp n (List.mem_cons_of_mem _ hn))
      exact ⟨docs, by simp [includeLoop, hf, h, missingNames]⟩
    | some seg =>
      obtain ⟨file, raws⟩ := seg
      obtain ⟨ns, hns⟩ := hp nm (List.mem_cons_self ..) file raws hf
      obtain ⟨docs, h⟩ := includeLoop_missing ctx dirs safe rest (acc ++ ns) miss
        (fun n hn => hp n (List.mem_cons_of_mem _ hn))
      exact ⟨docs, by simp [includeLoop, hf, hns, h, missingNames]⟩

theorem includeNode_missing (ctx : PCtx) (pp : List Node → Except Err (List Node)) (f : Flags)
    (names : List String)
    (hparse : ∀ nm ∈ names, ∀ file raws, findFile ctx (lookupDirs f.src ctx.cwd) nm = some (file, raws) →
        ∃ ns, parseAll (sourceEnv ctx (eSafe f) (some file)) raws = .ok ns)
    (hmiss : ∃ nm ∈ names, findFile ctx (lookupDirs f.src ctx.cwd) nm = none) :
    includeNode ctx pp f names = .error (.preprocess (missingNames ctx (lookupDirs f.src ctx.cwd) names)) := by
  obtain ⟨docs, h⟩ := includeLoop_missing ctx (lookupDirs f.src ctx.cwd) (eSafe f) names [] [] hparse
  simp only [List.nil_append] at h
  simp only [includeNode, h]
  cases hm : missingNames ctx (lookupDirs f.src ctx.cwd) names with
  | nil =>
    obtain ⟨nm, hnm, hnone⟩ := hmiss
    have : nm ∈ missingNames ctx (lookupDirs f.src ctx.cwd) names := by
      simp [missingNames, List.mem_filter, hnm, hnone]
    rw [hm] at this
    cases this
  | cons m ms => rfl

/-! ### an include below a key -/

theorem preprocessChildren_one (rec : Node → Except Err Node) (key : Key) (c c' : Node)
    (hc : c.isIncl = true) (hrec : rec c = .ok c') :
    ∀ (pre post : List (Key × Node)),
      (∀ kv ∈ pre, kv.2.inclFree = true ∧ rec kv.2 = .ok kv.2) →
      (∀ kv ∈ post, kv.2.inclFree = true ∧ rec kv.2 = .ok kv.2) →
      preprocessChildren rec (pre ++ (key, c) :: post) = .ok (pre ++ (key, c) :: post, [(key, c')])
  | [], post, _, hpost => by
    simp [preprocessChildren, hrec, hc, preprocessChildren_fix rec post hpost]
  | (k, p) :: pre, post, hpre, hpost => by
    have hp := hpre (k, p) (List.mem_cons_self ..)
    have hr := preprocessChildren_one rec key c c' hc hrec pre post
      (fun kv hkv => hpre kv (List.mem_cons_of_mem _ hkv)) hpost
    simp [preprocessChildren, hp.2, inclFree_not_isIncl p hp.1, hr]

theorem aset_mid {α : Type} (key : Key) (v w : α) :
    ∀ (pre post : List (Key × α)), (∀ kv ∈ pre, kv.1 ≠ key) →
      aset key v (pre ++ (key, w) :: post) = pre ++ (key, v) :: post
  | [], post, _ => by simp [aset]
  | (k, p) :: pre, post, h => by
    have hk : k ≠ key := h (k, p) (List.mem_cons_self ..)
    simp [aset, hk, aset_mid key v w pre post (fun kv hkv => h kv (List.mem_cons_of_mem _ hkv))]

/-- adoption of a stream writes the inherited flags into the stream node only: nothing is pushed into
    the documents -/
theorem adopt_stream (pf : Flags) (pk : CompKind) (kw : ChildKw) (sf : Flags) (cs : List (Key × Node))
    (hkw : childKw pf pk = some kw) :
    adopt pf pk (.comp sf .stream cs) = .comp (updFlags kw sf) .stream cs := by
  unfold adopt inheritInto
  simp only [hkw, Node.setFlags, Node.flags]
  rfl

theorem preprocessF_nested (ctx : PCtx) (fuel : Nat) (f : Flags) (k : CompKind) (key : Key)
    (fI : Flags) (names : List String) (st : Node) (pre post : List (Key × Node))
    (hk : k.isDictFam = true)
    (hinc : preprocessF ctx fuel (.leaf fI (.incl names)) = .ok st)
    (hpre : ∀ kv ∈ pre, kv.2.inclFree = true ∧ kv.2.depth < fuel)
    (hpost : ∀ kv ∈ post, kv.2.inclFree = true ∧ kv.2.depth < fuel)
    (hkey : ∀ kv ∈ pre, kv.1 ≠ key) :
    preprocessF ctx (fuel + 1) (.comp f k (pre ++ (key, .leaf fI (.incl names)) :: post))
      = .ok (.comp f k (pre ++ (key, adopt f k st) :: post)) := by
  have h1 := preprocessChildren_one (preprocessF ctx fuel) key (.leaf fI (.incl names)) st rfl hinc pre post
    (fun kv hkv => ⟨(hpre kv hkv).1, preprocessF_inclFree ctx fuel kv.2 (hpre kv hkv).1 (hpre kv hkv).2⟩)
    (fun kv hkv => ⟨(hpost kv hkv).1, preprocessF_inclFree ctx fuel kv.2 (hpost kv hkv).1 (hpost kv hkv).2⟩)
  simp [preprocessF, h1, applyResetsPre, setChild, hk, aset_mid key _ _ pre post hkey]

/-! ### the whole build -/

theorem buildWith_eq (ctx : PCtx) (fuel : Nat) (srcs : List Source) (stages pre : List Node)
    (h1 : addSources ctx srcs = .ok stages) (hne : stages ≠ [])
    (h2 : preprocessStagesF ctx fuel stages = .ok pre) :
    buildWith ctx fuel srcs = match flatten pre with
      | .error e => .error e
      | .ok t => .ok (some t) := by
  cases stages with
  | nil => exact absurd rfl hne
  | cons s ss =>
    simp only [buildWith, h1, h2]
    cases flatten pre <;> rfl

end AY
