/-
  AY.Lemmas.C08Req — `_require_all_new` (`reqNew`) is "first offender in DFS pre-order":
  auxiliary definitions (`c08_preorder`, `c08_nodeAt`, `c08_offender`, `c08_keysNodupH`,
  `allNotNew`) and the lemmas behind property C08 (first half: the check itself and the
  key loop of a mapping merge).
-/
import AY.Model.Merge
import AY.Lemmas.Assoc
import AY.Lemmas.C05Frame
import AY.Lemmas.ExcBelow
namespace AY

/-! ### DFS pre-order listing of a tree, with absolute paths -/

mutual
/-- every node of the tree below (and including) `n`, in DFS pre-order, paired with its path
    (`p` = path of `n`); ALL children are visited, duplicates of a sibling key included -/
def c08_preorder (p : Path) : Node → List (Path × Node)
  | .leaf f k => [(p, .leaf f k)]
  | .comp f k cs => (p, .comp f k cs) :: c08_preorderList p cs
def c08_preorderList (p : Path) : List (Key × Node) → List (Path × Node)
  | [] => []
  | (k, c) :: rest => c08_preorder (p ++ [k]) c ++ c08_preorderList p rest
end

/-- the test `_require_all_new` applies to one node: `allow_new` is off and the path is not excepted -/
def c08_offender (exc : List Path) (x : Path × Node) : Bool :=
  !eNew x.2.flags && !exc.contains x.1

theorem c08_offender_false (exc : List Path) (x : Path × Node) :
    c08_offender exc x = false ↔ (eNew x.2.flags = true ∨ x.1 ∈ exc) := by
  simp only [c08_offender]
  cases eNew x.2.flags <;> simp

theorem c08_offender_true (exc : List Path) (x : Path × Node) :
    c08_offender exc x = true ↔ (eNew x.2.flags = false ∧ x.1 ∉ exc) := by
  simp only [c08_offender]
  cases eNew x.2.flags <;> simp

/-- "node `m` occurs at relative path `q` in `n`" (visits all children, not only the first of
    duplicate sibling keys) -/
inductive c08_nodeAt : Node → Path → Node → Prop
  | root (n : Node) : c08_nodeAt n [] n
  | child {f : Flags} {k : CompKind} {cs : List (Key × Node)} {key : Key} {c : Node} {q : Path} {m : Node} :
      (key, c) ∈ cs → c08_nodeAt c q m → c08_nodeAt (.comp f k cs) (key :: q) m

mutual
/-- no mapping of the tree has two children with the same key -/
def c08_keysNodupH : Node → Bool
  | .leaf .. => true
  | .comp _ _ cs => keysNodup cs && c08_keysNodupHList cs
def c08_keysNodupHList : List (Key × Node) → Bool
  | [] => true
  | (_, c) :: rest => c08_keysNodupH c && c08_keysNodupHList rest
end

mutual
/-- every node of the subtree has `allow_new` switched off (content below a `!notnew` node
    without nested `!new`) -/
def allNotNew : Node → Bool
  | .leaf f _ => !eNew f
  | .comp f _ cs => !eNew f && allNotNewList cs
def allNotNewList : List (Key × Node) → Bool
  | [] => true
  | (_, c) :: rest => allNotNew c && allNotNewList rest
end

/-! ### `reqNew` = first offender of the pre-order listing -/

theorem c08_preorder_head (p : Path) (n : Node) :
    ∃ tl, c08_preorder p n = (p, n) :: tl := by
  cases n with
  | leaf f k => exact ⟨[], rfl⟩
  | comp f k cs => exact ⟨c08_preorderList p cs, by simp [c08_preorder]⟩

mutual
theorem c08_reqNew_eq_find : ∀ (exc : List Path) (p : Path) (n : Node),
    reqNew exc p n = ((c08_preorder p n).find? (c08_offender exc)).map (·.1)
  | exc, p, .leaf f k => by
    simp only [reqNew, c08_preorder, List.find?_cons, c08_offender, Node.flags]
    cases (!eNew f && !exc.contains p) <;> simp
  | exc, p, .comp f k cs => by
    simp only [reqNew, c08_preorder, List.find?_cons, c08_offender, Node.flags]
    cases (!eNew f && !exc.contains p)
    · simpa using c08_reqNewList_eq_find exc p cs
    · simp
theorem c08_reqNewList_eq_find : ∀ (exc : List Path) (p : Path) (cs : List (Key × Node)),
    reqNewList exc p cs = ((c08_preorderList p cs).find? (c08_offender exc)).map (·.1)
  | _, _, [] => by simp [reqNewList, c08_preorderList]
  | exc, p, (k, c) :: rest => by
    simp only [reqNewList, c08_preorderList, List.find?_append, c08_reqNew_eq_find exc (p ++ [k]) c,
      c08_reqNewList_eq_find exc p rest]
    cases (c08_preorder (p ++ [k]) c).find? (c08_offender exc) <;> simp
end

/-! ### membership in the pre-order listing = occurrence in the tree -/

mutual
theorem c08_mem_preorder_of_nodeAt : ∀ (p : Path) (n : Node) (q : Path) (m : Node),
    c08_nodeAt n q m → (p ++ q, m) ∈ c08_preorder p n
  | p, n, _, _, .root _ => by
    obtain ⟨tl, e⟩ := c08_preorder_head p n
    rw [e]; simp
  | p, .comp f k cs, _, m, .child (key := key) (c := c) (q := q) hmem hc => by
    simp only [c08_preorder, List.mem_cons]
    right
    have := c08_mem_preorder_of_nodeAt (p ++ [key]) c q m hc
    have e : p ++ [key] ++ q = p ++ key :: q := by simp
    rw [e] at this
    exact c08_mem_preorderList p cs key c _ hmem this
theorem c08_mem_preorderList : ∀ (p : Path) (cs : List (Key × Node)) (key : Key) (c : Node)
    (x : Path × Node), (key, c) ∈ cs → x ∈ c08_preorder (p ++ [key]) c → x ∈ c08_preorderList p cs
  | _, [], _, _, _, h, _ => by cases h
  | p, (k', c') :: rest, key, c, x, h, hx => by
    simp only [c08_preorderList, List.mem_append]
    rcases List.mem_cons.1 h with e | h'
    · injection e with e1 e2; subst e1; subst e2; exact .inl hx
    · exact .inr (c08_mem_preorderList p rest key c x h' hx)
end

mutual
theorem c08_nodeAt_of_mem_preorder : ∀ (p : Path) (n : Node) (x : Path × Node),
    x ∈ c08_preorder p n → ∃ q, x.1 = p ++ q ∧ c08_nodeAt n q x.2
  | p, .leaf f k, x, h => by
    simp only [c08_preorder, List.mem_singleton] at h
    subst h; exact ⟨[], by simp, .root _⟩
  | p, .comp f k cs, x, h => by
    simp only [c08_preorder, List.mem_cons] at h
    rcases h with h | h
    · subst h; exact ⟨[], by simp, .root _⟩
    · obtain ⟨key, c, q, hmem, e, hc⟩ := c08_nodeAt_of_mem_preorderList p cs x h
      exact ⟨key :: q, e, .child hmem hc⟩
theorem c08_nodeAt_of_mem_preorderList : ∀ (p : Path) (cs : List (Key × Node)) (x : Path × Node),
    x ∈ c08_preorderList p cs →
      ∃ key c q, (key, c) ∈ cs ∧ x.1 = p ++ key :: q ∧ c08_nodeAt c q x.2
  | _, [], _, h => by simp [c08_preorderList] at h
  | p, (k', c') :: rest, x, h => by
    simp only [c08_preorderList, List.mem_append] at h
    rcases h with h | h
    · obtain ⟨q, e, hc⟩ := c08_nodeAt_of_mem_preorder (p ++ [k']) c' x h
      exact ⟨k', c', q, by simp, by simpa using e, hc⟩
    · obtain ⟨key, c, q, hmem, e, hc⟩ := c08_nodeAt_of_mem_preorderList p rest x h
      exact ⟨key, c, q, List.mem_cons_of_mem _ hmem, e, hc⟩
end

theorem c08_mem_preorder_iff (p : Path) (n : Node) (r : Path) (m : Node) :
    (r, m) ∈ c08_preorder p n ↔ ∃ q, r = p ++ q ∧ c08_nodeAt n q m := by
  constructor
  · intro h; exact c08_nodeAt_of_mem_preorder p n (r, m) h
  · rintro ⟨q, rfl, h⟩; exact c08_mem_preorder_of_nodeAt p n q m h

/-! ### `getNode` versus `c08_nodeAt` -/

theorem c08_mem_of_alookup {α : Type} (k : Key) : ∀ (l : List (Key × α)) (v : α),
    alookup k l = some v → (k, v) ∈ l
  | [], _, h => by simp [alookup] at h
  | (k', v') :: rest, v, h => by
    by_cases hk : k' = k
    · simp [alookup, hk] at h; subst h; subst hk; simp
    · simp [alookup, hk] at h
      exact List.mem_cons_of_mem _ (c08_mem_of_alookup k rest v h)

theorem c08_mem_akeys {α : Type} (k : Key) (v : α) : ∀ (l : List (Key × α)), (k, v) ∈ l → k ∈ akeys l
  | [], h => by cases h
  | (k', v') :: rest, h => by
    rcases List.mem_cons.1 h with e | h'
    · injection e with e1 _; subst e1; simp [akeys]
    · simp [akeys, c08_mem_akeys k v rest h']

theorem c08_alookup_of_mem {α : Type} (k : Key) (v : α) : ∀ (l : List (Key × α)),
    keysNodup l = true → (k, v) ∈ l → alookup k l = some v
  | [], _, h => by cases h
  | (k', v') :: rest, hn, h => by
    have hn' : (akeys rest).contains k' = false ∧ keysNodup rest = true := by simpa [keysNodup] using hn
    rcases List.mem_cons.1 h with e | h'
    · injection e with e1 e2; subst e1; subst e2; simp [alookup]
    · have hk : ¬ k' = k := by
        intro e; subst e
        have := c08_mem_akeys k' v rest h'
        have h2 := hn'.1
        simp at h2
        exact h2 this
      simp [alookup, hk, c08_alookup_of_mem k v rest hn'.2 h']

theorem c08_nodeAt_of_getNode : ∀ (q : Path) (n m : Node), getNode n q = some m → c08_nodeAt n q m
  | [], n, m, h => by
    simp only [getNode] at h; injection h with h; subst h; exact .root _
  | key :: rest, .leaf f k, m, h => by simp [getNode] at h
  | key :: rest, .comp f k cs, m, h => by
    simp only [getNode] at h
    cases hl : alookup key cs with
    | none => simp [hl] at h
    | some c =>
      simp only [hl] at h
      exact .child (c08_mem_of_alookup key cs c hl) (c08_nodeAt_of_getNode rest c m h)

theorem c08_keysNodupHList_mem : ∀ (cs : List (Key × Node)) (key : Key) (c : Node),
    c08_keysNodupHList cs = true → (key, c) ∈ cs → c08_keysNodupH c = true
  | [], _, _, _, h => by cases h
  | (k', c') :: rest, key, c, hn, h => by
    have hn' : c08_keysNodupH c' = true ∧ c08_keysNodupHList rest = true := by
      simpa [c08_keysNodupHList] using hn
    rcases List.mem_cons.1 h with e | h'
    · injection e with e1 e2; subst e2; exact hn'.1
    · exact c08_keysNodupHList_mem rest key c hn'.2 h'

theorem c08_getNode_of_nodeAt {n : Node} {q : Path} {m : Node} (h : c08_nodeAt n q m) :
    c08_keysNodupH n = true → getNode n q = some m := by
  induction h with
  | root n => intro _; cases n <;> rfl
  | @child f k cs key c q m hmem _ ih =>
    intro hn
    have hn' : keysNodup cs = true ∧ c08_keysNodupHList cs = true := by
      simpa [c08_keysNodupH] using hn
    simp only [getNode, c08_alookup_of_mem key c cs hn'.1 hmem]
    exact ih (c08_keysNodupHList_mem cs key c hn'.2 hmem)

/-! ### consequences for `reqNew` -/

theorem c08_reqNew_none_iff (exc : List Path) (p : Path) (n : Node) :
    reqNew exc p n = none ↔
      ∀ q m, c08_nodeAt n q m → eNew m.flags = true ∨ (p ++ q) ∈ exc := by
  rw [c08_reqNew_eq_find]
  simp only [Option.map_eq_none_iff, List.find?_eq_none]
  constructor
  · intro h q m hq
    have := h (p ++ q, m) (c08_mem_preorder_of_nodeAt p n q m hq)
    exact (c08_offender_false exc _).1 (by simpa using this)
  · intro h x hx
    obtain ⟨q, e, hq⟩ := c08_nodeAt_of_mem_preorder p n x hx
    have := h q x.2 hq
    rw [← e] at this
    have := (c08_offender_false exc x).2 this
    simp [this]

theorem c08_reqNew_some (exc : List Path) (p : Path) (n : Node) (r : Path)
    (h : reqNew exc p n = some r) :
    ∃ (pre post : List (Path × Node)) (q : Path) (m : Node),
      c08_preorder p n = pre ++ (r, m) :: post ∧ r = p ++ q ∧ c08_nodeAt n q m ∧
      eNew m.flags = false ∧ r ∉ exc ∧
      ∀ x ∈ pre, eNew x.2.flags = true ∨ x.1 ∈ exc := by
  rw [c08_reqNew_eq_find] at h
  simp only [Option.map_eq_some_iff] at h
  obtain ⟨x, hx, e⟩ := h
  obtain ⟨hoff, pre, post, hsplit, hpre⟩ := List.find?_eq_some_iff_append.1 hx
  obtain ⟨r', m⟩ := x
  simp only at e; subst e
  have hmem : (r', m) ∈ c08_preorder p n := by rw [hsplit]; simp
  obtain ⟨q, e, hq⟩ := c08_nodeAt_of_mem_preorder p n _ hmem
  refine ⟨pre, post, q, m, hsplit, e, hq, ?_, ?_, ?_⟩
  · exact ((c08_offender_true exc _).1 hoff).1
  · exact ((c08_offender_true exc _).1 hoff).2
  · intro y hy
    have := hpre y hy
    exact (c08_offender_false exc _).1 (by simpa using this)

/-- a node whose own `allow_new` is off is its own first offender -/
theorem c08_reqNew_self (n : Node) (h : eNew n.flags = false) : reqNew [] [] n = some [] := by
  cases n with
  | leaf f k => simp only [Node.flags] at h; simp [reqNew, h]
  | comp f k cs => simp only [Node.flags] at h; simp [reqNew, h]

/-- the same with exceptions: a node whose `allow_new` is off and whose path is not excepted -/
theorem c08_reqNew_self_exc (exc : List Path) (p : Path) (n : Node) (h : eNew n.flags = false)
    (hx : p ∉ exc) : reqNew exc p n = some p := by
  cases n with
  | leaf f k => simp only [Node.flags] at h; simp [reqNew, h, hx]
  | comp f k cs => simp only [Node.flags] at h; simp [reqNew, h, hx]

theorem c08_allNotNew_flags {n : Node} (h : allNotNew n = true) : eNew n.flags = false := by
  cases n with
  | leaf f k => simpa [allNotNew, Node.flags] using h
  | comp f k cs =>
    have : eNew f = false ∧ allNotNewList cs = true := by simpa [allNotNew] using h
    exact this.1

theorem c08_allNotNewList_mem : ∀ (cs : List (Key × Node)), allNotNewList cs = true →
    ∀ kv ∈ cs, eNew kv.2.flags = false
  | [], _, _, h => by cases h
  | (k, c) :: rest, hn, kv, h => by
    have hn' : allNotNew c = true ∧ allNotNewList rest = true := by simpa [allNotNewList] using hn
    rcases List.mem_cons.1 h with e | h'
    · subst e; exact c08_allNotNew_flags hn'.1
    · exact c08_allNotNewList_mem rest hn'.2 kv h'

/-! ### the key loop: a missing key is created only through `_require_all_new` -/

theorem c08_mergeStep_absent {exc : List Path} (rec : Node → Node → Except Err (Node × Bool)) (sf : Flags) (sk : CompKind)
    (acc : List (Key × Node)) (k : Key) (value : Node) (h : getChild sk k acc = none) :
    mergeStep rec sf sk exc acc (k, value) =
      match reqNew (excBelow k exc) [] value with
      | some p => .error (.notnew (k :: p))
      | none => setChild sf sk k value acc := by
  simp only [mergeStep, h]
  cases reqNew (excBelow k exc) [] value <;> rfl

/-! ### keys after one step of the loop (dict family) -/

theorem c08_akeys_aerase {α : Type} (k : Key) : ∀ (l : List (Key × α)) (x : Key),
    x ∈ akeys (aerase k l) → x ∈ akeys l
  | [], _, h => by simp [aerase, akeys] at h
  | (k', v') :: rest, x, h => by
    by_cases hk : k' = k
    · simp [aerase, hk] at h; simp [akeys, h]
    · simp only [aerase, hk, if_false, akeys, List.mem_cons] at h ⊢
      rcases h with h | h
      · exact .inl h
      · exact .inr (c08_akeys_aerase k rest x h)

theorem c08_akeys_aset {α : Type} (k : Key) (v : α) (l : List (Key × α)) (h : (alookup k l).isSome = true) :
    akeys (aset k v l) = akeys l := keysOf_aset_of_some k v l h

theorem c08_mem_akeys_aset {α : Type} {k x : Key} {v : α} : ∀ {l : List (Key × α)},
    x ∈ akeys (aset k v l) → x = k ∨ x ∈ akeys l
  | [], h => by simp [aset, akeys] at h; exact .inl h
  | (k', v') :: rest, h => by
    by_cases hk : k' = k
    · subst hk; simp [aset, akeys] at h; simp [akeys, h]
    · simp only [aset, hk, if_false, akeys, List.mem_cons] at h ⊢
      rcases h with h | h
      · exact .inr (.inl h)
      · rcases c08_mem_akeys_aset h with h | h
        · exact .inl h
        · exact .inr (.inr h)

/-- one step on an existing key of a mapping never adds a key -/
theorem c08_mergeStep_present_keys {exc : List Path} (rec : Node → Node → Except Err (Node × Bool)) {sf : Flags}
    {sk : CompKind} (hsk : sk.isDictFam = true) {acc acc' : List (Key × Node)} {kv : Key × Node}
    {child : Node} (hc : getChild sk kv.1 acc = some child)
    (h : mergeStep rec sf sk exc acc kv = .ok acc') : ∀ x, x ∈ akeys acc' → x ∈ akeys acc := by
  have hl : alookup kv.1 acc = some child := by simpa [getChild, hsk] using hc
  have hsome : (alookup kv.1 acc).isSome = true := by rw [hl]; rfl
  have hset : ∀ v acc', setChild sf sk kv.1 v acc = .ok acc' → akeys acc' = akeys acc := by
    intro v acc' h
    simp only [setChild, hsk, if_true] at h
    injection h with h; rw [← h]; exact c08_akeys_aset _ _ _ hsome
  have hrep : ∀ v, akeys (replaceChild sk kv.1 v acc) = akeys acc := by
    intro v; simp only [replaceChild, hsk, if_true]; exact c08_akeys_aset _ _ _ hsome
  have hrem : ∀ acc', removeChildE sf sk kv.1 acc = .ok acc' → ∀ x, x ∈ akeys acc' → x ∈ akeys acc := by
    intro acc' h
    simp only [removeChildE, removeChild, hsk, if_true, ahas, hsome] at h
    injection h with h; rw [← h]; exact c08_akeys_aerase _ _
  simp only [mergeStep, hc] at h
  split at h
  · cases h
  · split at h
    · split at h
      · exact hrem _ h
      · split at h
        · injection h with h; rw [← h, hrep]; exact fun _ hx => hx
        · rw [hset _ _ h]; exact fun _ hx => hx
    · split at h
      · injection h with h; rw [← h, hrep]; exact fun _ hx => hx
      · split at h
        · cases h
        · split at h
          · exact hrem _ h
          · rw [hset _ _ h]; exact fun _ hx => hx

/-- the loop of a mapping merge whose incoming children all have `allow_new` off never adds a key,
    except a key that the pruning by a deleting `other` has just removed (`[x] ∈ exc`) -/
theorem c08_mergeLoop_no_new_key {exc : List Path} (rec : Node → Node → Except Err (Node × Bool)) {sf : Flags}
    {sk : CompKind} (hsk : sk.isDictFam = true) :
    ∀ (ocs scs scs' : List (Key × Node)), (∀ kv ∈ ocs, eNew kv.2.flags = false) →
      mergeLoop rec sf sk exc scs ocs = .ok scs' → ∀ x, x ∈ akeys scs' → x ∈ akeys scs ∨ [x] ∈ exc
  | [], scs, scs', _, h => by
    simp only [mergeLoop] at h; injection h with h; subst h; exact fun _ hx => .inl hx
  | (k, v) :: rest, scs, scs', hn, h => by
    simp only [mergeLoop] at h
    cases hs : mergeStep rec sf sk exc scs (k, v) with
    | error e => simp [hs] at h
    | ok acc1 =>
      simp only [hs] at h
      have hv : eNew v.flags = false := hn (k, v) (by simp)
      have ih := c08_mergeLoop_no_new_key rec hsk rest acc1 scs' (fun kv hkv => hn kv (List.mem_cons_of_mem _ hkv)) h
      cases hg : getChild sk k scs with
      | none =>
        by_cases hkx : [k] ∈ exc
        · intro x hx
          rcases ih x hx with hx1 | hx1
          · rw [c08_mergeStep_absent rec sf sk scs k v hg] at hs
            split at hs
            · cases hs
            · simp only [setChild, hsk, if_true] at hs
              injection hs with hs
              rw [← hs] at hx1
              rcases c08_mem_akeys_aset hx1 with e | hx2
              · subst e; exact .inr hkx
              · exact .inl hx2
          · exact .inr hx1
        · have hne : ([] : Path) ∉ excBelow k exc := fun hm => hkx ((mem_excBelow k [] exc).1 hm)
          rw [c08_mergeStep_absent rec sf sk scs k v hg, c08_reqNew_self_exc _ [] v hv hne] at hs
          cases hs
      | some child =>
        intro x hx
        rcases ih x hx with hx1 | hx1
        · exact .inl (c08_mergeStep_present_keys rec hsk (kv := (k, v)) hg hs x hx1)
        · exact .inr hx1

theorem c08_mergeLoop_missing_key {exc : List Path} (rec : Node → Node → Except Err (Node × Bool)) (sf : Flags)
    (sk : CompKind) (acc : List (Key × Node)) (k : Key) (v : Node) (rest : List (Key × Node))
    (hg : getChild sk k acc = none) (hv : eNew v.flags = false) (hx : [k] ∉ exc) :
    mergeLoop rec sf sk exc acc ((k, v) :: rest) = .error (.notnew [k]) := by
  have hne : ([] : Path) ∉ excBelow k exc := fun hm => hx ((mem_excBelow k [] exc).1 hm)
  simp only [mergeLoop, c08_mergeStep_absent rec sf sk acc k v hg, c08_reqNew_self_exc _ [] v hv hne]

theorem c08_mergeLoop_append {exc : List Path} (rec : Node → Node → Except Err (Node × Bool)) (sf : Flags) (sk : CompKind) :
    ∀ (pre acc acc1 post : List (Key × Node)), mergeLoop rec sf sk exc acc pre = .ok acc1 →
      mergeLoop rec sf sk exc acc (pre ++ post) = mergeLoop rec sf sk exc acc1 post
  | [], acc, acc1, post, h => by
    simp only [mergeLoop] at h; injection h with h; subst h; rfl
  | kv :: pre, acc, acc1, post, h => by
    simp only [mergeLoop, List.cons_append] at h ⊢
    cases hs : mergeStep rec sf sk exc acc kv with
    | error e => simp [hs] at h
    | ok acc2 =>
      simp only [hs] at h ⊢
      exact c08_mergeLoop_append rec sf sk pre acc2 acc1 post h

end AY
