/-
  AY.Lemmas.C04Filter — `filter_nodes` on arbitrary trees (any class, any flags):
  * when the condition holds for no node below the root, every child is removed (`c04_filterNode_noneKept`);
  * a priority bound that makes `maybe_keep` fail everywhere (`c04_noneKept_of_prio`);
  * one level of a mapping: the surviving children are exactly the marked ones, in order
    (`c04_filterNode_dict_kept`).
  Well-formedness used for the list family: children numbered `0 … n-1` (`wfKeys`).
-/
import AY.Lemmas.Filter
import AY.Lemmas.DataTree
namespace AY

/-! ### predicates -/

mutual
/-- every list-family container below (and including) the node has its children numbered `0 … n-1` -/
def wfKeys : Node → Bool
  | .leaf .. => true
  | .comp _ k cs => (k.isDictFam || listKeys 0 cs) && wfKeysList cs
def wfKeysList : List (Key × Node) → Bool
  | [] => true
  | (_, c) :: rest => wfKeys c && wfKeysList rest
end

mutual
/-- `cond` fails for every node strictly below the node (paths relative to `pre`) -/
def noneKept (cond : Path → Node → Bool) (pre : Path) : Node → Bool
  | .leaf .. => true
  | .comp _ _ cs => noneKeptList cond pre cs
def noneKeptList (cond : Path → Node → Bool) (pre : Path) : List (Key × Node) → Bool
  | [] => true
  | (name, c) :: rest =>
    !cond (pre ++ [name]) c && noneKept cond (pre ++ [name]) c && noneKeptList cond pre rest
end

mutual
/-- every effective priority in the tree is `≤ b` -/
def prioLe (b : Int) : Node → Bool
  | .leaf f _ => decide (ePrio f ≤ b)
  | .comp f _ cs => decide (ePrio f ≤ b) && prioLeList b cs
def prioLeList (b : Int) : List (Key × Node) → Bool
  | [] => true
  | (_, c) :: rest => prioLe b c && prioLeList b rest
end

mutual
/-- every effective priority in the tree is `≥ b` -/
def prioGe (b : Int) : Node → Bool
  | .leaf f _ => decide (b ≤ ePrio f)
  | .comp f _ cs => decide (b ≤ ePrio f) && prioGeList b cs
def prioGeList (b : Int) : List (Key × Node) → Bool
  | [] => true
  | (_, c) :: rest => prioGe b c && prioGeList b rest
end

/-! ### a condition that holds nowhere below the root -/

mutual
theorem c04_filterNode_noneKept (cond : Path → Node → Bool) :
    ∀ (pre : Path) (n : Node), wfKeys n = true → noneKept cond pre n = true →
      (filterNode cond pre n).1.children = []
  | pre, .leaf f k, _, _ => by simp [filterNode, Node.children]
  | pre, .comp f k cs, hw, hn => by
    have hw' : (k.isDictFam = true ∨ listKeys 0 cs = true) ∧ wfKeysList cs = true := by
      simpa [wfKeys] using hw
    have hn' : noneKeptList cond pre cs = true := by simpa [noneKept] using hn
    obtain ⟨h1, h2, h3⟩ := c04_filterList_noneKept cond pre 0 cs hw'.2 hn'
    obtain ⟨e1, e2⟩ := keysOf_dropMarks_of_none _ h1
    simp only [filterNode, Node.children, e1]
    cases hk : k.isDictFam with
    | true => exact removeMany_dict_all f k hk _ _ (List.reverse_perm _)
    | false =>
      have hl : listKeys 0 cs = true := by
        rcases hw'.1 with h | h
        · rw [hk] at h; cases h
        · exact h
      have hl' : listKeys 0 (dropMarks (filterList cond pre cs).1) = true := by rw [h3]; exact hl
      rw [keysOf_listKeys 0 _ hl']
      exact removeMany_list_all f k hk _ _ rfl
theorem c04_filterList_noneKept (cond : Path → Node → Bool) :
    ∀ (pre : Path) (i : Nat) (cs : List (Key × Node)), wfKeysList cs = true →
      noneKeptList cond pre cs = true →
      (∀ x ∈ (filterList cond pre cs).1, x.2.2 = false) ∧
      (dropMarks (filterList cond pre cs).1).length = cs.length ∧
      listKeys i (dropMarks (filterList cond pre cs).1) = listKeys i cs
  | _, _, [], _, _ => by simp [filterList, dropMarks]
  | pre, i, (name, child) :: rest, hw, hn => by
    have hw' : wfKeys child = true ∧ wfKeysList rest = true := by simpa [wfKeysList] using hw
    have hn' : (cond (pre ++ [name]) child = false ∧ noneKept cond (pre ++ [name]) child = true) ∧
        noneKeptList cond pre rest = true := by simpa [noneKeptList] using hn
    have e := c04_filterNode_noneKept cond (pre ++ [name]) child hw'.1 hn'.1.2
    obtain ⟨r1, r2, r3⟩ := c04_filterList_noneKept cond pre (i + 1) rest hw'.2 hn'.2
    simp only [filterList, dropMarks, listKeys, List.length_cons, r2, r3, hn'.1.1, e,
      List.isEmpty_nil, Bool.not_true, Bool.and_false, Bool.or_false, and_true]
    intro x hx
    rcases List.mem_cons.1 hx with hx | hx
    · rw [hx]
    · exact r1 x hx
end

/-- the filtered root keeps its flags and class and loses every child -/
theorem c04_filterNode_noneKept_comp (cond : Path → Node → Bool) (pre : Path) {f k cs}
    (hw : wfKeys (.comp f k cs) = true) (hn : noneKeptList cond pre cs = true) :
    (filterNode cond pre (.comp f k cs)).1 = .comp f k [] := by
  have := c04_filterNode_noneKept cond pre (.comp f k cs) hw (by simpa [noneKept] using hn)
  simp only [filterNode, Node.children] at this ⊢
  rw [this]

/-! ### `maybe_keep` fails when no priority of `self` exceeds a priority of `other` -/

theorem c04_prioGe_flags {b : Int} {n : Node} (h : prioGe b n = true) : b ≤ ePrio n.flags := by
  cases n with
  | leaf f k => simpa [prioGe, Node.flags] using h
  | comp f k cs =>
    have : b ≤ ePrio f ∧ prioGeList b cs = true := by simpa [prioGe] using h
    exact this.1

theorem c04_prioLe_flags {b : Int} {n : Node} (h : prioLe b n = true) : ePrio n.flags ≤ b := by
  cases n with
  | leaf f k => simpa [prioLe, Node.flags] using h
  | comp f k cs =>
    have : ePrio f ≤ b ∧ prioLeList b cs = true := by simpa [prioLe] using h
    exact this.1

theorem c04_alookup_prioGe (b : Int) (key : Key) : ∀ cs : List (Key × Node), prioGeList b cs = true →
    ∀ c, alookup key cs = some c → prioGe b c = true
  | [], _, c, h => by simp [alookup] at h
  | (k', v') :: r, hp, c, h => by
    have h' : prioGe b v' = true ∧ prioGeList b r = true := by simpa [prioGeList] using hp
    by_cases hk : k' = key
    · simp [alookup, hk] at h; subst h; exact h'.1
    · simp [alookup, hk] at h; exact c04_alookup_prioGe b key r h'.2 c h

theorem c04_prioGe_firstNotMissing (b : Int) : ∀ (p : Path) (n : Node), prioGe b n = true →
    prioGe b (firstNotMissing n p) = true
  | [], n, h => by cases n <;> simpa [firstNotMissing] using h
  | key :: rest, .leaf f k, h => by simpa [firstNotMissing] using h
  | key :: rest, .comp f k cs, h => by
    simp only [firstNotMissing]
    cases hl : alookup key cs with
    | none => exact h
    | some c =>
      have : b ≤ ePrio f ∧ prioGeList b cs = true := by simpa [prioGe] using h
      exact c04_prioGe_firstNotMissing b rest c (c04_alookup_prioGe b key cs this.2 c hl)

theorem c04_hasPrio_false_of_le {a b : Flags} (h : ePrio a ≤ ePrio b) : hasPrio a b false = false := by
  unfold hasPrio
  split
  · rfl
  · simp only [decide_eq_false_iff_not]; omega

theorem c04_maybeKeep_of_prio {b : Int} {o : Node} (ho : prioGe b o = true) (p : Path) {m : Node}
    (hm : prioLe b m = true) : maybeKeep o p m = false := by
  have h1 := c04_prioGe_flags (c04_prioGe_firstNotMissing b p o ho)
  have h2 := c04_prioLe_flags hm
  exact c04_hasPrio_false_of_le (by omega)

mutual
theorem c04_noneKept_of_prio {b : Int} {o : Node} (ho : prioGe b o = true) :
    ∀ (pre : Path) (n : Node), prioLe b n = true → noneKept (maybeKeep o) pre n = true
  | _, .leaf .., _ => rfl
  | pre, .comp f k cs, h => by
    have : ePrio f ≤ b ∧ prioLeList b cs = true := by simpa [prioLe] using h
    simpa [noneKept] using c04_noneKeptList_of_prio ho pre cs this.2
theorem c04_noneKeptList_of_prio {b : Int} {o : Node} (ho : prioGe b o = true) :
    ∀ (pre : Path) (cs : List (Key × Node)), prioLeList b cs = true →
      noneKeptList (maybeKeep o) pre cs = true
  | _, [], _ => rfl
  | pre, (name, c) :: rest, h => by
    have h' : prioLe b c = true ∧ prioLeList b rest = true := by simpa [prioLeList] using h
    simp [noneKeptList, c04_maybeKeep_of_prio ho _ h'.1, c04_noneKept_of_prio ho _ c h'.1,
      c04_noneKeptList_of_prio ho pre rest h'.2]
end

/-! ### `_require_all_new` is monotone in its exceptions -/

mutual
theorem c04_reqNew_none_mono (exc : List Path) :
    ∀ (p : Path) (n : Node), reqNew [] p n = none → reqNew exc p n = none
  | p, .leaf f k, h => by
    have : eNew f = true := by
      cases hf : eNew f with
      | true => rfl
      | false => simp [reqNew, hf] at h
    simp [reqNew, this]
  | p, .comp f k cs, h => by
    have hf : eNew f = true := by
      cases hf : eNew f with
      | true => rfl
      | false => simp [reqNew, hf] at h
    have hl : reqNewList [] p cs = none := by simpa [reqNew, hf] using h
    simp [reqNew, hf, c04_reqNewList_none_mono exc p cs hl]
theorem c04_reqNewList_none_mono (exc : List Path) :
    ∀ (p : Path) (cs : List (Key × Node)), reqNewList [] p cs = none → reqNewList exc p cs = none
  | _, [], _ => rfl
  | p, (k, c) :: rest, h => by
    simp only [reqNewList] at h ⊢
    cases h1 : reqNew [] (p ++ [k]) c with
    | some q => simp [h1] at h
    | none =>
      simp only [h1] at h
      simp [c04_reqNew_none_mono exc (p ++ [k]) c h1, c04_reqNewList_none_mono exc p rest h]
end

/-- the root itself is always excepted in the early-exit branch of the merge -/
theorem c04_reqNew_root_excepted (exc : List Path) {f k cs} (h : reqNewList [] [] cs = none) :
    reqNew ([] :: exc) [] (.comp f k cs) = none := by
  simp [reqNew, c04_reqNewList_none_mono ([] :: exc) [] cs h]

/-! ### one level of a mapping with distinct keys: the marked children survive, in order -/

/-- the children `filter_nodes` leaves in a mapping: filtered recursively, kept when the condition
    holds for the child or something below it survives -/
def keptChildren (cond : Path → Node → Bool) (pre : Path) : List (Key × Node) → List (Key × Node)
  | [] => []
  | (name, child) :: rest =>
    let c' := (filterNode cond (pre ++ [name]) child).1
    if cond (pre ++ [name]) child || (child.isComp && !c'.children.isEmpty) then
      (name, c') :: keptChildren cond pre rest
    else keptChildren cond pre rest

/-- entries whose mark is `true` -/
def keptMarks : List (Key × Node × Bool) → List (Key × Node)
  | [] => []
  | (k, n, keep) :: rest => if keep then (k, n) :: keptMarks rest else keptMarks rest

theorem c04_keptMarks_filterList (cond : Path → Node → Bool) (pre : Path) :
    ∀ cs : List (Key × Node), keptMarks (filterList cond pre cs).1 = keptChildren cond pre cs
  | [] => rfl
  | (name, child) :: rest => by
    simp only [filterList, keptMarks, keptChildren, c04_keptMarks_filterList cond pre rest]

theorem c04_akeys_dropMarks_filterList (cond : Path → Node → Bool) (pre : Path) :
    ∀ cs : List (Key × Node), akeys (dropMarks (filterList cond pre cs).1) = akeys cs
  | [] => rfl
  | (name, child) :: rest => by
    simp [filterList, dropMarks, akeys, c04_akeys_dropMarks_filterList cond pre rest]

theorem c04_aerase_of_not_mem {α : Type} (k : Key) : ∀ l : List (Key × α), k ∉ akeys l → aerase k l = l
  | [], _ => rfl
  | (k', v) :: rest, h => by
    have h' : ¬ k = k' ∧ k ∉ akeys rest := by simpa [akeys] using h
    have hne : ¬ k' = k := fun e => h'.1 e.symm
    simp [aerase, hne, c04_aerase_of_not_mem k rest h'.2]

/-- removing names that are not keys does nothing (mapping) -/
theorem c04_removeMany_dict_skip (f : Flags) (k : CompKind) (hk : k.isDictFam = true) :
    ∀ (names : List Key) (cs : List (Key × Node)), (∀ nm ∈ names, nm ∉ akeys cs) →
      removeMany f k names cs = cs
  | [], _, _ => rfl
  | nm :: rest, cs, h => by
    have h1 : ahas nm cs = false := by
      cases hh : ahas nm cs with
      | false => rfl
      | true => exact absurd ((ahas_iff_mem nm cs).1 hh) (h nm List.mem_cons_self)
    simp only [removeMany, removeChild, hk, h1, if_true, Bool.false_eq_true, if_false]
    exact c04_removeMany_dict_skip f k hk rest cs (fun x hx => h x (List.mem_cons_of_mem _ hx))

/-- in a mapping `remove_child` for every name is `del d[name]` for the names that are keys -/
theorem c04_removeMany_dict_cons (f : Flags) (k : CompKind) (hk : k.isDictFam = true) (nm : Key)
    (rest : List Key) (cs : List (Key × Node)) :
    removeMany f k (nm :: rest) cs = removeMany f k rest (aerase nm cs) := by
  simp only [removeMany, removeChild, hk, if_true]
  cases hh : ahas nm cs with
  | true => rfl
  | false =>
    have : nm ∉ akeys cs := fun hm => by
      rw [(ahas_iff_mem nm cs).2 hm] at hh; cases hh
    simp only [Bool.false_eq_true, if_false, c04_aerase_of_not_mem nm cs this]

theorem c04_not_mem_akeys_aerase {α : Type} {key : Key} (nm : Key) {cs : List (Key × α)}
    (h : key ∉ akeys cs) : key ∉ akeys (aerase nm cs) := by
  rw [keysOf_aerase]
  exact fun hm => h (List.mem_of_mem_erase hm)

/-- `removeMany` in a mapping distributes over a head entry that is not named -/
theorem c04_removeMany_dict_cons_keep (f : Flags) (k : CompKind) (hk : k.isDictFam = true) (key : Key) (v : Node) :
    ∀ (names : List Key) (cs : List (Key × Node)), key ∉ names →
      removeMany f k names ((key, v) :: cs) = (key, v) :: removeMany f k names cs
  | [], _, _ => rfl
  | nm :: rest, cs, h => by
    have h' : ¬ key = nm ∧ key ∉ rest := by simpa using h
    rw [c04_removeMany_dict_cons f k hk, c04_removeMany_dict_cons f k hk]
    simp only [aerase, h'.1, if_false]
    exact c04_removeMany_dict_cons_keep f k hk key v rest _ h'.2

/-- names that are not keys can be dropped from the removal list -/
theorem c04_removeMany_dict_filter_absent (f : Flags) (k : CompKind) (hk : k.isDictFam = true) (key : Key) :
    ∀ (names : List Key) (cs : List (Key × Node)), key ∉ akeys cs →
      removeMany f k names cs = removeMany f k (names.filter (· != key)) cs
  | [], _, _ => rfl
  | x :: xs, cs, hc => by
    by_cases e : x = key
    · subst e
      have hf : (x :: xs).filter (· != x) = xs.filter (· != x) := by simp
      rw [hf, c04_removeMany_dict_cons f k hk, c04_aerase_of_not_mem x cs hc]
      exact c04_removeMany_dict_filter_absent f k hk x xs cs hc
    · have hf : (x :: xs).filter (· != key) = x :: xs.filter (· != key) := by simp [e]
      rw [hf, c04_removeMany_dict_cons f k hk, c04_removeMany_dict_cons f k hk]
      exact c04_removeMany_dict_filter_absent f k hk key xs _ (c04_not_mem_akeys_aerase x hc)

/-- `removeMany` in a mapping drops a head entry that is named (its key occurs nowhere else) -/
theorem c04_removeMany_dict_cons_drop (f : Flags) (k : CompKind) (hk : k.isDictFam = true) (key : Key) (v : Node) :
    ∀ (names : List Key) (cs : List (Key × Node)), key ∈ names → key ∉ akeys cs →
      removeMany f k names ((key, v) :: cs) = removeMany f k (names.filter (· != key)) cs
  | [], _, h, _ => by simp at h
  | nm :: rest, cs, h, hc => by
    by_cases e : nm = key
    · subst e
      have hf : (nm :: rest).filter (· != nm) = rest.filter (· != nm) := by simp
      rw [hf, c04_removeMany_dict_cons f k hk]
      simp only [aerase, if_true]
      exact c04_removeMany_dict_filter_absent f k hk nm rest cs hc
    · have h' : key ∈ rest := by
        rcases List.mem_cons.1 h with h | h
        · exact absurd h.symm e
        · exact h
      have hne : ¬ key = nm := fun x => e x.symm
      have hf : (nm :: rest).filter (· != key) = nm :: rest.filter (· != key) := by simp [e]
      rw [hf, c04_removeMany_dict_cons f k hk, c04_removeMany_dict_cons f k hk]
      simp only [aerase, hne, if_false]
      exact c04_removeMany_dict_cons_drop f k hk key v rest _ h' (c04_not_mem_akeys_aerase nm hc)

theorem c04_notKeptNames_subset : ∀ (l : List (Key × Node × Bool)) (x : Key),
    x ∈ notKeptNames l → x ∈ akeys (dropMarks l)
  | [], _, h => by simp [notKeptNames] at h
  | (k, n, b) :: rest, x, h => by
    cases b with
    | true =>
      simp only [notKeptNames, if_true] at h
      simp [dropMarks, akeys, c04_notKeptNames_subset rest x h]
    | false =>
      simp only [notKeptNames, Bool.false_eq_true, if_false, List.mem_cons] at h
      rcases h with h | h
      · simp [dropMarks, akeys, h]
      · simp [dropMarks, akeys, c04_notKeptNames_subset rest x h]

/-- removing the unmarked names (in any order, with repetitions) from a mapping with distinct keys
    leaves the marked entries -/
theorem c04_removeMany_marks (f : Flags) (k : CompKind) (hk : k.isDictFam = true) :
    ∀ (l : List (Key × Node × Bool)) (names : List Key), keysNodup (dropMarks l) = true →
      (∀ x, x ∈ names ↔ x ∈ notKeptNames l) →
      removeMany f k names (dropMarks l) = keptMarks l
  | [], names, _, h => by
    cases names with
    | nil => rfl
    | cons a r => exact absurd ((h a).1 List.mem_cons_self) (by simp [notKeptNames])
  | (key, n, b) :: rest, names, hn, h => by
    have hn' : key ∉ akeys (dropMarks rest) ∧ keysNodup (dropMarks rest) = true := by
      simpa [dropMarks, keysNodup] using hn
    cases b with
    | true =>
      have hnot : key ∉ names := by
        intro hm
        have := (h key).1 hm
        simp only [notKeptNames, if_true] at this
        exact hn'.1 (c04_notKeptNames_subset rest key this)
      simp only [dropMarks, keptMarks, if_true]
      rw [c04_removeMany_dict_cons_keep f k hk key n names _ hnot]
      rw [c04_removeMany_marks f k hk rest names hn'.2 (by simpa [notKeptNames] using h)]
    | false =>
      have hin : key ∈ names := (h key).2 (by simp [notKeptNames])
      simp only [dropMarks, keptMarks, Bool.false_eq_true, if_false]
      rw [c04_removeMany_dict_cons_drop f k hk key n names _ hin hn'.1]
      apply c04_removeMany_marks f k hk rest _ hn'.2
      intro x
      simp only [List.mem_filter, bne_iff_ne, ne_eq]
      constructor
      · rintro ⟨hx, hne⟩
        have := (h x).1 hx
        simp only [notKeptNames, Bool.false_eq_true, if_false, List.mem_cons] at this
        rcases this with e | e
        · exact absurd e hne
        · exact e
      · intro hx
        refine ⟨(h x).2 (by simp [notKeptNames, hx]), ?_⟩
        intro e
        subst e
        exact hn'.1 (c04_notKeptNames_subset rest x hx)

/-- `filter_nodes` on a mapping with distinct keys: exactly the kept children remain, in order -/
theorem c04_filterNode_dict_kept (cond : Path → Node → Bool) (pre : Path) (f : Flags) (k : CompKind)
    (cs : List (Key × Node)) (hk : k.isDictFam = true) (hn : keysNodup cs = true) :
    (filterNode cond pre (.comp f k cs)).1 = .comp f k (keptChildren cond pre cs) := by
  have hn' : keysNodup (dropMarks (filterList cond pre cs).1) = true := by
    rw [keysNodup_congr _ cs (c04_akeys_dropMarks_filterList cond pre cs)]; exact hn
  simp only [filterNode]
  rw [c04_removeMany_marks f k hk _ _ hn' (fun x => by simp), c04_keptMarks_filterList]

theorem c04_mem_akeys_keptChildren (cond : Path → Node → Bool) (pre : Path) (key : Key) :
    ∀ cs : List (Key × Node), keysNodup cs = true →
      (key ∈ akeys (keptChildren cond pre cs) ↔
        ∃ c, alookup key cs = some c ∧
          (cond (pre ++ [key]) c = true ∨
            (c.isComp = true ∧ (filterNode cond (pre ++ [key]) c).1.children ≠ [])))
  | [], _ => by simp [keptChildren, akeys, alookup]
  | (name, child) :: rest, hn => by
    have hn' : name ∉ akeys rest ∧ keysNodup rest = true := by simpa [keysNodup] using hn
    have ih := c04_mem_akeys_keptChildren cond pre key rest hn'.2
    by_cases e : name = key
    · subst e
      have hnot : name ∉ akeys (keptChildren cond pre rest) := by
        intro hm
        obtain ⟨c, hc, _⟩ := ih.1 hm
        have := (alookup_none_iff name rest).2 (by simpa using hn'.1)
        rw [this] at hc; cases hc
      simp only [keptChildren, alookup, if_true, Option.some.injEq, exists_eq_left']
      split
      · rename_i hkeep
        simp only [akeys, List.mem_cons, true_or, true_iff]
        simpa [List.isEmpty_iff] using hkeep
      · rename_i hkeep
        simp only [hnot, false_iff]
        simpa [List.isEmpty_iff] using hkeep
    · simp only [keptChildren, alookup, e, if_false]
      split
      · simp only [akeys, List.mem_cons]
        rw [ih]
        constructor
        · rintro (h | h)
          · exact absurd h.symm e
          · exact h
        · exact fun h => .inr h
      · exact ih


/-! ### a condition that holds everywhere below the root -/

mutual
/-- `cond` holds for every node strictly below the node -/
def allKept (cond : Path → Node → Bool) (pre : Path) : Node → Bool
  | .leaf .. => true
  | .comp _ _ cs => allKeptList cond pre cs
def allKeptList (cond : Path → Node → Bool) (pre : Path) : List (Key × Node) → Bool
  | [] => true
  | (name, c) :: rest =>
    cond (pre ++ [name]) c && allKept cond (pre ++ [name]) c && allKeptList cond pre rest
end

mutual
theorem c04_filterNode_allKept (cond : Path → Node → Bool) :
    ∀ (pre : Path) (n : Node), allKept cond pre n = true → (filterNode cond pre n).1 = n
  | pre, .leaf f k, _ => by simp [filterNode]
  | pre, .comp f k cs, h => by
    have h' : allKeptList cond pre cs = true := by simpa [allKept] using h
    obtain ⟨h1, h2⟩ := c04_filterList_allKept cond pre cs h'
    simp [filterNode, dropMarks_all_kept _ h1, h2, removeMany]
theorem c04_filterList_allKept (cond : Path → Node → Bool) :
    ∀ (pre : Path) (cs : List (Key × Node)), allKeptList cond pre cs = true →
      (∀ x ∈ (filterList cond pre cs).1, x.2.2 = true) ∧ dropMarks (filterList cond pre cs).1 = cs
  | _, [], _ => by simp [filterList, dropMarks]
  | pre, (name, child) :: rest, h => by
    have h' : (cond (pre ++ [name]) child = true ∧ allKept cond (pre ++ [name]) child = true) ∧
        allKeptList cond pre rest = true := by simpa [allKeptList] using h
    have e := c04_filterNode_allKept cond (pre ++ [name]) child h'.1.2
    obtain ⟨r1, r2⟩ := c04_filterList_allKept cond pre rest h'.2
    simp only [filterList, dropMarks, r2, h'.1.1, e, Bool.true_or, and_true]
    intro x hx
    rcases List.mem_cons.1 hx with hx | hx
    · rw [hx]
    · exact r1 x hx
end

theorem c04_alookup_prioLe (b : Int) (key : Key) : ∀ cs : List (Key × Node), prioLeList b cs = true →
    ∀ c, alookup key cs = some c → prioLe b c = true
  | [], _, c, h => by simp [alookup] at h
  | (k', v') :: r, hp, c, h => by
    have h' : prioLe b v' = true ∧ prioLeList b r = true := by simpa [prioLeList] using hp
    by_cases hk : k' = key
    · simp [alookup, hk] at h; subst h; exact h'.1
    · simp [alookup, hk] at h; exact c04_alookup_prioLe b key r h'.2 c h

theorem c04_prioLe_firstNotMissing (b : Int) : ∀ (p : Path) (n : Node), prioLe b n = true →
    prioLe b (firstNotMissing n p) = true
  | [], n, h => by cases n <;> simpa [firstNotMissing] using h
  | key :: rest, .leaf f k, h => by simpa [firstNotMissing] using h
  | key :: rest, .comp f k cs, h => by
    simp only [firstNotMissing]
    cases hl : alookup key cs with
    | none => exact h
    | some c =>
      have : ePrio f ≤ b ∧ prioLeList b cs = true := by simpa [prioLe] using h
      exact c04_prioLe_firstNotMissing b rest c (c04_alookup_prioLe b key cs this.2 c hl)

theorem c04_hasPrio_true_of_ge {a b : Flags} (h : ePrio b ≤ ePrio a) : hasPrio a b true = true := by
  unfold hasPrio
  split
  · rfl
  · simp only [decide_eq_true_eq]; omega

/-- `keep_if_exists` of the list merge holds when no priority of `self` exceeds one of `other` -/
theorem c04_keepIfExists_of_prio {b : Int} {s : Node} (hs : prioLe b s = true) (p : Path) {m : Node}
    (hm : prioGe b m = true) : keepIfExists s p m = true := by
  have h1 := c04_prioLe_flags (c04_prioLe_firstNotMissing b p s hs)
  have h2 := c04_prioGe_flags hm
  simp only [keepIfExists]
  split
  · rfl
  · exact c04_hasPrio_true_of_ge (by omega)

mutual
theorem c04_allKept_of_prio {b : Int} {s : Node} (hs : prioLe b s = true) :
    ∀ (pre : Path) (n : Node), prioGe b n = true → allKept (keepIfExists s) pre n = true
  | _, .leaf .., _ => rfl
  | pre, .comp f k cs, h => by
    have : b ≤ ePrio f ∧ prioGeList b cs = true := by simpa [prioGe] using h
    simpa [allKept] using c04_allKeptList_of_prio hs pre cs this.2
theorem c04_allKeptList_of_prio {b : Int} {s : Node} (hs : prioLe b s = true) :
    ∀ (pre : Path) (cs : List (Key × Node)), prioGeList b cs = true →
      allKeptList (keepIfExists s) pre cs = true
  | _, [], _ => rfl
  | pre, (name, c) :: rest, h => by
    have h' : prioGe b c = true ∧ prioGeList b rest = true := by simpa [prioGeList] using h
    simp [allKeptList, c04_keepIfExists_of_prio hs _ h'.1, c04_allKept_of_prio hs _ c h'.1,
      c04_allKeptList_of_prio hs pre rest h'.2]
end

end AY
