/-
  AY.Lemmas.Filter — `filter_nodes` on tag-free trees: a condition that never holds empties the
  container (removing every child one by one, in reverse order, through `remove_child`), a
  condition that always holds leaves the tree untouched.
-/
import AY.Lemmas.PlainInv
namespace AY

/-! ### removing every key -/

theorem keysOf_aerase {α : Type} (k : Key) : ∀ l : List (Key × α), akeys (aerase k l) = (akeys l).erase k
  | [] => rfl
  | (k', v) :: rest => by
    by_cases h : k' = k
    · simp [aerase, akeys, h]
    · have h' : (k' == k) = false := by simpa using h
      simp [aerase, akeys, h, h', keysOf_aerase k rest]

theorem ahas_iff_mem {α : Type} (k : Key) (l : List (Key × α)) : ahas k l = true ↔ k ∈ akeys l := by
  have := alookup_none_iff k l
  unfold ahas
  cases h : alookup k l with
  | none => simp [h] at this; simp [this]
  | some v =>
    simp [h] at this
    simpa using this

theorem keysOf_nil_iff {α : Type} (l : List (Key × α)) : akeys l = [] ↔ l = [] := by
  cases l with
  | nil => simp [akeys]
  | cons kv rest => obtain ⟨k, v⟩ := kv; simp [akeys]

/-- `del d[k]` for every key of `d` (in any order) empties a mapping -/
theorem removeMany_dict_all (f : Flags) (k : CompKind) (hk : k.isDictFam = true) :
    ∀ (names : List Key) (cs : List (Key × Node)), names.Perm (akeys cs) → removeMany f k names cs = []
  | [], cs, h => by
    have : akeys cs = [] := by simpa using h.symm
    simp [removeMany, (keysOf_nil_iff cs).1 this]
  | nm :: rest, cs, h => by
    have hmem : nm ∈ akeys cs := h.subset (List.mem_cons_self)
    have hh : ahas nm cs = true := (ahas_iff_mem nm cs).2 hmem
    have hp : rest.Perm (akeys (aerase nm cs)) := by
      rw [keysOf_aerase]
      have := List.Perm.erase nm h
      simpa using this
    simp [removeMany, removeChild, hk, hh, removeMany_dict_all f k hk rest (aerase nm cs) hp]

/-- keys `i, i+1, …, i+n-1` -/
def upKeys : Nat → Nat → List Key
  | _, 0 => []
  | i, n + 1 => Key.int (i : Int) :: upKeys (i + 1) n

theorem upKeys_snoc : ∀ (n i : Nat), upKeys i (n + 1) = upKeys i n ++ [Key.int ((i + n : Nat) : Int)]
  | 0, i => by simp [upKeys]
  | n + 1, i => by
    rw [upKeys, upKeys_snoc n (i + 1)]
    simp [upKeys, Nat.add_assoc, Nat.add_comm 1 n]

theorem keysOf_listKeys : ∀ (i : Nat) (cs : List (Key × Node)), listKeys i cs = true →
    akeys cs = upKeys i cs.length
  | _, [], _ => rfl
  | i, (k, c) :: rest, h => by
    have h' : k = Key.int (i : Int) ∧ listKeys (i + 1) rest = true := by simpa [listKeys] using h
    simp [akeys, upKeys, h'.1, keysOf_listKeys (i + 1) rest h'.2]

theorem validateIndex_last (n : Nat) : validateIndex (n + 1) true (.int (n : Int)) = some n := by
  simp only [validateIndex]
  have h1 : ¬ ((n : Int).natAbs > n + 1) := by omega
  have h2 : ¬ ((n : Int) = (n : Int) + 1) := by omega
  have h3 : ¬ ((n : Int) < 0) := by omega
  simp [h2, h3]

theorem length_renumFrom {α : Type} : ∀ (i : Nat) (xs : List α), (renumFrom i xs).length = xs.length
  | _, [] => rfl
  | i, x :: xs => by simp [renumFrom, length_renumFrom (i + 1) xs]

/-- `del l[n-1]; …; del l[0]` empties a list -/
theorem removeMany_list_all (f : Flags) (k : CompKind) (hk : k.isDictFam = false) :
    ∀ (n : Nat) (cs : List (Key × Node)), cs.length = n → removeMany f k (upKeys 0 n).reverse cs = []
  | 0, cs, h => by
    have : cs = [] := List.eq_nil_of_length_eq_zero h
    simp [upKeys, removeMany, this]
  | n + 1, cs, h => by
    rw [upKeys_snoc, List.reverse_append]
    simp only [List.reverse_cons, List.reverse_nil, List.nil_append, List.singleton_append,
      Nat.zero_add, removeMany, removeChild, hk, h, validateIndex_last]
    have hl : (listDelAt f k n cs).length = n := by
      simp [listDelAt, renum, length_renumFrom, h]
    simp [removeMany_list_all f k hk n _ hl]

/-! ### a condition that never holds -/

theorem keysOf_dropMarks_of_none : ∀ (l : List (Key × Node × Bool)),
    (∀ x ∈ l, x.2.2 = false) →
      notKeptNames l = akeys (dropMarks l) ∧ (dropMarks l).length = l.length
  | [], _ => by simp [notKeptNames, dropMarks, akeys]
  | (k, n, b) :: rest, h => by
    have hb : b = false := h (k, n, b) (List.mem_cons_self)
    have hr := keysOf_dropMarks_of_none rest (fun x hx => h x (List.mem_cons_of_mem _ hx))
    simp [notKeptNames, dropMarks, akeys, hb, hr.1, hr.2]

mutual
theorem filterNode_never (cond : Path → Node → Bool) (hc : ∀ p m, plainT m = true → cond p m = false) :
    ∀ (pre : Path) (n : Node), plainT n = true → (filterNode cond pre n).1.children = []
  | pre, .leaf f k, _ => by simp [filterNode, Node.children]
  | pre, .comp f k cs, h => by
    obtain ⟨hf, hkind, hcs⟩ := plainT_comp h
    obtain ⟨h1, h2, h3⟩ := filterList_never cond hc pre 0 cs hcs
    obtain ⟨e1, e2⟩ := keysOf_dropMarks_of_none _ h1
    simp only [filterNode, Node.children, e1]
    rcases hkind with hk | ⟨hk, hl⟩
    · subst hk
      exact removeMany_dict_all f .dict rfl _ _ (List.reverse_perm _)
    · subst hk
      have hl' : listKeys 0 (dropMarks (filterList cond pre cs).1) = true := by rw [h3]; exact hl
      rw [keysOf_listKeys 0 _ hl']
      exact removeMany_list_all f .list rfl _ _ rfl
theorem filterList_never (cond : Path → Node → Bool) (hc : ∀ p m, plainT m = true → cond p m = false) :
    ∀ (pre : Path) (i : Nat) (cs : List (Key × Node)), plainTList cs = true →
      (∀ x ∈ (filterList cond pre cs).1, x.2.2 = false) ∧
      (dropMarks (filterList cond pre cs).1).length = cs.length ∧
      listKeys i (dropMarks (filterList cond pre cs).1) = listKeys i cs
  | _, _, [], _ => by simp [filterList, dropMarks]
  | pre, i, (name, child) :: rest, h => by
    have h' : plainT child = true ∧ plainTList rest = true := by simpa [plainTList] using h
    have e := filterNode_never cond hc (pre ++ [name]) child h'.1
    obtain ⟨r1, r2, r3⟩ := filterList_never cond hc pre (i + 1) rest h'.2
    simp only [filterList, dropMarks, listKeys, List.length_cons, r2, r3, hc _ _ h'.1, e,
      List.isEmpty_nil, Bool.not_true, Bool.and_false, Bool.or_false, and_true]
    intro x hx
    rcases List.mem_cons.1 hx with hx | hx
    · rw [hx]
    · exact r1 x hx
end

/-! ### a condition that always holds -/

theorem dropMarks_all_kept : ∀ (l : List (Key × Node × Bool)),
    (∀ x ∈ l, x.2.2 = true) → notKeptNames l = []
  | [], _ => rfl
  | (k, n, b) :: rest, h => by
    have hb : b = true := h (k, n, b) (List.mem_cons_self)
    simp [notKeptNames, hb, dropMarks_all_kept rest (fun x hx => h x (List.mem_cons_of_mem _ hx))]

mutual
theorem filterNode_always (cond : Path → Node → Bool) (hc : ∀ p m, plainT m = true → cond p m = true) :
    ∀ (pre : Path) (n : Node), plainT n = true → (filterNode cond pre n).1 = n
  | pre, .leaf f k, _ => by simp [filterNode]
  | pre, .comp f k cs, h => by
    obtain ⟨hf, hkind, hcs⟩ := plainT_comp h
    obtain ⟨h1, h2⟩ := filterList_always cond hc pre cs hcs
    simp [filterNode, dropMarks_all_kept _ h1, h2, removeMany]
theorem filterList_always (cond : Path → Node → Bool) (hc : ∀ p m, plainT m = true → cond p m = true) :
    ∀ (pre : Path) (cs : List (Key × Node)), plainTList cs = true →
      (∀ x ∈ (filterList cond pre cs).1, x.2.2 = true) ∧ dropMarks (filterList cond pre cs).1 = cs
  | _, [], _ => by simp [filterList, dropMarks]
  | pre, (name, child) :: rest, h => by
    have h' : plainT child = true ∧ plainTList rest = true := by simpa [plainTList] using h
    have e := filterNode_always cond hc (pre ++ [name]) child h'.1
    obtain ⟨r1, r2⟩ := filterList_always cond hc pre rest h'.2
    simp only [filterList, dropMarks, r2, hc _ _ h'.1, e, Bool.true_or, and_true]
    intro x hx
    rcases List.mem_cons.1 hx with hx | hx
    · rw [hx]
    · exact r1 x hx
end

/-! ### the two conditions used by the merge -/

theorem plainT_firstNotMissing : ∀ (p : Path) (n : Node), plainT n = true → plainT (firstNotMissing n p) = true
  | [], n, h => by cases n <;> simpa [firstNotMissing] using h
  | key :: rest, .leaf f k, h => by simpa [firstNotMissing] using h
  | key :: rest, .comp f k cs, h => by
    simp only [firstNotMissing]
    cases hl : alookup key cs with
    | none => exact h
    | some c => exact plainT_firstNotMissing rest c (alookup_plainT key cs (plainT_comp h).2.2 c hl)

theorem maybeKeep_plain {o : Node} (ho : plainT o = true) (p : Path) (m : Node) (hm : plainT m = true) :
    maybeKeep o p m = false := by
  simp [maybeKeep, hasPrio_plain (plainT_flags hm) (plainT_flags (plainT_firstNotMissing p o ho))]

theorem keepIfExists_plain {s : Node} (hs : plainT s = true) (p : Path) (m : Node) (hm : plainT m = true) :
    keepIfExists s p m = true := by
  simp [keepIfExists, hasPrio_plain (plainT_flags hm) (plainT_flags (plainT_firstNotMissing p s hs))]

end AY
