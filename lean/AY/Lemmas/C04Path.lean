/-
  AY.Lemmas.C04Path — composition of the local C04 statements along a path of plain non-deleting
  mappings (helpers for AY.Props.C04_AtPath):

  * `at_live_path`: when both trees have a node at the path `k :: p`, the newer tree consists of plain
    non-deleting mappings above it and the merge succeeds, the data the merge leaves at and below the
    path is what ONE iteration of the key loop (`stepAt`) of the two nodes found there produces;
  * `frame_diverges`: a path the newer tree does not mention keeps its data;
  * `del_exact_local`: a deleting node that is not outranked and meets nothing protected replaces.
-/
import AY.Lemmas.C04PathDefs
namespace AY.C04P

/-! ### small facts -/

theorem truthy_setFlags (n : Node) (f : Flags) : (n.setFlags f).truthy = n.truthy := by
  cases n <;> rfl

theorem isEmpty_applyKwList (kw : ChildKw) : ∀ cs : List (Key × Node), (applyKwList kw cs).isEmpty = cs.isEmpty
  | [] => rfl
  | (_, _) :: _ => rfl

theorem truthy_propagate (n : Node) : (propagate n).truthy = n.truthy := by
  cases n with
  | leaf f k => rfl
  | comp f k cs =>
    simp only [propagate]
    split
    · rfl
    · simp only [Node.truthy, isEmpty_applyKwList]

theorem hasPrio_flip {a b : Flags} (h : hasPrio a b true = true) : hasPrio b a false = false := by
  simp only [hasPrio] at h ⊢
  split at h
  · rename_i he; simp [he]
  · rename_i he
    have : ¬ ePrio b = ePrio a := fun e => he e.symm
    simp only [this, if_false]
    simp only [decide_eq_true_eq] at h
    simp only [decide_eq_false_iff_not]
    omega

theorem hasPrio_false_of_eq {a b : Flags} (h : ePrio a = ePrio b) : hasPrio a b false = false := by
  simp [hasPrio, h]

theorem ePrio_replaceOtherFlags (w l : Flags) : ePrio (replaceOtherFlags w l) = ePrio w := rfl

theorem del_replaceOtherFlags (w l : Flags) : (replaceOtherFlags w l).del = w.del := rfl

theorem liveAlong_cons {k : Key} {p : Path} {n : Node} (h : liveAlong (k :: p) n = true) :
    ∃ f cs, n = .comp f .dict cs ∧ eDel (.comp f .dict cs) = false ∧ keysNodup cs = true ∧
      ∀ c, alookup k cs = some c → liveAlong p c = true := by
  cases n with
  | leaf f lk => simp [liveAlong] at h
  | comp f ck cs =>
    cases ck <;> try (simp [liveAlong] at h; done)
    simp only [liveAlong, Bool.and_eq_true, Bool.not_eq_true'] at h
    refine ⟨f, cs, rfl, h.1.1, h.1.2, ?_⟩
    intro c hc
    have := h.2
    rw [hc] at this
    exact this

theorem dictAlong_cons {k : Key} {p : Path} {n : Node} (h : dictAlong (k :: p) n = true) :
    ∃ f cs, n = .comp f .dict cs ∧ keysNodup cs = true ∧
      ∀ c, alookup k cs = some c → dictAlong p c = true := by
  cases n with
  | leaf f lk => simp [dictAlong] at h
  | comp f ck cs =>
    cases ck <;> try (simp [dictAlong] at h; done)
    simp only [dictAlong, Bool.and_eq_true] at h
    refine ⟨f, cs, rfl, h.1, ?_⟩
    intro c hc
    have := h.2
    rw [hc] at this
    exact this

theorem divergesLive_cons {k : Key} {p : Path} {n : Node} (h : divergesLive (k :: p) n = true) :
    ∃ f cs, n = .comp f .dict cs ∧ eDel (.comp f .dict cs) = false ∧ keysNodup cs = true ∧
      ∀ c, alookup k cs = some c → divergesLive p c = true := by
  cases n with
  | leaf f lk => simp [divergesLive] at h
  | comp f ck cs =>
    cases ck <;> try (simp [divergesLive] at h; done)
    simp only [divergesLive, Bool.and_eq_true, Bool.not_eq_true'] at h
    refine ⟨f, cs, rfl, h.1.1, h.1.2, ?_⟩
    intro c hc
    have := h.2
    rw [hc] at this
    exact this

theorem getNode_cons_dict {f : Flags} {ck : CompKind} {cs : List (Key × Node)} {k : Key} {p : Path} {x : Node}
    (h : getNode (.comp f ck cs) (k :: p) = some x) : ∃ c, alookup k cs = some c ∧ getNode c p = some x := by
  simp only [getNode] at h
  cases hl : alookup k cs with
  | none => simp [hl] at h
  | some c => rw [hl] at h; exact ⟨c, rfl, h⟩

theorem isComp_of_getNode_cons {c : Node} {k : Key} {p : Path} {x : Node} (h : getNode c (k :: p) = some x) :
    c.isComp = true := by
  cases c with
  | leaf _ _ => simp [getNode] at h
  | comp _ _ _ => rfl

/-- a path the tree does not mention holds no data -/
theorem at_none_of_diverges : ∀ (q : Path) (n : Node), divergesLive q n = true → (native n).at? q = none
  | [], _, h => by simp [divergesLive] at h
  | k :: q, n, h => by
    obtain ⟨f, cs, rfl, _, _, hc⟩ := divergesLive_cons h
    rw [at_native_dict]
    cases hl : alookup k cs with
    | none => rfl
    | some c => simp [at_none_of_diverges q c (hc c hl)]

/-! ### one iteration of the key loop on an existing entry, as data -/

/-- the iteration ends in `remove_child` -/
def stepRemovesB (c v nw : Node) (same : Bool) : Bool :=
  if c.isComp then !nw.truthy && !hasPrio nw.flags v.flags false && v.flags.del == some true
  else !same && !nw.truthy && nw.flags.del == some true

theorem stepAt_some_data {rec : Node → Node → Except Err (Node × Bool)} {sf : Flags} {exc : List Path}
    {k : Key} {c v : Node} {x? : Option Node} (h : stepAt rec sf exc k (some c) v = .ok x?) :
    ∃ nw same, rec c v = .ok (nw, same) ∧
      x?.map native = if stepRemovesB c v nw same then none else some (native nw) := by
  simp only [stepAt] at h
  cases hr : rec c v with
  | error e => simp [hr] at h
  | ok res =>
    obtain ⟨nw, same⟩ := res
    refine ⟨nw, same, rfl, ?_⟩
    simp only [hr] at h
    simp only [stepRemovesB]
    by_cases hc : c.isComp = true
    · simp only [hc, if_true] at h ⊢
      split at h
      · rename_i hrem
        injection h with h; subst h
        simp [hrem]
      · rename_i hrem
        have hrem' : (!nw.truthy && !hasPrio nw.flags v.flags false && v.flags.del == some true) = false := by
          simpa using hrem
        rw [hrem']
        split at h <;> (injection h with h; subst h; simp [native_adopt])
    · simp only [hc] at h ⊢
      cases same with
      | true =>
        simp only [if_true] at h
        injection h with h; subst h
        simp
      | false =>
        simp only [Bool.false_eq_true, if_false] at h
        cases hq : reqNewBelow nw with
        | some p => simp [hq] at h
        | none =>
          simp only [hq] at h
          split at h
          · rename_i hrem
            injection h with h; subst h
            simp [hrem]
          · rename_i hrem
            have hrem' : (!nw.truthy && nw.flags.del == some true) = false := by simpa using hrem
            injection h with h; subst h
            simp [hrem', native_adopt]

/-! ### the data at a path below plain non-deleting mappings -/

/-- PATH COMPOSITION: both trees have a node at `k :: p`, the newer tree consists of plain non-deleting
    mappings above it: the data a successful merge leaves at and below `k :: p` is the data ONE
    iteration of the key loop (of the mapping right above the two nodes) computes from them -/
theorem at_live_path : ∀ (p : Path) (k : Key) (fuel : Nat) (s o r : Node) (b : Bool) (e d : Node),
    dictAlong (k :: p) s = true → liveAlong (k :: p) o = true → mergeF fuel s o = .ok (r, b) →
    getNode s (k :: p) = some e → getNode o (k :: p) = some d →
    ∃ fuel' sf kl x?, stepAt (mergeF fuel') sf [] kl (some e) d = .ok x? ∧
      ∀ q, (native r).at? (k :: p ++ q) = (x?.map native).bind (Plain.at? q) := by
  intro p
  induction p with
  | nil =>
    intro k fuel s o r b e d hs ho h hse hod
    obtain ⟨sf, scs, rfl, hns, _⟩ := dictAlong_cons hs
    obtain ⟨of, ocs, rfl, hlive, hno, _⟩ := liveAlong_cons ho
    cases fuel with
    | zero => simp [mergeF] at h
    | succ fuel =>
      simp only [mergeF] at h
      obtain ⟨scs', hr, hpt⟩ := compMerge_live_children (mergeF fuel) sf of scs ocs hlive hns hno r b h
      obtain ⟨e', hle, hge⟩ := getNode_cons_dict hse
      obtain ⟨d', hld, hgd⟩ := getNode_cons_dict hod
      simp only [getNode, Option.some.injEq] at hge hgd
      subst hge; subst hgd
      have hk := hpt k
      rw [hld] at hk
      simp only [hle] at hk
      refine ⟨fuel, sf, k, alookup k scs', hk, ?_⟩
      intro q
      rw [hr]
      exact at_propagate_dict _ _ _ _
  | cons k' p ih =>
    intro k fuel s o r b e d hs ho h hse hod
    obtain ⟨sf, scs, rfl, hns, hsc⟩ := dictAlong_cons hs
    obtain ⟨of, ocs, rfl, hlive, hno, hoc⟩ := liveAlong_cons ho
    cases fuel with
    | zero => simp [mergeF] at h
    | succ fuel =>
      simp only [mergeF] at h
      obtain ⟨scs', hr, hpt⟩ := compMerge_live_children (mergeF fuel) sf of scs ocs hlive hns hno r b h
      obtain ⟨c, hlc, hgc⟩ := getNode_cons_dict hse
      obtain ⟨v, hlv, hgv⟩ := getNode_cons_dict hod
      have hk := hpt k
      rw [hlv] at hk
      simp only [hlc] at hk
      obtain ⟨nw, same, hm, hdata⟩ := stepAt_some_data hk
      have hcomp : c.isComp = true := isComp_of_getNode_cons hgc
      obtain ⟨vf, vcs, rfl, hvlive, _, _⟩ := liveAlong_cons (hoc v hlv)
      have hdel := del_ne_of_live hvlive
      have hnr : stepRemovesB c (.comp vf .dict vcs) nw same = false := by
        simp only [stepRemovesB, hcomp, if_true, hdel, Bool.and_false]
      rw [hnr] at hdata
      simp only [Bool.false_eq_true, if_false] at hdata
      obtain ⟨fuel', sf', kl, x?, hx, hq⟩ :=
        ih k' fuel c (.comp vf .dict vcs) nw same e d (hsc c hlc) (hoc _ hlv) hm hgc hgv
      refine ⟨fuel', sf', kl, x?, hx, ?_⟩
      intro q
      rw [hr]
      have : k :: (k' :: p) ++ q = k :: (k' :: p ++ q) := rfl
      rw [this, at_propagate_dict, hdata]
      exact hq q

/-- FRAME: a path the newer tree does not mention (it leaves the newer tree below a plain non-deleting
    mapping) keeps the data it had -/
theorem frame_diverges : ∀ (q : Path) (fuel : Nat) (s o r : Node) (b : Bool),
    dictAlong q s = true → divergesLive q o = true → mergeF fuel s o = .ok (r, b) →
    (native r).at? q = (native s).at? q
  | [], _, _, _, _, _, _, ho, _ => by simp [divergesLive] at ho
  | k :: q, fuel, s, o, r, b, hs, ho, h => by
    obtain ⟨sf, scs, rfl, hns, hsc⟩ := dictAlong_cons hs
    obtain ⟨of, ocs, rfl, hlive, hno, hoc⟩ := divergesLive_cons ho
    cases fuel with
    | zero => simp [mergeF] at h
    | succ fuel =>
      simp only [mergeF] at h
      obtain ⟨scs', hr, hpt⟩ := compMerge_live_children (mergeF fuel) sf of scs ocs hlive hns hno r b h
      have hk := hpt k
      rw [hr, at_propagate_dict, at_native_dict]
      cases hlv : alookup k ocs with
      | none =>
        rw [hlv] at hk
        simp only at hk
        rw [hk]
      | some v =>
        rw [hlv] at hk
        simp only at hk
        have hvd := hoc v hlv
        cases hlc : alookup k scs with
        | none =>
          rw [hlc] at hk
          simp only [stepAt, excBelow_nil] at hk
          cases hq : reqNew [] [] v with
          | some x => simp [hq] at hk
          | none =>
            simp only [hq, Except.ok.injEq] at hk
            rw [← hk]
            simp [native_adopt, at_none_of_diverges q v hvd]
        | some c =>
          rw [hlc] at hk
          obtain ⟨nw, same, hm, hdata⟩ := stepAt_some_data hk
          cases q with
          | nil => simp [divergesLive] at hvd
          | cons k1 q1 =>
            obtain ⟨vf, vcs, rfl, hvlive, _, _⟩ := divergesLive_cons hvd
            obtain ⟨cf, ccs, rfl, _, _⟩ := dictAlong_cons (hsc c hlc)
            have hdel := del_ne_of_live hvlive
            have hnr : stepRemovesB (.comp cf .dict ccs) (.comp vf .dict vcs) nw same = false := by
              simp only [stepRemovesB, Node.isComp, if_true, hdel, Bool.and_false]
            rw [hnr] at hdata
            simp only [Bool.false_eq_true, if_false] at hdata
            rw [hdata]
            simp only [Option.map_some, Option.bind_some]
            exact frame_diverges (k1 :: q1) fuel _ _ nw same (hsc _ hlc) hvd hm

/-! ### a deleting node that meets nothing protected -/

/-- LOCAL EXACTNESS: `e` a scalar, a plain mapping or a plain list, `d` deleting and not outranked,
    nothing of `e` protected: a successful merge returns `d` (flags `_replace_other`), a new object -/
theorem del_exact_local (fuel : Nat) (e d nw : Node) (same : Bool)
    (hk : plainKind e = true) (hdel : eDel d = true) (hp : hasPrio d.flags e.flags true = true)
    (hnp : noneProtected d e = true) (h : mergeF fuel e d = .ok (nw, same)) :
    native nw = native d ∧ nw.truthy = d.truthy ∧ ePrio nw.flags = ePrio d.flags ∧
      nw.flags.del = d.flags.del ∧ same = false := by
  cases fuel with
  | zero => simp [mergeF] at h
  | succ fuel =>
  have hflip := hasPrio_flip hp
  -- the leaf rule with `d` winning
  have leafWin : ∀ nw same, Except.ok (leafRule e d) = (Except.ok (nw, same) : Except Err (Node × Bool)) →
      native nw = native d ∧ nw.truthy = d.truthy ∧ ePrio nw.flags = ePrio d.flags ∧
        nw.flags.del = d.flags.del ∧ same = false := by
    intro nw same h
    simp only [leafRule, hflip, Bool.false_eq_true, if_false, Except.ok.injEq, Prod.mk.injEq] at h
    obtain ⟨rfl, rfl⟩ := h
    refine ⟨by rw [nativeOf_propagate, native_setFlags], by rw [truthy_propagate, truthy_setFlags], ?_, ?_, rfl⟩
    · rw [c04_flags_propagate, c04_flags_setFlags]; rfl
    · rw [c04_flags_propagate, c04_flags_setFlags]; rfl
  cases e with
  | leaf ef elk =>
    simp only [mergeF] at h
    exact leafWin nw same h
  | comp ef ek ecs =>
    -- the composed case: the early exit
    have compWin : ∀ (rec : Node → Node → Except Err (Node × Bool)) (ek : CompKind),
        (ek = .dict ∨ ek = .list) → wfKeys (.comp ef ek ecs) = true →
        noneKeptList (maybeKeep d) [] ecs = true →
        hasPrio d.flags ef true = true → hasPrio ef d.flags false = false →
        (∀ nw same, Except.ok (leafRule (.comp ef ek ecs) d) = (Except.ok (nw, same) : Except Err (Node × Bool)) →
          native nw = native d ∧ nw.truthy = d.truthy ∧ ePrio nw.flags = ePrio d.flags ∧
            nw.flags.del = d.flags.del ∧ same = false) →
        compMerge rec ef ek ecs d = .ok (nw, same) →
        native nw = native d ∧ nw.truthy = d.truthy ∧ ePrio nw.flags = ePrio d.flags ∧
          nw.flags.del = d.flags.del ∧ same = false := by
      intro rec ek hek hwf hnone hp hflip leafWin h
      cases d with
      | leaf df dlk =>
        simp only [compMerge] at h
        exact leafWin nw same h
      | comp df dk dcs =>
        rw [c04_compMerge_del_emptied rec hdel hp (c04_filterNode_noneKept_comp _ [] hwf hnone)] at h
        split at h
        · cases h
        · rw [c04_maybePromote_emptied_plain _ _ _ _ _ hek] at h
          simp only [Except.ok.injEq, Prod.mk.injEq] at h
          obtain ⟨rfl, rfl⟩ := h
          refine ⟨?_, ?_, ?_, ?_, rfl⟩
          · rw [nativeOf_propagate]; exact native_comp_flags _ _ _ _
          · rw [truthy_propagate]; rfl
          · rw [c04_flags_propagate]; rfl
          · rw [c04_flags_propagate]; rfl
    cases ek <;> try (simp [plainKind] at hk; done)
    · -- mapping
      simp only [mergeF] at h
      have hnp' : wfKeys (.comp ef .dict ecs) = true ∧ noneKeptList (maybeKeep d) [] ecs = true := by
        simpa [noneProtected] using hnp
      exact compWin _ .dict (.inl rfl) hnp'.1 hnp'.2 hp hflip leafWin h
    · -- list
      simp only [mergeF] at h
      have hnp' : (wfKeys (.comp ef .list ecs) = true ∧ noneKeptList (maybeKeep d) [] ecs = true) ∧
          allKept (keepIfExists (.comp ef .list ecs)) [] d = true := by
        simpa [noneProtected] using hnp
      cases d with
      | leaf df dlk =>
        simp only [listMerge] at h
        exact compWin _ .list (.inr rfl) hnp'.1.1 hnp'.1.2 hp hflip leafWin h
      | comp df dk dcs =>
        simp only [listMerge, hdel, Bool.not_true, Bool.and_false, Bool.false_and, Bool.false_eq_true,
          if_false, c04_filterNode_allKept _ [] _ hnp'.2] at h
        exact compWin _ .list (.inr rfl) hnp'.1.1 hnp'.1.2 hp hflip leafWin h

/-- a separating priority bound discharges `noneProtected` and the priority hypothesis -/
theorem noneProtected_of_prio {b : Int} {d e : Node} (hk : plainKind e = true)
    (h : prioSeparated b d e = true) : noneProtected d e = true ∧ hasPrio d.flags e.flags true = true := by
  have h' : (prioLe b e = true ∧ prioGe b d = true) ∧ wfKeys e = true := by
    simpa [prioSeparated] using h
  obtain ⟨⟨hle, hge⟩, hwf⟩ := h'
  have h1 := c04_prioLe_flags hle
  have h2 := c04_prioGe_flags hge
  refine ⟨?_, c04_hasPrio_true_of_ge (by omega)⟩
  cases e with
  | leaf _ _ => rfl
  | comp ef ek ecs =>
    have hle' : ePrio ef ≤ b ∧ prioLeList b ecs = true := by simpa [prioLe] using hle
    have hnone := c04_noneKeptList_of_prio hge [] ecs hle'.2
    cases ek <;> try (simp [plainKind] at hk; done)
    · simp [noneProtected, hwf, hnone]
    · have hall : allKept (keepIfExists (.comp ef .list ecs)) [] d = true := c04_allKept_of_prio hle [] _ hge
      simp [noneProtected, hwf, hnone, hall]

/-- EXACTNESS AT A PATH -/
theorem del_exact_at (p : Path) (k : Key) (fuel : Nat) (s o r : Node) (b : Bool) (e d : Node)
    (hs : dictAlong (k :: p) s = true) (ho : liveAlong (k :: p) o = true)
    (h : mergeF fuel s o = .ok (r, b))
    (hse : getNode s (k :: p) = some e) (hod : getNode o (k :: p) = some d)
    (hk : plainKind e = true) (hdel : eDel d = true) (hp : hasPrio d.flags e.flags true = true)
    (hnp : noneProtected d e = true) :
    ∀ q, (native r).at? (k :: p ++ q) =
      if removedBy d then none else (native d).at? q := by
  obtain ⟨fuel', sf, kl, x?, hx, hq⟩ := at_live_path p k fuel s o r b e d hs ho h hse hod
  obtain ⟨nw, same, hm, hdata⟩ := stepAt_some_data hx
  obtain ⟨h1, h2, h3, h4, h5⟩ := del_exact_local fuel' e d nw same hk hdel hp hnp hm
  have hrem : stepRemovesB e d nw same = removedBy d := by
    simp only [stepRemovesB, removedBy, h2, h4, h5, hasPrio_false_of_eq h3]
    cases e.isComp <;> simp
  intro q
  rw [hq q, hdata, hrem, h1]
  cases removedBy d <;> simp

end AY.C04P
