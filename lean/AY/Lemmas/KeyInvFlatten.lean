/-
  AY.Lemmas.KeyInvFlatten — `Builder.flatten` (pre-merge operators + the fold of merges) preserves
  the key invariant `KI.Keyed` (= `WellKeyed`).  Mirrors AY.Lemmas.C19Flatten.
-/
import AY.Lemmas.KeyInvMerge
import AY.Model.Build
namespace AY
namespace KI

/-! ### lookups and in-place updates -/

theorem getNode_keyed : ∀ (p : Path) (root n : Node), Keyed root = true → getNode root p = some n → Keyed n = true
  | [], root, n, h, hg => by simp only [getNode, Option.some.injEq] at hg; subst hg; exact h
  | key :: rest, .leaf f k, n, _, hg => by simp [getNode] at hg
  | key :: rest, .comp f k cs, n, h, hg => by
    rw [keyed_comp] at h
    simp only [getNode] at hg
    split at hg
    · cases hg
    · rename_i c hl
      exact getNode_keyed rest c n (keyed_of_lookup h.2 hl) hg

theorem setNodeAt_keyed : ∀ (p : Path) (root v : Node), Keyed root = true → Keyed v = true →
    Keyed (setNodeAt root p v) = true
  | [], root, v, _, hv => by simpa [setNodeAt] using hv
  | key :: rest, .leaf f k, v, h, _ => by simpa [setNodeAt] using h
  | key :: rest, .comp f k cs, v, h, hv => by
    simp only [setNodeAt]
    split
    · exact h
    · rename_i c hl
      rw [keyed_comp] at h ⊢
      exact CS_aset_existing h hl (setNodeAt_keyed rest c v (keyed_of_lookup h.2 hl) hv)

theorem removeNode_keyed : ∀ (p : Path) (root d root' : Node), Keyed root = true →
    removeNode root p = some (d, root') → Keyed d = true ∧ Keyed root' = true
  | [], root, d, root', _, hr => by simp [removeNode] at hr
  | _ :: _, .leaf f k, d, root', _, hr => by simp [removeNode] at hr
  | [key], .comp f k cs, d, root', h, hr => by
    rw [keyed_comp] at h
    simp only [removeNode] at hr
    split at hr
    · cases hr
    · rename_i c hl
      split at hr
      · cases hr
      · rename_i cs' hrm
        simp only [Option.some.injEq, Prod.mk.injEq] at hr
        obtain ⟨rfl, rfl⟩ := hr
        exact ⟨keyed_of_lookup h.2 hl, (keyed_comp _ _ _).2 (removeChild_CS h hrm)⟩
  | key :: k2 :: rest, .comp f k cs, d, root', h, hr => by
    rw [keyed_comp] at h
    simp only [removeNode] at hr
    split at hr
    · cases hr
    · rename_i c hl
      split at hr
      · cases hr
      · rename_i d' c' hrec
        simp only [Option.some.injEq, Prod.mk.injEq] at hr
        obtain ⟨rfl, rfl⟩ := hr
        have ih := removeNode_keyed (k2 :: rest) c d' c' (keyed_of_lookup h.2 hl) hrec
        exact ⟨ih.1, (keyed_comp _ _ _).2 (CS_aset_existing h hl ih.2)⟩

/-! ### nodes created while flattening -/

theorem KeyedL_map_snd {cs : List (Key × Node)} (h : KeyedL cs = true) :
    ∀ v, v ∈ cs.map (·.2) → Keyed v = true := by
  intro v hv
  obtain ⟨x, hx, rfl⟩ := List.mem_map.1 hv
  exact (KeyedL_iff cs).1 h x hx

theorem newPlainList_keyed (f : Flags) {vals : List Node} (h : ∀ v, v ∈ vals → Keyed v = true) :
    Keyed (newPlainList f vals) = true := by
  simp only [newPlainList, keys_propagate]
  rw [keyed_comp]
  apply CS_renum
  intro x hx
  obtain ⟨y, hy, e⟩ := List.mem_map.1 hx
  rw [← e, keys_inheritInto]; exact h y hy

/-- `extend` on a list-family node appends at `len`, `len+1`, … -/
theorem extendList_CS (f : Flags) {k : CompKind} (hk : k.isListFam = true) : ∀ (vals : List Node) (cs : List (Key × Node)),
    (∀ v, v ∈ vals → Keyed v = true) → CS k cs → CS k (extendList f k cs vals)
  | [], cs, _, h => by simpa [extendList] using h
  | v :: rest, cs, hv, h => by
    simp only [extendList]
    refine extendList_CS f hk rest _ (fun w hw => hv w (List.mem_cons_of_mem _ hw)) ⟨?_, ?_⟩
    · have hd : k.isDictFam = false := by simpa [CompKind.isListFam] using hk
      have h1 := h.1
      simp only [topOK, hd] at h1 ⊢
      have := numK_snoc (v := adopt f k v) h1
      simpa using this
    · refine KeyedL_append h.2 ?_
      rw [KeyedL_cons, keys_adopt]
      exact ⟨hv v (by simp), rfl⟩

theorem applyResets_CS (pf : Flags) (pk : CompKind) : ∀ (resets cs cs' : List (Key × Node)),
    KeyedL resets = true → CS pk cs → applyResets pf pk resets cs = .ok cs' → CS pk cs'
  | [], cs, cs', _, hcs, h => by simp only [applyResets] at h; cases h; exact hcs
  | (k, v) :: rest, cs, cs', hr, hcs, h => by
    rw [KeyedL_cons] at hr
    simp only [applyResets] at h
    split at h
    · cases h
    · rename_i cs1 hs
      exact applyResets_CS pf pk rest cs1 cs' hr.2 (setChild_CS hcs hr.1 hs) h

/-! ### the pre-merge pass and the fold -/

/-- the accumulated tree, when there is one, is well-keyed -/
def IntoKeyed (into : Option Node) : Prop := ∀ root, into = some root → Keyed root = true

theorem intoKeyed_none : IntoKeyed none := fun _ e => by cases e
theorem intoKeyed_some {root : Node} (h : Keyed root = true) : IntoKeyed (some root) :=
  fun _ e => by cases e; exact h

/-- what the fold needs from a premerge: the replacement node and the accumulated tree are well-keyed -/
def PMKeyed (pm : Node → Path → Option Node → PM) : Prop :=
  ∀ n path into r same into', Keyed n = true → IntoKeyed into → pm n path into = .ok (r, same, into') →
    Keyed r = true ∧ IntoKeyed into'

/-- the loop of `map_nodes`: the names stay, the values stay well-keyed -/
theorem premergeChildren_keyed {rec : Node → Path → Option Node → PM} (hrec : PMKeyed rec)
    (path : Path) : ∀ (cs : List (Key × Node)) (into : Option Node) (cs' resets : List (Key × Node))
    (into' : Option Node), KeyedL cs = true → IntoKeyed into →
    premergeChildren rec path cs into = .ok (cs', resets, into') →
    keysOf cs' = keysOf cs ∧ KeyedL cs' = true ∧ KeyedL resets = true ∧ IntoKeyed into'
  | [], into, cs', resets, into', _, hi, h => by
    simp only [premergeChildren, Except.ok.injEq, Prod.mk.injEq] at h
    obtain ⟨rfl, rfl, rfl⟩ := h
    exact ⟨rfl, rfl, rfl, hi⟩
  | (name, c) :: rest, into, cs', resets, into', hcs, hi, h => by
    rw [KeyedL_cons] at hcs
    simp only [premergeChildren] at h
    split at h
    · cases h
    · rename_i c' same into1 hr
      have h1 := hrec _ _ _ _ _ _ hcs.1 hi hr
      split at h
      · cases h
      · rename_i cs1 resets1 into2 hrest
        have ih := premergeChildren_keyed hrec path rest into1 cs1 resets1 into2 hcs.2 h1.2 hrest
        split at h
        · simp only [Except.ok.injEq, Prod.mk.injEq] at h
          obtain ⟨rfl, rfl, rfl⟩ := h
          refine ⟨by simp [ih.1], ?_, ih.2.2.1, ih.2.2.2⟩
          rw [KeyedL_cons]; exact ⟨h1.1, ih.2.1⟩
        · simp only [Except.ok.injEq, Prod.mk.injEq] at h
          obtain ⟨rfl, rfl, rfl⟩ := h
          refine ⟨by simp [ih.1], ?_, ?_, ih.2.2.2⟩
          · rw [KeyedL_cons]; exact ⟨hcs.1, ih.2.1⟩
          · rw [KeyedL_cons]; exact ⟨h1.1, ih.2.2.1⟩

theorem flattenLoop_keyed {pm : Node → Path → Option Node → PM} (hpm : PMKeyed pm) :
    ∀ (stages : List Node) (root r : Node), Keyed root = true →
    (∀ s, s ∈ stages → Keyed s = true) → flattenLoop pm root stages = .ok r → Keyed r = true
  | [], root, r, hroot, _, h => by simp only [flattenLoop] at h; cases h; exact hroot
  | st :: rest, root, r, hroot, hs, h => by
    simp only [flattenLoop] at h
    split at h
    · cases h
    · rename_i st' same into' hp
      have h1 := hpm _ _ _ _ _ _ (hs st (by simp)) (intoKeyed_some hroot) hp
      split at h
      · cases h
      · rename_i root'
        split at h
        · cases h
        · rename_i m hm
          exact flattenLoop_keyed hpm rest m r (merge_keyed (h1.2 root' rfl) h1.1 hm)
            (fun s hs' => hs s (List.mem_cons_of_mem _ hs')) h

theorem flattenWith_keyed {pm : Node → Path → Option Node → PM} (hpm : PMKeyed pm) (stages : List Node) (r : Node)
    (hs : ∀ s, s ∈ stages → Keyed s = true) (h : flattenWith pm stages = .ok r) : Keyed r = true := by
  cases stages with
  | nil => simp [flattenWith] at h
  | cons s0 rest =>
    simp only [flattenWith] at h
    split at h
    · cases h
    · split at h
      · cases h
      · rename_i r0 same into' hp
        have h1 := hpm _ _ _ _ _ _ (hs s0 (by simp)) intoKeyed_none hp
        split at h
        · cases h
        · exact flattenLoop_keyed hpm rest r0 r h1.1 (fun s hs' => hs s (List.mem_cons_of_mem _ hs')) h

theorem premergeF_comp_generic {fuel : Nat} (ih : PMKeyed (premergeF fuel)) {f : Flags} {k : CompKind}
    {cs cs' resets cs'' : List (Key × Node)} {path : Path} {into into1 : Option Node}
    (hn : Keyed (.comp f k cs) = true) (hi : IntoKeyed into)
    (hc : premergeChildren (premergeF fuel) path cs into = .ok (cs', resets, into1))
    (ha : applyResets f k resets cs' = .ok cs'') :
    Keyed (.comp f k cs'') = true ∧ IntoKeyed into1 := by
  rw [keyed_comp] at hn ⊢
  have h1 := premergeChildren_keyed ih path cs into cs' resets into1 hn.2 hi hc
  exact ⟨applyResets_CS f k resets cs' cs'' h1.2.2.1 ⟨by rw [h1.1]; exact hn.1, h1.2.1⟩ ha, h1.2.2.2⟩

theorem premergeF_keyed : ∀ (fuel : Nat), PMKeyed (premergeF fuel)
  | 0 => fun n path into r same into' _ _ h => by simp [premergeF] at h
  | fuel + 1 => fun n path into r same into' hn hi h => by
    have ih := premergeF_keyed fuel
    cases n with
    | leaf f lk =>
      cases lk with
      | prev p =>
        simp only [premergeF] at h
        split at h
        · rename_i root tp _
          split at h
          · cases h
          · rename_i d root' hr
            simp only [Except.ok.injEq, Prod.mk.injEq] at h
            obtain ⟨rfl, rfl, rfl⟩ := h
            have := removeNode_keyed tp root d root' (hi root rfl) hr
            exact ⟨this.1, intoKeyed_some this.2⟩
        · cases h
      | clear =>
        simp only [premergeF] at h
        split at h
        · cases h
        · rename_i root
          split at h
          · rename_i cf ck ccs hg
            simp only [Except.ok.injEq, Prod.mk.injEq] at h
            obtain ⟨rfl, rfl, rfl⟩ := h
            have hv : Keyed (.comp cf ck []) = true := (keyed_comp _ _ _).2 (CS_nil _)
            exact ⟨hv, intoKeyed_some (setNodeAt_keyed path root _ (hi root rfl) hv)⟩
          · cases h
      | _ =>
        simp only [premergeF, Except.ok.injEq, Prod.mk.injEq] at h
        obtain ⟨rfl, rfl, rfl⟩ := h
        exact ⟨rfl, hi⟩
    | comp f k cs =>
      have hvals : ∀ v, v ∈ cs.map (·.2) → Keyed v = true :=
        KeyedL_map_snd ((keyed_comp _ _ _).1 hn).2
      cases k with
      | append =>
        simp only [premergeF] at h
        split at h
        · simp only [Except.ok.injEq, Prod.mk.injEq] at h
          obtain ⟨rfl, rfl, rfl⟩ := h
          exact ⟨newPlainList_keyed _ hvals, intoKeyed_none⟩
        · rename_i root
          split at h
          · cases h
          · rename_i tf tk tcs root' hr
            have hrm := removeNode_keyed path root _ root' (hi root rfl) hr
            split at h
            · rename_i hlf
              simp only [Except.ok.injEq, Prod.mk.injEq] at h
              obtain ⟨rfl, rfl, rfl⟩ := h
              refine ⟨?_, intoKeyed_some hrm.2⟩
              have ht := hrm.1
              rw [keyed_comp] at ht ⊢
              exact extendList_CS tf hlf _ tcs hvals ht
            · cases h
          · cases h
      | extend =>
        simp only [premergeF] at h
        split at h
        · simp only [Except.ok.injEq, Prod.mk.injEq] at h
          obtain ⟨rfl, rfl, rfl⟩ := h
          exact ⟨newPlainList_keyed _ hvals, intoKeyed_none⟩
        · rename_i root
          split at h
          · rename_i tf tk tcs hg
            have ht := getNode_keyed path root _ (hi root rfl) hg
            split at h
            · rename_i hlf
              split at h
              · cases h
              · rename_i d root' hr
                have hrm := removeNode_keyed path root d root' (hi root rfl) hr
                simp only [Except.ok.injEq, Prod.mk.injEq] at h
                obtain ⟨rfl, rfl, rfl⟩ := h
                refine ⟨?_, intoKeyed_some hrm.2⟩
                rw [keyed_comp] at ht ⊢
                exact extendList_CS tf hlf _ tcs hvals ht
            · simp only [Except.ok.injEq, Prod.mk.injEq] at h
              obtain ⟨rfl, rfl, rfl⟩ := h
              exact ⟨newPlainList_keyed _ hvals, hi⟩
          · simp only [Except.ok.injEq, Prod.mk.injEq] at h
            obtain ⟨rfl, rfl, rfl⟩ := h
            exact ⟨newPlainList_keyed _ hvals, hi⟩
      | stream =>
        simp only [premergeF] at h
        split at h
        · cases h
        · cases h
        · rename_i r0 hf
          have hr0 := flattenWith_keyed ih _ r0 hvals hf
          split at h
          · cases h
          · rename_i r' same' into1 hp
            simp only [Except.ok.injEq, Prod.mk.injEq] at h
            obtain ⟨rfl, rfl, rfl⟩ := h
            exact ih _ _ _ _ _ _ hr0 hi hp
      | _ =>
        simp only [premergeF] at h
        split at h
        · cases h
        · rename_i cs' resets into1 hc
          split at h
          · cases h
          · rename_i cs'' ha
            simp only [Except.ok.injEq, Prod.mk.injEq] at h
            obtain ⟨rfl, rfl, rfl⟩ := h
            exact premergeF_comp_generic ih hn hi hc ha

theorem flatten_keyed (stages : List Node) (r : Node) (hs : ∀ s, s ∈ stages → Keyed s = true)
    (h : flatten stages = .ok r) : Keyed r = true :=
  flattenWith_keyed (premergeF_keyed _) stages r hs h

end KI
end AY
