/-
  AY.Lemmas.C01Construct — merge-control tags never change the data of a single document:
  both construction modes of the loader (`constructDeep` inside a tagged node, `constructTD` for
  untagged regions) return a tree whose `native` data is the tag-erased document.
-/
import AY.Lemmas.C02Construct
import AY.Lemmas.DataTree
namespace AY

/-- untagged, or one of the merge-control tags (`!force !weak !del !merge !new !notnew !unsafe
    !metadata …`, which only contribute constructor keywords) -/
def tagOK (t : TagKind) : Bool := t == .none || t == .plain

mutual
/-- every tag is absent or a merge-control tag (any keywords, any metadata, any scalar form),
    no duplicate keys among siblings -/
def rawTagged : Raw → Bool
  | .scalar t _ _ => tagOK t
  | .seq t _ items => tagOK t && rawTaggedSeq items
  | .map t _ items => tagOK t && keysNodup items && rawTaggedMap items
def rawTaggedSeq : List Raw → Bool
  | [] => true
  | r :: rest => rawTagged r && rawTaggedSeq rest
def rawTaggedMap : List (Key × Raw) → Bool
  | [] => true
  | (_, r) :: rest => rawTagged r && rawTaggedMap rest
end

/-- a mapping document with merge-control tags only -/
def rawTaggedDoc : Raw → Bool
  | .map t kw items => rawTagged (.map t kw items)
  | _ => false

theorem tagOK_iff (t : TagKind) : tagOK t = true ↔ t = .none ∨ t = .plain := by
  simp [tagOK]

theorem nativeVals_initChildren (f : Flags) (k : CompKind) (p : Option Int) :
    ∀ cs : List (Key × Node), nativeVals (initChildren f k p cs) = nativeVals cs
  | [] => rfl
  | (key, c) :: rest => by
    have := nativeVals_initChildren f k p rest
    simp only [initChildren, List.map_cons, nativeVals, native_inheritInto] at this ⊢
    rw [this]

theorem nativeList_initChildren (f : Flags) (k : CompKind) (p : Option Int) :
    ∀ cs : List (Key × Node), nativeList (initChildren f k p cs) = nativeList cs
  | [] => rfl
  | (key, c) :: rest => by
    have := nativeList_initChildren f k p rest
    simp only [initChildren, List.map_cons, nativeList, native_inheritInto] at this ⊢
    rw [this]

theorem dataTList_initChildren (f : Flags) (k : CompKind) (p : Option Int) :
    ∀ cs : List (Key × Node), dataTList cs = true →
      dataTList (initChildren f k p cs) = true ∧ akeys (initChildren f k p cs) = akeys cs
  | [], _ => ⟨rfl, rfl⟩
  | (key, c) :: rest, h => by
    have h' : dataT c = true ∧ dataTList rest = true := by simpa [dataTList] using h
    have ih := dataTList_initChildren f k p rest h'.2
    simp only [initChildren, List.map_cons, dataTList, akeys, dataT_inheritInto p _ h'.1, Bool.true_and] at ih ⊢
    exact ⟨ih.1, by rw [ih.2]⟩

theorem dataT_adoptBy (parent : Option (Flags × CompKind)) {n : Node} (h : dataT n = true) :
    dataT (adoptBy parent n) = true := by
  cases parent with
  | none => exact h
  | some p => obtain ⟨pf, pk⟩ := p; exact dataT_adopt pf pk h

theorem native_adoptBy (parent : Option (Flags × CompKind)) (n : Node) :
    native (adoptBy parent n) = native n := by
  cases parent with
  | none => rfl
  | some p => obtain ⟨pf, pk⟩ := p; exact native_adopt pf pk n

theorem adoptBy_empty (parent : Option (Flags × CompKind)) (f : Flags) (k : CompKind) :
    ∃ f', adoptBy parent (.comp f k []) = .comp f' k [] := by
  cases parent with
  | none => exact ⟨f, rfl⟩
  | some p =>
    obtain ⟨pf, pk⟩ := p
    cases h : childKw pf pk with
    | none => exact ⟨f, by simp [adoptBy, adopt, inheritInto, h, propagate_empty]⟩
    | some kw => exact ⟨_, by simp only [adoptBy]; exact adopt_empty h f k⟩

theorem wrapScalar_tag (env : Env) {t : TagKind} (kw : CtorKw) (v : RVal) (ht : tagOK t = true) :
    ∃ n, wrapScalar env t kw v = .ok n ∧ native n = .scalar v.toScalar ∧ dataT n = true := by
  rcases (tagOK_iff t).1 ht with h | h <;> subst h
  · exact ⟨_, rfl, rfl, rfl⟩
  · cases v with
    | empty => exact ⟨_, rfl, rfl, rfl⟩
    | text s => exact ⟨_, rfl, rfl, rfl⟩
    | lit s => cases s <;> exact ⟨_, rfl, rfl, rfl⟩

theorem wrapSeq_tag (env : Env) {t : TagKind} (kw : CtorKw) (cs : List (Key × Node)) (ht : tagOK t = true)
    (hcs : dataTList cs = true) (hnd : keysNodup cs = true) :
    ∃ n, wrapSeq env t kw cs = .ok n ∧ native n = .list (nativeVals cs) ∧ dataT n = true := by
  rcases (tagOK_iff t).1 ht with h | h <;> subst h
  · have := dataTList_initChildren (bareFlags env) .list none cs hcs
    exact ⟨_, rfl, by simp [native, CompKind.isDictFam, nativeVals_initChildren],
      by simp [dataT, this.1, keysNodup_congr _ _ this.2, hnd]⟩
  · have := dataTList_initChildren (mkFlags env kw) .list kw.prio cs hcs
    exact ⟨_, rfl, by simp [native, CompKind.isDictFam, nativeVals_initChildren],
      by simp [dataT, this.1, keysNodup_congr _ _ this.2, hnd]⟩

theorem wrapMap_tag (env : Env) {t : TagKind} (kw : CtorKw) (cs : List (Key × Node)) (ht : tagOK t = true)
    (hcs : dataTList cs = true) (hnd : keysNodup cs = true) :
    ∃ n, wrapMap env t kw cs = .ok n ∧ native n = .dict (nativeList cs) ∧ dataT n = true := by
  rcases (tagOK_iff t).1 ht with h | h <;> subst h
  · have := dataTList_initChildren (bareFlags env) .dict none cs hcs
    exact ⟨_, rfl, by simp [native, CompKind.isDictFam, nativeList_initChildren],
      by simp [dataT, this.1, keysNodup_congr _ _ this.2, hnd]⟩
  · have := dataTList_initChildren (mkFlags env kw) .dict kw.prio cs hcs
    exact ⟨_, rfl, by simp [native, CompKind.isDictFam, nativeList_initChildren],
      by simp [dataT, this.1, keysNodup_congr _ _ this.2, hnd]⟩

/-! ### bottom-up construction -/

mutual
theorem constructDeep_tag (env : Env) : ∀ (r : Raw), rawTagged r = true →
    ∃ n, constructDeep env r = .ok n ∧ native n = plainOfRaw r ∧ dataT n = true
  | .scalar t kw v, h => by
    have ht : tagOK t = true := by simpa [rawTagged] using h
    simpa [constructDeep, plainOfRaw] using wrapScalar_tag env kw v ht
  | .seq t kw items, h => by
    have h' : tagOK t = true ∧ rawTaggedSeq items = true := by simpa [rawTagged] using h
    obtain ⟨cs, h1, h2, h3, h4⟩ := constructDeepList_tag env items 0 h'.2
    obtain ⟨n, g1, g2, g3⟩ := wrapSeq_tag env kw cs h'.1 h3 (listKeys_nodup 0 cs h4)
    refine ⟨n, ?_, by simp [g2, h2, plainOfRaw], g3⟩
    rcases (tagOK_iff t).1 h'.1 with ht | ht <;> subst ht <;> simp only [constructDeep, h1, g1]
  | .map t kw items, h => by
    have h' : (tagOK t = true ∧ keysNodup items = true) ∧ rawTaggedMap items = true := by
      simpa [rawTagged] using h
    obtain ⟨cs, h1, h2, h3, h4⟩ := constructDeepMap_tag env items h'.2
    obtain ⟨n, g1, g2, g3⟩ := wrapMap_tag env kw cs h'.1.1 h3 (by rw [keysNodup_congr _ _ h4]; exact h'.1.2)
    exact ⟨n, by simp only [constructDeep, h1, g1], by simp [g2, h2, plainOfRaw], g3⟩
theorem constructDeepList_tag (env : Env) : ∀ (items : List Raw) (i : Nat), rawTaggedSeq items = true →
    ∃ cs, constructDeepList env i items = .ok cs ∧ nativeVals cs = plainOfRawList items ∧
      dataTList cs = true ∧ listKeys i cs = true
  | [], _, _ => ⟨[], rfl, rfl, rfl, rfl⟩
  | r :: rest, i, h => by
    have h' : rawTagged r = true ∧ rawTaggedSeq rest = true := by simpa [rawTaggedSeq] using h
    obtain ⟨n, h1, h2, h3⟩ := constructDeep_tag env r h'.1
    obtain ⟨ns, g1, g2, g3, g4⟩ := constructDeepList_tag env rest (i + 1) h'.2
    exact ⟨(Key.int (i : Int), n) :: ns, by simp only [constructDeepList, h1, g1],
      by simp [nativeVals, plainOfRawList, h2, g2], by simp [dataTList, h3, g3], by simp [listKeys, g4]⟩
theorem constructDeepMap_tag (env : Env) : ∀ (items : List (Key × Raw)), rawTaggedMap items = true →
    ∃ cs, constructDeepMap env items = .ok cs ∧ nativeList cs = plainOfRawMap items ∧
      dataTList cs = true ∧ akeys cs = akeys items
  | [], _ => ⟨[], rfl, rfl, rfl, rfl⟩
  | (k, r) :: rest, h => by
    have h' : rawTagged r = true ∧ rawTaggedMap rest = true := by simpa [rawTaggedMap] using h
    obtain ⟨n, h1, h2, h3⟩ := constructDeep_tag env r h'.1
    obtain ⟨ns, g1, g2, g3, g4⟩ := constructDeepMap_tag env rest h'.2
    exact ⟨(k, n) :: ns, by simp only [constructDeepMap, h1, g1],
      by simp [nativeList, plainOfRawMap, h2, g2], by simp [dataTList, h3, g3], by simp [akeys, g4]⟩
end

/-! ### top-down construction -/

theorem dataTList_append : ∀ l₁ l₂ : List (Key × Node),
    dataTList (l₁ ++ l₂) = (dataTList l₁ && dataTList l₂)
  | [], _ => by simp [dataTList]
  | (k, v) :: rest, l₂ => by simp [dataTList, dataTList_append rest l₂, Bool.and_assoc]

mutual
theorem constructTD_tag (env : Env) : ∀ (r : Raw) (parent : Option (Flags × CompKind)),
    rawTagged r = true → ∃ n, constructTD env parent r = .ok n ∧ native n = plainOfRaw r ∧ dataT n = true
  | .scalar t kw v, parent, h => by
    have ht : tagOK t = true := by simpa [rawTagged] using h
    rcases (tagOK_iff t).1 ht with e | e <;> subst e
    · exact ⟨adoptBy parent (.leaf (bareFlags env) (.scalar v.toScalar)), by simp only [constructTD],
        by simp [native_adoptBy, native, plainOfRaw], dataT_adoptBy parent rfl⟩
    · obtain ⟨n, g1, g2, g3⟩ := wrapScalar_tag env kw v ht
      exact ⟨adoptBy parent n, by simp [constructTD, g1], by simp [native_adoptBy, g2, plainOfRaw],
        dataT_adoptBy parent g3⟩
  | .seq t kw items, parent, h => by
    have h' : tagOK t = true ∧ rawTaggedSeq items = true := by simpa [rawTagged] using h
    rcases (tagOK_iff t).1 h'.1 with e | e <;> subst e
    · obtain ⟨f', hf'⟩ := adoptBy_empty parent (bareFlags env) .list
      obtain ⟨ns, h1, h2, h3, h4⟩ := constructTDList_tag env items f' .list 0 h'.2
      exact ⟨.comp f' .list ns, by simp only [constructTD, hf', h1],
        by simp [native, CompKind.isDictFam, h2, plainOfRaw],
        by simp [dataT, h3, listKeys_nodup 0 ns h4]⟩
    · obtain ⟨n, g1, g2, g3⟩ := constructDeep_tag env (.seq .plain kw items) h
      exact ⟨adoptBy parent n, by simp [constructTD, g1], by simp [native_adoptBy, g2], dataT_adoptBy parent g3⟩
  | .map t kw items, parent, h => by
    have h' : (tagOK t = true ∧ keysNodup items = true) ∧ rawTaggedMap items = true := by
      simpa [rawTagged] using h
    rcases (tagOK_iff t).1 h'.1.1 with e | e <;> subst e
    · obtain ⟨f', hf'⟩ := adoptBy_empty parent (bareFlags env) .dict
      obtain ⟨ns, h1, h2, h3, h4⟩ := constructTDMap_tag env items f' .dict [] h'.2 h'.1.2 (fun _ _ => rfl)
      exact ⟨.comp f' .dict ns, by simp only [constructTD, hf', h1, List.nil_append],
        by simp [native, CompKind.isDictFam, h2, plainOfRaw],
        by simp [dataT, h3, keysNodup_congr _ _ h4, h'.1.2]⟩
    · obtain ⟨n, g1, g2, g3⟩ := constructDeep_tag env (.map .plain kw items) h
      exact ⟨adoptBy parent n, by simp [constructTD, g1], by simp [native_adoptBy, g2], dataT_adoptBy parent g3⟩
theorem constructTDList_tag (env : Env) : ∀ (items : List Raw) (pf : Flags) (pk : CompKind) (i : Nat),
    rawTaggedSeq items = true →
    ∃ ns, constructTDList env pf pk i items = .ok ns ∧ nativeVals ns = plainOfRawList items ∧
      dataTList ns = true ∧ listKeys i ns = true
  | [], _, _, _, _ => ⟨[], rfl, rfl, rfl, rfl⟩
  | r :: rest, pf, pk, i, h => by
    have h' : rawTagged r = true ∧ rawTaggedSeq rest = true := by simpa [rawTaggedSeq] using h
    obtain ⟨n, h1, h2, h3⟩ := constructTD_tag env r (some (pf, pk)) h'.1
    obtain ⟨ns, g1, g2, g3, g4⟩ := constructTDList_tag env rest pf pk (i + 1) h'.2
    exact ⟨(Key.int (i : Int), n) :: ns, by simp only [constructTDList, h1, g1],
      by simp [nativeVals, plainOfRawList, h2, g2], by simp [dataTList, h3, g3], by simp [listKeys, g4]⟩
theorem constructTDMap_tag (env : Env) : ∀ (items : List (Key × Raw)) (pf : Flags) (pk : CompKind)
    (acc : List (Key × Node)), rawTaggedMap items = true → keysNodup items = true →
    (∀ k, k ∈ akeys items → alookup k acc = none) →
    ∃ ns, constructTDMap env pf pk items acc = .ok (acc ++ ns) ∧ nativeList ns = plainOfRawMap items ∧
      dataTList ns = true ∧ akeys ns = akeys items
  | [], _, _, acc, _, _, _ => ⟨[], by simp [constructTDMap], rfl, rfl, rfl⟩
  | (k, r) :: rest, pf, pk, acc, h, hnd, hfresh => by
    have h' : rawTagged r = true ∧ rawTaggedMap rest = true := by simpa [rawTaggedMap] using h
    have hnd' : (akeys rest).contains k = false ∧ keysNodup rest = true := by
      simpa [keysNodup] using hnd
    obtain ⟨n, h1, h2, h3⟩ := constructTD_tag env r (some (pf, pk)) h'.1
    have hk : alookup k acc = none := hfresh k (by simp [akeys])
    have hfresh' : ∀ k', k' ∈ akeys rest → alookup k' (aset k n acc) = none := by
      intro k' hk'
      rw [aset_of_lookup_none k n acc hk]
      apply alookup_append_none
      · exact hfresh k' (by simp [akeys, hk'])
      · have : k ≠ k' := by
          intro e; subst e
          have := hnd'.1
          simp at this
          exact this hk'
        simp [alookup, this]
    obtain ⟨ns, g1, g2, g3, g4⟩ := constructTDMap_tag env rest pf pk (aset k n acc) h'.2 hnd'.2 hfresh'
    refine ⟨(k, n) :: ns, ?_, by simp [nativeList, plainOfRawMap, h2, g2], by simp [dataTList, h3, g3],
      by simp [akeys, g4]⟩
    simp only [constructTDMap, h1, g1]
    rw [aset_of_lookup_none k n acc hk]
    simp
end

end AY
