/-
  AY.Lemmas.OutcomeSound — soundness of the evaluator w.r.t. the strict denotation: a successful
  `evalNodeF` (any state reached in a build, any fuel, strict or not) returns the strict denotation of
  the node in the mode it was called in, and keeps the invariant `SInv`:

    * `TInv`  taint marks are exact: a memoised path is tainted iff it is `Dirty`,
    * `busy`  the root is under evaluation,
    * `SOK`   every memoised value is the (non-strict) strict-denotation of the node at that path.

  A memoised *untainted* value is then also the strict-mode denotation (`sden_clean_strict`), which is
  why a strict consumer may read it.
-/
import AY.Lemmas.OutcomeDirty
namespace AY

/-- every memoised value is the strict denotation (non-strict mode) of the node at that path -/
def SOK (root : Node) (w : World) (cache : List (Path × Val)) : Prop :=
  ∀ p v, plookup p cache = some v → ∃ n, getNode root p = some n ∧ ∃ f, sden root w f false n p = some v

structure SInv (root : Node) (w : World) (st : EvSt) : Prop where
  tinv : TInv root st
  /-- the root is under evaluation -/
  busy : [] ∈ st.inProgress
  ok : SOK root w st.cache

theorem SInv.wf {root : Node} {w : World} {st : EvSt} (h : SInv root w st) : WF st := h.tinv.wf

theorem SInv.root_fresh {root : Node} {w : World} {st : EvSt} (h : SInv root w st) :
    plookup [] st.cache = none := h.wf.prog [] h.busy

theorem SInv.seeTaint {root : Node} {w : World} {st : EvSt} (h : SInv root w st) :
    SInv root w (seeTaint st) := ⟨h.tinv.seeTaint, h.busy, h.ok⟩

/-- a memoised value read by a consumer in mode `rs` (refused when tainted and `rs`) is the strict
    denotation in that mode -/
theorem SInv.read {root : Node} {w : World} {st : EvSt} (h : SInv root w st)
    (huk : uniqueKeys root = true) {p : Path} {v : Val} {rs : Bool}
    (hv : plookup p st.cache = some v) (hnt : rs = true → p ∉ st.tainted) :
    ∃ n, getNode root p = some n ∧ ∃ f, sden root w f rs n p = some v := by
  obtain ⟨n, hgn, f, hf⟩ := h.ok p v hv
  refine ⟨n, hgn, f, ?_⟩
  cases rs with
  | false => exact hf
  | true =>
    have hnd : ¬ Dirty root p := fun hd => hnt rfl ((h.tinv.ex p (by rw [hv]; simp)).2 hd)
    exact sden_clean_strict root w huk f n p v hgn hnd hf

/-- what the lemmas below assume of the recursive evaluator -/
def RecS (root : Node) (w : World) (rec : Rec) : Prop :=
  ∀ rs m p s v s', Placed root m p → SInv root w s → rec rs m p s = .ok (v, s') →
    SInv root w s' ∧ (∃ f, sden root w f rs m p = some v) ∧ p ≠ []

theorem evalItems_sden {root : Node} {w : World} {rec : Rec} (hrec : RecS root w rec)
    {rs : Bool} {path : Path} :
    ∀ (cs : List (Key × Node)) (st : EvSt) (items : List (Key × Val)) (st' : EvSt),
    (∀ key c, (key, c) ∈ cs → Placed root c (path ++ [key])) → SInv root w st →
    evalItems rec rs path cs st = .ok (items, st') →
    SInv root w st' ∧ ∃ f, sdenItems (sden root w f) rs path cs = some items
  | [], st, items, st', _, hI, h => by
    simp [evalItems] at h
    obtain ⟨rfl, rfl⟩ := h
    exact ⟨hI, 0, rfl⟩
  | (k, c) :: rest, st, items, st', hpl, hI, h => by
    unfold evalItems at h
    split at h
    · cases h
    · rename_i v st1 h1
      split at h
      · cases h
      · rename_i vs st2 h2
        cases h
        obtain ⟨hI1, ⟨f1, hf1⟩, _⟩ := hrec _ _ _ _ _ _ (hpl k c List.mem_cons_self) hI h1
        obtain ⟨hI2, f2, hf2⟩ := evalItems_sden hrec rest st1 vs st'
          (fun key c' hm => hpl key c' (List.mem_cons_of_mem _ hm)) hI1 h2
        refine ⟨hI2, max f1 f2, ?_⟩
        unfold sdenItems
        rw [sden_mono root w (Nat.le_max_left f1 f2) _ _ _ _ hf1,
          sdenItems_mono (sden_mono root w (Nat.le_max_right f1 f2)) rs path rest vs hf2]

/-- the denotation of a reference whose first target has a denotation, unfolded one step -/
theorem sdenXref_of_target {root : Node} {w : World} {rs : Bool} {cur : String} {tp : Path} {n : Node}
    {v : Val} {f : Nat} (htp : splitPath cur = some tp) (hne : tp ≠ []) (hg : getNode root tp = some n)
    (hd : sden root w f rs n tp = some v) : ∃ f', sdenXref (sden root w f') root rs f' cur = some v := by
  obtain ⟨g, rfl⟩ := sden_pos hd
  refine ⟨g + 1, ?_⟩
  unfold sdenXref
  simp only [htp, hg]
  cases n with
  | comp fl k cs => simp only [if_neg hne]; exact hd
  | leaf fl lk =>
    cases lk with
    | xref next =>
      simp only
      rw [sden_succ] at hd
      change (if (rs && !eSafe fl) = true then none else sdenXref (sden root w g) root rs g next) = some v at hd
      by_cases hc : (rs && !eSafe fl) = true
      · rw [if_pos hc] at hd; cases hd
      · rw [if_neg hc] at hd ⊢
        exact sdenXref_mono (sden_succ_le root w g) root rs g g next v (Nat.le_refl _) hd
    | _ => simp only [if_neg hne]; exact hd

theorem xrefLoop_sden {root : Node} {w : World} {rec : Rec} (hrec : RecS root w rec)
    (huk : uniqueKeys root = true) {rs : Bool} {self : Path} :
    ∀ (fuel : Nat) (cur : String) (chain : List String) (st : EvSt) (v : Val) (st' : EvSt),
    SInv root w st → xrefLoop rec root rs self fuel cur chain st = .ok (v, st') →
    SInv root w st' ∧ ∃ f, sdenXref (sden root w f) root rs f cur = some v
  | 0, cur, chain, st, v, st', _, h => by simp [xrefLoop] at h
  | fuel + 1, cur, chain, st, v, st', hI, h => by
    rw [xrefLoop_succ] at h
    cases hstep : xrefStep rec root rs self cur chain st with
    | next t s1 =>
      rw [hstep] at h
      simp only at h
      obtain ⟨tp, fl, htp, hg, hs1⟩ := xrefStep_next_state hstep
      have hI1 : SInv root w s1 ∧ (rs && !eSafe fl) = false := by
        rcases hs1 with ⟨hs, e⟩ | ⟨_, hr, e⟩ <;> rw [e]
        · exact ⟨hI, by simp [hs]⟩
        · exact ⟨hI.seeTaint, by simp [hr]⟩
      obtain ⟨hI', f, hf⟩ := xrefLoop_sden hrec huk fuel t _ s1 v st' hI1.1 h
      refine ⟨hI', f + 1, ?_⟩
      unfold sdenXref
      simp only [htp, hg, hI1.2, Bool.false_eq_true, if_false]
      exact sdenXref_mono (sden_succ_le root w f) root rs f f t v (Nat.le_refl _) hf
    | done r =>
      rw [hstep] at h
      simp only at h
      subst h
      unfold xrefStep at hstep
      split at hstep
      · cases hstep
      · rename_i tp htp
        split at hstep
        · cases hstep
        · rename_i v0 st1 hg
          split at hstep
          · cases hstep
          · cases hstep
            rcases ctxGetNode_ok_inv hg with ⟨v1, hv, hv1, hcase⟩ | ⟨_, hn, _⟩
            · cases hv
              have hnt : rs = true → tp ∉ st.tainted := by
                intro hrs
                rcases hcase with ⟨hnt, _⟩ | ⟨_, hr, _⟩
                · exact hnt
                · rw [hrs] at hr; cases hr
              obtain ⟨n, hgn, f, hd⟩ := hI.read huk hv1 hnt
              have hne : tp ≠ [] := by
                intro e; subst e; rw [hI.root_fresh] at hv1; cases hv1
              refine ⟨?_, sdenXref_of_target htp hne hgn hd⟩
              rcases hcase with ⟨_, rfl⟩ | ⟨_, _, rfl⟩
              · exact hI
              · exact hI.seeTaint
            · cases hn
        · rename_i n st1 hg
          split at hstep
          · cases hstep
          · split at hstep
            · split at hstep
              · split at hstep <;> cases hstep
              · cases hstep
            · rename_i hnx
              injection hstep with hres
              have hgn : getNode root tp = some n := by
                rcases ctxGetNode_ok_inv hg with ⟨_, hn, _⟩ | ⟨n', hn, _, hn', _⟩
                · cases hn
                · cases hn; exact hn'
              obtain ⟨hI', ⟨f, hd⟩, hne⟩ := hrec _ _ _ _ _ _ (Placed.of_getNode hgn) hI hres
              exact ⟨hI', sdenXref_of_target htp hne hgn hd⟩

theorem ecfgLookup_sden {root : Node} {w : World} {rec : Rec} (hrec : RecS root w rec)
    (huk : uniqueKeys root = true)
    {nm : String} {st st' : EvSt} {v : Val} (hI : SInv root w st)
    (h : ecfgLookup rec root nm st = .ok (v, st')) :
    SInv root w st' ∧ ∃ n, getNode root [Key.str nm] = some n ∧
      ∃ f, sden root w f true n [Key.str nm] = some v := by
  unfold ecfgLookup at h
  simp only at h
  split at h
  · rename_i v0 hv0
    split at h
    · cases h
    · rename_i hnt
      cases h
      exact ⟨hI, hI.read huk hv0 (fun _ => by simpa using hnt)⟩
  · split at h
    · cases h
    · split at h
      · cases h
      · rename_i n hn
        obtain ⟨hI', hd, _⟩ := hrec _ _ _ _ _ _ (Placed.of_getNode hn) hI h
        exact ⟨hI', n, hn, hd⟩

theorem resolveNames_sden {root : Node} {w : World} {rec : Rec} (hrec : RecS root w rec)
    (huk : uniqueKeys root = true) :
    ∀ (names : List String) (st : EvSt) (vs : List Val) (st' : EvSt),
    SInv root w st → resolveNames rec root w names st = .ok (vs, st') →
    SInv root w st' ∧ ∃ f, sdenNames (sden root w f) root w names = some vs
  | [], st, vs, st', hI, h => by
    simp [resolveNames] at h
    obtain ⟨rfl, rfl⟩ := h
    exact ⟨hI, 0, rfl⟩
  | nm :: rest, st, vs, st', hI, h => by
    unfold resolveNames at h
    simp only at h
    split at h
    · cases h
    · rename_i v st1 h1
      split at h
      · cases h
      · rename_i vs2 st2 h2
        cases h
        have hstep : SInv root w st1 ∧ ∃ f, sdenName (sden root w f) root w nm = some v := by
          split at h1
          · rename_i hs
            cases h1; exact ⟨hI, 0, by simp only [sdenName, if_pos hs]⟩
          · rename_i hs
            split at h1
            · obtain ⟨hI1, n, hn, f, hf⟩ := ecfgLookup_sden hrec huk hI h1
              exact ⟨hI1, f, by simp only [sdenName, if_neg hs, hn]; exact hf⟩
            · rename_i hg
              split at h1
              · rename_i hb
                cases h1
                have hg' : getNode root [Key.str nm] = none := by
                  cases hx : getNode root [Key.str nm] with
                  | none => rfl
                  | some x => rw [hx] at hg; simp at hg
                exact ⟨hI, 0, by simp only [sdenName, if_neg hs, hg', if_pos hb]⟩
              · cases h1
        obtain ⟨hI1, f1, hf1⟩ := hstep
        obtain ⟨hI2, f2, hf2⟩ := resolveNames_sden hrec huk rest st1 vs2 st' hI1 h2
        refine ⟨hI2, max f1 f2, ?_⟩
        unfold sdenNames
        rw [sdenName_mono (sden_mono root w (Nat.le_max_left f1 f2)) root w nm v hf1,
          sdenNames_mono (sden_mono root w (Nat.le_max_right f1 f2)) root w rest vs2 hf2]

/-- every container class evaluates all its children with `evalItems` — the arguments of a `!call` /
    `!bind` under `require_all_safe`, an unsafe one of those being refused — and builds its value from
    theirs with `denFinish` -/
theorem evalImpl_comp_inv {rec : Rec} {root : Node} {w : World} {rs : Bool} {f : Flags} {k : CompKind}
    {cs : List (Key × Node)} {path : Path} {st st' : EvSt} {v : Val}
    (h : evalImpl rec root w rs (.comp f k cs) path st = .ok (v, st')) :
    (k.isFunc && !eSafe f) = false ∧
    ∃ items st1, evalItems rec (rs || k.isFunc) path cs st = .ok (items, st1) ∧ st'.cache = st1.cache ∧
      denFinish w f k path items = some v := by
  cases k with
  | dict =>
    simp only [evalImpl] at h
    split at h
    · cases h
    · rename_i items st1 he; cases h
      exact ⟨rfl, _, _, by simpa [CompKind.isFunc] using he, rfl, rfl⟩
  | list =>
    simp only [evalImpl] at h
    split at h
    · cases h
    · rename_i items st1 he; cases h
      exact ⟨rfl, _, _, by simpa [CompKind.isFunc] using he, rfl, rfl⟩
  | append =>
    simp only [evalImpl] at h
    split at h
    · cases h
    · rename_i items st1 he; cases h
      exact ⟨rfl, _, _, by simpa [CompKind.isFunc] using he, rfl, rfl⟩
  | extend =>
    simp only [evalImpl] at h
    split at h
    · cases h
    · rename_i items st1 he; cases h
      exact ⟨rfl, _, _, by simpa [CompKind.isFunc] using he, rfl, rfl⟩
  | stream =>
    simp only [evalImpl] at h
    split at h
    · cases h
    · rename_i items st1 he; cases h
      exact ⟨rfl, _, _, by simpa [CompKind.isFunc] using he, rfl, rfl⟩
  | path ref =>
    simp only [evalImpl] at h
    split at h
    · cases h
    · rename_i items st1 he
      split at h
      · cases h
      · rename_i args ha
        split at h
        · cases h
        · rename_i v' hv
          cases h
          exact ⟨rfl, _, _, by simpa [CompKind.isFunc] using he, rfl, by simp only [denFinish, ha, hv]⟩
  | call fn =>
    simp only [evalImpl] at h
    split at h
    · cases h
    · rename_i hs
      split at h
      · split at h
        · split at h <;> cases h
        · cases h
      · rename_i sig hsig
        split at h
        · cases h
        · rename_i items st1 he
          split at h
          · cases h
          · rename_i pos kwp kw hr
            split at h
            · cases h
            · rename_i b hb
              cases h
              exact ⟨by simpa [CompKind.isFunc] using hs, items, st1, by simpa [CompKind.isFunc] using he, rfl,
                by simp only [denFinish, hsig, hr, hb]⟩
  | bind fn =>
    simp only [evalImpl] at h
    split at h
    · cases h
    · rename_i hs
      split at h
      · split at h
        · split at h <;> cases h
        · cases h
      · rename_i sig hsig
        split at h
        · cases h
        · rename_i items st1 he
          split at h
          · cases h
          · rename_i pos kwp kw hr
            split at h
            · cases h
            · rename_i hd
              cases h
              exact ⟨by simpa [CompKind.isFunc] using hs, items, st1, by simpa [CompKind.isFunc] using he, rfl,
                by simp only [denFinish, hsig, hr, hd]; rfl⟩

theorem evalImpl_sden {root : Node} {w : World} {rec : Rec} (hrec : RecS root w rec)
    (huk : uniqueKeys root = true)
    {rs : Bool} {n : Node} {path : Path} {st st' : EvSt} {v : Val}
    (hp : Placed root n path) (hI : SInv root w st)
    (h : evalImpl rec root w rs n path st = .ok (v, st')) :
    SOK root w st'.cache ∧ ∃ f, sdenImpl (sden root w f) root w f rs n path = some v := by
  cases n with
  | leaf fl lk =>
    cases lk with
    | scalar s => simp only [evalImpl] at h; cases h; exact ⟨hI.ok, 0, rfl⟩
    | prev s => simp only [evalImpl] at h; cases h; exact ⟨hI.ok, 0, rfl⟩
    | incl fs => simp only [evalImpl] at h; cases h; exact ⟨hI.ok, 0, rfl⟩
    | required => simp [evalImpl] at h
    | clear => simp [evalImpl] at h
    | fstr s => simp [evalImpl] at h
    | xref t =>
      simp only [evalImpl] at h
      obtain ⟨hI', f, hf⟩ := xrefLoop_sden hrec huk _ _ _ _ _ _ hI h
      exact ⟨hI'.ok, f, hf⟩
    | imp m =>
      simp only [evalImpl] at h
      split at h
      · cases h
      · rename_i hs
        split at h
        · rename_i hm
          cases h
          exact ⟨hI.ok, 0, by simp only [sdenImpl, if_neg hs, if_pos hm]⟩
        · cases h
    | eval code =>
      simp only [evalImpl] at h
      split at h
      · cases h
      · rename_i hs
        split at h
        · cases h
        · rename_i names hn
          split at h
          · cases h
          · cases h
          · rename_i vs st1 hr
            cases h
            obtain ⟨hI', f, hf⟩ := resolveNames_sden hrec huk _ _ _ _ hI hr
            exact ⟨hI'.ok, f, by simp only [sdenImpl, if_neg hs, hn, hf]⟩
  | comp fl k cs =>
    obtain ⟨hs, items, st1, he, hc, hfin⟩ := evalImpl_comp_inv h
    obtain ⟨hI', f, hf⟩ := evalItems_sden hrec cs st items st1
      (fun key c hm => Placed.child hp hm) hI he
    refine ⟨by rw [hc]; exact hI'.ok, f, ?_⟩
    simp only [sdenImpl, hs, Bool.false_eq_true, if_false, hf]
    exact hfin

/-- Soundness: a successful evaluation returns the strict denotation in the mode it was called in. -/
theorem evalNodeF_sden (root : Node) (w : World) (huk : uniqueKeys root = true) :
    ∀ fuel, RecS root w (evalNodeF root w fuel)
  | 0 => by intro rs m p s v s' _ _ h; simp [evalNodeF] at h
  | fuel + 1 => by
    intro rs n path st v st' hp hI h
    obtain ⟨hwf', hext⟩ := evalNodeF_wf root w (fuel + 1) rs n path st v st' hI.wf h
    have hT' := (evalNodeF_dirty root w huk (fuel + 1) rs n path st v st' hp hI.tinv h).1
    have hgn : getNode root path = some n := (hp.getNode_uniq huk).1
    have hbusy' : [] ∈ st'.inProgress := by rw [hext.prog]; exact hI.busy
    obtain ⟨hsafe, hcase⟩ := evalNodeF_ok_inv h
    rcases hcase with ⟨hv, hnt, rfl⟩ | ⟨hnone, hnip, st2, himpl, rfl⟩
    · obtain ⟨n', hn', hd⟩ := hI.read huk hv hnt
      rw [hgn] at hn'; cases hn'
      refine ⟨⟨hT', hbusy', by simpa using hI.ok⟩, hd, ?_⟩
      intro e; subst e; rw [hI.root_fresh] at hv; cases hv
    · have hI0 : SInv root w (enter path (bump n st)) :=
        ⟨⟨hI.wf.enter hnone, by simpa using hI.tinv.ex⟩, by simp [hI.busy], by simpa using hI.ok⟩
      obtain ⟨hok, f, hf⟩ := evalImpl_sden (evalNodeF_sden root w huk fuel) huk hp hI0 himpl
      have hd : sden root w (f + 1) rs n path = some v := by
        rw [sden_succ]
        have : (rs && !eSafe n.flags) = false := by
          cases rs with
          | false => rfl
          | true => simp [hsafe rfl]
        simp only [this, Bool.false_eq_true, if_false]
        exact hf
      have hd0 : sden root w (f + 1) false n path = some v := by
        cases rs with
        | false => exact hd
        | true => exact sden_down root w (f + 1) n path v hd
      refine ⟨⟨hT', hbusy', ?_⟩, ⟨f + 1, hd⟩, ?_⟩
      · intro p a hpa
        simp only [finish_cache, plookup_cons] at hpa
        split at hpa
        · rename_i e; subst e; cases hpa; exact ⟨n, hgn, f + 1, hd0⟩
        · exact hok p a hpa
      · intro e; subst e; exact hnip hI.busy

/-- the state in which the children of the root are evaluated -/
theorem SInv.start (root : Node) (w : World) : SInv root w (enter [] (bump root {})) :=
  ⟨⟨WF.init.enter rfl, by intro p h; exact absurd (by simp [plookup]) h⟩, by simp,
    by intro p v h; simp [plookup] at h⟩

/-- a successful build returns the strict denotation (non-strict mode) of the root -/
theorem evaluate_sden {w : World} {root : Node} {v : Val} {st : EvSt}
    (huk : uniqueKeys root = true) (h : evaluate w root = .ok (v, st)) :
    ∃ f, sden root w f false root [] = some v := by
  unfold evaluate at h
  obtain ⟨_, hcase⟩ := evalNodeF_ok_inv (fuel := 2 * root.size + 9) h
  rcases hcase with ⟨hv, _, _⟩ | ⟨_, _, st2, himpl, rfl⟩
  · simp [plookup] at hv
  · obtain ⟨_, f, hf⟩ := evalImpl_sden (evalNodeF_sden root w huk _) huk Placed.root (SInv.start root w) himpl
    exact ⟨f + 1, by rw [sden_succ]; simpa using hf⟩

end AY
