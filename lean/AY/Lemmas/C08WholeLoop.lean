/-
  AY.Lemmas.C08WholeLoop — the key loop of a non-deleting mapping of the document, key by key:
  when no two keys address the same child of `self` (`c08w_slotsNodup`), every iteration meets the
  ORIGINAL child of `self` under its key, so the outcome of the loop is described by the outcomes of
  the single keys against the original children (`c08w_StepOk` / `c08w_StepErr`).
-/
import AY.Lemmas.C08WholeNoNew
namespace AY

/-- what a successful iteration for `(k, o)` means in terms of the original children `scs` -/
def c08w_StepOk (rec : Node → Node → Except Err (Node × Bool)) (sk : CompKind) (scs : List (Key × Node))
    (k : Key) (o : Node) : Prop :=
  (getChild sk k scs = none ∧ reqNew [] [] o = none) ∨
  (∃ child nw same, getChild sk k scs = some child ∧ rec child o = .ok (nw, same) ∧
      (child.isComp = false → same = false → reqNewBelow nw = none))

/-- what a failing iteration for `(k, o)` means in terms of the original children `scs` -/
def c08w_StepErr (rec : Node → Node → Except Err (Node × Bool)) (sk : CompKind) (scs : List (Key × Node))
    (k : Key) (o : Node) (e : Err) : Prop :=
  (getChild sk k scs = none ∧ ∃ p, reqNew [] [] o = some p ∧ e = .notnew (k :: p)) ∨
  (sk.isDictFam = false ∧ validateIndex scs.length true k = none ∧ e = .merge) ∨
  (∃ child e', getChild sk k scs = some child ∧ rec child o = .error e' ∧ e = e'.prepend k) ∨
  (∃ child nw p, getChild sk k scs = some child ∧ child.isComp = false ∧ rec child o = .ok (nw, false) ∧
      reqNewBelow nw = some p ∧ e = .notnew (k :: p))

theorem c08w_validateIndex_lax_none {len : Nat} {k : Key} (h : validateIndex len false k = none) (len' : Nat) :
    validateIndex len' true k = none := by
  cases k with
  | int z => simp [validateIndex] at h
  | str s => rfl
  | float r => rfl

/-- a valid index of a numbered list finds its element -/
theorem c08w_getChild_valid {sk : CompKind} {scs : List (Key × Node)} {k : Key}
    (hsk : sk.isDictFam = false) (hn : listKeys 0 scs = true)
    (hv : (validateIndex scs.length true k).isSome = true) : ∃ c, getChild sk k scs = some c := by
  cases hi : validateIndex scs.length true k with
  | none => rw [hi] at hv; cases hv
  | some i =>
    have hlt : i < scs.length := by
      rw [validateIndex_strict] at hi; exact listIndex_lt hi
    obtain ⟨c, hc, _⟩ := listKeys_lookup scs 0 i hn hlt
    rw [Nat.zero_add] at hc
    exact ⟨c, by simp [getChild, hsk, hi, hc]⟩

theorem c08w_slotsNodup_cons {sk : CompKind} {len : Nat} {k : Key} {o : Node} {rest : List (Key × Node)}
    (h : c08w_slotsNodup sk len ((k, o) :: rest) = true) :
    c08w_slotsNodup sk len rest = true ∧
    ∀ s, c08w_slot sk len k = some s → ∀ kv ∈ rest, c08w_slot sk len kv.1 ≠ some s := by
  simp only [c08w_slotsNodup, Bool.and_eq_true] at h
  refine ⟨h.2, fun s hs kv hkv he => ?_⟩
  have h1 := h.1
  rw [hs] at h1
  simp only [Bool.not_eq_true', List.any_eq_false, beq_iff_eq] at h1
  exact h1 kv hkv he

theorem c08w_slot_dict {sk : CompKind} (h : sk.isDictFam = true) (len : Nat) (k : Key) :
    c08w_slot sk len k = some k := by simp [c08w_slot, h]

theorem c08w_loop_decomp {rec : Node → Node → Except Err (Node × Bool)} (hl : c08w_RecLeaf rec)
    {sf : Flags} {sk : CompKind} {scs : List (Key × Node)} :
    ∀ (rest acc : List (Key × Node)),
      (sk.isDictFam = true ∨ (listKeys 0 scs = true ∧
          ∀ kv ∈ rest, (validateIndex scs.length true kv.1).isSome = true)) →
      c08w_slotsNodup sk scs.length rest = true →
      (∀ kv ∈ rest, kv.2.flags.del ≠ some true) →
      (sk.isDictFam = true ∨ acc.length = scs.length) →
      (∀ kv ∈ rest, getChild sk kv.1 acc = getChild sk kv.1 scs) →
      (∀ acc', mergeLoop rec sf sk [] acc rest = .ok acc' → ∀ kv ∈ rest, c08w_StepOk rec sk scs kv.1 kv.2) ∧
      (∀ e, mergeLoop rec sf sk [] acc rest = .error e → ∃ kv ∈ rest, c08w_StepErr rec sk scs kv.1 kv.2 e)
  | [], acc, _, _, _, _, _ => by
    exact ⟨fun _ _ kv h => (by cases h), fun e h => (by simp [mergeLoop] at h)⟩
  | (k, o) :: rest, acc, hvalid, hnd, hdel, hlen, hinv => by
    obtain ⟨hnd', hslots⟩ := c08w_slotsNodup_cons hnd
    have hd : o.flags.del ≠ some true := hdel (k, o) (by simp)
    have hg0 : getChild sk k acc = getChild sk k scs := hinv (k, o) (by simp)
    cases hs : mergeStep rec sf sk [] acc (k, o) with
    | error e =>
      refine ⟨fun acc' h => (by simp [mergeLoop, hs] at h), fun e' h => ?_⟩
      have he : e' = e := by simp [mergeLoop, hs] at h; exact h.symm
      subst he
      refine ⟨(k, o), by simp, ?_⟩
      rcases c08w_step_err_shape hl hd hs with ⟨hg, p, hp, he⟩ | ⟨hg, hr0, hset⟩ | ⟨child, e1, hg, hr, he⟩ |
          ⟨child, nw, p, hg, hc, hr, hb, he⟩
      · exact .inl ⟨hg0 ▸ hg, p, hp, he⟩
      · right; left
        unfold setChild at hset
        split at hset
        · cases hset
        · rename_i hsk
          split at hset
          · rename_i hv
            injection hset with hset
            exact ⟨by simpa using hsk, c08w_validateIndex_lax_none hv _, hset.symm⟩
          · cases hset
      · exact .inr (.inr (.inl ⟨child, e1, hg0 ▸ hg, hr, he⟩))
      · exact .inr (.inr (.inr ⟨child, nw, p, hg0 ▸ hg, hc, hr, hb, he⟩))
    | ok acc1 =>
      have hhead : c08w_StepOk rec sk scs k o := by
        rcases c08w_step_ok_shape hl hd hs with ⟨hg, hr0, _⟩ | ⟨child, nw, same, K, hg, hr, _, _, _, hleaf⟩
        · exact .inl ⟨hg0 ▸ hg, hr0⟩
        · exact .inr ⟨child, nw, same, hg0 ▸ hg, hr, hleaf⟩
      -- the invariant for the remaining keys
      have hvalid' : sk.isDictFam = true ∨ (listKeys 0 scs = true ∧
          ∀ kv ∈ rest, (validateIndex scs.length true kv.1).isSome = true) := by
        rcases hvalid with h | ⟨h1, h2⟩
        · exact .inl h
        · exact .inr ⟨h1, fun kv hkv => h2 kv (List.mem_cons_of_mem _ hkv)⟩
      have hstep : (sk.isDictFam = true ∨ acc1.length = scs.length) ∧
          ∀ kv ∈ rest, getChild sk kv.1 acc1 = getChild sk kv.1 scs := by
        rcases hvalid with hsk | ⟨hnum, hval⟩
        · refine ⟨.inl hsk, fun kv hkv => ?_⟩
          have hne : k ≠ kv.1 := by
            intro e
            have := hslots k (c08w_slot_dict hsk _ k) kv hkv
            rw [c08w_slot_dict hsk] at this
            exact this (by rw [e])
          have hfr := mergeStep_frame rec hsk hs kv.1 hne
          have : getChild sk kv.1 acc1 = getChild sk kv.1 acc := by
            simp only [getChild, hsk, if_true]; exact hfr
          rw [this]; exact hinv kv (List.mem_cons_of_mem _ hkv)
        · cases hskd : sk.isDictFam with
          | true =>
            refine ⟨.inl rfl, fun kv hkv => ?_⟩
            have hne : k ≠ kv.1 := by
              intro e
              have := hslots k (c08w_slot_dict hskd _ k) kv hkv
              rw [c08w_slot_dict hskd] at this
              exact this (by rw [e])
            have hfr := mergeStep_frame rec hskd hs kv.1 hne
            have : getChild sk kv.1 acc1 = getChild sk kv.1 acc := by
              simp only [getChild, hskd, if_true]; exact hfr
            rw [this]; exact hinv kv (List.mem_cons_of_mem _ hkv)
          | false =>
            have hlen' : acc.length = scs.length := by
              rcases hlen with h | h
              · rw [hskd] at h; cases h
              · exact h
            obtain ⟨c, hc⟩ := c08w_getChild_valid hskd hnum (hval (k, o) (by simp))
            have hgc : getChild sk k acc = some c := by rw [hg0]; exact hc
            obtain ⟨hl1, hfr⟩ := c08w_step_frame hl hd hgc hs
            refine ⟨.inr (by rw [hl1, hlen']), fun kv hkv => ?_⟩
            obtain ⟨s, hs', _⟩ := c08w_slot_of_getChild hc
            have hne : c08w_slot sk acc.length kv.1 ≠ c08w_slot sk acc.length k := by
              rw [hlen', hs']
              exact hslots s hs' kv hkv
            rw [hfr kv.1 hne]
            exact hinv kv (List.mem_cons_of_mem _ hkv)
      obtain ⟨ih1, ih2⟩ := c08w_loop_decomp hl rest acc1 hvalid' hnd'
        (fun kv hkv => hdel kv (List.mem_cons_of_mem _ hkv)) hstep.1 hstep.2
      have hml : mergeLoop rec sf sk [] acc ((k, o) :: rest) = mergeLoop rec sf sk [] acc1 rest := by
        simp [mergeLoop, hs]
      rw [hml]
      refine ⟨fun acc' h kv hkv => ?_, fun e h => ?_⟩
      · rcases List.mem_cons.1 hkv with e | hkv'
        · subst e; exact hhead
        · exact ih1 acc' h kv hkv'
      · obtain ⟨kv, hkv, hse⟩ := ih2 e h
        exact ⟨kv, List.mem_cons_of_mem _ hkv, hse⟩

end AY
