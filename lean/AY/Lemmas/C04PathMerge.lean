/-
  AY.Lemmas.C04PathMerge — the node at the end of a path of plain non-deleting mappings is itself a
  mapping or a list: key-wise / index-wise description of the data below it (`keywise_cases`,
  `indexwise_at`), the emptied container left by `!clear` (`clear_at`), and the last step of the
  builder's fold (`flatten_last`); helpers for AY.Props.C04_AtPath.
-/
import AY.Lemmas.C04PathProtect
import AY.Lemmas.C07PipeFold
namespace AY.C04P

/-! ### two mappings at the end of the path -/

/-- both nodes at the path are plain mappings: below the path the merged tree holds the data of the
    merge of these two mappings (whether or not the loop iteration that stored it removed the key: a
    removed result was empty) -/
theorem at_live_path_dict (p : Path) (k : Key) (fuel : Nat) (s o r : Node) (b : Bool)
    (ef df : Flags) (ecs dcs : List (Key × Node))
    (hs : dictAlong (k :: p) s = true) (ho : liveAlong (k :: p) o = true)
    (h : mergeF fuel s o = .ok (r, b))
    (hse : getNode s (k :: p) = some (.comp ef .dict ecs)) (hod : getNode o (k :: p) = some (.comp df .dict dcs))
    (hne : keysNodup ecs = true) (hnd : keysNodup dcs = true) :
    ∃ fuel' nw same, compMerge (mergeF fuel') ef .dict ecs (.comp df .dict dcs) = .ok (nw, same) ∧
      ∀ k2 q, (native r).at? (k :: p ++ k2 :: q) = (native nw).at? (k2 :: q) := by
  obtain ⟨fuel', sf, kl, x?, hx, hq⟩ := at_live_path p k fuel s o r b _ _ hs ho h hse hod
  obtain ⟨nw, same, hm, hdata⟩ := stepAt_some_data hx
  cases fuel' with
  | zero => simp [mergeF] at hm
  | succ fuel' =>
    simp only [mergeF] at hm
    refine ⟨fuel', nw, same, hm, ?_⟩
    obtain ⟨F, cs, rfl⟩ := compMerge_dict_shape _ ef df ecs dcs hne hnd nw same hm
    intro k2 q
    rw [hq (k2 :: q), hdata]
    cases hrem : stepRemovesB (.comp ef .dict ecs) (.comp df .dict dcs) (.comp F .dict cs) same with
    | false => simp
    | true =>
      have htr : (Node.comp F .dict cs).truthy = false := by
        simp only [stepRemovesB, Node.isComp, if_true, Bool.and_eq_true, Bool.not_eq_true'] at hrem
        exact hrem.1.1
      cases cs with
      | nil => simp [at_native_dict, alookup]
      | cons a rest => simp [Node.truthy, CompKind.func?] at htr

/-- KEY-WISE AT A PATH: the three cases of a key below two mappings found at the path -/
theorem keywise_cases (p : Path) (k : Key) (fuel : Nat) (s o r : Node) (b : Bool)
    (ef df : Flags) (ecs dcs : List (Key × Node))
    (hs : dictAlong (k :: p) s = true) (ho : liveAlong (k :: p) o = true)
    (h : mergeF fuel s o = .ok (r, b))
    (hse : getNode s (k :: p) = some (.comp ef .dict ecs)) (hod : getNode o (k :: p) = some (.comp df .dict dcs))
    (hne : keysNodup ecs = true) (hnd : keysNodup dcs = true) :
    (∀ k2, alookup k2 dcs = none → ∀ q, (native r).at? (k :: p ++ k2 :: q) =
        ((alookup k2 (baseOf ecs (.comp df .dict dcs))).map native).bind (Plain.at? q)) ∧
    (∀ k2 v, alookup k2 dcs = some v → alookup k2 (baseOf ecs (.comp df .dict dcs)) = none →
        ∀ q, (native r).at? (k :: p ++ k2 :: q) = (native v).at? q) ∧
    (∀ k2 v c, alookup k2 dcs = some v → alookup k2 (baseOf ecs (.comp df .dict dcs)) = some c →
        ∃ fuel' nw same, mergeF fuel' c v = .ok (nw, same) ∧
          ∀ q, (native r).at? (k :: p ++ k2 :: q) =
            if stepRemovesB c v nw same then none else (native nw).at? q) := by
  obtain ⟨fuel', nw, same, hm, hq⟩ := at_live_path_dict p k fuel s o r b ef df ecs dcs hs ho h hse hod hne hnd
  have hat := compMerge_dict_at (mergeF fuel') ef df ecs dcs hne hnd nw same hm
  refine ⟨?_, ?_, ?_⟩
  · intro k2 hv q
    have := hat k2
    rw [hv] at this
    rw [hq k2 q]
    exact this q
  · intro k2 v hv hb q
    have := hat k2
    rw [hv] at this
    obtain ⟨x?, hx, hx2⟩ := this
    rw [hq k2 q, hx2 q]
    rw [hb] at hx
    simp only [stepAt] at hx
    split at hx
    · cases hx
    · injection hx with hx
      subst hx
      simp [native_adopt]
  · intro k2 v c hv hb
    have := hat k2
    rw [hv] at this
    obtain ⟨x?, hx, hx2⟩ := this
    rw [hb] at hx
    obtain ⟨nw2, same2, hm2, hdata⟩ := stepAt_some_data hx
    refine ⟨fuel', nw2, same2, hm2, ?_⟩
    intro q
    rw [hq k2 q, hx2 q, hdata]
    cases stepRemovesB c v nw2 same2 <;> simp

theorem baseOf_live {scs : List (Key × Node)} {o : Node} (h : eDel o = false) : baseOf scs o = scs := by
  simp [baseOf, h]

theorem alookup_baseOf_del {scs : List (Key × Node)} {o : Node} (h : eDel o = true) (hn : keysNodup scs = true)
    (k : Key) : alookup k (baseOf scs o) = (alookup k scs).bind (keptAt (maybeKeep o) k) := by
  simp only [baseOf, h, if_true]
  exact alookup_keptChildren (maybeKeep o) k scs hn

/-! ### two lists at the end of the path -/

/-- INDEX-WISE AT A PATH: both nodes are plain lists, the newer one non-deleting (`!merge`), and the
    pre-filter of ConfigList removes nothing of it (no deleting element outranked: excludes D18): the
    data at the path is the list the key loop of the two lists leaves -/
theorem indexwise_at (p : Path) (k : Key) (fuel : Nat) (s o r : Node) (b : Bool)
    (ef df : Flags) (ecs dcs : List (Key × Node))
    (hs : dictAlong (k :: p) s = true) (ho : liveAlong (k :: p) o = true)
    (h : mergeF fuel s o = .ok (r, b))
    (hse : getNode s (k :: p) = some (.comp ef .list ecs)) (hod : getNode o (k :: p) = some (.comp df .list dcs))
    (hlive : eDel (.comp df .list dcs) = false)
    (hall : allKept (keepIfExists (.comp ef .list ecs)) [] (.comp df .list dcs) = true) :
    ∃ fuel' scs', mergeLoop (mergeF fuel') ef .list [] ecs dcs = .ok scs' ∧
      (native r).at? (k :: p) = some (.list (nativeVals scs')) := by
  obtain ⟨fuel', sf, kl, x?, hx, hq⟩ := at_live_path p k fuel s o r b _ _ hs ho h hse hod
  obtain ⟨nw, same, hm, hdata⟩ := stepAt_some_data hx
  cases fuel' with
  | zero => simp [mergeF] at hm
  | succ fuel' =>
    simp only [mergeF, listMerge, CompKind.isDictFam, Bool.false_and, Bool.false_eq_true, if_false,
      c04_filterNode_allKept _ [] _ hall] at hm
    simp only [compMerge, hlive, Bool.false_eq_true, if_false] at hm
    cases hl : mergeLoop (mergeF fuel') ef .list [] ecs dcs with
    | error e => simp [hl] at hm
    | ok scs' =>
      refine ⟨fuel', scs', hl, ?_⟩
      simp only [hl] at hm
      have hnw : native nw = .list (nativeVals scs') := by
        simp only [finishMerge, Node.flags, maybePromote, CompKind.sameClass, if_true] at hm
        split at hm <;>
          (simp only [Except.ok.injEq, Prod.mk.injEq] at hm
           rw [← hm.1, nativeOf_propagate]
           simp [native, CompKind.isDictFam])
      have hnr : stepRemovesB (.comp ef .list ecs) (.comp df .list dcs) nw same = false := by
        simp only [stepRemovesB, Node.isComp, if_true, del_ne_of_live hlive, Bool.and_false]
      have := hq []
      rw [List.append_nil] at this
      rw [this, hdata, hnr, hnw]
      rfl

/-! ### `!clear` -/

/-- after the pre-merge pass of a `!clear` both trees hold an EMPTY container of the same kind at the
    path (the stage's copy adopted by its parent: same priority and explicit delete flag): the merge
    leaves an empty container of that kind — unless the container carries an explicit `delete=True`
    (it was tagged `!del` when it was written), in which case the key is removed -/
theorem clear_at (p : Path) (k : Key) (fuel : Nat) (s o r : Node) (b : Bool) (cf cf' : Flags) (ck : CompKind)
    (hs : dictAlong (k :: p) s = true) (ho : liveAlong (k :: p) o = true)
    (h : mergeF fuel s o = .ok (r, b))
    (hse : getNode s (k :: p) = some (.comp cf ck [])) (hod : getNode o (k :: p) = some (.comp cf' ck []))
    (hck : ck = .dict ∨ ck = .list) (hpr : ePrio cf' = ePrio cf) :
    (native r).at? (k :: p) =
      if cf'.del == some true then none else some (if ck.isDictFam then .dict [] else .list []) := by
  have hnat : native (.comp cf' ck []) = (if ck.isDictFam then .dict [] else .list []) := by
    rcases hck with rfl | rfl <;> simp [native, CompKind.isDictFam, nativeList, nativeVals]
  cases hdel : eDel (.comp cf' ck []) with
  | true =>
    have hk : plainKind (.comp cf ck []) = true := by rcases hck with rfl | rfl <;> rfl
    have hp : hasPrio (Node.comp cf' ck []).flags (Node.comp cf ck []).flags true = true :=
      c04_hasPrio_true_of_ge (by simp [Node.flags, hpr])
    have hnp : noneProtected (.comp cf' ck []) (.comp cf ck []) = true := by
      rcases hck with rfl | rfl <;>
        simp [noneProtected, wfKeys, wfKeysList, noneKeptList, allKept, allKeptList, listKeys, CompKind.isDictFam]
    have := del_exact_at p k fuel s o r b _ _ hs ho h hse hod hk hdel hp hnp []
    rw [List.append_nil] at this
    rw [this]
    have hrem : removedBy (.comp cf' ck []) = (cf'.del == some true) := by
      rcases hck with rfl | rfl <;> simp [removedBy, Node.truthy, CompKind.func?, Node.flags]
    rw [hrem]
    cases cf'.del == some true
    · simp only [Bool.false_eq_true, if_false, Plain.at?]
      rw [hnat]
    · rfl
  | false =>
    obtain ⟨fuel', sf, kl, x?, hx, hq⟩ := at_live_path p k fuel s o r b _ _ hs ho h hse hod
    obtain ⟨nw, same, hm, hdata⟩ := stepAt_some_data hx
    have hd := del_ne_of_live hdel
    simp only [Node.flags] at hd
    have hnr : stepRemovesB (.comp cf ck []) (.comp cf' ck []) nw same = false := by
      simp only [stepRemovesB, Node.isComp, if_true, Node.flags, hd, Bool.and_false]
    have hnw : native nw = (if ck.isDictFam then .dict [] else .list []) := by
      cases fuel' with
      | zero => simp [mergeF] at hm
      | succ fuel' =>
        rcases hck with rfl | rfl
        · simp only [mergeF, compMerge, hdel, Bool.false_eq_true, if_false, mergeLoop, finishMerge, Node.flags,
            maybePromote, CompKind.sameClass, if_true] at hm
          split at hm <;>
            (simp only [Except.ok.injEq, Prod.mk.injEq] at hm
             rw [← hm.1, nativeOf_propagate]
             simp [native, CompKind.isDictFam, nativeList])
        · simp only [mergeF, listMerge, CompKind.isDictFam, Bool.false_and, Bool.false_eq_true, if_false,
            filterNode, filterList, notKeptNames, dropMarks, removeMany, List.reverse_nil] at hm
          simp only [compMerge, hdel, Bool.false_eq_true, if_false, mergeLoop, finishMerge, Node.flags,
            maybePromote, CompKind.sameClass, if_true] at hm
          split at hm <;>
            (simp only [Except.ok.injEq, Prod.mk.injEq] at hm
             rw [← hm.1, nativeOf_propagate]
             simp [native, CompKind.isDictFam, nativeVals])
    have := hq []
    rw [List.append_nil] at this
    rw [this, hdata, hnr, hnw, hd]
    rfl

/-! ### a scalar at the end of the path -/

/-- a newer LEAF that is not outranked replaces a scalar, a plain mapping or a plain list wholesale,
    whatever is below it (the leaf rule never prunes: protected entries do not matter) -/
theorem leaf_exact_local (fuel : Nat) (e : Node) (df : Flags) (dlk : LeafKind) (nw : Node) (same : Bool)
    (hk : plainKind e = true) (hp : hasPrio df e.flags true = true)
    (h : mergeF fuel e (.leaf df dlk) = .ok (nw, same)) :
    native nw = native (.leaf df dlk) ∧ nw.truthy = (Node.leaf df dlk).truthy ∧ ePrio nw.flags = ePrio df ∧
      nw.flags.del = df.del ∧ same = false := by
  have hflip : hasPrio e.flags (Node.leaf df dlk).flags false = false := hasPrio_flip hp
  have leafWin : ∀ nw same, Except.ok (leafRule e (.leaf df dlk)) = (Except.ok (nw, same) : Except Err (Node × Bool)) →
      native nw = native (.leaf df dlk) ∧ nw.truthy = (Node.leaf df dlk).truthy ∧ ePrio nw.flags = ePrio df ∧
        nw.flags.del = df.del ∧ same = false := by
    intro nw same h
    simp only [leafRule, hflip, Bool.false_eq_true, if_false, Except.ok.injEq, Prod.mk.injEq] at h
    obtain ⟨rfl, rfl⟩ := h
    refine ⟨by rw [nativeOf_propagate, native_setFlags], by rw [truthy_propagate, truthy_setFlags], ?_, ?_, rfl⟩
    · rw [c04_flags_propagate, c04_flags_setFlags]; rfl
    · rw [c04_flags_propagate, c04_flags_setFlags]; rfl
  cases fuel with
  | zero => simp [mergeF] at h
  | succ fuel =>
    cases e with
    | leaf ef elk =>
      simp only [mergeF] at h
      exact leafWin nw same h
    | comp ef ek ecs =>
      cases ek <;> try (simp [plainKind] at hk; done)
      · simp only [mergeF, compMerge] at h
        exact leafWin nw same h
      · simp only [mergeF, listMerge, compMerge] at h
        exact leafWin nw same h

/-- a newer leaf at the path -/
theorem leaf_exact_at (p : Path) (k : Key) (fuel : Nat) (s o r : Node) (b : Bool) (e : Node) (df : Flags) (dlk : LeafKind)
    (hs : dictAlong (k :: p) s = true) (ho : liveAlong (k :: p) o = true)
    (h : mergeF fuel s o = .ok (r, b))
    (hse : getNode s (k :: p) = some e) (hod : getNode o (k :: p) = some (.leaf df dlk))
    (hk : plainKind e = true) (hp : hasPrio df e.flags true = true) :
    ∀ q, (native r).at? (k :: p ++ q) =
      if removedBy (.leaf df dlk) then none else (native (.leaf df dlk)).at? q := by
  obtain ⟨fuel', sf, kl, x?, hx, hq⟩ := at_live_path p k fuel s o r b e _ hs ho h hse hod
  obtain ⟨nw, same, hm, hdata⟩ := stepAt_some_data hx
  obtain ⟨h1, h2, h3, h4, h5⟩ := leaf_exact_local fuel' e df dlk nw same hk hp hm
  have hrem : stepRemovesB e (.leaf df dlk) nw same = removedBy (.leaf df dlk) := by
    have h3' : ePrio nw.flags = ePrio (Node.leaf df dlk).flags := h3
    have h4' : nw.flags.del = (Node.leaf df dlk).flags.del := h4
    simp only [stepRemovesB, removedBy, h2, h4', h5, hasPrio_false_of_eq h3']
    cases e.isComp <;> simp
  intro q
  rw [hq q, hdata, hrem, h1]
  cases removedBy (.leaf df dlk) <;> simp

/-! ### the last step of the builder's fold -/

/-- `flatten` of `xs ++ [o]` with an operator-free last stage is ONE merge of what the earlier
    stages flatten to (under the same pre-merge fuel) with the last stage -/
theorem flatten_last (xs : List Node) (o r : Node) (hx : xs ≠ []) (hop : C07P.opFree o = true)
    (h : flatten (xs ++ [o]) = .ok r) :
    ∃ s bb, flattenWith (premergeF (stagesFuel (xs ++ [o]))) xs = .ok s ∧
      mergeF (o.depth + 1) s o = .ok (r, bb) := by
  simp only [flatten] at h
  obtain ⟨s, h1, h2⟩ := C07P.flattenWith_append xs [o] hx r h
  have hd : o.depth < stagesFuel (xs ++ [o]) := C07P.depth_lt_stagesFuel (by simp)
  rw [C07P.flattenLoop_cons_opFree hop hd] at h2
  split at h2
  · cases h2
  · rename_i r1 hm1
    simp only [flattenLoop, Except.ok.injEq] at h2
    subst h2
    obtain ⟨bb, hb⟩ := C07P.merge_ok_mergeF hm1
    exact ⟨s, bb, h1, hb⟩

end AY.C04P
