/-
  AY.Lemmas.C03FuncStep — the priority rule at an entry held by a FUNCTION NODE
  (`FunctionNode.ayns.on_merge_impl` = `funcMerge`), for writers that are function nodes or strings
  naming a target.

  * `entryInfo n` = what a writer contributes at an entry: (effective priority, value, user metadata);
    the "value" of a function node is its target name (as a string scalar), so a function node with
    target `g` and the plain string `g` carry the same value;
  * `funcStep`: whenever merging a writer onto a function node succeeds, the result is a function
    node whose information is `pickInfo self writer` — the leaf rule of C03 (the older wins only with
    a STRICTLY higher priority; winner's value and priority, metadata `{**loser, **winner}`);
    this holds for ARBITRARY arguments and flags on both sides and every fuel;
  * `foldW` / `foldW_info`: any number of writers.
-/
import AY.Lemmas.C13Lemmas
import AY.Lemmas.C03Loader
set_option linter.unusedVariables false
namespace AY.C03F
open AY

/-! ### what an entry writer contributes -/

/-- (effective priority, value, metadata) of a scalar leaf or a function node; the value of a
    function node is its target name -/
def entryInfo : Node → Option LeafInfo
  | .leaf f (.scalar v) => some (ePrio f, v, f.md)
  | .leaf _ _ => none
  | .comp f k _ =>
    match k.func? with
    | some t => some (ePrio f, .str t, f.md)
    | none => none

/-- `isinstance(node, FunctionNode)` -/
def isFuncN : Node → Bool
  | .comp _ k _ => k.isFunc
  | .leaf .. => false

theorem entryInfo_leaf_eq (n : Node) (h : n.isComp = false) : entryInfo n = leafInfo n := by
  cases n with
  | comp f k cs => cases h
  | leaf f k => cases k <;> rfl

theorem entryInfo_func {f : Flags} {k : CompKind} {cs : List (Key × Node)} {t : String}
    (h : k.func? = some t) : entryInfo (.comp f k cs) = some (ePrio f, .str t, f.md) := by
  simp [entryInfo, h]

theorem not_gt_of_hasPrio {a b : Flags} (h : hasPrio a b true = true) : ¬ ePrio b > ePrio a := by
  have := (hasPrio_true_iff a b).1 h; omega

theorem gt_of_not_hasPrio {a b : Flags} (h : ¬ hasPrio a b true = true) : ePrio b > ePrio a := by
  have : ¬ ePrio a ≥ ePrio b := fun hh => h ((hasPrio_true_iff a b).2 hh)
  omega

/-- the information of a function node after `_replace_self` / `_replace_other`, as the leaf rule -/
theorem info_self {sf of : Flags} {t g : String} (hp : hasPrio of sf true = true) :
    some ((ePrio (replaceSelfFlags sf of), Scalar.str g, (replaceSelfFlags sf of).md) : LeafInfo) =
      pickInfo (some (ePrio sf, .str t, sf.md)) (some (ePrio of, .str g, of.md)) := by
  have := not_gt_of_hasPrio hp
  simp only [pickInfo, this, if_false]; rfl

theorem info_other {sf of : Flags} {t g : String} (hp : ¬ hasPrio of sf true = true) :
    some ((ePrio (replaceOtherFlags sf of), Scalar.str t, (replaceOtherFlags sf of).md) : LeafInfo) =
      pickInfo (some (ePrio sf, .str t, sf.md)) (some (ePrio of, .str g, of.md)) := by
  have := gt_of_not_hasPrio hp
  simp only [pickInfo, this, if_true]; rfl

theorem info_replaced {sf of : Flags} {t g : String} (hp : hasPrio of sf true = true) :
    some ((ePrio (replaceOtherFlags of sf), Scalar.str g, (replaceOtherFlags of sf).md) : LeafInfo) =
      pickInfo (some (ePrio sf, .str t, sf.md)) (some (ePrio of, .str g, of.md)) := by
  have := not_gt_of_hasPrio hp
  simp only [pickInfo, this, if_false]; rfl

/-! ### `ComposedNode.on_merge_impl` on two function nodes: the two shapes of a result -/

/-- whatever the arguments are, a successful merge of a function node `other` onto a function node
    `self` is either `other` taking over (`other` deletes, nothing of `self` survives the pre-filter,
    `other` is not outranked) or `self` with the flags of the tail of `on_merge_impl` -/
theorem compMerge_func_shape (rec : Node → Node → Except Err (Node × Bool)) (sf : Flags) (sk : CompKind)
    (scs : List (Key × Node)) (of : Flags) (ok : CompKind) (ocs : List (Key × Node))
    (hsk : sk.isFunc = true) (hok : ok.isFunc = true) (r : Node) (same : Bool)
    (h : compMerge rec sf sk scs (.comp of ok ocs) = .ok (r, same)) :
    ∃ cs, (hasPrio of sf true = true ∧ r = .comp (replaceOtherFlags of sf) ok cs ∧ same = false) ∨
      (r = .comp (finishFlags sf of) sk cs ∧ same = true) := by
  have hfin : ∀ scs', finishMerge sf sk scs' (.comp of ok ocs) = .ok (r, same) →
      ∃ cs, r = .comp (finishFlags sf of) sk cs ∧ same = true := by
    intro scs' hf
    rw [finishMerge_func _ _ _ _ _ _ hsk (Or.inr (Or.inr hok))] at hf
    simp only [Except.ok.injEq, Prod.mk.injEq] at hf
    obtain ⟨hr, hs⟩ := hf
    by_cases hp : hasPrio of sf true = true
    · obtain ⟨cs', h1, _⟩ := propagate_kind (replaceSelfFlags sf of) sk scs'
      refine ⟨cs', ?_, hs.symm⟩
      rw [← hr, if_pos hp, h1]; simp [finishFlags, hp]
    · obtain ⟨cs', h1, _⟩ := propagate_kind (replaceOtherFlags sf of) sk scs'
      refine ⟨cs', ?_, hs.symm⟩
      rw [← hr, if_neg hp, h1]; simp [finishFlags, hp]
  simp only [compMerge] at h
  split at h
  · -- `other` deletes
    split at h
    · rename_i hc
      simp only [Bool.and_eq_true] at hc
      split at h
      · cases h
      · obtain ⟨cs', hcs'⟩ := filterNode_comp (maybeKeep (.comp of ok ocs)) [] sf sk scs
        rw [hcs', maybePromote_func_func _ _ _ _ _ _ hok hsk] at h
        simp only [Except.ok.injEq, Prod.mk.injEq] at h
        obtain ⟨cs2, h1, _⟩ := propagate_kind (replaceOtherFlags of sf) ok ocs
        exact ⟨cs2, .inl ⟨hc.2, by rw [← h.1, h1], by rw [← h.2]; rfl⟩⟩
    · split at h
      · cases h
      · obtain ⟨cs, h1, h2⟩ := hfin _ h
        exact ⟨cs, .inr ⟨h1, h2⟩⟩
  · split at h
    · cases h
    · obtain ⟨cs, h1, h2⟩ := hfin _ h
      exact ⟨cs, .inr ⟨h1, h2⟩⟩

/-! ### one writer merged onto a function node -/

/-- a writer of an entry: a function node, or a string naming a target -/
def isWriter : Node → Bool
  | .leaf _ (.scalar (.str _)) => true
  | .comp _ k _ => k.isFunc
  | _ => false

theorem isFunc_func? {k : CompKind} (h : k.isFunc = true) : ∃ t, k.func? = some t := by
  cases k <;> simp [CompKind.isFunc] at h <;> exact ⟨_, rfl⟩

/-- merging anything onto a function node is `FunctionNode.on_merge_impl`, at every fuel -/
theorem mergeF_func (fuel : Nat) (sf : Flags) (sk : CompKind) (f : String)
    (scs : List (Key × Node)) (o : Node) (hsk : sk.func? = some f) :
    mergeF (fuel + 1) (.comp sf sk scs) o = funcMerge (mergeF fuel) sf sk f scs o := by
  rcases func?_cases hsk with rfl | rfl <;> rfl

/-- THE STEP: if merging a writer `o` (function node or target-name string; any flags, any
    arguments) onto the function node `self` succeeds, the result is a function node and its
    information is the leaf rule applied to the information of `self` and of `o`; it is the `self`
    object unless `o` is a function node that took over -/
theorem funcStep (fuel : Nat) (sf : Flags) (sk : CompKind) (f : String) (scs : List (Key × Node))
    (o r : Node) (same : Bool) (hsk : sk.func? = some f) (ho : isWriter o = true)
    (h : mergeF (fuel + 1) (.comp sf sk scs) o = .ok (r, same)) :
    isFuncN r = true ∧
    entryInfo r = pickInfo (entryInfo (.comp sf sk scs)) (entryInfo o) ∧
    (o.isComp = false → same = true) := by
  rw [mergeF_func fuel sf sk f scs o hsk] at h
  have hskf := isFunc_of_func? hsk
  rw [entryInfo_func hsk]
  cases o with
  | leaf of lk =>
    cases lk with
    | scalar v =>
      cases v with
      | str g =>
        have hsv : (LeafKind.scalar (.str g)).strVal = g := rfl
        simp only [funcMerge, LeafKind.isStr, Scalar.isStr, if_true, hsv] at h
        have hei : entryInfo (.leaf of (.scalar (.str g))) = some (ePrio of, .str g, of.md) := rfl
        rw [hei]
        by_cases hp : hasPrio of sf true = true
        · rw [if_pos hp] at h
          by_cases hg : (g != f) = true
          · rw [if_pos hg, propagate_nil] at h
            simp only [Except.ok.injEq, Prod.mk.injEq] at h
            obtain ⟨hr, hs⟩ := h
            subst hr
            refine ⟨?_, ?_, fun _ => hs.symm⟩
            · simp [isFuncN, isFunc_of_func? (setFunc_func? g hsk)]
            · rw [entryInfo_func (setFunc_func? g hsk)]; exact info_self hp
          · rw [if_neg hg] at h
            have hgf : g = f := by simpa using hg
            subst hgf
            simp only [Except.ok.injEq, Prod.mk.injEq] at h
            obtain ⟨hr, hs⟩ := h
            obtain ⟨cs', h1, _⟩ := propagate_kind (replaceSelfFlags sf of) sk scs
            rw [h1] at hr; subst hr
            refine ⟨by simp [isFuncN, hskf], ?_, fun _ => hs.symm⟩
            rw [entryInfo_func hsk]; exact info_self hp
        · rw [if_neg hp] at h
          simp only [Except.ok.injEq, Prod.mk.injEq] at h
          obtain ⟨hr, hs⟩ := h
          obtain ⟨cs', h1, _⟩ := propagate_kind (replaceOtherFlags sf of) sk scs
          rw [h1] at hr; subst hr
          refine ⟨by simp [isFuncN, hskf], ?_, fun _ => hs.symm⟩
          rw [entryInfo_func hsk]; exact info_other hp
      | null => cases ho
      | bool b => cases ho
      | int i => cases ho
      | float x => cases ho
    | xref p => cases ho
    | prev p => cases ho
    | eval c => cases ho
    | fstr s => cases ho
    | imp n => cases ho
    | required => cases ho
    | clear => cases ho
    | incl fs => cases ho
  | comp of ok ocs =>
    have hokf : ok.isFunc = true := ho
    obtain ⟨g, hg⟩ := isFunc_func? hokf
    rw [entryInfo_func hg]
    simp only [funcMerge, hg] at h
    by_cases hne : (g != f) = true
    · rw [if_pos hne] at h
      by_cases hp : hasPrio of sf true = true
      · simp only [hp, Bool.not_true, Bool.false_eq_true, if_false] at h
        obtain ⟨cs, hc | hc⟩ := compMerge_func_shape _ _ _ _ _ _ _
          (isFunc_of_func? (setFunc_func? g hsk)) hokf r same h
        · obtain ⟨_, hr, _⟩ := hc
          subst hr
          refine ⟨by simp [isFuncN, hokf], ?_, fun hh => by cases hh⟩
          rw [entryInfo_func hg]; exact info_replaced hp
        · obtain ⟨hr, _⟩ := hc
          subst hr
          refine ⟨by simp [isFuncN, isFunc_of_func? (setFunc_func? g hsk)], ?_, fun hh => by cases hh⟩
          rw [entryInfo_func (setFunc_func? g hsk)]
          simp only [finishFlags, hp, if_true]; exact info_self hp
      · simp only [hp, Bool.not_false, if_true] at h
        simp only [Except.ok.injEq, Prod.mk.injEq] at h
        obtain ⟨hr, hs⟩ := h
        obtain ⟨cs', h1, _⟩ := propagate_kind (replaceOtherFlags sf of) sk scs
        rw [h1] at hr; subst hr
        refine ⟨by simp [isFuncN, hskf], ?_, fun hh => by cases hh⟩
        rw [entryInfo_func hsk]; exact info_other hp
    · rw [if_neg hne] at h
      have hgf : g = f := by simpa using hne
      subst hgf
      obtain ⟨cs, hc | hc⟩ := compMerge_func_shape _ _ _ _ _ _ _ hskf hokf r same h
      · obtain ⟨hp, hr, _⟩ := hc
        subst hr
        refine ⟨by simp [isFuncN, hokf], ?_, fun hh => by cases hh⟩
        rw [entryInfo_func hg]; exact info_replaced hp
      · obtain ⟨hr, _⟩ := hc
        subst hr
        refine ⟨by simp [isFuncN, hskf], ?_, fun hh => by cases hh⟩
        rw [entryInfo_func hsk]
        by_cases hp : hasPrio of sf true = true
        · simp only [finishFlags, hp, if_true]; exact info_self hp
        · simp only [finishFlags, hp]; exact info_other hp

end AY.C03F
