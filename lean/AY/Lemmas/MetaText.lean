/-
  Lemmas about AY.Model.MetaText (the `{{...}}` rewriting on text): Python slices of `pre ++ rest`,
  the splice loop against its one-pass specification, the search loop, the special/user split.
  Property theorems: AY/Props/C01_MetaText.lean.
-/
import AY.Model.MetaText
namespace AY.MetaText

/-! ### Python slices -/

theorem pyIdx_ofNat (n k : Nat) : pyIdx n (k : Int) = min k n := by
  unfold pyIdx
  have h : ¬ ((k : Int) < 0) := by omega
  rw [if_neg h, Int.toNat_natCast]

theorem sliceTo_append {α : Type} (pre X : List α) (k : Nat) (hk : k ≤ X.length) :
    sliceTo (pre ++ X) ((pre.length : Int) + (k : Int)) = pre ++ X.take k := by
  have e : ((pre.length : Int) + (k : Int)) = ((pre.length + k : Nat) : Int) := by omega
  unfold sliceTo
  rw [e, pyIdx_ofNat, List.length_append, Nat.min_eq_left (by omega), List.take_length_add_append]

theorem sliceFrom_append {α : Type} (pre X : List α) (k : Nat) (hk : k ≤ X.length) :
    sliceFrom (pre ++ X) ((pre.length : Int) + (k : Int)) = X.drop k := by
  have e : ((pre.length : Int) + (k : Int)) = ((pre.length + k : Nat) : Int) := by omega
  unfold sliceFrom
  rw [e, pyIdx_ofNat, List.length_append, Nat.min_eq_left (by omega), List.drop_length_add_append]

theorem slice_append {α : Type} (pre X : List α) (i j : Nat) (hi : i ≤ X.length) (hj : j ≤ X.length) :
    slice (pre ++ X) ((pre.length : Int) + (i : Int)) ((pre.length : Int) + (j : Int)) = (X.take j).drop i := by
  have ei : ((pre.length : Int) + (i : Int)) = ((pre.length + i : Nat) : Int) := by omega
  have ej : ((pre.length : Int) + (j : Int)) = ((pre.length + j : Nat) : Int) := by omega
  unfold slice
  rw [ei, ej, pyIdx_ofNat, pyIdx_ofNat, List.length_append, Nat.min_eq_left (by omega), Nat.min_eq_left (by omega),
    List.take_length_add_append, List.drop_length_add_append]

theorem slice_ofNat {α : Type} (X : List α) (i j : Nat) (hi : i ≤ X.length) (hj : j ≤ X.length) :
    slice X (i : Int) (j : Int) = (X.take j).drop i := by
  have := slice_append ([] : List α) X i j hi hj
  simpa using this

/-! ### Ranges -/

theorem RangesOK_le {β : Type} (len : Nat) : ∀ (rs : List (Nat × Nat × β)) (pos : Nat), RangesOK len pos rs → pos ≤ len
  | [], _, h => h
  | (b, e, _) :: rs, pos, h => by
    have := RangesOK_le len rs e h.2.2
    have h1 := h.1
    have h2 := h.2.1
    omega

theorem rangesOK_iff {β : Type} (len : Nat) : ∀ (rs : List (Nat × Nat × β)) (pos : Nat),
    rangesOK len pos rs = true ↔ RangesOK len pos rs
  | [], pos => by simp [rangesOK, RangesOK]
  | (b, e, _) :: rs, pos => by
    simp [rangesOK, RangesOK, rangesOK_iff len rs e, and_assoc]

instance {β : Type} (len pos : Nat) (rs : List (Nat × Nat × β)) : Decidable (RangesOK len pos rs) :=
  decidable_of_iff _ (rangesOK_iff len rs pos)

/-- equality of outcomes is decidable (for the examples) -/
scoped instance {ε α : Type} [DecidableEq ε] [DecidableEq α] : DecidableEq (Except ε α)
  | .ok a, .ok b => if h : a = b then isTrue (h ▸ rfl) else isFalse (fun e => by cases e; exact h rfl)
  | .error a, .error b => if h : a = b then isTrue (h ▸ rfl) else isFalse (fun e => by cases e; exact h rfl)
  | .ok _, .error _ => isFalse (fun e => by cases e)
  | .error _, .ok _ => isFalse (fun e => by cases e)

/-! ### The splice loop -/

/-- the loop invariant: after the ranges before position `p` have been handled the text is `pre ++ data0[p:]` and
    `offset = len(pre) - p`; the rest of the loop then produces `pre ++` the specification from `p` on -/
theorem spliceLoop_inv {α : Type} (data0 : List α) : ∀ (rs : List (Nat × Nat × List α)) (pre : List α) (p : Nat),
    RangesOK data0.length p rs →
    spliceLoop (pre ++ data0.drop p) ((pre.length : Int) - (p : Int)) rs = pre ++ spliceSpec data0 p rs
  | [], pre, p, _ => rfl
  | (b, e, repl) :: rs, pre, p, h => by
    have hpb := h.1
    have hbe := h.2.1
    have hel := RangesOK_le _ rs e h.2.2
    have hlen : (data0.drop p).length = data0.length - p := List.length_drop
    have hbeg : (b : Int) + ((pre.length : Int) - (p : Int)) = (pre.length : Int) + ((b - p : Nat) : Int) := by omega
    have hend : (e : Int) + ((pre.length : Int) - (p : Int)) = (pre.length : Int) + ((e - p : Nat) : Int) := by omega
    have h1 : (spliceStep (pre ++ data0.drop p) ((pre.length : Int) - (p : Int)) (b, e, repl)).1
        = (pre ++ (data0.drop p).take (b - p) ++ repl) ++ data0.drop e := by
      show sliceTo _ ((b : Int) + _) ++ repl ++ sliceFrom _ ((e : Int) + _) = _
      rw [hbeg, hend, sliceTo_append _ _ _ (by omega), sliceFrom_append _ _ _ (by omega), List.drop_drop]
      have : p + (e - p) = e := by omega
      rw [this]
    have hl : (pre ++ (data0.drop p).take (b - p) ++ repl).length = pre.length + (b - p) + repl.length := by
      rw [List.length_append, List.length_append, List.length_take, hlen, Nat.min_eq_left (by omega)]
    have h2 : (spliceStep (pre ++ data0.drop p) ((pre.length : Int) - (p : Int)) (b, e, repl)).2
        = ((pre ++ (data0.drop p).take (b - p) ++ repl).length : Int) - (e : Int) := by
      show ((pre.length : Int) - (p : Int)) + ((repl.length : Int) - (((e : Int) + _) - ((b : Int) + _))) = _
      rw [hl]
      omega
    show spliceLoop (spliceStep _ _ _).1 (spliceStep _ _ _).2 rs = _
    rw [h1, h2, spliceLoop_inv data0 rs _ e h.2.2]
    simp [spliceSpec, List.append_assoc]

theorem spliceAll_eq_spec {α : Type} (data : List α) (rs : List (Nat × Nat × List α))
    (h : RangesOK data.length 0 rs) : spliceAll data rs = spliceSpec data 0 rs := by
  have := spliceLoop_inv data rs [] 0 h
  simpa [spliceAll] using this

/-- the literal loop (replacement computed from the current text at the shifted positions) is the splice loop
    with the replacement computed from the ORIGINAL text, when every block has at least two characters -/
theorem encodeLoop_inv {α : Type} (enc : List α → List α) (data0 : List α) :
    ∀ (rs : List (Nat × Nat)) (pre : List α) (p : Nat),
    RangesOK data0.length p (rs.map (fun r => (r.1, r.2, ()))) → (∀ r ∈ rs, r.1 + 2 ≤ r.2) →
    encodeLoop enc (pre ++ data0.drop p) ((pre.length : Int) - (p : Int)) rs
      = spliceLoop (pre ++ data0.drop p) ((pre.length : Int) - (p : Int))
          (rs.map (fun r => (r.1, r.2, enc ((data0.take (r.2 - 1)).drop (r.1 + 1)))))
  | [], _, _, _, _ => rfl
  | (b, e) :: rs, pre, p, h, h2 => by
    have hpb : p ≤ b := h.1
    have hbe : b ≤ e := h.2.1
    have hrest : RangesOK data0.length e (rs.map (fun r => (r.1, r.2, ()))) := h.2.2
    have hel := RangesOK_le _ _ e hrest
    have hb2 : b + 2 ≤ e := h2 (b, e) (List.mem_cons_self ..)
    have hlen : (data0.drop p).length = data0.length - p := List.length_drop
    have hbeg : (b : Int) + ((pre.length : Int) - (p : Int)) = (pre.length : Int) + ((b - p : Nat) : Int) := by omega
    have hend : (e : Int) + ((pre.length : Int) - (p : Int)) = (pre.length : Int) + ((e - p : Nat) : Int) := by omega
    have hbeg1 : (b : Int) + ((pre.length : Int) - (p : Int)) + 1 = (pre.length : Int) + ((b + 1 - p : Nat) : Int) := by omega
    have hend1 : (e : Int) + ((pre.length : Int) - (p : Int)) - 1 = (pre.length : Int) + ((e - 1 - p : Nat) : Int) := by omega
    -- the literal that is evaluated is the one of the original text
    have hs : slice (pre ++ data0.drop p) ((b : Int) + ((pre.length : Int) - (p : Int)) + 1)
        ((e : Int) + ((pre.length : Int) - (p : Int)) - 1) = (data0.take (e - 1)).drop (b + 1) := by
      rw [hbeg1, hend1, slice_append _ _ _ _ (by omega) (by omega), List.take_drop, List.drop_drop]
      have e1 : p + (e - 1 - p) = e - 1 := by omega
      have e2 : p + (b + 1 - p) = b + 1 := by omega
      rw [e1, e2]
    have hstep : ∀ (repl : List α),
        sliceTo (pre ++ data0.drop p) ((b : Int) + ((pre.length : Int) - (p : Int))) ++ repl ++
          sliceFrom (pre ++ data0.drop p) ((e : Int) + ((pre.length : Int) - (p : Int)))
        = (pre ++ (data0.drop p).take (b - p) ++ repl) ++ data0.drop e := by
      intro repl
      rw [hbeg, hend, sliceTo_append _ _ _ (by omega), sliceFrom_append _ _ _ (by omega), List.drop_drop]
      have : p + (e - p) = e := by omega
      rw [this]
    have hoff : ∀ (repl : List α),
        ((pre.length : Int) - (p : Int)) + ((repl.length : Int) -
          (((e : Int) + ((pre.length : Int) - (p : Int))) - ((b : Int) + ((pre.length : Int) - (p : Int)))))
        = ((pre ++ (data0.drop p).take (b - p) ++ repl).length : Int) - (e : Int) := by
      intro repl
      rw [List.length_append, List.length_append, List.length_take, hlen, Nat.min_eq_left (by omega)]
      omega
    show encodeLoop enc (sliceTo _ _ ++ enc (slice _ _ _) ++ sliceFrom _ _) _ rs
       = spliceLoop (spliceStep _ _ _).1 (spliceStep _ _ _).2 _
    have hr : (spliceStep (pre ++ data0.drop p) ((pre.length : Int) - (p : Int))
          (b, e, enc ((data0.take (e - 1)).drop (b + 1)))) =
        (sliceTo (pre ++ data0.drop p) ((b : Int) + ((pre.length : Int) - (p : Int))) ++
            enc ((data0.take (e - 1)).drop (b + 1)) ++
            sliceFrom (pre ++ data0.drop p) ((e : Int) + ((pre.length : Int) - (p : Int))),
         ((pre.length : Int) - (p : Int)) + (((enc ((data0.take (e - 1)).drop (b + 1))).length : Int) -
          (((e : Int) + ((pre.length : Int) - (p : Int))) - ((b : Int) + ((pre.length : Int) - (p : Int)))))) := rfl
    rw [hr, hs, hstep, hoff]
    exact encodeLoop_inv enc data0 rs _ e hrest (fun r hr => h2 r (List.mem_cons_of_mem _ hr))

/-! ### Erasure: the characters outside the ranges -/

theorem keepOutsideFrom_append {α : Type} (rs : List (Nat × Nat)) : ∀ (l1 l2 : List α) (i : Nat),
    keepOutsideFrom rs (l1 ++ l2) i = keepOutsideFrom rs l1 i ++ keepOutsideFrom rs l2 (i + l1.length)
  | [], l2, i => by simp [keepOutsideFrom]
  | c :: cs, l2, i => by
    have ih := keepOutsideFrom_append rs cs l2 (i + 1)
    have e : i + 1 + cs.length = i + (cs.length + 1) := by omega
    simp only [List.cons_append, keepOutsideFrom, List.length_cons, ih, e]
    split <;> simp

theorem keepOutsideFrom_out {α : Type} (rs : List (Nat × Nat)) : ∀ (l : List α) (i : Nat),
    (∀ j, i ≤ j → j < i + l.length → inRanges rs j = false) → keepOutsideFrom rs l i = l
  | [], _, _ => rfl
  | c :: cs, i, h => by
    have h0 : inRanges rs i = false := h i (Nat.le_refl _) (by simp)
    have ih := keepOutsideFrom_out rs cs (i + 1) (fun j h1 h2 => h j (by omega) (by simp only [List.length_cons]; omega))
    simp [keepOutsideFrom, h0, ih]

theorem keepOutsideFrom_in {α : Type} (rs : List (Nat × Nat)) : ∀ (l : List α) (i : Nat),
    (∀ j, i ≤ j → j < i + l.length → inRanges rs j = true) → keepOutsideFrom rs l i = []
  | [], _, _ => rfl
  | c :: cs, i, h => by
    have h0 : inRanges rs i = true := h i (Nat.le_refl _) (by simp)
    have ih := keepOutsideFrom_in rs cs (i + 1) (fun j h1 h2 => h j (by omega) (by simp only [List.length_cons]; omega))
    simp [keepOutsideFrom, h0, ih]

/-- the empty replacement for every range -/
def erasing {α : Type} (rs : List (Nat × Nat)) : List (Nat × Nat × List α) := rs.map (fun r => (r.1, r.2, []))

theorem inRanges_before {α : Type} (len : Nat) : ∀ (rs : List (Nat × Nat)) (p j : Nat),
    RangesOK len p (erasing (α := α) rs) → j < p → inRanges rs j = false
  | [], _, _, _, _ => rfl
  | (b, e) :: rs, p, j, h, hj => by
    have h1 : p ≤ b := h.1
    have h2 : b ≤ e := h.2.1
    have ih := inRanges_before (α := α) len rs e j h.2.2 (by omega)
    have hb : decide (b ≤ j) = false := by simp; omega
    unfold inRanges at ih ⊢
    simp only [List.any_cons, ih, hb, Bool.false_and, Bool.or_false]

theorem spliceSpec_erasing {α : Type} (data : List α) (R : List (Nat × Nat)) : ∀ (rs : List (Nat × Nat)) (p : Nat),
    RangesOK data.length p (erasing (α := α) rs) → (∀ j, p ≤ j → inRanges R j = inRanges rs j) →
    spliceSpec data p (erasing rs) = keepOutsideFrom R (data.drop p) p
  | [], p, _, hR => by
    show data.drop p = _
    rw [keepOutsideFrom_out]
    intro j h1 _
    rw [hR j h1]; rfl
  | (b, e) :: rs, p, h, hR => by
    have hpb : p ≤ b := h.1
    have hbe : b ≤ e := h.2.1
    have hrest : RangesOK data.length e (erasing (α := α) rs) := h.2.2
    have hel := RangesOK_le _ _ e hrest
    have ih := spliceSpec_erasing data R rs e hrest (fun j hj => by
      rw [hR j (by omega)]
      have : decide (j < e) = false := by simp; omega
      unfold inRanges
      simp only [List.any_cons, this, Bool.and_false, Bool.false_or])
    -- data[p:] = data[p:b] ++ data[b:e] ++ data[e:]
    have hsplit : data.drop p = (data.drop p).take (b - p) ++ ((data.drop b).take (e - b) ++ data.drop e) := by
      have h1 : (data.drop p).take (b - p) ++ (data.drop p).drop (b - p) = data.drop p := List.take_append_drop _ _
      have h2 : (data.drop b).take (e - b) ++ (data.drop b).drop (e - b) = data.drop b := List.take_append_drop _ _
      rw [List.drop_drop] at h1 h2
      have e1 : p + (b - p) = b := by omega
      have e2 : b + (e - b) = e := by omega
      rw [e1] at h1; rw [e2] at h2
      rw [h2, h1]
    have l1 : ((data.drop p).take (b - p)).length = b - p := by
      rw [List.length_take, List.length_drop, Nat.min_eq_left (by omega)]
    have l2 : ((data.drop b).take (e - b)).length = e - b := by
      rw [List.length_take, List.length_drop, Nat.min_eq_left (by omega)]
    show (data.drop p).take (b - p) ++ [] ++ spliceSpec data e (erasing rs) = _
    conv => rhs; rw [hsplit]
    rw [keepOutsideFrom_append, keepOutsideFrom_append, l1, l2]
    have eb : p + (b - p) = b := by omega
    have ee : b + (e - b) = e := by omega
    rw [eb, ee, ← ih]
    rw [keepOutsideFrom_out, keepOutsideFrom_in]
    · simp
    · intro j h1 h2
      rw [l2] at h2
      rw [hR j (by omega)]
      have c1 : decide (b ≤ j) = true := by simp; omega
      have c2 : decide (j < e) = true := by simp; omega
      unfold inRanges
      simp only [List.any_cons, c1, c2, Bool.and_self, Bool.true_or]
    · intro j h1 h2
      rw [l1] at h2
      rw [hR j h1]
      have c1 : decide (b ≤ j) = false := by simp; omega
      have := inRanges_before (α := α) data.length rs e j hrest (by omega)
      unfold inRanges at this ⊢
      simp only [List.any_cons, c1, this, Bool.false_and, Bool.or_false]

/-! ### The tag regex and the search loop -/

theorem tagRun_le : ∀ (l : List Char), tagRun l ≤ l.length
  | [] => Nat.le_refl _
  | c :: cs => by
    unfold tagRun
    split
    · have := tagRun_le cs; simp only [List.length_cons]; omega
    · omega

/-- a match at the start of `l`: group 1 has at least two characters (`!` and one more), `{{` follows it -/
theorem matchTagHere_some (l : List Char) (n : Nat) (h : matchTagHere l = some n) :
    2 ≤ n ∧ n + 2 ≤ l.length ∧ (l.drop n).take 2 = ['{', '{'] := by
  unfold matchTagHere at h
  split at h
  · rename_i cs
    split at h
    · rename_i hc
      cases h
      refine ⟨by omega, ?_, hc.2⟩
      have hl : ((cs.drop (tagRun cs)).take 2).length = 2 := by rw [hc.2]; rfl
      rw [List.length_take, List.length_drop] at hl
      simp only [List.length_cons]
      omega
    · cases h
  · cases h

theorem searchFrom_some : ∀ (l : List Char) (i s b : Nat), searchFrom l i = some (s, b) →
    i ≤ s ∧ s + 2 ≤ b ∧ b + 2 ≤ i + l.length ∧ (l.drop (b - i)).take 2 = ['{', '{']
  | [], _, _, _, h => by cases h
  | c :: cs, i, s, b, h => by
    unfold searchFrom at h
    split at h
    · rename_i n hn
      cases h
      have := matchTagHere_some _ _ hn
      refine ⟨Nat.le_refl _, by omega, by omega, ?_⟩
      have e : i + n - i = n := by omega
      rw [e]; exact this.2.2
    · have ih := searchFrom_some cs (i + 1) s b h
      refine ⟨by omega, ih.2.1, by simp only [List.length_cons]; omega, ?_⟩
      have e : b - i = (b - (i + 1)) + 1 := by omega
      rw [e, List.drop_succ_cons]; exact ih.2.2.2

/-- what a successful `search(data, pos)` guarantees: the match starts at or after `pos`, group 1 ends at `beg`,
    at least two characters later, and the text has `{{` at `beg` -/
theorem findTag_some (data : List Char) (pos s b : Nat) (h : findTag data pos = some (s, b)) :
    pos ≤ s ∧ s + 2 ≤ b ∧ b + 2 ≤ data.length ∧ (data.drop b).take 2 = ['{', '{'] := by
  unfold findTag at h
  have := searchFrom_some _ _ _ _ h
  rw [List.length_drop, List.drop_drop] at this
  have e : pos + (b - pos) = b := by omega
  rw [e] at this
  refine ⟨this.1, this.2.1, by omega, this.2.2.2⟩

/-- the assumption on `_get_metadata_end`: asked at a `{{`, an end it reports is not before it and inside the text -/
def EndInside (data : List Char) (findEnd : Nat → Option Nat) : Prop :=
  ∀ b e, (data.drop b).take 2 = ['{', '{'] → findEnd b = some e → b ≤ e ∧ e ≤ data.length

/-- the weaker assumption that is enough for termination: an end is not before its `{{` -/
def EndForward (data : List Char) (findEnd : Nat → Option Nat) : Prop :=
  ∀ b e, (data.drop b).take 2 = ['{', '{'] → findEnd b = some e → b ≤ e

theorem EndInside.forward {data : List Char} {findEnd : Nat → Option Nat} (h : EndInside data findEnd) :
    EndForward data findEnd := fun b e h1 h2 => (h b e h1 h2).1

theorem rangesLoop_no_fuel (findEnd : Nat → Option Nat) (data : List Char) (hf : EndForward data findEnd) :
    ∀ (fuel pos : Nat), data.length - pos + 1 ≤ fuel → rangesLoop findEnd data fuel pos ≠ .error .fuel
  | 0, _, h => by omega
  | fuel + 1, pos, h => by
    unfold rangesLoop
    split
    · intro hc; cases hc
    · rename_i s b ht
      have ft := findTag_some _ _ _ _ ht
      split
      · intro hc; cases hc
      · rename_i e he
        have hbe := hf b e ft.2.2.2 he
        have ih := rangesLoop_no_fuel findEnd data hf fuel (e + 1) (by omega)
        split
        · rename_i x hx
          intro hc
          injection hc with hc
          rw [hc] at hx
          exact ih hx
        · intro hc; cases hc

theorem rangesLoop_fuel_irrelevant (findEnd : Nat → Option Nat) (data : List Char) (hf : EndForward data findEnd) :
    ∀ (f1 f2 pos : Nat), data.length - pos + 1 ≤ f1 → data.length - pos + 1 ≤ f2 →
      rangesLoop findEnd data f1 pos = rangesLoop findEnd data f2 pos
  | 0, _, _, h, _ => by omega
  | _ + 1, 0, _, _, h => by omega
  | f1 + 1, f2 + 1, pos, h1, h2 => by
    unfold rangesLoop
    split
    · rfl
    · rename_i s b ht
      have ft := findTag_some _ _ _ _ ht
      split
      · rfl
      · rename_i e he
        have hbe := hf b e ft.2.2.2 he
        rw [rangesLoop_fuel_irrelevant findEnd data hf f1 f2 (e + 1) (by omega) (by omega)]

/-- every range the loop yields is a `{{` position with the end the end finder gave for it -/
theorem rangesLoop_mem (findEnd : Nat → Option Nat) (data : List Char) :
    ∀ (fuel pos : Nat) (rs : List (Nat × Nat)), rangesLoop findEnd data fuel pos = .ok rs →
      ∀ r ∈ rs, (data.drop r.1).take 2 = ['{', '{'] ∧ findEnd r.1 = some r.2
  | 0, _, _, h => by cases h
  | fuel + 1, pos, rs, h => by
    unfold rangesLoop at h
    split at h
    · cases h; intro r hr; cases hr
    · rename_i s b ht
      have ft := findTag_some _ _ _ _ ht
      split at h
      · cases h
      · rename_i e he
        split at h
        · cases h
        · rename_i rs' hrs
          cases h
          intro r hr
          rcases List.mem_cons.mp hr with h1 | h1
          · subst h1; exact ⟨ft.2.2.2, he⟩
          · exact rangesLoop_mem findEnd data fuel (e + 1) rs' hrs r h1

theorem rangesLoop_ok {β : Type} (findEnd : Nat → Option Nat) (data : List Char) (hf : EndInside data findEnd)
    (repl : Nat → Nat → β) :
    ∀ (fuel pos : Nat) (rs : List (Nat × Nat)), rangesLoop findEnd data fuel pos = .ok rs →
      ∀ p, p ≤ pos → p ≤ data.length → RangesOK data.length p (rs.map (fun r => (r.1, r.2, repl r.1 r.2)))
  | 0, _, _, h => by cases h
  | fuel + 1, pos, rs, h => by
    unfold rangesLoop at h
    split at h
    · cases h; intro p _ hp; exact hp
    · rename_i s b ht
      have ft := findTag_some _ _ _ _ ht
      split at h
      · cases h
      · rename_i e he
        have hbe := hf b e ft.2.2.2 he
        split at h
        · cases h
        · rename_i rs' hrs
          cases h
          intro p hp _
          exact ⟨by omega, hbe.1, rangesLoop_ok findEnd data hf repl fuel (e + 1) rs' hrs e (by omega) hbe.2⟩

/-- without a `{{` nothing matches -/
theorem findTag_none_of_no_braces (data : List Char) (h : ∀ i, (data.drop i).take 2 ≠ ['{', '{']) (pos : Nat) :
    findTag data pos = none := by
  cases ht : findTag data pos with
  | none => rfl
  | some sb =>
    obtain ⟨s, b⟩ := sb
    exact absurd (findTag_some _ _ _ _ ht).2.2.2 (h b)

/-! ### The special / user split -/

section split
variable {α β : Type} [DecidableEq α]

theorem derase_eq_filter (k : α) : ∀ (m : List (α × β)), derase k m = m.filter (fun kv => !decide (kv.1 = k))
  | [] => rfl
  | (k', v) :: rest => by
    unfold derase
    by_cases h : k' = k <;> simp [h, derase_eq_filter k rest]

theorem dlookup_derase_self (k : α) : ∀ (m : List (α × β)), dlookup k (derase k m) = none
  | [] => rfl
  | (k', v) :: rest => by
    unfold derase
    by_cases h : k' = k
    · simp [h, dlookup_derase_self k rest]
    · simp [h, dlookup, dlookup_derase_self k rest]

theorem dlookup_derase_other (k k2 : α) (hne : k2 ≠ k) : ∀ (m : List (α × β)), dlookup k2 (derase k m) = dlookup k2 m
  | [] => rfl
  | (k', v) :: rest => by
    unfold derase
    by_cases h : k' = k
    · have : ¬ k' = k2 := fun h' => hne (h' ▸ h)
      simp [h, dlookup, dlookup_derase_other k k2 hne rest]
      intro h3; exact absurd h3.symm hne
    · by_cases h2 : k' = k2
      · subst h2; simp [h, dlookup]
      · simp [h, h2, dlookup, dlookup_derase_other k k2 hne rest]

theorem dlookup_none_iff (k : α) : ∀ (m : List (α × β)), dlookup k m = none ↔ k ∉ m.map Prod.fst
  | [] => by simp [dlookup]
  | (k', v) :: rest => by
    unfold dlookup
    by_cases h : k' = k
    · simp [h]
    · have h' : ¬ k = k' := fun e => h e.symm
      simp [h, h', dlookup_none_iff k rest]

theorem dlookup_of_mem (k : α) (v : β) : ∀ (m : List (α × β)), (m.map Prod.fst).Nodup → (k, v) ∈ m → dlookup k m = some v
  | [], _, h => by cases h
  | (k', v') :: rest, hn, h => by
    simp only [List.map_cons, List.nodup_cons] at hn
    unfold dlookup
    rcases List.mem_cons.mp h with h1 | h1
    · cases h1; simp
    · have : k' ≠ k := by
        intro e; subst e
        exact hn.1 (List.mem_map.mpr ⟨(k', v), h1, rfl⟩)
      simp [this, dlookup_of_mem k v rest hn.2 h1]

theorem mem_of_dlookup (k : α) (v : β) : ∀ (m : List (α × β)), dlookup k m = some v → (k, v) ∈ m
  | [], h => by cases h
  | (k', v') :: rest, h => by
    unfold dlookup at h
    by_cases e : k' = k
    · simp [e] at h; subst h; subst e; exact List.mem_cons_self ..
    · simp [e] at h; exact List.mem_cons_of_mem _ (mem_of_dlookup k v rest h)

theorem dset_append (k : α) (v : β) : ∀ (m : List (α × β)), k ∉ m.map Prod.fst → dset k v m = m ++ [(k, v)]
  | [], _ => rfl
  | (k', v') :: rest, h => by
    simp only [List.map_cons, List.mem_cons, not_or] at h
    have : ¬ k' = k := fun e => h.1 e.symm
    simp [dset, this, dset_append k v rest h.2]

theorem filterMap_congr' {γ δ : Type} (f g : γ → Option δ) : ∀ (l : List γ), (∀ x ∈ l, f x = g x) →
    l.filterMap f = l.filterMap g
  | [], _ => rfl
  | x :: xs, h => by
    rw [List.filterMap_cons, List.filterMap_cons, h x (List.mem_cons_self ..),
      filterMap_congr' f g xs (fun y hy => h y (List.mem_cons_of_mem _ hy))]

/-- what is left in `metadata` after the loop: the entries whose key is not special, in their order -/
theorem split_user (sp : List α) : ∀ (kw m : List (α × β)),
    (sp.foldl splitStep (kw, m)).2 = m.filter (fun kv => !sp.contains kv.1) := by
  induction sp with
  | nil => intro kw m; exact (List.filter_eq_self.mpr (fun _ _ => rfl)).symm
  | cons s sp ih =>
    intro kw m
    rw [List.foldl_cons]
    cases hl : dlookup s m with
    | some v =>
      have hstep : splitStep (kw, m) s = (dset s v kw, derase s m) := by simp [splitStep, hl]
      rw [hstep]
      rw [ih, derase_eq_filter, List.filter_filter]
      congr 1
      funext kv
      by_cases e : kv.1 = s
      · simp [e]
      · simp [e]
    | none =>
      have hstep : splitStep (kw, m) s = (kw, m) := by simp [splitStep, hl]
      rw [hstep]
      rw [ih]
      have hs := (dlookup_none_iff s m).mp hl
      apply List.filter_congr
      intro kv hkv
      have : kv.1 ≠ s := by
        intro e; exact hs (e ▸ List.mem_map.mpr ⟨kv, hkv, rfl⟩)
      simp [this]

/-- the keyword part: the special names that occur, in the order of the special list, with the values of the mapping -/
theorem split_kw : ∀ (sp : List α), sp.Nodup → ∀ (kw m : List (α × β)), (∀ s ∈ sp, s ∉ kw.map Prod.fst) →
    (sp.foldl splitStep (kw, m)).1 = kw ++ sp.filterMap (fun s => (dlookup s m).map (fun v => (s, v)))
  | [], _, kw, m, _ => by simp
  | s :: sp, hn, kw, m, hk => by
    simp only [List.nodup_cons] at hn
    rw [List.foldl_cons, List.filterMap_cons]
    cases hl : dlookup s m with
    | some v =>
      have hs : s ∉ kw.map Prod.fst := hk s (List.mem_cons_self ..)
      have hstep : splitStep (kw, m) s = (kw ++ [(s, v)], derase s m) := by
        simp [splitStep, hl, dset_append s v kw hs]
      rw [hstep]
      simp only [Option.map_some]
      rw [split_kw sp hn.2 (kw ++ [(s, v)]) (derase s m)]
      · rw [List.append_assoc]
        congr 1
        simp only [List.singleton_append, List.cons.injEq, true_and]
        exact filterMap_congr' _ _ sp (fun s' hs' => by
          have : s' ≠ s := fun e => hn.1 (e ▸ hs')
          rw [dlookup_derase_other s s' this])
      · intro s' hs'
        have h1 := hk s' (List.mem_cons_of_mem _ hs')
        have : s' ≠ s := fun e => hn.1 (e ▸ hs')
        simp only [List.map_append, List.map_cons, List.map_nil, List.mem_append, List.mem_cons, List.mem_nil_iff,
          or_false, not_or]
        exact ⟨h1, this⟩
    | none =>
      have hstep : splitStep (kw, m) s = (kw, m) := by simp [splitStep, hl]
      rw [hstep]
      simp only [Option.map_none]
      exact split_kw sp hn.2 kw m (fun s' hs' => hk s' (List.mem_cons_of_mem _ hs'))

end split

end AY.MetaText
