/-
  AY.Lemmas.C16PipeAmong — the three operators at a path of the last stage AMONG ANY NUMBER of other operators
  of that stage (`opsStage`), when the paths the other operators touch are independent of the operator's own
  path / target.  Helpers for AY.Props.C16_Pipeline.
-/
import AY.Lemmas.C16PipeTrack
namespace AY.C16P
open AY.C04P

theorem touched_grow (X : Path) (f : Flags) (ck : CompKind) (cs : List (Key × Node))
    (hck : ck = .append ∨ ck = .extend) : touched X (.comp f ck cs) = [X] := by
  rcases hck with rfl | rfl <;> rfl

theorem touched_prev (X : Path) (f : Flags) (ps : String) (tp : Path) (h : splitPath ps = some tp) :
    touched X (.leaf f (.prev ps)) = [tp] := by
  simp [touched, h]

theorem isOp_grow (f : Flags) (ck : CompKind) (cs : List (Key × Node)) (hck : ck = .append ∨ ck = .extend) :
    isOp (.comp f ck cs) = true := by
  rcases hck with rfl | rfl <;> rfl

/-- in a tree of mappings along `X`, no data at `X` means no node at `X` -/
theorem getNode_none_of_at_none (X : Path) (n : Node) (hd : dictAlong X n = true) (h : (native n).at? X = none) :
    getNode n X = none := by
  cases hg : getNode n X with
  | none => rfl
  | some m => rw [getNode_at X n m hd hg] at h; cases h

/-- `!append` / `!extend` on an existing list, among other operators -/
theorem grow_among (xs : List Node) (o s r : Node) (k : Key) (p : Path) (f : Flags) (ck : CompKind)
    (cs : List (Key × Node)) (tf : Flags) (tk : CompKind) (tcs : List (Key × Node))
    (hck : ck = .append ∨ ck = .extend) (hx : xs ≠ [])
    (hs : flattenWith (premergeF (stagesFuel (xs ++ [o]))) xs = .ok s)
    (hst : opsStage o = true) (hbuild : flatten (xs ++ [o]) = .ok r)
    (hlive : liveAlong (k :: p) o = true) (hg : getNode o (k :: p) = some (.comp f ck cs))
    (hX : ∀ y, y ∈ touched [] o → dictAlong y s = true)
    (hse : getNode s (k :: p) = some (.comp tf tk tcs)) (hk : tk.isListFam = true)
    (hI : ∀ y, y ∈ (touched [] o).erase (k :: p) → indep (k :: p) y = true) :
    ∀ q, (native r).at? (k :: p ++ q) = (Plain.list (nativeVals tcs ++ cs.map (fun kv => native kv.2))).at? q := by
  obtain ⟨s', o', bb, ⟨B, A, s_at, v, s_after, t1, t2, t3, t4, t5, t6⟩, hm⟩ :=
    ops_track_last xs o s r (k :: p) _ hx hs hst hbuild (by simp) hlive hg (isOp_grow f ck cs hck)
  simp only [List.nil_append, touched_grow _ f ck cs hck] at t1 t3
  have hoth := mem_others t1 hI
  have hmemB : ∀ y, y ∈ B → y ∈ touched [] o := fun y hy => by rw [t1]; simp [hy]
  have hmemA : ∀ y, y ∈ A → y ∈ touched [] o := fun y hy => by rw [t1]; simp [hy]
  have hXd : dictAlong (k :: p) s = true := hX _ (by rw [t1]; simp)
  obtain ⟨a1, b1⟩ := t2 (fun y hy => hX y (hmemB y hy))
  have hd_at := a1 _ hXd
  have hd : tk.isDictFam = false := by simpa [CompKind.isListFam] using hk
  have hat : (native s_at).at? (k :: p) = some (.list (nativeVals tcs)) := by
    rw [b1 _ (fun y hy => hoth y (by simp [hy])), getNode_at _ s _ hXd hse]
    simp [native, hd]
  obtain ⟨m, hm1, hm2⟩ := getNode_of_at _ s_at _ hd_at hat
  obtain ⟨tf', tk', tcs', rfl, hk', hvals⟩ := comp_of_native_list hm2
  have hr' := removeNode_dictAlong (k :: p) s_at _ (by simp) hd_at hm1
  rw [premergeF_grow 0 f ck cs (k :: p) s_at _ tf' tk' tcs' hck hr' hk'] at t3
  simp only [Except.ok.injEq, Prod.mk.injEq, Option.some.injEq, true_and] at t3
  obtain ⟨rfl, rfl⟩ := t3
  have hd_after : dictAlong (k :: p) (eraseAt (k :: p) s_at) = true := dictAlong_eraseAt _ _ s_at hd_at
  obtain ⟨a2, b2⟩ := t4 (fun y hy => dictAlong_eraseAt _ y s_at (a1 y (hX y (hmemA y hy))))
  have hd' := a2 _ hd_after
  have hnone : getNode s' (k :: p) = none := by
    apply getNode_none_of_at_none _ _ hd'
    rw [b2 _ (fun y hy => hoth y (by simp [hy]))]
    exact at_none_of_getNode_none _ _ hd_after (getNode_eraseAt_self _ s_at (by simp) hd_at)
  intro q
  rw [at_new_path p k _ s' o' r bb _ hd' t6 hm hnone t5 q, native_adopt]
  have hd2 : tk'.isDictFam = false := by simpa [CompKind.isListFam] using hk'
  simp [native, hd2, c16_nativeVals_extendList, List.map_map, Function.comp_def, hvals]

/-- `!extend` with nothing at its path, among other operators -/
theorem extend_new_among (xs : List Node) (o s r : Node) (k : Key) (p : Path) (f : Flags)
    (cs : List (Key × Node)) (hx : xs ≠ [])
    (hs : flattenWith (premergeF (stagesFuel (xs ++ [o]))) xs = .ok s)
    (hst : opsStage o = true) (hbuild : flatten (xs ++ [o]) = .ok r)
    (hlive : liveAlong (k :: p) o = true) (hg : getNode o (k :: p) = some (.comp f .extend cs))
    (hX : ∀ y, y ∈ touched [] o → dictAlong y s = true)
    (hse : getNode s (k :: p) = none)
    (hI : ∀ y, y ∈ (touched [] o).erase (k :: p) → indep (k :: p) y = true) :
    ∀ q, (native r).at? (k :: p ++ q) = (Plain.list (cs.map (fun kv => native kv.2))).at? q := by
  obtain ⟨s', o', bb, ⟨B, A, s_at, v, s_after, t1, t2, t3, t4, t5, t6⟩, hm⟩ :=
    ops_track_last xs o s r (k :: p) _ hx hs hst hbuild (by simp) hlive hg (isOp_grow f .extend cs (.inr rfl))
  simp only [List.nil_append, touched_grow _ f .extend cs (.inr rfl)] at t1 t3
  have hoth := mem_others t1 hI
  have hmemB : ∀ y, y ∈ B → y ∈ touched [] o := fun y hy => by rw [t1]; simp [hy]
  have hmemA : ∀ y, y ∈ A → y ∈ touched [] o := fun y hy => by rw [t1]; simp [hy]
  have hXd : dictAlong (k :: p) s = true := hX _ (by rw [t1]; simp)
  obtain ⟨a1, b1⟩ := t2 (fun y hy => hX y (hmemB y hy))
  have hd_at := a1 _ hXd
  have hnone_at : getNode s_at (k :: p) = none := by
    apply getNode_none_of_at_none _ _ hd_at
    rw [b1 _ (fun y hy => hoth y (by simp [hy]))]
    exact at_none_of_getNode_none _ _ hXd hse
  rw [premergeF_extend_fallback 0 f cs (k :: p) s_at (by intro tf tk tcs h; rw [hnone_at] at h; cases h)] at t3
  simp only [Except.ok.injEq, Prod.mk.injEq, Option.some.injEq, true_and] at t3
  obtain ⟨rfl, rfl⟩ := t3
  obtain ⟨a2, b2⟩ := t4 (fun y hy => a1 y (hX y (hmemA y hy)))
  have hd' := a2 _ hd_at
  have hnone : getNode s' (k :: p) = none := by
    apply getNode_none_of_at_none _ _ hd'
    rw [b2 _ (fun y hy => hoth y (by simp [hy]))]
    exact at_none_of_getNode_none _ _ hd_at hnone_at
  intro q
  rw [at_new_path p k _ s' o' r bb _ hd' t6 hm hnone t5 q, native_adopt, c16_native_newPlainList]
  simp [List.map_map, Function.comp_def]

/-- `!prev` onto a new path, among other operators -/
theorem prev_among (xs : List Node) (o s r : Node) (k : Key) (p : Path) (f : Flags) (ps : String) (tp : Path)
    (d : Node) (hx : xs ≠ [])
    (hs : flattenWith (premergeF (stagesFuel (xs ++ [o]))) xs = .ok s)
    (hst : opsStage o = true) (hbuild : flatten (xs ++ [o]) = .ok r)
    (hlive : liveAlong (k :: p) o = true) (hg : getNode o (k :: p) = some (.leaf f (.prev ps)))
    (hsp : splitPath ps = some tp) (hne : tp ≠ [])
    (hX : ∀ y, y ∈ touched [] o → dictAlong y s = true)
    (htg : getNode s tp = some d)
    (hI : ∀ y, y ∈ (touched [] o).erase tp → indep tp y = true)
    (hqd : dictAlong (k :: p) s = true) (hq : getNode s (k :: p) = none)
    (hqI : ∀ y, y ∈ touched [] o → indep (k :: p) y = true) :
    ∀ q, (native r).at? (k :: p ++ q) = (native d).at? q := by
  obtain ⟨s', o', bb, ⟨B, A, s_at, v, s_after, t1, t2, t3, t4, t5, t6⟩, hm⟩ :=
    ops_track_last xs o s r (k :: p) _ hx hs hst hbuild (by simp) hlive hg rfl
  simp only [List.nil_append, touched_prev _ f ps tp hsp] at t1 t3
  have hoth := mem_others t1 hI
  have hmemB : ∀ y, y ∈ B → y ∈ touched [] o := fun y hy => by rw [t1]; simp [hy]
  have hmemA : ∀ y, y ∈ A → y ∈ touched [] o := fun y hy => by rw [t1]; simp [hy]
  have htd : dictAlong tp s = true := hX _ (by rw [t1]; simp)
  obtain ⟨a1, b1⟩ := t2 (fun y hy => hX y (hmemB y hy))
  have hd_at := a1 _ htd
  have hat : (native s_at).at? tp = some (native d) := by
    rw [b1 _ (fun y hy => hoth y (by simp [hy])), getNode_at _ s _ htd htg]
  obtain ⟨m, hm1, hm2⟩ := getNode_of_at _ s_at _ hd_at hat
  have hr' := removeNode_dictAlong tp s_at m hne hd_at hm1
  rw [premergeF_prev 0 f ps (k :: p) tp s_at _ m hsp hr'] at t3
  simp only [Except.ok.injEq, Prod.mk.injEq, Option.some.injEq, true_and] at t3
  obtain ⟨rfl, rfl⟩ := t3
  obtain ⟨a2, b2⟩ := t4 (fun y hy => dictAlong_eraseAt _ y s_at (a1 y (hX y (hmemA y hy))))
  have hd' : dictAlong (k :: p) s' = true := a2 _ (dictAlong_eraseAt _ _ s_at (a1 _ hqd))
  have hnone : getNode s' (k :: p) = none := by
    apply getNode_none_of_at_none _ _ hd'
    rw [b2 _ (fun y hy => hqI y (hmemA y hy)),
      at_eraseAt_indep tp (k :: p) s_at hd_at (hqI tp (by rw [t1]; simp)),
      b1 _ (fun y hy => hqI y (hmemB y hy))]
    exact at_none_of_getNode_none _ _ hqd hq
  intro q
  rw [at_new_path p k _ s' o' r bb _ hd' t6 hm hnone t5 q, native_adopt, hm2]

end AY.C16P
