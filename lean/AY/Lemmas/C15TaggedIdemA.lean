/-
  AY.Lemmas.C15TaggedIdemA — building blocks of the idempotence clause of C15 on trees of mappings:

  * `filterNode_shift`, `sub`, `alookup_kept`: the pruning of a deleting mapping, seen from one key, is
    the pruning relative to the entry the newer mapping has under that key;
  * `pruneAt_idem`: `filter_nodes` is idempotent;
  * `selfPrune`: a copy of the newer tree never survives the pruning by that tree;
  * `selfMerge`: merging a copy of `v` (up to `PermC`) with `v` gives `v` again;
  * `mergeF_cong`: the merge respects `PermC` in its first argument.
-/
import AY.Lemmas.C15TaggedSpec
namespace AY.C15T
open AY.C15W (NN nnList nnF)

/-! ### priorities -/

theorem hasPrio_false_eq_not (a b : Flags) : hasPrio a b false = !hasPrio b a true := by
  simp only [hasPrio]
  by_cases h : ePrio a = ePrio b
  · simp [h]
  · have h' : ¬ ePrio b = ePrio a := fun e => h e.symm
    simp only [h, h', if_false]
    by_cases h2 : ePrio a > ePrio b
    · have : ¬ ePrio b > ePrio a := by omega
      simp [h2, this]
    · have : ePrio b > ePrio a := by omega
      simp [h2, this]

theorem hasPrio_core_eq {f g : Flags} (h : coreF f = coreF g) :
    hasPrio f g false = false ∧ hasPrio g f true = true := by
  have := (coreF_eq_iff.1 h).1
  simp [hasPrio, this]

theorem coreF_finishFlags_idem (sf of : Flags) : coreF (finishFlags (finishFlags sf of) of) = coreF (finishFlags sf of) := by
  rw [coreF_finishFlags, coreF_finishFlags]
  cases h : hasPrio of sf true with
  | true =>
    simp only [if_true]
    have : hasPrio of (finishFlags sf of) true = true := by
      have e : coreF (finishFlags sf of) = coreF of := by rw [coreF_finishFlags, h]; rfl
      exact (hasPrio_core_eq e).2
    simp [this]
  | false =>
    simp only [Bool.false_eq_true, if_false]
    have : hasPrio of (finishFlags sf of) true = false := by
      have e : coreF (finishFlags sf of) = coreF sf := by rw [coreF_finishFlags, h]; rfl
      rw [hasPrio_of_coreF rfl e true, h]
    simp [this]

/-! ### the pruning seen from one key -/

mutual
theorem filterNode_shift (cond : Path → Node → Bool) (pre1 : Path) : ∀ (pre2 : Path) (n : Node),
    (filterNode cond (pre1 ++ pre2) n).1 = (filterNode (fun q => cond (pre1 ++ q)) pre2 n).1
  | _, .leaf f k => rfl
  | pre2, .comp f k cs => by
    simp only [filterNode, filterList_shift cond pre1 pre2 cs]
theorem filterList_shift (cond : Path → Node → Bool) (pre1 : Path) : ∀ (pre2 : Path) (cs : List (Key × Node)),
    (filterList cond (pre1 ++ pre2) cs).1 = (filterList (fun q => cond (pre1 ++ q)) pre2 cs).1
  | _, [] => rfl
  | pre2, (name, child) :: rest => by
    have e := filterNode_shift cond pre1 (pre2 ++ [name]) child
    simp only [filterList, List.append_assoc, e, filterList_shift cond pre1 pre2 rest]
end

/-- the node of the newer tree that decides about paths below the key `k`: the entry under `k`, or —
    when there is none — the mapping itself (only its flags matter: a leaf carrying them) -/
def sub (o : Node) (k : Key) : Node :=
  match o with
  | .leaf f lk => .leaf f lk
  | .comp f _ cs =>
    match alookup k cs with
    | some v => v
    | none => .leaf f (.scalar .null)

theorem maybeKeep_sub (o : Node) (k : Key) : (fun q => maybeKeep o ([k] ++ q)) = maybeKeep (sub o k) := by
  funext q n
  cases o with
  | leaf f lk =>
    simp only [maybeKeep, sub, List.singleton_append, firstNotMissing]
    cases q <;> rfl
  | comp f kd cs =>
    simp only [maybeKeep, sub, List.singleton_append, firstNotMissing]
    cases alookup k cs with
    | some v => rfl
    | none => cases q <;> rfl

theorem sub_of_lookup {f : Flags} {kd : CompKind} {cs : List (Key × Node)} {k : Key} {v : Node}
    (h : alookup k cs = some v) : sub (.comp f kd cs) k = v := by
  simp only [sub, h]

theorem pruneAt_shift (o : Node) (k : Key) (c : Node) :
    pruneAt (maybeKeep o) [k] c = pruneAt (maybeKeep (sub o k)) [] c := by
  have e := filterNode_shift (maybeKeep o) [k] [] c
  rw [maybeKeep_sub] at e
  simp only [List.append_nil] at e
  have e2 : maybeKeep o [k] c = maybeKeep (sub o k) [] c := by
    have := congrFun (congrFun (maybeKeep_sub o k) []) c
    simpa using this
  simp only [pruneAt, e, e2]

/-- what survives under the key `k` of a mapping pruned by `o` -/
theorem alookup_kept (o : Node) (k : Key) (cs : List (Key × Node)) (hn : keysNodup cs = true) :
    alookup k (keptChildren (maybeKeep o) [] cs) = (alookup k cs).bind (pruneAt (maybeKeep (sub o k)) []) := by
  rw [alookup_keptChildren _ [] k cs hn]
  cases alookup k cs with
  | none => rfl
  | some c =>
    simp only [Option.bind, keptAtP_eq, List.nil_append]
    exact pruneAt_shift o k c

/-! ### `filter_nodes` is idempotent -/

theorem filterNode_flags (cond : Path → Node → Bool) (p : Path) (n : Node) :
    (filterNode cond p n).1.flags = n.flags := by
  cases n <;> rfl

theorem filterNode_isComp (cond : Path → Node → Bool) (p : Path) (n : Node) :
    (filterNode cond p n).1.isComp = n.isComp := by
  cases n <;> rfl

theorem filterNode_idem {cond : Path → Node → Bool} (hc : CoreCond cond) :
    ∀ (d : Nat) (n : Node), n.depth ≤ d → dictTree n = true → ∀ p,
      (filterNode cond p (filterNode cond p n).1).1 = (filterNode cond p n).1 := by
  intro d
  induction d with
  | zero =>
    intro n hd _ p
    cases n with
    | leaf f k => rfl
    | comp f k cs => simp [Node.depth] at hd
  | succ d ih =>
    intro n hd ht p
    cases n with
    | leaf f k => rfl
    | comp f k cs =>
      obtain ⟨rfl, hn, hl⟩ := dictTree_comp ht
      have hdl : depthList cs ≤ d := by simp only [Node.depth] at hd; omega
      rw [c04_filterNode_dict_kept cond p f .dict cs rfl hn,
        c04_filterNode_dict_kept cond p f .dict _ rfl (keysNodup_keptChildren cond p cs hn)]
      congr 1
      have key : ∀ (l : List (Key × Node)), depthList l ≤ d → dictTreeList l = true →
          keptChildren cond p (keptChildren cond p l) = keptChildren cond p l := by
        intro l
        induction l with
        | nil => intro _ _; rfl
        | cons kv rest ihl =>
          obtain ⟨name, child⟩ := kv
          intro hdl' hl'
          have hd1 : child.depth ≤ d ∧ depthList rest ≤ d := by simp only [depthList] at hdl'; omega
          have hl1 : dictTree child = true ∧ dictTreeList rest = true := by simpa [dictTreeList] using hl'
          have e1 := ih child hd1.1 hl1.1 (p ++ [name])
          simp only [keptChildren]
          split
          · rename_i hkeep
            simp only [keptChildren, e1]
            have hcf : cond (p ++ [name]) (filterNode cond (p ++ [name]) child).1 = cond (p ++ [name]) child :=
              hc.flags _ _ _ (filterNode_flags cond _ child)
            rw [hcf, filterNode_isComp, hkeep]
            simp only [if_true, ihl hd1.2 hl1.2]
          · exact ihl hd1.2 hl1.2
      exact key cs hdl hl

/-- a node that survived the pruning survives it again, unchanged -/
theorem pruneAt_idem {cond : Path → Node → Bool} (hc : CoreCond cond) {c0 c : Node} (ht : dictTree c0 = true)
    (p : Path) (h : pruneAt cond p c0 = some c) : pruneAt cond p c = some c := by
  simp only [pruneAt] at h ⊢
  split at h
  · rename_i hk
    injection h with h
    subst h
    have e := filterNode_idem hc c0.depth c0 (Nat.le_refl _) ht p
    rw [e, hc.flags _ _ _ (filterNode_flags cond p c0), filterNode_isComp, hk]
    rfl
  · cases h

theorem pruneAt_some_eq {cond : Path → Node → Bool} {p : Path} {c x : Node} (h : pruneAt cond p c = some x) :
    x = (filterNode cond p c).1 := by
  simp only [pruneAt] at h
  split at h
  · injection h with h; exact h.symm
  · cases h

theorem pruneAt_dom {cond : Path → Node → Bool} (hc : CoreCond cond) {p : Path} {c x : Node} (hD : Dom c)
    (h : pruneAt cond p c = some x) : Dom x := by
  rw [pruneAt_some_eq h]
  exact hD.filterNode hc p

/-- lookups in a pruned-then-pruned-again list -/
theorem alookup_kept_stable (o : Node) (k : Key) {cs0 : List (Key × Node)} (hn : keysNodup cs0 = true)
    (hD : ∀ k c, alookup k cs0 = some c → dictTree c = true) :
    alookup k (keptChildren (maybeKeep o) [] (keptChildren (maybeKeep o) [] cs0)) =
      alookup k (keptChildren (maybeKeep o) [] cs0) := by
  rw [alookup_kept o k _ (keysNodup_keptChildren _ _ cs0 hn), alookup_kept o k cs0 hn]
  cases hc : alookup k cs0 with
  | none => rfl
  | some c0 =>
    simp only [Option.bind]
    cases hp : pruneAt (maybeKeep (sub o k)) [] c0 with
    | none => rfl
    | some c => exact pruneAt_idem (maybeKeep_coreCond _) (hD k c0 hc) [] hp

/-! ### a copy of the newer tree does not survive the pruning by it -/

theorem list_empty_of_lookups {α : Type} {l : List (Key × α)} (h : ∀ k, alookup k l = none) : l = [] := by
  cases l with
  | nil => rfl
  | cons kv rest =>
    have := h kv.1
    simp [alookup] at this

theorem selfPrune : ∀ (d : Nat) (v c1 : Node), v.depth ≤ d → PermC c1 v →
    pruneAt (maybeKeep v) [] c1 = none := by
  intro d
  induction d with
  | zero =>
    intro v c1 hd h
    cases v with
    | comp f k cs => simp [Node.depth] at hd
    | leaf g k =>
      obtain ⟨f, rfl, hf⟩ := h.leaf_inv'
      simp [pruneAt, maybeKeep, firstNotMissing, Node.flags, (hasPrio_core_eq hf).1, Node.isComp]
  | succ d ih =>
    intro v c1 hd h
    cases v with
    | leaf g k =>
      obtain ⟨f, rfl, hf⟩ := h.leaf_inv'
      simp [pruneAt, maybeKeep, firstNotMissing, Node.flags, (hasPrio_core_eq hf).1, Node.isComp]
    | comp vf kd vcs =>
      obtain ⟨rfl, f, cs, rfl, hf, h1, h2, h3⟩ := h.dict_inv'
      have hkept : keptChildren (maybeKeep (.comp vf .dict vcs)) [] cs = [] := by
        apply list_empty_of_lookups
        intro k
        rw [alookup_kept _ k cs h1]
        have hr := h3 k
        cases hc : alookup k cs with
        | none => rfl
        | some c =>
          rw [hc] at hr
          obtain ⟨v', hv', hcv⟩ := hr.someL
          simp only [Option.bind, sub_of_lookup hv']
          have hdv : v'.depth ≤ d := by
            have := depth_child (f := vf) (kd := .dict) hv'
            omega
          exact ih v' c hdv hcv
      simp only [pruneAt, c04_filterNode_dict_kept _ [] f .dict cs rfl h1, hkept, Node.children,
        List.isEmpty_nil, Bool.not_true, Bool.and_false, Bool.or_false, maybeKeep, firstNotMissing, Node.flags,
        (hasPrio_core_eq hf).1, Bool.false_eq_true, if_false]

theorem selfPrune' {v c1 : Node} (h : PermC c1 v) : pruneAt (maybeKeep v) [] c1 = none :=
  selfPrune v.depth v c1 (Nat.le_refl _) h

end AY.C15T
