/-
  AY.Lemmas.C15TaggedSpec — what a merge of two trees of mappings computes, key by key, on the domain
  of the idempotence clause of C15:

    `Dom n`      mappings with distinct keys and leaves only, no `!notnew` restriction anywhere
                 (`_require_all_new` never fires);
    `noIdiom v`  the newer tree does not contain the explicit remove-this-key idiom: no node with an
                 explicit `delete = True` that is falsy (an empty mapping, a falsy scalar).

  On this domain the merge always succeeds given fuel (`good`), `remove_child` is never reached
  (`stepAt_good`: every key of the newer mapping is present afterwards) and the result is described
  entry by entry up to `PermC` (`dict_spec_exit`, `dict_spec_loop`).
-/
import AY.Lemmas.C15TaggedCore
import AY.Lemmas.C15WholeNN
namespace AY.C15T
open AY.C15W (NN nnList nnF)

/-! ### the domain -/

/-- mappings with distinct keys and leaves, no `allow_new = False` anywhere -/
def Dom (n : Node) : Prop := dictTree n = true ∧ NN n = true

theorem Dom.child {f : Flags} {kd : CompKind} {cs : List (Key × Node)} (h : Dom (.comp f kd cs)) {k : Key} {c : Node}
    (hc : alookup k cs = some c) : Dom c := by
  obtain ⟨h1, h2⟩ := h
  obtain ⟨_, _, hl⟩ := dictTree_comp h1
  exact ⟨dictTreeList_lookup cs hl k c hc, AY.C15W.alookup_nn ((AY.C15W.NN_comp f kd cs).1 h2).2 hc⟩

theorem Dom.kind {f : Flags} {kd : CompKind} {cs : List (Key × Node)} (h : Dom (.comp f kd cs)) : kd = .dict :=
  (dictTree_comp h.1).1

theorem Dom.nodup {f : Flags} {kd : CompKind} {cs : List (Key × Node)} (h : Dom (.comp f kd cs)) :
    keysNodup cs = true := (dictTree_comp h.1).2.1

theorem Dom.flagsNN {n : Node} (h : Dom n) : AY.C15W.nnF n.flags = true := AY.C15W.NN_flags h.2

theorem Dom.refl {n : Node} (h : Dom n) : PermC n n := PermC.refl h.1

theorem Dom.adopt {n : Node} (h : Dom n) {pf : Flags} (hp : AY.C15W.nnF pf = true) : Dom (adopt pf .dict n) :=
  ⟨((PermD.refl h.1).adopt pf).dictTree_left, AY.C15W.adopt_nn .dict hp h.2⟩

theorem Dom.propagate {n : Node} (h : Dom n) : Dom (propagate n) :=
  ⟨(PermD.refl h.1).propagate.dictTree_left, AY.C15W.propagate_nn h.2⟩

theorem Dom.filterNode {n : Node} (h : Dom n) {cond : Path → Node → Bool} (hc : CoreCond cond) (pre : Path) :
    Dom (filterNode cond pre n).1 :=
  ⟨dictTree_filterNode hc h.1 pre, AY.C15W.filterNode_nn cond pre n h.2⟩

/-- the merge keeps the domain -/
theorem mergeF_dom {fuel : Nat} {a v m : Node} {b : Bool} (ha : Dom a) (hv : Dom v)
    (h : mergeF fuel a v = .ok (m, b)) : Dom m := by
  obtain ⟨r', _, hr⟩ := mergeF_perm fuel a a v v m b (PermD.refl ha.1) (PermD.refl hv.1) h
  exact ⟨hr.dictTree_left, AY.C15W.mergeF_nn fuel a v m b ha.2 hv.2 h⟩

theorem Dom.of_list {f : Flags} {cs : List (Key × Node)} (hf : AY.C15W.nnF f = true) (hn : keysNodup cs = true)
    (hc : ∀ k c, alookup k cs = some c → Dom c) : Dom (.comp f .dict cs) := by
  constructor
  · simp only [dictTree, beq_self_eq_true, hn, Bool.true_and]
    apply dictTreeList_of_lookup
    intro k c hm
    exact (hc k c (alookup_of_mem hn hm)).1
  · rw [AY.C15W.NN_comp]
    refine ⟨hf, (AY.C15W.nnList_iff cs).2 ?_⟩
    intro kv hm
    exact (hc kv.1 kv.2 (alookup_of_mem hn hm)).2

/-! ### the remove-this-key idiom -/

mutual
/-- no node carries an explicit `delete = True` on a falsy value -/
def noIdiom : Node → Bool
  | .leaf f k => !(f.del == some true && !k.truthy)
  | .comp f _ cs => !(f.del == some true && cs.isEmpty) && noIdiomList cs
def noIdiomList : List (Key × Node) → Bool
  | [] => true
  | (_, c) :: rest => noIdiom c && noIdiomList rest
end

theorem noIdiomList_lookup : ∀ (cs : List (Key × Node)), noIdiomList cs = true → ∀ k c,
    alookup k cs = some c → noIdiom c = true
  | [], _, k, c, h => by simp [alookup] at h
  | (k', x) :: rest, hn, k, c, h => by
    have hn' : noIdiom x = true ∧ noIdiomList rest = true := by simpa [noIdiomList] using hn
    by_cases e : k' = k
    · simp [alookup, e] at h; subst h; exact hn'.1
    · simp [alookup, e] at h; exact noIdiomList_lookup rest hn'.2 k c h

theorem noIdiom_child {f : Flags} {kd : CompKind} {cs : List (Key × Node)} (h : noIdiom (.comp f kd cs) = true)
    {k : Key} {c : Node} (hc : alookup k cs = some c) : noIdiom c = true := by
  have h' : noIdiomList cs = true := by
    simp only [noIdiom, Bool.and_eq_true] at h
    exact h.2
  exact noIdiomList_lookup cs h' k c hc

/-- on the domain (mappings and leaves): an explicit `delete = True` sits on truthy nodes only -/
theorem noIdiom_truthy {v : Node} (hd : dictTree v = true) (h : noIdiom v = true) (hdel : v.flags.del = some true) :
    v.truthy = true := by
  cases v with
  | leaf f k =>
    simp only [Node.flags] at hdel
    simp only [noIdiom, hdel, beq_self_eq_true, Bool.true_and, Bool.not_not] at h
    exact h
  | comp f kd cs =>
    obtain ⟨rfl, _, _⟩ := dictTree_comp hd
    simp only [Node.flags] at hdel
    simp only [noIdiom, hdel, beq_self_eq_true, Bool.true_and, Bool.and_eq_true, Bool.not_eq_true'] at h
    simp only [Node.truthy, CompKind.func?, h.1, Bool.not_false]

theorem truthy_propagate (n : Node) : (propagate n).truthy = n.truthy := by
  rw [← core_truthy, core_propagate, core_truthy]

theorem truthy_setFlags (n : Node) (g : Flags) : (n.setFlags g).truthy = n.truthy := by
  cases n <;> rfl

theorem truthy_dict (f : Flags) (cs : List (Key × Node)) : (Node.comp f .dict cs).truthy = !cs.isEmpty := rfl

theorem leafRule_true {s o : Node} (h : hasPrio s.flags o.flags false = true) :
    leafRule s o = (propagate (s.setFlags (replaceOtherFlags s.flags o.flags)), true) := by
  simp only [leafRule, h, if_true]

theorem leafRule_false {s o : Node} (h : hasPrio s.flags o.flags false = false) :
    leafRule s o = (propagate (o.setFlags (replaceOtherFlags o.flags s.flags)), false) := by
  simp only [leafRule, h, Bool.false_eq_true, if_false]

/-! ### fuel -/

theorem depth_child {f : Flags} {kd : CompKind} {cs : List (Key × Node)} {k : Key} {c : Node}
    (hc : alookup k cs = some c) : c.depth < (Node.comp f kd cs).depth := by
  have := depthList_lookup k cs c hc
  simp only [Node.depth]
  omega

/-! ### the merge always succeeds, and a falsy result outranks a truthy newer node -/

/-- totality on the domain, and: when a mapping `a` merged with a truthy `v` comes out falsy, the
    result has strictly higher priority than `v` (so the remove-this-key test fails) -/
def Good (fuel : Nat) : Prop := ∀ a v, Dom a → Dom v → noIdiom v = true → v.depth < fuel →
  ∃ m b, mergeF fuel a v = .ok (m, b) ∧
    (a.isComp = true → v.truthy = true → m.truthy = false → hasPrio m.flags v.flags false = true)

theorem stepAt_none_nn (rec : Node → Node → Except Err (Node × Bool)) (sf : Flags) (exc : List Path) (k : Key)
    {v : Node} (hv : NN v = true) : stepAt rec sf exc k none v = .ok (some (adopt sf .dict v)) := by
  simp only [stepAt, AY.C15W.reqNew_NN _ _ hv]

/-- one iteration of the key loop on the domain: it succeeds and leaves an entry under the key — the
    adopted newer value when `self` had none, otherwise the merge of the two entries (in place or
    re-adopted) -/
theorem stepAt_good {fuel : Nat} (hG : Good fuel) (sf : Flags) (exc : List Path) (k : Key)
    {c? : Option Node} {v : Node} (hc : ∀ c, c? = some c → Dom c) (hv : Dom v) (hni : noIdiom v = true)
    (hd : v.depth < fuel) :
    ∃ y, stepAt (mergeF fuel) sf exc k c? v = .ok (some y) ∧
      (c? = none → y = adopt sf .dict v) ∧
      (∀ c, c? = some c → ∃ nw sm, mergeF fuel c v = .ok (nw, sm) ∧ PermC y nw) := by
  cases c? with
  | none =>
    exact ⟨_, stepAt_none_nn _ sf exc k hv.2, fun _ => rfl, fun c h => by cases h⟩
  | some c =>
    have hcD := hc c rfl
    obtain ⟨nw, sm, hr, hC⟩ := hG c v hcD hv hni hd
    have hnwD : Dom nw := mergeF_dom hcD hv hr
    refine ⟨if sm then nw else adopt sf .dict nw, ?_, (fun h => by cases h), ?_⟩
    · simp only [stepAt, hr]
      by_cases h1 : c.isComp = true
      · simp only [h1, if_true]
        have hrem : (!nw.truthy && !hasPrio nw.flags v.flags false && v.flags.del == some true) = false := by
          cases ht : nw.truthy with
          | true => simp
          | false =>
            cases hdl : (v.flags.del == some true) with
            | false => simp
            | true =>
              have hdel : v.flags.del = some true := by simpa using hdl
              have hvt := noIdiom_truthy hv.1 hni hdel
              simp [hC h1 hvt ht]
        simp only [hrem, Bool.false_eq_true, if_false]
        cases sm <;> rfl
      · simp only [h1, Bool.false_eq_true, if_false]
        cases sm with
        | true => rfl
        | false =>
          simp only [Bool.false_eq_true, if_false, AY.C15W.reqNewBelow_NN hnwD.2]
          -- `c` is a leaf and lost: the result is the newer node with combined flags
          have hrem : (!nw.truthy && nw.flags.del == some true) = false := by
            cases c with
            | comp f kd cs => simp [Node.isComp] at h1
            | leaf f lk =>
              cases fuel with
              | zero => omega
              | succ fuel =>
                simp only [mergeF, Except.ok.injEq] at hr
                simp only [leafRule] at hr
                split at hr
                · injection hr with _ e2
                  cases e2
                · injection hr with e1 _
                  subst e1
                  rw [truthy_propagate, truthy_setFlags, c04_flags_propagate, c04_flags_setFlags]
                  cases hvt : v.truthy with
                  | true => simp
                  | false =>
                    cases hdl : (v.flags.del == some true) with
                    | false => simp [replaceOtherFlags, mergeSafe, hdl]
                    | true =>
                      have hdel : v.flags.del = some true := by simpa using hdl
                      rw [noIdiom_truthy hv.1 hni hdel] at hvt
                      cases hvt
          simp only [hrem, Bool.false_eq_true, if_false]
    · intro c' hc'
      injection hc' with hc'
      subst hc'
      refine ⟨nw, sm, hr, ?_⟩
      cases sm with
      | true => exact hnwD.refl
      | false => exact hnwD.refl.adopt_left sf

/-! ### the key loop, entry by entry -/

/-- the entry a merge leaves under a key: `o?` the entry of the newer mapping, `b?` the entry the loop
    starts from (after pruning, when the newer mapping is deleting), `y?` the entry of the result -/
def EntrySpec (fuel : Nat) : Option Node → Option Node → Option Node → Prop
  | none, b?, y? => OptRel PermC y? b?
  | some v', none, y? => ∃ y, y? = some y ∧ PermC y v'
  | some v', some c, y? => ∃ nw sm y, mergeF fuel c v' = .ok (nw, sm) ∧ y? = some y ∧ PermC y nw

theorem EntrySpec.map_core {fuel : Nat} {o? b? y? : Option Node} (h : EntrySpec fuel o? b? y?) (g : Node → Node)
    (hg : ∀ n, core (g n) = core n) : EntrySpec fuel o? b? (y?.map g) := by
  cases o? with
  | none =>
    simp only [EntrySpec] at h ⊢
    cases h with
    | none => exact .none
    | some hr => exact .some (hr.of_core_eq (hg _) rfl)
  | some v' =>
    cases b? with
    | none =>
      simp only [EntrySpec] at h ⊢
      obtain ⟨y, rfl, hy⟩ := h
      exact ⟨g y, rfl, hy.of_core_eq (hg _) rfl⟩
    | some c =>
      simp only [EntrySpec] at h ⊢
      obtain ⟨nw, sm, y, hr, rfl, hy⟩ := h
      exact ⟨nw, sm, g y, hr, rfl, hy.of_core_eq (hg _) rfl⟩

theorem mergeLoop_good {fuel : Nat} (hG : Good fuel) (sf : Flags) (exc : List Path)
    {acc vcs : List (Key × Node)} (hacc : keysNodup acc = true) (haccD : ∀ k c, alookup k acc = some c → Dom c)
    (hvn : keysNodup vcs = true) (hvD : ∀ k c, alookup k vcs = some c → Dom c)
    (hni : ∀ k c, alookup k vcs = some c → noIdiom c = true)
    (hd : ∀ k c, alookup k vcs = some c → c.depth < fuel) :
    ∃ acc1, mergeLoop (mergeF fuel) sf .dict exc acc vcs = .ok acc1 ∧ keysNodup acc1 = true ∧
      ∀ k, EntrySpec fuel (alookup k vcs) (alookup k acc) (alookup k acc1) := by
  obtain ⟨e1, p1⟩ := mergeLoop_dict_pointwise (mergeF fuel) sf exc vcs acc hvn hacc
  have hok : errOf (mergeLoop (mergeF fuel) sf .dict exc acc vcs) = none := by
    rw [e1]
    apply List.findSome?_eq_none_iff.2
    intro kv hkv
    have hl : alookup kv.1 vcs = some kv.2 := alookup_of_mem hvn hkv
    obtain ⟨y, hy, _⟩ := stepAt_good hG sf exc kv.1 (c? := alookup kv.1 acc) (fun c hc => haccD kv.1 c hc)
      (hvD _ _ hl) (hni _ _ hl) (hd _ _ hl)
    rw [hy]
    rfl
  obtain ⟨acc1, h1⟩ := errOf_none hok
  refine ⟨acc1, h1, (p1 acc1 h1).1, ?_⟩
  intro k
  have q := (p1 acc1 h1).2 k
  cases hv : alookup k vcs with
  | none =>
    rw [hv] at q
    simp only at q
    rw [q]
    simp only [EntrySpec]
    cases hb : alookup k acc with
    | none => exact .none
    | some c => exact .some (haccD k c hb).refl
  | some v' =>
    rw [hv] at q
    simp only at q
    obtain ⟨y, hy, hy1, hy2⟩ := stepAt_good hG sf exc k (c? := alookup k acc) (fun c hc => haccD k c hc)
      (hvD _ _ hv) (hni _ _ hv) (hd _ _ hv)
    rw [q] at hy
    injection hy with hy
    cases hb : alookup k acc with
    | none =>
      simp only [EntrySpec]
      refine ⟨y, hy, ?_⟩
      rw [hy1 hb]
      exact (hvD _ _ hv).refl.adopt_left sf
    | some c =>
      simp only [EntrySpec]
      obtain ⟨nw, sm, hr, hyn⟩ := hy2 c hb
      exact ⟨nw, sm, y, hr, hy, hyn⟩

/-! ### a mapping ⊕ mapping merge on the domain -/

/-- the children the key loop starts from: all of `self`, or what survives the pruning -/
def baseOf (acs : List (Key × Node)) (v : Node) : List (Key × Node) :=
  if eDel v then keptChildren (maybeKeep v) [] acs else acs

theorem propagate_dict (f : Flags) (cs : List (Key × Node)) :
    ∃ kw, propagate (.comp f .dict cs) = .comp f .dict (applyKwList kw cs) := by
  cases h : childKw f .dict with
  | none => simp [childKw] at h
  | some kw => exact ⟨kw, by simp only [propagate, h]⟩

theorem baseOf_dom {af : Flags} {acs : List (Key × Node)} (ha : Dom (.comp af .dict acs)) (v : Node) :
    keysNodup (baseOf acs v) = true ∧ ∀ k c, alookup k (baseOf acs v) = some c → Dom c := by
  simp only [baseOf]
  split
  · have hD := ha.filterNode (maybeKeep_coreCond v) []
    rw [c04_filterNode_dict_kept _ [] af .dict acs rfl ha.nodup] at hD
    exact ⟨hD.nodup, fun k c hc => hD.child hc⟩
  · exact ⟨ha.nodup, fun k c hc => ha.child hc⟩

/-- early exit: nothing of `self` survives the pruning by a deleting `other` with priority -/
theorem dict_spec_exit (fuel : Nat) {af vf : Flags} {acs vcs : List (Key × Node)}
    (ha : Dom (.comp af .dict acs)) (hv : Dom (.comp vf .dict vcs))
    (hdel : eDel (.comp vf .dict vcs) = true)
    (hemp : (keptChildren (maybeKeep (.comp vf .dict vcs)) [] acs).isEmpty = true)
    (hp : hasPrio vf af true = true) :
    mergeF (fuel + 1) (.comp af .dict acs) (.comp vf .dict vcs) =
      .ok (propagate (.comp (replaceOtherFlags vf af) .dict vcs), false) := by
  simp only [mergeF]
  rw [compMerge_del _ af vf acs vcs hdel ha.nodup]
  simp only [hemp, hp, Bool.and_self, if_true, AY.C15W.reqNew_NN _ _ hv.2]

/-- the key loop: the result is a mapping with the combined flags whose entries are described by
    `EntrySpec` -/
theorem dict_spec_loop {fuel : Nat} (hG : Good fuel) {af vf : Flags} {acs vcs : List (Key × Node)}
    (ha : Dom (.comp af .dict acs)) (hv : Dom (.comp vf .dict vcs))
    (hni : noIdiom (.comp vf .dict vcs) = true) (hd : (Node.comp vf .dict vcs).depth < fuel + 1)
    (hno : ¬ (eDel (.comp vf .dict vcs) = true ∧
      (keptChildren (maybeKeep (.comp vf .dict vcs)) [] acs).isEmpty = true ∧ hasPrio vf af true = true)) :
    ∃ mcs, mergeF (fuel + 1) (.comp af .dict acs) (.comp vf .dict vcs) =
        .ok (.comp (finishFlags af vf) .dict mcs, true) ∧ keysNodup mcs = true ∧
      ∀ k, EntrySpec fuel (alookup k vcs) (alookup k (baseOf acs (.comp vf .dict vcs))) (alookup k mcs) := by
  have hvD : ∀ k c, alookup k vcs = some c → Dom c := fun k c hc => hv.child hc
  have hvni : ∀ k c, alookup k vcs = some c → noIdiom c = true := fun k c hc => noIdiom_child hni hc
  have hvd : ∀ k c, alookup k vcs = some c → c.depth < fuel := by
    intro k c hc
    have := depth_child (f := vf) (kd := .dict) hc
    omega
  obtain ⟨hbn, hbD⟩ := baseOf_dom ha (.comp vf .dict vcs)
  simp only [mergeF]
  cases hdel : eDel (.comp vf .dict vcs) with
  | false =>
    rw [compMerge_live _ af vf acs vcs hdel]
    have hb : baseOf acs (.comp vf .dict vcs) = acs := by simp only [baseOf, hdel, Bool.false_eq_true, if_false]
    rw [hb] at hbn hbD ⊢
    obtain ⟨acc1, hl, hn1, hs⟩ := mergeLoop_good hG af [] hbn hbD hv.nodup hvD hvni hvd
    simp only [hl]
    obtain ⟨kw, hkw⟩ := propagate_dict (finishFlags af vf) acc1
    rw [hkw]
    refine ⟨_, rfl, by rw [keysNodup_applyKwList]; exact hn1, ?_⟩
    intro k
    rw [alookup_applyKwList]
    exact (hs k).map_core _ (core_applyKw kw)
  | true =>
    rw [compMerge_del _ af vf acs vcs hdel ha.nodup]
    have hb : baseOf acs (.comp vf .dict vcs) = keptChildren (maybeKeep (.comp vf .dict vcs)) [] acs := by
      simp only [baseOf, hdel, if_true]
    rw [hb] at hbn hbD ⊢
    have hE : ((keptChildren (maybeKeep (.comp vf .dict vcs)) [] acs).isEmpty && hasPrio vf af true) = false := by
      cases h1 : (keptChildren (maybeKeep (.comp vf .dict vcs)) [] acs).isEmpty with
      | false => rfl
      | true =>
        cases h2 : hasPrio vf af true with
        | false => rfl
        | true => exact absurd ⟨hdel, h1, h2⟩ hno
    simp only [hE, Bool.false_eq_true, if_false]
    obtain ⟨acc1, hl, hn1, hs⟩ := mergeLoop_good hG af
      (filterNode (maybeKeep (.comp vf .dict vcs)) [] (.comp af .dict acs)).2 hbn hbD hv.nodup hvD hvni hvd
    simp only [hl]
    obtain ⟨kw, hkw⟩ := propagate_dict (finishFlags af vf) acc1
    rw [hkw]
    refine ⟨_, rfl, by rw [keysNodup_applyKwList]; exact hn1, ?_⟩
    intro k
    rw [alookup_applyKwList]
    exact (hs k).map_core _ (core_applyKw kw)

/-! ### totality -/

theorem mergeF_leaf_left (fuel : Nat) (f : Flags) (k : LeafKind) (v : Node) :
    mergeF (fuel + 1) (.leaf f k) v = .ok (leafRule (.leaf f k) v) := rfl

theorem mergeF_leaf_right (fuel : Nat) (af : Flags) (acs : List (Key × Node)) (g : Flags) (k : LeafKind) :
    mergeF (fuel + 1) (.comp af .dict acs) (.leaf g k) = .ok (leafRule (.comp af .dict acs) (.leaf g k)) := rfl

theorem good : ∀ fuel : Nat, Good fuel := by
  intro fuel
  induction fuel with
  | zero =>
    intro a v _ _ _ hd
    omega
  | succ fuel ih =>
    intro a v ha hv hni hd
    cases a with
    | leaf f k =>
      exact ⟨_, _, mergeF_leaf_left fuel f k v, fun h => by simp [Node.isComp] at h⟩
    | comp af akd acs =>
      obtain rfl := ha.kind
      cases v with
      | leaf g k =>
        cases hp : hasPrio af g false with
        | true =>
          have e := leafRule_true (s := .comp af .dict acs) (o := .leaf g k) hp
          refine ⟨_, _, (mergeF_leaf_right fuel af acs g k).trans (by rw [e]), ?_⟩
          intro _ _ _
          rw [c04_flags_propagate, c04_flags_setFlags, ← hp]
          exact hasPrio_of_coreF (coreF_replaceOtherFlags _ _) rfl false
        | false =>
          have e := leafRule_false (s := .comp af .dict acs) (o := .leaf g k) hp
          refine ⟨_, _, (mergeF_leaf_right fuel af acs g k).trans (by rw [e]), ?_⟩
          intro _ hvt hmt
          rw [truthy_propagate, truthy_setFlags] at hmt
          rw [hvt] at hmt
          cases hmt
      | comp vf vkd vcs =>
        obtain rfl := hv.kind
        by_cases hx : eDel (.comp vf .dict vcs) = true ∧
            (keptChildren (maybeKeep (.comp vf .dict vcs)) [] acs).isEmpty = true ∧ hasPrio vf af true = true
        · refine ⟨_, _, dict_spec_exit fuel ha hv hx.1 hx.2.1 hx.2.2, ?_⟩
          intro _ hvt hmt
          rw [truthy_propagate] at hmt
          rw [truthy_dict] at hvt hmt
          rw [hvt] at hmt
          cases hmt
        · obtain ⟨mcs, hm, _, hs⟩ := dict_spec_loop ih ha hv hni hd hx
          refine ⟨_, _, hm, ?_⟩
          intro _ hvt hmt
          -- a truthy newer mapping has a first key, which is present in the result
          rw [truthy_dict] at hvt hmt
          cases vcs with
          | nil => simp at hvt
          | cons kv rest =>
            have hl : alookup kv.1 (kv :: rest) = some kv.2 := by
              obtain ⟨k0, v0⟩ := kv
              simp [alookup]
            have := hs kv.1
            rw [hl] at this
            have hne : ∃ y, alookup kv.1 mcs = some y := by
              cases hb : alookup kv.1 (baseOf acs (.comp vf .dict (kv :: rest))) with
              | none =>
                rw [hb] at this
                simp only [EntrySpec] at this
                obtain ⟨y, hy, _⟩ := this
                exact ⟨y, hy⟩
              | some c =>
                rw [hb] at this
                simp only [EntrySpec] at this
                obtain ⟨_, _, y, _, hy, _⟩ := this
                exact ⟨y, hy⟩
            obtain ⟨y, hy⟩ := hne
            cases mcs with
            | nil => simp [alookup] at hy
            | cons _ _ => simp at hmt

end AY.C15T
