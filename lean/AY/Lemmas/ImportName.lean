/-
  AY.Lemmas.ImportName — helper lemmas for Props/C13_ImportName.lean (the model is AY/Model/ImportName.lean).
-/
import AY.Model.ImportName
namespace AY.ImportName

/-- equality of outcomes is decidable (for the examples) -/
scoped instance instDecEqExcept {ε α : Type} [DecidableEq ε] [DecidableEq α] : DecidableEq (Except ε α)
  | .ok a, .ok b => if h : a = b then isTrue (h ▸ rfl) else isFalse (fun e => by cases e; exact h rfl)
  | .error a, .error b => if h : a = b then isTrue (h ▸ rfl) else isFalse (fun e => by cases e; exact h rfl)
  | .ok _, .error _ => isFalse (fun e => by cases e)
  | .error _, .ok _ => isFalse (fun e => by cases e)

/-! ### split -/

theorem splitDot_ne_nil (l : List Char) : splitDot l ≠ [] := by
  cases l with
  | nil => simp [splitDot]
  | cons c r =>
    unfold splitDot
    split
    · simp
    · cases splitDot r <;> simp [consHead]

theorem consHead_append (c : Char) (x y : List (List Char)) (hx : x ≠ []) : consHead c (x ++ y) = consHead c x ++ y := by
  cases x with
  | nil => exact absurd rfl hx
  | cons h t => rfl

/-- splitting distributes over a separator -/
theorem splitDot_append_dot (a b : List Char) : splitDot (a ++ '.' :: b) = splitDot a ++ splitDot b := by
  induction a with
  | nil => simp [splitDot]
  | cons c a ih =>
    simp only [List.cons_append, splitDot]
    split
    · rw [ih]; rfl
    · rw [ih, consHead_append _ _ _ (splitDot_ne_nil a)]

theorem splitDot_nodot (l : List Char) (h : ∀ c ∈ l, c ≠ '.') : splitDot l = [l] := by
  induction l with
  | nil => rfl
  | cons c r ih =>
    have hc : c ≠ '.' := h c (by simp)
    have hr := ih (fun x hx => h x (by simp [hx]))
    simp [splitDot, hc, hr, consHead]

theorem elements_ne_nil (s : String) : elements s ≠ [] := by
  unfold elements
  intro h
  exact splitDot_ne_nil _ (List.map_eq_nil_iff.mp h)

theorem toList_dot : (".": String).toList = ['.'] := by decide

theorem elements_append_dot (a b : String) : elements (a ++ "." ++ b) = elements a ++ elements b := by
  unfold elements
  rw [String.toList_append, String.toList_append, toList_dot, List.append_assoc, List.singleton_append,
    splitDot_append_dot, List.map_append]

theorem elements_nodot (s : String) (h : ∀ c ∈ s.toList, c ≠ '.') : elements s = [s] := by
  unfold elements
  rw [splitDot_nodot _ h]
  simp [String.ofList_toList]

theorem invalid_append_dot (a b : String) : invalid (a ++ "." ++ b) = invalid b := by
  unfold invalid
  rw [String.toList_append, String.toList_append, toList_dot, List.append_assoc, List.singleton_append]
  cases hb : b.toList with
  | nil => simp
  | cons c r =>
    have : (a.toList ++ '.' :: c :: r).getLast? = (c :: r).getLast? := by
      rw [List.getLast?_append]
      simp [List.getLast?_cons_cons]
      cases h : (c :: r).getLast? with
      | none => simp at h
      | some x => rfl
    rw [this]
    simp

theorem invalid_nodot (s : String) (h0 : s ≠ "") (h : ∀ c ∈ s.toList, c ≠ '.') : invalid s = false := by
  unfold invalid
  cases hs : s.toList with
  | nil =>
    exfalso; apply h0
    have := String.ofList_toList (s := s)
    rw [hs] at this
    rw [← this]
  | cons c r =>
    simp only [List.isEmpty_cons, Bool.false_or]
    cases hl : (c :: r).getLast? with
    | none => rfl
    | some x =>
      have hx : x ∈ s.toList := by rw [hs]; exact List.mem_of_getLast? hl
      have := h x hx
      simp [this]

/-! ### the loop against the two phases -/

variable {E : Type}

/-- with `try_import` off (and more than one element) the loop is the attribute phase -/
theorem loop_off_eq_attrPhase (w : World E) (sym : String) (els : List String) (cur : Option E) :
    loop w false sym cur false els = attrPhase w sym cur els := by
  induction els generalizing cur with
  | nil => cases cur <;> rfl
  | cons el els ih =>
    cases cur with
    | none => simp [loop, step, attrStep, attrPhase]
    | some c =>
      simp only [loop, step, attrStep, attrPhase]
      cases w.attr c el with
      | none => rfl
      | some v => simp only [Bool.false_eq_true, if_false]; exact ih v

/-- from a module, the import phase ends in an object (never in `None`) or crashes -/
theorem importPhase_some (w : World E) (els : List String) (m : E) :
    (∃ c, importPhase w (some m) els = .crashed c) ∨ (∃ m' rest, importPhase w (some m) els = .reached (some m') rest) := by
  induction els generalizing m with
  | nil => exact Or.inr ⟨m, [], rfl⟩
  | cons el els ih =>
    simp only [importPhase]
    cases importAttempt w (some m) el with
    | ok m' => exact ih m'
    | importError => exact Or.inr ⟨m, el :: els, rfl⟩
    | raises c => exact Or.inl ⟨c, rfl⟩

/-- from a module and with more than one element: imports while they succeed, then attributes -/
theorem loop_on_eq_phases (w : World E) (sym : String) (els : List String) (m : E) :
    loop w false sym (some m) true els =
      match importPhase w (some m) els with
      | .crashed c => .error (.crash c)
      | .reached cur rest => attrPhase w sym cur rest := by
  induction els generalizing m with
  | nil => rfl
  | cons el els ih =>
    simp only [loop, step, importPhase, if_true]
    cases h : importAttempt w (some m) el with
    | ok m' => exact ih m'
    | raises c => rfl
    | importError =>
      simp only [attrStep, attrPhase]
      cases w.attr m el with
      | none => rfl
      | some v => exact loop_off_eq_attrPhase w sym els v

/-- the elements a successful import phase consumes can be split off -/
theorem loop_append_of_importPhase (w : World E) (single : Bool) (sym : String) (xs ys : List String) (cur c : Option E)
    (h : importPhase w cur xs = .reached c []) :
    loop w single sym cur true (xs ++ ys) = loop w single sym c true ys := by
  induction xs generalizing cur with
  | nil =>
    simp only [importPhase] at h
    injection h with h1 _
    rw [h1]; rfl
  | cons x xs ih =>
    simp only [importPhase] at h
    simp only [List.cons_append, loop, step, if_true]
    cases hi : importAttempt w cur x with
    | ok m' => rw [hi] at h; exact ih (some m') h
    | importError => rw [hi] at h; injection h with _ h2; cases h2
    | raises cl => rw [hi] at h; cases h

/-- with `try_import` off nothing depends on what is importable -/
theorem loop_off_imp_irrelevant (w : World E) (imp' : List String → ImportRes E) (single : Bool) (sym : String)
    (els : List String) (cur : Option E) :
    loop { w with imp := imp' } single sym cur false els = loop w single sym cur false els := by
  induction els generalizing cur with
  | nil => rfl
  | cons el els ih =>
    simp only [loop, step, Bool.false_eq_true, if_false]
    cases cur with
    | none =>
      simp only [attrStep]
      cases single with
      | false => rfl
      | true =>
        simp only [if_true]
        cases w.builtin el with
        | none => rfl
        | some v => exact ih v
    | some c =>
      simp only [attrStep]
      cases w.attr c el with
      | none => rfl
      | some v => exact ih v

/-! ### coherent worlds -/

/-- the state of the import phase in a coherent world: nothing imported yet, or the module imported under `pre` -/
def At (w : World E) (pre : List String) (cur : Option E) : Prop :=
  (pre = [] ∧ cur = none) ∨ (∃ m, cur = some m ∧ w.imp pre = .ok m ∧ pre ≠ [])

theorem ne_singleton_empty (pre : List String) (_h0 : pre ≠ []) (hne : ∀ el ∈ pre, el ≠ "") : pre ≠ [""] := by
  intro h
  rw [h] at hne
  exact hne "" (by simp) rfl

/-- in a coherent world the import attempted at state `pre` for `el` is the import of `pre ++ [el]` -/
theorem importAttempt_coherent (w : World E) (hc : Coherent w) (pre : List String) (cur : Option E) (el : String)
    (hat : At w pre cur) (hne : ∀ x ∈ pre, x ≠ "") (hel : el ≠ "") :
    importAttempt w cur el = w.imp (pre ++ [el]) := by
  rcases hat with ⟨hp, hcur⟩ | ⟨m, hcur, hm, hp⟩
  · rw [hp, hcur]; simp [importAttempt, absImport, hel]
  · obtain ⟨ht, hn⟩ := hc pre m hm
    rw [hcur]
    simp only [importAttempt, ht, if_true, relImport, hn]
    rw [if_neg (ne_singleton_empty pre hp hne), if_neg hel]

theorem prefix_concat_cases (q pre : List String) (el : String) (h : q <+: pre ++ [el]) : q = pre ++ [el] ∨ q <+: pre :=
  List.prefix_concat_iff.mp h

theorem importPhase_coherent (w : World E) (hc : Coherent w) (hr : ImportsOnlyFailWithImportError w)
    (rs pre : List String) (cur : Option E) (hat : At w pre cur) (hne : ∀ x ∈ pre ++ rs, x ≠ "")
    (hpre : ∀ q, q <+: pre → q ≠ [] → ∃ mq, w.imp q = .ok mq) :
    ∃ pre' rest cur', pre ++ rs = pre' ++ rest ∧ importPhase w cur rs = .reached cur' rest ∧ At w pre' cur' ∧
      (∀ q, q <+: pre' → q ≠ [] → ∃ mq, w.imp q = .ok mq) ∧
      (∀ el rs', rest = el :: rs' → w.imp (pre' ++ [el]) = .importError) := by
  induction rs generalizing pre cur with
  | nil => exact ⟨pre, [], cur, rfl, rfl, hat, hpre, fun _ _ h => by cases h⟩
  | cons el rs ih =>
    have hel : el ≠ "" := hne el (by simp)
    have hnp : ∀ x ∈ pre, x ≠ "" := fun x hx => hne x (by simp [hx])
    have hia := importAttempt_coherent w hc pre cur el hat hnp hel
    simp only [importPhase, hia]
    cases himp : w.imp (pre ++ [el]) with
    | ok m' =>
      have hat' : At w (pre ++ [el]) (some m') := Or.inr ⟨m', rfl, himp, by simp⟩
      have hne' : ∀ x ∈ (pre ++ [el]) ++ rs, x ≠ "" := by
        intro x hx; apply hne x; simpa using hx
      have hpre' : ∀ q, q <+: pre ++ [el] → q ≠ [] → ∃ mq, w.imp q = .ok mq := by
        intro q hq hq0
        rcases prefix_concat_cases q pre el hq with h | h
        · exact ⟨m', h ▸ himp⟩
        · exact hpre q h hq0
      obtain ⟨pre', rest, cur', h1, h2, h3, h4, h5⟩ := ih (pre ++ [el]) (some m') hat' hne' hpre'
      refine ⟨pre', rest, cur', ?_, h2, h3, h4, h5⟩
      rw [← h1]; simp
    | importError =>
      refine ⟨pre, el :: rs, cur, rfl, rfl, hat, hpre, ?_⟩
      intro el' rs' h
      injection h with h1 _
      rw [← h1]; exact himp
    | raises c => exact absurd himp (hr _ c)

/-- all prefixes importable: the import phase consumes everything -/
theorem importPhase_all_importable (w : World E) (hc : Coherent w)
    (rs pre : List String) (cur : Option E) (hat : At w pre cur) (hne : ∀ x ∈ pre ++ rs, x ≠ "") (hrs : rs ≠ [])
    (hall : ∀ q, q <+: pre ++ rs → pre.length < q.length → ∃ mq, w.imp q = .ok mq) :
    ∃ m, w.imp (pre ++ rs) = .ok m ∧ importPhase w cur rs = .reached (some m) [] := by
  induction rs generalizing pre cur with
  | nil => exact absurd rfl hrs
  | cons el rs ih =>
    have hel : el ≠ "" := hne el (by simp)
    have hnp : ∀ x ∈ pre, x ≠ "" := fun x hx => hne x (by simp [hx])
    have hia := importAttempt_coherent w hc pre cur el hat hnp hel
    obtain ⟨m', hm'⟩ := hall (pre ++ [el]) (by simp [List.prefix_append_right_inj]) (by simp)
    simp only [importPhase, hia, hm']
    cases rs with
    | nil => exact ⟨m', hm', rfl⟩
    | cons el2 rs2 =>
      have hat' : At w (pre ++ [el]) (some m') := Or.inr ⟨m', rfl, hm', by simp⟩
      have := ih (pre ++ [el]) (some m') hat' (by intro x hx; apply hne x; simpa using hx) (by simp)
        (by
          intro q hq hl
          apply hall q
          · simpa using hq
          · simp at hl; omega)
      simpa using this

/-! ### no crash -/

/-- the loop invariant that excludes crashes: while `try_import` is on, `current` is `None` (only before the first
    element) or a module imported under a name that is not the empty string -/
def Safe (w : World E) (cur : Option E) : Prop :=
  ∃ m p, cur = some m ∧ w.imp p = .ok m ∧ p ≠ [""] ∧ p ≠ []

theorem relImport_safe (w : World E) (hc : Coherent w) (hr : ImportsOnlyFailWithImportError w) (m : E) (el : String)
    (hs : Safe w (some m)) :
    relImport w m el = .importError ∨ ∃ m', relImport w m el = .ok m' ∧ Safe w (some m') := by
  obtain ⟨m0, p, h1, h2, h3, h4⟩ := hs
  injection h1 with h1
  subst h1
  obtain ⟨_, hn⟩ := hc p m h2
  simp only [relImport, hn, if_neg h3]
  by_cases hel : el = ""
  · rw [if_pos hel, h2]
    exact Or.inr ⟨m, rfl, m, p, rfl, h2, h3, h4⟩
  · rw [if_neg hel]
    cases h : w.imp (p ++ [el]) with
    | ok m' =>
      refine Or.inr ⟨m', rfl, m', p ++ [el], rfl, h, ?_, by simp⟩
      intro hp
      cases p with
      | nil => exact h4 rfl
      | cons x xs => simp at hp
    | importError => exact Or.inl rfl
    | raises c => exact absurd h (hr _ c)

theorem loop_off_no_crash (w : World E) (single : Bool) (sym : String) (els : List String) (cur : Option E) (x : ImportErr E)
    (h : loop w single sym cur false els = .error x) : ∃ last, x = .importError sym last := by
  induction els generalizing cur with
  | nil => cases h
  | cons el els ih =>
    simp only [loop, step, Bool.false_eq_true, if_false] at h
    cases cur with
    | none =>
      simp only [attrStep] at h
      cases single with
      | false => simp at h; exact ⟨none, h.symm⟩
      | true =>
        simp only [if_true] at h
        cases hb : w.builtin el with
        | none => rw [hb] at h; simp at h; exact ⟨none, h.symm⟩
        | some v => rw [hb] at h; exact ih v h
    | some c =>
      simp only [attrStep] at h
      cases ha : w.attr c el with
      | none => rw [ha] at h; simp at h; exact ⟨some c, h.symm⟩
      | some v => rw [ha] at h; exact ih v h

theorem loop_on_no_crash (w : World E) (hc : Coherent w) (hr : ImportsOnlyFailWithImportError w) (single : Bool) (sym : String)
    (els : List String) (m : E) (hs : Safe w (some m)) (ht : w.truthy m = true) (x : ImportErr E)
    (h : loop w single sym (some m) true els = .error x) : ∃ last, x = .importError sym last := by
  induction els generalizing m with
  | nil => cases h
  | cons el els ih =>
    simp only [loop, step, if_true, importAttempt, ht] at h
    rcases relImport_safe w hc hr m el hs with hi | ⟨m', hi, hs'⟩
    · rw [hi] at h
      simp only [attrStep] at h
      cases ha : w.attr m el with
      | none => rw [ha] at h; simp at h; exact ⟨some m, h.symm⟩
      | some v => rw [ha] at h; exact loop_off_no_crash w single sym els v x h
    · rw [hi] at h
      obtain ⟨m0, p, h1, h2, _, _⟩ := hs'
      injection h1 with h1
      exact ih m' ⟨m0, p, by rw [h1], h2, by assumption, by assumption⟩ (by rw [h1]; exact (hc p m0 h2).1) h

end AY.ImportName
