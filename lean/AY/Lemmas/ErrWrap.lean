/-
  AY.Lemmas.ErrWrap — helper lemmas for Props/C12_ErrWrap.lean (the model is AY/Model/ErrWrap.lean).
-/
import AY.Model.ErrWrap
namespace AY.ErrWrap

/-! ### classes -/

theorem AyCls.sub_refl (a : AyCls) : a.sub a = true := by cases a <;> rfl

theorem stage_sub_stage (a b : AyCls) (ha : a.isStage = true) (hb : b.isStage = true) (h : (Cls.ay a).sub b = true) : a = b := by
  cases a <;> cases b <;> simp_all [Cls.sub, AyCls.sub, AyCls.isStage]

theorem isException_ay (c : AyCls) : (Cls.ay c).isException = true := rfl

/-! ### projections of constructed exceptions -/

@[simp] theorem mkErr_cls (ty : AyCls) (m : Option String) (s : Site) (c : Option Exc) (h : Exc) : (mkErr ty m s c h).cls = .ay ty := rfl
@[simp] theorem mkErr_cause (ty : AyCls) (m : Option String) (s : Site) (c : Option Exc) (h : Exc) : (mkErr ty m s c h).cause = c := rfl
@[simp] theorem mkErr_context (ty : AyCls) (m : Option String) (s : Site) (c : Option Exc) (h : Exc) : (mkErr ty m s c h).context = some h := rfl
@[simp] theorem mkErr_suppress (ty : AyCls) (m : Option String) (s : Site) (c : Option Exc) (h : Exc) : (mkErr ty m s c h).suppress = true := rfl
@[simp] theorem mkErr_pl (ty : AyCls) (m : Option String) (s : Site) (c : Option Exc) (h : Exc) :
    (mkErr ty m s c h).pl = { msg := m, node := s.node, path := s.path, extra := s.other, note := none } := rfl
@[simp] theorem recreate_cls (fl : Flags) (e : Exc) : (recreate fl e).cls = e.cls := rfl
@[simp] theorem recreate_pl (fl : Flags) (e : Exc) : (recreate fl e).pl = e.pl := rfl
@[simp] theorem recreate_context (fl : Flags) (e : Exc) : (recreate fl e).context = some e := rfl
@[simp] theorem recreate_suppress (fl : Flags) (e : Exc) : (recreate fl e).suppress = true := rfl
@[simp] theorem recreate_cause (fl : Flags) (e : Exc) : (recreate fl e).cause = if fl.includeOriginal then e.cause else none := rfl

theorem causes_mk_some (c : Cls) (t : String) (p : Payload) (e : Exc) (x : Option Exc) (s : Bool) :
    (Exc.mk c t p (some e) x s).causes = Exc.mk c t p (some e) x s :: e.causes := by
  simp [Exc.causes]

theorem causes_mk_none (c : Cls) (t : String) (p : Payload) (x : Option Exc) (s : Bool) :
    (Exc.mk c t p none x s).causes = [Exc.mk c t p none x s] := by
  simp [Exc.causes]

/-- the chain of an exception: itself, then the chain of its cause -/
theorem causes_eq (e : Exc) : e.causes = e :: (match e.cause with | none => [] | some c => c.causes) := by
  cases e with
  | mk c t p cause x s =>
    cases cause with
    | none => simp [Exc.causes, Exc.cause]
    | some d => simp [Exc.causes, Exc.cause]

theorem mem_causes_self (e : Exc) : e ∈ e.causes := by rw [causes_eq]; simp

theorem causes_mkErr_some (ty : AyCls) (m : Option String) (s : Site) (e h : Exc) :
    (mkErr ty m s (some e) h).causes = mkErr ty m s (some e) h :: e.causes := causes_mk_some _ _ _ _ _ _

theorem causes_mkErr_none (ty : AyCls) (m : Option String) (s : Site) (h : Exc) :
    (mkErr ty m s none h).causes = [mkErr ty m s none h] := causes_mk_none _ _ _ _ _

/-! ### wrap -/

theorem wrap_sub (fl : Flags) (ty : AyCls) (s : Site) (e : Exc) (h : e.cls.sub ty = true) :
    wrap fl ty s e = if fl.shorten then e else mkErr ty none s (some e) e := by
  simp [wrap, h]

theorem wrap_other (fl : Flags) (ty : AyCls) (s : Site) (e : Exc) (h : e.cls.sub ty = false) (hx : e.cls.isException = true) :
    wrap fl ty s e = if fl.rethrow then mkErr ty (some e.str) s (if fl.includeOriginal then some e else none) e else e := by
  simp [wrap, h, hx]

theorem wrap_base (fl : Flags) (ty : AyCls) (s : Site) (e : Exc) (h : e.cls.sub ty = false) (hx : e.cls.isException = false) :
    wrap fl ty s e = e := by
  simp [wrap, h, hx]

theorem wrap_isException (fl : Flags) (ty : AyCls) (s : Site) (e : Exc) (hx : e.cls.isException = true) :
    (wrap fl ty s e).cls.isException = true := by
  unfold wrap
  split
  · split
    · exact hx
    · rfl
  · split
    · rfl
    · exact hx

theorem wrapAll_isException (fl : Flags) (pts : List (AyCls × Site)) (e : Exc) (hx : e.cls.isException = true) :
    (wrapAll fl pts e).cls.isException = true := by
  induction pts with
  | nil => exact hx
  | cons p r ih => exact wrap_isException fl p.1 p.2 _ ih

/-- with `shorten_traceback` on, a second point of the same class changes nothing -/
theorem wrap_idem (fl : Flags) (hs : fl.shorten = true) (ty : AyCls) (s s' : Site) (e : Exc) :
    wrap fl ty s' (wrap fl ty s e) = wrap fl ty s e := by
  cases hsub : e.cls.sub ty with
  | true =>
    rw [wrap_sub fl ty s e hsub, hs, if_pos rfl, wrap_sub fl ty s' e hsub, hs, if_pos rfl]
  | false =>
    cases hx : e.cls.isException with
    | false => rw [wrap_base fl ty s e hsub hx, wrap_base fl ty s' e hsub hx]
    | true =>
      rw [wrap_other fl ty s e hsub hx]
      cases hr : fl.rethrow with
      | false => simp only [Bool.false_eq_true, if_false]; rw [wrap_other fl ty s' e hsub hx, hr]; rfl
      | true =>
        simp only [if_true]
        rw [wrap_sub fl ty s' _ (by simp [Cls.sub, AyCls.sub_refl]), hs, if_pos rfl]

/-! ### run -/

theorem run_nest_raise (fl : Flags) (pts : List (AyCls × Site)) (e : Exc) (g : Bool) :
    run fl (nest pts (.raise e)) g = (.error (wrapAll fl pts e), g) := by
  induction pts with
  | nil => rfl
  | cons p r ih =>
    obtain ⟨ty, s⟩ := p
    simp only [nest, run, rethrowPoint, ih, wrapAll]

/-- `_api_entered.value` is the same after every call as before it, whatever happens inside -/
theorem run_guard (fl : Flags) (p : Prog) (g : Bool) : (run fl p g).2 = g := by
  induction p generalizing g with
  | raise e => rfl
  | ret => rfl
  | point ty s b ih =>
    simp only [run, rethrowPoint]
    have := ih g
    cases h : run fl b g with
    | mk r g' =>
      rw [h] at this
      cases r <;> exact this
  | api b ih =>
    simp only [run, apiEntry]
    split
    · exact ih g
    · rename_i hc
      have hg : g = false := by
        cases g with
        | false => rfl
        | true => simp at hc
      cases h : run fl b true with
      | mk r g' => cases r <;> simp [hg]
  | seq a b iha ihb =>
    simp only [run]
    have := iha g
    cases h : run fl a g with
    | mk r g' =>
      rw [h] at this
      simp only at this
      cases r with
      | ok v => simp only; rw [this]; exact ihb g
      | error e => exact this
  | attempt a b iha ihb =>
    simp only [run]
    rw [ihb, iha]

theorem run_error_form (fl : Flags) (p : Prog) (g : Bool) (x : Exc) (h : (run fl p g).1 = .error x) : run fl p g = (.error x, g) := by
  have := run_guard fl p g
  cases hr : run fl p g with
  | mk r g' =>
    rw [hr] at h this
    simp only at h this
    rw [h, this]

/-- an api entry that is not the outermost one in its thread, or with the switches off, is transparent -/
theorem run_api_inactive (fl : Flags) (p : Prog) (g : Bool) (h : (g || !fl.rethrow || !fl.shorten) = true) :
    run fl (.api p) g = run fl p g := by
  simp only [run, apiEntry, h, if_true]

theorem run_api_active_error (fl : Flags) (p : Prog) (hr : fl.rethrow = true) (hs : fl.shorten = true) (e : Exc) (g' : Bool)
    (h : run fl p true = (.error e, g')) :
    run fl (.api p) false = (.error (if e.cls.isAy then recreate fl e else e), false) := by
  simp [run, apiEntry, hr, hs, h]

theorem run_api_active_ok (fl : Flags) (p : Prog) (hr : fl.rethrow = true) (hs : fl.shorten = true) (g' : Bool)
    (h : run fl p true = (.ok (), g')) :
    run fl (.api p) false = (.ok (), false) := by
  simp [run, apiEntry, hr, hs, h]

/-! ### nestings -/

/-- `p` is `leaf` inside `n` rethrow points of class `T` and any number of api entries, in any order -/
inductive Around (leaf : Prog) (T : AyCls) : Prog → Nat → Prop
  | leaf : Around leaf T leaf 0
  | point (s : Site) {p : Prog} {n : Nat} : Around leaf T p n → Around leaf T (.point T s p) (n + 1)
  | api {p : Prog} {n : Nat} : Around leaf T p n → Around leaf T (.api p) n

/-- `p` is `leaf` inside rethrow points of any classes and api entries -/
inductive Nesting (leaf : Prog) : Prog → Prop
  | leaf : Nesting leaf leaf
  | point (ty : AyCls) (s : Site) {p : Prog} : Nesting leaf p → Nesting leaf (.point ty s p)
  | api {p : Prog} : Nesting leaf p → Nesting leaf (.api p)

theorem around_nest (leaf : Prog) (T : AyCls) (sites : List Site) : Around leaf T (nest (sites.map (fun s => (T, s))) leaf) sites.length := by
  induction sites with
  | nil => exact .leaf
  | cons s r ih => exact .point s ih

theorem around_evalNest (leaf : Prog) (sites : List Site) : Around leaf .eval (evalNest sites leaf) sites.length := by
  induction sites with
  | nil => exact .leaf
  | cons s r ih => exact .api (.point s ih)

/-- a general induction principle for what leaves a nesting: the outcome is an error satisfying an invariant that the
    leaf's exception has, that every point preserves and that re-creation at an active api entry preserves -/
theorem around_invariant (fl : Flags) (T : AyCls) (e : Exc) (I : Nat → Exc → Prop)
    (h0 : I 0 e)
    (hw : ∀ n s x, I n x → I (n + 1) (wrap fl T s x))
    (ha : ∀ n x, I n x → fl.rethrow = true → fl.shorten = true → I n (if x.cls.isAy then recreate fl x else x))
    (p : Prog) (n : Nat) (hp : Around (.raise e) T p n) (g : Bool) :
    ∃ x, run fl p g = (.error x, g) ∧ I n x := by
  induction hp generalizing g with
  | leaf => exact ⟨e, rfl, h0⟩
  | point s _ ih =>
    obtain ⟨x, hx, hi⟩ := ih g
    exact ⟨wrap fl T s x, by simp only [run, rethrowPoint, hx], hw _ s x hi⟩
  | api _ ih =>
    by_cases hc : (g || !fl.rethrow || !fl.shorten) = true
    · rw [run_api_inactive fl _ g hc]; exact ih g
    · have hg : g = false := by cases g <;> simp_all
      have hr : fl.rethrow = true := by cases h : fl.rethrow <;> simp_all
      have hs : fl.shorten = true := by cases h : fl.shorten <;> simp_all
      obtain ⟨x, hx, hi⟩ := ih true
      rw [hg, run_api_active_error fl _ hr hs x true hx]
      exact ⟨_, rfl, ha _ x hi hr hs⟩

theorem nesting_invariant (fl : Flags) (e : Exc) (I : Exc → Prop)
    (h0 : I e)
    (hw : ∀ ty s x, I x → I (wrap fl ty s x))
    (ha : ∀ x, I x → fl.rethrow = true → fl.shorten = true → I (if x.cls.isAy then recreate fl x else x))
    (p : Prog) (hp : Nesting (.raise e) p) (g : Bool) :
    ∃ x, run fl p g = (.error x, g) ∧ I x := by
  induction hp generalizing g with
  | leaf => exact ⟨e, rfl, h0⟩
  | point ty s _ ih =>
    obtain ⟨x, hx, hi⟩ := ih g
    exact ⟨wrap fl ty s x, by simp only [run, rethrowPoint, hx], hw ty s x hi⟩
  | api _ ih =>
    by_cases hc : (g || !fl.rethrow || !fl.shorten) = true
    · rw [run_api_inactive fl _ g hc]; exact ih g
    · have hg : g = false := by cases g <;> simp_all
      have hr : fl.rethrow = true := by cases h : fl.rethrow <;> simp_all
      have hs : fl.shorten = true := by cases h : fl.shorten <;> simp_all
      obtain ⟨x, hx, hi⟩ := ih true
      rw [hg, run_api_active_error fl _ hr hs x true hx]
      exact ⟨_, rfl, ha x hi hr hs⟩

/-- the same, knowing that at most ONE api entry on the path is active (the outermost, and only when the guard is off):
    `I` holds as long as no active api entry has been passed, `R` afterwards -/
theorem around_invariant_guarded (fl : Flags) (T : AyCls) (e : Exc) (I R : Nat → Exc → Prop)
    (h0 : I 0 e)
    (hw : ∀ n s x, I n x → I (n + 1) (wrap fl T s x))
    (ha : ∀ n x, I n x → fl.rethrow = true → fl.shorten = true → R n (if x.cls.isAy then recreate fl x else x))
    (hwR : ∀ n s x, R n x → fl.rethrow = true → fl.shorten = true → R (n + 1) (wrap fl T s x))
    (p : Prog) (n : Nat) (hp : Around (.raise e) T p n) (g : Bool) :
    ∃ x, run fl p g = (.error x, g) ∧ (I n x ∨ (g = false ∧ fl.rethrow = true ∧ fl.shorten = true ∧ R n x)) := by
  induction hp generalizing g with
  | leaf => exact ⟨e, rfl, Or.inl h0⟩
  | point s _ ih =>
    obtain ⟨x, hx, hi⟩ := ih g
    refine ⟨wrap fl T s x, by simp only [run, rethrowPoint, hx], ?_⟩
    rcases hi with hi | ⟨hg, hr, hs, hR⟩
    · exact Or.inl (hw _ s x hi)
    · exact Or.inr ⟨hg, hr, hs, hwR _ s x hR hr hs⟩
  | api _ ih =>
    by_cases hc : (g || !fl.rethrow || !fl.shorten) = true
    · rw [run_api_inactive fl _ g hc]; exact ih g
    · have hg : g = false := by cases g <;> simp_all
      have hr : fl.rethrow = true := by cases h : fl.rethrow <;> simp_all
      have hs : fl.shorten = true := by cases h : fl.shorten <;> simp_all
      obtain ⟨x, hx, hi⟩ := ih true
      rw [hg, run_api_active_error fl _ hr hs x true hx]
      rcases hi with hi | ⟨h, _⟩
      · exact ⟨_, rfl, Or.inr ⟨rfl, hr, hs, ha _ x hi hr hs⟩⟩
      · cases h

/-- the `__cause__` chain below the exception itself -/
def causesTail (x : Exc) : List Exc :=
  match x.cause with
  | none => []
  | some c => c.causes

theorem causes_cons_tail (x : Exc) : x.causes = x :: causesTail x := causes_eq x

theorem causes_recreate (fl : Flags) (hi : fl.includeOriginal = true) (x : Exc) :
    (recreate fl x).causes = recreate fl x :: causesTail x := by
  rw [causes_eq (recreate fl x), recreate_cause, hi]
  simp only [if_true, causesTail]

theorem causes_recreate_no_include (fl : Flags) (hi : fl.includeOriginal = false) (x : Exc) :
    (recreate fl x).causes = [recreate fl x] := by
  rw [causes_eq (recreate fl x), recreate_cause, hi]
  simp

theorem sub_of_not_ay (c : Cls) (ty : AyCls) (h : c.isAy = false) : c.sub ty = false := by
  cases c <;> simp_all [Cls.isAy, Cls.sub]

/-- inside an active api entry (guard on) the `evaluate_node` recursion wraps once, at the innermost node -/
theorem run_evalNest_true (fl : Flags) (hs : fl.shorten = true) (outer : List Site) (s : Site) (e : Exc) :
    run fl (evalNest (outer ++ [s]) (.raise e)) true = (.error (wrap fl .eval s e), true) := by
  induction outer with
  | nil =>
    simp only [List.nil_append, evalNest]
    rw [run_api_inactive fl _ true (by simp)]
    rfl
  | cons o r ih =>
    simp only [List.cons_append, evalNest]
    rw [run_api_inactive fl _ true (by simp)]
    simp only [run, rethrowPoint] at ih ⊢
    rw [ih]
    simp only
    rw [wrap_idem fl hs]

end AY.ErrWrap
