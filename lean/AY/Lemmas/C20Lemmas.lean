/-
  AY.Lemmas.C20Lemmas — helper lemmas for the C20 theorems (AY/Props/C20.lean).

  The core is the frame lemma `replay_proj`: when the addressing is injective (every thread has its
  own cell, which is what `threading.local` gives) the observations of thread `t` in any interleaved
  execution are those of `t`'s own events run from `t`'s own cell and frames; a step of another
  thread changes neither.
-/
import AY.Model.Slots

namespace AY.Slots

/-! ### point updates -/

theorem upd_same {α : Type} (g : Nat → α) (i : Nat) (a : α) : upd g i a i = a := by
  simp [upd]

theorem upd_other {α : Type} (g : Nat → α) (i j : Nat) (a : α) (h : j ≠ i) : upd g i a j = g j := by
  simp [upd, h]

/-- every thread addresses a cell of its own -/
def Inj (addr : Nat → Nat) : Prop := ∀ a b, addr a = addr b → a = b

theorem localAddr_inj : Inj localAddr := by
  intro a b h
  exact h

/-! ### projections -/

theorem proj_append (t : Nat) (a b : Trace) : proj t (a ++ b) = proj t a ++ proj t b := by
  simp [proj]

theorem proj_emit_same (t : Nat) (e : Event) (o : Option Val) : proj t (emit t e o) = emit t e o := by
  cases o <;> simp [proj, emit]

theorem proj_emit_other (t t' : Nat) (e : Event) (o : Option Val) (h : t' ≠ t) :
    proj t (emit t' e o) = [] := by
  cases o <;> simp [proj, emit, h]

/-! ### the frame lemma -/

theorem stepMachine_cells_same (addr : Nat → Nat) (t : Nat) (e : Event) (m : Machine) :
    (stepMachine addr t e m).cells (addr t) = (lstep e (m.cells (addr t)) (m.frames t)).cells := by
  simp [stepMachine, upd_same]

theorem stepMachine_frames_same (addr : Nat → Nat) (t : Nat) (e : Event) (m : Machine) :
    (stepMachine addr t e m).frames t = (lstep e (m.cells (addr t)) (m.frames t)).frames := by
  simp [stepMachine, upd_same]

/-- a step of another thread does not touch the cell of `t` -/
theorem stepMachine_cells_other (addr : Nat → Nat) (hinj : Inj addr) (t t' : Nat) (e : Event) (m : Machine)
    (h : t' ≠ t) : (stepMachine addr t' e m).cells (addr t) = m.cells (addr t) := by
  have h2 : addr t ≠ addr t' := fun hh => h (hinj _ _ hh).symm
  simp [stepMachine, upd_other _ _ _ _ h2]

/-- a step of another thread does not touch the frames of `t` (true for every addressing) -/
theorem stepMachine_frames_other (addr : Nat → Nat) (t t' : Nat) (e : Event) (m : Machine)
    (h : t' ≠ t) : (stepMachine addr t' e m).frames t = m.frames t := by
  have h2 : t ≠ t' := fun hh => h hh.symm
  simp [stepMachine, upd_other _ _ _ _ h2]

theorem replay_proj (addr : Nat → Nat) (hinj : Inj addr) (t : Nat) :
    ∀ (tr : Interleaving) (m : Machine),
      proj t (replay addr tr m) = localRun t (eventsOf t tr) (m.cells (addr t)) (m.frames t) := by
  intro tr
  induction tr with
  | nil => intro m; simp [replay, eventsOf, localRun, proj]
  | cons hd rest ih =>
    intro m
    cases hd with
    | mk t' e =>
      by_cases h : t' = t
      · subst h
        simp only [replay, eventsOf, if_pos, localRun, proj_append, stepObs, proj_emit_same]
        rw [ih, stepMachine_cells_same, stepMachine_frames_same]
      · simp only [replay, eventsOf, if_neg h, proj_append, stepObs, proj_emit_other _ _ _ _ h,
          List.nil_append]
        rw [ih, stepMachine_cells_other addr hinj t t' e m h, stepMachine_frames_other addr t t' e m h]

theorem replayFinal_cells (addr : Nat → Nat) (hinj : Inj addr) (t : Nat) :
    ∀ (tr : Interleaving) (m : Machine),
      (replayFinal addr tr m).cells (addr t)
        = localFinalCells (eventsOf t tr) (m.cells (addr t)) (m.frames t) := by
  intro tr
  induction tr with
  | nil => intro m; simp [replayFinal, eventsOf, localFinalCells]
  | cons hd rest ih =>
    intro m
    cases hd with
    | mk t' e =>
      by_cases h : t' = t
      · subst h
        simp only [replayFinal, eventsOf, if_pos, localFinalCells]
        rw [ih, stepMachine_cells_same, stepMachine_frames_same]
      · simp only [replayFinal, eventsOf, if_neg h]
        rw [ih, stepMachine_cells_other addr hinj t t' e m h, stepMachine_frames_other addr t t' e m h]

theorem replayFinal_frames (addr : Nat → Nat) (hinj : Inj addr) (t : Nat) :
    ∀ (tr : Interleaving) (m : Machine),
      (replayFinal addr tr m).frames t
        = localFinalFrames (eventsOf t tr) (m.cells (addr t)) (m.frames t) := by
  intro tr
  induction tr with
  | nil => intro m; simp [replayFinal, eventsOf, localFinalFrames]
  | cons hd rest ih =>
    intro m
    cases hd with
    | mk t' e =>
      by_cases h : t' = t
      · subst h
        simp only [replayFinal, eventsOf, if_pos, localFinalFrames]
        rw [ih, stepMachine_cells_same, stepMachine_frames_same]
      · simp only [replayFinal, eventsOf, if_neg h]
        rw [ih, stepMachine_cells_other addr hinj t t' e m h, stepMachine_frames_other addr t t' e m h]

/-! ### schedules -/

/-- the events that thread `t` performs under a schedule: the first `occ t sched` of its program -/
theorem eventsOf_unfold (t : Nat) :
    ∀ (sched : Schedule) (ps : Progs), eventsOf t (unfold sched ps) = (ps t).take (occ t sched) := by
  intro sched
  induction sched with
  | nil => intro ps; simp [unfold, eventsOf, occ]
  | cons x xs ih =>
    intro ps
    by_cases h : x = t
    · subst h
      cases hp : ps x with
      | nil => simp [unfold, hp, occ, ih]
      | cons e rest =>
        simp [unfold, hp, occ, eventsOf, ih, upd_same]
    · cases hp : ps x with
      | nil => simp [unfold, hp, occ, h, ih]
      | cons e rest =>
        have h2 : t ≠ x := fun hh => h hh.symm
        simp [unfold, hp, occ, h, eventsOf, ih, upd_other _ _ _ _ h2]

theorem eventsOf_unfold_complete (t : Nat) (sched : Schedule) (ps : Progs)
    (h : (ps t).length ≤ occ t sched) : eventsOf t (unfold sched ps) = ps t := by
  rw [eventsOf_unfold]
  exact List.take_of_length_le h

theorem occ_append (t : Nat) (a b : Schedule) : occ t (a ++ b) = occ t a + occ t b := by
  induction a with
  | nil => simp [occ]
  | cons x xs ih =>
    by_cases h : x = t
    · simp [occ, h, ih]; omega
    · simp [occ, h, ih]

theorem occ_replicate (t i n : Nat) : occ t (List.replicate n i) = if i = t then n else 0 := by
  induction n with
  | zero => simp [occ]
  | succ n ih =>
    by_cases h : i = t
    · simp [List.replicate_succ, occ, h] at *; exact ih
    · simp [List.replicate_succ, occ, h] at *; exact ih

theorem occ_seqSchedFrom (t : Nat) :
    ∀ (ths : Threads) (i : Nat),
      occ t (seqSchedFrom i ths) = if i ≤ t then (ths.getD (t - i) []).length else 0 := by
  intro ths
  induction ths with
  | nil => intro i; simp [seqSchedFrom, occ]
  | cons p ps ih =>
    intro i
    simp only [seqSchedFrom, occ_append, occ_replicate, ih]
    by_cases h1 : i = t
    · subst h1
      have h3 : ¬ (i + 1 ≤ i) := by omega
      simp [h3]
    · by_cases h2 : i ≤ t
      · have h3 : i + 1 ≤ t := by omega
        have h4 : t - i = (t - (i + 1)) + 1 := by omega
        simp [h1, h2, h3, h4]
      · have h3 : ¬ (i + 1 ≤ t) := by omega
        simp [h1, h2, h3]

theorem seqSched_complete (ths : Threads) : Complete (seqSched ths) ths := by
  intro t
  simp [seqSched, occ_seqSchedFrom, progs]

/-! ### reads: the machine agrees with the declarative `expectedRead` -/

/-- saved `old` values that correspond to a list of open entries -/
def savedOf (s : Slot) : List Val → List Val
  | [] => []
  | _ :: rest => inForce s rest :: savedOf s rest

/-- invariant of slot `s` in a thread whose open entries are `vs` (`ever`: some entry happened) -/
def SlotInv (s : Slot) (ever : Bool) (vs : List Val) (c : Cells) (f : Frames) : Prop :=
  getStack f s = savedOf s vs ∧
  (ever = true → getSlot c s = some (inForce s vs)) ∧
  (ever = false → getSlot c s = none ∧ vs = [])

theorem getSlot_setSlot_same (c : Cells) (s : Slot) (v : Val) : getSlot (setSlot c s v) s = some v := by
  cases s <;> rfl

theorem getSlot_setSlot_other (c : Cells) (s s' : Slot) (v : Val) (h : s' ≠ s) :
    getSlot (setSlot c s' v) s = getSlot c s := by
  cases s <;> cases s' <;> first | rfl | exact absurd rfl h

theorem getStack_setStack_same (f : Frames) (s : Slot) (l : List Val) : getStack (setStack f s l) s = l := by
  cases s <;> rfl

theorem getStack_setStack_other (f : Frames) (s s' : Slot) (l : List Val) (h : s' ≠ s) :
    getStack (setStack f s' l) s = getStack f s := by
  cases s <;> cases s' <;> first | rfl | exact absurd rfl h


theorem getSlot_api (c : Cells) (s : Slot) (v : Option Val) : getSlot { c with api := v } s = getSlot c s := by
  cases s <;> rfl

theorem getStack_api (f : Frames) (s : Slot) (l : List Bool) : getStack { f with api := l } s = getStack f s := by
  cases s <;> rfl

theorem SlotInv_init (s : Slot) : SlotInv s false [] {} {} := by
  cases s <;> simp [SlotInv, getStack, getSlot, savedOf]

/-- an event that leaves slot `s` and its saved values alone keeps the invariant -/
theorem SlotInv_frame (s : Slot) (ever : Bool) (vs : List Val) (c c' : Cells) (f f' : Frames)
    (hc : getSlot c' s = getSlot c s) (hf : getStack f' s = getStack f s)
    (h : SlotInv s ever vs c f) : SlotInv s ever vs c' f' := by
  unfold SlotInv at *
  rw [hc, hf]
  exact h

/-- after the first two lines of `enter`, `old` is the value that was in force -/
theorem current_doInit (s : Slot) (ever : Bool) (vs : List Val) (c : Cells) (f : Frames)
    (h : SlotInv s ever vs c f) : current s (doInit s c) = inForce s vs := by
  obtain ⟨_, h2, h3⟩ := h
  cases ever with
  | true =>
    have := h2 rfl
    simp [doInit, current, this]
  | false =>
    obtain ⟨h4, h5⟩ := h3 rfl
    subst h5
    simp [doInit, current, h4, getSlot_setSlot_same, inForce]

theorem SlotInv_enter_same (s : Slot) (v : Val) (ever : Bool) (vs : List Val) (c : Cells) (f : Frames)
    (h : SlotInv s ever vs c f) :
    SlotInv s true (v :: vs) (lstep (.enter s v) c f).cells (lstep (.enter s v) c f).frames := by
  have hcur := current_doInit s ever vs c f h
  obtain ⟨h1, _, _⟩ := h
  refine ⟨?_, ?_, ?_⟩
  · simp [lstep, doSave, getStack_setStack_same, hcur, h1, savedOf]
  · intro _
    simp [lstep, doInstall, getSlot_setSlot_same, savedOld, doSave, getStack_setStack_same, hcur, inForce]
  · intro hh
    cases hh

theorem SlotInv_enter_other (s s' : Slot) (v : Val) (ever : Bool) (vs : List Val) (c : Cells) (f : Frames)
    (hne : s' ≠ s) (h : SlotInv s ever vs c f) :
    SlotInv s ever vs (lstep (.enter s' v) c f).cells (lstep (.enter s' v) c f).frames := by
  apply SlotInv_frame s ever vs c _ f _ _ _ h
  · simp only [lstep, doInstall, getSlot_setSlot_other _ _ _ _ hne, doInit]
    cases getSlot c s' with
    | none => simp [getSlot_setSlot_other _ _ _ _ hne]
    | some x => simp
  · simp [lstep, doSave, getStack_setStack_other _ _ _ _ hne]

theorem SlotInv_exit_same (s : Slot) (ever : Bool) (vs : List Val) (c : Cells) (f : Frames)
    (h : SlotInv s ever vs c f) :
    SlotInv s ever vs.tail (lstep (.exit s) c f).cells (lstep (.exit s) c f).frames := by
  obtain ⟨h1, h2, h3⟩ := h
  cases vs with
  | nil =>
    have h1' : getStack f s = [] := by simpa [savedOf] using h1
    refine ⟨?_, ?_, ?_⟩
    · simp [lstep, doExitFrames, h1', savedOf]
    · intro he; simpa [lstep, doExitCells, h1'] using h2 he
    · intro he; simpa [lstep, doExitCells, h1'] using h3 he
  | cons v rest =>
    have h1' : getStack f s = inForce s rest :: savedOf s rest := by simpa [savedOf] using h1
    refine ⟨?_, ?_, ?_⟩
    · simp [lstep, doExitFrames, h1', getStack_setStack_same]
    · intro _; simp [lstep, doExitCells, h1', getSlot_setSlot_same]
    · intro he
      have := (h3 he).2
      cases this

theorem SlotInv_exit_other (s s' : Slot) (ever : Bool) (vs : List Val) (c : Cells) (f : Frames)
    (hne : s' ≠ s) (h : SlotInv s ever vs c f) :
    SlotInv s ever vs (lstep (.exit s') c f).cells (lstep (.exit s') c f).frames := by
  apply SlotInv_frame s ever vs c _ f _ _ _ h
  · simp only [lstep, doExitCells]
    cases getStack f s' with
    | nil => simp
    | cons a b => simp [getSlot_setSlot_other _ _ _ _ hne]
  · simp only [lstep, doExitFrames]
    cases getStack f s' with
    | nil => simp
    | cons a b => simp [getStack_setStack_other _ _ _ _ hne]

theorem SlotInv_apiEnter (s : Slot) (ever : Bool) (vs : List Val) (c : Cells) (f : Frames)
    (h : SlotInv s ever vs c f) :
    SlotInv s ever vs (lstep .apiEnter c f).cells (lstep .apiEnter c f).frames := by
  apply SlotInv_frame s ever vs c _ f _ _ _ h
  · simp only [lstep, doApiSet, doApiCheck]
    cases (!truthy (marker c)) <;> simp [getSlot_api]
  · simp [lstep, doApiCheck, getStack_api]

theorem SlotInv_apiExit (s : Slot) (ever : Bool) (vs : List Val) (c : Cells) (f : Frames)
    (h : SlotInv s ever vs c f) :
    SlotInv s ever vs (lstep .apiExit c f).cells (lstep .apiExit c f).frames := by
  apply SlotInv_frame s ever vs c _ f _ _ _ h
  · simp only [lstep, doApiExitCells]
    cases f.api with
    | nil => simp
    | cons a b => cases a <;> simp [getSlot_api]
  · simp only [lstep, doApiExitFrames]
    cases f.api with
    | nil => simp
    | cons a b => simp [getStack_api]

/-- one whole context-manager event keeps the invariant, with the bookkeeping of `entered`/`openVals` -/
theorem SlotInv_step (s : Slot) (e : Event) (hat : atomicEvent e = true) (ever : Bool) (vs : List Val)
    (c : Cells) (f : Frames) (h : SlotInv s ever vs c f) :
    SlotInv s (ever || entered s [e]) (openVals s [e] vs) (lstep e c f).cells (lstep e c f).frames := by
  cases e with
  | enter s' v =>
    by_cases hs : s' = s
    · subst hs
      simpa [entered, openVals] using SlotInv_enter_same s' v ever vs c f h
    · simpa [entered, openVals, hs] using SlotInv_enter_other s s' v ever vs c f hs h
  | exit s' =>
    by_cases hs : s' = s
    · subst hs
      simpa [entered, openVals] using SlotInv_exit_same s' ever vs c f h
    · simpa [entered, openVals, hs] using SlotInv_exit_other s s' ever vs c f hs h
  | read s' => simpa [entered, openVals, lstep] using h
  | apiEnter => simpa [entered, openVals] using SlotInv_apiEnter s ever vs c f h
  | apiExit => simpa [entered, openVals] using SlotInv_apiExit s ever vs c f h
  | raise w => simpa [entered, openVals, lstep] using h
  | slotInit s' => simp [atomicEvent] at hat
  | slotSave s' => simp [atomicEvent] at hat
  | slotInstall s' v => simp [atomicEvent] at hat
  | apiCheck => simp [atomicEvent] at hat
  | apiSet => simp [atomicEvent] at hat

theorem openVals_append (s : Slot) :
    ∀ (a b : List Event) (acc : List Val), openVals s (a ++ b) acc = openVals s b (openVals s a acc) := by
  intro a
  induction a with
  | nil => intro b acc; simp [openVals]
  | cons e es ih =>
    intro b acc
    cases e with
    | enter s' v => by_cases hs : s' = s <;> simp [openVals, hs, ih]
    | exit s' => by_cases hs : s' = s <;> simp [openVals, hs, ih]
    | read s' => simp [openVals, ih]
    | apiEnter => simp [openVals, ih]
    | apiExit => simp [openVals, ih]
    | raise w => simp [openVals, ih]
    | slotInit s' => simp [openVals, ih]
    | slotSave s' => simp [openVals, ih]
    | slotInstall s' v => simp [openVals, ih]
    | apiCheck => simp [openVals, ih]
    | apiSet => simp [openVals, ih]

theorem entered_append (s : Slot) :
    ∀ (a b : List Event), entered s (a ++ b) = (entered s a || entered s b) := by
  intro a
  induction a with
  | nil => intro b; simp [entered]
  | cons e es ih =>
    intro b
    cases e with
    | enter s' v => by_cases hs : s' = s <;> simp [entered, hs, ih]
    | exit s' => simp [entered, ih]
    | read s' => simp [entered, ih]
    | apiEnter => simp [entered, ih]
    | apiExit => simp [entered, ih]
    | raise w => simp [entered, ih]
    | slotInit s' => simp [entered, ih]
    | slotSave s' => simp [entered, ih]
    | slotInstall s' v => simp [entered, ih]
    | apiCheck => simp [entered, ih]
    | apiSet => simp [entered, ih]

/-- a read returns what the thread's own history prescribes -/
theorem doRead_of_inv (s : Slot) (pre : List Event) (c : Cells) (f : Frames)
    (h : SlotInv s (entered s pre) (openVals s pre []) c f) : doRead s c = expectedRead s pre := by
  obtain ⟨_, h2, h3⟩ := h
  unfold expectedRead
  cases he : entered s pre with
  | true => simp [doRead, h2 he]
  | false => simp [doRead, (h3 he).1]

theorem readsOf_append (t : Nat) (a b : Trace) : readsOf t (a ++ b) = readsOf t a ++ readsOf t b := by
  simp [readsOf]

theorem readsOf_proj (t : Nat) (tr : Trace) : readsOf t (proj t tr) = readsOf t tr := by
  simp only [readsOf, proj, List.filter_filter]
  apply List.filter_congr
  intro x _
  cases hx : (x.tid == t) <;> simp

theorem localRun_reads (t : Nat) :
    ∀ (es pre : List Event) (c : Cells) (f : Frames), AtomicOnly es →
      (∀ s, SlotInv s (entered s pre) (openVals s pre []) c f) →
      readsOf t (localRun t es c f) = specReads t pre es := by
  intro es
  induction es with
  | nil => intro pre c f _ _; simp [localRun, specReads, readsOf]
  | cons e es ih =>
    intro pre c f hat hinv
    have hate : atomicEvent e = true := hat e (by simp)
    have hat' : AtomicOnly es := fun x hx => hat x (by simp [hx])
    have hinv' : ∀ s, SlotInv s (entered s (pre ++ [e])) (openVals s (pre ++ [e]) [])
        (lstep e c f).cells (lstep e c f).frames := by
      intro s
      rw [entered_append, openVals_append]
      exact SlotInv_step s e hate _ _ c f (hinv s)
    have hrec := ih (pre ++ [e]) _ _ hat' hinv'
    simp only [localRun, readsOf_append, hrec]
    cases e with
    | read s =>
      have hr := doRead_of_inv s pre c f (hinv s)
      simp [lstep, emit, readsOf, isRead, specReads, hr]
    | enter s v => simp [lstep, emit, readsOf, specReads]
    | exit s => simp [lstep, emit, readsOf, specReads]
    | apiEnter => simp [lstep, emit, readsOf, isRead, specReads]
    | apiExit => simp [lstep, emit, readsOf, specReads]
    | raise w => simp [lstep, emit, readsOf, isRead, specReads]
    | slotInit s => simp [atomicEvent] at hate
    | slotSave s => simp [atomicEvent] at hate
    | slotInstall s v => simp [atomicEvent] at hate
    | apiCheck => simp [atomicEvent] at hate
    | apiSet => simp [atomicEvent] at hate

theorem atomicOnly_take (es : List Event) (n : Nat) (h : AtomicOnly es) : AtomicOnly (es.take n) :=
  fun e he => h e (List.mem_of_mem_take he)

/-- the single-line events compose to the whole events -/
theorem lstep_enter_lines (s : Slot) (v : Val) (c : Cells) (f : Frames) :
    let r1 := lstep (.slotInit s) c f
    let r2 := lstep (.slotSave s) r1.cells r1.frames
    let r3 := lstep (.slotInstall s v) r2.cells r2.frames
    (lstep (.enter s v) c f).cells = r3.cells ∧ (lstep (.enter s v) c f).frames = r3.frames := by
  simp [lstep]

theorem lstep_apiEnter_lines (c : Cells) (f : Frames) :
    let r1 := lstep .apiCheck c f
    let r2 := lstep .apiSet r1.cells r1.frames
    (lstep .apiEnter c f).cells = r2.cells ∧ (lstep .apiEnter c f).frames = r2.frames
      ∧ (lstep .apiEnter c f).obs = r1.obs := by
  simp [lstep]

end AY.Slots
