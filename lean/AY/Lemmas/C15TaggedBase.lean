/-
  AY.Lemmas.C15TaggedBase — the key loop of a mapping merge seen key by key (`stepAt`, `putAt`,
  `mergeLoop_dict_pointwise`), for property C15 on tagged documents.

  The statements are those of AY/Lemmas/C05Siblings.lean (which cannot be imported next to
  AY/Lemmas/C15Perm.lean: both define `mem_of_alookup`); they are restated here inside the namespace
  `AY.C15T` so that the C15 property modules can be imported together.
-/
import AY.Lemmas.C05Wrap
import AY.Lemmas.C05Frame
import AY.Lemmas.C04Merge
import AY.Lemmas.ExcBelow
namespace AY.C15T

/-! ### definitions -/

/-- the mapping content restricted to one key: `{k: c}` or `{}` -/
def single (k : Key) : Option Node → List (Key × Node)
  | none => []
  | some c => [(k, c)]

/-- the error of a failed run -/
def errOf {α : Type} : Except Err α → Option Err
  | .error e => some e
  | .ok _ => none

/-- One iteration of the key loop of a mapping seen from the key it works on: `c?` is the entry
    `self` has under `k` (if any), `v` the incoming value; the result is the entry afterwards
    (`none` = no entry). -/
def stepAt (rec : Node → Node → Except Err (Node × Bool)) (sf : Flags) (exc : List Path) (k : Key)
    (c? : Option Node) (v : Node) : Except Err (Option Node) :=
  match c? with
  | none =>
    match reqNew (excBelow k exc) [] v with
    | some p => .error (.notnew (k :: p))
    | none => .ok (some (adopt sf .dict v))
  | some child =>
    match rec child v with
    | .error e => .error (e.prepend k)
    | .ok (nw, same) =>
      if child.isComp then
        if !nw.truthy && !hasPrio nw.flags v.flags false && v.flags.del == some true then .ok none
        else if same then .ok (some nw)
        else .ok (some (adopt sf .dict nw))
      else
        if same then .ok (some nw)
        else
          match reqNewBelow nw with
          | some p => .error (.notnew (k :: p))
          | none =>
            if !nw.truthy && nw.flags.del == some true then .ok none
            else .ok (some (adopt sf .dict nw))

/-- store (or remove) the entry under `k` -/
def putAt (k : Key) (acc : List (Key × Node)) : Option Node → List (Key × Node)
  | none => aerase k acc
  | some x => aset k x acc

/-! ### association lists -/

@[simp] theorem errOf_ok {α : Type} (a : α) : errOf (.ok a : Except Err α) = none := rfl
@[simp] theorem errOf_error {α : Type} (e : Err) : errOf (.error e : Except Err α) = some e := rfl

theorem errOf_none {α : Type} {x : Except Err α} (h : errOf x = none) : ∃ a, x = .ok a := by
  cases x with
  | error e => simp at h
  | ok a => exact ⟨a, rfl⟩

theorem mem_of_alookup {α : Type} {k : Key} {v : α} : ∀ {l : List (Key × α)}, alookup k l = some v → (k, v) ∈ l
  | [], h => by simp [alookup] at h
  | (k', v') :: rest, h => by
    by_cases e : k' = k
    · subst e
      simp only [alookup, if_true, Option.some.injEq] at h
      subst h
      simp
    · simp only [alookup, e, if_false] at h
      exact List.mem_cons_of_mem _ (mem_of_alookup h)

theorem mem_akeys_of_mem {α : Type} {k : Key} {v : α} : ∀ {l : List (Key × α)}, (k, v) ∈ l → k ∈ akeys l
  | [], h => by cases h
  | a :: r, h => by
    rcases List.mem_cons.1 h with h | h
    · subst h; simp [akeys]
    · simp [akeys, mem_akeys_of_mem h]

theorem alookup_of_mem {α : Type} {k : Key} {v : α} : ∀ {l : List (Key × α)}, keysNodup l = true →
    (k, v) ∈ l → alookup k l = some v
  | [], _, h => by cases h
  | (k', v') :: rest, hn, h => by
    have hn' : k' ∉ akeys rest ∧ keysNodup rest = true := by simpa [keysNodup] using hn
    rcases List.mem_cons.1 h with h | h
    · injection h with h1 h2
      subst h1; subst h2
      simp [alookup]
    · have hk : k ∈ akeys rest := mem_akeys_of_mem h
      have : ¬ k' = k := fun e => hn'.1 (e ▸ hk)
      simp only [alookup, this, if_false]
      exact alookup_of_mem hn'.2 h

theorem alookup_single (k : Key) (c? : Option Node) : alookup k (single k c?) = c? := by
  cases c? <;> simp [single, alookup]

theorem alookup_single_ne {k k' : Key} (h : k ≠ k') (c? : Option Node) : alookup k' (single k c?) = none := by
  cases c? <;> simp [single, alookup, h]

theorem keysNodup_single (k : Key) (c? : Option Node) : keysNodup (single k c?) = true := by
  cases c? <;> simp [single, keysNodup, akeys]

theorem alookup_aerase_self {α : Type} (k : Key) : ∀ l : List (Key × α), keysNodup l = true →
    alookup k (aerase k l) = none
  | [], _ => rfl
  | (k', v) :: rest, h => by
    have h' : (akeys rest).contains k' = false ∧ keysNodup rest = true := by simpa [keysNodup] using h
    by_cases e : k' = k
    · subst e
      simp only [aerase, if_true]
      exact (alookup_none_iff k' rest).2 h'.1
    · simp [aerase, alookup, e, alookup_aerase_self k rest h'.2]

theorem alookup_putAt_self (k : Key) (acc : List (Key × Node)) (h : keysNodup acc = true) (x? : Option Node) :
    alookup k (putAt k acc x?) = x? := by
  cases x? with
  | none => exact alookup_aerase_self k acc h
  | some x => simp [putAt, alookup_aset]

theorem alookup_putAt_ne {k k' : Key} (hne : k ≠ k') (acc : List (Key × Node)) (x? : Option Node) :
    alookup k' (putAt k acc x?) = alookup k' acc := by
  cases x? with
  | none => exact alookup_aerase k' k hne acc
  | some x => simp [putAt, alookup_aset, hne]

theorem akeys_aerase_sub {α : Type} (k : Key) : ∀ (l : List (Key × α)) (x : Key),
    x ∈ akeys (aerase k l) → x ∈ akeys l
  | [], _, h => by simp [aerase, akeys] at h
  | (k', v') :: rest, x, h => by
    by_cases hk : k' = k
    · simp [aerase, hk] at h; simp [akeys, h]
    · simp only [aerase, hk, if_false, akeys, List.mem_cons] at h ⊢
      rcases h with h | h
      · exact .inl h
      · exact .inr (akeys_aerase_sub k rest x h)

theorem keysNodup_aerase {α : Type} (k : Key) : ∀ l : List (Key × α), keysNodup l = true →
    keysNodup (aerase k l) = true
  | [], _ => rfl
  | (k', v) :: rest, h => by
    have h' : (akeys rest).contains k' = false ∧ keysNodup rest = true := by simpa [keysNodup] using h
    by_cases e : k' = k
    · simp [aerase, e, h'.2]
    · have : k' ∉ akeys (aerase k rest) := by
        intro hm
        have := akeys_aerase_sub k rest k' hm
        have h1 := h'.1
        simp at h1
        exact absurd this h1
      simp [aerase, e, keysNodup, this, keysNodup_aerase k rest h'.2]

theorem keysNodup_aset {α : Type} (k : Key) (v : α) (l : List (Key × α)) (h : keysNodup l = true) :
    keysNodup (aset k v l) = true := by
  cases hl : alookup k l with
  | none =>
    rw [aset_of_lookup_none k v l hl]
    have hc := (alookup_none_iff k l).1 hl
    clear hl
    induction l with
    | nil => simp [keysNodup, akeys]
    | cons kv rest ih =>
      obtain ⟨k', v'⟩ := kv
      have h' : (akeys rest).contains k' = false ∧ keysNodup rest = true := by simpa [keysNodup] using h
      have hc' : ¬ k = k' ∧ (akeys rest).contains k = false := by
        simp only [akeys, List.contains_cons, Bool.or_eq_false_iff, beq_eq_false_iff_ne, ne_eq] at hc
        exact hc
      have h1 : k' ∉ akeys rest := by simpa using h'.1
      have : k' ∉ akeys (rest ++ [(k, v)]) := by
        rw [keysOf_append]
        simp only [akeys, List.mem_append, List.mem_cons, List.not_mem_nil, or_false, not_or]
        exact ⟨h1, fun e => hc'.1 e.symm⟩
      simp [keysNodup, this, ih h'.2 hc'.2]
  | some x => rw [keysNodup_congr _ l (keysOf_aset_of_some k v l (by simp [hl]))]; exact h

theorem keysNodup_putAt (k : Key) (acc : List (Key × Node)) (h : keysNodup acc = true) (x? : Option Node) :
    keysNodup (putAt k acc x?) = true := by
  cases x? with
  | none => exact keysNodup_aerase k acc h
  | some x => exact keysNodup_aset k x acc h

/-! ### one iteration of the key loop -/

/-- `mergeStep` on a mapping: compute the new entry from the old one, store it -/
theorem mergeStep_dict_stepAt (rec : Node → Node → Except Err (Node × Bool)) (sf : Flags)
    (exc : List Path) (acc : List (Key × Node)) (k : Key) (v : Node) :
    mergeStep rec sf .dict exc acc (k, v) =
      (stepAt rec sf exc k (alookup k acc) v).map (putAt k acc) := by
  have hd : CompKind.dict.isDictFam = true := rfl
  simp only [mergeStep, c04_getChild_dict hd, c04_setChild_dictFam hd, c04_replaceChild_dictFam hd, stepAt]
  cases hl : alookup k acc with
  | none =>
    simp only
    cases reqNew (excBelow k exc) [] v <;> rfl
  | some child =>
    have hsome : (alookup k acc).isSome = true := by simp [hl]
    simp only [c04_removeChildE_dictFam hd k acc hsome]
    cases rec child v with
    | error e => rfl
    | ok res =>
      obtain ⟨nw, same⟩ := res
      simp only
      split
      · split
        · rfl
        · split <;> rfl
      · split
        · rfl
        · cases reqNewBelow nw with
          | some p => rfl
          | none =>
            simp only
            split <;> rfl

/-- on the restriction to `k` the step computes the same entry -/
theorem mergeStep_single (rec : Node → Node → Except Err (Node × Bool)) (sf : Flags)
    (exc : List Path) (k : Key) (c? : Option Node) (v : Node) :
    mergeStep rec sf .dict exc (single k c?) (k, v) = (stepAt rec sf exc k c? v).map (single k) := by
  rw [mergeStep_dict_stepAt, alookup_single]
  cases stepAt rec sf exc k c? v with
  | error e => rfl
  | ok x? =>
    cases x? <;> cases c? <;> simp [Except.map, putAt, single, aerase, aset]

/-! ### the key loop -/

theorem findSome?_congr' {α β : Type} {f g : α → Option β} : ∀ {l : List α},
    (∀ x ∈ l, f x = g x) → l.findSome? f = l.findSome? g
  | [], _ => rfl
  | a :: rest, h => by
    simp only [List.findSome?_cons, h a (by simp)]
    cases g a with
    | some b => rfl
    | none => exact findSome?_congr' (fun x hx => h x (List.mem_cons_of_mem _ hx))

/-- the key loop of a mapping, key by key (distinct incoming keys): it fails with the error of the
    first iteration that fails, each iteration seeing the ORIGINAL entry of its key; on success
    every incoming key holds what its iteration computed, every other key is untouched -/
theorem mergeLoop_dict_pointwise (rec : Node → Node → Except Err (Node × Bool)) (sf : Flags)
    (exc : List Path) : ∀ (ocs acc : List (Key × Node)), keysNodup ocs = true → keysNodup acc = true →
    errOf (mergeLoop rec sf .dict exc acc ocs) =
        ocs.findSome? (fun kv => errOf (stepAt rec sf exc kv.1 (alookup kv.1 acc) kv.2)) ∧
    ∀ acc', mergeLoop rec sf .dict exc acc ocs = .ok acc' →
      keysNodup acc' = true ∧
      ∀ k, match alookup k ocs with
        | none => alookup k acc' = alookup k acc
        | some v => stepAt rec sf exc k (alookup k acc) v = .ok (alookup k acc')
  | [], acc, _, hacc => by
    refine ⟨rfl, ?_⟩
    intro acc' h
    simp only [mergeLoop] at h
    injection h with h
    subst h
    exact ⟨hacc, fun k => rfl⟩
  | (k0, v0) :: rest, acc, hn, hacc => by
    have hn' : (akeys rest).contains k0 = false ∧ keysNodup rest = true := by simpa [keysNodup] using hn
    have hk0rest : alookup k0 rest = none := (alookup_none_iff k0 rest).2 hn'.1
    simp only [mergeLoop, List.findSome?_cons, mergeStep_dict_stepAt]
    cases hs : stepAt rec sf exc k0 (alookup k0 acc) v0 with
    | error e =>
      have e1 : (Except.map (putAt k0 acc) (Except.error e) : Except Err _) = .error e := rfl
      simp only [e1, errOf_error]
      refine ⟨trivial, ?_⟩
      intro acc' h
      cases h
    | ok x? =>
      have e1 : (Except.map (putAt k0 acc) (Except.ok x?) : Except Err _) = .ok (putAt k0 acc x?) := rfl
      simp only [e1, errOf_ok]
      have hacc1 := keysNodup_putAt k0 acc hacc x?
      obtain ⟨ih1, ih2⟩ := mergeLoop_dict_pointwise rec sf exc rest (putAt k0 acc x?) hn'.2 hacc1
      have hfr : ∀ kv ∈ rest, alookup kv.1 (putAt k0 acc x?) = alookup kv.1 acc := by
        intro kv hkv
        apply alookup_putAt_ne
        intro e
        have hm : k0 ∈ akeys rest := by
          rw [e]
          exact mem_akeys_of_mem (v := kv.2) hkv
        have := hn'.1
        simp at this
        exact this hm
      constructor
      · rw [ih1]
        exact findSome?_congr' (fun kv hkv => by rw [hfr kv hkv])
      · intro acc' h
        obtain ⟨hnd', hpt⟩ := ih2 acc' h
        refine ⟨hnd', ?_⟩
        intro k
        by_cases e : k0 = k
        · subst e
          have := hpt k0
          rw [hk0rest] at this
          simp only at this
          simp only [alookup, if_true]
          rw [this, alookup_putAt_self k0 acc hacc]
          exact hs
        · have := hpt k
          simp only [alookup, e, if_false]
          rw [alookup_putAt_ne e] at this
          exact this

end AY.C15T
