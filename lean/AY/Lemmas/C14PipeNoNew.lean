/-
  AY.Lemmas.C14PipeNoNew — a merge never CREATES a `!required` placeholder: every node of the result is a
  node of one of the two inputs (up to flags), for every class of node, every dispatch of `on_merge`, the
  pruning pre-filters, list deletion with renumbering and the promotions.

  * `mergeF_noReq`            no placeholder in `a` and none in `b`: none in the merge;
  * `othersClean`             "the only placeholders of the tree are at (or below) the path";
  * `only_placeholder_gone`   the only placeholder is at `k :: p` and the newer tree (which has none)
                              writes a node there that the placeholder does not outrank: the merge has none.
-/
import AY.Lemmas.C14PipePath
namespace AY.C14P
open AY.C04P

/-- no placeholder in the tree -/
abbrev NR (n : Node) : Prop := hasRequired n = false
/-- no placeholder below any of the children -/
abbrev NRL (cs : List (Key × Node)) : Prop := hasRequiredList cs = false

theorem nrl_iff : ∀ cs : List (Key × Node), NRL cs ↔ ∀ kv, kv ∈ cs → NR kv.2
  | [] => by simp [NRL, hasRequiredList]
  | (k, c) :: rest => by
    simp only [NRL, hasRequiredList, Bool.or_eq_false_iff, List.mem_cons, forall_eq_or_imp]
    exact and_congr Iff.rfl (nrl_iff rest)

theorem nr_comp {f : Flags} {k : CompKind} {cs : List (Key × Node)} : NR (.comp f k cs) ↔ NRL cs := by
  simp [NR, NRL, hasRequired]

theorem nrl_nil : NRL [] := rfl

/-! ### association lists and the mutators -/

theorem mem_aset {α : Type} {k : Key} {v : α} : ∀ {l : List (Key × α)} {kv : Key × α},
    kv ∈ aset k v l → kv = (k, v) ∨ kv ∈ l
  | [], kv, h => by simp [aset] at h; exact .inl h
  | (k', v') :: rest, kv, h => by
    simp only [aset] at h
    split at h
    · rcases List.mem_cons.1 h with h | h
      · exact .inl h
      · exact .inr (List.mem_cons_of_mem _ h)
    · rcases List.mem_cons.1 h with h | h
      · exact .inr (by rw [h]; exact List.mem_cons_self)
      · rcases mem_aset h with h | h
        · exact .inl h
        · exact .inr (List.mem_cons_of_mem _ h)

theorem mem_aerase {α : Type} {k : Key} : ∀ {l : List (Key × α)} {kv : Key × α}, kv ∈ aerase k l → kv ∈ l
  | [], kv, h => by simp [aerase] at h
  | (k', v') :: rest, kv, h => by
    simp only [aerase] at h
    split at h
    · exact List.mem_cons_of_mem _ h
    · rcases List.mem_cons.1 h with h | h
      · rw [h]; exact List.mem_cons_self
      · exact List.mem_cons_of_mem _ (mem_aerase h)

theorem mem_renumFrom {α : Type} : ∀ (i : Nat) (xs : List α) (kv : Key × α), kv ∈ renumFrom i xs → kv.2 ∈ xs
  | _, [], kv, h => by simp [renumFrom] at h
  | i, x :: xs, kv, h => by
    simp only [renumFrom] at h
    rcases List.mem_cons.1 h with h | h
    · rw [h]; exact List.mem_cons_self
    · exact List.mem_cons_of_mem _ (mem_renumFrom (i + 1) xs kv h)

theorem nrl_aset {k : Key} {v : Node} {cs : List (Key × Node)} (hv : NR v) (h : NRL cs) : NRL (aset k v cs) := by
  rw [nrl_iff] at h ⊢
  intro kv hm
  rcases mem_aset hm with e | hm
  · rw [e]; exact hv
  · exact h kv hm

theorem nrl_aerase {k : Key} {cs : List (Key × Node)} (h : NRL cs) : NRL (aerase k cs) := by
  rw [nrl_iff] at h ⊢
  exact fun kv hm => h kv (mem_aerase hm)

theorem nr_of_alookup {k : Key} {c : Node} {cs : List (Key × Node)} (h : NRL cs) (hl : alookup k cs = some c) : NR c :=
  (nrl_iff cs).1 h (k, c) (mem_of_alookup hl)

theorem nr_adopt {pf : Flags} {pk : CompKind} {v : Node} (h : NR v) : NR (adopt pf pk v) := by
  simp only [NR, hasRequired_adopt]; exact h

theorem nrl_listDelAt {pf : Flags} {pk : CompKind} {i : Nat} {cs : List (Key × Node)} (h : NRL cs) :
    NRL (listDelAt pf pk i cs) := by
  rw [nrl_iff] at h ⊢
  intro kv hm
  have := mem_renumFrom 0 _ kv hm
  rcases List.mem_append.1 this with hm | hm
  · obtain ⟨a, ha, e⟩ := List.mem_map.1 hm
    rw [← e]; exact h a (List.mem_of_mem_take ha)
  · obtain ⟨a, ha, e⟩ := List.mem_map.1 hm
    rw [← e]; exact nr_adopt (h a (List.mem_of_mem_drop ha))

theorem nrl_removeChild {pf : Flags} {pk : CompKind} {name : Key} {cs cs' : List (Key × Node)}
    (h : NRL cs) (hr : removeChild pf pk name cs = some cs') : NRL cs' := by
  unfold removeChild at hr
  split at hr
  · split at hr
    · cases hr; exact nrl_aerase h
    · cases hr
  · split at hr
    · cases hr
    · cases hr; exact nrl_listDelAt h

theorem nrl_removeChildE {pf : Flags} {pk : CompKind} {name : Key} {cs cs' : List (Key × Node)}
    (h : NRL cs) (hr : removeChildE pf pk name cs = .ok cs') : NRL cs' := by
  unfold removeChildE at hr
  split at hr
  · rename_i cs'' hr'; cases hr; exact nrl_removeChild h hr'
  · cases hr

theorem nrl_setChild {pf : Flags} {pk : CompKind} {name : Key} {v : Node} {cs cs' : List (Key × Node)}
    (h : NRL cs) (hv : NR v) (hr : setChild pf pk name v cs = .ok cs') : NRL cs' := by
  unfold setChild at hr
  split at hr
  · cases hr; exact nrl_aset (nr_adopt hv) h
  · split at hr
    · cases hr
    · cases hr; exact nrl_aset (nr_adopt hv) h

theorem nrl_replaceChild {pk : CompKind} {key : Key} {v : Node} {cs : List (Key × Node)}
    (h : NRL cs) (hv : NR v) : NRL (replaceChild pk key v cs) := by
  unfold replaceChild
  split
  · exact nrl_aset hv h
  · split
    · exact nrl_aset hv h
    · exact h

theorem nr_getChild {pk : CompKind} {name : Key} {c : Node} {cs : List (Key × Node)} (h : NRL cs)
    (hg : getChild pk name cs = some c) : NR c := by
  unfold getChild at hg
  split at hg
  · exact nr_of_alookup h hg
  · split at hg
    · cases hg
    · exact nr_of_alookup h hg

theorem nrl_removeMany {pf : Flags} {pk : CompKind} : ∀ (names : List Key) (cs : List (Key × Node)), NRL cs →
    NRL (removeMany pf pk names cs)
  | [], cs, h => by simpa [removeMany] using h
  | nm :: rest, cs, h => by
    simp only [removeMany]
    split
    · rename_i cs' hr
      exact nrl_removeMany rest cs' (nrl_removeChild h hr)
    · exact nrl_removeMany rest cs h

theorem nrl_adoptAll {pf : Flags} {pk : CompKind} : ∀ (src acc r : List (Key × Node)), NRL src → NRL acc →
    adoptAll pf pk src acc = .ok r → NRL r
  | [], acc, r, _, ha, h => by simp only [adoptAll] at h; cases h; exact ha
  | (k, v) :: rest, acc, r, hs, ha, h => by
    have hs' : NR v ∧ NRL rest := by simpa [NRL, hasRequiredList] using hs
    simp only [adoptAll] at h
    split at h
    · cases h
    · rename_i acc' hsc
      exact nrl_adoptAll rest acc' r hs'.2 (nrl_setChild ha hs'.1 hsc) h

/-! ### `filter_nodes` -/

mutual
theorem nr_filterNode (cond : Path → Node → Bool) : ∀ (pre : Path) (n : Node), NR n → NR (filterNode cond pre n).1
  | _, .leaf f k, h => h
  | pre, .comp f k cs, h => by
    simp only [filterNode]
    rw [nr_comp] at h ⊢
    exact nrl_removeMany _ _ (nrl_filterList cond pre cs h)
theorem nrl_filterList (cond : Path → Node → Bool) : ∀ (pre : Path) (cs : List (Key × Node)), NRL cs →
    NRL (dropMarks (filterList cond pre cs).1)
  | _, [], _ => rfl
  | pre, (name, child) :: rest, h => by
    have h' : NR child ∧ NRL rest := by simpa [NRL, hasRequiredList] using h
    simp only [filterList, dropMarks, NRL, hasRequiredList, Bool.or_eq_false_iff]
    exact ⟨nr_filterNode cond (pre ++ [name]) child h'.1, nrl_filterList cond pre rest h'.2⟩
end

theorem nrl_filterNode_children (cond : Path → Node → Bool) (pre : Path) (f : Flags) (k : CompKind)
    {cs : List (Key × Node)} (h : NRL cs) : NRL (filterNode cond pre (.comp f k cs)).1.children := by
  have := nr_filterNode cond pre (.comp f k cs) (nr_comp.2 h)
  simp only [filterNode] at this ⊢
  exact nr_comp.1 this

/-! ### the merge algebra -/

theorem nr_propagate {n : Node} (h : NR n) : NR (propagate n) := by
  simp only [NR, hasRequired_propagate]; exact h

theorem nr_leafRule {s o : Node} (hs : NR s) (ho : NR o) : NR (leafRule s o).1 := by
  unfold leafRule
  split
  · simp only [NR, hasRequired_propagate, hasRequired_setFlags]; exact hs
  · simp only [NR, hasRequired_propagate, hasRequired_setFlags]; exact ho

/-- `_maybe_promote`: the children of the result are (adopted) children of `self` -/
theorem nr_maybePromote {sf : Flags} {sk : CompKind} {scs : List (Key × Node)} {o r : Node} {b : Bool}
    (hscs : NRL scs) (h : maybePromote sf sk scs o = .ok (r, b)) : NR r := by
  unfold maybePromote at h
  split at h
  · cases h; exact nr_comp.2 hscs
  · rename_i of ok ocs
    repeat' split at h
    all_goals first
      | (cases h; exact nr_comp.2 hscs)
      | (rename_i cs' ha; cases h; exact nr_comp.2 (nrl_adoptAll _ _ _ hscs nrl_nil ha))
      | cases h

theorem nr_finishMerge {sf : Flags} {sk : CompKind} {scs : List (Key × Node)} {o r : Node} {b : Bool}
    (hscs : NRL scs) (h : finishMerge sf sk scs o = .ok (r, b)) : NR r := by
  unfold finishMerge at h
  split at h
  · split at h
    · cases h
    · rename_i r' same hp; cases h; exact nr_propagate (nr_maybePromote hscs hp)
  · split at h
    · cases h
    · rename_i r' same hp; cases h; exact nr_propagate (nr_maybePromote hscs hp)

/-- what the loop needs from the recursive merge -/
def RecNR (rec : Node → Node → Except Err (Node × Bool)) : Prop :=
  ∀ a b r s, NR a → NR b → rec a b = .ok (r, s) → NR r

theorem nrl_mergeStep {exc : List Path} {rec : Node → Node → Except Err (Node × Bool)} (hrec : RecNR rec) {sf : Flags}
    {sk : CompKind} {acc acc' : List (Key × Node)} {kv : Key × Node} (hacc : NRL acc)
    (hkv : NR kv.2) (h : mergeStep rec sf sk exc acc kv = .ok acc') : NRL acc' := by
  unfold mergeStep at h
  split at h
  · split at h
    · cases h
    · exact nrl_setChild hacc hkv h
  · rename_i child hg
    have hchild := nr_getChild hacc hg
    split at h
    · cases h
    · rename_i nw same hr
      have hnw := hrec _ _ _ _ hchild hkv hr
      split at h
      · split at h
        · exact nrl_removeChildE hacc h
        · split at h
          · cases h; exact nrl_replaceChild hacc hnw
          · exact nrl_setChild hacc hnw h
      · split at h
        · cases h; exact nrl_replaceChild hacc hnw
        · split at h
          · cases h
          · split at h
            · exact nrl_removeChildE hacc h
            · exact nrl_setChild hacc hnw h

theorem nrl_mergeLoop {exc : List Path} {rec : Node → Node → Except Err (Node × Bool)} (hrec : RecNR rec) (sf : Flags)
    (sk : CompKind) : ∀ (acc ocs acc' : List (Key × Node)), NRL acc → NRL ocs →
    mergeLoop rec sf sk exc acc ocs = .ok acc' → NRL acc'
  | acc, [], acc', hacc, _, h => by simp only [mergeLoop] at h; cases h; exact hacc
  | acc, kv :: rest, acc', hacc, ho, h => by
    obtain ⟨k, v⟩ := kv
    have ho' : NR v ∧ NRL rest := by simpa [NRL, hasRequiredList] using ho
    simp only [mergeLoop] at h
    split at h
    · cases h
    · rename_i acc1 hs
      exact nrl_mergeLoop hrec sf sk acc1 rest acc' (nrl_mergeStep hrec hacc ho'.1 hs) ho'.2 h

theorem nr_compMerge {rec : Node → Node → Except Err (Node × Bool)} (hrec : RecNR rec) {sf : Flags}
    {sk : CompKind} {scs : List (Key × Node)} {o r : Node} {b : Bool} (hscs : NRL scs)
    (ho : NR o) (h : compMerge rec sf sk scs o = .ok (r, b)) : NR r := by
  cases o with
  | leaf of lk =>
    simp only [compMerge, Except.ok.injEq] at h
    have e1 : r = (leafRule (.comp sf sk scs) (.leaf of lk)).1 := by rw [h]
    subst e1
    exact nr_leafRule (nr_comp.2 hscs) ho
  | comp of ok ocs =>
    have hocs : NRL ocs := nr_comp.1 ho
    simp only [compMerge] at h
    split at h
    · split at h
      · split at h
        · cases h
        · split at h
          · cases h
          · rename_i res sameAsOther hp
            cases h
            exact nr_propagate (nr_maybePromote hocs hp)
      · split at h
        · cases h
        · rename_i scs' hl
          exact nr_finishMerge (nrl_mergeLoop hrec sf sk _ ocs scs' (nrl_filterNode_children _ _ sf sk hscs) hocs hl) h
    · split at h
      · cases h
      · rename_i scs' hl
        exact nr_finishMerge (nrl_mergeLoop hrec sf sk _ ocs scs' hscs hocs hl) h

theorem nr_listMerge {rec : Node → Node → Except Err (Node × Bool)} (hrec : RecNR rec) {sf : Flags}
    {sk : CompKind} {scs : List (Key × Node)} {o r : Node} {b : Bool} (hscs : NRL scs)
    (ho : NR o) (h : listMerge rec sf sk scs o = .ok (r, b)) : NR r := by
  cases o with
  | leaf of lk => exact nr_compMerge hrec hscs ho (by simpa only [listMerge] using h)
  | comp of ok ocs =>
    simp only [listMerge] at h
    split at h
    · cases h
    · exact nr_compMerge hrec hscs (nr_filterNode _ _ _ ho) h

theorem nr_comp_propagate (f : Flags) {k : CompKind} {cs : List (Key × Node)} (h : NRL cs) :
    NR (propagate (.comp f k cs)) := nr_propagate (nr_comp.2 h)

theorem nr_funcMerge {rec : Node → Node → Except Err (Node × Bool)} (hrec : RecNR rec) {sf : Flags}
    {sk : CompKind} {f : String} {scs : List (Key × Node)} {o r : Node} {b : Bool}
    (hscs : NRL scs) (ho : NR o)
    (h : funcMerge rec sf sk f scs o = .ok (r, b)) : NR r := by
  cases o with
  | leaf of lk =>
    simp only [funcMerge] at h
    split at h
    · split at h
      · split at h
        · cases h; exact nr_comp_propagate _ nrl_nil
        · cases h; exact nr_comp_propagate _ hscs
      · cases h; exact nr_comp_propagate _ hscs
    · exact nr_compMerge hrec hscs ho h
  | comp of ok ocs =>
    simp only [funcMerge] at h
    split at h
    · exact nr_compMerge hrec hscs ho h
    · split at h
      · split at h
        · cases h; exact nr_comp_propagate _ hscs
        · refine nr_compMerge hrec ?_ ho h
          split
          · exact nrl_nil
          · exact hscs
      · exact nr_compMerge hrec hscs ho h

/-- NO PLACEHOLDER IS CREATED: `on_merge` of two trees without a placeholder has none, at every fuel -/
theorem mergeF_noReq : ∀ (fuel : Nat), RecNR (mergeF fuel)
  | 0 => fun a b r s _ _ h => by simp [mergeF] at h
  | fuel + 1 => fun a b r s ha hb h => by
    have ih := mergeF_noReq fuel
    cases a with
    | leaf f k =>
      simp only [mergeF, Except.ok.injEq] at h
      have e1 : r = (leafRule (.leaf f k) b).1 := by rw [h]
      subst e1
      exact nr_leafRule ha hb
    | comp sf sk scs =>
      have hscs : NRL scs := nr_comp.1 ha
      cases sk with
      | dict => exact nr_compMerge ih hscs hb (by simpa only [mergeF] using h)
      | call g => exact nr_funcMerge ih hscs hb (by simpa only [mergeF] using h)
      | bind g => exact nr_funcMerge ih hscs hb (by simpa only [mergeF] using h)
      | list => exact nr_listMerge ih hscs hb (by simpa only [mergeF] using h)
      | append => exact nr_listMerge ih hscs hb (by simpa only [mergeF] using h)
      | extend => exact nr_listMerge ih hscs hb (by simpa only [mergeF] using h)
      | path p => exact nr_listMerge ih hscs hb (by simpa only [mergeF] using h)
      | stream => exact nr_listMerge ih hscs hb (by simpa only [mergeF] using h)

/-! ### the only placeholder -/

mutual
/-- every placeholder of the tree is at or below the path `P` (entries off the path have none) -/
def othersClean : Path → Node → Bool
  | [], _ => true
  | _ :: _, .leaf .. => true
  | k :: p, .comp _ _ cs => othersCleanL k p cs
def othersCleanL (k : Key) (p : Path) : List (Key × Node) → Bool
  | [] => true
  | (k', c) :: rest => (if k' = k then othersClean p c else !hasRequired c) && othersCleanL k p rest
end

theorem othersCleanL_mem {k : Key} {p : Path} : ∀ {cs : List (Key × Node)}, othersCleanL k p cs = true →
    ∀ k' c, (k', c) ∈ cs → if k' = k then othersClean p c = true else hasRequired c = false
  | [], _, _, _, hm => by cases hm
  | (k0, c0) :: rest, h, k', c, hm => by
    simp only [othersCleanL, Bool.and_eq_true] at h
    rcases List.mem_cons.1 hm with e | hm
    · injection e with e1 e2
      subst e1; subst e2
      split
      · rename_i hk; simpa [hk] using h.1
      · rename_i hk; simpa [hk] using h.1
    · exact othersCleanL_mem h.2 k' c hm

mutual
/-- every listed path is at or below `pre ++ P`: every placeholder of the tree is at or below `P` -/
theorem othersClean_of_paths : ∀ (P pre : Path) (t : Node),
    (∀ x, x ∈ requiredPaths pre t → ∃ q, x = pre ++ P ++ q) → othersClean P t = true
  | [], _, _, _ => by simp [othersClean]
  | _ :: _, _, .leaf .., _ => by simp [othersClean]
  | k :: p, pre, .comp f ck cs, h => by
    simp only [othersClean]
    exact othersCleanL_of_paths k p pre cs (by simpa [requiredPaths] using h)
theorem othersCleanL_of_paths : ∀ (k : Key) (p pre : Path) (cs : List (Key × Node)),
    (∀ x, x ∈ requiredPathsList pre cs → ∃ q, x = pre ++ k :: p ++ q) → othersCleanL k p cs = true
  | _, _, _, [], _ => rfl
  | k, p, pre, (k', c) :: rest, h => by
    simp only [othersCleanL, Bool.and_eq_true]
    have h1 : ∀ x, x ∈ requiredPaths (pre ++ [k']) c → ∃ q, x = pre ++ k :: p ++ q := fun x hx =>
      h x (by simp only [requiredPathsList, List.mem_append]; exact .inl hx)
    have h2 : ∀ x, x ∈ requiredPathsList pre rest → ∃ q, x = pre ++ k :: p ++ q := fun x hx =>
      h x (by simp only [requiredPathsList, List.mem_append]; exact .inr hx)
    refine ⟨?_, othersCleanL_of_paths k p pre rest h2⟩
    split
    · rename_i hk
      subst hk
      exact othersClean_of_paths p (pre ++ [k']) c (fun x hx => by
        obtain ⟨q, hq⟩ := h1 x hx
        exact ⟨q, by rw [hq]; simp⟩)
    · rename_i hk
      simp only [Bool.not_eq_true']
      cases hc : hasRequired c with
      | false => rfl
      | true =>
        exfalso
        have hne := (requiredPaths_ne_nil c (pre ++ [k'])).1 hc
        cases hl : requiredPaths (pre ++ [k']) c with
        | nil => exact hne hl
        | cons x xs =>
          have hx : x ∈ requiredPaths (pre ++ [k']) c := by rw [hl]; exact List.mem_cons_self
          obtain ⟨q, hq⟩ := requiredPaths_prefix c _ x hx
          obtain ⟨q2, this⟩ := h1 x hx
          rw [hq] at this
          simp only [List.append_assoc, List.cons_append, List.append_cancel_left_eq, List.cons.injEq] at this
          exact hk this.1
end

/-- what one iteration of the key loop stores has no placeholder when neither side had one -/
theorem nr_stepAt {rec : Node → Node → Except Err (Node × Bool)} (hrec : RecNR rec) {sf : Flags} {exc : List Path}
    {k : Key} {c? : Option Node} {v x : Node} (hc : ∀ c, c? = some c → NR c) (hv : NR v)
    (h : stepAt rec sf exc k c? v = .ok (some x)) : NR x := by
  cases c? with
  | none =>
    simp only [stepAt] at h
    split at h
    · cases h
    · injection h with h; injection h with h
      rw [← h]; exact nr_adopt hv
  | some c =>
    obtain ⟨nw, same, hm, hdata⟩ := stepAt_some_skel h
    have hnw := hrec _ _ _ _ (hc c rfl) hv hm
    split at hdata
    · simp at hdata
    · simp only [Option.map_some, Option.some.injEq] at hdata
      simp only [NR, hasRequired_congr hdata]; exact hnw

/-- ALL PLACEHOLDERS ARE AT OR BELOW `k :: p`, AND THE NODE THERE IS REPLACED: every placeholder of the older
    tree is at or below `k :: p` (`othersClean`), the newer tree has none, and the loop iteration that merges
    the two nodes found at the path stores a node without a placeholder (`hstep`): the merge has none -/
theorem only_gone_general : ∀ (p : Path) (k : Key) (fuel : Nat) (s o r : Node) (b : Bool) (e d : Node),
    dictAlong (k :: p) s = true → liveAlong (k :: p) o = true → mergeF fuel s o = .ok (r, b) →
    getNode s (k :: p) = some e → getNode o (k :: p) = some d →
    (∀ fuel' sf kl x, stepAt (mergeF fuel') sf [] kl (some e) d = .ok (some x) → NR x) →
    othersClean (k :: p) s = true → hasRequired o = false →
    hasRequired r = false := by
  intro p
  induction p with
  | nil =>
    intro k fuel s o r b e d hs ho h hse hod hstep hcl hno
    obtain ⟨sf, scs, rfl, hns, _⟩ := dictAlong_cons hs
    obtain ⟨of, ocs, rfl, hlive, hnd, _⟩ := liveAlong_cons ho
    cases fuel with
    | zero => simp [mergeF] at h
    | succ fuel =>
      simp only [mergeF] at h
      obtain ⟨scs', hr, hnd', hpt⟩ := compMerge_live_children' (mergeF fuel) sf of scs ocs hlive hns hnd r b h
      obtain ⟨e', hle, hge⟩ := getNode_cons_dict hse
      obtain ⟨d', hld, hgd⟩ := getNode_cons_dict hod
      simp only [getNode, Option.some.injEq] at hge hgd
      subst hge; subst hgd
      have hocs : NRL ocs := nr_comp.1 hno
      simp only [othersClean] at hcl
      subst hr
      refine nr_comp_propagate _ ((nrl_iff scs').2 ?_)
      rintro ⟨k', c'⟩ hm
      have hl' := alookup_of_mem hnd' hm
      have hk := hpt k'
      cases hlv : alookup k' ocs with
      | none =>
        rw [hlv] at hk
        simp only at hk
        have hne : ¬ k' = k := by intro e; rw [e, hld] at hlv; cases hlv
        have := othersCleanL_mem hcl k' c' (mem_of_alookup (by rw [← hk]; exact hl'))
        simpa [hne] using this
      | some v =>
        rw [hlv, hl'] at hk
        simp only at hk
        have hv : NR v := nr_of_alookup hocs hlv
        by_cases hke : k' = k
        · subst hke
          rw [hle] at hk
          rw [hld] at hlv
          injection hlv with hlv
          subst hlv
          exact hstep _ _ _ _ hk
        · refine nr_stepAt (mergeF_noReq fuel) (fun c hc => ?_) hv hk
          have := othersCleanL_mem hcl k' c (mem_of_alookup hc)
          simpa [hke] using this
  | cons k2 p ih =>
    intro k fuel s o r b e d hs ho h hse hod hstep hcl hno
    obtain ⟨sf, scs, rfl, hns, hsc⟩ := dictAlong_cons hs
    obtain ⟨of, ocs, rfl, hlive, hnd, hoc⟩ := liveAlong_cons ho
    cases fuel with
    | zero => simp [mergeF] at h
    | succ fuel =>
      simp only [mergeF] at h
      obtain ⟨scs', hr, hnd', hpt⟩ := compMerge_live_children' (mergeF fuel) sf of scs ocs hlive hns hnd r b h
      obtain ⟨c, hlc, hgc⟩ := getNode_cons_dict hse
      obtain ⟨v0, hlv0, hgv0⟩ := getNode_cons_dict hod
      have hocs : NRL ocs := nr_comp.1 hno
      simp only [othersClean] at hcl
      subst hr
      refine nr_comp_propagate _ ((nrl_iff scs').2 ?_)
      rintro ⟨k', c'⟩ hm
      have hl' := alookup_of_mem hnd' hm
      have hk := hpt k'
      cases hlv : alookup k' ocs with
      | none =>
        rw [hlv] at hk
        simp only at hk
        have hne : ¬ k' = k := by intro e; rw [e, hlv0] at hlv; cases hlv
        have := othersCleanL_mem hcl k' c' (mem_of_alookup (by rw [← hk]; exact hl'))
        simpa [hne] using this
      | some v =>
        rw [hlv, hl'] at hk
        simp only at hk
        have hv : NR v := nr_of_alookup hocs hlv
        by_cases hke : k' = k
        · subst hke
          rw [hlc] at hk
          rw [hlv0] at hlv
          injection hlv with hlv
          subst hlv
          obtain ⟨nw, same, hmm, hdata⟩ := stepAt_some_skel hk
          have hcomp : c.isComp = true := isComp_of_getNode_cons hgc
          obtain ⟨vf, vcs, rfl, hvlive, _, _⟩ := liveAlong_cons (hoc _ hlv0)
          have hdel := del_ne_of_live hvlive
          have hnr : stepRemovesB c (.comp vf .dict vcs) nw same = false := by
            simp only [stepRemovesB, hcomp, if_true, hdel, Bool.and_false]
          rw [hnr] at hdata
          simp only [Bool.false_eq_true, if_false, Option.map_some, Option.some.injEq] at hdata
          have hcc : othersClean (k2 :: p) c = true := by
            have := othersCleanL_mem hcl k' c (mem_of_alookup hlc)
            simpa using this
          have := ih k2 fuel c _ nw same e d (hsc c hlc) (hoc _ hlv0) hmm hgc hgv0 hstep hcc hv
          show hasRequired c' = false
          rw [hasRequired_congr hdata]; exact this
        · refine nr_stepAt (mergeF_noReq fuel) (fun c hc => ?_) hv hk
          have := othersCleanL_mem hcl k' c (mem_of_alookup hc)
          simpa [hke] using this

/-- a node found at a path of a tree without a placeholder has none -/
theorem nr_of_getNode {t d : Node} {p : Path} (h : hasRequired t = false) (hg : getNode t p = some d) :
    hasRequired d = false := by
  rw [hasRequired_skel] at h ⊢
  exact Skel.at?_hasReq_false p _ _ h (by rw [at_skel, hg]; rfl)

/-- THE ONLY PLACEHOLDER IS OVERWRITTEN: every placeholder of the older tree is at `k :: p`, the newer tree
    has none and holds at `k :: p` a node the placeholder does not outrank: the merge has no placeholder -/
theorem only_placeholder_gone (p : Path) (k : Key) (fuel : Nat) (s o r : Node) (b : Bool) (ef : Flags) (d : Node)
    (hs : dictAlong (k :: p) s = true) (ho : liveAlong (k :: p) o = true) (h : mergeF fuel s o = .ok (r, b))
    (hse : getNode s (k :: p) = some (.leaf ef .required)) (hod : getNode o (k :: p) = some d)
    (hp : hasPrio ef d.flags false = false) (hcl : othersClean (k :: p) s = true) (hno : hasRequired o = false) :
    hasRequired r = false := by
  refine only_gone_general p k fuel s o r b _ d hs ho h hse hod ?_ hcl hno
  intro fuel' sf kl x hx
  have hd : NR d := nr_of_getNode hno hod
  have := step_over_placeholder hx hp
  split at this
  · simp at this
  · simp only [Option.map_some, Option.some.injEq] at this
    show hasRequired x = false
    rw [hasRequired_congr this]; exact hd

/-- THE PLACEHOLDERS ARE DELETED WITH THEIR ANCESTOR: every placeholder of the older tree is at or below
    `k :: p`, the newer tree has none and holds at `k :: p` a deleting node that is not outranked and meets
    nothing protected: the merge has no placeholder -/
theorem deleted_placeholders_gone (p : Path) (k : Key) (fuel : Nat) (s o r : Node) (b : Bool) (e d : Node)
    (hs : dictAlong (k :: p) s = true) (ho : liveAlong (k :: p) o = true) (h : mergeF fuel s o = .ok (r, b))
    (hse : getNode s (k :: p) = some e) (hod : getNode o (k :: p) = some d)
    (hk : plainKind e = true) (hdel : eDel d = true) (hp : hasPrio d.flags e.flags true = true)
    (hnp : noneProtected d e = true) (hcl : othersClean (k :: p) s = true) (hno : hasRequired o = false) :
    hasRequired r = false := by
  refine only_gone_general p k fuel s o r b e d hs ho h hse hod ?_ hcl hno
  intro fuel' sf kl x hx
  have hd : NR d := nr_of_getNode hno hod
  obtain ⟨nw, same, hm, hdata⟩ := stepAt_some_skel hx
  have h1 := del_exact_local_skel fuel' e d nw same hk hdel hp hnp hm
  split at hdata
  · simp at hdata
  · simp only [Option.map_some, Option.some.injEq] at hdata
    show hasRequired x = false
    rw [hasRequired_congr hdata, hasRequired_congr h1]; exact hd

end AY.C14P
