/-
  AY.Lemmas.C18Build — a closed form of the loader on the merge-control vocabulary
  (mappings, lists and scalars; tags: none, or a merge-control tag with any of the keywords
  `priority / delete / allow_new / safe` and metadata; plus the `!null` tag the dumper writes).

  `build env c r` is the tree the loader produces for `r` in the context `c`: `c.o` the priority
  imposed by an enclosing tagged container, `c.d / c.nw / c.s` the inherited
  `_implicit_delete / _implicit_allow_new / _implicit_safe`.  Every flag operation of the loader
  (`setPrioAll`, `applyKw`, `propagate`, `inheritInto`, `adopt`) maps a `build` to a `build` in
  another context, and both construction modes return `build`s.
-/
import AY.Lemmas.C18Lemmas
set_option linter.unusedVariables false
namespace AY

/-! ### contexts -/

structure BCtx where
  o : Option Int := none
  d : Option Bool := none
  nw : Option Bool := none
  s : Option Bool := none
  deriving DecidableEq, Repr

def ctx0 : BCtx := {}

/-- flags of a node with effective keywords `kw` in context `c` -/
def nodeFlags (env : Env) (c : BCtx) (kw : CtorKw) : Flags :=
  { prio := c.o.or kw.prio, del := kw.del, new := kw.new, safe := kw.safe,
    iDel := c.d, iNew := c.nw, iSafe := c.s, dSafe := env.dSafe, md := kw.md, src := env.src }

/-- an inherited `safe = False` is sticky -/
def stick (s s2 : Option Bool) : Option Bool := if s = some false then some false else s2

/-- the context a container hands to its children (`_get_child_kwargs` + priority push-down) -/
def childCtx (c : BCtx) (kw : CtorKw) (k : CompKind) : BCtx :=
  { o := c.o.or kw.prio,
    d := kw.del.or (c.d.or (if defaultDelete k then some true else none)),
    nw := kw.new.or c.nw,
    s := if c.s = some false then some false else kw.safe.or c.s }

def kwOf (c : BCtx) : ChildKw := ⟨c.d, c.nw, c.s⟩

/-- the context after new inherited flags arrive -/
def reCtx (c : BCtx) (kw : ChildKw) : BCtx := { c with d := kw.iDel, nw := kw.iNew, s := stick c.s kw.iSafe }

def withO (c : BCtx) (p : Int) : BCtx := { c with o := some p }

/-- effective keywords of a container: those of an untagged node are never read -/
def ekw (t : TagKind) (kw : CtorKw) : CtorKw :=
  match t with
  | .none => {}
  | _ => kw

/-- effective keywords of a scalar: a tagged explicit null is an existing node that only receives the
    priority and (since the repair of the dropped `!unsafe` mark) an explicit `safe=False` -/
def skw (t : TagKind) (kw : CtorKw) (v : RVal) : CtorKw :=
  match t, v with
  | .none, _ => {}
  | .plain, .lit .null => { prio := kw.prio, safe := if kw.safe = some false then some false else none }
  | _, _ => kw

mutual
def build (env : Env) (c : BCtx) : Raw → Node
  | .scalar t kw v => .leaf (nodeFlags env c (skw t kw v)) (.scalar v.toScalar)
  | .seq t kw items =>
    .comp (nodeFlags env c (ekw t kw)) .list (buildList env (childCtx c (ekw t kw) .list) 0 items)
  | .map t kw items =>
    .comp (nodeFlags env c (ekw t kw)) .dict (buildMap env (childCtx c (ekw t kw) .dict) items)
def buildList (env : Env) (c : BCtx) : Nat → List Raw → List (Key × Node)
  | _, [] => []
  | i, r :: rest => (Key.int i, build env c r) :: buildList env c (i + 1) rest
def buildMap (env : Env) (c : BCtx) : List (Key × Raw) → List (Key × Node)
  | [] => []
  | (k, r) :: rest => (k, build env c r) :: buildMap env c rest
end

/-! ### the vocabulary -/

def keyFreshR (k : Key) : List (Key × Raw) → Bool
  | [] => true
  | (k', _) :: rest => k' != k && keyFreshR k rest

def rawKeysNodup : List (Key × Raw) → Bool
  | [] => true
  | (k, _) :: rest => keyFreshR k rest && rawKeysNodup rest

def tagMC (t : TagKind) : Bool := t == .none || t == .plain

mutual
/-- mappings (distinct keys), lists, scalars; tags: none / merge-control (any keywords) / `!null` on
    an empty scalar -/
def rawMC : Raw → Bool
  | .scalar t _ v => tagMC t || (t == .null && v == .empty)
  | .seq t _ items => tagMC t && rawMCList items
  | .map t _ items => tagMC t && rawKeysNodup items && rawMCMap items
def rawMCList : List Raw → Bool
  | [] => true
  | r :: rest => rawMC r && rawMCList rest
def rawMCMap : List (Key × Raw) → Bool
  | [] => true
  | (_, r) :: rest => rawMC r && rawMCMap rest
end

theorem tagMC_iff (t : TagKind) : tagMC t = true ↔ t = .none ∨ t = .plain := by simp [tagMC]

/-! ### algebra of contexts -/

theorem childKw_nodeFlags_list (env : Env) (c : BCtx) (kw : CtorKw) :
    childKw (nodeFlags env c kw) .list = some (kwOf (childCtx c kw .list)) := rfl
theorem childKw_nodeFlags_dict (env : Env) (c : BCtx) (kw : CtorKw) :
    childKw (nodeFlags env c kw) .dict = some (kwOf (childCtx c kw .dict)) := rfl

theorem updFlags_nodeFlags (env : Env) (c : BCtx) (x : CtorKw) (kw : ChildKw) :
    updFlags kw (nodeFlags env c x) = nodeFlags env (reCtx c kw) x := rfl

theorem stick_child (cs ks xs : Option Bool) :
    stick (if cs = some false then some false else xs.or cs)
      (if stick cs ks = some false then some false else xs.or (stick cs ks)) =
    (if stick cs ks = some false then some false else xs.or (stick cs ks)) := by
  rcases cs with _ | _ | _ <;> rcases ks with _ | _ | _ <;> rcases xs with _ | _ | _ <;> rfl

theorem stick_self (s : Option Bool) : stick s s = s := by
  rcases s with _ | _ | _ <;> rfl

theorem stick_self_child (cs xs : Option Bool) :
    stick (if cs = some false then some false else xs.or cs) (if cs = some false then some false else xs.or cs) =
      (if cs = some false then some false else xs.or cs) := stick_self _

theorem reCtx_child (c : BCtx) (kw : ChildKw) (x : CtorKw) (k : CompKind) :
    reCtx (childCtx c x k) (kwOf (childCtx (reCtx c kw) x k)) = childCtx (reCtx c kw) x k := by
  cases c with
  | mk o d nw s =>
    cases kw with
    | mk kd kn ks =>
      simp only [reCtx, childCtx, kwOf, BCtx.mk.injEq, true_and]
      exact stick_child s ks x.safe

theorem reCtx_self (c : BCtx) : reCtx c (kwOf c) = c := by
  cases c; simp [reCtx, kwOf, stick_self]

theorem withO_child (c : BCtx) (p : Int) (x : CtorKw) (k : CompKind) :
    childCtx (withO c p) x k = withO (childCtx c x k) p := rfl

theorem reCtx_of_unchanged {env : Env} {c : BCtx} {x : CtorKw} {kw : ChildKw}
    (h : flagsChanged kw (nodeFlags env c x) = false) : reCtx c kw = c := by
  obtain ⟨h1, h2, h3⟩ := (childFlagsOK_iff kw _).1 (childFlagsOK_of_not_changed h)
  simp only [nodeFlags] at h1 h2 h3
  cases c with
  | mk o d nw s =>
    simp only at h1 h2 h3
    simp only [reCtx, BCtx.mk.injEq, true_and]
    refine ⟨h1.symm, h2.symm, ?_⟩
    rcases h3 with h3 | h3
    · rw [← h3]; exact stick_self s
    · subst h3; rfl

/-! ### the flag operations on closed forms -/

mutual
theorem setPrioAll_build (env : Env) (p : Int) : ∀ (c : BCtx) (r : Raw),
    setPrioAll p (build env c r) = build env (withO c p) r
  | c, .scalar t kw v => rfl
  | c, .seq t kw items => by
    simp only [build, setPrioAll, setPrioAllList_buildList env p _ 0 items, withO_child]
    rfl
  | c, .map t kw items => by
    simp only [build, setPrioAll, setPrioAllList_buildMap env p _ items, withO_child]
    rfl
theorem setPrioAllList_buildList (env : Env) (p : Int) : ∀ (c : BCtx) (i : Nat) (items : List Raw),
    setPrioAllList p (buildList env c i items) = buildList env (withO c p) i items
  | _, _, [] => rfl
  | c, i, r :: rest => by
    simp only [buildList, setPrioAllList, setPrioAll_build env p c r, setPrioAllList_buildList env p c (i + 1) rest]
theorem setPrioAllList_buildMap (env : Env) (p : Int) : ∀ (c : BCtx) (items : List (Key × Raw)),
    setPrioAllList p (buildMap env c items) = buildMap env (withO c p) items
  | _, [] => rfl
  | c, (k, r) :: rest => by
    simp only [buildMap, setPrioAllList, setPrioAll_build env p c r, setPrioAllList_buildMap env p c rest]
end

mutual
theorem applyKw_build (env : Env) : ∀ (kw : ChildKw) (c : BCtx) (r : Raw),
    applyKw kw (build env c r) = build env (reCtx c kw) r
  | kw, c, .scalar t x v => rfl
  | kw, c, .seq t x items => by
    simp only [build, applyKw]
    split
    · simp only [updFlags_nodeFlags, childKw_nodeFlags_list,
        applyKwList_buildList env _ _ 0 items, reCtx_child]
    · rename_i h
      rw [reCtx_of_unchanged (by simpa using h)]
  | kw, c, .map t x items => by
    simp only [build, applyKw]
    split
    · simp only [updFlags_nodeFlags, childKw_nodeFlags_dict,
        applyKwList_buildMap env _ _ items, reCtx_child]
    · rename_i h
      rw [reCtx_of_unchanged (by simpa using h)]
theorem applyKwList_buildList (env : Env) : ∀ (kw : ChildKw) (c : BCtx) (i : Nat) (items : List Raw),
    applyKwList kw (buildList env c i items) = buildList env (reCtx c kw) i items
  | _, _, _, [] => rfl
  | kw, c, i, r :: rest => by
    simp only [buildList, applyKwList, applyKw_build env kw c r, applyKwList_buildList env kw c (i + 1) rest]
theorem applyKwList_buildMap (env : Env) : ∀ (kw : ChildKw) (c : BCtx) (items : List (Key × Raw)),
    applyKwList kw (buildMap env c items) = buildMap env (reCtx c kw) items
  | _, _, [] => rfl
  | kw, c, (k, r) :: rest => by
    simp only [buildMap, applyKwList, applyKw_build env kw c r, applyKwList_buildMap env kw c rest]
end

theorem propagate_build (env : Env) (c : BCtx) (r : Raw) : propagate (build env c r) = build env c r := by
  cases r with
  | scalar t x v => rfl
  | seq t x items =>
    simp only [build, propagate, childKw_nodeFlags_list, applyKwList_buildList, reCtx_self]
  | map t x items =>
    simp only [build, propagate, childKw_nodeFlags_dict, applyKwList_buildMap, reCtx_self]

/-- new inherited flags written into the root and handed down -/
theorem reroot_build (env : Env) (kw : ChildKw) (c : BCtx) (r : Raw) :
    propagate ((build env c r).setFlags (updFlags kw (build env c r).flags)) = build env (reCtx c kw) r := by
  cases r with
  | scalar t x v => rfl
  | seq t x items =>
    simp only [build, Node.flags, Node.setFlags, propagate, updFlags_nodeFlags, childKw_nodeFlags_list,
      applyKwList_buildList, reCtx_child]
  | map t x items =>
    simp only [build, Node.flags, Node.setFlags, propagate, updFlags_nodeFlags, childKw_nodeFlags_dict,
      applyKwList_buildMap, reCtx_child]

/-- `ConfigNode(existing, priority=q, implicit_*=…)` on a node built without parent -/
theorem inheritInto_build0 (env : Env) (q : Option Int) (cc : BCtx) (r : Raw) :
    inheritInto q (some (kwOf cc)) (build env ctx0 r) = build env { cc with o := q } r := by
  cases q with
  | none => simp only [inheritInto]; rw [reroot_build]; rfl
  | some p => simp only [inheritInto, setPrioAll_build]; rw [reroot_build]; rfl

theorem adopt_build0 (env : Env) {pf : Flags} {pk : CompKind} {cc : BCtx}
    (h : childKw pf pk = some (kwOf cc)) (r : Raw) :
    adopt pf pk (build env ctx0 r) = build env { cc with o := none } r := by
  simp only [adopt, h, inheritInto_build0, propagate_build]

theorem initChildren_buildList (env : Env) {f : Flags} {k : CompKind} {cc : BCtx} (q : Option Int)
    (h : childKw f k = some (kwOf cc)) : ∀ (i : Nat) (items : List Raw),
    initChildren f k q (buildList env ctx0 i items) = buildList env { cc with o := q } i items
  | _, [] => rfl
  | i, r :: rest => by
    have ih := initChildren_buildList env q h (i + 1) rest
    simp only [initChildren, buildList, List.map_cons] at ih ⊢
    rw [h, inheritInto_build0, ← h, ih]

theorem initChildren_buildMap (env : Env) {f : Flags} {k : CompKind} {cc : BCtx} (q : Option Int)
    (h : childKw f k = some (kwOf cc)) : ∀ (items : List (Key × Raw)),
    initChildren f k q (buildMap env ctx0 items) = buildMap env { cc with o := q } items
  | [] => rfl
  | (key, r) :: rest => by
    have ih := initChildren_buildMap env q h rest
    simp only [initChildren, buildMap, List.map_cons] at ih ⊢
    rw [h, inheritInto_build0, ← h, ih]

/-! ### bottom-up construction -/

theorem wrapScalar_build (env : Env) {t : TagKind} (kw : CtorKw) {v : RVal}
    (h : tagMC t = true ∨ (t = .null ∧ v = .empty)) :
    wrapScalar env t kw v = .ok (build env ctx0 (.scalar t kw v)) := by
  rcases h with h | ⟨rfl, rfl⟩
  · rcases (tagMC_iff t).1 h with rfl | rfl
    · rfl
    · cases v with
      | empty => rfl
      | text s => rfl
      | lit s => cases s <;> rfl
  · rfl

theorem wrapSeq_build (env : Env) {t : TagKind} (kw : CtorKw) (items : List Raw) (h : tagMC t = true) :
    wrapSeq env t kw (buildList env ctx0 0 items) = .ok (build env ctx0 (.seq t kw items)) := by
  rcases (tagMC_iff t).1 h with rfl | rfl
  · simp only [wrapSeq, build, ekw]
    rw [initChildren_buildList env none (f := bareFlags env) (k := .list)
      (cc := childCtx ctx0 {} .list) rfl 0 items]
    rfl
  · simp only [wrapSeq, build, ekw]
    rw [initChildren_buildList env kw.prio (f := mkFlags env kw) (k := .list)
      (cc := childCtx ctx0 kw .list) rfl 0 items]
    rfl

theorem wrapMap_build (env : Env) {t : TagKind} (kw : CtorKw) (items : List (Key × Raw)) (h : tagMC t = true) :
    wrapMap env t kw (buildMap env ctx0 items) = .ok (build env ctx0 (.map t kw items)) := by
  rcases (tagMC_iff t).1 h with rfl | rfl
  · simp only [wrapMap, build, ekw]
    rw [initChildren_buildMap env none (f := bareFlags env) (k := .dict)
      (cc := childCtx ctx0 {} .dict) rfl items]
    rfl
  · simp only [wrapMap, build, ekw]
    rw [initChildren_buildMap env kw.prio (f := mkFlags env kw) (k := .dict)
      (cc := childCtx ctx0 kw .dict) rfl items]
    rfl

theorem rawMC_scalar {t kw v} (h : rawMC (.scalar t kw v) = true) :
    tagMC t = true ∨ (t = .null ∧ v = .empty) := by
  simpa [rawMC] using h

mutual
theorem constructDeep_build (env : Env) : ∀ (r : Raw), rawMC r = true →
    constructDeep env r = .ok (build env ctx0 r)
  | .scalar t kw v, h => by
    simp only [constructDeep]
    exact wrapScalar_build env kw (rawMC_scalar h)
  | .seq t kw items, h => by
    have h' : tagMC t = true ∧ rawMCList items = true := by simpa [rawMC] using h
    simp only [constructDeep, constructDeepList_build env 0 items h'.2]
    rcases (tagMC_iff t).1 h'.1 with rfl | rfl
    · exact wrapSeq_build env kw items rfl
    · exact wrapSeq_build env kw items rfl
  | .map t kw items, h => by
    have h' : (tagMC t = true ∧ rawKeysNodup items = true) ∧ rawMCMap items = true := by
      simpa [rawMC] using h
    simp only [constructDeep, constructDeepMap_build env items h'.2]
    exact wrapMap_build env kw items h'.1.1
theorem constructDeepList_build (env : Env) : ∀ (i : Nat) (items : List Raw), rawMCList items = true →
    constructDeepList env i items = .ok (buildList env ctx0 i items)
  | _, [], _ => rfl
  | i, r :: rest, h => by
    have h' : rawMC r = true ∧ rawMCList rest = true := by simpa [rawMCList] using h
    simp only [constructDeepList, constructDeep_build env r h'.1,
      constructDeepList_build env (i + 1) rest h'.2, buildList]
theorem constructDeepMap_build (env : Env) : ∀ (items : List (Key × Raw)), rawMCMap items = true →
    constructDeepMap env items = .ok (buildMap env ctx0 items)
  | [], _ => rfl
  | (k, r) :: rest, h => by
    have h' : rawMC r = true ∧ rawMCMap rest = true := by simpa [rawMCMap] using h
    simp only [constructDeepMap, constructDeep_build env r h'.1, constructDeepMap_build env rest h'.2, buildMap]
end

/-! ### top-down construction -/

/-- the adopting parent (if any) puts a node built without parent into the context `cc` -/
def ParentCtx (env : Env) (parent : Option (Flags × CompKind)) (cc : BCtx) : Prop :=
  cc.o = none ∧ ∀ r, adoptBy parent (build env ctx0 r) = build env cc r

theorem parentCtx_none (env : Env) : ParentCtx env none ctx0 := ⟨rfl, fun _ => rfl⟩

theorem parentCtx_list (env : Env) {cc : BCtx} (h : cc.o = none) :
    ParentCtx env (some (nodeFlags env cc {}, .list)) (childCtx cc {} .list) := by
  refine ⟨by simp [childCtx, h], fun r => ?_⟩
  simp only [adoptBy]
  rw [adopt_build0 env (childKw_nodeFlags_list env cc {}) r]
  simp [childCtx, h]

theorem parentCtx_dict (env : Env) {cc : BCtx} (h : cc.o = none) :
    ParentCtx env (some (nodeFlags env cc {}, .dict)) (childCtx cc {} .dict) := by
  refine ⟨by simp [childCtx, h], fun r => ?_⟩
  simp only [adoptBy]
  rw [adopt_build0 env (childKw_nodeFlags_dict env cc {}) r]
  simp [childCtx, h]

def freshAll : List (Key × Raw) → List (Key × Node) → Bool
  | [], _ => true
  | (k, _) :: rest, acc => keyFresh k acc && freshAll rest acc

theorem freshAll_snoc {k0 : Key} {n : Node} : ∀ (items : List (Key × Raw)) (acc : List (Key × Node)),
    freshAll items acc = true → keyFreshR k0 items = true → freshAll items (acc ++ [(k0, n)]) = true
  | [], _, _, _ => rfl
  | (k, r) :: rest, acc, h, hk => by
    simp only [freshAll, Bool.and_eq_true] at h
    simp only [keyFreshR, Bool.and_eq_true, bne_iff_ne, ne_eq] at hk
    simp only [freshAll, Bool.and_eq_true, keyFresh_append, keyFresh, bne_iff_ne, ne_eq]
    exact ⟨⟨h.1, fun e => hk.1 e.symm, trivial⟩, freshAll_snoc rest acc h.2 hk.2⟩

theorem freshAll_nil : ∀ (items : List (Key × Raw)), freshAll items [] = true
  | [] => rfl
  | (k, r) :: rest => by simp [freshAll, keyFresh, freshAll_nil rest]

mutual
theorem constructTD_build (env : Env) : ∀ (r : Raw) (parent : Option (Flags × CompKind)) (cc : BCtx),
    rawMC r = true → ParentCtx env parent cc → constructTD env parent r = .ok (build env cc r)
  | .scalar t kw v, parent, cc, h, hp => by
    have hw := wrapScalar_build env kw (rawMC_scalar h)
    cases t <;> first
      | (simp only [constructTD]
         exact congrArg Except.ok (hp.2 (.scalar .none kw v)))
      | (simp only [constructTD, hw]
         exact congrArg Except.ok (hp.2 _))
  | .seq t kw items, parent, cc, h, hp => by
    have h' : tagMC t = true ∧ rawMCList items = true := by simpa [rawMC] using h
    rcases (tagMC_iff t).1 h'.1 with rfl | rfl
    · have he : adoptBy parent (.comp (bareFlags env) .list []) = .comp (nodeFlags env cc {}) .list [] :=
        hp.2 (.seq .none {} [])
      have hl := constructTDList_build env (nodeFlags env cc {}) .list (childCtx cc {} .list)
        (parentCtx_list env hp.1) 0 items h'.2
      simp only [constructTD, he, hl]
      rfl
    · simp only [constructTD, constructDeep_build env _ h]
      exact congrArg Except.ok (hp.2 _)
  | .map t kw items, parent, cc, h, hp => by
    have h' : (tagMC t = true ∧ rawKeysNodup items = true) ∧ rawMCMap items = true := by
      simpa [rawMC] using h
    rcases (tagMC_iff t).1 h'.1.1 with rfl | rfl
    · have he : adoptBy parent (.comp (bareFlags env) .dict []) = .comp (nodeFlags env cc {}) .dict [] :=
        hp.2 (.map .none {} [])
      have hm := constructTDMap_build env (nodeFlags env cc {}) .dict (childCtx cc {} .dict)
        (parentCtx_dict env hp.1) items [] h'.2 h'.1.2 (freshAll_nil items)
      simp only [constructTD, he, hm, List.nil_append]
      rfl
    · simp only [constructTD, constructDeep_build env _ h]
      exact congrArg Except.ok (hp.2 _)
theorem constructTDList_build (env : Env) (pf : Flags) (pk : CompKind) (cc : BCtx)
    (hp : ParentCtx env (some (pf, pk)) cc) : ∀ (i : Nat) (items : List Raw), rawMCList items = true →
    constructTDList env pf pk i items = .ok (buildList env cc i items)
  | _, [], _ => rfl
  | i, r :: rest, h => by
    have h' : rawMC r = true ∧ rawMCList rest = true := by simpa [rawMCList] using h
    simp only [constructTDList, constructTD_build env r (some (pf, pk)) cc h'.1 hp,
      constructTDList_build env pf pk cc hp (i + 1) rest h'.2, buildList]
theorem constructTDMap_build (env : Env) (pf : Flags) (pk : CompKind) (cc : BCtx)
    (hp : ParentCtx env (some (pf, pk)) cc) : ∀ (items : List (Key × Raw)) (acc : List (Key × Node)),
    rawMCMap items = true → rawKeysNodup items = true → freshAll items acc = true →
    constructTDMap env pf pk items acc = .ok (acc ++ buildMap env cc items)
  | [], acc, _, _, _ => by simp [constructTDMap, buildMap]
  | (k, r) :: rest, acc, h, hnd, hfr => by
    have h' : rawMC r = true ∧ rawMCMap rest = true := by simpa [rawMCMap] using h
    have hnd' : keyFreshR k rest = true ∧ rawKeysNodup rest = true := by simpa [rawKeysNodup] using hnd
    have hfr' : keyFresh k acc = true ∧ freshAll rest acc = true := by simpa [freshAll] using hfr
    simp only [constructTDMap, constructTD_build env r (some (pf, pk)) cc h'.1 hp, aset_fresh hfr'.1]
    rw [constructTDMap_build env pf pk cc hp rest _ h'.2 hnd'.2 (freshAll_snoc rest acc hfr'.2 hnd'.1)]
    simp [buildMap]
end

/-- `yaml.parse` of a document over the merge-control vocabulary -/
theorem construct_build (env : Env) (r : Raw) (h : rawMC r = true) :
    construct env r = .ok (build env ctx0 r) :=
  constructTD_build env r none ctx0 h (parentCtx_none env)

end AY
