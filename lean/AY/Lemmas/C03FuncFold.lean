/-
  AY.Lemmas.C03FuncFold — the builder's fold over entry-shaped documents: at every entry path the
  information of the merged entry is the left fold of the leaf rule `pickInfo` over what the stages
  write there.
-/
import AY.Lemmas.C03FuncMerge
set_option linter.unusedVariables false
set_option linter.unusedSimpArgs false
namespace AY.C03F
open AY

/-! ### the pre-merge pass is the identity -/

theorem premergeChildren_id {P : Node → Prop} {d : Nat} {rec : Node → Path → Option Node → PM}
    (H : ∀ c p into, P c → c.depth ≤ d → rec c p into = .ok (c, true, into)) (path : Path) :
    ∀ (cs : List (Key × Node)) (into : Option Node), (∀ kc ∈ cs, P kc.2) → depthList cs ≤ d →
      premergeChildren rec path cs into = .ok (cs, [], into)
  | [], into, _, _ => rfl
  | (k, c) :: rest, into, h, hd => by
    have hd' : c.depth ≤ d ∧ depthList rest ≤ d := by simp only [depthList] at hd; omega
    simp [premergeChildren, H c _ into (h (k, c) (by simp)) hd'.1,
      premergeChildren_id H path rest into (fun kc hkc => h kc (by simp [hkc])) hd'.2]

theorem es_mem : ∀ {cs : List (Key × Node)}, entShapedList cs = true → ∀ kc ∈ cs, entShaped kc.2 = true
  | [], _, kc, h => by cases h
  | (k, c) :: rest, hp, kc, h => by
    have h' : entShaped c = true ∧ entShapedList rest = true := by simpa [entShapedList] using hp
    rcases List.mem_cons.1 h with rfl | h
    · exact h'.1
    · exact es_mem h'.2 kc h

theorem argsW_mem : ∀ {cs : List (Key × Node)}, argsW cs = true → ∀ kc ∈ cs, argW kc.2 = true
  | [], _, kc, h => by cases h
  | (k, c) :: rest, hp, kc, h => by
    have h' : argW c = true ∧ argsW rest = true := by simpa [argsW] using hp
    rcases List.mem_cons.1 h with rfl | h
    · exact h'.1
    · exact argsW_mem h'.2 kc h

theorem premergeF_ES : ∀ (fuel : Nat) (n : Node) (path : Path) (into : Option Node),
    (entShaped n = true ∨ argW n = true) → n.depth < fuel → premergeF fuel n path into = .ok (n, true, into) := by
  intro fuel
  induction fuel with
  | zero => intro n _ _ _ h; omega
  | succ fuel ih =>
    intro n path into hn hd
    cases n with
    | leaf f lk =>
      have : ∃ v, lk = .scalar v := by
        rcases hn with h | h
        · obtain ⟨v, rfl, _⟩ := es_leaf h; exact ⟨v, rfl⟩
        · obtain ⟨g, v, e, _⟩ := argW_leaf h; injection e with _ e; exact ⟨v, e⟩
      obtain ⟨v, rfl⟩ := this
      simp [premergeF]
    | comp f k cs =>
      have hes : entShaped (.comp f k cs) = true := by
        rcases hn with h | h
        · exact h
        · simp [argW] at h
      have hlt : depthList cs < fuel := by simp only [Node.depth] at hd; omega
      have H : ∀ c p into, (entShaped c = true ∨ argW c = true) → c.depth ≤ depthList cs →
          premergeF fuel c p into = .ok (c, true, into) :=
        fun c p into hc hdc => ih c p into hc (by omega)
      have hall : ∀ kc ∈ cs, (entShaped kc.2 = true ∨ argW kc.2 = true) := by
        cases hk : k.isFunc
        · exact fun kc hkc => .inl (es_mem (es_map hk hes).2.2.2 kc hkc)
        · obtain ⟨t, ht⟩ := isFunc_func? hk
          exact fun kc hkc => .inr (argsW_mem (argsW_of_S (es_func ht hes).2.2) kc hkc)
      have hch := premergeChildren_id H path cs into hall (Nat.le_refl _)
      cases k <;> first
        | (simp [entShaped] at hes; done)
        | simp [premergeF, hch, applyResets]

/-! ### the fold -/

/-- every earlier document is shape-compatible with every later one -/
def pairwiseCompatE : List Node → Prop
  | [] => True
  | d :: ds => (∀ c, c ∈ ds → compatE d c) ∧ pairwiseCompatE ds

theorem merge_ES {a b : Node} (ha : entShaped a = true) (hb : entShaped b = true) (hc : compatE a b) :
    ∃ r, merge a b = .ok r ∧ PostE a b r := by
  obtain ⟨r, same, h, hp, _⟩ := mergeF_ES (b.depth + 1) a b ha hb hc (Nat.lt_succ_self _)
  exact ⟨r, by simp only [merge, h], hp⟩

theorem flattenLoop_ES {F : Nat} : ∀ (stages : List Node) (root : Node), entShaped root = true →
    (∀ st, st ∈ stages → entShaped st = true ∧ st.depth < F ∧ compatE root st) →
    pairwiseCompatE stages →
    ∃ r, flattenLoop (premergeF F) root stages = .ok r ∧ entShaped r = true ∧
      (∀ p, infoAt r p = (stages.map (fun st => infoAt st p)).foldl pickInfo (infoAt root p)) ∧
      (∀ p, shapeE r p = (stages.map (fun st => shapeE st p)).foldl Option.or (shapeE root p)) ∧
      (∀ p, funcAt root p = true → (∀ st, st ∈ stages → writerAt st p = true) → funcAt r p = true)
  | [], root, hroot, _, _ => ⟨root, rfl, hroot, fun _ => rfl, fun _ => rfl, fun _ h _ => h⟩
  | st :: rest, root, hroot, hst, hpw => by
    obtain ⟨hs, hd, hc⟩ := hst st List.mem_cons_self
    obtain ⟨r, hm, hpost⟩ := merge_ES hroot hs hc
    obtain ⟨r', hl, hr', hinfo, hshape, hfun⟩ := flattenLoop_ES rest r hpost.1 (by
      intro c hcm
      obtain ⟨h1, h2, h3⟩ := hst c (List.mem_cons_of_mem _ hcm)
      exact ⟨h1, h2, compatE_merged hc h3 (hpw.1 c hcm) hpost.2.1⟩) hpw.2
    refine ⟨r', ?_, hr', ?_, ?_, ?_⟩
    · simp only [flattenLoop, premergeF_ES F st [] (some root) (.inl hs) hd, hm, hl]
    · intro p
      rw [hinfo p, hpost.2.2.1 p]
      rfl
    · intro p
      rw [hshape p, hpost.2.1 p]
      rfl
    · intro p hf hw
      exact hfun p (hpost.2.2.2 p hf (hw st List.mem_cons_self)) (fun c hc => hw c (List.mem_cons_of_mem _ hc))

theorem isDict_of_es_map {n : Node} (h : entShaped n = true) (hm : isMap n = true) : n.isDict = true := by
  obtain ⟨f, cs, rfl⟩ := isMap_es_comp_dict h hm
  rfl

/-- `Builder.flatten` over pairwise shape-compatible entry-shaped mapping documents succeeds and, at
    every entry path, folds the leaf rule over what the stages write there, from left to right -/
theorem flatten_ES (d0 : Node) (ds : List Node)
    (hst : ∀ st, st ∈ d0 :: ds → entShaped st = true ∧ isMap st = true)
    (hpw : pairwiseCompatE (d0 :: ds)) :
    ∃ r, flatten (d0 :: ds) = .ok r ∧ entShaped r = true ∧
      (∀ p, infoAt r p = (ds.map (fun st => infoAt st p)).foldl pickInfo (infoAt d0 p)) ∧
      (∀ p, shapeE r p = (ds.map (fun st => shapeE st p)).foldl Option.or (shapeE d0 p)) ∧
      (∀ p, funcAt d0 p = true → (∀ st, st ∈ ds → writerAt st p = true) → funcAt r p = true) := by
  have hall : (d0 :: ds).all Node.isDict = true := by
    rw [List.all_eq_true]; intro x hx; exact isDict_of_es_map (hst x hx).1 (hst x hx).2
  have h0 := (hst d0 List.mem_cons_self).1
  have hpm := premergeF_ES (stagesFuel (d0 :: ds)) d0 [] none (.inl h0) (depth_lt_stagesFuel List.mem_cons_self)
  obtain ⟨r, hl, hr, hinfo, hshape, hfun⟩ := flattenLoop_ES (F := stagesFuel (d0 :: ds)) ds d0 h0 (by
    intro st hm
    exact ⟨(hst st (List.mem_cons_of_mem _ hm)).1, depth_lt_stagesFuel (List.mem_cons_of_mem _ hm), hpw.1 st hm⟩)
    hpw.2
  refine ⟨r, ?_, hr, hinfo, hshape, hfun⟩
  simp only [flatten, flattenWith, hall, Bool.not_true, Bool.false_eq_true, if_false, hpm,
    reqNew_allNew [] [] d0 (allNew_ES d0 h0), hl]

/-! ### a Boolean test for shape compatibility (for concrete examples) -/

mutual
def compatEB : Node → Node → Bool
  | .leaf _ _, b => !isMap b
  | .comp _ k cs, b =>
    if k.isFunc then !isMap b
    else isMap b && compatEBList cs b.children
def compatEBList : List (Key × Node) → List (Key × Node) → Bool
  | [], _ => true
  | (k, c) :: rest, ds =>
    (match alookup k ds with | none => true | some d => compatEB c d) && compatEBList rest ds
end

mutual
theorem compatE_of_B : ∀ (a b : Node), compatEB a b = true → compatE a b
  | .leaf f k, b, h => by
    have hb : isMap b = false := by simpa [compatEB] using h
    intro p x y hx hy
    cases p with
    | nil =>
      rw [shapeE_nil] at hx hy
      injection hx with hx; injection hy with hy
      rw [← hx, ← hy, hb]; rfl
    | cons key rest => simp [shapeE] at hx
  | .comp f k cs, b, h => by
    cases hk : k.isFunc with
    | true =>
      have hb : isMap b = false := by simpa [compatEB, hk] using h
      intro p x y hx hy
      cases p with
      | nil =>
        rw [shapeE_nil] at hx hy
        injection hx with hx; injection hy with hy
        rw [← hx, ← hy, hb]; simp [isMap, hk]
      | cons key rest => simp [shapeE, hk] at hx
    | false =>
      have h' : isMap b = true ∧ compatEBList cs b.children = true := by simpa [compatEB, hk] using h
      cases b with
      | leaf fb kb => cases h'.1
      | comp fb kb cb =>
        have hkb : kb.isFunc = false := by simpa [isMap] using h'.1
        intro p x y hx hy
        cases p with
        | nil =>
          rw [shapeE_nil] at hx hy
          injection hx with hx; injection hy with hy
          rw [← hx, ← hy]; simp [isMap, hk, hkb]
        | cons key rest =>
          rw [shapeE_map_cons hk] at hx
          rw [shapeE_map_cons hkb] at hy
          cases hc : alookup key cs with
          | none => rw [hc] at hx; cases hx
          | some c =>
            cases hd : alookup key cb with
            | none => rw [hd] at hy; cases hy
            | some d =>
              rw [hc] at hx; rw [hd] at hy
              exact compatE_of_BList cs cb h'.2 key c d hc hd rest x y hx hy
theorem compatE_of_BList : ∀ (cs ds : List (Key × Node)), compatEBList cs ds = true →
    ∀ k c d, alookup k cs = some c → alookup k ds = some d → compatE c d
  | [], _, _, k, c, d, hc, _ => by simp [alookup] at hc
  | (k', c') :: rest, ds, h, k, c, d, hc, hd => by
    simp only [compatEBList, Bool.and_eq_true] at h
    by_cases e : k' = k
    · subst e
      simp [alookup] at hc
      subst hc
      have h1 := h.1
      rw [hd] at h1
      exact compatE_of_B c' d h1
    · simp [alookup, e] at hc
      exact compatE_of_BList rest ds h.2 k c d hc hd
end

def pairwiseCompatEB : List Node → Bool
  | [] => true
  | d :: ds => ds.all (compatEB d) && pairwiseCompatEB ds

theorem pairwiseCompatE_of_B : ∀ l : List Node, pairwiseCompatEB l = true → pairwiseCompatE l
  | [], _ => trivial
  | d :: ds, h => by
    simp only [pairwiseCompatEB, Bool.and_eq_true, List.all_eq_true] at h
    exact ⟨fun c hc => compatE_of_B d c (h.1 c hc), pairwiseCompatE_of_B ds h.2⟩

end AY.C03F
