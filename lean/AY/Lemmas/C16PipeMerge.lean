/-
  AY.Lemmas.C16PipeMerge — the merge side of an operator stage and the last step of the builder's fold:
  * `at_new_path`: a path the accumulated tree does not have receives the newer node's data as it is;
  * `flattenWith_append_eq`, `flatten_last_ok/_err`: `flatten (xs ++ [o])` is the pre-merge pass of `o`
    against what `xs` flattens to, followed by ONE merge.
  Helpers for AY.Props.C16_Pipeline.
-/
import AY.Lemmas.C16PipeErase
namespace AY.C16P
open AY.C04P

/-! ### a path that is new to the accumulated tree -/

/-- NEW PATH: the older tree consists of mappings along `k :: p` but has no node there, the newer tree consists
    of plain non-deleting mappings above its node `d` at `k :: p`: a successful merge leaves exactly the data
    of `d` at and below the path -/
theorem at_new_path : ∀ (p : Path) (k : Key) (fuel : Nat) (s o r : Node) (b : Bool) (d : Node),
    dictAlong (k :: p) s = true → liveAlong (k :: p) o = true → mergeF fuel s o = .ok (r, b) →
    getNode s (k :: p) = none → getNode o (k :: p) = some d →
    ∀ q, (native r).at? (k :: p ++ q) = (native d).at? q := by
  intro p
  induction p with
  | nil =>
    intro k fuel s o r b d hs ho h hse hod q
    obtain ⟨sf, scs, rfl, hns, _⟩ := dictAlong_cons hs
    obtain ⟨of, ocs, rfl, hlive, hno, _⟩ := liveAlong_cons ho
    cases fuel with
    | zero => simp [mergeF] at h
    | succ fuel =>
      simp only [mergeF] at h
      obtain ⟨scs', hr, hpt⟩ := compMerge_live_children (mergeF fuel) sf of scs ocs hlive hns hno r b h
      obtain ⟨v, hlv, hgv⟩ := getNode_cons_dict hod
      simp only [getNode, Option.some.injEq] at hgv
      subst hgv
      have hk := hpt k
      rw [hlv] at hk
      simp only at hk
      cases hlc : alookup k scs with
      | some c => simp [getNode, hlc] at hse
      | none =>
        rw [hlc] at hk
        simp only [stepAt, excBelow_nil] at hk
        cases hq : reqNew [] [] v with
        | some x => simp [hq] at hk
        | none =>
          simp only [hq, Except.ok.injEq] at hk
          rw [hr, List.cons_append, at_propagate_dict, ← hk]
          simp [native_adopt]
  | cons k' p ih =>
    intro k fuel s o r b d hs ho h hse hod q
    obtain ⟨sf, scs, rfl, hns, hsc⟩ := dictAlong_cons hs
    obtain ⟨of, ocs, rfl, hlive, hno, hoc⟩ := liveAlong_cons ho
    cases fuel with
    | zero => simp [mergeF] at h
    | succ fuel =>
      simp only [mergeF] at h
      obtain ⟨scs', hr, hpt⟩ := compMerge_live_children (mergeF fuel) sf of scs ocs hlive hns hno r b h
      obtain ⟨v, hlv, hgv⟩ := getNode_cons_dict hod
      have hk := hpt k
      rw [hlv] at hk
      simp only at hk
      have happ : k :: (k' :: p) ++ q = k :: (k' :: p ++ q) := rfl
      cases hlc : alookup k scs with
      | none =>
        rw [hlc] at hk
        simp only [stepAt, excBelow_nil] at hk
        cases hq : reqNew [] [] v with
        | some x => simp [hq] at hk
        | none =>
          simp only [hq, Except.ok.injEq] at hk
          rw [hr, happ, at_propagate_dict, ← hk]
          simp only [Option.map_some, Option.bind_some, native_adopt]
          exact at_append_of_getNode (k' :: p) q v d (dictAlong_of_liveAlong _ _ (hoc v hlv)) hgv
      | some c =>
        rw [hlc] at hk
        obtain ⟨nw, same, hm, hdata⟩ := stepAt_some_data hk
        obtain ⟨vf, vcs, rfl, hvlive, _, _⟩ := liveAlong_cons (hoc v hlv)
        obtain ⟨cf, ccs, rfl, _, _⟩ := dictAlong_cons (hsc c hlc)
        have hdel := del_ne_of_live hvlive
        have hnr : stepRemovesB (.comp cf .dict ccs) (.comp vf .dict vcs) nw same = false := by
          simp only [stepRemovesB, Node.isComp, if_true, hdel, Bool.and_false]
        rw [hnr] at hdata
        simp only [Bool.false_eq_true, if_false] at hdata
        have hse' : getNode (.comp cf .dict ccs) (k' :: p) = none := by
          simp only [getNode, hlc] at hse; exact hse
        rw [hr, happ, at_propagate_dict, hdata]
        simp only [Option.bind_some]
        exact ih k' fuel _ _ nw same d (hsc _ hlc) (hoc _ hlv) hm hse' hgv q

/-! ### `flatten` of a non-empty prefix followed by more stages, as an equation -/

theorem flattenLoop_append_eq {pm : Node → Path → Option Node → PM} : ∀ (a b : List Node) (root : Node),
    flattenLoop pm root (a ++ b) =
      match flattenLoop pm root a with
      | .error e => .error e
      | .ok s => flattenLoop pm s b
  | [], b, root => rfl
  | st :: rest, b, root => by
    simp only [List.cons_append, flattenLoop]
    cases pm st [] (some root) with
    | error e => rfl
    | ok res =>
      obtain ⟨st', same, into'⟩ := res
      cases into' with
      | none => rfl
      | some root' =>
        simp only
        cases merge root' st' with
        | error e => rfl
        | ok m => exact flattenLoop_append_eq rest b m

theorem flattenWith_append_eq {pm : Node → Path → Option Node → PM} (xs zs : List Node) (hx : xs ≠ [])
    (hz : zs.all Node.isDict = true) (s : Node) (h : flattenWith pm xs = .ok s) :
    flattenWith pm (xs ++ zs) = flattenLoop pm s zs := by
  cases xs with
  | nil => exact absurd rfl hx
  | cons s0 rest =>
    simp only [flattenWith] at h
    simp only [List.cons_append, flattenWith]
    split at h
    · cases h
    · rename_i hall
      have hall' : (!(s0 :: (rest ++ zs)).all Node.isDict) = false := by
        simp only [Bool.not_eq_true, Bool.not_eq_false', List.all_cons, List.all_append, Bool.and_eq_true] at hall ⊢
        exact ⟨hall.1, hall.2, hz⟩
      simp only [hall', Bool.false_eq_true, if_false]
      cases hp : pm s0 [] none with
      | error e => simp [hp] at h
      | ok res =>
        obtain ⟨r0, same, into'⟩ := res
        simp only [hp] at h ⊢
        cases hq : reqNew [] [] r0 with
        | some x => simp [hq] at h
        | none =>
          simp only [hq] at h ⊢
          rw [flattenLoop_append_eq, h]

theorem isDict_of_soleAt {k : Key} {q : Path} {n : Node} (h : soleAt (k :: q) n = true) : n.isDict = true := by
  obtain ⟨f, cs, c, rfl, _, _, _⟩ := soleAt_cons h
  rfl

/-- the last step of the fold when the pre-merge pass of the last stage succeeds: ONE merge -/
theorem flatten_last_ok (xs : List Node) (o s o' s' : Node) (b : Bool) (hx : xs ≠ []) (hd : o.isDict = true)
    (hs : flattenWith (premergeF (stagesFuel (xs ++ [o]))) xs = .ok s)
    (hp : premergeF (stagesFuel (xs ++ [o])) o [] (some s) = .ok (o', b, some s')) :
    flatten (xs ++ [o]) = merge s' o' := by
  simp only [flatten]
  rw [flattenWith_append_eq xs [o] hx (by simp [hd]) s hs]
  simp only [flattenLoop, hp]
  cases merge s' o' <;> rfl

/-- … and when it fails -/
theorem flatten_last_err (xs : List Node) (o s : Node) (e : Err) (hx : xs ≠ []) (hd : o.isDict = true)
    (hs : flattenWith (premergeF (stagesFuel (xs ++ [o]))) xs = .ok s)
    (hp : premergeF (stagesFuel (xs ++ [o])) o [] (some s) = .error e) :
    flatten (xs ++ [o]) = .error e := by
  simp only [flatten]
  rw [flattenWith_append_eq xs [o] hx (by simp [hd]) s hs]
  simp only [flattenLoop, hp]

theorem depth_lt_fuel_last (xs : List Node) (o : Node) : o.depth < stagesFuel (xs ++ [o]) :=
  C07P.depth_lt_stagesFuel (by simp)

/-- a stage with a sole operator that succeeds: the build is one merge of the tree the operator leaves with
    the stage that holds the operator's result -/
theorem flatten_sole_ok (xs : List Node) (o s : Node) (k : Key) (p : Path) (op v s' : Node) (hx : xs ≠ [])
    (hs : flattenWith (premergeF (stagesFuel (xs ++ [o]))) xs = .ok s)
    (hsole : soleAt (k :: p) o = true) (hop : getNode o (k :: p) = some op)
    (hpm : ∀ fl, premergeF (fl + 1) op (k :: p) (some s) = .ok (v, false, some s')) :
    flatten (xs ++ [o]) = merge s' (replaceAt v (k :: p) o) :=
  flatten_last_ok xs o s _ s' true hx (isDict_of_soleAt hsole) hs
    (premergeF_sole_ok v (some s') s p k _ o [] op hsole (depth_lt_fuel_last xs o) hop (by simpa using hpm))

theorem flatten_sole_err (xs : List Node) (o s : Node) (k : Key) (p : Path) (op : Node) (e : Err) (hx : xs ≠ [])
    (hs : flattenWith (premergeF (stagesFuel (xs ++ [o]))) xs = .ok s)
    (hsole : soleAt (k :: p) o = true) (hop : getNode o (k :: p) = some op)
    (hpm : ∀ fl, premergeF (fl + 1) op (k :: p) (some s) = .error e) :
    flatten (xs ++ [o]) = .error e :=
  flatten_last_err xs o s e hx (isDict_of_soleAt hsole) hs
    (premergeF_sole_err e s p k _ o [] op hsole (depth_lt_fuel_last xs o) hop (by simpa using hpm))

/-- a successful `merge` is a successful `mergeF` -/
theorem merge_ok {s o r : Node} (h : merge s o = .ok r) : ∃ b, mergeF (o.depth + 1) s o = .ok (r, b) :=
  C07P.merge_ok_mergeF h

end AY.C16P
