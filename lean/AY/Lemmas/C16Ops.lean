/-
  AY.Lemmas.C16Ops — when `remove_node` succeeds (relation `getNode` / `removeNode`), the
  "lists are numbered 0 … n-1" invariant, and the state threading of `premergeChildren`.
-/
import AY.Lemmas.C16Frame
namespace AY

theorem c16_removeNode_none_of_getNode {root : Node} {tp : Path} (h : getNode root tp = none) :
    removeNode root tp = none := by
  cases hr : removeNode root tp with
  | none => rfl
  | some res =>
    obtain ⟨d, root'⟩ := res
    rw [c16_removeNode_getNode hr] at h
    cases h

/-- an existing child can be detached when the parent is a mapping or a numbered list -/
theorem c16_removeNode_of_getNode {pp : Path} {key : Key} {root n : Node} {pf : Flags}
    {pk : CompKind} {pcs : List (Key × Node)} (hg : getNode root (pp ++ [key]) = some n)
    (hp : getNode root pp = some (.comp pf pk pcs))
    (hk : pk.isDictFam = true ∨ listKeys 0 pcs = true) :
    ∃ pcs', removeChild pf pk key pcs = some pcs' ∧
      removeNode root (pp ++ [key]) = some (n, setNodeAt root pp (.comp pf pk pcs')) := by
  rw [c16_getNode_snoc, hp] at hg
  simp only [Option.bind_some] at hg
  have hrc : ∃ pcs', removeChild pf pk key pcs = some pcs' := by
    by_cases hd : pk.isDictFam = true
    · exact ⟨aerase key pcs, by simp [removeChild, hd, ahas, hg]⟩
    · have hl : listKeys 0 pcs = true := by
        rcases hk with hk | hk
        · exact absurd hk hd
        · exact hk
      obtain ⟨j, e1, e2, _⟩ := c16_alookup_listKeys 0 pcs key n hl hg
      have : validateIndex pcs.length true key = some j := by
        rw [e1]; simpa using c16_validateIndex_nonneg e2
      exact ⟨listDelAt pf pk j pcs, by simp [removeChild, hd, this]⟩
  obtain ⟨pcs', hr⟩ := hrc
  exact ⟨pcs', hr, c16_removeNode_of_parent pp key root n pf pk pcs pcs' hp hg hr⟩

/-! ### lists are numbered `0 … n-1` everywhere -/

mutual
/-- every list-family container of the tree stores its elements under the keys `0 … n-1`
    (what `ConfigList` maintains; holds for every tree the loader builds) -/
def c16_numbered : Node → Bool
  | .leaf .. => true
  | .comp _ k cs => (k.isDictFam || listKeys 0 cs) && c16_numberedList cs
def c16_numberedList : List (Key × Node) → Bool
  | [] => true
  | (_, c) :: rest => c16_numbered c && c16_numberedList rest
end

theorem c16_numbered_alookup (key : Key) : ∀ (cs : List (Key × Node)) (c : Node),
    c16_numberedList cs = true → alookup key cs = some c → c16_numbered c = true
  | [], _, _, h => by simp [alookup] at h
  | (k', v) :: rest, c, hn, h => by
    have hn' : c16_numbered v = true ∧ c16_numberedList rest = true := by
      simpa [c16_numberedList] using hn
    by_cases hk : k' = key
    · simp only [alookup, hk, if_true, Option.some.injEq] at h
      rw [← h]; exact hn'.1
    · simp only [alookup, hk, if_false] at h
      exact c16_numbered_alookup key rest c hn'.2 h

theorem c16_numbered_getNode : ∀ (p : Path) (root n : Node), c16_numbered root = true →
    getNode root p = some n → c16_numbered n = true
  | [], root, n, hr, h => by simp only [getNode, Option.some.injEq] at h; rw [← h]; exact hr
  | key :: rest, .leaf .., n, _, h => by simp [getNode] at h
  | key :: rest, .comp f k cs, n, hr, h => by
    simp only [getNode] at h
    cases hc : alookup key cs with
    | none => simp [hc] at h
    | some c =>
      simp only [hc] at h
      have hr' : c16_numberedList cs = true := by
        simp only [c16_numbered, Bool.and_eq_true] at hr; exact hr.2
      exact c16_numbered_getNode rest c n (c16_numbered_alookup key cs c hr' hc) h

/-- in a tree whose lists are numbered, whatever `get_node` finds below the root can be removed -/
theorem c16_removeNode_of_numbered {root n : Node} {tp : Path} (hn : c16_numbered root = true)
    (hne : tp ≠ []) (hg : getNode root tp = some n) :
    ∃ root', removeNode root tp = some (n, root') := by
  have hd : tp = tp.dropLast ++ [tp.getLast hne] := (List.dropLast_concat_getLast hne).symm
  generalize tp.dropLast = pp at hd
  generalize tp.getLast hne = key at hd
  subst hd
  have hg' := hg
  rw [c16_getNode_snoc] at hg'
  cases hp : getNode root pp with
  | none => simp [hp] at hg'
  | some pn =>
    cases pn with
    | leaf f k => simp [hp] at hg'
    | comp pf pk pcs =>
      have hpn := c16_numbered_getNode pp root _ hn hp
      have hk : pk.isDictFam = true ∨ listKeys 0 pcs = true := by
        simp only [c16_numbered, Bool.and_eq_true, Bool.or_eq_true] at hpn; exact hpn.1
      obtain ⟨pcs', _, h⟩ := c16_removeNode_of_getNode hg hp hk
      exact ⟨_, h⟩

/-! ### the loop over the children of a stage threads `into` in document order -/

theorem c16_premergeChildren_cons (rec : Node → Path → Option Node → PM) (path : Path) (name : Key)
    (c : Node) (rest : List (Key × Node)) (into : Option Node) :
    premergeChildren rec path ((name, c) :: rest) into =
      match rec c (path ++ [name]) into with
      | .error e => .error e
      | .ok (c', same, into') =>
        match premergeChildren rec path rest into' with
        | .error e => .error e
        | .ok (cs', resets, into'') =>
          if same then .ok ((name, c') :: cs', resets, into'')
          else .ok ((name, c) :: cs', (name, c') :: resets, into'') := rfl

/-- only the accumulated tree: the `into` after the loop is the `into` after the rest of the loop
    started from the `into` the first child leaves behind -/
theorem c16_premergeChildren_into (rec : Node → Path → Option Node → PM) (path : Path) (name : Key)
    (c : Node) (rest : List (Key × Node)) (into : Option Node) :
    (premergeChildren rec path ((name, c) :: rest) into).map (fun r => r.2.2) =
      match rec c (path ++ [name]) into with
      | .error e => .error e
      | .ok (_, _, into') => (premergeChildren rec path rest into').map (fun r => r.2.2) := by
  rw [c16_premergeChildren_cons]
  cases rec c (path ++ [name]) into with
  | error e => rfl
  | ok r =>
    obtain ⟨c', same, into'⟩ := r
    simp only
    cases premergeChildren rec path rest into' with
    | error e => rfl
    | ok r2 =>
      obtain ⟨cs', resets, into''⟩ := r2
      cases same <;> rfl

end AY
