/-
  AY.Lemmas.C15WholeProp — erasing the `safe` / `allow_new` flags (`eraseSN`) commutes with
  `_propagate_implicit_values` ON CONSISTENT TREES, and therefore with every child mutator
  (`adopt`, `set_child`, `remove_child`, list deletion, `inheritInto`).

  This removes the obstacle recorded at `C15_flag_neutral_ops_partial`: `flagsChanged` also compares
  `implicit_allow_new` / `implicit_safe`, so the unerased side may descend where the erased side does
  not; but then `implicit_delete` of the node is already what the parent hands down, the tree below is
  consistent, so the descent rewrites every `implicit_delete` below with the value it already has
  (`applyKw_stable`).
-/
import AY.Lemmas.C15WholeCons
import AY.Lemmas.C15Flag
set_option linter.unusedVariables false
namespace AY
open AY.C15W

/-- what `eraseF` does to the inherited keywords -/
def eraseKw (kw : ChildKw) : ChildKw := { kw with iNew := none, iSafe := none }

theorem childKw_eraseF' (f : Flags) (k : CompKind) : childKw (eraseF f) k = (childKw f k).map eraseKw :=
  childKw_eraseF f k

theorem eraseF_updFlags (kw : ChildKw) (f : Flags) : eraseF (updFlags kw f) = updFlags (eraseKw kw) (eraseF f) := by
  simp [eraseF, updFlags, eraseKw]

theorem flagsChanged_erase (kw : ChildKw) (f : Flags) :
    flagsChanged (eraseKw kw) (eraseF f) = (f.iDel != kw.iDel) := by
  simp [flagsChanged, eraseKw, eraseF]

theorem eraseF_updFlags_stable {kw : ChildKw} {f : Flags} (h : kw.iDel = f.iDel) :
    eraseF (updFlags kw f) = eraseF f := by
  cases f
  simp only at h
  simp [eraseF, updFlags, h]

theorem childKw_updFlags_iDel {kw : ChildKw} {f : Flags} (h : kw.iDel = f.iDel) (k : CompKind) :
    (childKw (updFlags kw f) k).map (·.iDel) = (childKw f k).map (·.iDel) := by
  cases k <;> simp [childKw, updFlags, h]

theorem eraseSNList_length : ∀ cs : List (Key × Node), (eraseSNList cs).length = cs.length
  | [] => rfl
  | (k, c) :: rest => by simp [eraseSNList, eraseSNList_length rest]

/-! ### a descent that `implicit_delete` did not ask for changes no `implicit_delete` -/

mutual
/-- On a consistent tree whose root already carries the `implicit_delete` of `kw`, writing `kw`
    (whatever its `implicit_allow_new` / `implicit_safe`) changes only erased flags, at every depth. -/
theorem applyKw_stable : ∀ (c : Node) (kw : ChildKw), FlagsConsistent c = true → kw.iDel = c.flags.iDel →
    eraseSN (applyKw kw c) = eraseSN c
  | .leaf f k, kw, _, h => by
    simp only [Node.flags] at h
    simp only [applyKw, eraseSN, eraseF_updFlags_stable h]
  | .comp f k cs, kw, hc, h => by
    simp only [Node.flags] at h
    simp only [FlagsConsistent] at hc
    simp only [applyKw]
    split
    · have hi := childKw_updFlags_iDel h k
      split
      · simp only [eraseSN, eraseF_updFlags_stable h]
      · rename_i kw' hk'
        rw [hk'] at hi
        cases hk : childKw f k with
        | none => rw [hk] at hi; simp at hi
        | some kw0 =>
          rw [hk] at hi hc
          simp only [Option.map_some, Option.some.injEq] at hi
          simp only [eraseSN, eraseF_updFlags_stable h, applyKwList_stable cs kw0 kw' hc hi]
    · rfl
theorem applyKwList_stable : ∀ (cs : List (Key × Node)) (kw0 kw' : ChildKw),
    consistentList (some kw0) cs = true → kw'.iDel = kw0.iDel →
    eraseSNList (applyKwList kw' cs) = eraseSNList cs
  | [], _, _, _, _ => rfl
  | (key, c) :: rest, kw0, kw', hc, h => by
    rw [consistentList_cons] at hc
    have h1 := (childFlagsOK_iff kw0 c.flags).1 (hc.1 kw0 rfl)
    simp only [applyKwList, eraseSNList]
    rw [applyKw_stable c kw' hc.2.1 (by rw [h, h1.1]), applyKwList_stable rest kw0 kw' hc.2.2 h]
end

/-! ### `eraseSN` commutes with the propagation on consistent trees -/

mutual
theorem applyKw_eraseSN : ∀ (c : Node) (kw : ChildKw), FlagsConsistent c = true →
    eraseSN (applyKw kw c) = applyKw (eraseKw kw) (eraseSN c)
  | .leaf f k, kw, _ => by simp only [applyKw, eraseSN, eraseF_updFlags]
  | .comp f k cs, kw, hc => by
    by_cases hd : f.iDel = kw.iDel
    · -- the erased side does not descend; the unerased side changes nothing that survives erasing
      rw [applyKw_stable _ kw hc (by simpa [Node.flags] using hd.symm)]
      simp only [eraseSN, applyKw, flagsChanged_erase, hd, bne_self_eq_false, Bool.false_eq_true, if_false]
    · have hch : flagsChanged kw f = true := by simp [flagsChanged, hd]
      have hch' : flagsChanged (eraseKw kw) (eraseF f) = true := by rw [flagsChanged_erase]; simpa using hd
      simp only [FlagsConsistent] at hc
      have hall := consistentList_weaken hc
      simp only [eraseSN, applyKw, hch, hch', if_true, ← eraseF_updFlags, childKw_eraseF']
      cases childKw (updFlags kw f) k with
      | none => simp only [Option.map_none, eraseSN]
      | some kw' => simp only [Option.map_some, eraseSN, applyKwList_eraseSN cs kw' hall]
theorem applyKwList_eraseSN : ∀ (cs : List (Key × Node)) (kw : ChildKw), allConsistent cs = true →
    eraseSNList (applyKwList kw cs) = applyKwList (eraseKw kw) (eraseSNList cs)
  | [], _, _ => rfl
  | (key, c) :: rest, kw, h => by
    rw [allConsistent_cons] at h
    simp only [applyKwList, eraseSNList, applyKw_eraseSN c kw h.1, applyKwList_eraseSN rest kw h.2]
end

/-- `_propagate_implicit_values` on a node whose children are consistent trees (the root flags are
    arbitrary — e.g. just rewritten by `_replace_self` / `_replace_other` or by an adoption) -/
theorem propagate_eraseSN {n : Node} (h : ConsistentBelow n = true) :
    eraseSN (propagate n) = propagate (eraseSN n) := by
  cases n with
  | leaf f k => rfl
  | comp f k cs =>
    simp only [ConsistentBelow] at h
    simp only [propagate, eraseSN, childKw_eraseF']
    cases childKw f k with
    | none => simp only [Option.map_none, eraseSN]
    | some kw => simp only [Option.map_some, eraseSN, applyKwList_eraseSN cs kw h]

/-! ### consistency of erased trees -/

theorem childFlagsOK_erase {kw : ChildKw} {f : Flags} (h : childFlagsOK kw f = true) :
    childFlagsOK (eraseKw kw) (eraseF f) = true := by
  rw [childFlagsOK_iff] at h ⊢
  exact ⟨h.1, rfl, Or.inl rfl⟩

mutual
theorem eraseSN_cons : ∀ (n : Node), FlagsConsistent n = true → FlagsConsistent (eraseSN n) = true
  | .leaf f k, _ => rfl
  | .comp f k cs, h => by
    simp only [FlagsConsistent] at h
    simp only [eraseSN, FlagsConsistent, childKw_eraseF']
    exact eraseSNList_cons (childKw f k) cs h
theorem eraseSNList_cons (kw : Option ChildKw) : ∀ (cs : List (Key × Node)), consistentList kw cs = true →
    consistentList (kw.map eraseKw) (eraseSNList cs) = true
  | [], _ => by simp [eraseSNList, consistentList]
  | (key, c) :: rest, h => by
    rw [consistentList_cons] at h
    simp only [eraseSNList]
    rw [consistentList_cons]
    refine ⟨?_, eraseSN_cons c h.2.1, eraseSNList_cons kw rest h.2.2⟩
    intro kw' e
    cases kw with
    | none => simp at e
    | some kw0 =>
      simp only [Option.map_some, Option.some.injEq] at e
      subst e
      rw [flags_eraseSN]
      exact childFlagsOK_erase (h.1 kw0 rfl)
end

/-! ### the child mutators -/

mutual
theorem setPrioAll_eraseSN (p : Int) : ∀ n : Node, eraseSN (setPrioAll p n) = setPrioAll p (eraseSN n)
  | .leaf f k => rfl
  | .comp f k cs => by simp only [setPrioAll, eraseSN, setPrioAllList_eraseSN p cs]; rfl
theorem setPrioAllList_eraseSN (p : Int) : ∀ cs : List (Key × Node),
    eraseSNList (setPrioAllList p cs) = setPrioAllList p (eraseSNList cs)
  | [] => rfl
  | (k, c) :: rest => by simp only [setPrioAllList, eraseSNList, setPrioAll_eraseSN p c, setPrioAllList_eraseSN p rest]
end

theorem inheritInto_eraseSN_none (kw? : Option ChildKw) {n : Node} (h : FlagsConsistent n = true) :
    eraseSN (inheritInto none kw? n) = inheritInto none (kw?.map eraseKw) (eraseSN n) := by
  cases kw? with
  | none => rfl
  | some kw =>
    simp only [inheritInto, Option.map_some]
    rw [propagate_eraseSN (consistentBelow_setFlags _ h), eraseSN_setFlags, eraseF_updFlags, flags_eraseSN]

theorem inheritInto_eraseSN (p? : Option Int) (kw? : Option ChildKw) {n : Node} (h : FlagsConsistent n = true) :
    eraseSN (inheritInto p? kw? n) = inheritInto p? (kw?.map eraseKw) (eraseSN n) := by
  cases p? with
  | none => exact inheritInto_eraseSN_none kw? h
  | some p =>
    have h1 : FlagsConsistent (setPrioAll p n) = true := by rw [setPrioAll_cons]; exact h
    have := inheritInto_eraseSN_none kw? h1
    rw [setPrioAll_eraseSN] at this
    exact this

theorem adopt_eraseSN (pf : Flags) (pk : CompKind) {v : Node} (h : FlagsConsistent v = true) :
    eraseSN (adopt pf pk v) = adopt (eraseF pf) pk (eraseSN v) := by
  have hi := inheritInto_cons none (childKw pf pk) h
  simp only [adopt]
  rw [propagate_eraseSN (consistentBelow_of_consistent hi.1), inheritInto_eraseSN none _ h, childKw_eraseF']

theorem eraseSNList_aset (k : Key) (v : Node) : ∀ cs : List (Key × Node),
    eraseSNList (aset k v cs) = aset k (eraseSN v) (eraseSNList cs)
  | [] => rfl
  | (k', v') :: rest => by
    by_cases h : k' = k <;> simp [eraseSNList, aset, h, eraseSNList_aset k v rest]

theorem eraseSNList_aerase (k : Key) : ∀ cs : List (Key × Node),
    eraseSNList (aerase k cs) = aerase k (eraseSNList cs)
  | [] => rfl
  | (k', v') :: rest => by
    by_cases h : k' = k <;> simp [eraseSNList, aerase, h, eraseSNList_aerase k rest]

theorem eraseSNList_append : ∀ a b : List (Key × Node), eraseSNList (a ++ b) = eraseSNList a ++ eraseSNList b
  | [], _ => rfl
  | (k, c) :: rest, b => by simp [eraseSNList, eraseSNList_append rest b]

theorem ahas_eraseSNList (k : Key) (cs : List (Key × Node)) : ahas k (eraseSNList cs) = ahas k cs := by
  simp only [ahas, alookup_eraseSNList]
  cases alookup k cs <;> rfl

theorem eraseSNList_renumFrom : ∀ (i : Nat) (xs : List Node),
    eraseSNList (renumFrom i xs) = renumFrom i (xs.map eraseSN)
  | _, [] => rfl
  | i, x :: xs => by simp [renumFrom, eraseSNList, eraseSNList_renumFrom (i + 1) xs]

theorem map_snd_eraseSNList : ∀ cs : List (Key × Node), (eraseSNList cs).map (·.2) = (cs.map (·.2)).map eraseSN
  | [] => rfl
  | (k, c) :: rest => by simp [eraseSNList, map_snd_eraseSNList rest]

theorem eraseSNList_take (i : Nat) : ∀ cs : List (Key × Node), eraseSNList (cs.take i) = (eraseSNList cs).take i := by
  induction i with
  | zero => intro cs; simp [eraseSNList]
  | succ i ih =>
    intro cs
    cases cs with
    | nil => rfl
    | cons kv rest => obtain ⟨k, c⟩ := kv; simp [eraseSNList, ih rest]

theorem eraseSNList_drop (i : Nat) : ∀ cs : List (Key × Node), eraseSNList (cs.drop i) = (eraseSNList cs).drop i := by
  induction i with
  | zero => intro cs; simp
  | succ i ih =>
    intro cs
    cases cs with
    | nil => rfl
    | cons kv rest => obtain ⟨k, c⟩ := kv; simp [eraseSNList, ih rest]

theorem map_adopt_eraseSN (pf : Flags) (pk : CompKind) : ∀ cs : List (Key × Node), allConsistent cs = true →
    (cs.map (fun kv => adopt pf pk kv.2)).map eraseSN =
      (eraseSNList cs).map (fun kv => adopt (eraseF pf) pk kv.2)
  | [], _ => rfl
  | (k, c) :: rest, h => by
    rw [allConsistent_cons] at h
    simp [eraseSNList, adopt_eraseSN pf pk h.1, map_adopt_eraseSN pf pk rest h.2]

theorem allConsistent_drop (i : Nat) {cs : List (Key × Node)} (h : allConsistent cs = true) :
    allConsistent (cs.drop i) = true := by
  simp only [allConsistent] at *
  rw [consistentList_iff] at h ⊢
  exact fun kv hm => h kv (List.mem_of_mem_drop hm)

theorem listDelAt_eraseSN (pf : Flags) (pk : CompKind) (i : Nat) {cs : List (Key × Node)}
    (h : allConsistent cs = true) :
    eraseSNList (listDelAt pf pk i cs) = listDelAt (eraseF pf) pk i (eraseSNList cs) := by
  simp only [listDelAt, renum, eraseSNList_renumFrom, List.map_append, List.map_map]
  congr 1
  congr 1
  · rw [← eraseSNList_take]
    have := map_snd_eraseSNList (cs.take i)
    simpa [List.map_map] using this.symm
  · rw [← eraseSNList_drop]
    have := map_adopt_eraseSN pf pk (cs.drop (i + 1)) (allConsistent_drop _ h)
    simpa [List.map_map] using this

theorem setChild_eraseSN (pf : Flags) (pk : CompKind) (name : Key) {v : Node} (cs : List (Key × Node))
    (hv : FlagsConsistent v = true) :
    setChild (eraseF pf) pk name (eraseSN v) (eraseSNList cs) = (setChild pf pk name v cs).map eraseSNList := by
  simp only [setChild, eraseSNList_length]
  split
  · simp only [Except.map, eraseSNList_aset, adopt_eraseSN pf pk hv]
  · split
    · rfl
    · simp only [Except.map, eraseSNList_aset, adopt_eraseSN pf pk hv]

theorem removeChild_eraseSN (pf : Flags) (pk : CompKind) (name : Key) {cs : List (Key × Node)}
    (h : allConsistent cs = true) :
    removeChild (eraseF pf) pk name (eraseSNList cs) = (removeChild pf pk name cs).map eraseSNList := by
  simp only [removeChild, eraseSNList_length, ahas_eraseSNList]
  split
  · split
    · simp only [Option.map_some, eraseSNList_aerase]
    · rfl
  · split
    · rfl
    · simp only [Option.map_some, listDelAt_eraseSN pf pk _ h]

theorem getChild_eraseSN (pk : CompKind) (name : Key) (cs : List (Key × Node)) :
    getChild pk name (eraseSNList cs) = (getChild pk name cs).map eraseSN := by
  simp only [getChild, eraseSNList_length, alookup_eraseSNList]
  split
  · rfl
  · split <;> rfl

theorem replaceChild_eraseSN (pk : CompKind) (key : Key) (v : Node) (cs : List (Key × Node)) :
    eraseSNList (replaceChild pk key v cs) = replaceChild pk key (eraseSN v) (eraseSNList cs) := by
  simp only [replaceChild, eraseSNList_length]
  split
  · exact eraseSNList_aset _ _ _
  · split
    · exact eraseSNList_aset _ _ _
    · rfl

end AY
