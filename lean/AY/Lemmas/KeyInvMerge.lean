/-
  AY.Lemmas.KeyInvMerge — merging preserves the key invariant `KI.Keyed` (= `WellKeyed`).

  Mirrors AY.Lemmas.C19Merge (which proves the same for `FlagsConsistent`): the loop invariant is
  "the accumulator is a legal `_children` of the class of `self`" (`KI.CS sk acc`): distinct keys for
  the dict family (`aset` / `aerase`), `0 … n-1` for the list family (`set_child` replaces or appends
  at `len`, `_del` renumbers).  Promotions (`_maybe_promote`) rebuild the children through the
  mutators of the promoted class (`adoptAll` from `[]`), which yields a legal `_children` of THAT
  class whatever the keys were.
-/
import AY.Lemmas.KeyInv
import AY.Model.Merge
namespace AY
namespace KI

theorem removeChildE_CS {pf : Flags} {pk : CompKind} {name : Key} {cs cs' : List (Key × Node)}
    (hcs : CS pk cs) (h : removeChildE pf pk name cs = .ok cs') : CS pk cs' := by
  unfold removeChildE at h
  split at h
  · rename_i cs'' hr; cases h; exact removeChild_CS hcs hr
  · cases h

theorem replaceChild_CS {pk : CompKind} {key : Key} {v : Node} {cs : List (Key × Node)}
    (hcs : CS pk cs) (hv : Keyed v = true) : CS pk (replaceChild pk key v cs) := by
  unfold replaceChild
  split
  · rename_i hd
    refine ⟨?_, KeyedL_aset hv hcs.2⟩
    have := hcs.1
    simp only [topOK, hd, if_true] at this ⊢
    exact ndK_aset _ _ this
  · rename_i hd
    split
    · rename_i i hi
      refine ⟨?_, KeyedL_aset hv hcs.2⟩
      have := hcs.1
      simp only [topOK, hd] at this ⊢
      exact numK_aset this (Nat.zero_le _) (by have := validateIndex_le hi; omega)
    · exact hcs

theorem removeMany_CS {pf : Flags} {pk : CompKind} : ∀ (names : List Key) (cs : List (Key × Node)), CS pk cs →
    CS pk (removeMany pf pk names cs)
  | [], cs, h => by simpa [removeMany] using h
  | nm :: rest, cs, h => by
    simp only [removeMany]
    split
    · rename_i cs' hr
      exact removeMany_CS rest cs' (removeChild_CS h hr)
    · exact removeMany_CS rest cs h

/-! ### `filter_nodes` -/

mutual
theorem filterNode_keyed (cond : Path → Node → Bool) : ∀ (pre : Path) (n : Node), Keyed n = true →
    Keyed (filterNode cond pre n).1 = true
  | _, .leaf f k, _ => rfl
  | pre, .comp f k cs, h => by
    rw [keyed_comp] at h
    simp only [filterNode]
    rw [keyed_comp]
    have hl := filterList_keyed cond pre cs h.2
    exact removeMany_CS _ _ ⟨by rw [hl.1]; exact h.1, hl.2⟩
theorem filterList_keyed (cond : Path → Node → Bool) : ∀ (pre : Path) (cs : List (Key × Node)),
    KeyedL cs = true →
    keysOf (dropMarks (filterList cond pre cs).1) = keysOf cs ∧ KeyedL (dropMarks (filterList cond pre cs).1) = true
  | _, [], _ => by simp [filterList, dropMarks, KeyedL]
  | pre, (name, child) :: rest, h => by
    rw [KeyedL_cons] at h
    have ih := filterList_keyed cond pre rest h.2
    simp only [filterList, dropMarks, keysOf_cons, ih.1]
    rw [KeyedL_cons]
    exact ⟨trivial, filterNode_keyed cond (pre ++ [name]) child h.1, ih.2⟩
end

theorem filterNode_CS (cond : Path → Node → Bool) (pre : Path) (f : Flags) (k : CompKind)
    {cs : List (Key × Node)} (h : CS k cs) : CS k (filterNode cond pre (.comp f k cs)).1.children := by
  have := filterNode_keyed cond pre (.comp f k cs) ((keyed_comp f k cs).2 h)
  simp only [filterNode] at this
  rw [keyed_comp] at this
  simpa only [filterNode, Node.children] using this

/-! ### the merge algebra -/

theorem leafRule_keyed {s o : Node} (hs : Keyed s = true) (ho : Keyed o = true) : Keyed (leafRule s o).1 = true := by
  unfold leafRule
  split
  · simp only [keys_propagate, keys_setFlags]; exact hs
  · simp only [keys_propagate, keys_setFlags]; exact ho

/-- `_maybe_promote`: the result is legal whatever `other` looks like -/
theorem maybePromote_keyed {sf : Flags} {sk : CompKind} {scs : List (Key × Node)} {o r : Node} {b : Bool}
    (hscs : CS sk scs) (h : maybePromote sf sk scs o = .ok (r, b)) : Keyed r = true := by
  unfold maybePromote at h
  split at h
  · cases h; exact (keyed_comp _ _ _).2 hscs
  · rename_i of ok ocs
    repeat' split at h
    all_goals first
      | (cases h; exact (keyed_comp _ _ _).2 hscs)
      | (rename_i cs' ha; cases h; exact (keyed_comp _ _ _).2 (adoptAll_CS _ _ _ _ _ hscs.2 (CS_nil _) ha))
      | cases h

theorem finishMerge_keyed {sf : Flags} {sk : CompKind} {scs : List (Key × Node)} {o r : Node} {b : Bool}
    (hscs : CS sk scs) (h : finishMerge sf sk scs o = .ok (r, b)) : Keyed r = true := by
  unfold finishMerge at h
  split at h
  · split at h
    · cases h
    · rename_i r' same hp; cases h; rw [keys_propagate]; exact maybePromote_keyed hscs hp
  · split at h
    · cases h
    · rename_i r' same hp; cases h; rw [keys_propagate]; exact maybePromote_keyed hscs hp

/-- what the loop needs from the recursive merge -/
def RecKeyed (rec : Node → Node → Except Err (Node × Bool)) : Prop :=
  ∀ a b r s, Keyed a = true → Keyed b = true → rec a b = .ok (r, s) → Keyed r = true

theorem mergeStep_CS {exc : List Path} {rec : Node → Node → Except Err (Node × Bool)} (hrec : RecKeyed rec) {sf : Flags}
    {sk : CompKind} {acc acc' : List (Key × Node)} {kv : Key × Node} (hacc : CS sk acc)
    (hkv : Keyed kv.2 = true) (h : mergeStep rec sf sk exc acc kv = .ok acc') : CS sk acc' := by
  unfold mergeStep at h
  split at h
  · split at h
    · cases h
    · exact setChild_CS hacc hkv h
  · rename_i child hg
    have hchild := getChild_keyed hacc.2 hg
    split at h
    · cases h
    · rename_i nw same hr
      have hnw := hrec _ _ _ _ hchild hkv hr
      split at h
      · split at h
        · exact removeChildE_CS hacc h
        · split at h
          · cases h; exact replaceChild_CS hacc hnw
          · exact setChild_CS hacc hnw h
      · split at h
        · cases h; exact replaceChild_CS hacc hnw
        · split at h
          · cases h
          · split at h
            · exact removeChildE_CS hacc h
            · exact setChild_CS hacc hnw h

theorem mergeLoop_CS {exc : List Path} {rec : Node → Node → Except Err (Node × Bool)} (hrec : RecKeyed rec) (sf : Flags)
    (sk : CompKind) : ∀ (acc ocs acc' : List (Key × Node)), CS sk acc → KeyedL ocs = true →
    mergeLoop rec sf sk exc acc ocs = .ok acc' → CS sk acc'
  | acc, [], acc', hacc, _, h => by simp only [mergeLoop] at h; cases h; exact hacc
  | acc, kv :: rest, acc', hacc, ho, h => by
    obtain ⟨k, v⟩ := kv
    rw [KeyedL_cons] at ho
    simp only [mergeLoop] at h
    split at h
    · cases h
    · rename_i acc1 hs
      exact mergeLoop_CS hrec sf sk acc1 rest acc' (mergeStep_CS hrec hacc ho.1 hs) ho.2 h

theorem compMerge_keyed {rec : Node → Node → Except Err (Node × Bool)} (hrec : RecKeyed rec) {sf : Flags}
    {sk : CompKind} {scs : List (Key × Node)} {o r : Node} {b : Bool} (hscs : CS sk scs)
    (ho : Keyed o = true) (h : compMerge rec sf sk scs o = .ok (r, b)) : Keyed r = true := by
  cases o with
  | leaf of lk =>
    simp only [compMerge, Except.ok.injEq] at h
    have e1 : r = (leafRule (.comp sf sk scs) (.leaf of lk)).1 := by rw [h]
    subst e1
    exact leafRule_keyed ((keyed_comp _ _ _).2 hscs) rfl
  | comp of ok ocs =>
    have hocs : CS ok ocs := (keyed_comp _ _ _).1 ho
    simp only [compMerge] at h
    split at h
    · split at h
      · split at h
        · cases h
        · split at h
          · cases h
          · rename_i res sameAsOther hp
            cases h
            rw [keys_propagate]
            exact maybePromote_keyed hocs hp
      · split at h
        · cases h
        · rename_i scs' hl
          exact finishMerge_keyed (mergeLoop_CS hrec sf sk _ ocs scs' (filterNode_CS _ _ sf sk hscs) hocs.2 hl) h
    · split at h
      · cases h
      · rename_i scs' hl
        exact finishMerge_keyed (mergeLoop_CS hrec sf sk _ ocs scs' hscs hocs.2 hl) h

theorem listMerge_keyed {rec : Node → Node → Except Err (Node × Bool)} (hrec : RecKeyed rec) {sf : Flags}
    {sk : CompKind} {scs : List (Key × Node)} {o r : Node} {b : Bool} (hscs : CS sk scs)
    (ho : Keyed o = true) (h : listMerge rec sf sk scs o = .ok (r, b)) : Keyed r = true := by
  cases o with
  | leaf of lk => exact compMerge_keyed hrec hscs ho (by simpa only [listMerge] using h)
  | comp of ok ocs =>
    simp only [listMerge] at h
    split at h
    · cases h
    · exact compMerge_keyed hrec hscs (filterNode_keyed _ _ _ ho) h

theorem comp_propagate_keyed (f : Flags) {k : CompKind} {cs : List (Key × Node)} (h : CS k cs) :
    Keyed (propagate (.comp f k cs)) = true := by
  rw [keys_propagate]; exact (keyed_comp _ _ _).2 h

theorem funcMerge_keyed {rec : Node → Node → Except Err (Node × Bool)} (hrec : RecKeyed rec) {sf : Flags}
    {sk : CompKind} {f : String} {scs : List (Key × Node)} {o r : Node} {b : Bool}
    (hscs : CS sk scs) (ho : Keyed o = true)
    (h : funcMerge rec sf sk f scs o = .ok (r, b)) : Keyed r = true := by
  cases o with
  | leaf of lk =>
    simp only [funcMerge] at h
    split at h
    · split at h
      · split at h
        · cases h; exact comp_propagate_keyed _ (CS_nil _)
        · cases h; exact comp_propagate_keyed _ hscs
      · cases h; exact comp_propagate_keyed _ hscs
    · exact compMerge_keyed hrec hscs ho h
  | comp of ok ocs =>
    simp only [funcMerge] at h
    split at h
    · exact compMerge_keyed hrec hscs ho h
    · split at h
      · split at h
        · cases h; exact comp_propagate_keyed _ hscs
        · refine compMerge_keyed hrec ?_ ho h
          split
          · exact CS_nil _
          · exact CS_congr (setFunc_isDictFam _ _) hscs
      · exact compMerge_keyed hrec hscs ho h

/-- `on_merge` keeps trees well-keyed, at every fuel -/
theorem mergeF_keyed : ∀ (fuel : Nat), RecKeyed (mergeF fuel)
  | 0 => fun a b r s _ _ h => by simp [mergeF] at h
  | fuel + 1 => fun a b r s ha hb h => by
    have ih := mergeF_keyed fuel
    cases a with
    | leaf f k =>
      simp only [mergeF, Except.ok.injEq] at h
      have e1 : r = (leafRule (.leaf f k) b).1 := by rw [h]
      subst e1
      exact leafRule_keyed rfl hb
    | comp sf sk scs =>
      have hscs : CS sk scs := (keyed_comp _ _ _).1 ha
      cases sk with
      | dict => exact compMerge_keyed ih hscs hb (by simpa only [mergeF] using h)
      | call g => exact funcMerge_keyed ih hscs hb (by simpa only [mergeF] using h)
      | bind g => exact funcMerge_keyed ih hscs hb (by simpa only [mergeF] using h)
      | list => exact listMerge_keyed ih hscs hb (by simpa only [mergeF] using h)
      | append => exact listMerge_keyed ih hscs hb (by simpa only [mergeF] using h)
      | extend => exact listMerge_keyed ih hscs hb (by simpa only [mergeF] using h)
      | path p => exact listMerge_keyed ih hscs hb (by simpa only [mergeF] using h)
      | stream => exact listMerge_keyed ih hscs hb (by simpa only [mergeF] using h)

theorem merge_keyed {a b m : Node} (ha : Keyed a = true) (hb : Keyed b = true)
    (h : merge a b = .ok m) : Keyed m = true := by
  unfold merge at h
  split at h
  · cases h
  · rename_i r s hm
    cases h
    exact mergeF_keyed _ a b _ s ha hb hm

end KI
end AY
