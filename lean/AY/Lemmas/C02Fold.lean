/-
  AY.Lemmas.C02Fold — the builder's fold over tag-free documents: the pre-merge pass is the
  identity, every `merge` is an `upd`, hence `flatten` is `foldUpd`.
-/
import AY.Lemmas.C02Main
import AY.Lemmas.C02Construct
namespace AY

/-! ### `merge` vs `upd` -/

/-- relation between a merge result and an update result -/
def NRel (x : Except Err Node) (y : Except Err Plain) : Prop :=
  match x, y with
  | .ok r, .ok p => plainT r = true ∧ native r = p
  | .error e, .error e' => e = .merge ∧ e' = .merge
  | _, _ => False

theorem NRel_map {x : Except Err Node} {y : Except Err Plain} (h : NRel x y) : x.map native = y := by
  cases x <;> cases y <;> simp_all [NRel, Except.map]

theorem mergeF_rel_merge {n : Nat} {a b : Node} {y : Except Err Plain}
    (h : MRel (mergeF n a b) y) : NRel (match mergeF n a b with | .error e => .error e | .ok (r, _) => .ok r) y := by
  cases hm : mergeF n a b with
  | error e => cases y <;> simp_all [MRel, NRel]
  | ok res => obtain ⟨r, s⟩ := res; cases y <;> simp_all [MRel, NRel]

theorem merge_plain {a b : Node} (ha : plainT a = true) (hb : plainO b = true) :
    NRel (merge a b) (upd (native a) (native b)) := by
  have := mergeF_plain (b.depth + 1) ((native b).depth + 1) a b ha hb (by omega)
    (by rw [depth_native]; omega)
  exact mergeF_rel_merge this

/-! ### the pre-merge pass is the identity on tag-free trees -/

theorem premergeChildren_id {d : Nat} {rec : Node → Path → Option Node → PM}
    (H : ∀ c p into, plainT c = true → c.depth ≤ d → rec c p into = .ok (c, true, into)) (path : Path) :
    ∀ (cs : List (Key × Node)) (into : Option Node), plainTList cs = true → depthList cs ≤ d →
      premergeChildren rec path cs into = .ok (cs, [], into)
  | [], into, _, _ => rfl
  | (k, c) :: rest, into, h, hd => by
    have h' : plainT c = true ∧ plainTList rest = true := by simpa [plainTList] using h
    have hd' : c.depth ≤ d ∧ depthList rest ≤ d := by simp only [depthList] at hd; omega
    simp [premergeChildren, H c _ into h'.1 hd'.1, premergeChildren_id H path rest into h'.2 hd'.2]

theorem premergeF_plain : ∀ (fuel : Nat) (n : Node) (path : Path) (into : Option Node),
    plainT n = true → n.depth < fuel → premergeF fuel n path into = .ok (n, true, into) := by
  intro fuel
  induction fuel with
  | zero => intro n _ _ _ h; omega
  | succ fuel ih =>
    intro n path into hn hd
    cases n with
    | leaf f lk =>
      obtain ⟨v, rfl, _⟩ := plainT_leaf hn
      simp [premergeF]
    | comp f k cs =>
      obtain ⟨hf, hk, hcs⟩ := plainT_comp hn
      have hdep : depthList cs ≤ depthList cs := Nat.le_refl _
      have hlt : depthList cs < fuel := by simp only [Node.depth] at hd; omega
      have H : ∀ c p into, plainT c = true → c.depth ≤ depthList cs →
          premergeF fuel c p into = .ok (c, true, into) :=
        fun c p into hc hdc => ih c p into hc (by omega)
      have hch := premergeChildren_id H path cs into hcs hdep
      rcases hk with hk | ⟨hk, _⟩ <;> subst hk <;> simp [premergeF, hch, applyResets]

/-! ### the fold -/

/-- one step of `foldUpd` -/
def updStep (acc : Except Err Plain) (x : Plain) : Except Err Plain :=
  match acc with
  | .error e => .error e
  | .ok a => upd a x

theorem foldUpd_cons (d : Plain) (ds : List Plain) : foldUpd (d :: ds) = ds.foldl updStep (.ok d) := rfl

theorem foldl_updStep_error (e : Err) : ∀ xs : List Plain, xs.foldl updStep (.error e) = .error e
  | [] => rfl
  | x :: xs => by simp [List.foldl, updStep, foldl_updStep_error e xs]

theorem flattenLoop_plain {F : Nat} : ∀ (stages : List Node) (root : Node), plainT root = true →
    (∀ st, st ∈ stages → plainO st = true ∧ st.depth < F) →
    (flattenLoop (premergeF F) root stages).map native =
      (stages.map native).foldl updStep (.ok (native root))
  | [], root, _, _ => rfl
  | st :: rest, root, hroot, hst => by
    obtain ⟨hs, hd⟩ := hst st (List.mem_cons_self)
    have hsT : plainT st = true := ((plainO_iff st).1 hs).1
    have hrel := merge_plain hroot hs
    simp only [flattenLoop, premergeF_plain F st [] (some root) hsT hd, List.map_cons, List.foldl_cons,
      updStep]
    cases hm : merge root st with
    | error e =>
      cases hu : upd (native root) (native st) with
      | error e' =>
        simp only [hm, hu, NRel] at hrel
        simp [foldl_updStep_error, Except.map, hrel.1, hrel.2]
      | ok p => simp [hm, hu, NRel] at hrel
    | ok r =>
      cases hu : upd (native root) (native st) with
      | error e' => simp [hm, hu, NRel] at hrel
      | ok p =>
        simp only [hm, hu, NRel] at hrel
        rw [← hrel.2]
        exact flattenLoop_plain rest r hrel.1 (fun s h => hst s (List.mem_cons_of_mem _ h))

theorem foldl_add_ge : ∀ (l : List Nat) (init : Nat),
    init ≤ l.foldl (· + ·) init ∧ ∀ x, x ∈ l → x ≤ l.foldl (· + ·) init
  | [], init => ⟨Nat.le_refl _, fun _ h => by cases h⟩
  | y :: ys, init => by
    obtain ⟨h1, h2⟩ := foldl_add_ge ys (init + y)
    refine ⟨by simp only [List.foldl_cons]; omega, ?_⟩
    intro x hx
    simp only [List.foldl_cons]
    rcases List.mem_cons.1 hx with hx | hx
    · subst hx; omega
    · exact h2 x hx

theorem depth_lt_stagesFuel {stages : List Node} {st : Node} (h : st ∈ stages) :
    st.depth < stagesFuel stages := by
  have := (foldl_add_ge (stages.map (fun n => n.depth + 1)) 0).2 (st.depth + 1)
    (List.mem_map.2 ⟨st, h, rfl⟩)
  simp only [stagesFuel]
  omega

/-- `Builder.flatten` on tag-free mapping stages is the left fold of `upd` -/
theorem flatten_plain (stages : List Node) (hne : stages ≠ [])
    (hst : ∀ st, st ∈ stages → plainO st = true ∧ st.isDict = true) :
    (flatten stages).map native = foldUpd (stages.map native) := by
  cases stages with
  | nil => exact absurd rfl hne
  | cons s0 rest =>
    have hall : (s0 :: rest).all Node.isDict = true := by
      rw [List.all_eq_true]; intro x hx; exact (hst x hx).2
    have hs0 := (hst s0 (List.mem_cons_self)).1
    have hs0T : plainT s0 = true := ((plainO_iff s0).1 hs0).1
    have hpm := premergeF_plain (stagesFuel (s0 :: rest)) s0 [] none hs0T
      (depth_lt_stagesFuel (List.mem_cons_self))
    simp only [flatten, flattenWith, hall, Bool.not_true, Bool.false_eq_true, if_false, hpm,
      reqNew_plainT _ _ _ hs0T, List.map_cons, foldUpd_cons]
    exact flattenLoop_plain rest s0 hs0T (fun st h =>
      ⟨(hst st (List.mem_cons_of_mem _ h)).1, depth_lt_stagesFuel (List.mem_cons_of_mem _ h)⟩)

/-! ### a sequence of documents -/

/-- parse every document of a sequence (each with its own source context) -/
def constructDocs : List (Env × Raw) → Except Err (List Node)
  | [] => .ok []
  | (env, r) :: rest =>
    match construct env r with
    | .error e => .error e
    | .ok n =>
      match constructDocs rest with
      | .error e => .error e
      | .ok ns => .ok (n :: ns)

theorem constructDocs_plain : ∀ (docs : List (Env × Raw)), (∀ d, d ∈ docs → rawPlain d.2 = true) →
    ∃ ns, constructDocs docs = .ok ns ∧ ns.map native = docs.map (fun d => plainOfRaw d.2) ∧
      ns.length = docs.length ∧ ∀ n, n ∈ ns → plainO n = true ∧ n.isDict = true
  | [], _ => ⟨[], rfl, rfl, rfl, fun _ h => by cases h⟩
  | (env, r) :: rest, h => by
    obtain ⟨n, h1, h2, h3, h4⟩ := construct_plain env r (h (env, r) (List.mem_cons_self))
    obtain ⟨ns, g1, g2, g3, g4⟩ := constructDocs_plain rest (fun d hd => h d (List.mem_cons_of_mem _ hd))
    refine ⟨n :: ns, by simp only [constructDocs, h1, g1], by simp [h2, g2], by simp [g3], ?_⟩
    intro x hx
    rcases List.mem_cons.1 hx with hx | hx
    · subst hx; exact ⟨h3, h4⟩
    · exact g4 x hx

end AY
