/-
  AY.Lemmas.C07PipeRoot — the flags of the node a merge returns, and the root of a build
  (helpers for AY.Props.C07_Pipeline).

  * `mergeF_flags`: whatever the two nodes are, the flags of the node `on_merge` returns are one of
    `_replace_other(self, other)`, `_replace_self(self, other)`, `_replace_other(other, self)`; hence a
    mark that `mergeSafe` absorbs from either side (`Absorb`: an explicit `safe=False`, a source-level
    `safe=False`) is on the result as soon as it is on one of the two nodes;
  * the pre-merge pass leaves the flags of the accumulated root and of a mapping stage alone;
  * hence such a mark on the root of ANY stage is on the root of the flattened tree;
  * `!append` / `!extend`: the shape of what they return.
-/
import AY.Lemmas.C07PipeMark
set_option linter.unusedVariables false
namespace AY.C07P
open AY.C15W (filterNode_flags)

/-! ### flags of the merged node -/

/-- one of the three flag combinations of `_replace_self` / `_replace_other` -/
def BaseOfMerge (s o g : Flags) : Prop :=
  g = replaceOtherFlags s o ∨ g = replaceSelfFlags s o ∨ g = replaceOtherFlags o s

/-- … possibly with `_safe = False` on top (a promoted node that was unsafe) -/
def FlagsOfMerge (s o r : Flags) : Prop :=
  ∃ g, BaseOfMerge s o g ∧ (r = g ∨ r = { g with safe := some false })

theorem promoted_cases (g of : Flags) : promotedFlags g of = g ∨ promotedFlags g of = { g with safe := some false } := by
  unfold promotedFlags; split
  · exact .inl rfl
  · exact .inr rfl

theorem maybePromote_flags_cases {sf : Flags} {sk : CompKind} {scs : List (Key × Node)} {o r : Node} {b : Bool}
    (h : maybePromote sf sk scs o = .ok (r, b)) : r.flags = sf ∨ r.flags = { sf with safe := some false } := by
  rw [maybePromote_flags h]; split
  · exact .inl rfl
  · exact promoted_cases _ _

theorem leafRule_flags (s o : Node) : FlagsOfMerge s.flags o.flags (leafRule s o).1.flags := by
  unfold leafRule
  split
  · exact ⟨_, .inl rfl, .inl (by rw [propagate_flags, setFlags_flags])⟩
  · exact ⟨_, .inr (.inr rfl), .inl (by rw [propagate_flags, setFlags_flags])⟩

theorem finishMerge_flags {sf : Flags} {sk : CompKind} {scs : List (Key × Node)} {o r : Node} {b : Bool}
    (h : finishMerge sf sk scs o = .ok (r, b)) : FlagsOfMerge sf o.flags r.flags := by
  unfold finishMerge at h
  split at h
  · split at h
    · cases h
    · rename_i r' same hp
      cases h
      exact ⟨_, .inr (.inl rfl), by rw [propagate_flags]; exact maybePromote_flags_cases hp⟩
  · split at h
    · cases h
    · rename_i r' same hp
      cases h
      exact ⟨_, .inl rfl, by rw [propagate_flags]; exact maybePromote_flags_cases hp⟩

theorem compMerge_flags (rec : Node → Node → Except Err (Node × Bool)) {sf : Flags} {sk : CompKind}
    {scs : List (Key × Node)} {o r : Node} {b : Bool} (h : compMerge rec sf sk scs o = .ok (r, b)) :
    FlagsOfMerge sf o.flags r.flags := by
  cases o with
  | leaf of lk =>
    simp only [compMerge, Except.ok.injEq] at h
    have e1 : r = (leafRule (.comp sf sk scs) (.leaf of lk)).1 := by rw [h]
    subst e1
    exact leafRule_flags (.comp sf sk scs) (.leaf of lk)
  | comp of ok ocs =>
    simp only [compMerge] at h
    split at h
    · split at h
      · split at h
        · cases h
        · split at h
          · cases h
          · rename_i res sameAsOther hp
            cases h
            exact ⟨_, .inr (.inr rfl), by rw [propagate_flags]; exact maybePromote_flags_cases hp⟩
      · split at h
        · cases h
        · exact finishMerge_flags h
    · split at h
      · cases h
      · exact finishMerge_flags h

theorem listMerge_flags (rec : Node → Node → Except Err (Node × Bool)) {sf : Flags} {sk : CompKind}
    {scs : List (Key × Node)} {o r : Node} {b : Bool} (h : listMerge rec sf sk scs o = .ok (r, b)) :
    FlagsOfMerge sf o.flags r.flags := by
  cases o with
  | leaf of lk => exact compMerge_flags rec (by simpa only [listMerge] using h)
  | comp of ok ocs =>
    simp only [listMerge] at h
    split at h
    · cases h
    · have := compMerge_flags rec h
      rwa [filterNode_flags] at this

theorem funcMerge_flags (rec : Node → Node → Except Err (Node × Bool)) {sf : Flags} {sk : CompKind} {f : String}
    {scs : List (Key × Node)} {o r : Node} {b : Bool} (h : funcMerge rec sf sk f scs o = .ok (r, b)) :
    FlagsOfMerge sf o.flags r.flags := by
  cases o with
  | leaf of lk =>
    simp only [funcMerge] at h
    split at h
    · split at h
      · split at h
        · cases h; exact ⟨_, .inr (.inl rfl), .inl (by rw [propagate_flags]; rfl)⟩
        · cases h; exact ⟨_, .inr (.inl rfl), .inl (by rw [propagate_flags]; rfl)⟩
      · cases h; exact ⟨_, .inl rfl, .inl (by rw [propagate_flags]; rfl)⟩
    · exact compMerge_flags rec h
  | comp of ok ocs =>
    simp only [funcMerge] at h
    split at h
    · exact compMerge_flags rec h
    · split at h
      · split at h
        · cases h; exact ⟨_, .inl rfl, .inl (by rw [propagate_flags]; rfl)⟩
        · exact compMerge_flags rec h
      · exact compMerge_flags rec h

/-- the flags of the node `on_merge` returns -/
theorem mergeF_flags : ∀ (fuel : Nat) (s o r : Node) (b : Bool), mergeF fuel s o = .ok (r, b) →
    FlagsOfMerge s.flags o.flags r.flags
  | 0, _, _, _, _, h => by simp [mergeF] at h
  | fuel + 1, s, o, r, b, h => by
    cases s with
    | leaf f k =>
      simp only [mergeF, Except.ok.injEq] at h
      have e1 : r = (leafRule (.leaf f k) o).1 := by rw [h]
      subst e1
      exact leafRule_flags _ _
    | comp sf sk scs =>
      show FlagsOfMerge sf o.flags r.flags
      cases sk with
      | dict => exact compMerge_flags _ (by simpa only [mergeF] using h)
      | call g => exact funcMerge_flags _ (by simpa only [mergeF] using h)
      | bind g => exact funcMerge_flags _ (by simpa only [mergeF] using h)
      | list => exact listMerge_flags _ (by simpa only [mergeF] using h)
      | append => exact listMerge_flags _ (by simpa only [mergeF] using h)
      | extend => exact listMerge_flags _ (by simpa only [mergeF] using h)
      | path x => exact listMerge_flags _ (by simpa only [mergeF] using h)
      | stream => exact listMerge_flags _ (by simpa only [mergeF] using h)

/-- a mark on flags that `_replace_self` / `_replace_other` take over from EITHER node, and that the
    inheritance of flags from a parent leaves alone -/
structure Absorb (mk : Flags → Bool) : Prop where
  ro : ∀ a b : Flags, mk a = true ∨ mk b = true → mk (replaceOtherFlags a b) = true
  rs : ∀ a b : Flags, mk a = true ∨ mk b = true → mk (replaceSelfFlags a b) = true
  upd : ∀ (kw : ChildKw) (f : Flags), mk (updFlags kw f) = mk f
  prio : ∀ (x : Option Int) (f : Flags), mk { f with prio := x } = mk f
  promo : ∀ (g : Flags), mk g = true → mk { g with safe := some false } = true

/-- an explicit `safe=False` -/
def markS (f : Flags) : Bool := f.safe == some false
/-- a source-level `safe=False` -/
def markD (f : Flags) : Bool := !f.dSafe

theorem absorb_markS : Absorb markS where
  ro := fun a b h => by
    simp only [markS, beq_iff_eq] at h ⊢
    exact mergeSafe_safe_false h
  rs := fun a b h => by
    simp only [markS, beq_iff_eq] at h ⊢
    exact mergeSafe_safe_false h
  upd := fun _ _ => rfl
  prio := fun _ _ => rfl
  promo := fun _ _ => rfl

theorem absorb_markD : Absorb markD where
  ro := fun a b h => by
    simp only [markD, Bool.not_eq_true'] at h
    rcases h with h | h <;> simp [markD, replaceOtherFlags, mergeSafe, h]
  rs := fun a b h => by
    simp only [markD, Bool.not_eq_true'] at h
    rcases h with h | h <;> simp [markD, replaceSelfFlags, mergeSafe, h]
  upd := fun _ _ => rfl
  prio := fun _ _ => rfl
  promo := fun _ h => h

theorem markS_unsafe {f : Flags} (h : markS f = true) : eSafe f = false := by
  simp only [markS, beq_iff_eq] at h; simp [eSafe, h]
theorem markD_unsafe {f : Flags} (h : markD f = true) : eSafe f = false := by
  simp only [markD, Bool.not_eq_true'] at h; simp [eSafe, h]

theorem flagsOfMerge_mark {mk : Flags → Bool} (hA : Absorb mk) {s o r : Flags} (h : FlagsOfMerge s o r)
    (hm : mk s = true ∨ mk o = true) : mk r = true := by
  obtain ⟨g, hg, hr⟩ := h
  have hgm : mk g = true := by
    rcases hg with rfl | rfl | rfl
    · exact hA.ro _ _ hm
    · exact hA.rs _ _ hm
    · exact hA.ro _ _ hm.symm
  rcases hr with rfl | rfl
  · exact hgm
  · exact hA.promo _ hgm

theorem mergeF_mark {mk : Flags → Bool} (hA : Absorb mk) {fuel : Nat} {s o r : Node} {b : Bool}
    (h : mergeF fuel s o = .ok (r, b)) (hm : mk s.flags = true ∨ mk o.flags = true) : mk r.flags = true :=
  flagsOfMerge_mark hA (mergeF_flags fuel s o r b h) hm

theorem merge_mark {mk : Flags → Bool} (hA : Absorb mk) {s o r : Node} (h : merge s o = .ok r)
    (hm : mk s.flags = true ∨ mk o.flags = true) : mk r.flags = true := by
  unfold merge at h
  split at h
  · cases h
  · rename_i r' b hm'
    cases h
    exact mergeF_mark hA hm' hm

/-! ### the pre-merge pass and the root -/

theorem removeNode_flags : ∀ (pa : Path) (root d root' : Node), removeNode root pa = some (d, root') →
    root'.flags = root.flags
  | [], root, d, root', hr => by simp [removeNode] at hr
  | _ :: _, .leaf f k, d, root', hr => by simp [removeNode] at hr
  | [key], .comp f k cs, d, root', hr => by
    simp only [removeNode] at hr
    split at hr
    · cases hr
    · split at hr
      · cases hr
      · simp only [Option.some.injEq, Prod.mk.injEq] at hr
        obtain ⟨_, rfl⟩ := hr; rfl
  | key :: k2 :: rest, .comp f k cs, d, root', hr => by
    simp only [removeNode] at hr
    split at hr
    · cases hr
    · split at hr
      · cases hr
      · simp only [Option.some.injEq, Prod.mk.injEq] at hr
        obtain ⟨_, rfl⟩ := hr; rfl

theorem setNodeAt_clear_flags (pa : Path) (root : Node) (cf : Flags) (ck : CompKind) (ccs : List (Key × Node))
    (hg : getNode root pa = some (.comp cf ck ccs)) : (setNodeAt root pa (.comp cf ck [])).flags = root.flags := by
  cases pa with
  | nil =>
    simp only [getNode, Option.some.injEq] at hg
    subst hg; rfl
  | cons key rest =>
    cases root with
    | leaf f k => rfl
    | comp f k cs =>
      simp only [setNodeAt]
      split <;> rfl

/-- the pre-merge pass hands back an accumulated tree with the same root flags -/
def PMRoot (pm : Node → Path → Option Node → PM) : Prop :=
  ∀ n path root r same into', pm n path (some root) = .ok (r, same, into') →
    ∃ root', into' = some root' ∧ root'.flags = root.flags

theorem premergeChildren_root {rec : Node → Path → Option Node → PM} (hrec : PMRoot rec) (path : Path) :
    ∀ (cs : List (Key × Node)) (root : Node) (cs' resets : List (Key × Node)) (into' : Option Node),
    premergeChildren rec path cs (some root) = .ok (cs', resets, into') →
    ∃ root', into' = some root' ∧ root'.flags = root.flags
  | [], root, cs', resets, into', h => by
    simp only [premergeChildren, Except.ok.injEq, Prod.mk.injEq] at h
    obtain ⟨_, _, rfl⟩ := h
    exact ⟨root, rfl, rfl⟩
  | (name, c) :: rest, root, cs', resets, into', h => by
    simp only [premergeChildren] at h
    split at h
    · cases h
    · rename_i c' same into1 hr
      obtain ⟨root1, rfl, e1⟩ := hrec _ _ _ _ _ _ hr
      split at h
      · cases h
      · rename_i cs1 resets1 into2 hrest
        obtain ⟨root2, e2, e3⟩ := premergeChildren_root hrec path rest root1 cs1 resets1 into2 hrest
        split at h <;>
          (simp only [Except.ok.injEq, Prod.mk.injEq] at h
           obtain ⟨_, _, rfl⟩ := h
           exact ⟨root2, e2, e3.trans e1⟩)

theorem premergeF_root : ∀ (fuel : Nat), PMRoot (premergeF fuel)
  | 0 => fun n path root r same into' h => by simp [premergeF] at h
  | fuel + 1 => fun n path root r same into' h => by
    have ih := premergeF_root fuel
    cases n with
    | leaf f lk =>
      cases lk with
      | prev x =>
        simp only [premergeF] at h
        split at h
        · rename_i root0 tp heq _
          cases heq
          split at h
          · cases h
          · rename_i d root' hr
            simp only [Except.ok.injEq, Prod.mk.injEq] at h
            obtain ⟨_, _, rfl⟩ := h
            exact ⟨root', rfl, removeNode_flags tp root d root' hr⟩
        · cases h
      | clear =>
        simp only [premergeF] at h
        split at h
        · rename_i cf ck ccs hg
          simp only [Except.ok.injEq, Prod.mk.injEq] at h
          obtain ⟨_, _, rfl⟩ := h
          exact ⟨_, rfl, setNodeAt_clear_flags path root cf ck ccs hg⟩
        · cases h
      | _ =>
        simp only [premergeF, Except.ok.injEq, Prod.mk.injEq] at h
        obtain ⟨_, _, rfl⟩ := h
        exact ⟨root, rfl, rfl⟩
    | comp f k cs =>
      cases k with
      | append =>
        simp only [premergeF] at h
        split at h
        · cases h
        · rename_i tf tk tcs root' hr
          split at h
          · simp only [Except.ok.injEq, Prod.mk.injEq] at h
            obtain ⟨_, _, rfl⟩ := h
            exact ⟨root', rfl, removeNode_flags path root _ root' hr⟩
          · cases h
        · cases h
      | extend =>
        simp only [premergeF] at h
        split at h
        · rename_i tf tk tcs hg
          split at h
          · split at h
            · cases h
            · rename_i d root' hr
              simp only [Except.ok.injEq, Prod.mk.injEq] at h
              obtain ⟨_, _, rfl⟩ := h
              exact ⟨root', rfl, removeNode_flags path root d root' hr⟩
          · simp only [Except.ok.injEq, Prod.mk.injEq] at h
            obtain ⟨_, _, rfl⟩ := h
            exact ⟨root, rfl, rfl⟩
        · simp only [Except.ok.injEq, Prod.mk.injEq] at h
          obtain ⟨_, _, rfl⟩ := h
          exact ⟨root, rfl, rfl⟩
      | stream =>
        simp only [premergeF] at h
        split at h
        · cases h
        · cases h
        · rename_i r0 hf
          split at h
          · cases h
          · rename_i r' same' into1 hp
            simp only [Except.ok.injEq, Prod.mk.injEq] at h
            obtain ⟨_, _, rfl⟩ := h
            exact ih _ _ _ _ _ _ hp
      | _ =>
        simp only [premergeF] at h
        split at h
        · cases h
        · rename_i cs' resets into1 hc
          split at h
          · cases h
          · simp only [Except.ok.injEq, Prod.mk.injEq] at h
            obtain ⟨_, _, rfl⟩ := h
            exact premergeChildren_root ih path cs root cs' resets _ hc

/-- a mapping stage keeps its own flags in the pre-merge pass -/
theorem premergeF_dict_flags {fuel : Nat} {n : Node} {path : Path} {into : Option Node} {r : Node} {same : Bool}
    {into' : Option Node} (hd : n.isDict = true) (h : premergeF fuel n path into = .ok (r, same, into')) :
    r.flags = n.flags := by
  cases fuel with
  | zero => simp [premergeF] at h
  | succ fuel =>
    cases n with
    | leaf f lk => simp [Node.isDict] at hd
    | comp f k cs =>
      cases k <;> simp [Node.isDict, CompKind.isDictFam] at hd <;>
        (simp only [premergeF] at h
         split at h
         · cases h
         · split at h
           · cases h
           · simp only [Except.ok.injEq, Prod.mk.injEq] at h
             obtain ⟨rfl, _, _⟩ := h
             rfl)

theorem flattenLoop_mark {mk : Flags → Bool} (hA : Absorb mk) {F : Nat} : ∀ (stages : List Node) (root r : Node),
    (∀ s, s ∈ stages → s.isDict = true) →
    flattenLoop (premergeF F) root stages = .ok r →
    (mk root.flags = true ∨ ∃ s, s ∈ stages ∧ mk s.flags = true) → mk r.flags = true
  | [], root, r, _, h, hm => by
    simp only [flattenLoop] at h; cases h
    rcases hm with hm | ⟨s, hs, _⟩
    · exact hm
    · cases hs
  | st :: rest, root, r, hd, h, hm => by
    simp only [flattenLoop] at h
    split at h
    · cases h
    · rename_i st' same into' hp
      obtain ⟨root', rfl, e1⟩ := premergeF_root F _ _ _ _ _ _ hp
      have e2 := premergeF_dict_flags (hd st (by simp)) hp
      simp only at h
      split at h
      · cases h
      · rename_i m hm'
        refine flattenLoop_mark hA rest m r (fun s hs => hd s (List.mem_cons_of_mem _ hs)) h ?_
        rcases hm with hm | ⟨s, hs, hms⟩
        · exact .inl (merge_mark hA hm' (.inl (by rw [e1]; exact hm)))
        · rcases List.mem_cons.1 hs with rfl | hs
          · exact .inl (merge_mark hA hm' (.inr (by rw [e2]; exact hms)))
          · exact .inr ⟨s, hs, hms⟩

/-- a mark `mergeSafe` absorbs, on the root of any stage, is on the root of the flattened tree -/
theorem flatten_root_mark {mk : Flags → Bool} (hA : Absorb mk) {stages : List Node} {r : Node}
    (h : flatten stages = .ok r) (hm : ∃ s, s ∈ stages ∧ mk s.flags = true) : mk r.flags = true := by
  unfold flatten at h
  cases stages with
  | nil => simp [flattenWith] at h
  | cons s0 rest =>
    simp only [flattenWith] at h
    split at h
    · cases h
    · rename_i hall
      have hd : ∀ s, s ∈ s0 :: rest → s.isDict = true := by
        intro s hs
        have : (s0 :: rest).all Node.isDict = true := by simpa using hall
        exact List.all_eq_true.1 this s hs
      split at h
      · cases h
      · rename_i r0 same into' hp
        have e0 := premergeF_dict_flags (hd s0 (by simp)) hp
        split at h
        · cases h
        · refine flattenLoop_mark hA rest r0 r (fun s hs => hd s (List.mem_cons_of_mem _ hs)) h ?_
          obtain ⟨s, hs, hms⟩ := hm
          rcases List.mem_cons.1 hs with rfl | hs
          · exact .inl (by rw [e0]; exact hms)
          · exact .inr ⟨s, hs, hms⟩

end AY.C07P
