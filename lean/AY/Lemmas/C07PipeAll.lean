/-
  AY.Lemmas.C07PipeAll — node-wise invariants of the whole pipeline (helpers for AY.Props.C07_Pipeline).

  `allN p q n`: every node of `n` has flags satisfying `p` and (for containers) a class satisfying `q`.
  If `p` is kept by every flag update the library performs on a node that STAYS in the tree
  (`Stable`: inheriting flags from a parent, priority pushed down, `_replace_self` / `_replace_other`
  on the surviving node — whatever the other node was) then `allN p q` is kept by every child mutator,
  by `on_merge` (`mergeF`, any fuel) and — when the nodes the builder creates itself (`ConfigList(self)`)
  satisfy it too (`FreshOK`) — by the pre-merge operators and the fold `Builder.flatten`.

  The proofs follow AY/Lemmas/C15WholeNN.lean / C15WholeFlatten.lean (the same walk for one fixed
  predicate, `allow_new`).
-/
import AY.Lemmas.C15WholeCons
import AY.Model.Construct
set_option linter.unusedVariables false
namespace AY.C07P
open AY.C15W (c19_mem_aerase c19_alookup_mem getChild_mem c19_mem_renumFrom)

mutual
/-- every node of the tree satisfies `p` (flags) and `q` (container class) -/
def allN (p : Flags → Bool) (q : CompKind → Bool) : Node → Bool
  | .leaf f _ => p f
  | .comp f k cs => p f && q k && allL p q cs
def allL (p : Flags → Bool) (q : CompKind → Bool) : List (Key × Node) → Bool
  | [] => true
  | (_, c) :: rest => allN p q c && allL p q rest
end

/-- `p` survives every flag update of a node that stays in the tree, `q` a change of the function name -/
structure Stable (p : Flags → Bool) (q : CompKind → Bool) : Prop where
  upd : ∀ (kw : ChildKw) (f : Flags), p f = true → p (updFlags kw f) = true
  prio : ∀ (x : Int) (f : Flags), p f = true → p { f with prio := some x } = true
  ro : ∀ (w l : Flags), p w = true → p (replaceOtherFlags w l) = true
  rs : ∀ (w l : Flags), p w = true → p (replaceSelfFlags w l) = true
  promo : ∀ (w l : Flags), p w = true → p (promotedFlags w l) = true
  fn : ∀ (k : CompKind) (g : String), q k = true → q (k.setFunc g) = true

/-- the nodes created while flattening (`ConfigList(self)`) satisfy the predicates -/
structure FreshOK (p : Flags → Bool) (q : CompKind → Bool) : Prop where
  flags : p freshFlags = true
  kind : q .list = true

variable {p : Flags → Bool} {q : CompKind → Bool}

theorem allL_cons (key : Key) (c : Node) (rest : List (Key × Node)) :
    allL p q ((key, c) :: rest) = true ↔ allN p q c = true ∧ allL p q rest = true := by
  simp [allL]

theorem allL_iff : ∀ (cs : List (Key × Node)), allL p q cs = true ↔ ∀ kv, kv ∈ cs → allN p q kv.2 = true
  | [] => by simp [allL]
  | (key, c) :: rest => by
    rw [allL_cons, allL_iff rest]
    constructor
    · intro h kv hm
      rcases List.mem_cons.1 hm with rfl | hm
      · exact h.1
      · exact h.2 kv hm
    · intro h
      exact ⟨h (key, c) (by simp), fun kv hm => h kv (List.mem_cons_of_mem _ hm)⟩

theorem allN_comp (f : Flags) (k : CompKind) (cs : List (Key × Node)) :
    allN p q (.comp f k cs) = true ↔ p f = true ∧ q k = true ∧ allL p q cs = true := by
  simp [allN, and_assoc]

theorem allN_flags {n : Node} (h : allN p q n = true) : p n.flags = true := by
  cases n with
  | leaf f k => exact h
  | comp f k cs => exact ((allN_comp f k cs).1 h).1

theorem allN_children {n : Node} (h : allN p q n = true) : allL p q n.children = true := by
  cases n with
  | leaf f k => rfl
  | comp f k cs => exact ((allN_comp f k cs).1 h).2.2

theorem allN_setFlags {n : Node} {f : Flags} (hf : p f = true) (h : allN p q n = true) :
    allN p q (n.setFlags f) = true := by
  cases n with
  | leaf g k => exact hf
  | comp g k cs =>
    have h' := (allN_comp g k cs).1 h
    rw [Node.setFlags, allN_comp]; exact ⟨hf, h'.2⟩

theorem allL_nil : allL p q [] = true := rfl

mutual
/-- a weaker predicate holds wherever a stronger one does -/
theorem allN_mono {p' : Flags → Bool} {q' : CompKind → Bool} (hp : ∀ f, p f = true → p' f = true)
    (hq : ∀ k, q k = true → q' k = true) : ∀ n : Node, allN p q n = true → allN p' q' n = true
  | .leaf f k, h => hp f h
  | .comp f k cs, h => by
    have h' := (allN_comp f k cs).1 h
    rw [allN_comp]
    exact ⟨hp f h'.1, hq k h'.2.1, allL_mono hp hq cs h'.2.2⟩
theorem allL_mono {p' : Flags → Bool} {q' : CompKind → Bool} (hp : ∀ f, p f = true → p' f = true)
    (hq : ∀ k, q k = true → q' k = true) : ∀ cs : List (Key × Node), allL p q cs = true → allL p' q' cs = true
  | [], _ => rfl
  | (key, c) :: rest, h => by
    rw [allL_cons] at h ⊢
    exact ⟨allN_mono hp hq c h.1, allL_mono hp hq rest h.2⟩
end

/-! ### flag bookkeeping -/

mutual
theorem applyKw_all (hS : Stable p q) (kw : ChildKw) : ∀ (c : Node), allN p q c = true → allN p q (applyKw kw c) = true
  | .leaf f k, h => by simp only [applyKw, allN]; exact hS.upd kw f h
  | .comp f k cs, h => by
    have h' := (allN_comp f k cs).1 h
    simp only [applyKw]
    split
    · have hf := hS.upd kw f h'.1
      split
      · rw [allN_comp]; exact ⟨hf, h'.2⟩
      · rename_i kw' hk'
        rw [allN_comp]; exact ⟨hf, h'.2.1, applyKwList_all hS kw' cs h'.2.2⟩
    · exact h
theorem applyKwList_all (hS : Stable p q) (kw : ChildKw) : ∀ (cs : List (Key × Node)), allL p q cs = true →
    allL p q (applyKwList kw cs) = true
  | [], _ => rfl
  | (key, c) :: rest, h => by
    rw [allL_cons] at h
    simp only [applyKwList]
    rw [allL_cons]
    exact ⟨applyKw_all hS kw c h.1, applyKwList_all hS kw rest h.2⟩
end

theorem propagate_all (hS : Stable p q) {n : Node} (h : allN p q n = true) : allN p q (propagate n) = true := by
  cases n with
  | leaf f k => exact h
  | comp f k cs =>
    have h' := (allN_comp f k cs).1 h
    simp only [propagate]
    split
    · exact h
    · rename_i kw hk
      rw [allN_comp]; exact ⟨h'.1, h'.2.1, applyKwList_all hS kw cs h'.2.2⟩

mutual
theorem setPrioAll_all (hS : Stable p q) (x : Int) : ∀ (n : Node), allN p q n = true → allN p q (setPrioAll x n) = true
  | .leaf f k, h => by simp only [setPrioAll, allN]; exact hS.prio x f h
  | .comp f k cs, h => by
    have h' := (allN_comp f k cs).1 h
    simp only [setPrioAll]
    rw [allN_comp]
    exact ⟨hS.prio x f h'.1, h'.2.1, setPrioAllList_all hS x cs h'.2.2⟩
theorem setPrioAllList_all (hS : Stable p q) (x : Int) : ∀ (cs : List (Key × Node)), allL p q cs = true →
    allL p q (setPrioAllList x cs) = true
  | [], _ => rfl
  | (key, c) :: rest, h => by
    rw [allL_cons] at h
    simp only [setPrioAllList]
    rw [allL_cons]
    exact ⟨setPrioAll_all hS x c h.1, setPrioAllList_all hS x rest h.2⟩
end

theorem inheritInto_all (hS : Stable p q) (p? : Option Int) (kw? : Option ChildKw)
    {n : Node} (h : allN p q n = true) : allN p q (inheritInto p? kw? n) = true := by
  have h1 : allN p q (match p? with | some x => setPrioAll x n | none => n) = true := by
    cases p? with
    | none => exact h
    | some x => exact setPrioAll_all hS x n h
  simp only [inheritInto]
  cases kw? with
  | none => exact h1
  | some kw => exact propagate_all hS (allN_setFlags (hS.upd kw _ (allN_flags h1)) h1)

theorem adopt_all (hS : Stable p q) (pf : Flags) (pk : CompKind) {v : Node} (h : allN p q v = true) :
    allN p q (adopt pf pk v) = true :=
  propagate_all hS (inheritInto_all hS none _ h)

/-! ### the child mutators -/

theorem aset_all {key : Key} {n : Node} (hn : allN p q n = true) : ∀ {acc : List (Key × Node)}, allL p q acc = true →
    allL p q (aset key n acc) = true
  | [], _ => by simp only [aset]; rw [allL_cons]; exact ⟨hn, rfl⟩
  | (k', v') :: acc, h => by
    rw [allL_cons] at h
    simp only [aset]
    split
    · rw [allL_cons]; exact ⟨hn, h.2⟩
    · rw [allL_cons]; exact ⟨h.1, aset_all hn h.2⟩

theorem allL_snoc {key : Key} {n : Node} (hn : allN p q n = true) {acc : List (Key × Node)} (h : allL p q acc = true) :
    allL p q (acc ++ [(key, n)]) = true := by
  rw [allL_iff] at h ⊢
  intro kv hm
  rcases List.mem_append.1 hm with hm | hm
  · exact h kv hm
  · simp only [List.mem_singleton] at hm; subst hm; exact hn

theorem aerase_all (k : Key) {cs : List (Key × Node)} (h : allL p q cs = true) : allL p q (aerase k cs) = true := by
  rw [allL_iff] at h ⊢
  exact fun kv hm => h kv (c19_mem_aerase hm)

theorem alookup_all {key : Key} {c : Node} {cs : List (Key × Node)} (h : allL p q cs = true)
    (hl : alookup key cs = some c) : allN p q c = true :=
  (allL_iff cs).1 h (key, c) (c19_alookup_mem hl)

theorem getChild_all {sk : CompKind} {name : Key} {acc : List (Key × Node)} {child : Node}
    (hacc : allL p q acc = true) (h : getChild sk name acc = some child) : allN p q child = true := by
  obtain ⟨k, hm⟩ := getChild_mem h
  exact (allL_iff acc).1 hacc (k, child) hm

theorem setChild_all (hS : Stable p q) {pf : Flags} {pk : CompKind} {name : Key} {v : Node}
    {cs cs' : List (Key × Node)} (hv : allN p q v = true) (hcs : allL p q cs = true)
    (h : setChild pf pk name v cs = .ok cs') : allL p q cs' = true := by
  have ha := adopt_all hS pf pk hv
  unfold setChild at h
  split at h
  · cases h; exact aset_all ha hcs
  · split at h
    · cases h
    · cases h; exact aset_all ha hcs

theorem listDelAt_all (hS : Stable p q) (pf : Flags) (pk : CompKind) (i : Nat) {cs : List (Key × Node)}
    (hcs : allL p q cs = true) : allL p q (listDelAt pf pk i cs) = true := by
  rw [allL_iff] at hcs ⊢
  intro kv hm
  have hm2 := c19_mem_renumFrom hm
  rcases List.mem_append.1 hm2 with h1 | h1
  · obtain ⟨x, hx, e⟩ := List.mem_map.1 h1
    rw [← e]
    exact hcs x (List.mem_of_mem_take hx)
  · obtain ⟨x, hx, e⟩ := List.mem_map.1 h1
    rw [← e]
    exact adopt_all hS pf pk (hcs x (List.mem_of_mem_drop hx))

theorem removeChild_all (hS : Stable p q) {pf : Flags} {pk : CompKind} {name : Key}
    {cs cs' : List (Key × Node)} (hcs : allL p q cs = true) (h : removeChild pf pk name cs = some cs') :
    allL p q cs' = true := by
  unfold removeChild at h
  split at h
  · split at h
    · cases h; exact aerase_all _ hcs
    · cases h
  · split at h
    · cases h
    · cases h; exact listDelAt_all hS _ _ _ hcs

theorem removeChildE_all (hS : Stable p q) {pf : Flags} {pk : CompKind} {name : Key}
    {cs cs' : List (Key × Node)} (hcs : allL p q cs = true) (h : removeChildE pf pk name cs = .ok cs') :
    allL p q cs' = true := by
  unfold removeChildE at h
  split at h
  · rename_i cs'' hr; cases h; exact removeChild_all hS hcs hr
  · cases h

theorem replaceChild_all (pk : CompKind) (key : Key) {v : Node} {cs : List (Key × Node)}
    (hv : allN p q v = true) (hcs : allL p q cs = true) : allL p q (replaceChild pk key v cs) = true := by
  unfold replaceChild
  split
  · exact aset_all hv hcs
  · split
    · exact aset_all hv hcs
    · exact hcs

theorem adoptAll_all (hS : Stable p q) (pf : Flags) (pk : CompKind) : ∀ (items acc cs' : List (Key × Node)),
    allL p q items = true → allL p q acc = true → adoptAll pf pk items acc = .ok cs' → allL p q cs' = true
  | [], acc, cs', _, hacc, h => by simp only [adoptAll] at h; cases h; exact hacc
  | (k, v) :: rest, acc, cs', hi, hacc, h => by
    rw [allL_cons] at hi
    simp only [adoptAll] at h
    split at h
    · cases h
    · rename_i acc' hs
      exact adoptAll_all hS pf pk rest acc' cs' hi.2 (setChild_all hS hi.1 hacc hs) h

theorem removeMany_all (hS : Stable p q) (pf : Flags) (pk : CompKind) :
    ∀ (names : List Key) (cs : List (Key × Node)), allL p q cs = true → allL p q (removeMany pf pk names cs) = true
  | [], cs, h => by simpa [removeMany] using h
  | nm :: rest, cs, h => by
    simp only [removeMany]
    split
    · rename_i cs' hr
      exact removeMany_all hS pf pk rest cs' (removeChild_all hS h hr)
    · exact removeMany_all hS pf pk rest cs h

mutual
theorem filterNode_all (hS : Stable p q) (cond : Path → Node → Bool) : ∀ (pre : Path) (n : Node), allN p q n = true →
    allN p q (filterNode cond pre n).1 = true
  | _, .leaf f k, h => h
  | pre, .comp f k cs, h => by
    have h' := (allN_comp f k cs).1 h
    simp only [filterNode]
    rw [allN_comp]
    exact ⟨h'.1, h'.2.1, removeMany_all hS _ _ _ _ (filterList_all hS cond pre cs h'.2.2)⟩
theorem filterList_all (hS : Stable p q) (cond : Path → Node → Bool) : ∀ (pre : Path) (cs : List (Key × Node)),
    allL p q cs = true → allL p q (dropMarks (filterList cond pre cs).1) = true
  | _, [], _ => rfl
  | pre, (name, child) :: rest, h => by
    rw [allL_cons] at h
    simp only [filterList, dropMarks]
    rw [allL_cons]
    exact ⟨filterNode_all hS cond (pre ++ [name]) child h.1, filterList_all hS cond pre rest h.2⟩
end

/-! ### the merge algebra -/

theorem leafRule_all (hS : Stable p q) {s o : Node} (hs : allN p q s = true) (ho : allN p q o = true) :
    allN p q (leafRule s o).1 = true := by
  unfold leafRule
  split
  · exact propagate_all hS (allN_setFlags (hS.ro _ _ (allN_flags hs)) hs)
  · exact propagate_all hS (allN_setFlags (hS.ro _ _ (allN_flags ho)) ho)

theorem maybePromote_all (hS : Stable p q) {sf : Flags} {sk : CompKind} {scs : List (Key × Node)} {o r : Node} {b : Bool}
    (hsf : p sf = true) (hsk : q sk = true) (hscs : allL p q scs = true) (ho : allN p q o = true)
    (h : maybePromote sf sk scs o = .ok (r, b)) : allN p q r = true := by
  unfold maybePromote at h
  split at h
  · cases h; rw [allN_comp]; exact ⟨hsf, hsk, hscs⟩
  · rename_i of ok ocs
    have hok : q ok = true := ((allN_comp of ok ocs).1 ho).2.1
    repeat' split at h
    all_goals first
      | (cases h; rw [allN_comp]; exact ⟨hsf, hsk, hscs⟩)
      | (rename_i cs' ha; cases h; rw [allN_comp]; exact ⟨hS.promo _ _ hsf, hok, adoptAll_all hS _ _ _ _ _ hscs allL_nil ha⟩)
      | cases h

theorem finishMerge_all (hS : Stable p q) {sf : Flags} {sk : CompKind} {scs : List (Key × Node)} {o r : Node} {b : Bool}
    (hsf : p sf = true) (hsk : q sk = true) (hscs : allL p q scs = true) (ho : allN p q o = true)
    (h : finishMerge sf sk scs o = .ok (r, b)) : allN p q r = true := by
  unfold finishMerge at h
  split at h
  · split at h
    · cases h
    · rename_i r' same hp; cases h
      exact propagate_all hS (maybePromote_all hS (hS.rs _ _ hsf) hsk hscs ho hp)
  · split at h
    · cases h
    · rename_i r' same hp; cases h
      exact propagate_all hS (maybePromote_all hS (hS.ro _ _ hsf) hsk hscs ho hp)

/-- what the loop needs from the recursive merge -/
def RecAll (p : Flags → Bool) (q : CompKind → Bool) (rec : Node → Node → Except Err (Node × Bool)) : Prop :=
  ∀ a b r s, allN p q a = true → allN p q b = true → rec a b = .ok (r, s) → allN p q r = true

theorem mergeStep_all (hS : Stable p q) {exc : List Path} {rec : Node → Node → Except Err (Node × Bool)}
    (hrec : RecAll p q rec) {sf : Flags} {sk : CompKind} {acc acc' : List (Key × Node)} {kv : Key × Node}
    (hacc : allL p q acc = true) (hkv : allN p q kv.2 = true) (h : mergeStep rec sf sk exc acc kv = .ok acc') :
    allL p q acc' = true := by
  unfold mergeStep at h
  split at h
  · split at h
    · cases h
    · exact setChild_all hS hkv hacc h
  · rename_i child hg
    have hchild := getChild_all hacc hg
    split at h
    · cases h
    · rename_i nw same hr
      have hnw := hrec _ _ _ _ hchild hkv hr
      split at h
      · split at h
        · exact removeChildE_all hS hacc h
        · split at h
          · cases h; exact replaceChild_all _ _ hnw hacc
          · exact setChild_all hS hnw hacc h
      · split at h
        · cases h; exact replaceChild_all _ _ hnw hacc
        · split at h
          · cases h
          · split at h
            · exact removeChildE_all hS hacc h
            · exact setChild_all hS hnw hacc h

theorem mergeLoop_all (hS : Stable p q) {exc : List Path} {rec : Node → Node → Except Err (Node × Bool)}
    (hrec : RecAll p q rec) (sf : Flags) (sk : CompKind) : ∀ (acc ocs acc' : List (Key × Node)), allL p q acc = true →
    allL p q ocs = true → mergeLoop rec sf sk exc acc ocs = .ok acc' → allL p q acc' = true
  | acc, [], acc', hacc, _, h => by simp only [mergeLoop] at h; cases h; exact hacc
  | acc, kv :: rest, acc', hacc, ho, h => by
    obtain ⟨k, v⟩ := kv
    rw [allL_cons] at ho
    simp only [mergeLoop] at h
    split at h
    · cases h
    · rename_i acc1 hs
      exact mergeLoop_all hS hrec sf sk acc1 rest acc' (mergeStep_all hS hrec hacc ho.1 hs) ho.2 h

theorem compMerge_all (hS : Stable p q) {rec : Node → Node → Except Err (Node × Bool)} (hrec : RecAll p q rec)
    {sf : Flags} {sk : CompKind} {scs : List (Key × Node)} {o r : Node} {b : Bool} (hsf : p sf = true)
    (hsk : q sk = true) (hscs : allL p q scs = true) (ho : allN p q o = true)
    (h : compMerge rec sf sk scs o = .ok (r, b)) : allN p q r = true := by
  have hs : allN p q (.comp sf sk scs) = true := (allN_comp sf sk scs).2 ⟨hsf, hsk, hscs⟩
  cases o with
  | leaf of lk =>
    simp only [compMerge, Except.ok.injEq] at h
    have e1 : r = (leafRule (.comp sf sk scs) (.leaf of lk)).1 := by rw [h]
    subst e1
    exact leafRule_all hS hs ho
  | comp of ok ocs =>
    have ho' := (allN_comp of ok ocs).1 ho
    have hfil := filterNode_all hS (maybeKeep (.comp of ok ocs)) [] _ hs
    simp only [compMerge] at h
    split at h
    · split at h
      · split at h
        · cases h
        · split at h
          · cases h
          · rename_i res sameAsOther hp
            cases h
            exact propagate_all hS (maybePromote_all hS (hS.ro _ _ ho'.1) ho'.2.1 ho'.2.2 hfil hp)
      · split at h
        · cases h
        · rename_i scs' hl
          exact finishMerge_all hS hsf hsk (mergeLoop_all hS hrec sf sk _ ocs scs' (allN_children hfil) ho'.2.2 hl) ho h
    · split at h
      · cases h
      · rename_i scs' hl
        exact finishMerge_all hS hsf hsk (mergeLoop_all hS hrec sf sk _ ocs scs' hscs ho'.2.2 hl) ho h

theorem listMerge_all (hS : Stable p q) {rec : Node → Node → Except Err (Node × Bool)} (hrec : RecAll p q rec)
    {sf : Flags} {sk : CompKind} {scs : List (Key × Node)} {o r : Node} {b : Bool} (hsf : p sf = true)
    (hsk : q sk = true) (hscs : allL p q scs = true) (ho : allN p q o = true)
    (h : listMerge rec sf sk scs o = .ok (r, b)) : allN p q r = true := by
  cases o with
  | leaf of lk => exact compMerge_all hS hrec hsf hsk hscs ho (by simpa only [listMerge] using h)
  | comp of ok ocs =>
    simp only [listMerge] at h
    split at h
    · cases h
    · exact compMerge_all hS hrec hsf hsk hscs (filterNode_all hS _ _ _ ho) h

theorem funcMerge_all (hS : Stable p q) {rec : Node → Node → Except Err (Node × Bool)} (hrec : RecAll p q rec)
    {sf : Flags} {sk : CompKind} {f : String} {scs : List (Key × Node)} {o r : Node} {b : Bool} (hsf : p sf = true)
    (hsk : q sk = true) (hscs : allL p q scs = true) (ho : allN p q o = true)
    (h : funcMerge rec sf sk f scs o = .ok (r, b)) : allN p q r = true := by
  have hSf := hS.rs sf o.flags hsf
  have hOf := hS.ro sf o.flags hsf
  cases o with
  | leaf of lk =>
    simp only [Node.flags] at hSf hOf
    simp only [funcMerge] at h
    split at h
    · split at h
      · split at h
        · cases h; exact propagate_all hS ((allN_comp _ _ _).2 ⟨hSf, hS.fn _ _ hsk, allL_nil⟩)
        · cases h; exact propagate_all hS ((allN_comp _ _ _).2 ⟨hSf, hsk, hscs⟩)
      · cases h; exact propagate_all hS ((allN_comp _ _ _).2 ⟨hOf, hsk, hscs⟩)
    · exact compMerge_all hS hrec hsf hsk hscs ho h
  | comp of ok ocs =>
    simp only [Node.flags] at hSf hOf
    simp only [funcMerge] at h
    split at h
    · exact compMerge_all hS hrec hsf hsk hscs ho h
    · split at h
      · split at h
        · cases h; exact propagate_all hS ((allN_comp _ _ _).2 ⟨hOf, hsk, hscs⟩)
        · refine compMerge_all hS hrec hsf (hS.fn _ _ hsk) ?_ ho h
          split
          · exact allL_nil
          · exact hscs
      · exact compMerge_all hS hrec hsf hsk hscs ho h

/-- `on_merge` keeps a stable node-wise predicate, at every fuel -/
theorem mergeF_all (hS : Stable p q) : ∀ (fuel : Nat), RecAll p q (mergeF fuel)
  | 0 => fun a b r s _ _ h => by simp [mergeF] at h
  | fuel + 1 => fun a b r s ha hb h => by
    have ih := mergeF_all hS fuel
    cases a with
    | leaf f k =>
      simp only [mergeF, Except.ok.injEq] at h
      have e1 : r = (leafRule (.leaf f k) b).1 := by rw [h]
      subst e1
      exact leafRule_all hS ha hb
    | comp sf sk scs =>
      have ha' := (allN_comp sf sk scs).1 ha
      cases sk with
      | dict => exact compMerge_all hS ih ha'.1 ha'.2.1 ha'.2.2 hb (by simpa only [mergeF] using h)
      | call g => exact funcMerge_all hS ih ha'.1 ha'.2.1 ha'.2.2 hb (by simpa only [mergeF] using h)
      | bind g => exact funcMerge_all hS ih ha'.1 ha'.2.1 ha'.2.2 hb (by simpa only [mergeF] using h)
      | list => exact listMerge_all hS ih ha'.1 ha'.2.1 ha'.2.2 hb (by simpa only [mergeF] using h)
      | append => exact listMerge_all hS ih ha'.1 ha'.2.1 ha'.2.2 hb (by simpa only [mergeF] using h)
      | extend => exact listMerge_all hS ih ha'.1 ha'.2.1 ha'.2.2 hb (by simpa only [mergeF] using h)
      | path x => exact listMerge_all hS ih ha'.1 ha'.2.1 ha'.2.2 hb (by simpa only [mergeF] using h)
      | stream => exact listMerge_all hS ih ha'.1 ha'.2.1 ha'.2.2 hb (by simpa only [mergeF] using h)

theorem merge_all (hS : Stable p q) {a b m : Node} (ha : allN p q a = true) (hb : allN p q b = true)
    (h : merge a b = .ok m) : allN p q m = true := by
  unfold merge at h
  split at h
  · cases h
  · rename_i r s hm
    cases h
    exact mergeF_all hS _ a b _ s ha hb hm

/-! ### the pre-merge pass and the fold -/

theorem getNode_all : ∀ (pa : Path) (root n : Node), allN p q root = true → getNode root pa = some n → allN p q n = true
  | [], root, n, h, hg => by simp only [getNode, Option.some.injEq] at hg; subst hg; exact h
  | key :: rest, .leaf f k, n, _, hg => by simp [getNode] at hg
  | key :: rest, .comp f k cs, n, h, hg => by
    have h' := (allN_comp f k cs).1 h
    simp only [getNode] at hg
    split at hg
    · cases hg
    · rename_i c hl
      exact getNode_all rest c n (alookup_all h'.2.2 hl) hg

theorem setNodeAt_all : ∀ (pa : Path) (root v : Node), allN p q root = true → allN p q v = true →
    allN p q (setNodeAt root pa v) = true
  | [], root, v, _, hv => by simpa [setNodeAt] using hv
  | key :: rest, .leaf f k, v, h, _ => by simpa [setNodeAt] using h
  | key :: rest, .comp f k cs, v, h, hv => by
    have h' := (allN_comp f k cs).1 h
    simp only [setNodeAt]
    split
    · exact h
    · rename_i c hl
      rw [allN_comp]
      exact ⟨h'.1, h'.2.1, aset_all (setNodeAt_all rest c v (alookup_all h'.2.2 hl) hv) h'.2.2⟩

theorem removeNode_all (hS : Stable p q) : ∀ (pa : Path) (root d root' : Node), allN p q root = true →
    removeNode root pa = some (d, root') → allN p q d = true ∧ allN p q root' = true
  | [], root, d, root', _, hr => by simp [removeNode] at hr
  | _ :: _, .leaf f k, d, root', _, hr => by simp [removeNode] at hr
  | [key], .comp f k cs, d, root', h, hr => by
    have h' := (allN_comp f k cs).1 h
    simp only [removeNode] at hr
    split at hr
    · cases hr
    · rename_i c hl
      split at hr
      · cases hr
      · rename_i cs' hrm
        simp only [Option.some.injEq, Prod.mk.injEq] at hr
        obtain ⟨rfl, rfl⟩ := hr
        exact ⟨alookup_all h'.2.2 hl, (allN_comp _ _ _).2 ⟨h'.1, h'.2.1, removeChild_all hS h'.2.2 hrm⟩⟩
  | key :: k2 :: rest, .comp f k cs, d, root', h, hr => by
    have h' := (allN_comp f k cs).1 h
    simp only [removeNode] at hr
    split at hr
    · cases hr
    · rename_i c hl
      split at hr
      · cases hr
      · rename_i d' c' hrec
        simp only [Option.some.injEq, Prod.mk.injEq] at hr
        obtain ⟨rfl, rfl⟩ := hr
        have ih := removeNode_all hS (k2 :: rest) c d' c' (alookup_all h'.2.2 hl) hrec
        exact ⟨ih.1, (allN_comp _ _ _).2 ⟨h'.1, h'.2.1, aset_all ih.2 h'.2.2⟩⟩

theorem allL_map_snd {cs : List (Key × Node)} (h : allL p q cs = true) : ∀ v, v ∈ cs.map (·.2) → allN p q v = true := by
  intro v hv
  obtain ⟨x, hx, rfl⟩ := List.mem_map.1 hv
  exact (allL_iff cs).1 h x hx

theorem newPlainList_all (hS : Stable p q) (hF : FreshOK p q) (f : Flags) {vals : List Node}
    (h : ∀ v, v ∈ vals → allN p q v = true) : allN p q (newPlainList f vals) = true := by
  simp only [newPlainList]
  apply propagate_all hS
  rw [allN_comp]
  refine ⟨hS.ro _ _ hF.flags, hF.kind, ?_⟩
  rw [allL_iff]
  intro kv hm
  have hm2 := c19_mem_renumFrom hm
  obtain ⟨x, hx, e⟩ := List.mem_map.1 hm2
  rw [← e]
  exact inheritInto_all hS none _ (h x hx)

theorem extendList_all (hS : Stable p q) (f : Flags) (k : CompKind) : ∀ (vals : List Node) (cs : List (Key × Node)),
    (∀ v, v ∈ vals → allN p q v = true) → allL p q cs = true → allL p q (extendList f k cs vals) = true
  | [], cs, _, h => by simpa [extendList] using h
  | v :: rest, cs, hv, h => by
    simp only [extendList]
    exact extendList_all hS f k rest _ (fun w hw => hv w (List.mem_cons_of_mem _ hw))
      (allL_snoc (adopt_all hS f k (hv v (by simp))) h)

theorem applyResets_all (hS : Stable p q) (pf : Flags) (pk : CompKind) : ∀ (resets cs cs' : List (Key × Node)),
    allL p q resets = true → allL p q cs = true → applyResets pf pk resets cs = .ok cs' → allL p q cs' = true
  | [], cs, cs', _, hcs, h => by simp only [applyResets] at h; cases h; exact hcs
  | (k, v) :: rest, cs, cs', hr, hcs, h => by
    rw [allL_cons] at hr
    simp only [applyResets] at h
    split at h
    · cases h
    · rename_i cs1 hs
      exact applyResets_all hS pf pk rest cs1 cs' hr.2 (setChild_all hS hr.1 hcs hs) h

def IntoAll (p : Flags → Bool) (q : CompKind → Bool) (into : Option Node) : Prop :=
  ∀ root, into = some root → allN p q root = true

theorem intoAll_none : IntoAll p q none := fun _ e => by cases e
theorem intoAll_some {root : Node} (h : allN p q root = true) : IntoAll p q (some root) :=
  fun _ e => by cases e; exact h

def PMAll (p : Flags → Bool) (q : CompKind → Bool) (pm : Node → Path → Option Node → PM) : Prop :=
  ∀ n path into r same into', allN p q n = true → IntoAll p q into → pm n path into = .ok (r, same, into') →
    allN p q r = true ∧ IntoAll p q into'

theorem premergeChildren_all {rec : Node → Path → Option Node → PM} (hrec : PMAll p q rec) (path : Path) :
    ∀ (cs : List (Key × Node)) (into : Option Node) (cs' resets : List (Key × Node)) (into' : Option Node),
    allL p q cs = true → IntoAll p q into → premergeChildren rec path cs into = .ok (cs', resets, into') →
    allL p q cs' = true ∧ allL p q resets = true ∧ IntoAll p q into'
  | [], into, cs', resets, into', _, hi, h => by
    simp only [premergeChildren, Except.ok.injEq, Prod.mk.injEq] at h
    obtain ⟨rfl, rfl, rfl⟩ := h
    exact ⟨rfl, rfl, hi⟩
  | (name, c) :: rest, into, cs', resets, into', hcs, hi, h => by
    rw [allL_cons] at hcs
    simp only [premergeChildren] at h
    split at h
    · cases h
    · rename_i c' same into1 hr
      have h1 := hrec _ _ _ _ _ _ hcs.1 hi hr
      split at h
      · cases h
      · rename_i cs1 resets1 into2 hrest
        have ih := premergeChildren_all hrec path rest into1 cs1 resets1 into2 hcs.2 h1.2 hrest
        split at h
        · simp only [Except.ok.injEq, Prod.mk.injEq] at h
          obtain ⟨rfl, rfl, rfl⟩ := h
          exact ⟨(allL_cons _ _ _).2 ⟨h1.1, ih.1⟩, ih.2.1, ih.2.2⟩
        · simp only [Except.ok.injEq, Prod.mk.injEq] at h
          obtain ⟨rfl, rfl, rfl⟩ := h
          exact ⟨(allL_cons _ _ _).2 ⟨hcs.1, ih.1⟩, (allL_cons _ _ _).2 ⟨h1.1, ih.2.1⟩, ih.2.2⟩

theorem flattenLoop_all (hS : Stable p q) {pm : Node → Path → Option Node → PM} (hpm : PMAll p q pm) :
    ∀ (stages : List Node) (root r : Node), allN p q root = true →
    (∀ s, s ∈ stages → allN p q s = true) → flattenLoop pm root stages = .ok r → allN p q r = true
  | [], root, r, hroot, _, h => by simp only [flattenLoop] at h; cases h; exact hroot
  | st :: rest, root, r, hroot, hs, h => by
    simp only [flattenLoop] at h
    split at h
    · cases h
    · rename_i st' same into' hp
      have h1 := hpm _ _ _ _ _ _ (hs st (by simp)) (intoAll_some hroot) hp
      split at h
      · cases h
      · rename_i root'
        split at h
        · cases h
        · rename_i m hm
          exact flattenLoop_all hS hpm rest m r (merge_all hS (h1.2 root' rfl) h1.1 hm)
            (fun s hs' => hs s (List.mem_cons_of_mem _ hs')) h

theorem flattenWith_all (hS : Stable p q) {pm : Node → Path → Option Node → PM} (hpm : PMAll p q pm)
    (stages : List Node) (r : Node)
    (hs : ∀ s, s ∈ stages → allN p q s = true) (h : flattenWith pm stages = .ok r) : allN p q r = true := by
  cases stages with
  | nil => simp [flattenWith] at h
  | cons s0 rest =>
    simp only [flattenWith] at h
    split at h
    · cases h
    · split at h
      · cases h
      · rename_i r0 same into' hp
        have h1 := hpm _ _ _ _ _ _ (hs s0 (by simp)) intoAll_none hp
        split at h
        · cases h
        · exact flattenLoop_all hS hpm rest r0 r h1.1 (fun s hs' => hs s (List.mem_cons_of_mem _ hs')) h

theorem premergeF_all (hS : Stable p q) (hF : FreshOK p q) : ∀ (fuel : Nat), PMAll p q (premergeF fuel)
  | 0 => fun n path into r same into' _ _ h => by simp [premergeF] at h
  | fuel + 1 => fun n path into r same into' hn hi h => by
    have ih := premergeF_all hS hF fuel
    cases n with
    | leaf f lk =>
      cases lk with
      | prev x =>
        simp only [premergeF] at h
        split at h
        · rename_i root tp _
          split at h
          · cases h
          · rename_i d root' hr
            simp only [Except.ok.injEq, Prod.mk.injEq] at h
            obtain ⟨rfl, rfl, rfl⟩ := h
            have := removeNode_all hS tp root d root' (hi root rfl) hr
            exact ⟨this.1, intoAll_some this.2⟩
        · cases h
      | clear =>
        simp only [premergeF] at h
        split at h
        · cases h
        · rename_i root
          split at h
          · rename_i cf ck ccs hg
            simp only [Except.ok.injEq, Prod.mk.injEq] at h
            obtain ⟨rfl, rfl, rfl⟩ := h
            have hg' := (allN_comp _ _ _).1 (getNode_all path root _ (hi root rfl) hg)
            have hv : allN p q (.comp cf ck []) = true := (allN_comp _ _ _).2 ⟨hg'.1, hg'.2.1, rfl⟩
            exact ⟨hv, intoAll_some (setNodeAt_all path root _ (hi root rfl) hv)⟩
          · cases h
      | _ =>
        simp only [premergeF, Except.ok.injEq, Prod.mk.injEq] at h
        obtain ⟨rfl, rfl, rfl⟩ := h
        exact ⟨hn, hi⟩
    | comp f k cs =>
      have hn' := (allN_comp f k cs).1 hn
      have hvals : ∀ v, v ∈ cs.map (·.2) → allN p q v = true := allL_map_snd hn'.2.2
      cases k with
      | append =>
        simp only [premergeF] at h
        split at h
        · simp only [Except.ok.injEq, Prod.mk.injEq] at h
          obtain ⟨rfl, rfl, rfl⟩ := h
          exact ⟨newPlainList_all hS hF _ hvals, intoAll_none⟩
        · rename_i root
          split at h
          · cases h
          · rename_i tf tk tcs root' hr
            have hrm := removeNode_all hS path root _ root' (hi root rfl) hr
            split at h
            · simp only [Except.ok.injEq, Prod.mk.injEq] at h
              obtain ⟨rfl, rfl, rfl⟩ := h
              have ht := (allN_comp _ _ _).1 hrm.1
              exact ⟨(allN_comp _ _ _).2 ⟨ht.1, ht.2.1, extendList_all hS tf tk _ tcs hvals ht.2.2⟩, intoAll_some hrm.2⟩
            · cases h
          · cases h
      | extend =>
        simp only [premergeF] at h
        split at h
        · simp only [Except.ok.injEq, Prod.mk.injEq] at h
          obtain ⟨rfl, rfl, rfl⟩ := h
          exact ⟨newPlainList_all hS hF _ hvals, intoAll_none⟩
        · rename_i root
          split at h
          · rename_i tf tk tcs hg
            have ht := (allN_comp _ _ _).1 (getNode_all path root _ (hi root rfl) hg)
            split at h
            · split at h
              · cases h
              · rename_i d root' hr
                have hrm := removeNode_all hS path root d root' (hi root rfl) hr
                simp only [Except.ok.injEq, Prod.mk.injEq] at h
                obtain ⟨rfl, rfl, rfl⟩ := h
                exact ⟨(allN_comp _ _ _).2 ⟨ht.1, ht.2.1, extendList_all hS tf tk _ tcs hvals ht.2.2⟩, intoAll_some hrm.2⟩
            · simp only [Except.ok.injEq, Prod.mk.injEq] at h
              obtain ⟨rfl, rfl, rfl⟩ := h
              exact ⟨newPlainList_all hS hF _ hvals, hi⟩
          · simp only [Except.ok.injEq, Prod.mk.injEq] at h
            obtain ⟨rfl, rfl, rfl⟩ := h
            exact ⟨newPlainList_all hS hF _ hvals, hi⟩
      | stream =>
        simp only [premergeF] at h
        split at h
        · cases h
        · cases h
        · rename_i r0 hf
          have hr0 := flattenWith_all hS ih _ r0 hvals hf
          split at h
          · cases h
          · rename_i r' same' into1 hp
            simp only [Except.ok.injEq, Prod.mk.injEq] at h
            obtain ⟨rfl, rfl, rfl⟩ := h
            exact ih _ _ _ _ _ _ hr0 hi hp
      | _ =>
        simp only [premergeF] at h
        split at h
        · cases h
        · rename_i cs' resets into1 hc
          split at h
          · cases h
          · rename_i cs'' ha
            simp only [Except.ok.injEq, Prod.mk.injEq] at h
            obtain ⟨rfl, rfl, rfl⟩ := h
            have h1 := premergeChildren_all ih path cs into cs' resets into1 hn'.2.2 hi hc
            exact ⟨(allN_comp _ _ _).2 ⟨hn'.1, hn'.2.1, applyResets_all hS _ _ resets cs' cs'' h1.2.1 h1.1 ha⟩, h1.2.2⟩

/-- `Builder.flatten` keeps a stable node-wise predicate that the builder's own nodes satisfy -/
theorem flatten_all (hS : Stable p q) (hF : FreshOK p q) (stages : List Node) (r : Node)
    (hs : ∀ s, s ∈ stages → allN p q s = true) (h : flatten stages = .ok r) : allN p q r = true :=
  flattenWith_all hS (premergeF_all hS hF _) stages r hs h

end AY.C07P
