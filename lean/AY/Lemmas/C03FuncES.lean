/-
  AY.Lemmas.C03FuncES — "entry-shaped" trees: the dict-shaped trees of C03 (mappings of mappings
  with scalar leaves, tags: priority + metadata) whose leaves may ALSO be function nodes
  (`!call:f {..}` / `!bind:f {..}` with scalar arguments; tags: priority, metadata, `!del`/`!merge`).

  * `entShaped`: the class, as a Boolean;  `flagsFN`: flags of a function-node entry (`delete` free);
  * on entry-shaped trees the flag bookkeeping (`propagate`, `adopt`) is the identity;
  * `entMerge_total`: merging an entry onto an entry always succeeds, the result is again an entry.
-/
import AY.Lemmas.C03FuncStep
set_option linter.unusedVariables false
set_option linter.unusedSimpArgs false
namespace AY.C03F
open AY

/-! ### the class -/

/-- flags of a function-node entry: priority, metadata and `delete` may be set, nothing else and
    nothing inherited (as the loader builds it below an untagged or priority-tagged mapping) -/
def flagsFN (f : Flags) : Bool :=
  f.new.isNone && f.safe.isNone && f.iDel.isNone && f.iNew.isNone && f.iSafe.isNone

theorem flagsFN_iff (f : Flags) : flagsFN f = true ↔
    f.new = none ∧ f.safe = none ∧ f.iDel = none ∧ f.iNew = none ∧ f.iSafe = none := by
  simp [flagsFN, and_assoc]

theorem flagsFN_of_DS {f : Flags} (h : flagsDS f = true) : flagsFN f = true := by
  rw [flagsDS_iff] at h; rw [flagsFN_iff]; exact ⟨h.2.1, h.2.2.1, h.2.2.2.1, h.2.2.2.2.1, h.2.2.2.2.2⟩

/-- an argument as it sits below a function node that hands down `delete = d`: a scalar leaf that
    carries exactly the inherited flags of its parent -/
def argS (d : Option Bool) : Node → Bool
  | .leaf g (.scalar _) => g.iSafe.isNone && g.iNew.isNone && g.iDel == d
  | _ => false

/-- an argument before the inherited flags are refreshed: a scalar leaf not marked `safe = False` from above -/
def argW : Node → Bool
  | .leaf g (.scalar _) => g.iSafe.isNone
  | _ => false

def argsS (d : Option Bool) : List (Key × Node) → Bool
  | [] => true
  | (_, c) :: rest => argS d c && argsS d rest

def argsW : List (Key × Node) → Bool
  | [] => true
  | (_, c) :: rest => argW c && argsW rest

/-- the `delete` a function node with flags `f` hands down (`_get_child_kwargs`) -/
def fnDel (f : Flags) : Option Bool := f.del.or (some true)

/-- a function-node entry: target `t`, flags `f`, arguments `cs` -/
def funcES (f : Flags) (t : String) (cs : List (Key × Node)) : Bool :=
  flagsFN f && (t != "") && argsS (fnDel f) cs

mutual
/-- plain mappings (pairwise distinct keys, flags `flagsDS`) whose leaves are scalars (flags
    `flagsDS`, never the empty string) or function nodes (`funcES`) -/
def entShaped : Node → Bool
  | .leaf f (.scalar v) => flagsDS f && (v != .str "")
  | .leaf _ _ => false
  | .comp f (.call t) cs => funcES f t cs
  | .comp f (.bind t) cs => funcES f t cs
  | .comp f .dict cs => flagsDS f && keysNodup cs && entShapedList cs
  | .comp _ _ _ => false
def entShapedList : List (Key × Node) → Bool
  | [] => true
  | (_, c) :: rest => entShaped c && entShapedList rest
end

/-- a plain mapping (the paths of the property descend through these only) -/
def isMap : Node → Bool
  | .comp _ k _ => !k.isFunc
  | .leaf .. => false

theorem es_leaf {f k} (h : entShaped (.leaf f k) = true) :
    ∃ v, k = .scalar v ∧ flagsDS f = true ∧ v ≠ .str "" := by
  cases k <;> simp_all [entShaped]

theorem es_func {f k cs t} (hk : k.func? = some t) (h : entShaped (.comp f k cs) = true) :
    flagsFN f = true ∧ t ≠ "" ∧ argsS (fnDel f) cs = true := by
  rcases func?_cases hk with rfl | rfl <;> simpa [entShaped, funcES, and_assoc] using h

theorem es_mk_func {f k cs t} (hk : k.func? = some t) (hf : flagsFN f = true) (ht : t ≠ "")
    (hcs : argsS (fnDel f) cs = true) : entShaped (.comp f k cs) = true := by
  rcases func?_cases hk with rfl | rfl <;> simp [entShaped, funcES, hf, ht, hcs]

theorem es_map {f k cs} (hk : k.isFunc = false) (h : entShaped (.comp f k cs) = true) :
    k = .dict ∧ flagsDS f = true ∧ keysNodup cs = true ∧ entShapedList cs = true := by
  cases k <;> simp_all [entShaped, CompKind.isFunc, and_assoc]

theorem es_mk_map {f cs} (hf : flagsDS f = true) (hnd : keysNodup cs = true) (hcs : entShapedList cs = true) :
    entShaped (.comp f .dict cs) = true := by
  simp [entShaped, hf, hnd, hcs]

theorem alookup_es (k : Key) : ∀ cs : List (Key × Node), entShapedList cs = true →
    ∀ c, alookup k cs = some c → entShaped c = true
  | [], _, c, h => by simp [alookup] at h
  | (k', v') :: r, hp, c, h => by
    have h' : entShaped v' = true ∧ entShapedList r = true := by simpa [entShapedList] using hp
    by_cases hk : k' = k
    · simp [alookup, hk] at h; subst h; exact h'.1
    · simp [alookup, hk] at h; exact alookup_es k r h'.2 c h

theorem aset_es (k : Key) (v : Node) (hv : entShaped v = true) : ∀ cs : List (Key × Node),
    entShapedList cs = true → entShapedList (aset k v cs) = true
  | [], _ => by simp [aset, entShapedList, hv]
  | (k', v') :: r, h => by
    have h' : entShaped v' = true ∧ entShapedList r = true := by simpa [entShapedList] using h
    by_cases hk : k' = k <;> simp [aset, entShapedList, hk, hv, h'.1, h'.2, aset_es k v hv r h'.2]

/-! ### arguments -/

theorem argW_of_S {d : Option Bool} {n : Node} (h : argS d n = true) : argW n = true := by
  cases n with
  | comp f k cs => simp [argS] at h
  | leaf g lk =>
    cases lk <;> simp_all [argS, argW]

theorem argsW_of_S {d : Option Bool} : ∀ {cs : List (Key × Node)}, argsS d cs = true → argsW cs = true
  | [], _ => rfl
  | (k, c) :: rest, h => by
    have h' : argS d c = true ∧ argsS d rest = true := by simpa [argsS] using h
    simp [argsW, argW_of_S h'.1, argsW_of_S h'.2]

/-- the keywords a function node with flags `flagsFN` hands down -/
theorem childKw_FN {f : Flags} {k : CompKind} (hf : flagsFN f = true) (hk : k.isFunc = true) :
    childKw f k = some ⟨fnDel f, none, none⟩ := by
  rw [flagsFN_iff] at hf
  obtain ⟨h1, h2, h3, h4, h5⟩ := hf
  cases k <;> simp [CompKind.isFunc] at hk <;>
    simp [childKw, fnDel, h1, h2, h3, h4, h5, defaultDelete, Tables.defaultDeleteFunc]

theorem applyKw_argW (d : Option Bool) {n : Node} (h : argW n = true) :
    argS d (applyKw ⟨d, none, none⟩ n) = true := by
  cases n with
  | comp f k cs => simp [argW] at h
  | leaf g lk =>
    cases lk <;> simp_all [argW, argS, applyKw, updFlags]

theorem applyKwList_argsW (d : Option Bool) : ∀ {cs : List (Key × Node)}, argsW cs = true →
    argsS d (applyKwList ⟨d, none, none⟩ cs) = true
  | [], _ => rfl
  | (k, c) :: rest, h => by
    have h' : argW c = true ∧ argsW rest = true := by simpa [argsW] using h
    simp [applyKwList, argsS, applyKw_argW d h'.1, applyKwList_argsW d h'.2]

theorem applyKw_argS (d : Option Bool) {n : Node} (h : argS d n = true) :
    applyKw ⟨d, none, none⟩ n = n := by
  cases n with
  | comp f k cs => simp [argS] at h
  | leaf g lk =>
    cases lk <;> simp [argS] at h
    obtain ⟨⟨h1, h2⟩, h3⟩ := h
    cases g
    simp_all [applyKw, updFlags]

theorem applyKwList_argsS (d : Option Bool) : ∀ {cs : List (Key × Node)}, argsS d cs = true →
    applyKwList ⟨d, none, none⟩ cs = cs
  | [], _ => rfl
  | (k, c) :: rest, h => by
    have h' : argS d c = true ∧ argsS d rest = true := by simpa [argsS] using h
    simp [applyKwList, applyKw_argS d h'.1, applyKwList_argsS d h'.2]

/-- refreshing the inherited flags of a function node with scalar arguments gives a function-node
    entry -/
theorem propagate_func_es {f : Flags} {k : CompKind} {t : String} {cs : List (Key × Node)}
    (hk : k.func? = some t) (hf : flagsFN f = true) (ht : t ≠ "") (hcs : argsW cs = true) :
    entShaped (propagate (.comp f k cs)) = true := by
  simp only [propagate, childKw_FN hf (isFunc_of_func? hk)]
  exact es_mk_func hk hf ht (applyKwList_argsW _ hcs)

/-- ... and is the identity on a function-node entry -/
theorem propagate_func_id {f : Flags} {k : CompKind} {t : String} {cs : List (Key × Node)}
    (hk : k.func? = some t) (h : entShaped (.comp f k cs) = true) :
    propagate (.comp f k cs) = .comp f k cs := by
  obtain ⟨hf, _, hcs⟩ := es_func hk h
  simp only [propagate, childKw_FN hf (isFunc_of_func? hk), applyKwList_argsS _ hcs]

/-! ### the flag bookkeeping is the identity on entry-shaped trees -/

theorem updFlags_FN {f : Flags} (h : flagsFN f = true) : updFlags kwN f = f := by
  rw [flagsFN_iff] at h
  obtain ⟨h1, h2, h3, h4, h5⟩ := h
  cases f
  simp_all [updFlags, kwN]

theorem flagsChanged_FN {f : Flags} (h : flagsFN f = true) : flagsChanged kwN f = false := by
  rw [flagsFN_iff] at h
  obtain ⟨h1, h2, h3, h4, h5⟩ := h
  simp [flagsChanged, kwN, h3, h4, h5]

theorem es_comp_flagsFN {f k cs} (h : entShaped (.comp f k cs) = true) : flagsFN f = true := by
  cases hk : k.isFunc
  · exact flagsFN_of_DS (es_map hk h).2.1
  · obtain ⟨t, ht⟩ := isFunc_func? hk
    exact (es_func ht h).1

theorem es_flagsFN {n : Node} (h : entShaped n = true) : flagsFN n.flags = true := by
  cases n with
  | leaf f k => obtain ⟨v, _, hf, _⟩ := es_leaf h; exact flagsFN_of_DS hf
  | comp f k cs => exact es_comp_flagsFN h

theorem applyKw_ES {n : Node} (h : entShaped n = true) : applyKw kwN n = n := by
  cases n with
  | leaf f k => obtain ⟨v, rfl, hf, _⟩ := es_leaf h; simp [applyKw, updFlags_DS hf]
  | comp f k cs => simp [applyKw, flagsChanged_FN (es_comp_flagsFN h)]

theorem applyKwList_ES : ∀ cs : List (Key × Node), entShapedList cs = true → applyKwList kwN cs = cs
  | [], _ => rfl
  | (k, c) :: rest, h => by
    have h' : entShaped c = true ∧ entShapedList rest = true := by simpa [entShapedList] using h
    simp [applyKwList, applyKw_ES h'.1, applyKwList_ES rest h'.2]

theorem propagate_ES {n : Node} (h : entShaped n = true) : propagate n = n := by
  cases n with
  | leaf f k => rfl
  | comp f k cs =>
    cases hk : k.isFunc
    · obtain ⟨rfl, hf, _, hcs⟩ := es_map hk h
      simp [propagate, childKw_DS hf, applyKwList_ES cs hcs]
    · obtain ⟨t, ht⟩ := isFunc_func? hk
      exact propagate_func_id ht h

theorem adopt_ES {pf : Flags} {v : Node} (hpf : flagsDS pf = true) (hv : entShaped v = true) :
    adopt pf .dict v = v := by
  simp only [adopt, inheritInto, childKw_DS hpf, updFlags_FN (es_flagsFN hv), setFlags_flags, propagate_ES hv]

theorem eNew_FN {f : Flags} (h : flagsFN f = true) : eNew f = true := by
  rw [flagsFN_iff] at h
  simp [eNew, h.2.2.2.1, Tables.defaultAllowNew]

theorem eNew_argS {d : Option Bool} {g : Flags} {lk : LeafKind} (h : argS d (.leaf g lk) = true) : eNew g = true := by
  cases lk <;> simp [argS] at h
  simp [eNew, h.1.2, Tables.defaultAllowNew]

theorem allNewList_args {d : Option Bool} : ∀ {cs : List (Key × Node)}, argsS d cs = true → allNewList cs = true
  | [], _ => rfl
  | (k, c) :: rest, h => by
    have h' : argS d c = true ∧ argsS d rest = true := by simpa [argsS] using h
    cases c with
    | comp f kk cc => simp [argS] at h'
    | leaf g lk => simp [allNewList, allNew, eNew_argS h'.1, allNewList_args h'.2]

mutual
theorem allNew_ES : ∀ n : Node, entShaped n = true → allNew n = true
  | .leaf f k, h => by obtain ⟨v, _, hf, _⟩ := es_leaf h; simp [allNew, eNew_DS hf]
  | .comp f k cs, h => by
    have hfn := eNew_FN (es_comp_flagsFN h)
    cases hk : k.isFunc
    · simp [allNew, hfn, allNewList_ES cs (es_map hk h).2.2.2]
    · obtain ⟨t, ht⟩ := isFunc_func? hk
      simp [allNew, hfn, allNewList_args (es_func ht h).2.2]
theorem allNewList_ES : ∀ cs : List (Key × Node), entShapedList cs = true → allNewList cs = true
  | [], _ => rfl
  | (k, c) :: rest, h => by
    have h' : entShaped c = true ∧ entShapedList rest = true := by simpa [entShapedList] using h
    simp [allNewList, allNew_ES c h'.1, allNewList_ES rest h'.2]
end

/-! ### the flags after `_replace_self` / `_replace_other` -/

theorem flagsFN_replaceSelf {s o : Flags} (hs : flagsFN s = true) (ho : o.safe = none) :
    flagsFN (replaceSelfFlags s o) = true := by
  rw [flagsFN_iff] at hs ⊢
  obtain ⟨h1, h2, h3, h4, h5⟩ := hs
  simp [replaceSelfFlags, mergeSafe, h1, h2, h3, h4, h5, ho]

theorem flagsFN_replaceOther {w l : Flags} (hw : flagsFN w = true) (hl : l.safe = none) :
    flagsFN (replaceOtherFlags w l) = true := by
  rw [flagsFN_iff] at hw ⊢
  obtain ⟨h1, h2, h3, h4, h5⟩ := hw
  simp [replaceOtherFlags, mergeSafe, h1, h2, h3, h4, h5, hl]

theorem flagsDS_replaceOther {w l : Flags} (hw : flagsDS w = true) (hl : l.safe = none) :
    flagsDS (replaceOtherFlags w l) = true := by
  rw [flagsDS_iff] at hw ⊢
  obtain ⟨h1, h2, h3, h4, h5, h6⟩ := hw
  simp [replaceOtherFlags, mergeSafe, h1, h2, h3, h4, h5, h6, hl]

theorem safe_of_FN {f : Flags} (h : flagsFN f = true) : f.safe = none := ((flagsFN_iff f).1 h).2.1

end AY.C03F
