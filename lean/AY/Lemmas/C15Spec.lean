/-
  AY.Lemmas.C15Spec — laws of the data-only specification `upd` / `foldUpd` (AY.Spec.Plain) used by
  property C15: the empty mapping is neutral, updating twice with the same value is idempotent
  (for values whose integer keys cannot alias list positions).
-/
import AY.Lemmas.C02Fold
import AY.Lemmas.UpdFrame
import AY.Lemmas.DataTree
namespace AY

/-! ### well-formed keys -/

/-- no negative integer key (a negative key addresses a list position from the end and can alias
    a non-negative one) -/
def nonNegKeys {α : Type} : List (Key × α) → Bool
  | [] => true
  | (k, _) :: rest => (match k with | .int i => decide (0 ≤ i) | _ => true) && nonNegKeys rest

mutual
/-- hereditarily: sibling keys pairwise distinct and no negative integer key -/
def Plain.keysOK : Plain → Bool
  | .scalar _ => true
  | .list xs => keysOKL xs
  | .dict xs => keysNodup xs && nonNegKeys xs && keysOKD xs
def keysOKL : List Plain → Bool
  | [] => true
  | x :: xs => x.keysOK && keysOKL xs
def keysOKD : List (Key × Plain) → Bool
  | [] => true
  | (_, x) :: xs => x.keysOK && keysOKD xs
end

theorem keysOK_dict {xs} (h : (Plain.dict xs).keysOK = true) :
    keysNodup xs = true ∧ nonNegKeys xs = true ∧ keysOKD xs = true := by
  simpa [Plain.keysOK, and_assoc] using h

theorem keysOKD_mem : ∀ (xs : List (Key × Plain)), keysOKD xs = true → ∀ kv, kv ∈ xs → kv.2.keysOK = true
  | [], _, kv, h => by cases h
  | (k, x) :: rest, h, kv, hm => by
    have h' : x.keysOK = true ∧ keysOKD rest = true := by simpa [keysOKD] using h
    rcases List.mem_cons.1 hm with e | hm
    · subst e; exact h'.1
    · exact keysOKD_mem rest h'.2 kv hm

theorem depthD_mem : ∀ (xs : List (Key × Plain)) kv, kv ∈ xs → kv.2.depth ≤ plainDepthD xs
  | [], kv, h => by cases h
  | (k, x) :: rest, kv, hm => by
    rcases List.mem_cons.1 hm with e | hm
    · subst e; simp only [plainDepthD]; omega
    · have := depthD_mem rest kv hm
      simp only [plainDepthD]; omega

/-! ### association lists -/

theorem aset_self {α : Type} (k : Key) (v : α) :
    ∀ l : List (Key × α), alookup k l = some v → aset k v l = l
  | [], h => by simp [alookup] at h
  | (k', v') :: rest, h => by
    by_cases hk : k' = k
    · simp [alookup, hk] at h; simp [aset, hk, h]
    · simp [alookup, hk] at h
      simp [aset, hk, aset_self k v rest h]

theorem alookup_of_mem_nodup {α : Type} :
    ∀ (l : List (Key × α)), keysNodup l = true → ∀ kv, kv ∈ l → alookup kv.1 l = some kv.2
  | [], _, kv, h => by cases h
  | (k, v) :: rest, hnd, kv, hm => by
    have hnd' : (akeys rest).contains k = false ∧ keysNodup rest = true := by simpa [keysNodup] using hnd
    rcases List.mem_cons.1 hm with e | hm
    · subst e; simp [alookup]
    · have ih := alookup_of_mem_nodup rest hnd'.2 kv hm
      have hne : ¬ k = kv.1 := by
        intro e
        have hn : alookup k rest = none := (alookup_none_iff k rest).2 hnd'.1
        rw [e, ih] at hn; cases hn
      simp [alookup, hne, ih]

/-- a key the newer mapping does not mention keeps its (possibly absent) value -/
theorem updDict_frame (rec : Plain → Plain → Except Err Plain) (k : Key) :
    ∀ (bs as rs : List (Key × Plain)), updF.updDict rec as bs = .ok rs → alookup k bs = none →
      alookup k rs = alookup k as
  | [], as, rs, h, _ => by
    simp only [updF.updDict] at h; injection h with h; rw [h]
  | (k', vb) :: rest, as, rs, h, hk => by
    have hk' : ¬ k' = k ∧ alookup k rest = none := by
      by_cases e : k' = k <;> simp_all [alookup]
    rw [updDict_cons] at h
    cases hl : alookup k' as with
    | none =>
      simp only [hl] at h
      rw [updDict_frame rec k rest _ rs h hk'.2, alookup_aset]; simp [hk'.1]
    | some va =>
      simp only [hl] at h
      cases hr : rec va vb with
      | error e => simp [hr] at h
      | ok v =>
        simp only [hr] at h
        rw [updDict_frame rec k rest _ rs h hk'.2, alookup_aset]; simp [hk'.1]

/-! ### positional lists -/

theorem length_setAt : ∀ (i : Nat) (v : Plain) (l : List Plain), (setAt i v l).length = l.length
  | i, _, [] => by cases i <;> rfl
  | 0, _, _ :: _ => rfl
  | i + 1, v, x :: xs => by simp [setAt, length_setAt i v xs]

theorem getElem?_setAt_ne : ∀ (i j : Nat) (v : Plain) (l : List Plain), i ≠ j → (setAt i v l)[j]? = l[j]?
  | i, _, _, [], _ => by cases i <;> rfl
  | 0, 0, _, _ :: _, h => absurd rfl h
  | 0, j + 1, _, _ :: _, _ => rfl
  | i + 1, 0, _, _ :: _, _ => rfl
  | i + 1, j + 1, v, x :: xs, h => by
    simp only [setAt, List.getElem?_cons_succ]
    exact getElem?_setAt_ne i j v xs (by omega)

theorem getElem?_setAt_eq : ∀ (i : Nat) (v : Plain) (l : List Plain), i < l.length → (setAt i v l)[i]? = some v
  | _, _, [], h => by simp at h
  | 0, _, _ :: _, _ => rfl
  | i + 1, v, x :: xs, h => by
    simp only [setAt, List.getElem?_cons_succ]
    exact getElem?_setAt_eq i v xs (by simpa using h)

theorem setAt_self : ∀ (i : Nat) (v : Plain) (l : List Plain), l[i]? = some v → setAt i v l = l
  | _, _, [], h => by simp at h
  | 0, v, x :: xs, h => by simp at h; simp [setAt, h]
  | i + 1, v, x :: xs, h => by
    simp only [List.getElem?_cons_succ] at h
    simp [setAt, setAt_self i v xs h]

theorem listIndex_nonneg {len : Nat} {z : Int} {i : Nat} (hz : 0 ≤ z) (h : listIndex len (.int z) = some i) :
    z = (i : Int) := by
  simp only [listIndex] at h
  split at h
  · cases h
  · injection h with h
    have : ¬ z < 0 := by omega
    simp only [this, if_false] at h
    omega

/-- one step of `updList` -/
theorem updList_cons (rec : Plain → Plain → Except Err Plain) (as : List Plain) (k : Key) (vb : Plain)
    (rest : List (Key × Plain)) :
    updF.updList rec as ((k, vb) :: rest) =
      match listIndex as.length k with
      | none => .error .merge
      | some i =>
        match as[i]? with
        | none => .error .merge
        | some va =>
          match rec va vb with
          | .error e => .error e
          | .ok v => updF.updList rec (setAt i v as) rest := rfl

/-- a successful `updList` step, destructured -/
theorem updList_cons_ok {rec : Plain → Plain → Except Err Plain} {as rs : List Plain} {k : Key} {vb : Plain}
    {rest : List (Key × Plain)} (h : updF.updList rec as ((k, vb) :: rest) = .ok rs) :
    ∃ i va v, listIndex as.length k = some i ∧ as[i]? = some va ∧ rec va vb = .ok v ∧
      updF.updList rec (setAt i v as) rest = .ok rs := by
  rw [updList_cons] at h
  cases hi : listIndex as.length k with
  | none => simp [hi] at h
  | some i =>
    simp only [hi] at h
    cases ha : as[i]? with
    | none => simp [ha] at h
    | some va =>
      simp only [ha] at h
      cases hr : rec va vb with
      | error e => simp [hr] at h
      | ok v =>
        simp only [hr] at h
        exact ⟨i, va, v, rfl, ha, hr, h⟩

theorem updList_length (rec : Plain → Plain → Except Err Plain) :
    ∀ (bs : List (Key × Plain)) (as rs : List Plain), updF.updList rec as bs = .ok rs → rs.length = as.length
  | [], as, rs, h => by simp only [updF.updList] at h; injection h with h; rw [h]
  | (k, vb) :: rest, as, rs, h => by
    obtain ⟨i, va, v, _, _, _, h'⟩ := updList_cons_ok h
    rw [updList_length rec rest _ rs h', length_setAt]

/-- a position no key of the newer mapping addresses keeps its value -/
theorem updList_frame (rec : Plain → Plain → Except Err Plain) (j : Nat) :
    ∀ (bs : List (Key × Plain)) (as rs : List Plain), updF.updList rec as bs = .ok rs →
      (∀ k, k ∈ akeys bs → listIndex as.length k ≠ some j) → rs[j]? = as[j]?
  | [], as, rs, h, _ => by simp only [updF.updList] at h; injection h with h; rw [h]
  | (k, vb) :: rest, as, rs, h, hj => by
    obtain ⟨i, va, v, hi, _, _, h'⟩ := updList_cons_ok h
    have hne : i ≠ j := by
      intro e; subst e
      exact hj k (by simp [akeys]) hi
    rw [updList_frame rec j rest _ rs h' (by
      intro k' hk'
      rw [length_setAt]
      exact hj k' (by simp [akeys, hk'])), getElem?_setAt_ne i j v as hne]

/-! ### the empty mapping is neutral -/

theorem updF_empty_right (m : Nat) (as : List (Key × Plain)) :
    updF (m + 1) (.dict as) (.dict []) = .ok (.dict as) := rfl

theorem upd_empty_right (as : List (Key × Plain)) : upd (.dict as) (.dict []) = .ok (.dict as) := rfl

/-- new keys only: the newer mapping is appended -/
theorem updDict_fresh (rec : Plain → Plain → Except Err Plain) :
    ∀ (bs as : List (Key × Plain)), keysNodup bs = true → (∀ k, k ∈ akeys bs → alookup k as = none) →
      updF.updDict rec as bs = .ok (as ++ bs)
  | [], as, _, _ => by simp [updF.updDict]
  | (k, vb) :: rest, as, hnd, hfresh => by
    have hnd' : (akeys rest).contains k = false ∧ keysNodup rest = true := by simpa [keysNodup] using hnd
    have hk : alookup k as = none := hfresh k (by simp [akeys])
    have hfresh' : ∀ k', k' ∈ akeys rest → alookup k' (as ++ [(k, vb)]) = none := by
      intro k' hk'
      apply alookup_append_none
      · exact hfresh k' (by simp [akeys, hk'])
      · have : k ≠ k' := by
          intro e; subst e
          have := hnd'.1
          simp at this
          exact this hk'
        simp [alookup, this]
    simp only [updF.updDict, hk, updDict_fresh rec rest _ hnd'.2 hfresh']
    simp

theorem updF_empty_left (m : Nat) (bs : List (Key × Plain)) (h : keysNodup bs = true) :
    updF (m + 1) (.dict []) (.dict bs) = .ok (.dict bs) := by
  rw [updF_dict_dict, updDict_fresh _ bs [] h (fun _ _ => rfl)]
  rfl

theorem upd_empty_left (bs : List (Key × Plain)) (h : keysNodup bs = true) :
    upd (.dict []) (.dict bs) = .ok (.dict bs) := updF_empty_left _ bs h

/-- a mapping document -/
def Plain.isDict : Plain → Bool
  | .dict _ => true
  | _ => false

/-- a mapping whose top-level keys are pairwise distinct -/
def Plain.isDictNodup : Plain → Bool
  | .dict xs => keysNodup xs
  | _ => false

theorem updF_dict_isDict {m : Nat} {a b r : Plain} (ha : a.isDict = true) (hb : b.isDict = true)
    (h : updF m a b = .ok r) : r.isDict = true := by
  cases m with
  | zero => cases h
  | succ m =>
    cases a with
    | dict as =>
      cases b with
      | dict bs =>
        rw [updF_dict_dict] at h
        cases hu : updF.updDict (updF m) as bs with
        | error e => simp [hu, Except.map] at h
        | ok rs => simp only [hu, Except.map] at h; injection h with h; rw [← h]; rfl
      | scalar v => cases hb
      | list xs => cases hb
    | scalar v => cases ha
    | list xs => cases ha

theorem updStep_empty {acc : Except Err Plain} (h : ∀ a, acc = .ok a → a.isDict = true) :
    updStep acc (.dict []) = acc := by
  cases acc with
  | error e => rfl
  | ok a =>
    have := h a rfl
    cases a with
    | dict as => rfl
    | scalar v => cases this
    | list xs => cases this

theorem foldl_updStep_isDict : ∀ (xs : List Plain) (acc : Except Err Plain),
    (∀ a, acc = .ok a → a.isDict = true) → (∀ x, x ∈ xs → x.isDict = true) →
    ∀ a, xs.foldl updStep acc = .ok a → a.isDict = true
  | [], acc, h, _, a, ha => h a ha
  | x :: xs, acc, h, hx, a, ha => by
    simp only [List.foldl_cons] at ha
    refine foldl_updStep_isDict xs (updStep acc x) ?_ (fun y hy => hx y (List.mem_cons_of_mem _ hy)) a ha
    intro r hr
    cases acc with
    | error e => cases hr
    | ok a0 =>
      exact updF_dict_isDict (h a0 rfl) (hx x (List.mem_cons_self)) hr

/-- inserting the empty mapping anywhere into a sequence of mapping documents changes nothing -/
theorem foldUpd_insert_empty (xs ys : List Plain) (hne : xs ++ ys ≠ [])
    (hx : ∀ x, x ∈ xs → x.isDict = true) (hy : ∀ y, y ∈ ys → y.isDictNodup = true) :
    foldUpd (xs ++ .dict [] :: ys) = foldUpd (xs ++ ys) := by
  cases xs with
  | nil =>
    cases ys with
    | nil => exact absurd rfl hne
    | cons y ys =>
      have := hy y (List.mem_cons_self)
      cases y with
      | dict bs =>
        simp only [List.nil_append, foldUpd_cons, List.foldl_cons, updStep]
        rw [upd_empty_left bs (by simpa [Plain.isDictNodup] using this)]
      | scalar v => cases this
      | list l => cases this
  | cons x xs =>
    simp only [List.cons_append, foldUpd_cons, List.foldl_append, List.foldl_cons]
    rw [updStep_empty]
    exact foldl_updStep_isDict xs (.ok x) (fun a ha => by injection ha with ha; rw [← ha]; exact hx x (List.mem_cons_self))
      (fun y hy' => hx y (List.mem_cons_of_mem _ hy'))

/-! ### idempotence -/

/-- updating a mapping by entries it already contains (with self-idempotent values) is the identity -/
theorem updDict_self (rec : Plain → Plain → Except Err Plain) :
    ∀ (rest as : List (Key × Plain)),
      (∀ kv, kv ∈ rest → alookup kv.1 as = some kv.2 ∧ rec kv.2 kv.2 = .ok kv.2) →
      updF.updDict rec as rest = .ok as
  | [], as, _ => rfl
  | (k, vb) :: rest, as, h => by
    obtain ⟨h1, h2⟩ := h (k, vb) (List.mem_cons_self)
    rw [updDict_cons]
    simp only [h1, h2, aset_self k vb as h1]
    exact updDict_self rec rest as (fun kv hkv => h kv (List.mem_cons_of_mem _ hkv))

theorem updDict_idem (rec : Plain → Plain → Except Err Plain) (P : Plain → Prop)
    (Hrec : ∀ va vb v, P vb → rec va vb = .ok v → rec v vb = .ok v)
    (Hself : ∀ vb, P vb → rec vb vb = .ok vb) :
    ∀ (bs as rs : List (Key × Plain)), keysNodup bs = true → (∀ kv, kv ∈ bs → P kv.2) →
      updF.updDict rec as bs = .ok rs → updF.updDict rec rs bs = .ok rs
  | [], as, rs, _, _, h => rfl
  | (k, vb) :: rest, as, rs, hnd, hP, h => by
    have hnd' : (akeys rest).contains k = false ∧ keysNodup rest = true := by simpa [keysNodup] using hnd
    have hkrest : alookup k rest = none := (alookup_none_iff k rest).2 hnd'.1
    have hPvb : P vb := hP (k, vb) (List.mem_cons_self)
    have hP' : ∀ kv, kv ∈ rest → P kv.2 := fun kv hkv => hP kv (List.mem_cons_of_mem _ hkv)
    rw [updDict_cons] at h
    rw [updDict_cons]
    cases hl : alookup k as with
    | none =>
      simp only [hl] at h
      have hlk : alookup k rs = some vb := by
        rw [updDict_frame rec k rest _ rs h hkrest, alookup_aset]; simp
      simp only [hlk, Hself vb hPvb, aset_self k vb rs hlk]
      exact updDict_idem rec P Hrec Hself rest _ rs hnd'.2 hP' h
    | some va =>
      simp only [hl] at h
      cases hr : rec va vb with
      | error e => simp [hr] at h
      | ok v =>
        simp only [hr] at h
        have hlk : alookup k rs = some v := by
          rw [updDict_frame rec k rest _ rs h hkrest, alookup_aset]; simp
        simp only [hlk, Hrec va vb v hPvb hr, aset_self k v rs hlk]
        exact updDict_idem rec P Hrec Hself rest _ rs hnd'.2 hP' h

theorem nonNegKeys_cons {α : Type} {k : Key} {v : α} {rest : List (Key × α)}
    (h : nonNegKeys ((k, v) :: rest) = true) :
    (∀ z, k = .int z → 0 ≤ z) ∧ nonNegKeys rest = true := by
  simp only [nonNegKeys, Bool.and_eq_true] at h
  refine ⟨?_, h.2⟩
  intro z hz
  subst hz
  simpa using h.1

theorem nonNegKeys_mem {α : Type} : ∀ (l : List (Key × α)), nonNegKeys l = true →
    ∀ k z, k ∈ akeys l → k = .int z → 0 ≤ z
  | [], _, k, z, hk, _ => by simp [akeys] at hk
  | (k', v) :: rest, h, k, z, hk, hz => by
    obtain ⟨h1, h2⟩ := nonNegKeys_cons h
    simp only [akeys, List.mem_cons] at hk
    rcases hk with e | hk
    · exact h1 z (e ▸ hz)
    · exact nonNegKeys_mem rest h2 k z hk hz

/-- distinct non-negative keys address distinct positions -/
theorem listIndex_ne_of_nonneg {len : Nat} {k k' : Key} {i : Nat}
    (hk : ∀ z, k = .int z → 0 ≤ z) (hk' : ∀ z, k' = .int z → 0 ≤ z) (hne : k ≠ k')
    (h : listIndex len k = some i) : listIndex len k' ≠ some i := by
  intro h'
  cases k with
  | int z =>
    cases k' with
    | int z' =>
      have e1 := listIndex_nonneg (hk z rfl) h
      have e2 := listIndex_nonneg (hk' z' rfl) h'
      exact hne (by rw [e1, e2])
    | str s => cases h'
    | float r => cases h'
  | str s => cases h
  | float r => cases h

theorem updList_idem (rec : Plain → Plain → Except Err Plain) (P : Plain → Prop)
    (Hrec : ∀ va vb v, P vb → rec va vb = .ok v → rec v vb = .ok v) :
    ∀ (bs : List (Key × Plain)) (as rs : List Plain), keysNodup bs = true → nonNegKeys bs = true →
      (∀ kv, kv ∈ bs → P kv.2) →
      updF.updList rec as bs = .ok rs → updF.updList rec rs bs = .ok rs
  | [], as, rs, _, _, _, h => rfl
  | (k, vb) :: rest, as, rs, hnd, hnn, hP, h => by
    have hnd' : (akeys rest).contains k = false ∧ keysNodup rest = true := by simpa [keysNodup] using hnd
    obtain ⟨hnn1, hnn2⟩ := nonNegKeys_cons hnn
    have hPvb : P vb := hP (k, vb) (List.mem_cons_self)
    have hP' : ∀ kv, kv ∈ rest → P kv.2 := fun kv hkv => hP kv (List.mem_cons_of_mem _ hkv)
    obtain ⟨i, va, v, hi, ha, hr, h'⟩ := updList_cons_ok h
    have hlen : rs.length = as.length := by rw [updList_length rec rest _ rs h', length_setAt]
    have hilt : i < as.length := by
      rcases Nat.lt_or_ge i as.length with h | h
      · exact h
      · rw [List.getElem?_eq_none h] at ha; cases ha
    have hrs : rs[i]? = some v := by
      rw [updList_frame rec i rest _ rs h' (by
        intro k' hk'
        rw [length_setAt]
        have hne : k ≠ k' := by
          intro e; subst e
          have := hnd'.1
          simp at this
          exact this hk'
        exact listIndex_ne_of_nonneg hnn1 (fun z hz => nonNegKeys_mem rest hnn2 k' z hk' hz) hne hi)]
      exact getElem?_setAt_eq i v as hilt
    rw [updList_cons, hlen, hi]
    simp only [hrs, Hrec va vb v hPvb hr, setAt_self i v rs hrs]
    exact updList_idem rec P Hrec rest _ rs hnd'.2 hnn2 hP' h'

/-- updating a value by itself changes nothing -/
theorem updF_self : ∀ (m : Nat) (b : Plain), b.keysOK = true → b.depth < m → updF m b b = .ok b := by
  intro m
  induction m with
  | zero => intro b _ h; omega
  | succ m ih =>
    intro b hb hd
    cases b with
    | scalar v => rfl
    | list xs => rfl
    | dict bs =>
      obtain ⟨hnd, _, hok⟩ := keysOK_dict hb
      rw [updF_dict_dict, updDict_self (updF m) bs bs]
      · rfl
      · intro kv hkv
        refine ⟨alookup_of_mem_nodup bs hnd kv hkv, ih kv.2 (keysOKD_mem bs hok kv hkv) ?_⟩
        have := depthD_mem bs kv hkv
        simp only [Plain.depth] at hd
        omega

theorem allIndices_length {len len' : Nat} (h : len = len') (bs : List (Key × Plain)) :
    allIndices len bs = allIndices len' bs := by rw [h]

/-- updating twice by the same value is updating once -/
theorem updF_idem : ∀ (m : Nat) (a b r : Plain), b.keysOK = true → b.depth < m →
    updF m a b = .ok r → updF m r b = .ok r := by
  intro m
  induction m with
  | zero => intro a b r _ h; omega
  | succ m ih =>
    intro a b r hb hd h
    cases b with
    | scalar v =>
      rw [updF_scalar_right] at h; injection h with h; subst h; rfl
    | list xs =>
      rw [updF_list_right] at h; injection h with h; subst h; rfl
    | dict bs =>
      obtain ⟨hnd, hnn, hok⟩ := keysOK_dict hb
      have hdep : ∀ kv, kv ∈ bs → kv.2.depth < m := by
        intro kv hkv
        have := depthD_mem bs kv hkv
        simp only [Plain.depth] at hd
        omega
      let P : Plain → Prop := fun vb => vb.keysOK = true ∧ vb.depth < m
      have hP : ∀ kv, kv ∈ bs → P kv.2 := fun kv hkv => ⟨keysOKD_mem bs hok kv hkv, hdep kv hkv⟩
      have Hrec : ∀ va vb v, P vb → updF m va vb = .ok v → updF m v vb = .ok v :=
        fun va vb v hp hr => ih va vb v hp.1 hp.2 hr
      have Hself : ∀ vb, P vb → updF m vb vb = .ok vb := fun vb hp => updF_self m vb hp.1 hp.2
      cases a with
      | scalar v =>
        have : updF (m + 1) (.scalar v) (.dict bs) = .ok (.dict bs) := rfl
        rw [this] at h; injection h with h; subst h
        exact updF_self (m + 1) _ hb hd
      | list as =>
        rw [updF_list_dict] at h
        split at h
        · rename_i hidx
          cases hu : updF.updList (updF m) as bs with
          | error e => simp [hu, Except.map] at h
          | ok rs =>
            simp only [hu, Except.map] at h
            injection h with h; subst h
            have hlen := updList_length _ bs as rs hu
            rw [updF_list_dict, hlen, hidx, updList_idem (updF m) P Hrec bs as rs hnd hnn hP hu]
            rfl
        · cases h
      | dict as =>
        rw [updF_dict_dict] at h
        cases hu : updF.updDict (updF m) as bs with
        | error e => simp [hu, Except.map] at h
        | ok rs =>
          simp only [hu, Except.map] at h
          injection h with h; subst h
          rw [updF_dict_dict, updDict_idem (updF m) P Hrec Hself bs as rs hnd hP hu]
          rfl

theorem upd_idem (a b r : Plain) (hb : b.keysOK = true) (h : upd a b = .ok r) : upd r b = .ok r :=
  updF_idem _ a b r hb (Nat.lt_succ_self _) h

theorem upd_self (b : Plain) (hb : b.keysOK = true) : upd b b = .ok b :=
  updF_self _ b hb (Nat.lt_succ_self _)

/-- repeating the last document of a sequence does not change the fold -/
theorem foldUpd_repeat_last (ps : List Plain) (p : Plain) (hp : p.keysOK = true) :
    foldUpd (ps ++ [p, p]) = foldUpd (ps ++ [p]) := by
  cases ps with
  | nil =>
    simp only [List.nil_append, foldUpd_cons, List.foldl_cons, List.foldl_nil, updStep, upd_self p hp]
  | cons d ds =>
    simp only [List.cons_append, foldUpd_cons, List.foldl_append, List.foldl_cons, List.foldl_nil]
    cases hacc : ds.foldl updStep (.ok d) with
    | error e => rfl
    | ok a =>
      simp only [updStep]
      cases hu : upd a p with
      | error e => rfl
      | ok r => exact upd_idem a p r hp hu


/-! ### tag-free documents are mappings with distinct keys -/

theorem akeys_plainOfRawMap : ∀ items : List (Key × Raw), akeys (plainOfRawMap items) = akeys items
  | [] => rfl
  | (k, r) :: rest => by simp [plainOfRawMap, akeys, akeys_plainOfRawMap rest]

theorem plainOfRaw_isDictNodup {r : Raw} (h : rawPlain r = true) : (plainOfRaw r).isDictNodup = true := by
  cases r with
  | scalar t kw v => simp [rawPlain] at h
  | seq t kw items => simp [rawPlain] at h
  | map t kw items =>
    have h' : rawPlainSub (.map t kw items) = true := by simpa [rawPlain] using h
    obtain ⟨_, hnd, _⟩ := rawPlainSub_map h'
    simp only [plainOfRaw, Plain.isDictNodup]
    rw [keysNodup_congr _ items (akeys_plainOfRawMap items)]
    exact hnd

theorem plainOfRaw_isDict {r : Raw} (h : rawPlain r = true) : (plainOfRaw r).isDict = true := by
  cases r with
  | scalar t kw v => simp [rawPlain] at h
  | seq t kw items => simp [rawPlain] at h
  | map t kw items => rfl

end AY
