/-
  AY.Lemmas.C03Fold — the builder's fold over dict-shaped documents, and the arg-max specification:
  folding the leaf rule from the left selects the stage maximising (priority, stage index).
-/
import AY.Lemmas.C03Dict
set_option linter.unusedVariables false
set_option linter.unnecessarySimpa false
namespace AY

/-! ### the pre-merge pass is the identity on dict-shaped trees -/

theorem premergeChildren_idDS {d : Nat} {rec : Node → Path → Option Node → PM}
    (H : ∀ c p into, dictShaped c = true → c.depth ≤ d → rec c p into = .ok (c, true, into)) (path : Path) :
    ∀ (cs : List (Key × Node)) (into : Option Node), dictShapedList cs = true → depthList cs ≤ d →
      premergeChildren rec path cs into = .ok (cs, [], into)
  | [], into, _, _ => rfl
  | (k, c) :: rest, into, h, hd => by
    have h' : dictShaped c = true ∧ dictShapedList rest = true := by simpa [dictShapedList] using h
    have hd' : c.depth ≤ d ∧ depthList rest ≤ d := by simp only [depthList] at hd; omega
    simp [premergeChildren, H c _ into h'.1 hd'.1, premergeChildren_idDS H path rest into h'.2 hd'.2]

theorem premergeF_DS : ∀ (fuel : Nat) (n : Node) (path : Path) (into : Option Node),
    dictShaped n = true → n.depth < fuel → premergeF fuel n path into = .ok (n, true, into) := by
  intro fuel
  induction fuel with
  | zero => intro n _ _ _ h; omega
  | succ fuel ih =>
    intro n path into hn hd
    cases n with
    | leaf f lk =>
      obtain ⟨v, rfl, _⟩ := ds_leaf hn
      simp [premergeF]
    | comp f k cs =>
      obtain ⟨hf, hk, _, hcs⟩ := ds_comp hn
      subst hk
      have hlt : depthList cs < fuel := by simp only [Node.depth] at hd; omega
      have H : ∀ c p into, dictShaped c = true → c.depth ≤ depthList cs →
          premergeF fuel c p into = .ok (c, true, into) :=
        fun c p into hc hdc => ih c p into hc (by omega)
      have hch := premergeChildren_idDS H path cs into hcs (Nat.le_refl _)
      simp [premergeF, hch, applyResets]

/-! ### the fold -/

/-- every earlier document is shape-compatible with every later one -/
def pairwiseCompat : List Node → Prop
  | [] => True
  | d :: ds => (∀ c, c ∈ ds → compatP d c) ∧ pairwiseCompat ds

theorem merge_DS {a b : Node} (ha : dictShaped a = true) (hb : dictShaped b = true) (hc : compatP a b) :
    ∃ r, merge a b = .ok r ∧ Post a b r ∧ r.isComp = a.isComp := by
  obtain ⟨r, same, h, hp, hi, _⟩ := mergeF_DS (b.depth + 1) a b ha hb hc (Nat.lt_succ_self _)
  exact ⟨r, by simp only [merge, h], hp, hi⟩

theorem flattenLoop_DS {F : Nat} : ∀ (stages : List Node) (root : Node), dictShaped root = true →
    (∀ st, st ∈ stages → dictShaped st = true ∧ st.depth < F ∧ compatP root st) →
    pairwiseCompat stages →
    ∃ r, flattenLoop (premergeF F) root stages = .ok r ∧ dictShaped r = true ∧
      ∀ p, leafAt r p = (stages.map (fun st => leafAt st p)).foldl pick (leafAt root p)
  | [], root, hroot, _, _ => ⟨root, rfl, hroot, fun _ => rfl⟩
  | st :: rest, root, hroot, hst, hpw => by
    obtain ⟨hs, hd, hc⟩ := hst st List.mem_cons_self
    obtain ⟨r, hm, hpost, _⟩ := merge_DS hroot hs hc
    obtain ⟨r', hl, hr', hleaf⟩ := flattenLoop_DS rest r hpost.1 (by
      intro c hcm
      obtain ⟨h1, h2, h3⟩ := hst c (List.mem_cons_of_mem _ hcm)
      exact ⟨h1, h2, compatP_merged hc h3 (hpw.1 c hcm) hpost.2.1⟩) hpw.2
    refine ⟨r', ?_, hr', ?_⟩
    · simp only [flattenLoop, premergeF_DS F st [] (some root) hs hd, hm, hl]
    · intro p
      rw [hleaf p, hpost.2.2 p]
      rfl

/-- `Builder.flatten` over pairwise shape-compatible dict-shaped mapping documents succeeds and, at
    every path, folds the leaf rule over the stages from left to right -/
theorem flatten_DS (d0 : Node) (ds : List Node)
    (hst : ∀ st, st ∈ d0 :: ds → dictShaped st = true ∧ st.isDict = true)
    (hpw : pairwiseCompat (d0 :: ds)) :
    ∃ r, flatten (d0 :: ds) = .ok r ∧ dictShaped r = true ∧
      ∀ p, leafAt r p = (ds.map (fun st => leafAt st p)).foldl pick (leafAt d0 p) := by
  have hall : (d0 :: ds).all Node.isDict = true := by
    rw [List.all_eq_true]; intro x hx; exact (hst x hx).2
  have h0 := (hst d0 List.mem_cons_self).1
  have hpm := premergeF_DS (stagesFuel (d0 :: ds)) d0 [] none h0 (depth_lt_stagesFuel List.mem_cons_self)
  obtain ⟨r, hl, hr, hleaf⟩ := flattenLoop_DS (F := stagesFuel (d0 :: ds)) ds d0 h0 (by
    intro st hm
    exact ⟨(hst st (List.mem_cons_of_mem _ hm)).1, depth_lt_stagesFuel (List.mem_cons_of_mem _ hm), hpw.1 st hm⟩)
    hpw.2
  refine ⟨r, ?_, hr, hleaf⟩
  simp only [flatten, flattenWith, hall, Bool.not_true, Bool.false_eq_true, if_false, hpm,
    reqNew_allNew [] [] d0 (allNew_DS d0 h0), hl]

/-! ### arg-max -/

/-- of two competing writers the older wins only with a strictly higher priority -/
def pickRaw : Option Node → Option Node → Option Node
  | none, y => y
  | some a, none => some a
  | some a, some b => if ePrio a.flags > ePrio b.flags then some a else some b

/-- the writer maximising (priority, stage index) among the stages that have the leaf:
    the best of the later stages, unless the first stage has a strictly higher priority -/
def argmaxLeaf : List (Option Node) → Option Node
  | [] => none
  | x :: rest => pickRaw x (argmaxLeaf rest)

/-- what survives of a writer: its value and its priority -/
def vp (n : Node) : Plain × Int := (native n, ePrio n.flags)

def pickVP : Option (Plain × Int) → Option (Plain × Int) → Option (Plain × Int)
  | none, y => y
  | some a, none => some a
  | some a, some b => if a.2 > b.2 then some a else some b

theorem vp_leafRule (a b : Node) :
    vp (leafRule a b).1 = if ePrio a.flags > ePrio b.flags then vp a else vp b := by
  by_cases h : ePrio a.flags > ePrio b.flags
  · rw [leafRule_self_wins h]; simp [vp, h, nativeOf_propagate, flags_propagate, native_setFlags, flags_setFlags, replaceOtherFlags_ePrio]
  · rw [leafRule_other_wins h]; simp [vp, h, nativeOf_propagate, flags_propagate, native_setFlags, flags_setFlags, replaceOtherFlags_ePrio]

theorem map_vp_pick (x y : Option Node) : (pick x y).map vp = pickVP (x.map vp) (y.map vp) := by
  cases x with
  | none => rfl
  | some a =>
    cases y with
    | none => rfl
    | some b =>
      simp only [pick, Option.map_some, pickVP, vp_leafRule]
      by_cases h : ePrio a.flags > ePrio b.flags <;> simp [h, vp]

theorem map_vp_pickRaw (x y : Option Node) : (pickRaw x y).map vp = pickVP (x.map vp) (y.map vp) := by
  cases x with
  | none => rfl
  | some a =>
    cases y with
    | none => rfl
    | some b =>
      simp only [pickRaw, Option.map_some, pickVP]
      by_cases h : ePrio a.flags > ePrio b.flags <;> simp [h, vp]

theorem pickVP_none_right (a : Option (Plain × Int)) : pickVP a none = a := by cases a <;> rfl

theorem pickVP_assoc (a b c : Option (Plain × Int)) : pickVP (pickVP a b) c = pickVP a (pickVP b c) := by
  cases a with
  | none => rfl
  | some a =>
    cases b with
    | none => rfl
    | some b =>
      cases c with
      | none => simp [pickVP_none_right]
      | some c =>
        simp only [pickVP]
        by_cases h1 : a.2 > b.2 <;> by_cases h2 : b.2 > c.2 <;> by_cases h3 : a.2 > c.2 <;>
          simp [h1, h2, h3] <;> omega

theorem foldl_pickVP (l : List (Option (Plain × Int))) : ∀ a, l.foldl pickVP a = pickVP a (l.foldr pickVP none) := by
  induction l with
  | nil => intro a; simp [pickVP_none_right]
  | cons x rest ih => intro a; simp only [List.foldl_cons, List.foldr_cons, ih, pickVP_assoc]

theorem map_vp_argmaxLeaf : ∀ l : List (Option Node),
    (argmaxLeaf l).map vp = (l.map (fun x => x.map vp)).foldr pickVP none
  | [] => rfl
  | x :: rest => by simp only [argmaxLeaf, map_vp_pickRaw, map_vp_argmaxLeaf rest, List.map_cons, List.foldr_cons]

theorem map_vp_foldl_pick : ∀ (l : List (Option Node)) (init : Option Node),
    (l.foldl pick init).map vp = (l.map (fun x => x.map vp)).foldl pickVP (init.map vp)
  | [], _ => rfl
  | x :: rest, init => by
    simp only [List.foldl_cons, List.map_cons, map_vp_foldl_pick rest, map_vp_pick]

/-- folding the leaf rule from the left = the arg-max (value and priority of the survivor) -/
theorem foldl_pick_argmax (init : Option Node) (l : List (Option Node)) :
    (l.foldl pick init).map vp = (argmaxLeaf (init :: l)).map vp := by
  rw [map_vp_foldl_pick, foldl_pickVP, map_vp_argmaxLeaf]
  rfl

theorem argmaxLeaf_none : ∀ l : List (Option Node), argmaxLeaf l = none → ∀ x, x ∈ l → x = none
  | [], _, x, hx => by cases hx
  | y :: rest, h, x, hx => by
    simp only [argmaxLeaf] at h
    cases y with
    | some a =>
      cases hr : argmaxLeaf rest with
      | none => simp [hr, pickRaw] at h
      | some w => simp only [hr, pickRaw] at h; split at h <;> cases h
    | none =>
      simp only [pickRaw] at h
      rcases List.mem_cons.1 hx with e | hx
      · exact e
      · exact argmaxLeaf_none rest h x hx

/-- `argmaxLeaf` really is the lexicographic maximum of (priority, stage index) -/
theorem argmaxLeaf_spec : ∀ (l : List (Option Node)) (w : Node), argmaxLeaf l = some w →
    ∃ i : Nat, l[i]? = some (some w) ∧
      ∀ (j : Nat) (m : Node), l[j]? = some (some m) →
        ePrio m.flags < ePrio w.flags ∨ (ePrio m.flags = ePrio w.flags ∧ j ≤ i)
  | [], w, h => by cases h
  | x :: rest, w, h => by
    simp only [argmaxLeaf] at h
    cases hr : argmaxLeaf rest with
    | none =>
      have hnone := argmaxLeaf_none rest hr
      rw [hr] at h
      have hx : x = some w := by cases x <;> simpa [pickRaw] using h
      subst hx
      refine ⟨0, rfl, ?_⟩
      intro j m hj
      cases j with
      | zero => simp at hj; subst hj; exact .inr ⟨rfl, Nat.le_refl _⟩
      | succ j =>
        simp only [List.getElem?_cons_succ] at hj
        have := hnone _ (List.mem_of_getElem? hj)
        cases this
    | some w' =>
      obtain ⟨i', hi', hmax⟩ := argmaxLeaf_spec rest w' hr
      rw [hr] at h
      cases x with
      | none =>
        simp only [pickRaw] at h
        injection h with h; subst h
        refine ⟨i' + 1, by simpa using hi', ?_⟩
        intro j m hj
        cases j with
        | zero => simp at hj
        | succ j =>
          simp only [List.getElem?_cons_succ] at hj
          rcases hmax j m hj with h | h
          · exact .inl h
          · exact .inr ⟨h.1, by omega⟩
      | some n =>
        simp only [pickRaw] at h
        by_cases hp : ePrio n.flags > ePrio w'.flags
        · simp only [hp, if_true] at h
          injection h with h; subst h
          refine ⟨0, rfl, ?_⟩
          intro j m hj
          cases j with
          | zero => simp at hj; subst hj; exact .inr ⟨rfl, Nat.le_refl _⟩
          | succ j =>
            simp only [List.getElem?_cons_succ] at hj
            rcases hmax j m hj with h | h
            · exact .inl (by omega)
            · exact .inl (by omega)
        · simp only [hp, if_false] at h
          injection h with h; subst h
          refine ⟨i' + 1, by simpa using hi', ?_⟩
          intro j m hj
          cases j with
          | zero =>
            have e : n = m := by simpa using hj
            rw [← e]
            by_cases he : ePrio n.flags = ePrio w'.flags
            · exact .inr ⟨he, by omega⟩
            · exact .inl (by omega)
          | succ j =>
            simp only [List.getElem?_cons_succ] at hj
            rcases hmax j m hj with h | h
            · exact .inl h
            · exact .inr ⟨h.1, by omega⟩


/-! ### a Boolean test for shape compatibility (used to discharge concrete examples) -/

mutual
def compatB : Node → Node → Bool
  | .leaf _ _, b => !b.isComp
  | .comp _ _ cs, b => b.isComp && compatBList cs b.children
def compatBList : List (Key × Node) → List (Key × Node) → Bool
  | [], _ => true
  | (k, c) :: rest, ds =>
    (match alookup k ds with | none => true | some d => compatB c d) && compatBList rest ds
end

mutual
theorem compatP_of_compatB : ∀ (a b : Node), compatB a b = true → compatP a b
  | .leaf f k, b, h => by
    have hb : b.isComp = false := by simpa [compatB] using h
    intro p x y hx hy
    cases p with
    | nil =>
      rw [shapeAt_nil] at hx hy
      injection hx with hx; injection hy with hy
      rw [← hx, ← hy, hb]; rfl
    | cons key rest => rw [shapeAt_leaf_cons] at hx; cases hx
  | .comp f k cs, b, h => by
    have h' : b.isComp = true ∧ compatBList cs b.children = true := by simpa [compatB] using h
    cases b with
    | leaf fb kb => cases h'.1
    | comp fb kb cb =>
      intro p x y hx hy
      cases p with
      | nil =>
        rw [shapeAt_nil] at hx hy
        injection hx with hx; injection hy with hy
        rw [← hx, ← hy]; rfl
      | cons key rest =>
        rw [shapeAt_comp_cons] at hx hy
        cases hc : alookup key cs with
        | none => rw [hc] at hx; cases hx
        | some c =>
          cases hd : alookup key cb with
          | none => rw [hd] at hy; cases hy
          | some d =>
            rw [hc] at hx; rw [hd] at hy
            exact compatP_of_compatBList cs cb h'.2 key c d hc hd rest x y hx hy
theorem compatP_of_compatBList : ∀ (cs ds : List (Key × Node)), compatBList cs ds = true →
    ∀ k c d, alookup k cs = some c → alookup k ds = some d → compatP c d
  | [], _, _, k, c, d, hc, _ => by simp [alookup] at hc
  | (k', c') :: rest, ds, h, k, c, d, hc, hd => by
    simp only [compatBList, Bool.and_eq_true] at h
    by_cases e : k' = k
    · subst e
      simp [alookup] at hc
      subst hc
      have h1 := h.1
      rw [hd] at h1
      exact compatP_of_compatB c' d h1
    · simp [alookup, e] at hc
      exact compatP_of_compatBList rest ds h.2 k c d hc hd
end

def pairwiseCompatB : List Node → Bool
  | [] => true
  | d :: ds => ds.all (compatB d) && pairwiseCompatB ds

theorem pairwiseCompat_of_B : ∀ l : List Node, pairwiseCompatB l = true → pairwiseCompat l
  | [], _ => trivial
  | d :: ds, h => by
    simp only [pairwiseCompatB, Bool.and_eq_true, List.all_eq_true] at h
    exact ⟨fun c hc => compatP_of_compatB d c (h.1 c hc), pairwiseCompat_of_B ds h.2⟩

/-- decidable view of a leaf for the concrete examples: its scalar and its priority -/
def vps (n : Node) : Option Scalar × Int :=
  (match n with | .leaf _ (.scalar v) => some v | _ => none, ePrio n.flags)

theorem compatP_refl (a : Node) : compatP a a := by
  intro p x y hx hy; rw [hx] at hy; injection hy

theorem compatP_symm {a b : Node} (h : compatP a b) : compatP b a :=
  fun p x y hx hy => (h p y x hy hx).symm

end AY
