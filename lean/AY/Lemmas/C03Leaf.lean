/-
  AY.Lemmas.C03Leaf — the leaf rule of the merge (`ConfigNode.ayns.on_merge_impl`) and the
  combination of user metadata (`{**loser, **winner}`), for property C03.
-/
import AY.Model.Merge
namespace AY

/-! ### string-keyed metadata -/

/-- `md.get(k)` -/
def mlookup (k : String) : List (String × Scalar) → Option Scalar
  | [] => none
  | (k', v) :: rest => if k' = k then some v else mlookup k rest

/-- the value a dict literal with repeated keys would end up with (last occurrence) -/
def mlookupLast (k : String) : List (String × Scalar) → Option Scalar
  | [] => none
  | (k', v) :: rest =>
    match mlookupLast k rest with
    | some w => some w
    | none => if k' = k then some v else none

def mkeys : List (String × Scalar) → List String
  | [] => []
  | (k, _) :: rest => k :: mkeys rest

/-- no metadata key occurs twice (always the case for a Python dict) -/
def mNodup : List (String × Scalar) → Bool
  | [] => true
  | (k, _) :: rest => !(mkeys rest).contains k && mNodup rest

theorem mlookup_none_iff (k : String) :
    ∀ l : List (String × Scalar), mlookup k l = none ↔ (mkeys l).contains k = false
  | [] => by simp [mlookup, mkeys]
  | (k', v) :: rest => by
    by_cases h : k' = k
    · simp [mlookup, mkeys, h]
    · have h' : ¬ k = k' := fun e => h e.symm
      simp [mlookup, mkeys, h, h', mlookup_none_iff k rest]

theorem mlookupLast_of_nodup (k : String) :
    ∀ l : List (String × Scalar), mNodup l = true → mlookupLast k l = mlookup k l
  | [], _ => rfl
  | (k', v) :: rest, h => by
    have h' : (mkeys rest).contains k' = false ∧ mNodup rest = true := by simpa [mNodup] using h
    have ih := mlookupLast_of_nodup k rest h'.2
    by_cases hk : k' = k
    · subst hk
      have : mlookup k' rest = none := (mlookup_none_iff k' rest).2 h'.1
      simp [mlookupLast, mlookup, ih, this]
    · simp only [mlookupLast, mlookup, hk, if_false, ih]
      cases mlookup k rest <;> rfl

theorem mlookup_msetOne (k k' : String) (v : Scalar) :
    ∀ l : List (String × Scalar), mlookup k (msetOne k' v l) = if k' = k then some v else mlookup k l
  | [] => by simp [msetOne, mlookup]
  | (k'', v'') :: rest => by
    by_cases h : k'' = k'
    · subst h
      by_cases h2 : k'' = k <;> simp [msetOne, mlookup, h2]
    · by_cases h2 : k'' = k
      · subst h2
        have : ¬ k' = k'' := fun e => h e.symm
        simp [msetOne, mlookup, h, this]
      · simp [msetOne, mlookup, h, h2, mlookup_msetOne k k' v rest]

theorem mmerge_nil (a : List (String × Scalar)) : mmerge a [] = a := rfl

theorem mmerge_cons (a : List (String × Scalar)) (kv : String × Scalar) (rest : List (String × Scalar)) :
    mmerge a (kv :: rest) = mmerge (msetOne kv.1 kv.2 a) rest := rfl

/-- `{**x, **y}[k]`: the value of `y` when it has the key, else the value of `x` -/
theorem mlookup_mmerge (k : String) : ∀ (y x : List (String × Scalar)),
    mlookup k (mmerge x y) = (match mlookupLast k y with | some v => some v | none => mlookup k x)
  | [], x => rfl
  | (k', v) :: rest, x => by
    rw [mmerge_cons, mlookup_mmerge k rest, mlookup_msetOne]
    simp only [mlookupLast]
    cases mlookupLast k rest with
    | some w => rfl
    | none => by_cases h : k' = k <;> simp [h]

theorem mkeys_msetOne_of_some (k : String) (v : Scalar) :
    ∀ l : List (String × Scalar), (mlookup k l).isSome = true → mkeys (msetOne k v l) = mkeys l
  | [], h => by simp [mlookup] at h
  | (k', v') :: rest, h => by
    by_cases hk : k' = k
    · simp [msetOne, mkeys, hk]
    · simp [mlookup, hk] at h
      simp [msetOne, mkeys, hk, mkeys_msetOne_of_some k v rest h]

theorem msetOne_of_none (k : String) (v : Scalar) :
    ∀ l : List (String × Scalar), mlookup k l = none → msetOne k v l = l ++ [(k, v)]
  | [], _ => rfl
  | (k', v') :: rest, h => by
    by_cases hk : k' = k
    · simp [mlookup, hk] at h
    · simp [mlookup, hk] at h
      simp [msetOne, hk, msetOne_of_none k v rest h]

theorem mkeys_append : ∀ l₁ l₂ : List (String × Scalar), mkeys (l₁ ++ l₂) = mkeys l₁ ++ mkeys l₂
  | [], _ => rfl
  | (k, v) :: rest, l₂ => by simp [mkeys, mkeys_append rest l₂]

/-- one insertion keeps the existing keys in place and appends at most the new key -/
theorem mkeys_msetOne (k : String) (v : Scalar) (l : List (String × Scalar)) :
    mkeys (msetOne k v l) = if (mlookup k l).isSome then mkeys l else mkeys l ++ [k] := by
  cases h : mlookup k l with
  | some w => simp [mkeys_msetOne_of_some k v l (by rw [h]; rfl)]
  | none => simp [msetOne_of_none k v l h, mkeys_append, mkeys]

theorem mNodup_append_single (k : String) (v : Scalar) :
    ∀ l : List (String × Scalar), mNodup l = true → mlookup k l = none → mNodup (l ++ [(k, v)]) = true
  | [], _, _ => rfl
  | (k', v') :: rest, h, hk => by
    have h' : (mkeys rest).contains k' = false ∧ mNodup rest = true := by simpa [mNodup] using h
    have hne : ¬ k' = k := by intro e; simp [mlookup, e] at hk
    have hk' : mlookup k rest = none := by simpa [mlookup, hne] using hk
    have hne' : ¬ k = k' := fun e => hne e.symm
    have := mNodup_append_single k v rest h'.2 hk'
    simp only [List.cons_append, mNodup, this, Bool.and_true, mkeys_append, mkeys]
    simp at h' ⊢
    exact ⟨h'.1, hne⟩

theorem mNodup_msetOne (k : String) (v : Scalar) (l : List (String × Scalar)) (h : mNodup l = true) :
    mNodup (msetOne k v l) = true := by
  cases hl : mlookup k l with
  | none => rw [msetOne_of_none k v l hl]; exact mNodup_append_single k v l h hl
  | some w =>
    have hk := mkeys_msetOne_of_some k v l (by rw [hl]; rfl)
    clear hl
    induction l with
    | nil => rfl
    | cons kv rest ih =>
      obtain ⟨k', v'⟩ := kv
      have h' : (mkeys rest).contains k' = false ∧ mNodup rest = true := by simpa [mNodup] using h
      by_cases e : k' = k
      · subst e; simpa [msetOne, mNodup] using h
      · simp only [msetOne, e, if_false, mkeys, List.cons.injEq, true_and] at hk
        simp only [msetOne, e, if_false, mNodup, hk, ih h'.2 hk, Bool.and_true]
        simpa using h'.1

/-- the combination of two metadata dicts has no repeated key -/
theorem mNodup_mmerge : ∀ (y x : List (String × Scalar)), mNodup x = true → mNodup (mmerge x y) = true
  | [], _, h => h
  | (k, v) :: rest, x, h => by
    rw [mmerge_cons]; exact mNodup_mmerge rest _ (mNodup_msetOne k v x h)

/-- the keys of the older dict stay in front, in their order -/
theorem mkeys_mmerge_prefix : ∀ (y x : List (String × Scalar)), ∃ extra, mkeys (mmerge x y) = mkeys x ++ extra
  | [], x => ⟨[], by simp [mmerge_nil]⟩
  | (k, v) :: rest, x => by
    obtain ⟨extra, he⟩ := mkeys_mmerge_prefix rest (msetOne k v x)
    rw [mmerge_cons, he, mkeys_msetOne]
    split
    · exact ⟨extra, rfl⟩
    · exact ⟨k :: extra, by simp⟩

theorem mlookupLast_isSome (k : String) :
    ∀ l : List (String × Scalar), (mlookupLast k l).isSome = (mlookup k l).isSome
  | [] => rfl
  | (k', v) :: rest => by
    have ih := mlookupLast_isSome k rest
    by_cases h : k' = k
    · cases hl : mlookupLast k rest <;> simp [mlookupLast, mlookup, h, hl]
    · cases hl : mlookupLast k rest <;> simp_all [mlookupLast, mlookup]

/-- key set of the combination = union of the key sets -/
theorem mlookup_mmerge_isSome (k : String) (x y : List (String × Scalar)) :
    (mlookup k (mmerge x y)).isSome = ((mlookup k x).isSome || (mlookup k y).isSome) := by
  rw [mlookup_mmerge, ← mlookupLast_isSome k y]
  cases mlookupLast k y <;> simp

/-! ### the leaf rule -/

theorem hasPrio_false_iff (a b : Flags) : hasPrio a b false = true ↔ ePrio a > ePrio b := by
  simp only [hasPrio]
  split
  · rename_i h; simp [h]
  · simp

theorem hasPrio_true_iff (a b : Flags) : hasPrio a b true = true ↔ ePrio a ≥ ePrio b := by
  simp only [hasPrio]
  split
  · rename_i h; simp [h]
  · rename_i h; simp; omega

theorem leafRule_self_wins {a b : Node} (h : ePrio a.flags > ePrio b.flags) :
    leafRule a b = (propagate (a.setFlags (replaceOtherFlags a.flags b.flags)), true) := by
  simp [leafRule, (hasPrio_false_iff _ _).2 h]

theorem leafRule_other_wins {a b : Node} (h : ¬ ePrio a.flags > ePrio b.flags) :
    leafRule a b = (propagate (b.setFlags (replaceOtherFlags b.flags a.flags)), false) := by
  have : hasPrio a.flags b.flags false = false := by
    cases hh : hasPrio a.flags b.flags false with
    | false => rfl
    | true => exact absurd ((hasPrio_false_iff _ _).1 hh) h
  simp [leafRule, this]

theorem replaceOtherFlags_prio (w l : Flags) : (replaceOtherFlags w l).prio = w.prio := rfl
theorem replaceOtherFlags_md (w l : Flags) : (replaceOtherFlags w l).md = mmerge l.md w.md := rfl
theorem replaceOtherFlags_del (w l : Flags) : (replaceOtherFlags w l).del = w.del := rfl
theorem replaceOtherFlags_iDel (w l : Flags) : (replaceOtherFlags w l).iDel = w.iDel := rfl
theorem replaceOtherFlags_iNew (w l : Flags) : (replaceOtherFlags w l).iNew = w.iNew := rfl
theorem replaceOtherFlags_new (w l : Flags) : (replaceOtherFlags w l).new = w.new := rfl
theorem replaceOtherFlags_ePrio (w l : Flags) : ePrio (replaceOtherFlags w l) = ePrio w := rfl

theorem replaceSelfFlags_prio (s o : Flags) : (replaceSelfFlags s o).prio = o.prio := rfl
theorem replaceSelfFlags_del (s o : Flags) : (replaceSelfFlags s o).del = o.del := rfl
theorem replaceSelfFlags_md (s o : Flags) : (replaceSelfFlags s o).md = mmerge s.md o.md := rfl
theorem replaceSelfFlags_iDel (s o : Flags) : (replaceSelfFlags s o).iDel = s.iDel := rfl
theorem replaceSelfFlags_iNew (s o : Flags) : (replaceSelfFlags s o).iNew = s.iNew := rfl
theorem replaceSelfFlags_new (s o : Flags) : (replaceSelfFlags s o).new = s.new := rfl

theorem flags_setFlags (n : Node) (f : Flags) : (n.setFlags f).flags = f := by
  cases n <;> rfl

/-- `_propagate_implicit_values` never touches the node's own flags -/
theorem flags_propagate (n : Node) : (propagate n).flags = n.flags := by
  cases n with
  | leaf f k => rfl
  | comp f k cs => simp only [propagate]; split <;> rfl

theorem propagate_leaf (f : Flags) (k : LeafKind) : propagate (.leaf f k) = .leaf f k := rfl

theorem isComp_propagate (n : Node) : (propagate n).isComp = n.isComp := by
  cases n with
  | leaf f k => rfl
  | comp f k cs => simp only [propagate]; split <;> rfl

end AY
