/-
  AY.Lemmas.C18CongrMerge — `mergeF` is a congruence for the C18 relations.

  For accumulated trees `a ~ a'` (`congN s`), newer documents `b ~ b'` (`congN t` and `docN`), all four
  flag-consistent, `mergeF fuel a b` and `mergeF fuel a' b'` fail with the same error or succeed with
  the same is-self flag and results related by `congN (s && t)`.  All node kinds `mergeF` dispatches
  on are covered (mappings, function nodes, the list family, leaves).
-/
import AY.Lemmas.C18CongrForce
set_option linter.unusedVariables false
set_option linter.unusedSimpArgs false
namespace AY

/-! ### `_replace_self` / `_replace_other` on the compared fields -/

theorem uS_mergeSafe (w l : Flags) : uS (mergeSafe w l) = (uS w || uS l) := by
  simp only [uS, mergeSafe]
  rcases hl : l.safe with _ | _ | _ <;> rcases hw : w.safe with _ | _ | _ <;> simp

theorem uS_replaceOther (w l : Flags) : uS (replaceOtherFlags w l) = (uS w || uS l) := uS_mergeSafe w l
theorem uS_replaceSelf (s o : Flags) : uS (replaceSelfFlags s o) = (uS s || uS o) := uS_mergeSafe s o

theorem congF_replaceOther {s t : Bool} {w w' l l' : Flags} (hw : congF s w w' = true) (hl : congF t l l' = true) :
    congF (s && t) (replaceOtherFlags w l) (replaceOtherFlags w' l') = true := by
  rw [congF_iff] at hw hl ⊢
  obtain ⟨w1, w2, w3, w4, w5, w6⟩ := hw
  obtain ⟨l1, l2, l3, l4, l5, l6⟩ := hl
  refine ⟨w1, ?_, ?_, w4, w5, fun e => ?_⟩
  · show mmerge l.md w.md = mmerge l'.md w'.md
    rw [w2, l2]
  · show (w.dSafe && l.dSafe) = (w'.dSafe && l'.dSafe)
    rw [w3, l3]
  · simp only [Bool.and_eq_true] at e
    refine ⟨(w6 e.1).1, ?_⟩
    rw [uS_replaceOther, uS_replaceOther, (w6 e.1).2, (l6 e.2).2]

theorem congF_replaceSelf {s t : Bool} {a a' o o' : Flags} (ha : congF s a a' = true) (ho : congF t o o' = true) :
    congF (s && t) (replaceSelfFlags a o) (replaceSelfFlags a' o') = true := by
  rw [congF_iff] at ha ho ⊢
  obtain ⟨a1, a2, a3, a4, a5, a6⟩ := ha
  obtain ⟨o1, o2, o3, o4, o5, o6⟩ := ho
  refine ⟨o1, ?_, ?_, a4, o5, fun e => ?_⟩
  · show mmerge a.md o.md = mmerge a'.md o'.md
    rw [a2, o2]
  · show (a.dSafe && o.dSafe) = (a'.dSafe && o'.dSafe)
    rw [a3, o3]
  · simp only [Bool.and_eq_true] at e
    refine ⟨(a6 e.1).1, ?_⟩
    rw [uS_replaceSelf, uS_replaceSelf, (a6 e.1).2, (o6 e.2).2]

theorem handOK_mono {s s' : Bool} {pf pf' : Flags} (hs : s' = true → s = true) (h : HandOK s pf pf') :
    HandOK s' pf pf' := fun e => h (hs e)

/-! ### a node that takes over new flags and re-propagates -/

theorem propagate_setFlags_cong {m s : Bool} {x x' : Node} {nf nf' : Flags} (hx : congN s x x' = true)
    (hcx : ConsistentBelow x = true) (hcx' : ConsistentBelow x' = true) (hf : congF m nf nf' = true)
    (hm : (m && !uS nf) = true → (s && !uS x.flags) = true) :
    congN m (propagate (x.setFlags nf)) (propagate (x'.setFlags nf')) = true := by
  cases x with
  | leaf f k =>
    obtain ⟨f', rfl, _⟩ := congN_leaf_inv hx
    exact congN_leaf_iff.2 ⟨rfl, hf⟩
  | comp f k cs =>
    obtain ⟨f', cs', rfl, _, h3⟩ := congN_comp_inv hx
    exact propagate_cong k hf h3 hcx hcx' hm

theorem leafRule_cong {s t : Bool} {a a' b b' : Node} (ha : congN s a a' = true) (hb : congN t b b' = true)
    (hca : ConsistentBelow a = true) (hca' : ConsistentBelow a' = true) (hcb : ConsistentBelow b = true)
    (hcb' : ConsistentBelow b' = true) :
    (leafRule a b).2 = (leafRule a' b').2 ∧ congN (s && t) (leafRule a b).1 (leafRule a' b').1 = true := by
  have hfa := congN_flags ha
  have hfb := congN_flags hb
  have hp := hasPrio_cong (congF_prio hfa) (congF_prio hfb) false
  simp only [leafRule, ← hp]
  split
  · refine ⟨rfl, propagate_setFlags_cong ha hca hca' (congF_replaceOther hfa hfb) ?_⟩
    intro e
    rw [uS_replaceOther] at e
    revert e
    cases s <;> cases t <;> cases uS a.flags <;> cases uS b.flags <;> simp
  · refine ⟨rfl, propagate_setFlags_cong hb hcb hcb' ?_ ?_⟩
    · rw [Bool.and_comm]; exact congF_replaceOther hfb hfa
    · intro e
      rw [uS_replaceOther] at e
      revert e
      cases s <;> cases t <;> cases uS a.flags <;> cases uS b.flags <;> simp

/-! ### `get_first_not_missing_node` -/

theorem firstNotMissing_prio : ∀ (p : Path) (n n' : Node) {s : Bool}, congN s n n' = true →
    ePrio (firstNotMissing n p).flags = ePrio (firstNotMissing n' p).flags
  | [], n, n', s, h => by
    have := congF_prio (congN_flags h)
    cases n <;> cases n' <;> simpa [firstNotMissing] using this
  | key :: rest, .leaf f k, n', s, h => by
    obtain ⟨f', rfl, h2⟩ := congN_leaf_inv h
    simpa [firstNotMissing, Node.flags] using congF_prio h2
  | key :: rest, .comp f k cs, n', s, h => by
    obtain ⟨f', cs', rfl, h2, h3⟩ := congN_comp_inv h
    simp only [firstNotMissing]
    rcases congL_alookup h3 key with ⟨e1, e2⟩ | ⟨c, c', e1, e2, e3⟩
    · rw [e1, e2]; simpa [Node.flags] using congF_prio h2
    · rw [e1, e2]; exact firstNotMissing_prio rest c c' e3

/-! ### `filter_nodes` -/

/-- the two filter conditions agree on related nodes (`d`: the nodes are also `docN`-related) -/
def CondOK (d : Bool) (cond cond' : Path → Node → Bool) : Prop :=
  ∀ p x x', congN false x x' = true → (d = true → docN x x' = true) → cond p x = cond' p x'

theorem listDelAt_id {pf : Flags} {pk : CompKind} (i : Nat) {cs : List (Key × Node)}
    (h : consistentList (childKw pf pk) cs = true) :
    listDelAt pf pk i cs = renumFrom 0 ((cs.take i ++ cs.drop (i + 1)).map (·.2)) := by
  simp only [listDelAt, renum, List.map_append]
  congr 2
  apply List.map_congr_left
  intro kv hm
  have := (consistentList_iff _ cs).1 h kv (List.mem_of_mem_drop hm)
  exact adopt_id this.2 this.1

theorem removeChild_doc {s : Bool} {pf pf' : Flags} (pk : CompKind) (name : Key) {cs cs' xs xs' : List (Key × Node)}
    (hcs : congL s cs cs' = true) (hd : docL cs cs' = true) (hc : consistentList (childKw pf pk) cs = true)
    (hc' : consistentList (childKw pf' pk) cs' = true) (e : removeChild pf pk name cs = some xs)
    (e' : removeChild pf' pk name cs' = some xs') : docL xs xs' = true := by
  simp only [removeChild, ← congL_length hcs, ← congL_ahas hcs name] at e e'
  by_cases h1 : pk.isDictFam = true
  · simp only [h1, if_true] at e e'
    by_cases h2 : ahas name cs = true
    · simp only [h2, if_true, Option.some.injEq] at e e'
      subst e; subst e'
      exact docL_aerase name hcs hd
    · simp only [h2, if_false] at e
      cases e
  · simp only [h1, Bool.false_eq_true, if_false] at e e'
    cases hv : validateIndex cs.length true name with
    | none => simp only [hv] at e; cases e
    | some i =>
      simp only [hv, Option.some.injEq] at e e'
      subst e; subst e'
      rw [listDelAt_id i hc, listDelAt_id i hc']
      exact docL_renum _ _ 0 (docL_append (docL_take i hd) (docL_drop (i + 1) hd))

theorem removeMany_doc {s : Bool} {pf pf' : Flags} (pk : CompKind) (hp : HandOK s pf pf') :
    ∀ (names : List Key) (cs cs' : List (Key × Node)), congL s cs cs' = true → docL cs cs' = true →
    consistentList (childKw pf pk) cs = true → consistentList (childKw pf' pk) cs' = true →
    docL (removeMany pf pk names cs) (removeMany pf' pk names cs') = true
  | [], cs, cs', _, hd, _, _ => hd
  | nm :: rest, cs, cs', h, hd, hc, hc' => by
    have hr := removeChild_cong pk nm h (consistentList_weaken hc) (consistentList_weaken hc') hp
    simp only [removeMany]
    cases e1 : removeChild pf pk nm cs <;> cases e2 : removeChild pf' pk nm cs' <;> simp only [e1, e2, opRel] at hr
    · exact removeMany_doc pk hp rest cs cs' h hd hc hc'
    · exact removeMany_doc pk hp rest _ _ hr (removeChild_doc pk nm h hd hc hc' e1 e2)
        (removeChild_cons (kwLe_self pf pk) hc e1) (removeChild_cons (kwLe_self pf' pk) hc' e2)

mutual
theorem filterNode_cong (d : Bool) (cond cond' : Path → Node → Bool) (hco : CondOK d cond cond') :
    ∀ (pre : Path) (n n' : Node) (s : Bool), congN s n n' = true → (d = true → docN n n' = true) →
    FlagsConsistent n = true → FlagsConsistent n' = true →
    congN s (filterNode cond pre n).1 (filterNode cond' pre n').1 = true ∧
      (d = true → docN (filterNode cond pre n).1 (filterNode cond' pre n').1 = true) ∧
      (filterNode cond pre n).2 = (filterNode cond' pre n').2
  | pre, .leaf f k, n', s, h, hd, _, _ => by
    obtain ⟨f', rfl, _⟩ := congN_leaf_inv h
    exact ⟨by simpa [filterNode] using h, by simpa [filterNode] using hd, rfl⟩
  | pre, .comp f k cs, n', s, h, hd, hc, hc' => by
    obtain ⟨f', cs', rfl, h2, h3⟩ := congN_comp_inv h
    simp only [FlagsConsistent] at hc hc'
    have hdl : d = true → docL cs cs' = true := fun e => (docN_comp_iff.1 (hd e)).2.2
    obtain ⟨i1, i2, i3, i4⟩ := filterList_cong d cond cond' hco pre cs cs' (s && !uS f) h3 hdl hc hc'
    have hk1 := filterList_cons cond (childKw f k) pre cs hc
    have hk1' := filterList_cons cond' (childKw f' k) pre cs' hc'
    have hp : HandOK (s && !uS f) f f' := handOK_child h2
    simp only [filterNode, i1, i4]
    refine ⟨congN_comp_iff.2 ⟨rfl, h2, removeMany_cong k _ _ _ i2 (consistentList_weaken hk1)
      (consistentList_weaken hk1') hp⟩, fun e => ?_, by first | trivial | rfl⟩
    have hdn := (docN_comp_iff.1 (hd e))
    refine docN_comp_iff.2 ⟨rfl, ?_, removeMany_doc k hp _ _ _ i2 (i3 e) hk1 hk1'⟩
    have := hdn.2.1
    rw [docF_iff] at this ⊢
    exact this
theorem filterList_cong (d : Bool) (cond cond' : Path → Node → Bool) (hco : CondOK d cond cond') :
    ∀ (pre : Path) (cs cs' : List (Key × Node)) (s : Bool), congL s cs cs' = true → (d = true → docL cs cs' = true) →
    {kw kw' : Option ChildKw} → consistentList kw cs = true → consistentList kw' cs' = true →
    notKeptNames (filterList cond pre cs).1 = notKeptNames (filterList cond' pre cs').1 ∧
      congL s (dropMarks (filterList cond pre cs).1) (dropMarks (filterList cond' pre cs').1) = true ∧
      (d = true → docL (dropMarks (filterList cond pre cs).1) (dropMarks (filterList cond' pre cs').1) = true) ∧
      (filterList cond pre cs).2 = (filterList cond' pre cs').2
  | pre, [], cs', s, h, _, _, _, _, _ => by rw [congL_nil_inv h]; exact ⟨rfl, rfl, fun _ => rfl, rfl⟩
  | pre, (name, child) :: rest, cs', s, h, hd, kw, kw', hc, hc' => by
    obtain ⟨child', rest', rfl, h2, h3⟩ := congL_cons_inv h
    rw [consistentList_cons] at hc hc'
    have hd1 : d = true → docN child child' = true := fun e => (docL_cons_iff.1 (hd e)).1
    have hd2 : d = true → docL rest rest' = true := fun e => (docL_cons_iff.1 (hd e)).2
    obtain ⟨a1, a2, a3⟩ := filterNode_cong d cond cond' hco (pre ++ [name]) child child' s h2 hd1 hc.2.1 hc'.2.1
    obtain ⟨b1, b2, b3, b4⟩ := filterList_cong d cond cond' hco pre rest rest' s h3 hd2 hc.2.2 hc'.2.2
    have hcond := hco (pre ++ [name]) child child' (congN_false h2) hd1
    have hemp := congL_isEmpty (congN_children a1)
    simp only [filterList, notKeptNames, dropMarks, hcond, congN_isComp h2, hemp, b1, a3, b4]
    refine ⟨?_, congL_cons_iff.2 ⟨rfl, a1, b2⟩, fun e => docL_cons_iff.2 ⟨a2 e, b3 e⟩, by first | trivial | rfl⟩
    first | trivial | (split <;> rfl)
end

/-! ### `_require_all_new` with exceptions; list index validation -/

theorem listKeysValid_cong : ∀ {s : Bool} (len : Nat) (l l' : List (Key × Node)), congL s l l' = true →
    listKeysValid len l = listKeysValid len l'
  | _, _, [], l', h => by rw [congL_nil_inv h]
  | s, len, (k, c) :: r, l', h => by
    obtain ⟨c', r', rfl, _, h3⟩ := congL_cons_inv h
    simp only [listKeysValid, listKeysValid_cong len r r' h3]

/-! ### promotion followed by re-propagation (the tail of every composed merge) -/

/-- the flags of a promoted node (`promotedFlags`): related when the flags handed in are related and, where the safe
    flags are compared, the promoted nodes were equally safe -/
theorem congF_promoted {m tO : Bool} {F F' of of' : Flags} (hF : congF m F F' = true) (hof : congF tO of of' = true)
    (hmO : m = true → tO = true) : congF m (promotedFlags F of) (promotedFlags F' of') = true := by
  cases m with
  | false =>
    rw [congF_iff] at hF ⊢
    obtain ⟨h1, h2, h3, h4, h5, _⟩ := hF
    refine ⟨?_, ?_, ?_, ?_, ?_, fun e => by cases e⟩ <;> (unfold promotedFlags; split <;> split <;> assumption)
  | true =>
    have ht : tO = true := hmO rfl
    subst ht
    have he := congF_eSafe hof
    unfold promotedFlags
    rw [← he]
    split
    · exact hF
    · rw [congF_iff] at hF ⊢
      obtain ⟨h1, h2, h3, h4, h5, h6⟩ := hF
      exact ⟨h1, h2, h3, h4, h5, fun e => ⟨(h6 e).1, rfl⟩⟩

theorem childMode_promoted {m : Bool} {F of : Flags} (h : (m && !uS (promotedFlags F of)) = true) :
    (m && !uS F) = true := by
  unfold promotedFlags at h
  split at h
  · exact h
  · simp [uS] at h

/-- `_maybe_promote` then `_propagate_implicit_values` -/
def promoteThen (F : Flags) (K : CompKind) (CS : List (Key × Node)) (O : Node) : Except Err (Node × Bool) :=
  match maybePromote F K CS O with
  | .error e => .error e
  | .ok (r, same) => .ok (propagate r, same)

theorem finishMerge_eq (sf : Flags) (sk : CompKind) (scs : List (Key × Node)) (o : Node) :
    finishMerge sf sk scs o =
      if hasPrio o.flags sf true then promoteThen (replaceSelfFlags sf o.flags) sk scs o
      else promoteThen (replaceOtherFlags sf o.flags) sk scs o := by
  unfold finishMerge promoteThen
  by_cases h : hasPrio o.flags sf true = true
  · simp only [h, if_true]
    cases maybePromote (replaceSelfFlags sf o.flags) sk scs o <;> rfl
  · simp only [h, if_false]
    cases maybePromote (replaceOtherFlags sf o.flags) sk scs o <;> rfl

/-- the result relation of a merge: same error, or same is-self flag and related nodes -/
def ResRel (m : Bool) (x y : Except Err (Node × Bool)) : Prop :=
  exRel (fun p q => p.2 = q.2 ∧ congN m p.1 q.1 = true) x y

theorem promoteThen_cong {m c tO : Bool} {F F' : Flags} (K : CompKind) {CS CS' : List (Key × Node)} {O O' : Node}
    (hF : congF m F F' = true) (hCS : congL c CS CS' = true) (hm : (m && !uS F) = true → c = true)
    (hO : congN tO O O' = true) (hmO : m = true → tO = true)
    (hc : allConsistent CS = true) (hc' : allConsistent CS' = true) :
    ResRel m (promoteThen F K CS O) (promoteThen F' K CS' O') := by
  have base : ∀ K2, ResRel m (.ok (propagate (.comp F K2 CS), true)) (.ok (propagate (.comp F' K2 CS'), true)) :=
    fun K2 => ⟨rfl, propagate_cong K2 hF hCS hc hc' hm⟩
  cases O with
  | leaf of lk =>
    obtain ⟨of', rfl, _⟩ := congN_leaf_inv hO
    simpa only [promoteThen, maybePromote] using base K
  | comp of ok ocs =>
    obtain ⟨of', ocs', rfl, hof, _⟩ := congN_comp_inv hO
    -- adoption of the children by the promoted node, in the mode of the result's children
    have hCS0 : congL (m && !uS F) CS CS' = true := congL_mono CS CS' c _ hm hCS
    have hp : HandOK (m && !uS F) of of' := by
      intro e
      simp only [Bool.and_eq_true] at e
      have : tO = true := hmO e.1
      subst this
      exact congF_hf hof
    have adoptCase : ResRel m
        (match adoptAll of ok CS [] with
          | .error e => .error e
          | .ok cs' => (.ok (propagate (.comp (promotedFlags F of) ok cs'), false) : Except Err (Node × Bool)))
        (match adoptAll of' ok CS' [] with
          | .error e => .error e
          | .ok cs' => (.ok (propagate (.comp (promotedFlags F' of') ok cs'), false) : Except Err (Node × Bool))) := by
      have ha := adoptAll_cong ok CS CS' [] [] hCS0 rfl hc hc' hp
      cases e1 : adoptAll of ok CS [] <;> cases e2 : adoptAll of' ok CS' [] <;> simp only [e1, e2, exRel] at ha
      · exact ha
      · rename_i x x'
        have hx := adoptAll_cons of ok CS [] x hc nil_cons e1
        have hx' := adoptAll_cons of' ok CS' [] x' hc' nil_cons e2
        exact ⟨rfl, propagate_cong ok (congF_promoted hF hof hmO) ha hx hx' childMode_promoted⟩
    simp only [promoteThen, maybePromote]
    by_cases h1 : K.sameClass ok = true
    · simp only [h1, if_true]; exact base K
    · simp only [h1, if_false]
      by_cases h2 : ok.strictSub K = true
      · simp only [h2, if_true]
        cases e1 : adoptAll of ok CS [] <;> cases e2 : adoptAll of' ok CS' [] <;> simp only [e1, e2] at adoptCase ⊢ <;>
          exact adoptCase
      · simp only [h2, if_false]
        by_cases h3 : K.strictSub ok = true
        · simp only [h3, if_true]; exact base K
        · simp only [h3, if_false]
          by_cases h4 : (K.isPlain && !ok.isPlain) = true
          · simp only [h4, if_true]
            by_cases h5 : K = .list
            · simp only [h5, if_true]
              cases e1 : adoptAll of ok CS [] <;> cases e2 : adoptAll of' ok CS' [] <;>
                simp only [e1, e2] at adoptCase ⊢ <;> exact adoptCase
            · simp only [h5, if_false]; exact rfl
          · simp only [h4, if_false]; exact base K

/-! ### the key loop -/

/-- what the loop needs from the recursive merge: it is a congruence, and for a scalar `self` that is
    replaced, the `allow_new` check below the result reads the same -/
def RecCong (rec : Node → Node → Except Err (Node × Bool)) : Prop :=
  ∀ (s t : Bool) (a a' b b' : Node), congN s a a' = true → congN t b b' = true → docN b b' = true →
    FlagsConsistent a = true → FlagsConsistent a' = true → FlagsConsistent b = true → FlagsConsistent b' = true →
    exRel (fun p q => p.2 = q.2 ∧ congN (s && t) p.1 q.1 = true ∧
      (a.isComp = false → p.2 = false → reqNewBelow p.1 = reqNewBelow q.1)) (rec a b) (rec a' b')

theorem mergeStep_cong {rec : Node → Node → Except Err (Node × Bool)} (hrec : RecCong rec) (hrc : RecCons rec)
    {u : Bool} {sf sf' : Flags} (sk : CompKind) (exc : List Path) {acc acc' : List (Key × Node)} {kv kv' : Key × Node}
    (hp : HandOK u sf sf') (hacc : congL u acc acc' = true) (hca : allConsistent acc = true)
    (hca' : allConsistent acc' = true) (hk : kv.1 = kv'.1) (hv : congN u kv.2 kv'.2 = true)
    (hd : docN kv.2 kv'.2 = true) (hcv : FlagsConsistent kv.2 = true) (hcv' : FlagsConsistent kv'.2 = true) :
    exRel (fun x y => congL u x y = true) (mergeStep rec sf sk exc acc kv) (mergeStep rec sf' sk exc acc' kv') := by
  obtain ⟨key, v⟩ := kv
  obtain ⟨key', v'⟩ := kv'
  simp only at hk hv hd hcv hcv'
  subst hk
  have hg := getChild_cong sk key hacc
  simp only [mergeStep]
  cases e1 : getChild sk key acc <;> cases e2 : getChild sk key acc' <;> simp only [e1, e2, opRel] at hg <;>
    dsimp only
  · -- a new key
    rw [reqNew_doc _ [] v v' hd (congN_false hv)]
    cases reqNew (excBelow key exc) [] v' with
    | some p => exact rfl
    | none => exact setChild_cong sk key hacc hv hcv hcv' hp
  · rename_i child child'
    have hcc := getChild_cons hca e1
    have hcc' := getChild_cons hca' e2
    have hr := hrec u u child child' v v' hg hv hd hcc hcc' hcv hcv'
    rw [Bool.and_self] at hr
    cases r1 : rec child v <;> cases r2 : rec child' v' <;> simp only [r1, r2, exRel] at hr <;> dsimp only
    · rw [hr]; exact rfl
    · rename_i x x'
      obtain ⟨nw, same⟩ := x
      obtain ⟨nw', same'⟩ := x'
      simp only at hr
      obtain ⟨rfl, hnw, hex⟩ := hr
      have hcn := hrc _ _ _ _ hcc hcv r1
      have hcn' := hrc _ _ _ _ hcc' hcv' r2
      have hfn := congN_flags hnw
      have hfv := congN_flags hv
      simp only [← congN_isComp hg, ← congN_truthy hnw,
        ← hasPrio_cong (congF_prio hfn) (congF_prio hfv) false, ← congF_delTrue hfv, ← congF_delTrue hfn]
      split
      · split
        · exact removeChildE_cong sk key hacc hca hca' hp
        · split
          · exact replaceChild_cong sk key hacc hnw
          · exact setChild_cong sk key hacc hnw hcn hcn' hp
      · rename_i hleaf
        split
        · exact replaceChild_cong sk key hacc hnw
        · rename_i hsame
          have hl : child.isComp = false := by simpa using hleaf
          have hs : same = false := by simpa using hsame
          rw [← hex hl hs]
          cases reqNewBelow nw with
          | some p => exact rfl
          | none =>
            simp only
            split
            · exact removeChildE_cong sk key hacc hca hca' hp
            · exact setChild_cong sk key hacc hnw hcn hcn' hp

theorem mergeLoop_cong {rec : Node → Node → Except Err (Node × Bool)} (hrec : RecCong rec) (hrc : RecCons rec)
    {u : Bool} {sf sf' : Flags} (sk : CompKind) (exc : List Path) (hp : HandOK u sf sf') :
    ∀ (acc acc' ocs ocs' : List (Key × Node)), congL u acc acc' = true → allConsistent acc = true →
    allConsistent acc' = true → congL u ocs ocs' = true → docL ocs ocs' = true → allConsistent ocs = true →
    allConsistent ocs' = true →
    exRel (fun x y => congL u x y = true) (mergeLoop rec sf sk exc acc ocs) (mergeLoop rec sf' sk exc acc' ocs')
  | acc, acc', [], ocs', hacc, _, _, ho, _, _, _ => by rw [congL_nil_inv ho]; exact hacc
  | acc, acc', (k, v) :: rest, ocs', hacc, hca, hca', ho, hd, hco, hco' => by
    obtain ⟨v', rest', rfl, h2, h3⟩ := congL_cons_inv ho
    rw [docL_cons_iff] at hd
    rw [allConsistent_cons] at hco hco'
    have hs := mergeStep_cong hrec hrc sk exc (kv := (k, v)) (kv' := (k, v')) hp hacc hca hca' rfl h2 hd.1 hco.1 hco'.1
    simp only [mergeLoop]
    cases e1 : mergeStep rec sf sk exc acc (k, v) <;> cases e2 : mergeStep rec sf' sk exc acc' (k, v') <;>
      simp only [e1, e2, exRel] at hs
    · exact hs
    · exact mergeLoop_cong hrec hrc sk exc hp _ _ rest rest' hs (mergeStep_cons hrc hca hco.1 e1)
        (mergeStep_cons hrc hca' hco'.1 e2) h3 hd.2 hco.2 hco'.2

/-! ### the composed merge -/

theorem finishMerge_cong {s t u : Bool} {sf sf' : Flags} (sk : CompKind) {scs scs' : List (Key × Node)} {o o' : Node}
    (hsf : congF s sf sf' = true) (ho : congN t o o' = true) (hscs : congL u scs scs' = true)
    (hu : ((s && t) && !(uS sf || uS o.flags)) = true → u = true)
    (hc : allConsistent scs = true) (hc' : allConsistent scs' = true) :
    ResRel (s && t) (finishMerge sf sk scs o) (finishMerge sf' sk scs' o') := by
  have hfo := congN_flags ho
  rw [finishMerge_eq, finishMerge_eq, ← hasPrio_cong (congF_prio hfo) (congF_prio hsf) true]
  have hmO : (s && t) = true → t = true := by cases s <;> cases t <;> simp
  split
  · exact promoteThen_cong sk (congF_replaceSelf hsf hfo) hscs (by rw [uS_replaceSelf]; exact hu) ho hmO hc hc'
  · exact promoteThen_cong sk (congF_replaceOther hsf hfo) hscs (by rw [uS_replaceOther]; exact hu) ho hmO hc hc'

theorem maybeKeep_condOK {t : Bool} {o o' : Node} (ho : congN t o o' = true) :
    CondOK false (maybeKeep o) (maybeKeep o') := by
  intro p x x' hx _
  simp only [maybeKeep]
  exact hasPrio_cong (congF_prio (congN_flags hx)) (firstNotMissing_prio p o o' ho) false

theorem filterNode_comp (cond : Path → Node → Bool) (pre : Path) (f : Flags) (k : CompKind) (cs : List (Key × Node)) :
    ∃ X, (filterNode cond pre (.comp f k cs)).1 = .comp f k X := ⟨_, rfl⟩

theorem compMerge_cong {rec : Node → Node → Except Err (Node × Bool)} (hrec : RecCong rec) (hrc : RecCons rec)
    {s t : Bool} {sf sf' : Flags} (sk : CompKind) {scs scs' : List (Key × Node)} {o o' : Node}
    (ha : congN s (.comp sf sk scs) (.comp sf' sk scs') = true) (ho : congN t o o' = true) (hd : docN o o' = true)
    (hca : FlagsConsistent (.comp sf sk scs) = true) (hca' : FlagsConsistent (.comp sf' sk scs') = true)
    (hco : FlagsConsistent o = true) (hco' : FlagsConsistent o' = true) :
    ResRel (s && t) (compMerge rec sf sk scs o) (compMerge rec sf' sk scs' o') := by
  obtain ⟨_, hsf, hscs⟩ := congN_comp_iff.1 ha
  have hall : allConsistent scs = true := by simp only [FlagsConsistent] at hca; exact consistentList_weaken hca
  have hall' : allConsistent scs' = true := by simp only [FlagsConsistent] at hca'; exact consistentList_weaken hca'
  cases o with
  | leaf of lk =>
    obtain ⟨of', rfl, _⟩ := congN_leaf_inv ho
    have := leafRule_cong ha ho hall hall' rfl rfl
    simp only [compMerge]
    exact ⟨this.1, this.2⟩
  | comp of ok ocs =>
    obtain ⟨of', ocs', rfl, hof, hocs⟩ := congN_comp_inv ho
    have hdl : docL ocs ocs' = true := (docN_comp_iff.1 hd).2.2
    have hoc : allConsistent ocs = true := by simp only [FlagsConsistent] at hco; exact consistentList_weaken hco
    have hoc' : allConsistent ocs' = true := by simp only [FlagsConsistent] at hco'; exact consistentList_weaken hco'
    -- the mode of the loop: both children modes
    have hmode : ∀ (x y : Bool), ((s && t) && !(x || y)) = ((s && !x) && (t && !y)) := by
      intro x y; cases s <;> cases t <;> cases x <;> cases y <;> rfl
    have loop : ∀ (acc acc' : List (Key × Node)) (exc : List Path), congL (s && !uS sf) acc acc' = true →
        allConsistent acc = true → allConsistent acc' = true →
        ResRel (s && t)
          (match mergeLoop rec sf sk exc acc ocs with
            | .error e => .error e
            | .ok scs1 => finishMerge sf sk scs1 (.comp of ok ocs))
          (match mergeLoop rec sf' sk exc acc' ocs' with
            | .error e => .error e
            | .ok scs1 => finishMerge sf' sk scs1 (.comp of' ok ocs')) := by
      intro acc acc' exc hacc hc hc'
      have hu1 : ((s && !uS sf) && (t && !uS of)) = true → (s && !uS sf) = true := by
        intro e; simp only [Bool.and_eq_true] at e ⊢; exact e.1
      have hu2 : ((s && !uS sf) && (t && !uS of)) = true → (t && !uS of) = true := by
        intro e; simp only [Bool.and_eq_true] at e ⊢; exact e.2
      have hl := mergeLoop_cong hrec hrc (u := (s && !uS sf) && (t && !uS of)) sk exc
        (handOK_mono hu1 (handOK_child hsf)) acc acc' ocs ocs'
        (congL_mono _ _ _ _ hu1 hacc) hc hc' (congL_mono _ _ _ _ hu2 hocs) hdl hoc hoc'
      cases e1 : mergeLoop rec sf sk exc acc ocs <;> cases e2 : mergeLoop rec sf' sk exc acc' ocs' <;>
        simp only [e1, e2, exRel] at hl
      · exact hl
      · rename_i x x'
        exact finishMerge_cong sk hsf ho hl (by rw [hmode]; exact fun e => e)
          (mergeLoop_cons hrc sf sk _ ocs x hc hoc e1) (mergeLoop_cons hrc sf' sk _ ocs' x' hc' hoc' e2)
    have hed := docN_eDel hd
    simp only [compMerge, ← hed]
    split
    · -- a deleting newer node: prune first
      obtain ⟨X, hX⟩ := filterNode_comp (maybeKeep (.comp of ok ocs)) [] sf sk scs
      obtain ⟨X', hX'⟩ := filterNode_comp (maybeKeep (.comp of' ok ocs')) [] sf' sk scs'
      obtain ⟨f1, _, f3⟩ := filterNode_cong false _ _ (maybeKeep_condOK ho) [] _ _ s ha (fun e => by cases e) hca hca'
      have hXc := filterNode_below (maybeKeep (.comp of ok ocs)) [] sf sk hall
      have hXc' := filterNode_below (maybeKeep (.comp of' ok ocs')) [] sf' sk hall'
      rw [hX] at f1 hXc
      rw [hX'] at f1 hXc'
      obtain ⟨_, _, hXX⟩ := congN_comp_iff.1 f1
      simp only [hX, hX', Node.children, ← f3, ← congL_isEmpty hXX,
        ← hasPrio_cong (congF_prio hof) (congF_prio hsf) true] at hXc hXc' ⊢
      split
      · rw [reqNew_doc _ [] _ _ hd (congN_false ho)]
        cases reqNew ([] :: (filterNode (maybeKeep (.comp of ok ocs)) [] (.comp sf sk scs)).2) []
            (.comp of' ok ocs') with
        | some p => exact rfl
        | none =>
          simp only
          have hpt := promoteThen_cong (m := s && t) (c := t && !uS of) (tO := s) ok
            (by rw [Bool.and_comm]; exact congF_replaceOther hof hsf) hocs
            (by
              rw [uS_replaceOther]
              intro e; revert e
              cases s <;> cases t <;> cases uS of <;> cases uS sf <;> simp)
            f1 (by cases s <;> cases t <;> simp) hoc hoc'
          simp only [promoteThen] at hpt
          cases e1 : maybePromote (replaceOtherFlags of sf) ok ocs (.comp sf sk X) <;>
            cases e2 : maybePromote (replaceOtherFlags of' sf') ok ocs' (.comp sf' sk X') <;>
            simp only [e1, e2, ResRel, exRel] at hpt ⊢
          · exact hpt
          · exact ⟨by rw [hpt.1], hpt.2⟩
      · exact loop X X' _ hXX hXc hXc'
    · exact loop scs scs' [] hscs hall hall'

theorem keepIfExists_condOK {s : Bool} {a a' : Node} (ha : congN s a a' = true) :
    CondOK true (keepIfExists a) (keepIfExists a') := by
  intro p x x' hx hd
  simp only [keepIfExists, docN_eDel (hd rfl)]
  split
  · rfl
  · exact hasPrio_cong (congF_prio (congN_flags hx)) (firstNotMissing_prio p a a' ha) true

theorem listMerge_cong {rec : Node → Node → Except Err (Node × Bool)} (hrec : RecCong rec) (hrc : RecCons rec)
    {s t : Bool} {sf sf' : Flags} (sk : CompKind) {scs scs' : List (Key × Node)} {o o' : Node}
    (ha : congN s (.comp sf sk scs) (.comp sf' sk scs') = true) (ho : congN t o o' = true) (hd : docN o o' = true)
    (hca : FlagsConsistent (.comp sf sk scs) = true) (hca' : FlagsConsistent (.comp sf' sk scs') = true)
    (hco : FlagsConsistent o = true) (hco' : FlagsConsistent o' = true) :
    ResRel (s && t) (listMerge rec sf sk scs o) (listMerge rec sf' sk scs' o') := by
  cases o with
  | leaf of lk =>
    obtain ⟨of', rfl, _⟩ := congN_leaf_inv ho
    simpa only [listMerge] using compMerge_cong hrec hrc sk ha ho hd hca hca' hco hco'
  | comp of ok ocs =>
    obtain ⟨of', ocs', rfl, hof, hocs⟩ := congN_comp_inv ho
    obtain ⟨_, _, hscs⟩ := congN_comp_iff.1 ha
    simp only [listMerge, ← docN_eDel hd, ← congL_length hscs, ← listKeysValid_cong scs.length ocs ocs' hocs]
    split
    · exact rfl
    · obtain ⟨f1, f2, _⟩ := filterNode_cong true _ _ (keepIfExists_condOK ha) [] _ _ t ho (fun _ => hd) hco hco'
      exact compMerge_cong hrec hrc sk ha f1 (f2 rfl) hca hca' (filterNode_cons _ _ _ hco) (filterNode_cons _ _ _ hco')

theorem childKw_setFunc (sf : Flags) (sk : CompKind) (f g : String) (hsk : sk = .call f ∨ sk = .bind f) :
    childKw sf (sk.setFunc g) = childKw sf sk := by
  rcases hsk with rfl | rfl <;> rfl

theorem funcMerge_cong {rec : Node → Node → Except Err (Node × Bool)} (hrec : RecCong rec) (hrc : RecCons rec)
    {s t : Bool} {sf sf' : Flags} (sk : CompKind) (f : String) (hsk : sk = .call f ∨ sk = .bind f)
    {scs scs' : List (Key × Node)} {o o' : Node}
    (ha : congN s (.comp sf sk scs) (.comp sf' sk scs') = true) (ho : congN t o o' = true) (hd : docN o o' = true)
    (hca : FlagsConsistent (.comp sf sk scs) = true) (hca' : FlagsConsistent (.comp sf' sk scs') = true)
    (hco : FlagsConsistent o = true) (hco' : FlagsConsistent o' = true) :
    ResRel (s && t) (funcMerge rec sf sk f scs o) (funcMerge rec sf' sk f scs' o') := by
  obtain ⟨_, hsf, hscs⟩ := congN_comp_iff.1 ha
  have hall : allConsistent scs = true := by simp only [FlagsConsistent] at hca; exact consistentList_weaken hca
  have hall' : allConsistent scs' = true := by simp only [FlagsConsistent] at hca'; exact consistentList_weaken hca'
  have hfo := congN_flags ho
  have hmS : ∀ (x y : Bool), ((s && t) && !(x || y)) = true → (s && !x) = true := by
    intro x y; cases s <;> cases t <;> cases x <;> cases y <;> simp
  cases o with
  | leaf of lk =>
    obtain ⟨of', rfl, hof⟩ := congN_leaf_inv ho
    simp only [funcMerge, ← hasPrio_cong (congF_prio hof) (congF_prio hsf) true]
    split
    · split
      · split
        · exact ⟨rfl, propagate_cong _ (congF_replaceSelf hsf hof) (c := true) rfl nil_cons nil_cons (fun _ => rfl)⟩
        · exact ⟨rfl, propagate_cong _ (congF_replaceSelf hsf hof) hscs hall hall'
            (by rw [uS_replaceSelf]; exact hmS _ _)⟩
      · exact ⟨rfl, propagate_cong _ (congF_replaceOther hsf hof) hscs hall hall'
          (by rw [uS_replaceOther]; exact hmS _ _)⟩
    · exact compMerge_cong hrec hrc sk ha ho hd hca hca' hco hco'
  | comp of ok ocs =>
    obtain ⟨of', ocs', rfl, hof, hocs⟩ := congN_comp_inv ho
    simp only [funcMerge, ← hasPrio_cong (congF_prio hof) (congF_prio hsf) true, ← docN_eDel hd]
    split
    · exact compMerge_cong hrec hrc sk ha ho hd hca hca' hco hco'
    · rename_i g _
      split
      · split
        · exact ⟨rfl, propagate_cong _ (congF_replaceOther hsf hof) hscs hall hall'
            (by rw [uS_replaceOther]; exact hmS _ _)⟩
        · have hk := childKw_setFunc sf sk f g hsk
          have hk' := childKw_setFunc sf' sk f g hsk
          split
          · refine compMerge_cong hrec hrc (sk.setFunc g) (scs := []) (scs' := []) ?_ ho hd ?_ ?_ hco hco'
            · exact congN_comp_iff.2 ⟨rfl, hsf, rfl⟩
            · simp [FlagsConsistent, consistentList]
            · simp [FlagsConsistent, consistentList]
          · refine compMerge_cong hrec hrc (sk.setFunc g) ?_ ho hd ?_ ?_ hco hco'
            · exact congN_comp_iff.2 ⟨rfl, hsf, hscs⟩
            · simp only [FlagsConsistent, hk] at hca ⊢; exact hca
            · simp only [FlagsConsistent, hk'] at hca' ⊢; exact hca'
      · exact compMerge_cong hrec hrc sk ha ho hd hca hca' hco hco'

/-! ### `on_merge` -/

theorem resRel_to_rec {m : Bool} {a : Node} {x y : Except Err (Node × Bool)} (ha : a.isComp = true)
    (h : ResRel m x y) :
    exRel (fun p q => p.2 = q.2 ∧ congN m p.1 q.1 = true ∧
      (a.isComp = false → p.2 = false → reqNewBelow p.1 = reqNewBelow q.1)) x y := by
  cases x <;> cases y <;> simp only [ResRel, exRel] at h ⊢
  · exact h
  · exact ⟨h.1, h.2, fun e => by rw [ha] at e; cases e⟩

/-- merging is a congruence, at every fuel and for every node kind -/
theorem mergeF_cong : ∀ (fuel : Nat), RecCong (mergeF fuel)
  | 0 => fun s t a a' b b' _ _ _ _ _ _ _ => by simp only [mergeF]; exact rfl
  | fuel + 1 => fun s t a a' b b' ha hb hd hca hca' hcb hcb' => by
    have ih := mergeF_cong fuel
    have ihc := mergeF_cons fuel
    cases a with
    | leaf f k =>
      obtain ⟨f', rfl, hf⟩ := congN_leaf_inv ha
      have hl := leafRule_cong ha hb rfl rfl (consistentBelow_of_consistent hcb) (consistentBelow_of_consistent hcb')
      simp only [mergeF, exRel]
      refine ⟨hl.1, hl.2, fun _ hs => ?_⟩
      -- the newer node replaced the scalar: the check below it reads the newer node's own flags
      have hfb := congN_flags hb
      have hp : hasPrio (Node.leaf f k).flags b.flags false = hasPrio (Node.leaf f' k).flags b'.flags false :=
        hasPrio_cong (congF_prio hf) (congF_prio hfb) false
      simp only [leafRule, ← hp] at hs ⊢
      by_cases hw : hasPrio (Node.leaf f k).flags b.flags false = true
      · simp only [hw, if_true] at hs
        cases hs
      · simp only [hw, Bool.false_eq_true, if_false]
        rw [reqNewBelow_propagate_setFlags (replaceOtherFlags b.flags (Node.leaf f k).flags) hcb rfl rfl,
          reqNewBelow_propagate_setFlags (replaceOtherFlags b'.flags (Node.leaf f' k).flags) hcb' rfl rfl]
        exact reqNewBelow_doc hd (congN_false hb)
    | comp sf sk scs =>
      obtain ⟨sf', scs', rfl, _, _⟩ := congN_comp_inv ha
      cases sk with
      | dict => exact resRel_to_rec rfl (by simpa only [mergeF] using compMerge_cong ih ihc .dict ha hb hd hca hca' hcb hcb')
      | call g => exact resRel_to_rec rfl (by simpa only [mergeF] using funcMerge_cong ih ihc (.call g) g (.inl rfl) ha hb hd hca hca' hcb hcb')
      | bind g => exact resRel_to_rec rfl (by simpa only [mergeF] using funcMerge_cong ih ihc (.bind g) g (.inr rfl) ha hb hd hca hca' hcb hcb')
      | list => exact resRel_to_rec rfl (by simpa only [mergeF] using listMerge_cong ih ihc .list ha hb hd hca hca' hcb hcb')
      | append => exact resRel_to_rec rfl (by simpa only [mergeF] using listMerge_cong ih ihc .append ha hb hd hca hca' hcb hcb')
      | extend => exact resRel_to_rec rfl (by simpa only [mergeF] using listMerge_cong ih ihc .extend ha hb hd hca hca' hcb hcb')
      | path p => exact resRel_to_rec rfl (by simpa only [mergeF] using listMerge_cong ih ihc (.path p) ha hb hd hca hca' hcb hcb')
      | stream => exact resRel_to_rec rfl (by simpa only [mergeF] using listMerge_cong ih ihc .stream ha hb hd hca hca' hcb hcb')

/-- `merge` (the public wrapper): same error, or related results -/
theorem merge_cong {s t : Bool} {a a' b b' : Node} (ha : congN s a a' = true) (hb : congN t b b' = true)
    (hd : docN b b' = true) (hca : FlagsConsistent a = true) (hca' : FlagsConsistent a' = true)
    (hcb : FlagsConsistent b = true) (hcb' : FlagsConsistent b' = true) :
    exRel (fun r r' => congN (s && t) r r' = true) (merge a b) (merge a' b') := by
  have h := mergeF_cong (b.depth + 1) s t a a' b b' ha hb hd hca hca' hcb hcb'
  simp only [merge, ← congN_depth b b' hb]
  cases e1 : mergeF (b.depth + 1) a b <;> cases e2 : mergeF (b.depth + 1) a' b' <;> simp only [e1, e2, exRel] at h ⊢
  · exact h
  · exact h.2.1

end AY
