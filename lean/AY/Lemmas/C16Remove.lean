/-
  AY.Lemmas.C16Remove — `removeNode` is a `removeChild` on the parent container, written back with
  `setNodeAt`; frame lemmas of `setNodeAt` w.r.t. `getNode`.
-/
import AY.Lemmas.C16Build
namespace AY

/-! ### `getNode` along a concatenated path -/

theorem c16_getNode_append : ∀ (p q : Path) (root : Node),
    getNode root (p ++ q) = (getNode root p).bind (fun n => getNode n q)
  | [], q, root => by simp [getNode]
  | key :: rest, q, .leaf f k => by simp [getNode]
  | key :: rest, q, .comp f k cs => by
    simp only [List.cons_append, getNode]
    cases h : alookup key cs with
    | none => simp
    | some c => simpa using c16_getNode_append rest q c

theorem c16_getNode_snoc (p : Path) (key : Key) (root : Node) :
    getNode root (p ++ [key]) =
      (getNode root p).bind (fun n => match n with
        | .comp _ _ cs => alookup key cs
        | .leaf .. => none) := by
  rw [c16_getNode_append]
  cases getNode root p with
  | none => rfl
  | some n =>
    cases n with
    | leaf f k => simp [getNode]
    | comp f k cs =>
      simp only [Option.bind_some, getNode]
      cases alookup key cs <;> simp

/-! ### `setNodeAt` -/

theorem c16_getNode_setNodeAt_below : ∀ (p r : Path) (root v m : Node), getNode root p = some m →
    getNode (setNodeAt root p v) (p ++ r) = getNode v r
  | [], r, root, v, m, _ => by simp [setNodeAt]
  | key :: rest, r, .leaf f k, v, m, h => by simp [getNode] at h
  | key :: rest, r, .comp f k cs, v, m, h => by
    simp only [getNode] at h
    cases hc : alookup key cs with
    | none => simp [hc] at h
    | some c =>
      simp only [hc] at h
      simp only [setNodeAt, hc, List.cons_append, getNode, alookup_aset, if_true]
      exact c16_getNode_setNodeAt_below rest r c v m h

theorem c16_getNode_setNodeAt_self (p : Path) (root v m : Node) (h : getNode root p = some m) :
    getNode (setNodeAt root p v) p = some v := by
  have := c16_getNode_setNodeAt_below p [] root v m h
  simpa [getNode] using this

/-- paths that leave the modified path (neither above nor below it) are untouched -/
theorem c16_getNode_setNodeAt_disjoint : ∀ (p q : Path) (root v : Node), ¬ p <+: q → ¬ q <+: p →
    getNode (setNodeAt root p v) q = getNode root q
  | [], q, _, _, h, _ => absurd List.nil_prefix h
  | _ :: _, [], _, _, _, h => absurd List.nil_prefix h
  | key :: rest, k' :: q, .leaf f k, v, _, _ => by simp [setNodeAt]
  | key :: rest, k' :: q, .comp f k cs, v, h1, h2 => by
    simp only [setNodeAt]
    cases hc : alookup key cs with
    | none => rfl
    | some c =>
      simp only [getNode, alookup_aset]
      by_cases hk : key = k'
      · subst hk
        simp only [if_true, hc]
        apply c16_getNode_setNodeAt_disjoint rest q c v
        · intro hp; exact h1 ((List.cons_prefix_cons).2 ⟨rfl, hp⟩)
        · intro hp; exact h2 ((List.cons_prefix_cons).2 ⟨rfl, hp⟩)
      · simp [hk]

/-- the containers above the modified path keep their flags and their class -/
theorem c16_getNode_setNodeAt_above : ∀ (q r : Path) (root v m : Node) (f : Flags) (k : CompKind)
    (cs : List (Key × Node)), r ≠ [] → getNode root (q ++ r) = some m →
    getNode root q = some (.comp f k cs) →
    ∃ cs', getNode (setNodeAt root (q ++ r) v) q = some (.comp f k cs') ∧ akeys cs' = akeys cs
  | [], r, root, v, m, f, k, cs, hr, hm, hq => by
    simp only [getNode] at hq
    injection hq with hq
    subst hq
    cases r with
    | nil => exact absurd rfl hr
    | cons key rest =>
      simp only [List.nil_append, getNode] at hm ⊢
      cases hc : alookup key cs with
      | none => simp [hc] at hm
      | some c =>
        simp only [setNodeAt, hc]
        exact ⟨_, rfl, keysOf_aset_of_some key _ cs (by simp [hc])⟩
  | key :: rest, r, .leaf f' k', v, m, f, k, cs, _, _, hq => by simp [getNode] at hq
  | key :: rest, r, .comp f' k' cs0, v, m, f, k, cs, hr, hm, hq => by
    simp only [List.cons_append, getNode] at hm hq ⊢
    cases hc : alookup key cs0 with
    | none => simp [hc] at hq
    | some c =>
      simp only [hc] at hm hq
      simp only [setNodeAt, hc, getNode, alookup_aset, if_true]
      exact c16_getNode_setNodeAt_above rest r c v m f k cs hr hm hq

/-! ### `removeNode` = `removeChild` on the parent, written back -/

theorem c16_removeNode_char : ∀ (tp : Path) (root d root' : Node),
    removeNode root tp = some (d, root') →
    ∃ pp key pf pk pcs pcs', tp = pp ++ [key] ∧ getNode root pp = some (.comp pf pk pcs) ∧
      alookup key pcs = some d ∧ removeChild pf pk key pcs = some pcs' ∧
      root' = setNodeAt root pp (.comp pf pk pcs')
  | [], root, d, root', h => by simp [removeNode] at h
  | _ :: _, .leaf .., d, root', h => by simp [removeNode] at h
  | [key], .comp f k cs, d, root', h => by
    simp only [removeNode] at h
    cases hc : alookup key cs with
    | none => simp [hc] at h
    | some c =>
      simp only [hc] at h
      cases hr : removeChild f k key cs with
      | none => simp [hr] at h
      | some cs' =>
        simp only [hr, Option.some.injEq, Prod.mk.injEq] at h
        refine ⟨[], key, f, k, cs, cs', rfl, rfl, ?_, hr, ?_⟩
        · rw [hc, h.1]
        · rw [← h.2]; rfl
  | key :: k2 :: rest, .comp f k cs, d, root', h => by
    simp only [removeNode] at h
    cases hc : alookup key cs with
    | none => simp [hc] at h
    | some c =>
      simp only [hc] at h
      cases hr : removeNode c (k2 :: rest) with
      | none => simp [hr] at h
      | some res =>
        obtain ⟨d1, c'⟩ := res
        simp only [hr, Option.some.injEq, Prod.mk.injEq] at h
        obtain ⟨pp, key', pf, pk, pcs, pcs', e1, e2, e3, e4, e5⟩ :=
          c16_removeNode_char (k2 :: rest) c d1 c' hr
        refine ⟨key :: pp, key', pf, pk, pcs, pcs', by simp [e1], by simp [getNode, hc, e2], ?_, e4, ?_⟩
        · rw [e3, h.1]
        · rw [← h.2, e5]; simp [setNodeAt, hc]

/-- converse: an existing child of an existing container can be detached whenever `remove_child`
    accepts the key -/
theorem c16_removeNode_of_parent : ∀ (pp : Path) (key : Key) (root d : Node) (pf : Flags)
    (pk : CompKind) (pcs pcs' : List (Key × Node)),
    getNode root pp = some (.comp pf pk pcs) → alookup key pcs = some d →
    removeChild pf pk key pcs = some pcs' →
    removeNode root (pp ++ [key]) = some (d, setNodeAt root pp (.comp pf pk pcs'))
  | [], key, root, d, pf, pk, pcs, pcs', hg, hl, hr => by
    simp only [getNode, Option.some.injEq] at hg
    subst hg
    simp [removeNode, hl, hr, setNodeAt]
  | k1 :: rest, key, .leaf .., d, pf, pk, pcs, pcs', hg, _, _ => by simp [getNode] at hg
  | k1 :: rest, key, .comp f k cs, d, pf, pk, pcs, pcs', hg, hl, hr => by
    simp only [getNode] at hg
    cases hc : alookup k1 cs with
    | none => simp [hc] at hg
    | some c =>
      simp only [hc] at hg
      have ih := c16_removeNode_of_parent rest key c d pf pk pcs pcs' hg hl hr
      cases hrest : rest ++ [key] with
      | nil => simp at hrest
      | cons k2 r2 =>
        rw [hrest] at ih
        simp only [List.cons_append, hrest, removeNode, hc, ih, setNodeAt]

end AY
