/-
  AY.Lemmas.C04Protect — "protected at any depth": for trees of mappings with distinct sibling keys
  the container `filter_nodes` returns is non-empty exactly when the condition holds for some node
  strictly below it (addressed by `get_node`).
-/
import AY.Lemmas.C04Merge
namespace AY

mutual
/-- mappings only (any class of the mapping family), distinct sibling keys, hereditarily -/
def dictTree : Node → Bool
  | .leaf .. => true
  | .comp _ k cs => k.isDictFam && keysNodup cs && dictTreeList cs
def dictTreeList : List (Key × Node) → Bool
  | [] => true
  | (_, c) :: rest => dictTree c && dictTreeList rest
end

theorem c04_dictTree_comp {f k cs} (h : dictTree (.comp f k cs) = true) :
    k.isDictFam = true ∧ keysNodup cs = true ∧ dictTreeList cs = true := by
  simpa [dictTree, and_assoc] using h

/-! ### emptied ⇒ the condition holds nowhere -/

mutual
theorem c04_empty_noneKept (cond : Path → Node → Bool) :
    ∀ (pre : Path) (n : Node), dictTree n = true → (filterNode cond pre n).1.children = [] →
      noneKept cond pre n = true
  | _, .leaf .., _, _ => rfl
  | pre, .comp f k cs, hd, he => by
    obtain ⟨hk, hn, hcs⟩ := c04_dictTree_comp hd
    rw [c04_filterNode_dict_kept cond pre f k cs hk hn] at he
    simp only [noneKept]
    exact c04_keptNil_noneKept cond pre cs hcs he
theorem c04_keptNil_noneKept (cond : Path → Node → Bool) :
    ∀ (pre : Path) (cs : List (Key × Node)), dictTreeList cs = true →
      keptChildren cond pre cs = [] → noneKeptList cond pre cs = true
  | _, [], _, _ => rfl
  | pre, (name, child) :: rest, hd, he => by
    have hd' : dictTree child = true ∧ dictTreeList rest = true := by simpa [dictTreeList] using hd
    simp only [keptChildren] at he
    split at he
    · cases he
    · rename_i hkeep
      have hk' : cond (pre ++ [name]) child = false ∧
          (child.isComp = true → (filterNode cond (pre ++ [name]) child).1.children = []) := by
        simpa [List.isEmpty_iff] using hkeep
      have hchild : noneKept cond (pre ++ [name]) child = true := by
        cases hc : child.isComp with
        | true => exact c04_empty_noneKept cond (pre ++ [name]) child hd'.1 (hk'.2 hc)
        | false =>
          cases child with
          | leaf f k => rfl
          | comp f k cs => simp [Node.isComp] at hc
      simp [noneKeptList, hk'.1, hchild, c04_keptNil_noneKept cond pre rest hd'.2 he]
end

/-- for mapping trees: the filtered container is empty iff the condition holds nowhere below -/
theorem c04_filter_empty_iff (cond : Path → Node → Bool) (pre : Path) (n : Node)
    (hd : dictTree n = true) (hw : wfKeys n = true) :
    (filterNode cond pre n).1.children = [] ↔ noneKept cond pre n = true :=
  ⟨c04_empty_noneKept cond pre n hd, c04_filterNode_noneKept cond pre n hw⟩

mutual
theorem c04_wfKeys_of_dictTree : ∀ n : Node, dictTree n = true → wfKeys n = true
  | .leaf .., _ => rfl
  | .comp f k cs, h => by
    obtain ⟨hk, _, hcs⟩ := c04_dictTree_comp h
    simp [wfKeys, hk, c04_wfKeysList_of_dictTreeList cs hcs]
theorem c04_wfKeysList_of_dictTreeList : ∀ cs : List (Key × Node), dictTreeList cs = true → wfKeysList cs = true
  | [], _ => rfl
  | (_, c) :: rest, h => by
    have h' : dictTree c = true ∧ dictTreeList rest = true := by simpa [dictTreeList] using h
    simp [wfKeysList, c04_wfKeys_of_dictTree c h'.1, c04_wfKeysList_of_dictTreeList rest h'.2]
end

/-! ### "nowhere below" in terms of `get_node` -/

theorem c04_noneKeptList_lookup (cond : Path → Node → Bool) (pre : Path) :
    ∀ cs : List (Key × Node), noneKeptList cond pre cs = true → ∀ key c, alookup key cs = some c →
      cond (pre ++ [key]) c = false ∧ noneKept cond (pre ++ [key]) c = true
  | [], _, key, c, h => by simp [alookup] at h
  | (name, child) :: rest, hn, key, c, h => by
    have hn' : (cond (pre ++ [name]) child = false ∧ noneKept cond (pre ++ [name]) child = true) ∧
        noneKeptList cond pre rest = true := by simpa [noneKeptList] using hn
    by_cases e : name = key
    · subst e
      simp only [alookup, if_true, Option.some.injEq] at h
      subst h
      exact hn'.1
    · simp only [alookup, e, if_false] at h
      exact c04_noneKeptList_lookup cond pre rest hn'.2 key c h

/-- nothing kept below ⇒ the condition fails at every path that exists below the node -/
theorem c04_noneKept_getNode (cond : Path → Node → Bool) :
    ∀ (q : Path) (pre : Path) (n m : Node), noneKept cond pre n = true → q ≠ [] →
      getNode n q = some m → cond (pre ++ q) m = false
  | [], _, _, _, _, hq, _ => absurd rfl hq
  | key :: rest, pre, .leaf .., m, _, _, hg => by simp [getNode] at hg
  | key :: rest, pre, .comp f k cs, m, hn, _, hg => by
    simp only [getNode] at hg
    cases hl : alookup key cs with
    | none => simp [hl] at hg
    | some c =>
      simp only [hl] at hg
      obtain ⟨h1, h2⟩ := c04_noneKeptList_lookup cond pre cs (by simpa [noneKept] using hn) key c hl
      cases rest with
      | nil =>
        simp only [getNode, Option.some.injEq] at hg
        subst hg
        exact h1
      | cons k2 r2 =>
        have := c04_noneKept_getNode cond (k2 :: r2) (pre ++ [key]) c m h2 (by simp) hg
        simpa [List.append_assoc] using this

theorem c04_alookup_mem_akeys {α : Type} {key : Key} {l : List (Key × α)} {c : α}
    (h : alookup key l = some c) : key ∈ akeys l :=
  (ahas_iff_mem key l).1 (by simp [ahas, h])

mutual
/-- the condition fails at every existing path below the node ⇒ nothing is kept (mapping trees) -/
theorem c04_getNode_noneKept (cond : Path → Node → Bool) :
    ∀ (pre : Path) (n : Node), dictTree n = true →
      (∀ q m, q ≠ [] → getNode n q = some m → cond (pre ++ q) m = false) →
      noneKept cond pre n = true
  | _, .leaf .., _, _ => rfl
  | pre, .comp f k cs, hd, h => by
    obtain ⟨_, hn, hcs⟩ := c04_dictTree_comp hd
    simp only [noneKept]
    apply c04_getNode_noneKeptList cond pre cs hcs hn
    intro key c q m hl hg
    have := h (key :: q) m (by simp) (by simp only [getNode, hl]; exact hg)
    exact this
theorem c04_getNode_noneKeptList (cond : Path → Node → Bool) :
    ∀ (pre : Path) (cs : List (Key × Node)), dictTreeList cs = true → keysNodup cs = true →
      (∀ key c q m, alookup key cs = some c → getNode c q = some m → cond (pre ++ key :: q) m = false) →
      noneKeptList cond pre cs = true
  | _, [], _, _, _ => rfl
  | pre, (name, child) :: rest, hd, hn, h => by
    have hd' : dictTree child = true ∧ dictTreeList rest = true := by simpa [dictTreeList] using hd
    have hn' : name ∉ akeys rest ∧ keysNodup rest = true := by simpa [keysNodup] using hn
    have hl : alookup name ((name, child) :: rest) = some child := by simp [alookup]
    have h1 : cond (pre ++ [name]) child = false := h name child [] child hl rfl
    have h2 : noneKept cond (pre ++ [name]) child = true := by
      apply c04_getNode_noneKept cond (pre ++ [name]) child hd'.1
      intro q m _ hg
      have := h name child q m hl hg
      simpa [List.append_assoc] using this
    have h3 : noneKeptList cond pre rest = true := by
      apply c04_getNode_noneKeptList cond pre rest hd'.2 hn'.2
      intro key c q m hlr hg
      have hne : ¬ name = key := fun e => hn'.1 (e ▸ c04_alookup_mem_akeys hlr)
      exact h key c q m (by simp only [alookup, hne, if_false]; exact hlr) hg
    simp [noneKeptList, h1, h2, h3]
end

/-- for mapping trees with distinct keys: something survives the filter below `n` iff some node
    strictly below `n` satisfies the condition -/
theorem c04_filter_nonempty_iff (cond : Path → Node → Bool) (pre : Path) (n : Node)
    (hd : dictTree n = true) :
    (filterNode cond pre n).1.children ≠ [] ↔
      ∃ q m, q ≠ [] ∧ getNode n q = some m ∧ cond (pre ++ q) m = true := by
  rw [Ne, c04_filter_empty_iff cond pre n hd (c04_wfKeys_of_dictTree n hd)]
  constructor
  · intro hne
    apply Classical.byContradiction
    intro hex
    apply hne
    apply c04_getNode_noneKept cond pre n hd
    intro q m hq hg
    cases hc : cond (pre ++ q) m with
    | false => rfl
    | true => exact absurd ⟨q, m, hq, hg, hc⟩ hex
  · rintro ⟨q, m, hq, hg, hc⟩ hn
    rw [c04_noneKept_getNode cond q pre n m hn hq hg] at hc
    cases hc

end AY
