/-
  AY.Lemmas.C02Merge — on tag-free trees the merge of the model is the right-biased recursive
  update `updF` of AY.Spec.Plain (main induction of property C02).
-/
import AY.Lemmas.Filter
namespace AY

/-! ### unfolding the specification -/

theorem updF_scalar_left (m : Nat) (v : Scalar) (b : Plain) : updF (m + 1) (.scalar v) b = .ok b := by
  cases b <;> rfl
theorem updF_scalar_right (m : Nat) (a : Plain) (v : Scalar) : updF (m + 1) a (.scalar v) = .ok (.scalar v) := by
  cases a <;> rfl
theorem updF_list_right (m : Nat) (a : Plain) (xs : List Plain) : updF (m + 1) a (.list xs) = .ok (.list xs) := by
  cases a <;> rfl
theorem updF_dict_dict (m : Nat) (as bs : List (Key × Plain)) :
    updF (m + 1) (.dict as) (.dict bs) = (updF.updDict (updF m) as bs).map Plain.dict := rfl
theorem updF_list_dict (m : Nat) (as : List Plain) (bs : List (Key × Plain)) :
    updF (m + 1) (.list as) (.dict bs) =
      if allIndices as.length bs then (updF.updList (updF m) as bs).map Plain.list else .error .merge := rfl

/-! ### index arithmetic: the strict index validation of the code is `listIndex` of the spec -/

theorem validateIndex_strict (len : Nat) (k : Key) : validateIndex len true k = listIndex len k := by
  cases k with
  | int z =>
    simp only [validateIndex, listIndex, Bool.and_true]
    split
    · rfl
    · rename_i h
      simp only [Bool.or_eq_true, decide_eq_true_eq, not_or] at h
      congr 1
      split <;> omega
  | str s => rfl
  | float r => rfl

theorem listIndex_lt {len : Nat} {k : Key} {i : Nat} (h : listIndex len k = some i) : i < len := by
  cases k with
  | int z =>
    simp only [listIndex] at h
    split at h
    · cases h
    · rename_i hc
      simp only [Bool.or_eq_true, decide_eq_true_eq, not_or] at hc
      injection h with h
      subst h
      split <;> omega
  | str s => cases h
  | float r => cases h

theorem validateIndex_lax_of_strict {len : Nat} {k : Key} {i : Nat}
    (h : validateIndex len true k = some i) : validateIndex len false k = some i := by
  cases k with
  | int z =>
    simp only [validateIndex, Bool.and_true, Bool.and_false] at h ⊢
    split at h
    · cases h
    · simpa using h
  | str s => cases h
  | float r => cases h

theorem listKeysValid_eq (len : Nat) : ∀ ocs : List (Key × Node),
    listKeysValid len ocs = allIndices len (nativeList ocs)
  | [] => rfl
  | (k, v) :: rest => by
    simp only [listKeysValid, nativeList, allIndices, validateIndex_strict]
    cases listIndex len k <;> simp [listKeysValid_eq len rest]

/-- positional access into a numbered children list -/
theorem listKeys_lookup : ∀ (cs : List (Key × Node)) (j i : Nat), listKeys j cs = true →
    i < cs.length →
    ∃ child, alookup (.int ((j + i : Nat) : Int)) cs = some child ∧
      (nativeVals cs)[i]? = some (native child)
  | [], _, _, _, h => by simp at h
  | (k, c) :: rest, j, i, hl, hi => by
    have hl' : k = Key.int (j : Int) ∧ listKeys (j + 1) rest = true := by simpa [listKeys] using hl
    cases i with
    | zero =>
      refine ⟨c, ?_, ?_⟩ <;> simp [alookup, nativeVals, hl'.1]
    | succ i =>
      have hi' : i < rest.length := by simpa using hi
      obtain ⟨child, h1, h2⟩ := listKeys_lookup rest (j + 1) i hl'.2 hi'
      have e : j + 1 + i = j + (i + 1) := by omega
      rw [e] at h1
      have hne : ¬ (Key.int (j : Int) = Key.int ((j + (i + 1) : Nat) : Int)) := by
        intro hh; have := Key.int.inj hh; omega
      refine ⟨child, ?_, ?_⟩
      · simp only [alookup, hl'.1, hne, if_false, h1]
      · simpa [nativeVals] using h2

/-- positional update of a numbered children list -/
theorem listKeys_nativeVals_aset (x : Node) : ∀ (cs : List (Key × Node)) (j i : Nat),
    listKeys j cs = true → i < cs.length →
    nativeVals (aset (.int ((j + i : Nat) : Int)) x cs) = setAt i (native x) (nativeVals cs)
  | [], _, _, _, h => by simp at h
  | (k, c) :: rest, j, i, hl, hi => by
    have hl' : k = Key.int (j : Int) ∧ listKeys (j + 1) rest = true := by simpa [listKeys] using hl
    cases i with
    | zero => simp [aset, nativeVals, setAt, hl'.1]
    | succ i =>
      have hi' : i < rest.length := by simpa using hi
      have h3 := listKeys_nativeVals_aset x rest (j + 1) i hl'.2 hi'
      have e : j + 1 + i = j + (i + 1) := by omega
      rw [e] at h3
      have hne : ¬ (Key.int (j : Int) = Key.int ((j + (i + 1) : Nat) : Int)) := by
        intro hh; have := Key.int.inj hh; omega
      simp only [aset, hl'.1, hne, if_false, nativeVals, setAt, h3]

/-! ### the relation between the two sides -/

/-- result of the model's merge vs. result of the specification -/
def MRel (x : Except Err (Node × Bool)) (y : Except Err Plain) : Prop :=
  match x, y with
  | .ok (r, _), .ok p => plainT r = true ∧ native r = p
  | .error e, .error e' => e = .merge ∧ e' = .merge
  | _, _ => False

/-- the hypothesis on the recursive call -/
def RecOK (d : Nat) (rec : Node → Node → Except Err (Node × Bool))
    (srec : Plain → Plain → Except Err Plain) : Prop :=
  ∀ a b, plainT a = true → plainO b = true → b.depth ≤ d → MRel (rec a b) (srec (native a) (native b))

theorem leafRule_plain {s o : Node} (hs : plainT s = true) (ho : plainT o = true) :
    ∃ r, leafRule s o = (r, false) ∧ plainT r = true ∧ native r = native o := by
  have hfs := plainT_flags hs
  have hfo := plainT_flags ho
  refine ⟨propagate (o.setFlags (replaceOtherFlags o.flags s.flags)), ?_, ?_, ?_⟩
  · simp [leafRule, hasPrio_plain hfs hfo]
  · exact plainT_propagate (plainT_setFlags ho (replaceOtherFlags_plain hfo hfs).1)
  · rw [nativeOf_propagate]; exact native_setFlags _ _

theorem eDel_list_plain {f : Flags} {cs} (hf : flagsPlain f = true) : eDel (.comp f .list cs) = true := by
  rw [flagsPlain_iff] at hf
  obtain ⟨h1, h2, h3, h4, h5, h6, h7, h8⟩ := hf
  simp only [eDel, Node.flags, h2, Node.defaultDel, defaultDelete, Tables.defaultDeleteList]
  cases hd : f.iDel with
  | none => rfl
  | some b => cases b <;> simp_all

theorem eDel_dict_live {f : Flags} {cs} (hf : flagsPlain f = true) (hd : f.iDel = none) :
    eDel (.comp f .dict cs) = false := by
  rw [flagsPlain_iff] at hf
  simp [eDel, Node.flags, hf.2.1, hd, Node.defaultDel, defaultDelete, Tables.defaultDeleteDict]

theorem filterNode_never_comp (cond : Path → Node → Bool) (hc : ∀ p m, plainT m = true → cond p m = false)
    (pre : Path) {f k cs} (h : plainT (.comp f k cs) = true) :
    (filterNode cond pre (.comp f k cs)).1 = .comp f k [] := by
  have := filterNode_never cond hc pre _ h
  simp only [filterNode, Node.children] at this ⊢
  rw [this]

/-- a list `other` is deleting: everything of `self` is pruned and `other` takes its place -/
theorem compMerge_listOther (rec : Node → Node → Except Err (Node × Bool)) {sf sk scs of ocs}
    (hs : plainT (.comp sf sk scs) = true) (ho : plainT (.comp of .list ocs) = true) :
    compMerge rec sf sk scs (.comp of .list ocs) =
      .ok (propagate (.comp (replaceOtherFlags of sf) .list ocs), false) := by
  obtain ⟨hsf, hsk, _⟩ := plainT_comp hs
  obtain ⟨hof, _, _⟩ := plainT_comp ho
  have hsk' : sk = .dict ∨ sk = .list := by rcases hsk with h | h; exact .inl h; exact .inr h.1
  have hfil := filterNode_never_comp (maybeKeep (.comp of .list ocs)) (maybeKeep_plain ho) [] hs
  simp only [compMerge, eDel_list_plain hof, if_true, hfil, Node.children, List.isEmpty_nil,
    hasPrio_plain hof hsf, Bool.and_self, reqNew_plainT _ _ _ ho]
  rcases hsk' with h | h <;> subst h <;>
    simp [maybePromote, CompKind.sameClass, CompKind.strictSub, CompKind.isPlain]

/-- a live mapping `other`: the key loop, then `_replace_self` -/
theorem compMerge_dictOther (rec : Node → Node → Except Err (Node × Bool)) {sf sk scs of ocs}
    (hsf : flagsPlain sf = true) (hsk : sk = .dict ∨ sk = .list)
    (hof : flagsPlain of = true) (hd : of.iDel = none) :
    compMerge rec sf sk scs (.comp of .dict ocs) =
      match mergeLoop rec sf sk [] scs ocs with
      | .error e => .error e
      | .ok scs' => .ok (propagate (.comp (replaceSelfFlags sf of) sk scs'), true) := by
  simp only [compMerge, eDel_dict_live hof hd]
  cases mergeLoop rec sf sk [] scs ocs with
  | error e => rfl
  | ok scs' =>
    simp only [finishMerge, Node.flags, hasPrio_plain hof hsf, if_true]
    rcases hsk with h | h <;> subst h <;>
      simp [maybePromote, CompKind.sameClass, CompKind.strictSub, CompKind.isPlain]

/-! ### the key loop on a mapping -/

/-- relation for the loop results (mapping) -/
def LRelD (x : Except Err (List (Key × Node))) (y : Except Err (List (Key × Plain))) : Prop :=
  match x, y with
  | .ok acc, .ok ps => plainTList acc = true ∧ nativeList acc = ps
  | .error e, .error e' => e = .merge ∧ e' = .merge
  | _, _ => False

theorem plainO_iff (n : Node) : plainO n = true ↔ plainT n = true ∧ dictsLive n = true := by
  simp [plainO]

theorem del_none_of_plainT {n : Node} (h : plainT n = true) : n.flags.del = none :=
  ((flagsPlain_iff _).1 (plainT_flags h)).2.1

theorem setChild_dict (sf : Flags) (k : Key) (v : Node) (acc : List (Key × Node)) :
    setChild sf .dict k v acc = .ok (aset k (adopt sf .dict v) acc) := rfl

theorem replaceChild_dict (k : Key) (v : Node) (acc : List (Key × Node)) :
    replaceChild .dict k v acc = aset k v acc := rfl

theorem mergeStep_dict {d : Nat} {rec srec} (H : RecOK d rec srec) {sf : Flags} (hsf : flagsPlain sf = true)
    {acc : List (Key × Node)} (hacc : plainTList acc = true) {k : Key} {v : Node}
    (hv : plainO v = true) (hdv : v.depth ≤ d) :
    LRelD (mergeStep rec sf .dict [] acc (k, v))
      (match alookup k (nativeList acc) with
       | none => .ok (nativeList acc ++ [(k, native v)])
       | some va =>
         match srec va (native v) with
         | .error e => .error e
         | .ok p => .ok (aset k p (nativeList acc))) := by
  have hvT : plainT v = true := ((plainO_iff v).1 hv).1
  have hset : ∀ x, plainT x = true → plainTList (aset k x acc) = true := fun x hx => aset_plainT k x hx acc hacc
  have had : ∀ x, plainT x = true → plainT (adopt sf .dict x) = true :=
    fun x hx => plainT_adopt hsf (.inl rfl) hx
  rw [alookup_nativeList]
  simp only [mergeStep, getChild, CompKind.isDictFam, if_true]
  cases hl : alookup k acc with
  | none =>
    simp only [Option.map_none, reqNew_plainT _ _ _ hvT, setChild_dict, LRelD]
    refine ⟨hset _ (had _ hvT), ?_⟩
    rw [nativeList_aset, native_adopt]
    exact aset_of_lookup_none k _ _ (by rw [alookup_nativeList, hl]; rfl)
  | some child =>
    have hchild : plainT child = true := alookup_plainT k acc hacc child hl
    have hrel := H child v hchild hv hdv
    simp only [Option.map_some]
    cases hm : rec child v with
    | error e =>
      cases hs : srec (native child) (native v) with
      | error e' =>
        simp only [hm, hs, MRel] at hrel
        simp [LRelD, hrel.1, hrel.2, Err.prepend]
      | ok p => simp [hm, hs, MRel] at hrel
    | ok res =>
      obtain ⟨nw, same⟩ := res
      cases hs : srec (native child) (native v) with
      | error e' => simp [hm, hs, MRel] at hrel
      | ok p =>
        simp only [hm, hs, MRel] at hrel
        obtain ⟨hnw, hnat⟩ := hrel
        have e1 : (v.flags.del == some true) = false := by rw [del_none_of_plainT hvT]; rfl
        have e2 : (nw.flags.del == some true) = false := by rw [del_none_of_plainT hnw]; rfl
        simp only [e1, e2, Bool.and_false, reqNewBelow_plainT hnw, setChild_dict, replaceChild_dict,
          Bool.false_eq_true, if_false]
        subst hnat
        cases child.isComp <;> cases same <;>
          simp [LRelD, hset, had, hnw, nativeList_aset, native_adopt]

theorem mergeLoop_dict {d : Nat} {rec srec} (H : RecOK d rec srec) {sf : Flags} (hsf : flagsPlain sf = true) :
    ∀ (ocs acc : List (Key × Node)), plainTList acc = true → plainTList ocs = true →
      dictsLiveList ocs = true → depthList ocs ≤ d →
      LRelD (mergeLoop rec sf .dict [] acc ocs) (updF.updDict srec (nativeList acc) (nativeList ocs))
  | [], acc, hacc, _, _, _ => by simp [mergeLoop, nativeList, updF.updDict, LRelD, hacc]
  | (k, v) :: rest, acc, hacc, ho, hl, hd => by
    have ho' : plainT v = true ∧ plainTList rest = true := by simpa [plainTList] using ho
    have hl' : dictsLive v = true ∧ dictsLiveList rest = true := by simpa [dictsLiveList] using hl
    have hd' : v.depth ≤ d ∧ depthList rest ≤ d := by
      simp only [depthList] at hd; omega
    have hv : plainO v = true := (plainO_iff v).2 ⟨ho'.1, hl'.1⟩
    have hstep := mergeStep_dict H hsf hacc (k := k) hv hd'.1
    simp only [mergeLoop, nativeList, updF.updDict]
    cases hm : mergeStep rec sf .dict [] acc (k, v) with
    | error e =>
      rw [hm] at hstep
      cases hla : alookup k (nativeList acc) with
      | none => simp [hla, LRelD] at hstep
      | some va =>
        simp only [hla] at hstep ⊢
        cases hs : srec va (native v) with
        | error e' => simpa [hs, LRelD] using hstep
        | ok p => simp [hs, LRelD] at hstep
    | ok acc1 =>
      rw [hm] at hstep
      cases hla : alookup k (nativeList acc) with
      | none =>
        simp only [hla, LRelD] at hstep ⊢
        rw [← hstep.2]
        exact mergeLoop_dict H hsf rest acc1 hstep.1 ho'.2 hl'.2 hd'.2
      | some va =>
        simp only [hla] at hstep ⊢
        cases hs : srec va (native v) with
        | error e' => simp [hs, LRelD] at hstep
        | ok p =>
          simp only [hs, LRelD] at hstep ⊢
          rw [← hstep.2]
          exact mergeLoop_dict H hsf rest acc1 hstep.1 ho'.2 hl'.2 hd'.2

end AY
