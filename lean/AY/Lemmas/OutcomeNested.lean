/-
  AY.Lemmas.OutcomeNested — the strict denotation does not depend on the order in which the keys of
  any mapping of the tree are written: for `PermTree t t'` (trees with pairwise distinct keys) a node
  of `t` with a strict denotation `v` corresponds to a node of `t'` with a strict denotation `v'`, same
  fuel, `PermVal v v'` (`sden_permTree`). With soundness and completeness of the evaluator
  (AY.Lemmas.OutcomeSound / OutcomeComplete): one tree builds iff the other does, the values are
  related (`evaluate_permTree_ok`), the same nodes run (`evaluate_permTree_log`) and the same paths are
  tainted (`Dirty.permTree`).
-/
import AY.Lemmas.OutcomeNestedArgs
namespace AY

theorem PermVal.scalar_refl (d : Scalar) : PermVal (.scalar d) (.scalar d) := .scalar d

theorem valStr_rel {v v' : Val} (h : PermVal v v') : valStr? v' = valStr? v := by
  cases h <;> rfl

theorem allValStrs_rel {l l' : List Val} (h : ListRel PermVal l l') : allValStrs l' = allValStrs l := by
  induction h with
  | nil => rfl
  | cons hr _ ih => simp only [allValStrs, valStr_rel hr, ih]

theorem evalPath_pathv {w : World} {ref : String} {src : Option String} {args : List String} {v : Val}
    (h : evalPath w ref src args = .ok v) : ∃ s, v = .pathv s := by
  unfold evalPath at h
  repeat' split at h
  all_goals first | (cases h; exact ⟨_, rfl⟩) | cases h

/-- what the lemmas below assume of the two recursive evaluators -/
def RecT (r r' : SRec) : Prop :=
  ∀ rs n n' p v, PermTree n n' → r rs n p = some v → ∃ v', r' rs n' p = some v' ∧ PermVal v v'

theorem sdenItems_rel {r r' : SRec} (h : RecT r r') (rs : Bool) (path : Path)
    {cs cs' : List (Key × Node)} (hk : AssocRel PermTree cs cs') :
    ∀ {items : List (Key × Val)}, sdenItems r rs path cs = some items →
    ∃ items', sdenItems r' rs path cs' = some items' ∧ AssocRel PermVal items items' := by
  induction hk with
  | nil => intro items hi; simp [sdenItems] at hi; subst hi; exact ⟨[], rfl, .nil⟩
  | @cons k c c' l l' hr _ ih =>
    intro items hi
    unfold sdenItems at hi
    split at hi
    · cases hi
    · rename_i v hv
      split at hi
      · cases hi
      · rename_i vs hvs
        cases hi
        obtain ⟨v', hv', hpv⟩ := h _ _ _ _ _ hr hv
        obtain ⟨vs', hvs', hpvs⟩ := ih hvs
        exact ⟨(k, v') :: vs', by simp only [sdenItems, hv', hvs'], .cons hpv hpvs⟩

theorem sdenItems_perm {r : SRec} (rs : Bool) (path : Path) {cs cs' : List (Key × Node)}
    (hp : cs.Perm cs') :
    ∀ {items : List (Key × Val)}, sdenItems r rs path cs = some items →
    ∃ items', sdenItems r rs path cs' = some items' ∧ items.Perm items' := by
  induction hp with
  | nil => intro items hi; exact ⟨items, hi, .refl _⟩
  | @cons x l l' _ ih =>
    intro items hi
    obtain ⟨k, c⟩ := x
    unfold sdenItems at hi
    split at hi
    · cases hi
    · rename_i v hv
      split at hi
      · cases hi
      · rename_i vs hvs
        cases hi
        obtain ⟨vs', hvs', hpvs⟩ := ih hvs
        exact ⟨(k, v) :: vs', by simp only [sdenItems, hv, hvs'], hpvs.cons _⟩
  | swap x y l =>
    intro items hi
    obtain ⟨k1, c1⟩ := x
    obtain ⟨k2, c2⟩ := y
    simp only [sdenItems] at hi
    split at hi
    · cases hi
    · rename_i v2 hv2
      split at hi
      · cases hi
      · rename_i vs2 hvs2
        split at hvs2
        · cases hvs2
        · rename_i v1 hv1
          split at hvs2
          · cases hvs2
          · rename_i vs hvs
            cases hvs2
            cases hi
            exact ⟨(k1, v1) :: (k2, v2) :: vs, by simp only [sdenItems, hv1, hv2, hvs], .swap _ _ _⟩
  | trans _ _ ih1 ih2 =>
    intro items hi
    obtain ⟨i2, h2, p2⟩ := ih1 hi
    obtain ⟨i3, h3, p3⟩ := ih2 h2
    exact ⟨i3, h3, p2.trans p3⟩

/-- every container class builds related values from related values of its children (same keys,
    same order) -/
theorem denFinish_rel (w : World) (f : Flags) (k : CompKind) (path : Path)
    {items items' : List (Key × Val)} (h : AssocRel PermVal items items') {v : Val}
    (hv : denFinish w f k path items = some v) :
    ∃ v', denFinish w f k path items' = some v' ∧ PermVal v v' := by
  cases k with
  | dict => simp only [denFinish] at hv ⊢; cases hv; exact ⟨_, rfl, .dict path h (.refl _)⟩
  | list => simp only [denFinish] at hv ⊢; cases hv; exact ⟨_, rfl, .list path h.vals⟩
  | append => simp only [denFinish] at hv ⊢; cases hv; exact ⟨_, rfl, .list path h.vals⟩
  | extend => simp only [denFinish] at hv ⊢; cases hv; exact ⟨_, rfl, .list path h.vals⟩
  | stream => simp only [denFinish] at hv ⊢; cases hv; exact ⟨_, rfl, .list path h.vals⟩
  | path ref =>
    simp only [denFinish, allValStrs_rel h.vals] at hv ⊢
    refine ⟨v, hv, ?_⟩
    split at hv
    · cases hv
    · split at hv
      · cases hv
      · rename_i v0 he
        cases hv
        obtain ⟨s, rfl⟩ := evalPath_pathv he
        exact .pathv s
  | call fn =>
    simp only [denFinish] at hv ⊢
    split at hv
    · cases hv
    · rename_i sig hsig
      rcases (resolveArgs_rel sig h).elim with ⟨e, e'⟩ | ⟨x, x', e, e', hx⟩
      · rw [e] at hv; cases hv
      · obtain ⟨pos, kwp, kw⟩ := x
        obtain ⟨pos', kwp', kw'⟩ := x'
        rw [e] at hv
        rw [e']
        simp only at hv ⊢
        rcases (bindPy_rel PermVal.scalar_refl sig hx.1 (hx.2.1.append hx.2.2)).elim
          with ⟨g, g'⟩ | ⟨b, b', g, g', hb⟩
        · rw [g] at hv; cases hv
        · rw [g] at hv
          rw [g']
          cases hv
          exact ⟨_, rfl, .app path fn hb.1 hb.2.1 hb.2.2⟩
  | bind fn =>
    simp only [denFinish] at hv ⊢
    split at hv
    · cases hv
    · rename_i sig hsig
      rcases (resolveArgs_rel sig h).elim with ⟨e, e'⟩ | ⟨x, x', e, e', hx⟩
      · rw [e] at hv; cases hv
      · obtain ⟨pos, kwp, kw⟩ := x
        obtain ⟨pos', kwp', kw'⟩ := x'
        rw [e] at hv
        rw [e']
        simp only at hv ⊢
        rw [dupKeys_rel (hx.2.1.append hx.2.2)]
        split at hv
        · cases hv
        · rename_i hd
          cases hv
          exact ⟨_, by rw [if_neg hd], .part path fn hx.1 (hx.2.1.append hx.2.2)⟩

section trees
variable {t t' : Node} (hC : Corr t t')
include hC

theorem sdenXref_rel {r r' : SRec} (h : RecT r r') (rs : Bool) :
    ∀ (f : Nat) (cur : String) (v : Val), sdenXref r t rs f cur = some v →
    ∃ v', sdenXref r' t' rs f cur = some v' ∧ PermVal v v'
  | 0, _, _, hx => by simp [sdenXref] at hx
  | f + 1, cur, v, hx => by
    obtain ⟨tp, n, htp, hg⟩ := sdenXref_inv hx
    obtain ⟨n', hg', hr⟩ := hC.fwd tp n hg
    by_cases hxr : ∃ fl next, n = .leaf fl (.xref next)
    · obtain ⟨fl, next, rfl⟩ := hxr
      have := hr.leaf_inv
      subst this
      rw [sdenXref_step_link htp hg] at hx
      rw [sdenXref_step_link htp hg']
      split at hx
      · cases hx
      · rename_i hc
        rw [if_neg hc]
        exact sdenXref_rel h rs f next v hx
    · have hnx : ∀ fl t, n ≠ .leaf fl (.xref t) := fun fl t e => hxr ⟨fl, t, e⟩
      rw [sdenXref_step_end htp hg hnx] at hx
      rw [sdenXref_step_end htp hg' (hr.not_xref hnx)]
      split at hx
      · cases hx
      · rename_i hne
        rw [if_neg hne]
        exact h _ _ _ _ _ hr hx

theorem sdenName_rel {r r' : SRec} (h : RecT r r') (w : World) (nm : String) {v : Val}
    (hv : sdenName r t w nm = some v) : ∃ v', sdenName r' t' w nm = some v' ∧ PermVal v v' := by
  unfold sdenName at hv ⊢
  split
  · rename_i hs
    rw [if_pos hs] at hv
    cases hv
    exact ⟨_, rfl, .sym nm⟩
  · rename_i hs
    rw [if_neg hs] at hv
    cases hg : getNode t [Key.str nm] with
    | some n =>
      obtain ⟨n', hg', hr⟩ := hC.fwd _ n hg
      simp only [hg] at hv
      simp only [hg']
      exact h _ _ _ _ _ hr hv
    | none =>
      simp only [hg] at hv
      simp only [hC.none hg]
      split at hv
      · rename_i hb
        cases hv
        exact ⟨_, by rw [if_pos hb], .sym nm⟩
      · cases hv

theorem sdenNames_rel {r r' : SRec} (h : RecT r r') (w : World) :
    ∀ (names : List String) (vs : List Val), sdenNames r t w names = some vs →
    ∃ vs', sdenNames r' t' w names = some vs' ∧ ListRel PermVal vs vs'
  | [], vs, hv => by simp [sdenNames] at hv; subst hv; exact ⟨[], rfl, .nil⟩
  | nm :: rest, vs, hv => by
    unfold sdenNames at hv
    split at hv
    · cases hv
    · rename_i v hv1
      split at hv
      · cases hv
      · rename_i vs1 hvs1
        cases hv
        obtain ⟨v', hv', hpv⟩ := sdenName_rel hC h w nm hv1
        obtain ⟨vs', hvs', hpvs⟩ := sdenNames_rel h w rest vs1 hvs1
        exact ⟨v' :: vs', by simp only [sdenNames, hv', hvs'], .cons hpv hpvs⟩

theorem sdenImpl_rel {r r' : SRec} (h : RecT r r') (w : World) (xf : Nat) (rs : Bool) {n n' : Node}
    (hn : PermTree n n') (p : Path) {v : Val} (hv : sdenImpl r t w xf rs n p = some v) :
    ∃ v', sdenImpl r' t' w xf rs n' p = some v' ∧ PermVal v v' := by
  cases hn with
  | leaf f lk =>
    cases lk with
    | scalar s => simp only [sdenImpl] at hv ⊢; cases hv; exact ⟨_, rfl, .scalar s⟩
    | prev s => simp only [sdenImpl] at hv ⊢; cases hv; exact ⟨_, rfl, .scalar _⟩
    | incl fs => simp only [sdenImpl] at hv ⊢; cases hv; exact ⟨_, rfl, .strs fs⟩
    | required => simp [sdenImpl] at hv
    | clear => simp [sdenImpl] at hv
    | fstr s => simp [sdenImpl] at hv
    | xref tgt =>
      simp only [sdenImpl] at hv ⊢
      exact sdenXref_rel hC h rs xf tgt v hv
    | imp m =>
      simp only [sdenImpl] at hv ⊢
      refine ⟨v, hv, ?_⟩
      split at hv
      · cases hv
      · split at hv
        · cases hv; exact .sym m
        · cases hv
    | eval code =>
      simp only [sdenImpl] at hv ⊢
      split at hv
      · cases hv
      · rename_i hs
        rw [if_neg hs]
        split at hv
        · cases hv
        · rename_i names hnm
          split at hv
          · cases hv
          · rename_i vs hvs
            cases hv
            obtain ⟨vs', hvs', hpvs⟩ := sdenNames_rel hC h w names vs hvs
            exact ⟨_, by simp only [hvs'], .tuple p hpvs⟩
  | comp f k hk =>
    simp only [sdenImpl] at hv ⊢
    split at hv
    · cases hv
    · rename_i hs
      rw [if_neg hs]
      split at hv
      · cases hv
      · rename_i items hi
        obtain ⟨items', hi', hpi⟩ := sdenItems_rel h _ p hk hi
        simp only [hi']
        exact denFinish_rel w f k p hpi hv
  | dict f hk hp =>
    simp only [sdenImpl, CompKind.isFunc, Bool.false_and, Bool.false_eq_true, if_false,
      Bool.or_false] at hv ⊢
    split at hv
    · cases hv
    · rename_i items hi
      simp only [denFinish, Option.some.injEq] at hv
      subst hv
      obtain ⟨itemsMid, him, hpi⟩ := sdenItems_rel h rs p hk hi
      obtain ⟨items', hi', hpp⟩ := sdenItems_perm rs p hp him
      exact ⟨_, by simp only [hi', denFinish], .dict p hpi hpp⟩

/-- the strict denotation of related nodes: same fuel, related values -/
theorem sden_rel (w : World) : ∀ f, RecT (sden t w f) (sden t' w f)
  | 0 => by intro rs n n' p v _ hv; simp [sden] at hv
  | f + 1 => by
    intro rs n n' p v hn hv
    rw [sden_succ] at hv ⊢
    rw [hn.flags_eq]
    split at hv
    · cases hv
    · rename_i hs
      rw [if_neg hs]
      exact sdenImpl_rel hC (sden_rel w f) w f rs hn p hv

/-- unsafe content is reachable from the same paths -/
theorem Dirty.permTree {p : Path} (h : Dirty t p) : Dirty t' p := by
  induction h with
  | @flag p n hg hs =>
    obtain ⟨n', hg', hr⟩ := hC.fwd p n hg
    exact Dirty.flag hg' (by rw [hr.flags_eq]; exact hs)
  | @child p f k cs key c hg hm _ ih =>
    obtain ⟨n', hg', hr⟩ := hC.fwd p _ hg
    obtain ⟨cs', rfl⟩ : ∃ cs', n' = .comp f k cs' := by
      cases hr with
      | comp _ _ _ => exact ⟨_, rfl⟩
      | dict _ _ _ => exact ⟨_, rfl⟩
    obtain ⟨c', hm', _⟩ := hr.child hm
    exact Dirty.child hg' hm' ih
  | @link p f tx tp hg ht _ ih =>
    obtain ⟨n', hg', hr⟩ := hC.fwd p _ hg
    have := hr.leaf_inv
    subst this
    exact Dirty.link hg' ht ih

end trees

theorem sden_permTree {t t' : Node} (h : PermTree t t') (huk : uniqueKeys t = true)
    (huk' : uniqueKeys t' = true) (w : World) (f : Nat) (rs : Bool) {n n' : Node} (p : Path) {v : Val}
    (hn : PermTree n n') (hv : sden t w f rs n p = some v) :
    ∃ v', sden t' w f rs n' p = some v' ∧ PermVal v v' :=
  sden_rel (h.corr huk huk') w f rs n n' p v hn hv

/-- if one tree builds, so does the other, with a related value -/
theorem evaluate_permTree_ok {w : World} {t t' : Node} (h : PermTree t t') (huk : uniqueKeys t = true)
    (huk' : uniqueKeys t' = true) {v : Val} {st : EvSt} (he : evaluate w t = .ok (v, st)) :
    ∃ v' st', evaluate w t' = .ok (v', st') ∧ PermVal v v' := by
  obtain ⟨f, hf⟩ := evaluate_sden huk he
  obtain ⟨v', hf', hpv⟩ := sden_permTree h huk huk' w f false [] h hf
  obtain ⟨st', he'⟩ := evaluate_complete huk' hf'
  exact ⟨v', st', he', hpv⟩

/-- the dynamic nodes that ran in one build ran in the other -/
theorem evaluate_permTree_log_mem {w : World} {t t' : Node} (hC : Corr t t') (huk : uniqueKeys t = true)
    (huk' : uniqueKeys t' = true) {v v' : Val} {st st' : EvSt} (he : evaluate w t = .ok (v, st))
    (he' : evaluate w t' = .ok (v', st')) (e : LogEntry) (hm : e ∈ st.log) : e ∈ st'.log := by
  obtain ⟨new, h1, h2⟩ := evalNodeF_logExt t w _ false t [] {} v st Placed.root he
  rw [h1] at hm
  obtain ⟨m, hpl, _, hd⟩ := h2 e (by simpa using hm)
  have hg : getNode t e.path = some m := (hpl.getNode_uniq huk).1
  obtain ⟨m', hg', hr⟩ := hC.fwd _ _ hg
  have hd' : dynWhat m' = some e.what := by rw [hr.dynWhat_eq]; exact hd
  exact (evaluate_dyn_logged huk' he' hg' hd').1

theorem evaluate_permTree_log {w : World} {t t' : Node} (h : PermTree t t') (huk : uniqueKeys t = true)
    (huk' : uniqueKeys t' = true) {v v' : Val} {st st' : EvSt} (he : evaluate w t = .ok (v, st))
    (he' : evaluate w t' = .ok (v', st')) : st'.log.Perm st.log := by
  have hwf := (evalNodeF_wf _ w _ false _ [] {} v st WF.init he).1
  have hwf' := (evalNodeF_wf _ w _ false _ [] {} v' st' WF.init he').1
  rw [List.perm_ext_iff_of_nodup (nodup_of_map _ hwf'.nodup) (nodup_of_map _ hwf.nodup)]
  intro e
  exact ⟨evaluate_permTree_log_mem ((PermTree.symm _ _ h).corr huk' huk) huk' huk he' he e,
    evaluate_permTree_log_mem (h.corr huk huk') huk huk' he he' e⟩

theorem evaluate_permTree_tainted {w : World} {t t' : Node} (h : PermTree t t') (huk : uniqueKeys t = true)
    (huk' : uniqueKeys t' = true) {v v' : Val} {st st' : EvSt} (he : evaluate w t = .ok (v, st))
    (he' : evaluate w t' = .ok (v', st')) (p : Path) : p ∈ st'.tainted ↔ p ∈ st.tainted := by
  have hC := h.corr huk huk'
  have hC' := (PermTree.symm _ _ h).corr huk' huk
  rw [evaluate_tainted_iff huk' he', evaluate_tainted_iff huk he]
  constructor
  · rintro ⟨⟨m', hm'⟩, hd⟩
    obtain ⟨m, hm, _⟩ := hC.bwd p m' hm'
    exact ⟨⟨m, hm⟩, Dirty.permTree hC' hd⟩
  · rintro ⟨⟨m, hm⟩, hd⟩
    obtain ⟨m', hm', _⟩ := hC.fwd p m hm
    exact ⟨⟨m', hm'⟩, Dirty.permTree hC hd⟩

end AY
