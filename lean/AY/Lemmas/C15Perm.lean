/-
  AY.Lemmas.C15Perm — the specification `upd` is insensitive to the order of the keys inside
  mappings: equality up to key order (`Plain.PermEq`) is a congruence for `updF`, for newer values
  without integer keys (integer keys address list positions, where aliasing makes the order matter).
-/
import AY.Lemmas.C15Spec
set_option linter.unusedVariables false
namespace AY

/-! ### equality up to key order -/

def optRel (R : Plain → Plain → Prop) : Option Plain → Option Plain → Prop
  | none, none => True
  | some x, some y => R x y
  | _, _ => False

/-- lists: same length, related element by element (the order of list elements matters) -/
def listRel (R : Plain → Plain → Prop) : List Plain → List Plain → Prop
  | [], [] => True
  | x :: xs, y :: ys => R x y ∧ listRel R xs ys
  | _, _ => False

/-- mappings: no repeated key on either side, the same keys, related values key by key -/
def dictRel (R : Plain → Plain → Prop) (xs ys : List (Key × Plain)) : Prop :=
  keysNodup xs = true ∧ keysNodup ys = true ∧ ∀ k, optRel R (alookup k xs) (alookup k ys)

/-- equality up to the order of keys inside every mapping, to nesting depth `< n` -/
def permEqF : Nat → Plain → Plain → Prop
  | 0, _, _ => False
  | _ + 1, .scalar v, .scalar w => v = w
  | n + 1, .list xs, .list ys => listRel (permEqF n) xs ys
  | n + 1, .dict xs, .dict ys => dictRel (permEqF n) xs ys
  | _ + 1, _, _ => False

/-- `a` and `b` are the same data up to the order of keys inside mappings -/
def Plain.PermEq (a b : Plain) : Prop := ∃ n, permEqF n a b

theorem optRel_mono {R S : Plain → Plain → Prop} (h : ∀ x y, R x y → S x y) :
    ∀ {a b : Option Plain}, optRel R a b → optRel S a b
  | none, none, _ => trivial
  | some x, some y, hr => h x y hr
  | none, some _, hr => hr.elim
  | some _, none, hr => hr.elim

theorem listRel_mono {R S : Plain → Plain → Prop} (h : ∀ x y, R x y → S x y) :
    ∀ {xs ys : List Plain}, listRel R xs ys → listRel S xs ys
  | [], [], _ => trivial
  | x :: xs, y :: ys, hr => ⟨h x y hr.1, listRel_mono h hr.2⟩
  | [], _ :: _, hr => hr.elim
  | _ :: _, [], hr => hr.elim

theorem permEqF_succ : ∀ (n : Nat) (a b : Plain), permEqF n a b → permEqF (n + 1) a b
  | 0, _, _, h => h.elim
  | n + 1, .scalar v, .scalar w, h => h
  | n + 1, .list xs, .list ys, h => listRel_mono (permEqF_succ n) h
  | n + 1, .dict xs, .dict ys, h => ⟨h.1, h.2.1, fun k => optRel_mono (permEqF_succ n) (h.2.2 k)⟩
  | n + 1, .scalar _, .list _, h => h.elim
  | n + 1, .scalar _, .dict _, h => h.elim
  | n + 1, .list _, .scalar _, h => h.elim
  | n + 1, .list _, .dict _, h => h.elim
  | n + 1, .dict _, .scalar _, h => h.elim
  | n + 1, .dict _, .list _, h => h.elim

theorem permEqF_mono {n n' : Nat} (hle : n ≤ n') {a b : Plain} (h : permEqF n a b) : permEqF n' a b := by
  induction hle with
  | refl => exact h
  | step _ ih => exact permEqF_succ _ _ _ ih

theorem optRel_symm {R : Plain → Plain → Prop} (h : ∀ x y, R x y → R y x) :
    ∀ {a b : Option Plain}, optRel R a b → optRel R b a
  | none, none, _ => trivial
  | some x, some y, hr => h x y hr
  | none, some _, hr => hr.elim
  | some _, none, hr => hr.elim

theorem listRel_symm {R : Plain → Plain → Prop} (h : ∀ x y, R x y → R y x) :
    ∀ {xs ys : List Plain}, listRel R xs ys → listRel R ys xs
  | [], [], _ => trivial
  | x :: xs, y :: ys, hr => ⟨h x y hr.1, listRel_symm h hr.2⟩
  | [], _ :: _, hr => hr.elim
  | _ :: _, [], hr => hr.elim

theorem permEqF_symm : ∀ (n : Nat) (a b : Plain), permEqF n a b → permEqF n b a
  | 0, _, _, h => h.elim
  | n + 1, .scalar v, .scalar w, h => by simp only [permEqF] at h ⊢; exact h.symm
  | n + 1, .list xs, .list ys, h => listRel_symm (permEqF_symm n) h
  | n + 1, .dict xs, .dict ys, h => ⟨h.2.1, h.1, fun k => optRel_symm (permEqF_symm n) (h.2.2 k)⟩
  | n + 1, .scalar _, .list _, h => h.elim
  | n + 1, .scalar _, .dict _, h => h.elim
  | n + 1, .list _, .scalar _, h => h.elim
  | n + 1, .list _, .dict _, h => h.elim
  | n + 1, .dict _, .scalar _, h => h.elim
  | n + 1, .dict _, .list _, h => h.elim

theorem PermEq_symm {a b : Plain} (h : a.PermEq b) : b.PermEq a := by
  obtain ⟨n, h⟩ := h; exact ⟨n, permEqF_symm n a b h⟩

/-! ### no integer keys -/

def noIntKeys {α : Type} : List (Key × α) → Bool
  | [] => true
  | (k, _) :: rest => (match k with | .int _ => false | _ => true) && noIntKeys rest

mutual
/-- hereditarily: no mapping has an integer key (nothing can address a list position) -/
def Plain.noIntKeysH : Plain → Bool
  | .scalar _ => true
  | .list xs => noIntL xs
  | .dict xs => noIntKeys xs && noIntD xs
def noIntL : List Plain → Bool
  | [] => true
  | x :: xs => x.noIntKeysH && noIntL xs
def noIntD : List (Key × Plain) → Bool
  | [] => true
  | (_, x) :: xs => x.noIntKeysH && noIntD xs
end

theorem noIntD_lookup : ∀ (xs : List (Key × Plain)), noIntD xs = true → ∀ k v, alookup k xs = some v →
    v.noIntKeysH = true
  | [], _, k, v, h => by simp [alookup] at h
  | (k', x) :: rest, hn, k, v, h => by
    have hn' : x.noIntKeysH = true ∧ noIntD rest = true := by simpa [noIntD] using hn
    by_cases e : k' = k
    · simp [alookup, e] at h; subst h; exact hn'.1
    · simp [alookup, e] at h; exact noIntD_lookup rest hn'.2 k v h

/-! ### association lists -/

theorem keysNodup_append_single {α : Type} (k : Key) (v : α) :
    ∀ l : List (Key × α), keysNodup l = true → alookup k l = none → keysNodup (l ++ [(k, v)]) = true
  | [], _, _ => rfl
  | (k', v') :: rest, h, hk => by
    have h' : (akeys rest).contains k' = false ∧ keysNodup rest = true := by simpa [keysNodup] using h
    have hne : ¬ k' = k := by intro e; simp [alookup, e] at hk
    have hk' : alookup k rest = none := by simpa [alookup, hne] using hk
    have := keysNodup_append_single k v rest h'.2 hk'
    simp only [List.cons_append, keysNodup, this, Bool.and_true, keysOf_append, akeys]
    simp at h' ⊢
    exact ⟨h'.1, hne⟩

theorem keysNodup_aset {α : Type} (k : Key) (v : α) (l : List (Key × α)) (h : keysNodup l = true) :
    keysNodup (aset k v l) = true := by
  cases hl : alookup k l with
  | none => rw [aset_of_lookup_none k v l hl]; exact keysNodup_append_single k v l h hl
  | some w =>
    rw [keysNodup_congr (aset k v l) l (keysOf_aset_of_some k v l (by rw [hl]; rfl))]
    exact h

theorem updDict_nodup (rec : Plain → Plain → Except Err Plain) :
    ∀ (bs as rs : List (Key × Plain)), keysNodup as = true → updF.updDict rec as bs = .ok rs →
      keysNodup rs = true
  | [], as, rs, ha, h => by simp only [updF.updDict] at h; injection h with h; rw [← h]; exact ha
  | (k, vb) :: rest, as, rs, ha, h => by
    rw [updDict_cons] at h
    cases hl : alookup k as with
    | none =>
      simp only [hl] at h
      exact updDict_nodup rec rest _ rs (keysNodup_aset k vb as ha) h
    | some va =>
      simp only [hl] at h
      cases hr : rec va vb with
      | error e => simp [hr] at h
      | ok v =>
        simp only [hr] at h
        exact updDict_nodup rec rest _ rs (keysNodup_aset k v as ha) h

/-- `updDict` succeeds as soon as the recursive update succeeds on every common key -/
theorem updDict_ok_of (rec : Plain → Plain → Except Err Plain) :
    ∀ (bs as : List (Key × Plain)), keysNodup bs = true →
      (∀ k va vb, alookup k bs = some vb → alookup k as = some va → ∃ v, rec va vb = .ok v) →
      ∃ rs, updF.updDict rec as bs = .ok rs
  | [], as, _, _ => ⟨as, rfl⟩
  | (k, vb) :: rest, as, hnd, h => by
    have hnd' : (akeys rest).contains k = false ∧ keysNodup rest = true := by simpa [keysNodup] using hnd
    have hkrest : alookup k rest = none := (alookup_none_iff k rest).2 hnd'.1
    have step : ∀ x, ∃ rs, updF.updDict rec (aset k x as) rest = .ok rs := by
      intro x
      apply updDict_ok_of rec rest (aset k x as) hnd'.2
      intro k' va' vb' h1 h2
      have hne : ¬ k = k' := by intro e; subst e; rw [hkrest] at h1; cases h1
      rw [alookup_aset] at h2
      simp only [hne, if_false] at h2
      exact h k' va' vb' (by simp [alookup, hne, h1]) h2
    rw [updDict_cons]
    cases hl : alookup k as with
    | none => exact step vb
    | some va =>
      obtain ⟨v, hv⟩ := h k va vb (by simp [alookup]) hl
      simp only [hv]
      exact step v

/-! ### the congruence -/

theorem updDict_perm (rec : Plain → Plain → Except Err Plain) (R : Plain → Plain → Prop) (Q : Plain → Prop)
    (H : ∀ x x' y y' r, R x x' → R y y' → Q y → rec x y = .ok r → ∃ r', rec x' y' = .ok r' ∧ R r r')
    {as as' bs bs' rs : List (Key × Plain)} (ha : dictRel R as as') (hb : dictRel R bs bs')
    (hq : ∀ k v, alookup k bs = some v → Q v) (h : updF.updDict rec as bs = .ok rs) :
    ∃ rs', updF.updDict rec as' bs' = .ok rs' ∧ dictRel R rs rs' := by
  have hpw := updDict_pointwise rec bs as rs h hb.1
  have hkeys := updDict_keys rec bs as rs h
  -- every recursive update of the first pass succeeded
  have hrec : ∀ k va vb, alookup k bs = some vb → alookup k as = some va → ∃ v, rec va vb = .ok v := by
    intro k va vb h1 h2
    have e := hpw k
    have s := hkeys k
    simp only [h1, h2, Option.isSome_some, Bool.or_self] at e s
    cases hr : rec va vb with
    | ok v => exact ⟨v, rfl⟩
    | error err => rw [e, hr] at s; simp [Except.toOption] at s
  have hok : ∃ rs', updF.updDict rec as' bs' = .ok rs' := by
    apply updDict_ok_of rec bs' as' hb.2.1
    intro k va' vb' h1 h2
    have r1 := hb.2.2 k
    have r2 := ha.2.2 k
    rw [h1] at r1; rw [h2] at r2
    cases hbk : alookup k bs with
    | none => simp [hbk, optRel] at r1
    | some vb =>
      cases hak : alookup k as with
      | none => simp [hak, optRel] at r2
      | some va =>
        simp only [hbk, hak, optRel] at r1 r2
        obtain ⟨v, hv⟩ := hrec k va vb hbk hak
        obtain ⟨v', hv', _⟩ := H va va' vb vb' v r2 r1 (hq k vb hbk) hv
        exact ⟨v', hv'⟩
  obtain ⟨rs', hrs'⟩ := hok
  refine ⟨rs', hrs', updDict_nodup rec bs as rs ha.1 h, updDict_nodup rec bs' as' rs' ha.2.1 hrs', ?_⟩
  intro k
  have e := hpw k
  have e' := updDict_pointwise rec bs' as' rs' hrs' hb.2.1 k
  have r1 := hb.2.2 k
  have r2 := ha.2.2 k
  rw [e, e']
  cases hbk : alookup k bs with
  | none =>
    cases hbk' : alookup k bs' with
    | none => simpa using r2
    | some vb' => simp [hbk, hbk', optRel] at r1
  | some vb =>
    cases hbk' : alookup k bs' with
    | none => simp [hbk, hbk', optRel] at r1
    | some vb' =>
      simp only [hbk, hbk', optRel] at r1
      cases hak : alookup k as with
      | none =>
        cases hak' : alookup k as' with
        | none => simpa [optRel] using r1
        | some va' => simp [hak, hak', optRel] at r2
      | some va =>
        cases hak' : alookup k as' with
        | none => simp [hak, hak', optRel] at r2
        | some va' =>
          simp only [hak, hak', optRel] at r2
          obtain ⟨v, hv⟩ := hrec k va vb hbk hak
          obtain ⟨v', hv', hr⟩ := H va va' vb vb' v r2 r1 (hq k vb hbk) hv
          simpa [hv, hv', Except.toOption, optRel] using hr

theorem dictRel_nil_left {R : Plain → Plain → Prop} {ys : List (Key × Plain)} (h : dictRel R [] ys) : ys = [] := by
  cases ys with
  | nil => rfl
  | cons kv rest =>
    obtain ⟨k, v⟩ := kv
    have := h.2.2 k
    simp [alookup, optRel] at this

/-- key order is irrelevant for the recursive update: related inputs give related results (same
    fuel on both sides), for a newer value without integer keys -/
theorem updF_perm : ∀ (m n : Nat) (a a' b b' r : Plain), permEqF n a a' → permEqF n b b' →
    b.noIntKeysH = true → updF m a b = .ok r → ∃ r', updF m a' b' = .ok r' ∧ permEqF n r r' := by
  intro m
  induction m with
  | zero => intro n a a' b b' r _ _ _ h; cases h
  | succ m ih =>
    intro n a a' b b' r ha hb hq h
    cases n with
    | zero => exact ha.elim
    | succ n =>
      cases b with
      | scalar v =>
        cases b' with
        | scalar w =>
          rw [updF_scalar_right] at h; injection h with h; subst h
          exact ⟨_, updF_scalar_right m a' w, hb⟩
        | list ys => exact hb.elim
        | dict ys => exact hb.elim
      | list xs =>
        cases b' with
        | list ys =>
          rw [updF_list_right] at h; injection h with h; subst h
          exact ⟨_, updF_list_right m a' ys, hb⟩
        | scalar w => exact hb.elim
        | dict ys => exact hb.elim
      | dict bs =>
        cases b' with
        | scalar w => exact hb.elim
        | list ys => exact hb.elim
        | dict bs' =>
          have hb' : dictRel (permEqF n) bs bs' := hb
          have hq' : noIntKeys bs = true ∧ noIntD bs = true := by simpa [Plain.noIntKeysH] using hq
          cases a with
          | scalar v =>
            cases a' with
            | scalar w =>
              have e : updF (m + 1) (.scalar v) (.dict bs) = .ok (.dict bs) := rfl
              rw [e] at h; injection h with h; subst h
              exact ⟨.dict bs', rfl, hb⟩
            | list ys => exact ha.elim
            | dict ys => exact ha.elim
          | list as =>
            cases a' with
            | list as' =>
              cases bs with
              | nil =>
                have : bs' = [] := dictRel_nil_left hb'
                subst this
                have e : ∀ l, updF (m + 1) (.list l) (.dict []) = .ok (.list l) := fun l => by
                  simp [updF_list_dict, allIndices, updF.updList, Except.map]
                rw [e] at h; injection h with h; subst h
                exact ⟨.list as', e as', ha⟩
              | cons kv rest =>
                obtain ⟨k, vb⟩ := kv
                exfalso
                have hk : listIndex as.length k = none := by
                  cases k with
                  | int z => simp [noIntKeys] at hq'
                  | str s => rfl
                  | float s => rfl
                simp [updF_list_dict, allIndices, hk] at h
            | scalar w => exact ha.elim
            | dict ys => exact ha.elim
          | dict as =>
            cases a' with
            | dict as' =>
              have ha' : dictRel (permEqF n) as as' := ha
              rw [updF_dict_dict] at h
              cases hu : updF.updDict (updF m) as bs with
              | error e => simp [hu, Except.map] at h
              | ok rs =>
                simp only [hu, Except.map] at h
                injection h with h; subst h
                obtain ⟨rs', h1, h2⟩ := updDict_perm (updF m) (permEqF n) (fun y => y.noIntKeysH = true)
                  (fun x x' y y' r hx hy hqy hr => ih n x x' y y' r hx hy hqy hr) ha' hb'
                  (fun k v hk => noIntD_lookup bs hq'.2 k v hk) hu
                exact ⟨.dict rs', by rw [updF_dict_dict, h1]; rfl, h2⟩
            | scalar w => exact ha.elim
            | list ys => exact ha.elim

/-! ### depth is invariant under key order -/

theorem mem_of_alookup {α : Type} (k : Key) (v : α) : ∀ l : List (Key × α), alookup k l = some v → (k, v) ∈ l
  | [], h => by simp [alookup] at h
  | (k', v') :: rest, h => by
    by_cases e : k' = k
    · simp [alookup, e] at h; subst h; subst e; exact List.mem_cons_self
    · simp [alookup, e] at h; exact List.mem_cons_of_mem _ (mem_of_alookup k v rest h)

theorem depthD_le_of (ys : List (Key × Plain)) : ∀ (xs : List (Key × Plain)),
    (∀ kv, kv ∈ xs → ∃ y, alookup kv.1 ys = some y ∧ kv.2.depth = y.depth) → plainDepthD xs ≤ plainDepthD ys
  | [], _ => by simp [plainDepthD]
  | (k, x) :: rest, h => by
    obtain ⟨y, hy, e⟩ := h (k, x) List.mem_cons_self
    have h1 := depthD_mem ys (k, y) (mem_of_alookup k y ys hy)
    have h2 := depthD_le_of ys rest (fun kv hkv => h kv (List.mem_cons_of_mem _ hkv))
    simp only [plainDepthD]
    simp only at e h1
    omega

theorem depthL_listRel {R : Plain → Plain → Prop} (hR : ∀ x y, R x y → x.depth = y.depth) :
    ∀ (xs ys : List Plain), listRel R xs ys → plainDepthL xs = plainDepthL ys
  | [], [], _ => rfl
  | x :: xs, y :: ys, h => by
    simp only [plainDepthL, hR x y h.1, depthL_listRel hR xs ys h.2]
  | [], _ :: _, h => h.elim
  | _ :: _, [], h => h.elim

theorem depthD_dictRel {R : Plain → Plain → Prop} (hR : ∀ x y, R x y → x.depth = y.depth)
    {xs ys : List (Key × Plain)} (h : dictRel R xs ys) : plainDepthD xs ≤ plainDepthD ys := by
  apply depthD_le_of
  intro kv hkv
  have hl := alookup_of_mem_nodup xs h.1 kv hkv
  have := h.2.2 kv.1
  rw [hl] at this
  cases hy : alookup kv.1 ys with
  | none => simp [hy, optRel] at this
  | some y =>
    simp only [hy, optRel] at this
    exact ⟨y, rfl, hR _ _ this⟩

theorem depth_permEqF : ∀ (n : Nat) (a b : Plain), permEqF n a b → a.depth = b.depth
  | 0, _, _, h => h.elim
  | n + 1, .scalar v, .scalar w, _ => rfl
  | n + 1, .list xs, .list ys, h => by
    simp only [Plain.depth, depthL_listRel (depth_permEqF n) xs ys h]
  | n + 1, .dict xs, .dict ys, h => by
    have h1 := depthD_dictRel (depth_permEqF n) (xs := xs) (ys := ys) h
    have h' : dictRel (permEqF n) ys xs := ⟨h.2.1, h.1, fun k => optRel_symm (permEqF_symm n) (h.2.2 k)⟩
    have h2 := depthD_dictRel (depth_permEqF n) h'
    simp only [Plain.depth]
    omega
  | n + 1, .scalar _, .list _, h => h.elim
  | n + 1, .scalar _, .dict _, h => h.elim
  | n + 1, .list _, .scalar _, h => h.elim
  | n + 1, .list _, .dict _, h => h.elim
  | n + 1, .dict _, .scalar _, h => h.elim
  | n + 1, .dict _, .list _, h => h.elim

/-- key order is irrelevant for `upd` -/
theorem upd_perm {a a' b b' r : Plain} (ha : a.PermEq a') (hb : b.PermEq b') (hq : b.noIntKeysH = true)
    (h : upd a b = .ok r) : ∃ r', upd a' b' = .ok r' ∧ r.PermEq r' := by
  obtain ⟨n1, ha⟩ := ha
  obtain ⟨n2, hb⟩ := hb
  have hd := depth_permEqF n2 b b' hb
  obtain ⟨r', h1, h2⟩ := updF_perm (b.depth + 1) (max n1 n2) a a' b b' r
    (permEqF_mono (Nat.le_max_left _ _) ha) (permEqF_mono (Nat.le_max_right _ _) hb) hq h
  refine ⟨r', ?_, _, h2⟩
  unfold upd
  rw [← hd]; exact h1


/-! ### a Boolean test (used to discharge concrete examples) -/

def listRelB (R : Plain → Plain → Bool) : List Plain → List Plain → Bool
  | [], [] => true
  | x :: xs, y :: ys => R x y && listRelB R xs ys
  | _, _ => false

def permEqB : Nat → Plain → Plain → Bool
  | 0, _, _ => false
  | _ + 1, .scalar v, .scalar w => v == w
  | n + 1, .list xs, .list ys => listRelB (permEqB n) xs ys
  | n + 1, .dict xs, .dict ys =>
    keysNodup xs && keysNodup ys &&
      xs.all (fun kv => match alookup kv.1 ys with | some y => permEqB n kv.2 y | none => false) &&
      ys.all (fun kv => ahas kv.1 xs)
  | _ + 1, _, _ => false

theorem listRel_of_B {R : Plain → Plain → Prop} {B : Plain → Plain → Bool} (h : ∀ x y, B x y = true → R x y) :
    ∀ (xs ys : List Plain), listRelB B xs ys = true → listRel R xs ys
  | [], [], _ => trivial
  | x :: xs, y :: ys, hb => by
    simp only [listRelB, Bool.and_eq_true] at hb
    exact ⟨h x y hb.1, listRel_of_B h xs ys hb.2⟩
  | [], _ :: _, hb => by simp [listRelB] at hb
  | _ :: _, [], hb => by simp [listRelB] at hb

theorem permEqF_of_B : ∀ (n : Nat) (a b : Plain), permEqB n a b = true → permEqF n a b
  | 0, _, _, h => by simp [permEqB] at h
  | n + 1, .scalar v, .scalar w, h => by simpa [permEqB, permEqF] using h
  | n + 1, .list xs, .list ys, h => listRel_of_B (permEqF_of_B n) xs ys (by simpa [permEqB] using h)
  | n + 1, .dict xs, .dict ys, h => by
    simp only [permEqB, Bool.and_eq_true, List.all_eq_true] at h
    obtain ⟨⟨⟨h1, h2⟩, h3⟩, h4⟩ := h
    refine ⟨h1, h2, ?_⟩
    intro k
    cases hx : alookup k xs with
    | some x =>
      have := h3 (k, x) (mem_of_alookup k x xs hx)
      cases hy : alookup k ys with
      | none => simp [hy] at this
      | some y =>
        simp only [hy] at this
        exact permEqF_of_B n x y this
    | none =>
      cases hy : alookup k ys with
      | none => trivial
      | some y =>
        have := h4 (k, y) (mem_of_alookup k y ys hy)
        simp [ahas, hx] at this
  | n + 1, .scalar _, .list _, h => by simp [permEqB] at h
  | n + 1, .scalar _, .dict _, h => by simp [permEqB] at h
  | n + 1, .list _, .scalar _, h => by simp [permEqB] at h
  | n + 1, .list _, .dict _, h => by simp [permEqB] at h
  | n + 1, .dict _, .scalar _, h => by simp [permEqB] at h
  | n + 1, .dict _, .list _, h => by simp [permEqB] at h

theorem PermEq_of_B (n : Nat) {a b : Plain} (h : permEqB n a b = true) : a.PermEq b := ⟨n, permEqF_of_B n a b h⟩

end AY
