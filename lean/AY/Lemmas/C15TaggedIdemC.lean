/-
  AY.Lemmas.C15TaggedIdemC — merging the same tree of mappings a second time changes nothing but the
  order of keys and flags the merge does not read (idempotence clause of C15, tagged documents).

  For a newer tree `v` of the domain without the remove-this-key idiom, by induction on the fuel:
    (c)  `m = a ⊕ v`  ⇒  `m ⊕ v ≈ m`                                     (any older tree `a`)
    (A)  `b` survived the pruning by `v`, `m = b ⊕ v`, nothing of `m` survives it  ⇒  `m ≈ v`
    (B)  `b` survived the pruning by `v`, `m = b ⊕ v`, `x` = what survives of `m`  ⇒  `x ⊕ v ≈ m`
  (A) and (B) are what a deleting ancestor needs: the second merge first prunes the result of the
  first one.
-/
import AY.Lemmas.C15TaggedIdemB
namespace AY.C15T
open AY.C15W (NN nnList nnF)

structure IdemAt (fuel : Nat) (v : Node) : Prop where
  c : ∀ a m sm, Dom a → mergeF fuel a v = .ok (m, sm) → ∃ m2 b2, mergeF fuel m v = .ok (m2, b2) ∧ PermC m m2
  A : ∀ a0 b m sm, Dom a0 → pruneAt (maybeKeep v) [] a0 = some b → mergeF fuel b v = .ok (m, sm) →
    pruneAt (maybeKeep v) [] m = none → PermC m v
  B : ∀ a0 b m sm x, Dom a0 → pruneAt (maybeKeep v) [] a0 = some b → mergeF fuel b v = .ok (m, sm) →
    pruneAt (maybeKeep v) [] m = some x → ∃ m2 b2, mergeF fuel x v = .ok (m2, b2) ∧ PermC m m2

def Idem (fuel : Nat) : Prop := ∀ v, Dom v → noIdiom v = true → v.depth < fuel → IdemAt fuel v

/-! ### small facts -/

theorem maybeKeep_root (v n : Node) : maybeKeep v [] n = hasPrio n.flags v.flags false := rfl

theorem pruneAt_dict (v : Node) (f : Flags) {cs : List (Key × Node)} (hn : keysNodup cs = true) :
    pruneAt (maybeKeep v) [] (.comp f .dict cs) =
      if hasPrio f v.flags false || !(keptChildren (maybeKeep v) [] cs).isEmpty then
        some (.comp f .dict (keptChildren (maybeKeep v) [] cs))
      else none := by
  have hfl : (Node.comp f .dict cs).flags = f := rfl
  simp only [pruneAt, c04_filterNode_dict_kept _ [] f .dict cs rfl hn, maybeKeep_root, hfl, Node.isComp,
    Node.children, Bool.true_and]

theorem core_leafWin (a : Node) (g : Flags) :
    core (propagate (a.setFlags (replaceOtherFlags a.flags g))) = core a := by
  rw [core_propagate, core_setFlags, coreF_replaceOtherFlags, ← core_flags]
  cases a <;> rfl

theorem flags_leafWin (a : Node) (g : Flags) :
    (propagate (a.setFlags (replaceOtherFlags a.flags g))).flags = replaceOtherFlags a.flags g := by
  rw [c04_flags_propagate, c04_flags_setFlags]

theorem isComp_leafWin (a : Node) (g : Flags) :
    (propagate (a.setFlags (replaceOtherFlags a.flags g))).isComp = a.isComp := by
  rw [← core_isComp, core_leafWin, core_isComp]

theorem finishFlags_core_of {af vf : Flags} (h : hasPrio vf (finishFlags af vf) true = true) :
    coreF (finishFlags af vf) = coreF vf := by
  cases hq : hasPrio vf af true with
  | true => rw [coreF_finishFlags, hq]; rfl
  | false =>
    have e : coreF (finishFlags af vf) = coreF af := by rw [coreF_finishFlags, hq]; rfl
    rw [hasPrio_of_coreF rfl e true, hq] at h
    cases h

/-! ### leaf cases: one of the two nodes is a leaf, the merge is the leaf rule -/

/-- the older node wins and wins again; the newer node wins and is merged with a copy of itself -/
theorem leaf_c (fuel : Nat) {a v m : Node} {sm : Bool} (ha : Dom a) (hv : Dom v) (hni : noIdiom v = true)
    (hd : v.depth < fuel + 1) (hleaf : a.isComp = false ∨ v.isComp = false)
    (hm : mergeF (fuel + 1) a v = .ok (m, sm)) :
    ∃ m2 b2, mergeF (fuel + 1) m v = .ok (m2, b2) ∧ PermC m m2 := by
  have hmD : Dom m := mergeF_dom ha hv hm
  rw [mergeF_leafRule fuel ha.1 hleaf] at hm
  injection hm with hm
  cases hq : hasPrio a.flags v.flags false with
  | true =>
    rw [leafRule_true hq] at hm
    injection hm with e1 _
    subst e1
    have hleaf' : (propagate (a.setFlags (replaceOtherFlags a.flags v.flags))).isComp = false ∨ v.isComp = false := by
      rw [isComp_leafWin]; exact hleaf
    have hq' : hasPrio (propagate (a.setFlags (replaceOtherFlags a.flags v.flags))).flags v.flags false = true := by
      rw [flags_leafWin, ← hq]
      exact hasPrio_of_coreF (coreF_replaceOtherFlags _ _) rfl false
    refine ⟨_, _, (mergeF_leafRule fuel hmD.1 hleaf').trans (by rw [leafRule_true hq']), ?_⟩
    exact hmD.refl.of_core_eq rfl (core_leafWin _ _)
  | false =>
    rw [leafRule_false hq] at hm
    injection hm with e1 _
    subst e1
    have hmv : PermC (propagate (v.setFlags (replaceOtherFlags v.flags a.flags))) v :=
      hv.refl.of_core_eq (core_leafWin _ _) rfl
    obtain ⟨m2, b2, h2, hm2⟩ := selfMerge (fuel + 1) v _ hmD hv hni hd hmv
    exact ⟨m2, b2, h2, hmv.trans hm2.symm⟩

theorem leaf_A (fuel : Nat) {b v m : Node} {sm : Bool} (hb : Dom b) (hv : Dom v)
    (hleaf : b.isComp = false ∨ v.isComp = false) (hm : mergeF (fuel + 1) b v = .ok (m, sm))
    (hp : pruneAt (maybeKeep v) [] m = none) : PermC m v := by
  rw [mergeF_leafRule fuel hb.1 hleaf] at hm
  injection hm with hm
  cases hq : hasPrio b.flags v.flags false with
  | true =>
    rw [leafRule_true hq] at hm
    injection hm with e1 _
    subst e1
    have hq' : hasPrio (propagate (b.setFlags (replaceOtherFlags b.flags v.flags))).flags v.flags false = true := by
      rw [flags_leafWin, ← hq]
      exact hasPrio_of_coreF (coreF_replaceOtherFlags _ _) rfl false
    simp only [pruneAt, maybeKeep_root, hq', Bool.true_or, if_true] at hp
    cases hp
  | false =>
    rw [leafRule_false hq] at hm
    injection hm with e1 _
    subst e1
    exact hv.refl.of_core_eq (core_leafWin _ _) rfl

theorem leaf_B (fuel : Nat) {a0 b v m x : Node} {sm : Bool} (ha0 : Dom a0) (hv : Dom v)
    (hb0 : pruneAt (maybeKeep v) [] a0 = some b)
    (hleaf : b.isComp = false ∨ v.isComp = false) (hm : mergeF (fuel + 1) b v = .ok (m, sm))
    (hp : pruneAt (maybeKeep v) [] m = some x) :
    ∃ m2 b2, mergeF (fuel + 1) x v = .ok (m2, b2) ∧ PermC m m2 := by
  have hb : Dom b := pruneAt_dom (maybeKeep_coreCond v) ha0 hb0
  have hmD : Dom m := mergeF_dom hb hv hm
  have hxD : Dom x := pruneAt_dom (maybeKeep_coreCond v) hmD hp
  rw [mergeF_leafRule fuel hb.1 hleaf] at hm
  injection hm with hm
  cases hq : hasPrio b.flags v.flags false with
  | true =>
    rw [leafRule_true hq] at hm
    injection hm with e1 _
    subst e1
    have hmb : PermC (propagate (b.setFlags (replaceOtherFlags b.flags v.flags))) b :=
      hb.refl.of_core_eq (core_leafWin _ _) rfl
    -- `x` is the pruned result, the result is a copy of `b`, and `b` is stable under the pruning
    have hx := pruneAt_some_eq hp
    have hbb := pruneAt_some_eq (pruneAt_idem (maybeKeep_coreCond v) ha0.1 [] hb0)
    have hxb : PermC x b := by
      have := hmb.filterNode (maybeKeep_coreCond v) []
      rw [← hx, ← hbb] at this
      exact this
    have hxm : PermC x (propagate (b.setFlags (replaceOtherFlags b.flags v.flags))) := hxb.trans hmb.symm
    have hleaf' : x.isComp = false ∨ v.isComp = false := by
      rw [hxb.isComp_eq] at hleaf; exact hleaf
    have hq' : hasPrio x.flags v.flags false = true := by
      rw [← hq]
      exact hasPrio_of_coreF hxb.coreF_eq rfl false
    refine ⟨_, _, (mergeF_leafRule fuel hxD.1 hleaf').trans (by rw [leafRule_true hq']), ?_⟩
    exact hxm.symm.of_core_eq rfl (core_leafWin _ _)
  | false =>
    rw [leafRule_false hq] at hm
    injection hm with e1 _
    subst e1
    have hmv : PermC (propagate (v.setFlags (replaceOtherFlags v.flags b.flags))) v :=
      hv.refl.of_core_eq (core_leafWin _ _) rfl
    rw [selfPrune' hmv] at hp
    cases hp

/-! ### two mappings: what the pruning of the first result leaves, key by key -/

/-- the facts about one key `k` that the second merge needs: `mcs` are the entries of the first result,
    `kept` what survives of them under the pruning by `v` -/
structure KeyFacts (fuel : Nat) (vcs mcs kept : List (Key × Node)) (k : Key) : Prop where
  frame : alookup k vcs = none → OptRel PermC (alookup k kept) (alookup k mcs)
  hit : ∀ v', alookup k vcs = some v' → ∃ y, alookup k mcs = some y ∧
    (alookup k kept = none → PermC y v') ∧
    (∀ x2, alookup k kept = some x2 → ∃ m2 b2, mergeF fuel x2 v' = .ok (m2, b2) ∧ PermC y m2)

theorem key_facts {fuel : Nat} (ih : Idem fuel) {vf : Flags} {vcs base mcs : List (Key × Node)}
    (hv : Dom (.comp vf .dict vcs)) (hni : noIdiom (.comp vf .dict vcs) = true)
    (hd : (Node.comp vf .dict vcs).depth < fuel + 1)
    (hmn : keysNodup mcs = true) (hmD : ∀ k c, alookup k mcs = some c → Dom c)
    (hstab : ∀ k c, alookup k base = some c →
      ∃ c0, Dom c0 ∧ pruneAt (maybeKeep (sub (.comp vf .dict vcs) k)) [] c0 = some c)
    (hs : ∀ k, EntrySpec fuel (alookup k vcs) (alookup k base) (alookup k mcs)) (k : Key) :
    KeyFacts fuel vcs mcs (keptChildren (maybeKeep (.comp vf .dict vcs)) [] mcs) k := by
  have hk := alookup_kept (.comp vf .dict vcs) k mcs hmn
  have es := hs k
  constructor
  · intro hvn
    rw [hvn] at es
    simp only [EntrySpec] at es
    rw [hk]
    cases hb : alookup k base with
    | none =>
      rw [hb] at es
      rw [es.noneR]
      exact .none
    | some c =>
      rw [hb] at es
      obtain ⟨y, hy, hyc⟩ := es.someR
      obtain ⟨c0, hc0, hp0⟩ := hstab k c hb
      have hcc := pruneAt_idem (maybeKeep_coreCond _) hc0.1 [] hp0
      have := hyc.pruneAt (maybeKeep_coreCond (sub (.comp vf .dict vcs) k)) []
      rw [hcc] at this
      obtain ⟨y2, hy2, hyy⟩ := this.someR
      rw [hy]
      simp only [Option.bind, hy2]
      exact .some (hyy.trans hyc.symm)
  · intro v' hv'
    rw [hv'] at es
    have hsub : sub (.comp vf .dict vcs) k = v' := sub_of_lookup hv'
    rw [hsub] at hk
    have hv'D := hv.child hv'
    have hv'ni := noIdiom_child hni hv'
    have hdv : v'.depth < fuel := by
      have := depth_child (f := vf) (kd := .dict) hv'
      omega
    cases hb : alookup k base with
    | none =>
      rw [hb] at es
      simp only [EntrySpec] at es
      obtain ⟨y, hy, hyv⟩ := es
      refine ⟨y, hy, fun _ => hyv, ?_⟩
      intro x2 hx2
      rw [hk, hy] at hx2
      simp only [Option.bind, selfPrune' hyv] at hx2
      cases hx2
    | some c =>
      rw [hb] at es
      simp only [EntrySpec] at es
      obtain ⟨nw, sm, y, hr, hy, hyn⟩ := es
      obtain ⟨c0, hc0, hp0⟩ := hstab k c hb
      rw [hsub] at hp0
      have hcD : Dom c := pruneAt_dom (maybeKeep_coreCond v') hc0 hp0
      have hnwD : Dom nw := mergeF_dom hcD hv'D hr
      have hyD : Dom y := hmD k y hy
      have I := ih v' hv'D hv'ni hdv
      have hpr := hyn.pruneAt (maybeKeep_coreCond v') []
      refine ⟨y, hy, ?_, ?_⟩
      · intro hkn
        rw [hk, hy] at hkn
        simp only [Option.bind] at hkn
        rw [hkn] at hpr
        exact hyn.trans (I.A c0 c nw sm hc0 hp0 hr hpr.noneL)
      · intro x2 hx2
        rw [hk, hy] at hx2
        simp only [Option.bind] at hx2
        rw [hx2] at hpr
        obtain ⟨x, hx, hxx⟩ := hpr.someL
        obtain ⟨m2, b2, h2, hm2⟩ := I.B c0 c nw sm x hc0 hp0 hr hx
        have hxD : Dom x := pruneAt_dom (maybeKeep_coreCond v') hnwD hx
        have hx2D : Dom x2 := pruneAt_dom (maybeKeep_coreCond v') hyD hx2
        obtain ⟨m2', h2', hmm⟩ := mergeF_cong fuel x x2 v' m2 b2 hxD hx2D hv'D hv'ni hdv hxx.symm h2
        exact ⟨m2', b2, h2', (hyn.trans hm2).trans hmm⟩

/-- nothing of the first result survives the pruning: it is a copy of `v` -/
theorem approx_of_kept_empty {fuel : Nat} {FF vf : Flags} {vcs mcs : List (Key × Node)}
    (hvn : keysNodup vcs = true) (hmn : keysNodup mcs = true)
    (hkf : ∀ k, KeyFacts fuel vcs mcs (keptChildren (maybeKeep (.comp vf .dict vcs)) [] mcs) k)
    (hemp : (keptChildren (maybeKeep (.comp vf .dict vcs)) [] mcs).isEmpty = true)
    (hff : coreF FF = coreF vf) : PermC (.comp FF .dict mcs) (.comp vf .dict vcs) := by
  have hnil : keptChildren (maybeKeep (.comp vf .dict vcs)) [] mcs = [] := by simpa using hemp
  refine PermC.dict_intro hff hmn hvn ?_
  intro k
  have kf := hkf k
  rw [hnil] at kf
  cases hv' : alookup k vcs with
  | none =>
    have := kf.frame hv'
    simp only [alookup] at this
    rw [this.noneL]
    exact .none
  | some v' =>
    obtain ⟨y, hy, h1, _⟩ := kf.hit v' hv'
    rw [hy]
    exact .some (h1 rfl)

/-- the second merge, given the key facts: `z` has the flags of the first result and children whose
    pruned version is `kept` -/
theorem second_merge {fuel : Nat} {FF vf : Flags} {vcs mcs zcs : List (Key × Node)}
    (hv : Dom (.comp vf .dict vcs)) (hni : noIdiom (.comp vf .dict vcs) = true)
    (hd : (Node.comp vf .dict vcs).depth < fuel + 1)
    (hmn : keysNodup mcs = true) (hz : Dom (.comp FF .dict zcs))
    (hkf : ∀ k, KeyFacts fuel vcs mcs (keptChildren (maybeKeep (.comp vf .dict vcs)) [] mcs) k)
    (hzb : ∀ k, alookup k (baseOf zcs (.comp vf .dict vcs)) =
      alookup k (keptChildren (maybeKeep (.comp vf .dict vcs)) [] mcs))
    (hze : (keptChildren (maybeKeep (.comp vf .dict vcs)) [] zcs).isEmpty =
      (keptChildren (maybeKeep (.comp vf .dict vcs)) [] mcs).isEmpty)
    (hF1 : coreF (finishFlags FF vf) = coreF FF)
    (hF2 : hasPrio vf FF true = true → coreF FF = coreF vf) :
    ∃ m2 b2, mergeF (fuel + 1) (.comp FF .dict zcs) (.comp vf .dict vcs) = .ok (m2, b2) ∧
      PermC (.comp FF .dict mcs) m2 := by
  by_cases hx : eDel (.comp vf .dict vcs) = true ∧
      (keptChildren (maybeKeep (.comp vf .dict vcs)) [] zcs).isEmpty = true ∧ hasPrio vf FF true = true
  · refine ⟨_, _, dict_spec_exit fuel hz hv hx.1 hx.2.1 hx.2.2, ?_⟩
    have hmv := approx_of_kept_empty (FF := FF) hv.nodup hmn hkf (by rw [← hze]; exact hx.2.1) (hF2 hx.2.2)
    apply PermC.propagate_right
    exact hmv.trans (hv.reflFlags (coreF_replaceOtherFlags _ _)).symm
  · obtain ⟨mcs2, hm2, hn2, hs2⟩ := dict_spec_loop (good fuel) hz hv hni hd hx
    refine ⟨_, _, hm2, ?_⟩
    refine PermC.dict_intro hF1.symm hmn hn2 ?_
    intro k
    have es := hs2 k
    rw [hzb k] at es
    have kf := hkf k
    cases hv' : alookup k vcs with
    | none =>
      rw [hv'] at es
      simp only [EntrySpec] at es
      exact (es.transC (kf.frame hv')).symmC
    | some v' =>
      rw [hv'] at es
      obtain ⟨y, hy, h1, h2⟩ := kf.hit v' hv'
      rw [hy]
      cases hk : alookup k (keptChildren (maybeKeep (.comp vf .dict vcs)) [] mcs) with
      | none =>
        rw [hk] at es
        simp only [EntrySpec] at es
        obtain ⟨y2, hy2, hyv⟩ := es
        rw [hy2]
        exact .some ((h1 hk).trans hyv.symm)
      | some x2 =>
        rw [hk] at es
        simp only [EntrySpec] at es
        obtain ⟨nw2, sm2, y2, hr2, hy2, hyn2⟩ := es
        obtain ⟨m2', b2', hr2', hym⟩ := h2 x2 hk
        rw [hr2] at hr2'
        injection hr2' with hr2'
        injection hr2' with e1 _
        subst e1
        rw [hy2]
        exact .some (hym.trans hyn2.symm)

/-! ### the induction -/

theorem entries_dom {f : Flags} {cs : List (Key × Node)} (h : Dom (.comp f .dict cs)) :
    ∀ k c, alookup k cs = some c → Dom c := fun _ _ hc => h.child hc

theorem idem : ∀ fuel : Nat, Idem fuel := by
  intro fuel
  induction fuel with
  | zero => intro v _ _ hd; omega
  | succ fuel ih =>
    intro v hv hni hd
    -- when one of the two nodes is a leaf
    by_cases hvl : v.isComp = false
    · exact ⟨fun a m sm ha hm => leaf_c fuel ha hv hni hd (.inr hvl) hm,
        fun a0 b m sm ha0 hb0 hm hp =>
          leaf_A fuel (pruneAt_dom (maybeKeep_coreCond v) ha0 hb0) hv (.inr hvl) hm hp,
        fun a0 b m sm x ha0 hb0 hm hp => leaf_B fuel ha0 hv hb0 (.inr hvl) hm hp⟩
    cases v with
    | leaf g k => simp [Node.isComp] at hvl
    | comp vf vkd vcs =>
      obtain rfl := hv.kind
      -- the stable case shared by (A), (B) and the deleting case of (c): the first merge ran the key loop
      -- over entries `base` that survived the pruning
      have stable : ∀ (af : Flags) (acs mcs : List (Key × Node)), Dom (.comp af .dict acs) →
          Dom (.comp (finishFlags af vf) .dict mcs) →
          (∀ k c, alookup k (baseOf acs (.comp vf .dict vcs)) = some c →
            ∃ c0, Dom c0 ∧ pruneAt (maybeKeep (sub (.comp vf .dict vcs) k)) [] c0 = some c) →
          (∀ k, EntrySpec fuel (alookup k vcs) (alookup k (baseOf acs (.comp vf .dict vcs))) (alookup k mcs)) →
          ∀ k, KeyFacts fuel vcs mcs (keptChildren (maybeKeep (.comp vf .dict vcs)) [] mcs) k :=
        fun af acs mcs _ hmD hstab hs => key_facts ih hv hni hd hmD.nodup (entries_dom hmD) hstab hs
      refine ⟨?_, ?_, ?_⟩
      · -- (c)
        intro a m sm ha hm
        by_cases hal : a.isComp = false
        · exact leaf_c fuel ha hv hni hd (.inl hal) hm
        cases a with
        | leaf f k => simp [Node.isComp] at hal
        | comp af akd acs =>
          obtain rfl := ha.kind
          have hmD : Dom m := mergeF_dom ha hv hm
          by_cases hx : eDel (.comp vf .dict vcs) = true ∧
              (keptChildren (maybeKeep (.comp vf .dict vcs)) [] acs).isEmpty = true ∧ hasPrio vf af true = true
          · rw [dict_spec_exit fuel ha hv hx.1 hx.2.1 hx.2.2] at hm
            injection hm with hm
            injection hm with e1 _
            subst e1
            have hmv : PermC (propagate (.comp (replaceOtherFlags vf af) .dict vcs)) (.comp vf .dict vcs) :=
              (hv.reflFlags (coreF_replaceOtherFlags _ _)).propagate_left
            obtain ⟨m2, b2, h2, hm2⟩ := selfMerge (fuel + 1) _ _ hmD hv hni hd hmv
            exact ⟨m2, b2, h2, hmv.trans hm2.symm⟩
          · obtain ⟨mcs, hm1, hmn, hs⟩ := dict_spec_loop (good fuel) ha hv hni hd hx
            rw [hm1] at hm
            injection hm with hm
            injection hm with e1 _
            subst e1
            cases hdel : eDel (.comp vf .dict vcs) with
            | true =>
              have hbase : baseOf acs (.comp vf .dict vcs) = keptChildren (maybeKeep (.comp vf .dict vcs)) [] acs := by
                simp only [baseOf, hdel, if_true]
              have hstab : ∀ k c, alookup k (baseOf acs (.comp vf .dict vcs)) = some c →
                  ∃ c0, Dom c0 ∧ pruneAt (maybeKeep (sub (.comp vf .dict vcs) k)) [] c0 = some c := by
                intro k c hc
                rw [hbase, alookup_kept _ k acs ha.nodup] at hc
                cases hc0 : alookup k acs with
                | none => rw [hc0] at hc; cases hc
                | some c0 =>
                  rw [hc0] at hc
                  exact ⟨c0, ha.child hc0, hc⟩
              have hkf := stable af acs mcs ha hmD hstab hs
              have hzb : ∀ k, alookup k (baseOf mcs (.comp vf .dict vcs)) =
                  alookup k (keptChildren (maybeKeep (.comp vf .dict vcs)) [] mcs) := by
                intro k
                simp only [baseOf, hdel, if_true]
              exact second_merge hv hni hd hmn hmD hkf hzb rfl (coreF_finishFlags_idem af vf) finishFlags_core_of
            | false =>
              -- non-deleting: the second loop runs over the entries of the first result
              have hbase : baseOf acs (.comp vf .dict vcs) = acs := by
                simp only [baseOf, hdel, Bool.false_eq_true, if_false]
              rw [hbase] at hs
              have hx2 : ¬ (eDel (.comp vf .dict vcs) = true ∧
                  (keptChildren (maybeKeep (.comp vf .dict vcs)) [] mcs).isEmpty = true ∧
                  hasPrio vf (finishFlags af vf) true = true) := by
                rw [hdel]; intro h; cases h.1
              obtain ⟨mcs2, hm2, hn2, hs2⟩ := dict_spec_loop (good fuel) hmD hv hni hd hx2
              have hbase2 : baseOf mcs (.comp vf .dict vcs) = mcs := by
                simp only [baseOf, hdel, Bool.false_eq_true, if_false]
              rw [hbase2] at hs2
              refine ⟨_, _, hm2, ?_⟩
              refine PermC.dict_intro (coreF_finishFlags_idem af vf).symm hmn hn2 ?_
              intro k
              have es := hs k
              have es2 := hs2 k
              cases hv' : alookup k vcs with
              | none =>
                rw [hv'] at es2
                simp only [EntrySpec] at es2
                exact es2.symmC
              | some v' =>
                rw [hv'] at es es2
                have hv'D := hv.child hv'
                have hv'ni := noIdiom_child hni hv'
                have hdv : v'.depth < fuel := by
                  have := depth_child (f := vf) (kd := .dict) hv'
                  omega
                -- the entry of the first result
                have hy : ∃ y, alookup k mcs = some y ∧
                    ∃ m3 b3, mergeF fuel y v' = .ok (m3, b3) ∧ PermC y m3 := by
                  cases hb : alookup k acs with
                  | none =>
                    rw [hb] at es
                    simp only [EntrySpec] at es
                    obtain ⟨y, hy, hyv⟩ := es
                    obtain ⟨m3, b3, h3, hm3⟩ := selfMerge fuel v' y (hmD.child hy) hv'D hv'ni hdv hyv
                    exact ⟨y, hy, m3, b3, h3, hyv.trans hm3.symm⟩
                  | some c =>
                    rw [hb] at es
                    simp only [EntrySpec] at es
                    obtain ⟨nw, sm, y, hr, hy, hyn⟩ := es
                    have hcD := ha.child hb
                    have hnwD : Dom nw := mergeF_dom hcD hv'D hr
                    obtain ⟨m3, b3, h3, hm3⟩ := (ih v' hv'D hv'ni hdv).c c nw sm hcD hr
                    obtain ⟨m3', h3', hmm⟩ := mergeF_cong fuel nw y v' m3 b3 hnwD (hmD.child hy) hv'D hv'ni hdv
                      hyn.symm h3
                    exact ⟨y, hy, m3', b3, h3', (hyn.trans hm3).trans hmm⟩
                obtain ⟨y, hy, m3, b3, h3, hym⟩ := hy
                rw [hy] at es2 ⊢
                simp only [EntrySpec] at es2
                obtain ⟨nw2, sm2, y2, hr2, hy2, hyn2⟩ := es2
                rw [h3] at hr2
                injection hr2 with hr2
                injection hr2 with e1 _
                subst e1
                rw [hy2]
                exact .some (hym.trans hyn2.symm)
      · -- (A)
        intro a0 b m sm ha0 hb0 hm hp
        have hb : Dom b := pruneAt_dom (maybeKeep_coreCond _) ha0 hb0
        by_cases hbl : b.isComp = false
        · exact leaf_A fuel hb hv (.inl hbl) hm hp
        cases b with
        | leaf f k => simp [Node.isComp] at hbl
        | comp bf bkd bcs =>
          obtain rfl := hb.kind
          have hmD : Dom m := mergeF_dom hb hv hm
          by_cases hx : eDel (.comp vf .dict vcs) = true ∧
              (keptChildren (maybeKeep (.comp vf .dict vcs)) [] bcs).isEmpty = true ∧ hasPrio vf bf true = true
          · rw [dict_spec_exit fuel hb hv hx.1 hx.2.1 hx.2.2] at hm
            injection hm with hm
            injection hm with e1 _
            subst e1
            exact (hv.reflFlags (coreF_replaceOtherFlags _ _)).propagate_left
          · obtain ⟨mcs, hm1, hmn, hs⟩ := dict_spec_loop (good fuel) hb hv hni hd hx
            rw [hm1] at hm
            injection hm with hm
            injection hm with e1 _
            subst e1
            -- `b` is what survived of `a0`
            cases a0 with
            | leaf f0 k0 =>
              have := pruneAt_some_eq hb0
              cases this
            | comp a0f a0kd a0cs =>
              obtain rfl := ha0.kind
              have hbe := pruneAt_some_eq hb0
              rw [c04_filterNode_dict_kept _ [] a0f .dict a0cs rfl ha0.nodup] at hbe
              injection hbe with e1 _ e3
              subst e1; subst e3
              have hstab : ∀ k c, alookup k (baseOf (keptChildren (maybeKeep (.comp vf .dict vcs)) [] a0cs)
                    (.comp vf .dict vcs)) = some c →
                  ∃ c0, Dom c0 ∧ pruneAt (maybeKeep (sub (.comp vf .dict vcs) k)) [] c0 = some c := by
                intro k c hc
                have hc' : alookup k (keptChildren (maybeKeep (.comp vf .dict vcs)) [] a0cs) = some c := by
                  simp only [baseOf] at hc
                  split at hc
                  · rw [alookup_kept_stable _ k ha0.nodup (fun k c h => (ha0.child h).1)] at hc
                    exact hc
                  · exact hc
                rw [alookup_kept _ k a0cs ha0.nodup] at hc'
                cases hc0 : alookup k a0cs with
                | none => rw [hc0] at hc'; cases hc'
                | some c0 =>
                  rw [hc0] at hc'
                  exact ⟨c0, ha0.child hc0, hc'⟩
              have hkf := stable bf _ mcs hb hmD hstab hs
              rw [pruneAt_dict _ _ hmn] at hp
              split at hp
              · cases hp
              · rename_i hcond
                have hc1 : hasPrio (finishFlags bf vf) vf false = false := by
                  cases h1 : hasPrio (finishFlags bf vf) vf false with
                  | false => rfl
                  | true => simp [Node.flags, h1] at hcond
                have hc2 : (keptChildren (maybeKeep (.comp vf .dict vcs)) [] mcs).isEmpty = true := by
                  cases h2 : (keptChildren (maybeKeep (.comp vf .dict vcs)) [] mcs).isEmpty with
                  | true => rfl
                  | false => simp [h2] at hcond
                have hc3 : hasPrio vf (finishFlags bf vf) true = true := by
                  have := hasPrio_false_eq_not (finishFlags bf vf) vf
                  rw [hc1] at this
                  cases h3 : hasPrio vf (finishFlags bf vf) true with
                  | true => rfl
                  | false => rw [h3] at this; cases this
                exact approx_of_kept_empty hv.nodup hmn hkf hc2 (finishFlags_core_of hc3)
      · -- (B)
        intro a0 b m sm x ha0 hb0 hm hp
        have hb : Dom b := pruneAt_dom (maybeKeep_coreCond _) ha0 hb0
        by_cases hbl : b.isComp = false
        · exact leaf_B fuel ha0 hv hb0 (.inl hbl) hm hp
        cases b with
        | leaf f k => simp [Node.isComp] at hbl
        | comp bf bkd bcs =>
          obtain rfl := hb.kind
          have hmD : Dom m := mergeF_dom hb hv hm
          have hxD : Dom x := pruneAt_dom (maybeKeep_coreCond _) hmD hp
          by_cases hx : eDel (.comp vf .dict vcs) = true ∧
              (keptChildren (maybeKeep (.comp vf .dict vcs)) [] bcs).isEmpty = true ∧ hasPrio vf bf true = true
          · rw [dict_spec_exit fuel hb hv hx.1 hx.2.1 hx.2.2] at hm
            injection hm with hm
            injection hm with e1 _
            subst e1
            have hmv : PermC (propagate (.comp (replaceOtherFlags vf bf) .dict vcs)) (.comp vf .dict vcs) :=
              (hv.reflFlags (coreF_replaceOtherFlags _ _)).propagate_left
            rw [selfPrune' hmv] at hp
            cases hp
          · obtain ⟨mcs, hm1, hmn, hs⟩ := dict_spec_loop (good fuel) hb hv hni hd hx
            rw [hm1] at hm
            injection hm with hm
            injection hm with e1 _
            subst e1
            cases a0 with
            | leaf f0 k0 =>
              have := pruneAt_some_eq hb0
              cases this
            | comp a0f a0kd a0cs =>
              obtain rfl := ha0.kind
              have hbe := pruneAt_some_eq hb0
              rw [c04_filterNode_dict_kept _ [] a0f .dict a0cs rfl ha0.nodup] at hbe
              injection hbe with e1 _ e3
              subst e1; subst e3
              have hstab : ∀ k c, alookup k (baseOf (keptChildren (maybeKeep (.comp vf .dict vcs)) [] a0cs)
                    (.comp vf .dict vcs)) = some c →
                  ∃ c0, Dom c0 ∧ pruneAt (maybeKeep (sub (.comp vf .dict vcs) k)) [] c0 = some c := by
                intro k c hc
                have hc' : alookup k (keptChildren (maybeKeep (.comp vf .dict vcs)) [] a0cs) = some c := by
                  simp only [baseOf] at hc
                  split at hc
                  · rw [alookup_kept_stable _ k ha0.nodup (fun k c h => (ha0.child h).1)] at hc
                    exact hc
                  · exact hc
                rw [alookup_kept _ k a0cs ha0.nodup] at hc'
                cases hc0 : alookup k a0cs with
                | none => rw [hc0] at hc'; cases hc'
                | some c0 =>
                  rw [hc0] at hc'
                  exact ⟨c0, ha0.child hc0, hc'⟩
              have hkf := stable bf _ mcs hb hmD hstab hs
              have hxe := pruneAt_some_eq hp
              rw [c04_filterNode_dict_kept _ [] _ .dict mcs rfl hmn] at hxe
              subst hxe
              have hst : ∀ k, alookup k (keptChildren (maybeKeep (.comp vf .dict vcs)) []
                    (keptChildren (maybeKeep (.comp vf .dict vcs)) [] mcs)) =
                  alookup k (keptChildren (maybeKeep (.comp vf .dict vcs)) [] mcs) :=
                fun k => alookup_kept_stable _ k hmn (fun k c h => (hmD.child h).1)
              have hzb : ∀ k, alookup k (baseOf (keptChildren (maybeKeep (.comp vf .dict vcs)) [] mcs)
                    (.comp vf .dict vcs)) =
                  alookup k (keptChildren (maybeKeep (.comp vf .dict vcs)) [] mcs) := by
                intro k
                simp only [baseOf]
                split
                · exact hst k
                · rfl
              have hze : (keptChildren (maybeKeep (.comp vf .dict vcs)) []
                    (keptChildren (maybeKeep (.comp vf .dict vcs)) [] mcs)).isEmpty =
                  (keptChildren (maybeKeep (.comp vf .dict vcs)) [] mcs).isEmpty :=
                isEmpty_of_lookups (fun k => by rw [hst k])
              exact second_merge hv hni hd hmn hxD hkf hzb hze (coreF_finishFlags_idem bf vf) finishFlags_core_of

/-- merging `o` a second time: the result is the same up to the order of keys and up to the flags the
    merge does not read; in particular every node keeps its priority and its explicit `delete` flag -/
theorem mergeF_idem (fuel : Nat) {s o r : Node} {b : Bool} (hs : Dom s) (ho : Dom o) (hni : noIdiom o = true)
    (hd : o.depth < fuel) (h : mergeF fuel s o = .ok (r, b)) :
    ∃ r2 b2, mergeF fuel r o = .ok (r2, b2) ∧ PermC r r2 :=
  (idem fuel o ho hni hd).c s r b hs h

end AY.C15T
