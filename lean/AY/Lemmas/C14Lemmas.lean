/-
  AY.Lemmas.C14Lemmas — vocabulary and helper lemmas of property C14 (required placeholders).

  Part 1: the predicates the statements in `AY.Props.C14` are written with
          (`hasRequired`, `RequiredAt`, `distinctKeys`, `emptyRoot`).
  Part 2: `requiredPaths` is complete, sound and duplicate free.
  Part 3: the evaluator never produces the error class `required` (so that error of `config`
          can only come from `check_missing`).
-/
import AY.Model.Eval
namespace AY

/-! ### Part 1 — vocabulary -/

mutual
/-- some node of the tree (the root included, at any depth, under any container class —
    mappings, lists, arguments of call/bind nodes) is a `!required` placeholder -/
def hasRequired : Node → Bool
  | .leaf _ .required => true
  | .leaf .. => false
  | .comp _ _ cs => hasRequiredList cs
def hasRequiredList : List (Key × Node) → Bool
  | [] => false
  | (_, c) :: rest => hasRequired c || hasRequiredList rest
end

/-- the node stored at path `p` (in the sense of `get_node`) is a `!required` placeholder -/
def RequiredAt (t : Node) (p : Path) : Prop := ∃ f, getNode t p = some (.leaf f .required)

def keysOf (cs : List (Key × Node)) : List Key := cs.map (·.1)

mutual
/-- sibling keys are pairwise distinct in every container of the tree (an invariant of every tree
    the builder produces: `_children` is a Python dict) -/
def distinctKeys : Node → Bool
  | .leaf .. => true
  | .comp _ _ cs => distinctKeysList cs
def distinctKeysList : List (Key × Node) → Bool
  | [] => true
  | (k, c) :: rest => !(keysOf rest).contains k && distinctKeys c && distinctKeysList rest
end

/-- `not config_dict` for a container: `Config.__init__` skips check and evaluation -/
def emptyRoot : Node → Bool
  | .comp _ _ [] => true
  | _ => false

/-! ### Part 2 — `requiredPaths` lists exactly the placeholders -/

mutual
theorem requiredPaths_ne_nil (t : Node) (p : Path) :
    hasRequired t = true ↔ requiredPaths p t ≠ [] := by
  match t with
  | .leaf f k => cases k <;> simp [hasRequired, requiredPaths]
  | .comp f k cs => simpa [hasRequired, requiredPaths] using requiredPathsList_ne_nil cs p
theorem requiredPathsList_ne_nil (cs : List (Key × Node)) (p : Path) :
    hasRequiredList cs = true ↔ requiredPathsList p cs ≠ [] := by
  match cs with
  | [] => simp [hasRequiredList, requiredPathsList]
  | (k, c) :: rest =>
    simp only [hasRequiredList, requiredPathsList, Bool.or_eq_true]
    rw [requiredPaths_ne_nil c (p ++ [k]), requiredPathsList_ne_nil rest p]
    cases requiredPaths (p ++ [k]) c <;> cases requiredPathsList p rest <;> simp
end

theorem hasRequired_emptyRoot (t : Node) (h : emptyRoot t = true) : hasRequired t = false := by
  cases t with
  | leaf f k => simp [emptyRoot] at h
  | comp f k cs =>
    cases cs with
    | nil => simp [hasRequired, hasRequiredList]
    | cons a b => simp [emptyRoot] at h

theorem alookup_of_not_mem {α : Type} (k : Key) (cs : List (Key × α))
    (h : (cs.map (·.1)).contains k = false) : alookup k cs = none := by
  induction cs with
  | nil => rfl
  | cons kc rest ih =>
    obtain ⟨k', c⟩ := kc
    simp only [List.map_cons, List.contains_cons, Bool.or_eq_false_iff, beq_eq_false_iff_ne, ne_eq] at h
    simp only [alookup]
    rw [if_neg (fun e => h.1 e.symm)]
    exact ih h.2

theorem alookup_mem_keys {α : Type} (k : Key) (cs : List (Key × α)) (c : α)
    (h : alookup k cs = some c) : (cs.map (·.1)).contains k = true := by
  cases hc : (cs.map (·.1)).contains k with
  | true => rfl
  | false => rw [alookup_of_not_mem k cs hc] at h; cases h

mutual
/-- soundness and completeness of the path list, with an arbitrary prefix -/
theorem mem_requiredPaths (t : Node) (pre p : Path) (hd : distinctKeys t = true) :
    p ∈ requiredPaths pre t ↔ ∃ q, p = pre ++ q ∧ RequiredAt t q := by
  match t with
  | .leaf f k =>
    cases k <;> simp only [requiredPaths, List.mem_singleton, List.not_mem_nil, false_iff, not_exists, not_and]
    case required =>
      constructor
      · intro h; exact ⟨[], by simp [h], f, rfl⟩
      · rintro ⟨q, hq, f', hf⟩
        cases q with
        | nil => simpa using hq
        | cons a b => simp [getNode] at hf
    all_goals
      intro q _ hr
      obtain ⟨f', hf⟩ := hr
      cases q with
      | nil => simp [getNode] at hf
      | cons a b => simp [getNode] at hf
  | .comp f k cs =>
    simp only [distinctKeys] at hd
    simp only [requiredPaths]
    rw [mem_requiredPathsList cs pre p hd]
    constructor
    · rintro ⟨k', q, c, hp, hl, f', hf⟩
      exact ⟨k' :: q, hp, f', by simp [getNode, hl, hf]⟩
    · rintro ⟨q, hp, f', hf⟩
      cases q with
      | nil => simp [getNode] at hf
      | cons a b =>
        simp only [getNode] at hf
        cases hl : alookup a cs with
        | none => simp [hl] at hf
        | some c => exact ⟨a, b, c, hp, hl, f', by simpa [hl] using hf⟩
theorem mem_requiredPathsList (cs : List (Key × Node)) (pre p : Path)
    (hd : distinctKeysList cs = true) :
    p ∈ requiredPathsList pre cs ↔
      ∃ k q c, p = pre ++ k :: q ∧ alookup k cs = some c ∧ RequiredAt c q := by
  match cs with
  | [] => simp [requiredPathsList, alookup]
  | (k, c) :: rest =>
    simp only [distinctKeysList, Bool.and_eq_true, Bool.not_eq_true'] at hd
    obtain ⟨⟨hk, hc⟩, hr⟩ := hd
    simp only [requiredPathsList, List.mem_append]
    rw [mem_requiredPaths c (pre ++ [k]) p hc, mem_requiredPathsList rest pre p hr]
    constructor
    · rintro (⟨q, hp, hq⟩ | ⟨k', q, c', hp, hl, hq⟩)
      · exact ⟨k, q, c, by simp [hp], by simp [alookup], hq⟩
      · refine ⟨k', q, c', hp, ?_, hq⟩
        simp only [alookup]
        have hne : k ≠ k' := by
          intro e; subst e
          have := alookup_mem_keys k rest c' hl
          simp only [keysOf] at hk
          rw [this] at hk; cases hk
        rw [if_neg hne]; exact hl
    · rintro ⟨k', q, c', hp, hl, hq⟩
      simp only [alookup] at hl
      by_cases e : k = k'
      · subst e
        simp only [if_true, Option.some.injEq] at hl
        subst hl
        exact Or.inl ⟨q, by simp [hp], hq⟩
      · rw [if_neg e] at hl
        exact Or.inr ⟨k', q, c', hp, hl, hq⟩
end

mutual
theorem requiredPaths_prefix (t : Node) (pre p : Path) (h : p ∈ requiredPaths pre t) :
    ∃ q, p = pre ++ q := by
  match t with
  | .leaf f k =>
    cases k <;> simp only [requiredPaths, List.mem_singleton, List.not_mem_nil] at h
    exact ⟨[], by simp [h]⟩
  | .comp f k cs =>
    obtain ⟨k', q, hp, _⟩ := requiredPathsList_prefix cs pre p (by simpa [requiredPaths] using h)
    exact ⟨k' :: q, hp⟩
theorem requiredPathsList_prefix (cs : List (Key × Node)) (pre p : Path)
    (h : p ∈ requiredPathsList pre cs) :
    ∃ k q, p = pre ++ k :: q ∧ (keysOf cs).contains k = true := by
  match cs with
  | [] => simp [requiredPathsList] at h
  | (k, c) :: rest =>
    simp only [requiredPathsList, List.mem_append] at h
    rcases h with h | h
    · obtain ⟨q, hq⟩ := requiredPaths_prefix c (pre ++ [k]) p h
      exact ⟨k, q, by simp [hq], by simp [keysOf]⟩
    · obtain ⟨k', q, hq, hm⟩ := requiredPathsList_prefix rest pre p h
      refine ⟨k', q, hq, ?_⟩
      simp only [keysOf, List.map_cons, List.contains_cons, Bool.or_eq_true]
      exact Or.inr hm
end

mutual
theorem requiredPaths_nodup (t : Node) (pre : Path) (hd : distinctKeys t = true) :
    (requiredPaths pre t).Nodup := by
  match t with
  | .leaf f k => cases k <;> simp [requiredPaths]
  | .comp f k cs =>
    simpa [requiredPaths] using requiredPathsList_nodup cs pre (by simpa [distinctKeys] using hd)
theorem requiredPathsList_nodup (cs : List (Key × Node)) (pre : Path)
    (hd : distinctKeysList cs = true) : (requiredPathsList pre cs).Nodup := by
  match cs with
  | [] => simp [requiredPathsList]
  | (k, c) :: rest =>
    simp only [distinctKeysList, Bool.and_eq_true, Bool.not_eq_true'] at hd
    obtain ⟨⟨hk, hc⟩, hr⟩ := hd
    simp only [requiredPathsList]
    rw [List.nodup_append]
    refine ⟨requiredPaths_nodup c _ hc, requiredPathsList_nodup rest _ hr, ?_⟩
    intro a ha b hb e
    subst e
    obtain ⟨q, hq⟩ := requiredPaths_prefix c (pre ++ [k]) a ha
    obtain ⟨k', q', hq', hm⟩ := requiredPathsList_prefix rest pre a hb
    rw [hq] at hq'
    simp only [List.append_assoc, List.singleton_append, List.append_cancel_left_eq, List.cons.injEq] at hq'
    rw [hq'.1, hm] at hk
    cases hk
end

/-! ### Part 3 — the evaluator never reports `required` -/

/-- a computation that does not end in the error class `required` -/
def NoReq {α : Type} (r : Except Err α) : Prop := ∀ ps, r ≠ .error (.required ps)

def RecNoReq (rec : Rec) : Prop := ∀ rs n p st, NoReq (rec rs n p st)

theorem NoReq.ok {α : Type} (a : α) : NoReq (Except.ok a : Except Err α) := by
  intro ps h; cases h

theorem evalItems_noReq (rec : Rec) (h : RecNoReq rec) (rs : Bool) (path : Path) :
    ∀ (cs : List (Key × Node)) (st : EvSt), NoReq (evalItems rec rs path cs st) := by
  intro cs
  induction cs with
  | nil => intro st; exact NoReq.ok _
  | cons kc rest ih =>
    intro st ps
    obtain ⟨k, c⟩ := kc
    simp only [evalItems]
    cases h1 : rec rs c (path ++ [k]) st with
    | error e => intro he; exact h rs c (path ++ [k]) st ps (by rw [h1]; simpa using he)
    | ok r =>
      obtain ⟨v, st1⟩ := r
      simp only
      cases h2 : evalItems rec rs path rest st1 with
      | error e => intro he; exact ih st1 ps (by rw [h2]; simpa using he)
      | ok r2 => intro he; cases he

theorem ctxGetNode_noReq (root : Node) (rs : Bool) (p : Path) (st : EvSt) :
    NoReq (ctxGetNode root rs p st) := by
  intro ps
  simp only [ctxGetNode]
  split
  · split
    · split <;> intro h <;> cases h
    · intro h; cases h
  · split <;> intro h <;> cases h

theorem xrefLoop_noReq (rec : Rec) (h : RecNoReq rec) (root : Node) (rs : Bool) (self : Path) :
    ∀ (fuel : Nat) (cur : String) (chain : List String) (st : EvSt),
      NoReq (xrefLoop rec root rs self fuel cur chain st) := by
  intro fuel
  induction fuel with
  | zero => intro cur chain st ps h; simp [xrefLoop] at h
  | succ n ih =>
    intro cur chain st ps
    simp only [xrefLoop]
    split
    · intro h; cases h
    · rename_i tp _
      cases hg : ctxGetNode root rs tp st with
      | error e =>
        intro he
        exact ctxGetNode_noReq root rs tp st ps (by rw [hg]; simpa using he)
      | ok g =>
        obtain ⟨g, st1⟩ := g
        cases g with
        | value v => simp only; split <;> intro he <;> cases he
        | node nd =>
          simp only
          split
          · intro he; cases he
          · split
            · split
              · split
                · intro he; cases he
                · exact ih _ _ _ ps
              · exact ih _ _ _ ps
            · exact h _ _ _ _ ps

theorem ecfgLookup_noReq (rec : Rec) (h : RecNoReq rec) (root : Node) (name : String) (st : EvSt) :
    NoReq (ecfgLookup rec root name st) := by
  intro ps
  simp only [ecfgLookup]
  split
  · split <;> intro he <;> cases he
  · split
    · intro he; cases he
    · split
      · intro he; cases he
      · exact h _ _ _ _ ps

theorem resolveNames_noReq (rec : Rec) (h : RecNoReq rec) (root : Node) (w : World) :
    ∀ (names : List String) (st : EvSt), NoReq (resolveNames rec root w names st) := by
  intro names
  induction names with
  | nil => intro st; exact NoReq.ok _
  | cons nm rest ih =>
    intro st ps
    simp only [resolveNames]
    have hr : NoReq (if w.syms.contains nm = true then (Except.ok (Val.sym nm, st) : EvR Val)
        else if (getNode root [Key.str nm]).isSome = true then ecfgLookup rec root nm st
        else if w.builtins.contains nm = true then .ok (Val.sym nm, st) else .error .eval) := by
      intro ps
      split
      · intro he; cases he
      · split
        · exact ecfgLookup_noReq rec h root nm st ps
        · split <;> intro he <;> cases he
    generalize (if w.syms.contains nm = true then (Except.ok (Val.sym nm, st) : EvR Val)
        else if (getNode root [Key.str nm]).isSome = true then ecfgLookup rec root nm st
        else if w.builtins.contains nm = true then .ok (Val.sym nm, st) else .error .eval) = r at hr
    cases r with
    | error e => intro he; exact hr ps (by simpa using he)
    | ok r1 =>
      obtain ⟨v, st1⟩ := r1
      simp only
      cases h2 : resolveNames rec root w rest st1 with
      | error e => intro he; exact ih st1 ps (by rw [h2]; simpa using he)
      | ok r2 => intro he; cases he

theorem evalPath_noReq (w : World) (ref : String) (src : Option String) (args : List String) :
    NoReq (evalPath w ref src args) := by
  intro ps
  simp only [evalPath]
  repeat' split
  all_goals intro he; cases he

set_option linter.unnecessarySimpa false in
theorem evalImpl_noReq (rec : Rec) (h : RecNoReq rec) (root : Node) (w : World) (rs : Bool)
    (n : Node) (path : Path) (st : EvSt) : NoReq (evalImpl rec root w rs n path st) := by
  intro ps
  cases n with
  | leaf f lk =>
    cases lk with
    | xref t => simpa [evalImpl] using xrefLoop_noReq rec h root rs path _ t [] st ps
    | imp m => simp only [evalImpl]; repeat' split
               all_goals intro he; cases he
    | eval code =>
      simp only [evalImpl]
      split
      · intro he; cases he
      · split
        · intro he; cases he
        · rename_i names _
          cases hr : resolveNames rec root w names st with
          | error e =>
            have := resolveNames_noReq rec h root w names st
            rw [hr] at this
            cases e <;> simp only <;> intro he <;> exact this ps (by simpa using he)
          | ok r => intro he; cases he
    | _ => simp [evalImpl]
  | comp f k cs =>
    have hI : ∀ rs', NoReq (evalItems rec rs' path cs st) := fun rs' => evalItems_noReq rec h rs' path cs st
    cases k with
    | dict =>
      simp only [evalImpl]
      cases hr : evalItems rec rs path cs st with
      | error e => intro he; exact hI rs ps (by rw [hr]; simpa using he)
      | ok r => intro he; cases he
    | list | append | extend | stream =>
      simp only [evalImpl]
      cases hr : evalItems rec rs path cs st with
      | error e => intro he; exact hI rs ps (by rw [hr]; simpa using he)
      | ok r => intro he; cases he
    | path ref =>
      simp only [evalImpl]
      cases hr : evalItems rec rs path cs st with
      | error e => intro he; exact hI rs ps (by rw [hr]; simpa using he)
      | ok r =>
        simp only
        split
        · intro he; cases he
        · rename_i args _
          cases hp : evalPath w ref f.src args with
          | error e => intro he; exact evalPath_noReq w ref f.src args ps (by rw [hp]; simpa using he)
          | ok v => intro he; cases he
    | call fn =>
      simp only [evalImpl]
      split
      · intro he; cases he
      · split
        · split
          · cases hr : evalItems rec true path cs st with
            | error e => intro he; exact hI true ps (by rw [hr]; simpa using he)
            | ok r => intro he; cases he
          · intro he; cases he
        · cases hr : evalItems rec true path cs st with
          | error e => intro he; exact hI true ps (by rw [hr]; simpa using he)
          | ok r =>
            simp only
            repeat' split
            all_goals intro he; cases he
    | bind fn =>
      simp only [evalImpl]
      split
      · intro he; cases he
      · split
        · split
          · cases hr : evalItems rec true path cs st with
            | error e => intro he; exact hI true ps (by rw [hr]; simpa using he)
            | ok r => intro he; cases he
          · intro he; cases he
        · cases hr : evalItems rec true path cs st with
          | error e => intro he; exact hI true ps (by rw [hr]; simpa using he)
          | ok r =>
            simp only
            repeat' split
            all_goals intro he; cases he

theorem evalNodeF_noReq (root : Node) (w : World) : ∀ fuel, RecNoReq (evalNodeF root w fuel) := by
  intro fuel
  induction fuel with
  | zero => intro rs n p st ps h; simp [evalNodeF] at h
  | succ k ih =>
    intro rs n p st ps
    simp only [evalNodeF]
    by_cases h1 : (rs && !eSafe n.flags) = true
    · rw [if_pos h1]; intro he; cases he
    · rw [if_neg h1]
      generalize (if (!eSafe n.flags) = true then { st with unsafeSeen := st.unsafeSeen + 1 } else st) = st0
      cases hc : plookup p st0.cache with
      | some v =>
        simp only
        by_cases h2 : st0.tainted.contains p = true
        · rw [if_pos h2]; split <;> intro he <;> cases he
        · rw [if_neg h2]; intro he; cases he
      | none =>
        simp only
        by_cases h3 : st0.inProgress.contains p = true
        · rw [if_pos h3]; intro he; cases he
        · rw [if_neg h3]
          split
          · rename_i e he'
            intro he
            exact evalImpl_noReq _ ih root w rs n p _ ps (by rw [he']; simpa using he)
          · intro he; cases he

theorem evaluate_noReq (w : World) (t : Node) : NoReq (evaluate w t) :=
  evalNodeF_noReq t w _ _ _ _ _

end AY
