/-
  AY.Lemmas.C08WholeIff — when no priorities are involved, a successful merge of a document without
  deleting nodes onto a well-keyed config proves that every node the document writes at a path
  missing in the config has `allow_new` on (it sits below a nested `!new`), and that no mapping
  addressed a list with a key that is no existing index (`c08w_Cond`).  Together with
  Lemmas/C08WholeErr.lean (every failure contradicts `c08w_Cond`) this is the "iff" of C08.
-/
import AY.Lemmas.C08WholeErr
namespace AY

/-- "the only violations of `exists already` are at nodes with `allow_new` on", and every mapping
    that meets a list uses existing indices only -/
def c08w_Cond (a b : Node) : Prop :=
  (∀ p m, c08_nodeAt b p m → p ≠ [] → c08w_has a p = true ∨ eNew m.flags = true) ∧ ¬ c08w_BadIndex a b

theorem c08w_nodeAt_nil {b x : Node} (h : c08_nodeAt b [] x) : x = b := by
  cases h; rfl

theorem c08w_nodeAt_cons {f : Flags} {k : CompKind} {cs : List (Key × Node)} {key : Key} {q : Path} {m : Node}
    (h : c08_nodeAt (.comp f k cs) (key :: q) m) : ∃ c, (key, c) ∈ cs ∧ c08_nodeAt c q m := by
  cases h with
  | child hmem hc => exact ⟨_, hmem, hc⟩

theorem c08w_nodeAt_leaf {f : Flags} {lk : LeafKind} {key : Key} {q : Path} {m : Node}
    (h : c08_nodeAt (.leaf f lk) (key :: q) m) : False := by
  cases h

theorem c08w_hasPrio_none {a b : Flags} (ha : a.prio = none) (hb : b.prio = none) (e : Bool) :
    hasPrio a b e = e := by
  simp [hasPrio, ePrio, ha, hb]

/-- without priorities the newer node replaces a leaf -/
theorem c08w_leafRule_noPrio {s o : Node} (hs : s.flags.prio = none) (ho : o.flags.prio = none) :
    leafRule s o = (propagate (o.setFlags (replaceOtherFlags o.flags s.flags)), false) := by
  simp [leafRule, c08w_hasPrio_none hs ho]

/-- what the success of one key proves, given what the recursive merge proves -/
theorem c08w_stepOk_cond {rec : Node → Node → Except Err (Node × Bool)} (hl : c08w_RecLeaf rec)
    {sk : CompKind} {scs : List (Key × Node)} {inh : Option Bool} {k : Key} {o : Node}
    (ho : c08w_doc inh o = true) (hop : o.flags.prio = none)
    (hcp : ∀ c, getChild sk k scs = some c → c.flags.prio = none)
    (hrec : ∀ c r s, getChild sk k scs = some c → c.isComp = true → rec c o = .ok (r, s) → c08w_Cond c o)
    (h : c08w_StepOk rec sk scs k o) :
    (∀ q m, c08_nodeAt o q m → q ≠ [] →
        (∃ c, getChild sk k scs = some c ∧ c08w_has c q = true) ∨ eNew m.flags = true) ∧
    (∀ c, getChild sk k scs = some c → ¬ c08w_BadIndex c o) := by
  rcases h with ⟨hg, hr0⟩ | ⟨child, nw, same, hg, hr, hleaf⟩
  · refine ⟨fun q m hq _ => .inr ?_, fun c hc => by rw [hg] at hc; cases hc⟩
    rcases (C08_reqNew_sound_aux hr0) q m hq with h | h
    · exact h
    · cases h
  · cases child with
    | comp cf ck ccs =>
      have hc := hrec _ nw same hg rfl hr
      refine ⟨fun q m hq hne => ?_, fun c hc' => ?_⟩
      · rcases hc.1 q m hq hne with h | h
        · exact .inl ⟨_, hg, h⟩
        · exact .inr h
      · rw [hg] at hc'; injection hc' with hc'; subst hc'; exact hc.2
    | leaf cf clk =>
      have hlr := hl cf clk o _ _ hr
      rw [c08w_leafRule_noPrio (hcp _ hg) hop] at hlr
      injection hlr with h1 h2
      subst h1; subst h2
      have hb := hleaf rfl rfl
      refine ⟨fun q m hq hne => ?_, fun c hc' => ?_⟩
      · cases o with
        | leaf fo lko =>
          cases q with
          | nil => exact absurd rfl hne
          | cons k2 q' => exact (c08w_nodeAt_leaf hq).elim
        | comp fo ko oocs =>
          obtain ⟨_, _, hk, hoocs⟩ := c08w_doc_comp ho
          subst hk
          simp only [Node.setFlags, Node.flags] at hb
          rw [c08w_reqNewBelow_propagate _ _
            (by simpa [c08w_replaceOtherFlags_new, c08w_replaceOtherFlags_iNew] using hoocs)] at hb
          cases q with
          | nil => exact absurd rfl hne
          | cons k2 q' =>
            obtain ⟨c2, hm2, hq2⟩ := c08w_nodeAt_cons hq
            have := (c08w_reqNewList_none_iff [] [] oocs).1 hb (k2, c2) hm2
            rcases (C08_reqNew_sound_aux this) q' m hq2 with h | h
            · exact .inr h
            · cases h
      · rw [hg] at hc'; injection hc' with hc'; subst hc'
        rintro ⟨q, sf', sk', scs', of', ocs', key, o', h1, _⟩
        cases q with
        | nil => simp [c08w_get] at h1
        | cons k2 q' => simp [c08w_get] at h1
where
  C08_reqNew_sound_aux {exc : List Path} {p : Path} {n : Node} (h : reqNew exc p n = none) :
      ∀ q m, c08_nodeAt n q m → eNew m.flags = true ∨ (p ++ q) ∈ exc :=
    (c08_reqNew_none_iff exc p n).1 h

theorem c08w_compMerge_cond {rec : Node → Node → Except Err (Node × Bool)} (hl : c08w_RecLeaf rec)
    {sf : Flags} {sk : CompKind} {scs : List (Key × Node)} {of : Flags} {ocs : List (Key × Node)}
    {inh : Option Bool} {r : Node} {s : Bool} (hnd : c08w_nd of = true) (hocs : c08w_docL inh ocs = true)
    (hna : c08w_noAlias (.comp sf sk scs) (.comp of .dict ocs) = true)
    (hvalid : sk.isDictFam = true ∨ (listKeys 0 scs = true ∧ listKeysValid scs.length ocs = true))
    (hap : c08w_noPrio (.comp sf sk scs) = true) (hbp : c08w_noPrioL ocs = true)
    (hrec : ∀ kv ∈ ocs, ∀ c r s, getChild sk kv.1 scs = some c → c.isComp = true →
      c08w_noAlias c kv.2 = true → rec c kv.2 = .ok (r, s) → c08w_Cond c kv.2)
    (h : compMerge rec sf sk scs (.comp of .dict ocs) = .ok (r, s)) :
    c08w_Cond (.comp sf sk scs) (.comp of .dict ocs) := by
  obtain ⟨hsn, hnl⟩ := c08w_noAlias_comp hna
  rw [c08w_compMerge_dict rec sf sk scs ocs hnd] at h
  split at h
  · cases h
  · rename_i scs' hloop
    have hv : sk.isDictFam = true ∨ (listKeys 0 scs = true ∧
        ∀ kv ∈ ocs, (validateIndex scs.length true kv.1).isSome = true) := by
      rcases hvalid with h | ⟨h1, h2⟩
      · exact .inl h
      · exact .inr ⟨h1, c08w_listKeysValid_mem h2⟩
    have hok := (c08w_loop_decomp (sf := sf) hl ocs scs hv hsn (c08w_docL_del hocs) (.inr rfl)
      (fun _ _ => rfl)).1 scs' hloop
    have hkey : ∀ kv ∈ ocs,
        (∀ q m, c08_nodeAt kv.2 q m → q ≠ [] →
          (∃ c, getChild sk kv.1 scs = some c ∧ c08w_has c q = true) ∨ eNew m.flags = true) ∧
        (∀ c, getChild sk kv.1 scs = some c → ¬ c08w_BadIndex c kv.2) := by
      intro kv hkv
      exact c08w_stepOk_cond hl (c08w_docL_mem hocs kv hkv)
        (c08w_noPrio_flags (c08w_noPrioL_mem hbp kv hkv))
        (fun c hc => c08w_noPrio_flags (c08w_noPrio_getChild hap hc))
        (fun c r s hg hc hr => hrec kv hkv c r s hg hc (c08w_noAliasL_mem hnl kv hkv c hg) hr)
        (hok kv hkv)
    refine ⟨fun p m hp hne => ?_, ?_⟩
    · cases p with
      | nil => exact absurd rfl hne
      | cons key q =>
        obtain ⟨c, hmem, hq⟩ := c08w_nodeAt_cons hp
        by_cases hqe : q = []
        · subst hqe
          -- the node stored under `key` itself
          rcases hok (key, c) hmem with ⟨hg, hr0⟩ | ⟨child, _, _, hg, _, _⟩
          · right
            have := c08w_nodeAt_nil hq
            subst this
            rcases (c08_reqNew_none_iff [] [] _).1 hr0 [] _ (.root _) with h | h
            · exact h
            · cases h
          · left; rw [c08w_has_cons, hg]; simp
        · rcases (hkey (key, c) hmem).1 q m hq hqe with ⟨ch, hg, hh⟩ | h
          · left; rw [c08w_has_cons, hg]; exact hh
          · exact .inr h
    · rintro ⟨q, sf', sk', scs', of', ocs', key, o', h1, h2, h3, h4, h5⟩
      cases q with
      | nil =>
        simp only [c08w_get, Option.some.injEq, Node.comp.injEq] at h1
        obtain ⟨_, e2, e3⟩ := h1
        subst e2; subst e3
        have := c08w_nodeAt_nil h3
        simp only [Node.comp.injEq] at this
        obtain ⟨_, _, e4⟩ := this
        subst e4
        rcases hv with hd | ⟨_, hval⟩
        · rw [hd] at h2; cases h2
        · have := hval (key, o') h4
          rw [h5] at this; cases this
      | cons k0 q' =>
        obtain ⟨c, hmem, hq⟩ := c08w_nodeAt_cons h3
        rw [c08w_get_cons] at h1
        cases hg : getChild sk k0 scs with
        | none => rw [hg] at h1; cases h1
        | some child =>
          rw [hg] at h1
          exact (hkey (k0, c) hmem).2 child hg ⟨q', sf', sk', scs', of', ocs', key, o', h1, h2, hq, h4, h5⟩

/-- the fuel-indexed statement -/
theorem c08w_mergeF_cond : ∀ (n : Nat) (a b : Node) (inh : Option Bool) (r : Node) (s : Bool),
    KI.Keyed a = true → a.isComp = true → c08w_noPrio a = true → c08w_noPrio b = true →
    c08w_top inh b = true → c08w_noAlias a b = true → mergeF n a b = .ok (r, s) → c08w_Cond a b
  | 0, _, _, _, _, _, _, _, _, _, _, _, h => by simp [mergeF] at h
  | n + 1, a, b, inh, r, s, hka, hac, hap, hbp, hb, hna, h => by
    have hl := c08w_recLeaf_mergeF n
    cases a with
    | leaf f lk => cases hac
    | comp sf sk scs =>
      have hcs : KI.CS sk scs := (KI.keyed_comp _ _ _).1 hka
      cases b with
      | leaf fb lkb =>
        refine ⟨fun p m hp hne => ?_, ?_⟩
        · cases p with
          | nil => exact absurd rfl hne
          | cons k q => exact (c08w_nodeAt_leaf hp).elim
        · rintro ⟨q, _, _, _, _, _, _, _, _, _, h3, _⟩
          cases q with
          | nil => have := c08w_nodeAt_nil h3; cases this
          | cons k q => exact (c08w_nodeAt_leaf h3).elim
      | comp of ok ocs =>
        obtain ⟨hnd, hk, hocs⟩ := c08w_top_comp hb
        subst hk
        have hbp' : of.prio = none ∧ c08w_noPrioL ocs = true := by simpa [c08w_noPrio] using hbp
        have hrec : ∀ kv ∈ ocs, ∀ c r s, getChild sk kv.1 scs = some c → c.isComp = true →
            c08w_noAlias c kv.2 = true → mergeF n c kv.2 = .ok (r, s) → c08w_Cond c kv.2 := by
          intro kv hkv c r' s' hg hc hnac hr
          exact c08w_mergeF_cond n c kv.2 _ r' s' (KI.getChild_keyed hcs.2 hg) hc
            (c08w_noPrio_getChild hap hg) (c08w_noPrioL_mem hbp'.2 kv hkv)
            (c08w_top_of_doc (c08w_docL_mem hocs kv hkv)) hnac hr
        have hcm : ∀ (hv : sk.isDictFam = true ∨ (listKeys 0 scs = true ∧ listKeysValid scs.length ocs = true)),
            compMerge (mergeF n) sf sk scs (.comp of .dict ocs) = .ok (r, s) →
            c08w_Cond (.comp sf sk scs) (.comp of .dict ocs) :=
          fun hv h' => c08w_compMerge_cond hl hnd hocs hna hv hap hbp'.2 hrec h'
        have hlm : sk.isDictFam = false → listMerge (mergeF n) sf sk scs (.comp of .dict ocs) = .ok (r, s) →
            c08w_Cond (.comp sf sk scs) (.comp of .dict ocs) := by
          intro hsk h'
          simp only [listMerge] at h'
          split at h'
          · cases h'
          · rename_i hcond
            rw [c08w_filter_top _ hb] at h'
            have hv : listKeysValid scs.length ocs = true := by
              simp only [CompKind.isDictFam, c08w_eDel_top hb, Bool.not_false, Bool.true_and,
                Bool.not_eq_true', Bool.not_eq_false] at hcond
              exact hcond
            exact hcm (.inr ⟨c08w_listKeys_of_CS hcs hsk, hv⟩) h'
        cases sk with
        | dict => exact hcm (.inl rfl) (by simpa only [mergeF] using h)
        | call g => exact hcm (.inl rfl) (by simpa only [mergeF, funcMerge, CompKind.func?] using h)
        | bind g => exact hcm (.inl rfl) (by simpa only [mergeF, funcMerge, CompKind.func?] using h)
        | list => exact hlm rfl (by simpa only [mergeF] using h)
        | append => exact hlm rfl (by simpa only [mergeF] using h)
        | extend => exact hlm rfl (by simpa only [mergeF] using h)
        | path p => exact hlm rfl (by simpa only [mergeF] using h)
        | stream => exact hlm rfl (by simpa only [mergeF] using h)

end AY
