/-
  AY.Lemmas.C03Loader — the loader on "dict-shaped" documents (mappings of mappings with scalar
  leaves; tags: none, or a merge-control tag carrying only `priority` and metadata).

  * `dsBuild env outer r` is a closed form of the tree the loader builds: every node carries the
    priority keyword of its OUTERMOST tagged ancestor-or-self that has one (`outer.or kw.prio`, the
    effect of `ComposedNode.__init__` → `inheritInto (some p)` → `setPrioAll`), its own metadata, and
    nothing else; `constructDeep` / `constructTD` return exactly this tree.
  * `rawLeafAt r p` reads the leaf of the DOCUMENT at a path (effective priority, scalar, metadata),
    `rawShapeAt` the shape; they agree with `leafAt` / `shapeAt` of the constructed tree.
  * on the per-document leaf information the builder's fold is `pickInfo` (the leaf rule), whose
    value/priority part is the arg-max of (priority, stage index) (`argmaxInfo`).
-/
import AY.Props.C03
set_option linter.unusedVariables false
set_option linter.unnecessarySimpa false
namespace AY

/-! ### dict-shaped documents -/

/-- an untagged node (no keywords), or a merge-control tag with `priority` / metadata only -/
def kwDS (t : TagKind) (kw : CtorKw) : Bool :=
  (t == .none && decide (kw = {})) ||
  (t == .plain && kw.del.isNone && kw.new.isNone && kw.safe.isNone)

mutual
/-- mappings (pairwise distinct keys) of mappings with scalar leaves; tags: priority + metadata -/
def rawDictShaped : Raw → Bool
  | .scalar t kw _ => kwDS t kw
  | .seq _ _ _ => false
  | .map t kw items => kwDS t kw && keysNodup items && rawDictShapedMap items
def rawDictShapedMap : List (Key × Raw) → Bool
  | [] => true
  | (_, r) :: rest => rawDictShaped r && rawDictShapedMap rest
end

/-- a dict-shaped mapping document -/
def rawDictDoc : Raw → Bool
  | .map t kw items => rawDictShaped (.map t kw items)
  | _ => false

theorem kwDS_cases {t : TagKind} {kw : CtorKw} (h : kwDS t kw = true) :
    (t = .none ∧ kw = {}) ∨ (t = .plain ∧ kw.del = none ∧ kw.new = none ∧ kw.safe = none) := by
  simp only [kwDS, Bool.or_eq_true, Bool.and_eq_true, beq_iff_eq, decide_eq_true_eq,
    Option.isNone_iff_eq_none] at h
  rcases h with h | h
  · exact .inl h
  · exact .inr ⟨h.1.1.1, h.1.1.2, h.1.2, h.2⟩

theorem rds_map {t kw items} (h : rawDictShaped (.map t kw items) = true) :
    kwDS t kw = true ∧ keysNodup items = true ∧ rawDictShapedMap items = true := by
  simpa [rawDictShaped, and_assoc] using h

theorem rds_lookup (k : Key) : ∀ (items : List (Key × Raw)), rawDictShapedMap items = true →
    ∀ c, alookup k items = some c → rawDictShaped c = true
  | [], _, c, h => by simp [alookup] at h
  | (k', r) :: rest, hp, c, h => by
    have h' : rawDictShaped r = true ∧ rawDictShapedMap rest = true := by simpa [rawDictShapedMap] using hp
    by_cases e : k' = k
    · simp [alookup, e] at h; subst h; exact h'.1
    · simp [alookup, e] at h; exact rds_lookup k rest h'.2 c h

/-! ### the constructed tree in closed form -/

/-- flags of a constructed node: the source context, a priority, metadata — nothing else -/
def dsFlags (env : Env) (prio : Option Int) (md : List (String × Scalar)) : Flags :=
  { bareFlags env with prio := prio, md := md }

/-- metadata that reaches a scalar: a tagged explicit null (`!force ~`) is an existing `ConfigNone`
    node which only receives the priority -/
def leafMd (kw : CtorKw) : RVal → List (String × Scalar)
  | .lit .null => []
  | _ => kw.md

mutual
/-- the tree the loader builds, `outer` = priority imposed by an enclosing tagged container -/
def dsBuild (env : Env) (outer : Option Int) : Raw → Node
  | .scalar _ kw v => .leaf (dsFlags env (outer.or kw.prio) (leafMd kw v)) (.scalar v.toScalar)
  | .seq _ _ _ => .leaf (dsFlags env outer []) .required
  | .map _ kw items =>
    .comp (dsFlags env (outer.or kw.prio) kw.md) .dict (dsBuildMap env (outer.or kw.prio) items)
def dsBuildMap (env : Env) (outer : Option Int) : List (Key × Raw) → List (Key × Node)
  | [] => []
  | (k, r) :: rest => (k, dsBuild env outer r) :: dsBuildMap env outer rest
end

theorem flagsDS_dsFlags (env : Env) (p : Option Int) (md : List (String × Scalar)) :
    flagsDS (dsFlags env p md) = true := rfl

theorem akeys_dsBuildMap (env : Env) (o : Option Int) : ∀ items : List (Key × Raw),
    akeys (dsBuildMap env o items) = akeys items
  | [] => rfl
  | (k, r) :: rest => by simp [dsBuildMap, akeys, akeys_dsBuildMap env o rest]

theorem alookup_dsBuildMap (env : Env) (o : Option Int) (k : Key) : ∀ items : List (Key × Raw),
    alookup k (dsBuildMap env o items) = (alookup k items).map (dsBuild env o)
  | [] => rfl
  | (k', r) :: rest => by
    by_cases e : k' = k <;> simp [dsBuildMap, alookup, e, alookup_dsBuildMap env o k rest]

mutual
theorem dsBuild_DS (env : Env) : ∀ (o : Option Int) (r : Raw), rawDictShaped r = true →
    dictShaped (dsBuild env o r) = true
  | o, .scalar t kw v, _ => by simp [dsBuild, dictShaped, flagsDS_dsFlags]
  | o, .seq t kw items, h => by simp [rawDictShaped] at h
  | o, .map t kw items, h => by
    obtain ⟨_, hnd, hit⟩ := rds_map h
    simp only [dsBuild]
    exact ds_mk_comp (flagsDS_dsFlags _ _ _)
      (by rw [keysNodup_congr _ _ (akeys_dsBuildMap env _ items)]; exact hnd)
      (dsBuildMap_DS env _ items hit)
theorem dsBuildMap_DS (env : Env) : ∀ (o : Option Int) (items : List (Key × Raw)),
    rawDictShapedMap items = true → dictShapedList (dsBuildMap env o items) = true
  | _, [], _ => rfl
  | o, (k, r) :: rest, h => by
    have h' : rawDictShaped r = true ∧ rawDictShapedMap rest = true := by simpa [rawDictShapedMap] using h
    simp [dsBuildMap, dictShapedList, dsBuild_DS env o r h'.1, dsBuildMap_DS env o rest h'.2]
end

mutual
/-- `priority = p` written into every node = the same document below an outer priority `p` -/
theorem setPrioAll_dsBuild (env : Env) (p : Int) : ∀ (o : Option Int) (r : Raw),
    setPrioAll p (dsBuild env o r) = dsBuild env (some p) r
  | o, .scalar t kw v => rfl
  | o, .seq t kw items => rfl
  | o, .map t kw items => by
    simp only [dsBuild, setPrioAll, setPrioAllList_dsBuildMap env p _ items]
    rfl
theorem setPrioAllList_dsBuildMap (env : Env) (p : Int) : ∀ (o : Option Int) (items : List (Key × Raw)),
    setPrioAllList p (dsBuildMap env o items) = dsBuildMap env (some p) items
  | _, [] => rfl
  | o, (k, r) :: rest => by
    simp only [dsBuildMap, setPrioAllList, setPrioAll_dsBuild env p o r, setPrioAllList_dsBuildMap env p o rest]
end

/-- what a constructor with the (optional) keyword `priority = q` and nothing to inherit does to an
    already built child -/
theorem inheritInto_dsBuild (env : Env) (q : Option Int) (r : Raw) (h : rawDictShaped r = true) :
    inheritInto q (some kwN) (dsBuild env none r) = dsBuild env q r := by
  cases q with
  | none =>
    have hd := dsBuild_DS env none r h
    simp only [inheritInto, updFlags_DS (ds_flags hd), setFlags_flags, propagate_DS hd]
  | some p =>
    have hd := dsBuild_DS env (some p) r h
    simp only [inheritInto, setPrioAll_dsBuild, updFlags_DS (ds_flags hd), setFlags_flags, propagate_DS hd]

theorem initChildren_dsBuildMap (env : Env) {f : Flags} (hf : flagsDS f = true) (q : Option Int) :
    ∀ items : List (Key × Raw), rawDictShapedMap items = true →
      initChildren f .dict q (dsBuildMap env none items) = dsBuildMap env q items
  | [], _ => rfl
  | (k, r) :: rest, h => by
    have h' : rawDictShaped r = true ∧ rawDictShapedMap rest = true := by simpa [rawDictShapedMap] using h
    have ih := initChildren_dsBuildMap env hf q rest h'.2
    simp only [initChildren, dsBuildMap, List.map_cons, childKw_DS hf] at ih ⊢
    rw [inheritInto_dsBuild env q r h'.1, ih]

theorem mkFlags_DS (env : Env) {kw : CtorKw} (h1 : kw.del = none) (h2 : kw.new = none) (h3 : kw.safe = none) :
    mkFlags env kw = dsFlags env kw.prio kw.md := by
  simp [mkFlags, dsFlags, bareFlags, h1, h2, h3]

theorem wrapScalar_ds (env : Env) {t : TagKind} {kw : CtorKw} (v : RVal) (h : kwDS t kw = true) :
    wrapScalar env t kw v = .ok (dsBuild env none (.scalar t kw v)) := by
  rcases kwDS_cases h with ⟨rfl, rfl⟩ | ⟨rfl, h1, h2, h3⟩
  · cases v with
    | lit s => cases s <;> rfl
    | empty => rfl
    | text s => rfl
  · cases v with
    | lit s =>
      cases s <;> first
        | rfl
        | (simp only [wrapScalar, dsBuild, leafMd, mkFlags_DS env h1 h2 h3]; rfl)
        | (simp [wrapScalar, dsBuild, leafMd, dsFlags, bareFlags, h3] <;> rfl)
    | empty => simp only [wrapScalar, dsBuild, leafMd, mkFlags_DS env h1 h2 h3]; rfl
    | text s => simp only [wrapScalar, dsBuild, leafMd, mkFlags_DS env h1 h2 h3]; rfl

theorem wrapMap_ds (env : Env) {t : TagKind} {kw : CtorKw} (items : List (Key × Raw)) (h : kwDS t kw = true)
    (hit : rawDictShapedMap items = true) :
    wrapMap env t kw (dsBuildMap env none items) = .ok (dsBuild env none (.map t kw items)) := by
  rcases kwDS_cases h with ⟨rfl, rfl⟩ | ⟨rfl, h1, h2, h3⟩
  · simp only [wrapMap, dsBuild]
    rw [initChildren_dsBuildMap env (f := bareFlags env) rfl none items hit]
    rfl
  · simp only [wrapMap, dsBuild, mkFlags_DS env h1 h2 h3]
    rw [initChildren_dsBuildMap env (flagsDS_dsFlags _ _ _) kw.prio items hit]
    rfl

/-! ### both construction modes return the closed form -/

mutual
theorem constructDeep_ds (env : Env) : ∀ (r : Raw), rawDictShaped r = true →
    constructDeep env r = .ok (dsBuild env none r)
  | .scalar t kw v, h => by
    simp only [constructDeep]
    exact wrapScalar_ds env v (by simpa [rawDictShaped] using h)
  | .seq t kw items, h => by simp [rawDictShaped] at h
  | .map t kw items, h => by
    obtain ⟨hkw, _, hit⟩ := rds_map h
    simp only [constructDeep, constructDeepMap_ds env items hit]
    exact wrapMap_ds env items hkw hit
theorem constructDeepMap_ds (env : Env) : ∀ (items : List (Key × Raw)), rawDictShapedMap items = true →
    constructDeepMap env items = .ok (dsBuildMap env none items)
  | [], _ => rfl
  | (k, r) :: rest, h => by
    have h' : rawDictShaped r = true ∧ rawDictShapedMap rest = true := by simpa [rawDictShapedMap] using h
    simp only [constructDeepMap, constructDeep_ds env r h'.1, constructDeepMap_ds env rest h'.2, dsBuildMap]
end

/-- the adopting parent, when there is one, is a dict-shaped mapping -/
def ParentDS (parent : Option (Flags × CompKind)) : Prop :=
  ∀ pf pk, parent = some (pf, pk) → flagsDS pf = true ∧ pk = .dict

theorem adoptBy_DS {parent : Option (Flags × CompKind)} (hp : ParentDS parent) {n : Node}
    (h : dictShaped n = true) : adoptBy parent n = n := by
  cases parent with
  | none => rfl
  | some pr =>
    obtain ⟨pf, pk⟩ := pr
    obtain ⟨h1, h2⟩ := hp pf pk rfl
    subst h2
    exact adopt_DS h1 h

mutual
theorem constructTD_ds (env : Env) : ∀ (r : Raw) (parent : Option (Flags × CompKind)),
    rawDictShaped r = true → ParentDS parent → constructTD env parent r = .ok (dsBuild env none r)
  | .scalar t kw v, parent, h, hp => by
    have hkw : kwDS t kw = true := by simpa [rawDictShaped] using h
    have hd := dsBuild_DS env none _ h
    have hw := wrapScalar_ds env v hkw
    rcases kwDS_cases hkw with ⟨rfl, rfl⟩ | ⟨rfl, _⟩
    · simp only [constructTD]
      have e : Node.leaf (bareFlags env) (.scalar v.toScalar) = dsBuild env none (.scalar .none {} v) := by
        simp only [wrapScalar] at hw; injection hw
      rw [e, adoptBy_DS hp hd]
    · simp only [constructTD, hw, adoptBy_DS hp hd]
  | .seq t kw items, parent, h, hp => by simp [rawDictShaped] at h
  | .map t kw items, parent, h, hp => by
    obtain ⟨hkw, hnd, hit⟩ := rds_map h
    have hd := dsBuild_DS env none _ h
    rcases kwDS_cases hkw with ⟨rfl, rfl⟩ | ⟨rfl, _⟩
    · have he : adoptBy parent (.comp (bareFlags env) .dict []) = .comp (bareFlags env) .dict [] :=
        adoptBy_DS hp (ds_mk_comp rfl rfl rfl)
      have hm := constructTDMap_ds env (bareFlags env) rfl items [] hit hnd (fun _ _ => rfl)
      simp only [constructTD, he, hm, List.nil_append]
      rfl
    · simp only [constructTD, constructDeep_ds env _ h, adoptBy_DS hp hd]
theorem constructTDMap_ds (env : Env) (pf : Flags) (hpf : flagsDS pf = true) :
    ∀ (items : List (Key × Raw)) (acc : List (Key × Node)), rawDictShapedMap items = true →
    keysNodup items = true → (∀ k, k ∈ akeys items → alookup k acc = none) →
    constructTDMap env pf .dict items acc = .ok (acc ++ dsBuildMap env none items)
  | [], acc, _, _, _ => by simp [constructTDMap, dsBuildMap]
  | (k, r) :: rest, acc, h, hnd, hfresh => by
    have h' : rawDictShaped r = true ∧ rawDictShapedMap rest = true := by simpa [rawDictShapedMap] using h
    have hnd' : (akeys rest).contains k = false ∧ keysNodup rest = true := by simpa [keysNodup] using hnd
    have h1 := constructTD_ds env r (some (pf, .dict)) h'.1 (fun pf' pk' e => by cases e; exact ⟨hpf, rfl⟩)
    have hk : alookup k acc = none := hfresh k (by simp [akeys])
    have hfresh' : ∀ k', k' ∈ akeys rest → alookup k' (aset k (dsBuild env none r) acc) = none := by
      intro k' hk'
      rw [aset_of_lookup_none k _ acc hk]
      apply alookup_append_none
      · exact hfresh k' (by simp [akeys, hk'])
      · have : k ≠ k' := by
          intro e; subst e
          have := hnd'.1
          simp at this
          exact this hk'
        simp [alookup, this]
    simp only [constructTDMap, h1, constructTDMap_ds env pf hpf rest _ h'.2 hnd'.2 hfresh']
    rw [aset_of_lookup_none k _ acc hk]
    simp [dsBuildMap]
end

/-- `yaml.parse` of a dict-shaped document -/
theorem construct_ds (env : Env) (r : Raw) (h : rawDictShaped r = true) :
    construct env r = .ok (dsBuild env none r) :=
  constructTD_ds env r none h (fun _ _ e => by cases e)

/-! ### reading a document at a path -/

/-- what a stage writes at a leaf path: effective priority, value, user metadata -/
abbrev LeafInfo := Int × Scalar × List (String × Scalar)

/-- the same information read off a stored leaf -/
def leafInfo : Node → Option LeafInfo
  | .leaf f (.scalar v) => some (ePrio f, v, f.md)
  | _ => none

/-- the leaf of a document at a path; `outer` = priority keyword of an enclosing tagged container.
    The effective priority is the `priority` keyword of the OUTERMOST tagged ancestor-or-self that
    has one, the default priority when there is none. -/
def rawLeafAtFrom (outer : Option Int) : Raw → Path → Option LeafInfo
  | .scalar _ kw v, [] => some ((outer.or kw.prio).getD Tables.defaultPriority, v.toScalar, leafMd kw v)
  | .scalar _ _ _, _ :: _ => none
  | .seq _ _ _, _ => none
  | .map _ _ _, [] => none
  | .map _ kw items, k :: rest =>
    match alookup k items with
    | none => none
    | some c => rawLeafAtFrom (outer.or kw.prio) c rest

def rawLeafAt (r : Raw) (p : Path) : Option LeafInfo := rawLeafAtFrom none r p

/-- `some true` = mapping, `some false` = scalar, `none` = the path does not exist -/
def rawShapeAt : Raw → Path → Option Bool
  | .scalar _ _ _, [] => some false
  | .scalar _ _ _, _ :: _ => none
  | .seq _ _ _, _ => none
  | .map _ _ _, [] => some true
  | .map _ _ items, k :: rest =>
    match alookup k items with
    | none => none
    | some c => rawShapeAt c rest

/-- shape compatibility of two documents: a path existing in both is a scalar in both or a mapping
    in both -/
def rawCompatP (a b : Raw) : Prop :=
  ∀ p x y, rawShapeAt a p = some x → rawShapeAt b p = some y → x = y

def rawPairwiseCompat : List Raw → Prop
  | [] => True
  | d :: ds => (∀ c, c ∈ ds → rawCompatP d c) ∧ rawPairwiseCompat ds

theorem leafAt_dsBuild (env : Env) : ∀ (p : Path) (o : Option Int) (r : Raw), rawDictShaped r = true →
    (leafAt (dsBuild env o r) p).bind leafInfo = rawLeafAtFrom o r p
  | [], o, .scalar t kw v, _ => rfl
  | [], o, .seq t kw items, h => by simp [rawDictShaped] at h
  | [], o, .map t kw items, _ => rfl
  | k :: rest, o, .scalar t kw v, _ => rfl
  | k :: rest, o, .seq t kw items, h => by simp [rawDictShaped] at h
  | k :: rest, o, .map t kw items, h => by
    obtain ⟨_, _, hit⟩ := rds_map h
    simp only [dsBuild, leafAt_comp_cons, alookup_dsBuildMap, rawLeafAtFrom]
    cases hl : alookup k items with
    | none => rfl
    | some c => exact leafAt_dsBuild env rest _ c (rds_lookup k items hit c hl)

theorem shapeAt_dsBuild (env : Env) : ∀ (p : Path) (o : Option Int) (r : Raw), rawDictShaped r = true →
    shapeAt (dsBuild env o r) p = rawShapeAt r p
  | [], o, .scalar t kw v, _ => rfl
  | [], o, .seq t kw items, h => by simp [rawDictShaped] at h
  | [], o, .map t kw items, _ => rfl
  | k :: rest, o, .scalar t kw v, _ => rfl
  | k :: rest, o, .seq t kw items, h => by simp [rawDictShaped] at h
  | k :: rest, o, .map t kw items, h => by
    obtain ⟨_, _, hit⟩ := rds_map h
    simp only [dsBuild, shapeAt_comp_cons, alookup_dsBuildMap, rawShapeAt]
    cases hl : alookup k items with
    | none => rfl
    | some c => exact shapeAt_dsBuild env rest _ c (rds_lookup k items hit c hl)

theorem compatP_dsBuild (env env' : Env) {a b : Raw} (ha : rawDictShaped a = true) (hb : rawDictShaped b = true)
    (h : rawCompatP a b) : compatP (dsBuild env none a) (dsBuild env' none b) := by
  intro p x y hx hy
  rw [shapeAt_dsBuild env p none a ha] at hx
  rw [shapeAt_dsBuild env' p none b hb] at hy
  exact h p x y hx hy

/-! ### every leaf of a dict-shaped tree is a scalar -/

/-- the optional node is a scalar leaf -/
def ScalarLeafO (x : Option Node) : Prop := ∀ n, x = some n → ∃ f v, n = .leaf f (.scalar v)

theorem leafAt_scalar : ∀ (p : Path) (n : Node), dictShaped n = true → ScalarLeafO (leafAt n p)
  | [], .leaf f k, h, m, hm => by
    obtain ⟨v, rfl, _⟩ := ds_leaf h
    rw [leafAt_leaf_nil] at hm; injection hm with hm
    exact ⟨f, v, hm.symm⟩
  | [], .comp f k cs, _, m, hm => by rw [leafAt_comp_nil] at hm; cases hm
  | key :: rest, .leaf f k, _, m, hm => by rw [leafAt_leaf_cons] at hm; cases hm
  | key :: rest, .comp f k cs, h, m, hm => by
    rw [leafAt_comp_cons] at hm
    cases hl : alookup key cs with
    | none => rw [hl] at hm; cases hm
    | some c =>
      rw [hl] at hm
      exact leafAt_scalar rest c (alookup_ds key cs (ds_comp h).2.2.2 c hl) m hm

/-! ### the leaf rule on the leaf information -/

/-- the leaf rule on what two stages write: the older wins only with a strictly higher priority;
    the winner keeps value and priority, the metadata is `{**loser, **winner}` -/
def pickInfo : Option LeafInfo → Option LeafInfo → Option LeafInfo
  | none, y => y
  | some a, none => some a
  | some a, some b =>
    if a.1 > b.1 then some (a.1, a.2.1, mmerge b.2.2 a.2.2) else some (b.1, b.2.1, mmerge a.2.2 b.2.2)

theorem pick_info {x y : Option Node} (hx : ScalarLeafO x) (hy : ScalarLeafO y) :
    ScalarLeafO (pick x y) ∧ (pick x y).bind leafInfo = pickInfo (x.bind leafInfo) (y.bind leafInfo) := by
  cases x with
  | none =>
    refine ⟨hy, ?_⟩
    cases y <;> rfl
  | some a =>
    obtain ⟨fa, va, rfl⟩ := hx a rfl
    cases y with
    | none => exact ⟨hx, rfl⟩
    | some b =>
      obtain ⟨fb, vb, rfl⟩ := hy b rfl
      by_cases hp : ePrio fa > ePrio fb
      · have e : (leafRule (.leaf fa (.scalar va)) (.leaf fb (.scalar vb))).1 =
            .leaf (replaceOtherFlags fa fb) (.scalar va) := by
          rw [leafRule_self_wins (a := .leaf fa (.scalar va)) (b := .leaf fb (.scalar vb)) hp]; rfl
        refine ⟨fun n hn => ?_, ?_⟩
        · simp only [pick, e] at hn; injection hn with hn; exact ⟨_, _, hn.symm⟩
        · simp only [pick, e, Option.bind_some, leafInfo, pickInfo, replaceOtherFlags_ePrio, hp, if_true]
          rfl
      · have e : (leafRule (.leaf fa (.scalar va)) (.leaf fb (.scalar vb))).1 =
            .leaf (replaceOtherFlags fb fa) (.scalar vb) := by
          rw [leafRule_other_wins (a := .leaf fa (.scalar va)) (b := .leaf fb (.scalar vb)) hp]; rfl
        refine ⟨fun n hn => ?_, ?_⟩
        · simp only [pick, e] at hn; injection hn with hn; exact ⟨_, _, hn.symm⟩
        · simp only [pick, e, Option.bind_some, leafInfo, pickInfo, replaceOtherFlags_ePrio, hp, if_false]
          rfl

theorem foldl_pick_info : ∀ (l : List (Option Node)) (init : Option Node), ScalarLeafO init →
    (∀ x, x ∈ l → ScalarLeafO x) →
    (l.foldl pick init).bind leafInfo = (l.map (fun x => x.bind leafInfo)).foldl pickInfo (init.bind leafInfo)
  | [], _, _, _ => rfl
  | x :: rest, init, hi, hl => by
    have hx := hl x List.mem_cons_self
    obtain ⟨h1, h2⟩ := pick_info hi hx
    simp only [List.foldl_cons, List.map_cons]
    rw [foldl_pick_info rest (pick init x) h1 (fun y hy => hl y (List.mem_cons_of_mem _ hy)), h2]

/-! ### arg-max on the leaf information -/

/-- value and priority of a writer -/
def pv (i : LeafInfo) : Int × Scalar := (i.1, i.2.1)

/-- of two competing writers the older wins only with a strictly higher priority -/
def pickRawInfo : Option LeafInfo → Option LeafInfo → Option LeafInfo
  | none, y => y
  | some a, none => some a
  | some a, some b => if a.1 > b.1 then some a else some b

/-- the writer maximising (priority, stage index) among the stages that write the leaf -/
def argmaxInfo : List (Option LeafInfo) → Option LeafInfo
  | [] => none
  | x :: rest => pickRawInfo x (argmaxInfo rest)

def pickPV : Option (Int × Scalar) → Option (Int × Scalar) → Option (Int × Scalar)
  | none, y => y
  | some a, none => some a
  | some a, some b => if a.1 > b.1 then some a else some b

theorem map_pv_pickInfo (x y : Option LeafInfo) : (pickInfo x y).map pv = pickPV (x.map pv) (y.map pv) := by
  cases x with
  | none => rfl
  | some a =>
    cases y with
    | none => rfl
    | some b =>
      simp only [pickInfo, Option.map_some, pickPV, pv]
      by_cases h : a.1 > b.1 <;> simp [h, pv]

theorem map_pv_pickRawInfo (x y : Option LeafInfo) : (pickRawInfo x y).map pv = pickPV (x.map pv) (y.map pv) := by
  cases x with
  | none => rfl
  | some a =>
    cases y with
    | none => rfl
    | some b =>
      simp only [pickRawInfo, Option.map_some, pickPV, pv]
      by_cases h : a.1 > b.1 <;> simp [h, pv]

theorem pickPV_none_right (a : Option (Int × Scalar)) : pickPV a none = a := by cases a <;> rfl

theorem pickPV_assoc (a b c : Option (Int × Scalar)) : pickPV (pickPV a b) c = pickPV a (pickPV b c) := by
  cases a with
  | none => rfl
  | some a =>
    cases b with
    | none => rfl
    | some b =>
      cases c with
      | none => simp [pickPV_none_right]
      | some c =>
        simp only [pickPV]
        by_cases h1 : a.1 > b.1 <;> by_cases h2 : b.1 > c.1 <;> by_cases h3 : a.1 > c.1 <;>
          simp [h1, h2, h3] <;> omega

theorem foldl_pickPV (l : List (Option (Int × Scalar))) : ∀ a, l.foldl pickPV a = pickPV a (l.foldr pickPV none) := by
  induction l with
  | nil => intro a; simp [pickPV_none_right]
  | cons x rest ih => intro a; simp only [List.foldl_cons, List.foldr_cons, ih, pickPV_assoc]

theorem map_pv_argmaxInfo : ∀ l : List (Option LeafInfo),
    (argmaxInfo l).map pv = (l.map (fun x => x.map pv)).foldr pickPV none
  | [] => rfl
  | x :: rest => by
    simp only [argmaxInfo, map_pv_pickRawInfo, map_pv_argmaxInfo rest, List.map_cons, List.foldr_cons]

theorem map_pv_foldl_pickInfo : ∀ (l : List (Option LeafInfo)) (init : Option LeafInfo),
    (l.foldl pickInfo init).map pv = (l.map (fun x => x.map pv)).foldl pickPV (init.map pv)
  | [], _ => rfl
  | x :: rest, init => by
    simp only [List.foldl_cons, List.map_cons, map_pv_foldl_pickInfo rest, map_pv_pickInfo]

/-- folding the leaf rule from the left = the arg-max (value and priority of the survivor) -/
theorem foldl_pickInfo_argmax (init : Option LeafInfo) (l : List (Option LeafInfo)) :
    (l.foldl pickInfo init).map pv = (argmaxInfo (init :: l)).map pv := by
  rw [map_pv_foldl_pickInfo, foldl_pickPV, map_pv_argmaxInfo]
  rfl

theorem argmaxInfo_none : ∀ l : List (Option LeafInfo), argmaxInfo l = none → ∀ x, x ∈ l → x = none
  | [], _, x, hx => by cases hx
  | y :: rest, h, x, hx => by
    simp only [argmaxInfo] at h
    cases y with
    | some a =>
      cases hr : argmaxInfo rest with
      | none => simp [hr, pickRawInfo] at h
      | some w => simp only [hr, pickRawInfo] at h; split at h <;> cases h
    | none =>
      simp only [pickRawInfo] at h
      rcases List.mem_cons.1 hx with e | hx
      · exact e
      · exact argmaxInfo_none rest h x hx

/-- `argmaxInfo` is the lexicographic maximum of (priority, stage index) -/
theorem argmaxInfo_spec : ∀ (l : List (Option LeafInfo)) (w : LeafInfo), argmaxInfo l = some w →
    ∃ i : Nat, l[i]? = some (some w) ∧
      ∀ (j : Nat) (m : LeafInfo), l[j]? = some (some m) → m.1 < w.1 ∨ (m.1 = w.1 ∧ j ≤ i)
  | [], w, h => by cases h
  | x :: rest, w, h => by
    simp only [argmaxInfo] at h
    cases hr : argmaxInfo rest with
    | none =>
      have hnone := argmaxInfo_none rest hr
      rw [hr] at h
      have hx : x = some w := by cases x <;> simpa [pickRawInfo] using h
      subst hx
      refine ⟨0, rfl, ?_⟩
      intro j m hj
      cases j with
      | zero => simp at hj; subst hj; exact .inr ⟨rfl, Nat.le_refl _⟩
      | succ j =>
        simp only [List.getElem?_cons_succ] at hj
        have := hnone _ (List.mem_of_getElem? hj)
        cases this
    | some w' =>
      obtain ⟨i', hi', hmax⟩ := argmaxInfo_spec rest w' hr
      rw [hr] at h
      cases x with
      | none =>
        simp only [pickRawInfo] at h
        injection h with h; subst h
        refine ⟨i' + 1, by simpa using hi', ?_⟩
        intro j m hj
        cases j with
        | zero => simp at hj
        | succ j =>
          simp only [List.getElem?_cons_succ] at hj
          rcases hmax j m hj with h | h
          · exact .inl h
          · exact .inr ⟨h.1, by omega⟩
      | some n =>
        simp only [pickRawInfo] at h
        by_cases hp : n.1 > w'.1
        · simp only [hp, if_true] at h
          injection h with h; subst h
          refine ⟨0, rfl, ?_⟩
          intro j m hj
          cases j with
          | zero => simp at hj; subst hj; exact .inr ⟨rfl, Nat.le_refl _⟩
          | succ j =>
            simp only [List.getElem?_cons_succ] at hj
            rcases hmax j m hj with h | h
            · exact .inl (by omega)
            · exact .inl (by omega)
        · simp only [hp, if_false] at h
          injection h with h; subst h
          refine ⟨i' + 1, by simpa using hi', ?_⟩
          intro j m hj
          cases j with
          | zero =>
            have e : n = m := by simpa using hj
            rw [← e]
            by_cases he : n.1 = w'.1
            · exact .inr ⟨he, by omega⟩
            · exact .inl (by omega)
          | succ j =>
            simp only [List.getElem?_cons_succ] at hj
            rcases hmax j m hj with h | h
            · exact .inl h
            · exact .inr ⟨h.1, by omega⟩

/-! ### metadata keys are never lost -/

/-- the writer's metadata has the key -/
def mdHas (k : String) : Option LeafInfo → Bool
  | none => false
  | some i => (mlookup k i.2.2).isSome

theorem mdHas_pickInfo (k : String) (x y : Option LeafInfo) :
    mdHas k (pickInfo x y) = (mdHas k x || mdHas k y) := by
  cases x with
  | none => simp [pickInfo, mdHas]
  | some a =>
    cases y with
    | none => simp [pickInfo, mdHas]
    | some b =>
      simp only [pickInfo]
      split
      · simp only [mdHas, mlookup_mmerge_isSome]; exact Bool.or_comm _ _
      · simp only [mdHas, mlookup_mmerge_isSome]

theorem mdHas_foldl (k : String) : ∀ (l : List (Option LeafInfo)) (init : Option LeafInfo),
    mdHas k (l.foldl pickInfo init) = (mdHas k init || l.any (mdHas k))
  | [], init => by simp
  | x :: rest, init => by
    simp only [List.foldl_cons, mdHas_foldl k rest, mdHas_pickInfo, List.any_cons, Bool.or_assoc]

/-! ### parsing a list of documents -/

/-- `yaml.parse` of every source, each in its own parse context -/
def constructAll : List (Env × Raw) → Except Err (List Node)
  | [] => .ok []
  | (env, r) :: rest =>
    match construct env r with
    | .error e => .error e
    | .ok n =>
      match constructAll rest with
      | .error e => .error e
      | .ok ns => .ok (n :: ns)

theorem constructAll_ds : ∀ (docs : List (Env × Raw)), (∀ d, d ∈ docs → rawDictShaped d.2 = true) →
    constructAll docs = .ok (docs.map (fun d => dsBuild d.1 none d.2))
  | [], _ => rfl
  | (env, r) :: rest, h => by
    simp only [constructAll, construct_ds env r (h (env, r) List.mem_cons_self),
      constructAll_ds rest (fun d hd => h d (List.mem_cons_of_mem _ hd)), List.map_cons]

theorem pairwiseCompat_dsBuild : ∀ (docs : List (Env × Raw)), (∀ d, d ∈ docs → rawDictShaped d.2 = true) →
    rawPairwiseCompat (docs.map (·.2)) → pairwiseCompat (docs.map (fun d => dsBuild d.1 none d.2))
  | [], _, _ => trivial
  | d :: rest, h, hp => by
    simp only [List.map_cons, rawPairwiseCompat] at hp
    refine ⟨?_, pairwiseCompat_dsBuild rest (fun x hx => h x (List.mem_cons_of_mem _ hx)) hp.2⟩
    intro c hc
    obtain ⟨x, hx, rfl⟩ := List.mem_map.1 hc
    exact compatP_dsBuild d.1 x.1 (h d List.mem_cons_self) (h x (List.mem_cons_of_mem _ hx))
      (hp.1 x.2 (List.mem_map.2 ⟨x, hx, rfl⟩))

/-! ### a Boolean test for shape compatibility of documents (for concrete examples) -/

mutual
def rawCompatB : Raw → Raw → Bool
  | .scalar _ _ _, .scalar _ _ _ => true
  | .scalar _ _ _, _ => false
  | .seq _ _ _, _ => true
  | .map _ _ items, .map _ _ items' => rawCompatBMap items items'
  | .map _ _ _, .seq _ _ _ => true
  | .map _ _ _, .scalar _ _ _ => false
def rawCompatBMap : List (Key × Raw) → List (Key × Raw) → Bool
  | [], _ => true
  | (k, c) :: rest, ds =>
    (match alookup k ds with | none => true | some d => rawCompatB c d) && rawCompatBMap rest ds
end

theorem rawShapeAt_seq (t kw items) (p : Path) : rawShapeAt (.seq t kw items) p = none := by
  cases p <;> rfl

mutual
theorem rawCompatP_of_B : ∀ (a b : Raw), rawCompatB a b = true → rawCompatP a b
  | .scalar t kw v, b, h => by
    cases b with
    | scalar t' kw' v' =>
      intro p x y hx hy
      cases p with
      | nil => simp only [rawShapeAt] at hx hy; injection hx with hx; injection hy with hy; rw [← hx, ← hy]
      | cons k rest => simp [rawShapeAt] at hx
    | seq t' kw' items' => simp [rawCompatB] at h
    | map t' kw' items' => simp [rawCompatB] at h
  | .seq t kw items, b, _ => by
    intro p x y hx hy
    rw [rawShapeAt_seq] at hx; cases hx
  | .map t kw items, b, h => by
    cases b with
    | scalar t' kw' v' => simp [rawCompatB] at h
    | seq t' kw' items' =>
      intro p x y hx hy
      rw [rawShapeAt_seq] at hy; cases hy
    | map t' kw' items' =>
      simp only [rawCompatB] at h
      intro p x y hx hy
      cases p with
      | nil => simp only [rawShapeAt] at hx hy; injection hx with hx; injection hy with hy; rw [← hx, ← hy]
      | cons k rest =>
        simp only [rawShapeAt] at hx hy
        cases hc : alookup k items with
        | none => rw [hc] at hx; cases hx
        | some c =>
          cases hd : alookup k items' with
          | none => rw [hd] at hy; cases hy
          | some d =>
            rw [hc] at hx; rw [hd] at hy
            exact rawCompatP_of_BMap items items' h k c d hc hd rest x y hx hy
theorem rawCompatP_of_BMap : ∀ (cs ds : List (Key × Raw)), rawCompatBMap cs ds = true →
    ∀ k c d, alookup k cs = some c → alookup k ds = some d → rawCompatP c d
  | [], _, _, k, c, d, hc, _ => by simp [alookup] at hc
  | (k', c') :: rest, ds, h, k, c, d, hc, hd => by
    simp only [rawCompatBMap, Bool.and_eq_true] at h
    by_cases e : k' = k
    · subst e
      simp [alookup] at hc
      subst hc
      have h1 := h.1
      rw [hd] at h1
      exact rawCompatP_of_B c' d h1
    · simp [alookup, e] at hc
      exact rawCompatP_of_BMap rest ds h.2 k c d hc hd
end

def rawPairwiseCompatB : List Raw → Bool
  | [] => true
  | d :: ds => ds.all (rawCompatB d) && rawPairwiseCompatB ds

theorem rawPairwiseCompat_of_B : ∀ l : List Raw, rawPairwiseCompatB l = true → rawPairwiseCompat l
  | [], _ => trivial
  | d :: ds, h => by
    simp only [rawPairwiseCompatB, Bool.and_eq_true, List.all_eq_true] at h
    exact ⟨fun c hc => rawCompatP_of_B d c (h.1 c hc), rawPairwiseCompat_of_B ds h.2⟩

end AY
