/-
  AY.Lemmas.C08WholeNoNew — merging a document below `!notnew` (no nested `!new`; priorities and
  `!merge` marks allowed, no deleting node) onto ANY container creates no path: every path of the
  result (through `get_child`) is a path of the config before.  No hypothesis on the config.
-/
import AY.Lemmas.C08WholeStep
namespace AY

/-- what the loop needs from the recursive merge: on a container it creates no path -/
def c08w_RecSub (rec : Node → Node → Except Err (Node × Bool)) : Prop :=
  ∀ a b inh r s, a.isComp = true → c08w_top inh b = true → c08w_nnBelow b = true →
    rec a b = .ok (r, s) → c08w_sub r a

theorem c08w_nnBelow_of_allNotNew {o : Node} (h : allNotNew o = true) : c08w_nnBelow o = true := by
  cases o with
  | leaf f lk => rfl
  | comp f k cs =>
    have : eNew f = false ∧ allNotNewList cs = true := by simpa [allNotNew] using h
    exact this.2

theorem c08w_children_propagate_nil (F : Flags) (k : CompKind) : (propagate (.comp F k [])).children = [] := by
  simp only [propagate]
  split <;> simp [Node.children, applyKwList]

/-- a mapping of the document that replaces a scalar must be empty: its children could only be
    created, and `_require_all_new` refuses them -/
theorem c08w_replaced_leaf_no_children {inh : Option Bool} {o nw : Node} {cf : Flags}
    (ho : c08w_doc inh o = true) (hn : c08w_nnBelow o = true)
    (hnw : nw = propagate (o.setFlags (replaceOtherFlags o.flags cf))) (hb : reqNewBelow nw = none) :
    nw.children = [] := by
  cases o with
  | leaf f lk => subst hnw; rfl
  | comp fo ko ocs =>
    obtain ⟨_, _, hk, hocs⟩ := c08w_doc_comp ho
    subst hk
    simp only [Node.setFlags, Node.flags] at hnw
    subst hnw
    rw [c08w_reqNewBelow_propagate _ _ (by simpa [c08w_replaceOtherFlags_new, c08w_replaceOtherFlags_iNew] using hocs)] at hb
    cases ocs with
    | nil => exact c08w_children_propagate_nil _ _
    | cons kv rest =>
      obtain ⟨k2, c2⟩ := kv
      have hc2 : allNotNew c2 = true ∧ allNotNewList rest = true := by
        simpa [c08w_nnBelow, allNotNewList] using hn
      have := c08_reqNew_self_exc [] ([] ++ [k2]) c2 (c08_allNotNew_flags hc2.1) (by simp)
      simp only [reqNewList, List.nil_append] at hb this
      rw [this] at hb
      cases hb

theorem c08w_step_sub {rec : Node → Node → Except Err (Node × Bool)} (hl : c08w_RecLeaf rec)
    (hr : c08w_RecSub rec) {sf : Flags} {sk : CompKind} {acc acc' : List (Key × Node)} {k : Key} {o : Node}
    {inh : Option Bool} (ho : c08w_doc inh o = true) (hn : allNotNew o = true)
    (h : mergeStep rec sf sk [] acc (k, o) = .ok acc') (f f' : Flags) :
    c08w_sub (.comp f' sk acc') (.comp f sk acc) := by
  have hd := c08w_nd_del (c08w_doc_flags ho).2
  rcases c08w_step_ok_shape hl hd h with ⟨_, hr0, _⟩ | ⟨child, nw, same, K, hg, hrec, hK, hlK, hacc, hleaf⟩
  · rw [c08_reqNew_self o (c08_allNotNew_flags hn)] at hr0; cases hr0
  · have hsub : c08w_sub nw child := by
      cases child with
      | comp cf ck ccs => exact hr _ o _ nw same rfl (c08w_top_of_doc ho) (c08w_nnBelow_of_allNotNew hn) hrec
      | leaf cf clk =>
        have hrec := hl cf clk o _ _ hrec
        cases same with
        | true => exact c08w_leafRule_same_sub hrec
        | false =>
          have hnw := (c08w_leafRule_other_del hrec).1
          exact c08w_sub_of_no_children
            (c08w_replaced_leaf_no_children ho (c08w_nnBelow_of_allNotNew hn) hnw (hleaf rfl rfl)) _
    rcases hacc with e | e <;> subst e
    · exact c08w_sub_aset hlK hsub f f'
    · exact c08w_sub_aset hlK (c08w_sub_adopt hsub sf sk) f f'

theorem c08w_loop_sub {rec : Node → Node → Except Err (Node × Bool)} (hl : c08w_RecLeaf rec)
    (hr : c08w_RecSub rec) {sf : Flags} {sk : CompKind} {inh : Option Bool} :
    ∀ (ocs acc acc' : List (Key × Node)), c08w_docL inh ocs = true → allNotNewList ocs = true →
      mergeLoop rec sf sk [] acc ocs = .ok acc' → ∀ f f', c08w_sub (.comp f' sk acc') (.comp f sk acc)
  | [], acc, acc', _, _, h, f, f' => by
    simp only [mergeLoop] at h
    injection h with h
    subst h
    exact fun p hp => by rwa [c08w_has_comp_congr f f' rfl] at hp
  | (k, o) :: rest, acc, acc', hd, hn, h, f, f' => by
    have hd' : c08w_doc inh o = true ∧ c08w_docL inh rest = true := by simpa [c08w_docL] using hd
    have hn' : allNotNew o = true ∧ allNotNewList rest = true := by simpa [allNotNewList] using hn
    simp only [mergeLoop] at h
    split at h
    · cases h
    · rename_i acc1 hs
      exact c08w_sub_trans (c08w_loop_sub hl hr rest acc1 acc' hd'.2 hn'.2 h f f')
        (c08w_step_sub hl hr hd'.1 hn'.1 hs f f)

/-- a mapping of the document never takes over the class of `self` -/
theorem c08w_maybePromote_dict (F : Flags) (sk : CompKind) (scs : List (Key × Node)) (of : Flags)
    (ocs : List (Key × Node)) : maybePromote F sk scs (.comp of .dict ocs) = .ok (.comp F sk scs, true) := by
  cases sk <;> simp [maybePromote, CompKind.sameClass, CompKind.strictSub, CompKind.isPlain]

theorem c08w_finishMerge_dict (sf : Flags) (sk : CompKind) (scs : List (Key × Node)) (of : Flags)
    (ocs : List (Key × Node)) :
    ∃ F, finishMerge sf sk scs (.comp of .dict ocs) = .ok (propagate (.comp F sk scs), true) := by
  unfold finishMerge
  split
  · exact ⟨_, by rw [c08w_maybePromote_dict]⟩
  · exact ⟨_, by rw [c08w_maybePromote_dict]⟩

/-- `ComposedNode.on_merge_impl` with a non-deleting mapping of the document: the key loop over all
    of `self`, then only flags change -/
theorem c08w_compMerge_dict (rec : Node → Node → Except Err (Node × Bool)) (sf : Flags) (sk : CompKind)
    (scs : List (Key × Node)) {of : Flags} (ocs : List (Key × Node)) (hnd : c08w_nd of = true) :
    compMerge rec sf sk scs (.comp of .dict ocs) =
      match mergeLoop rec sf sk [] scs ocs with
      | .error e => .error e
      | .ok scs' => finishMerge sf sk scs' (.comp of .dict ocs) := by
  simp only [compMerge, c08w_eDel_nd_dict hnd, Bool.false_eq_true, if_false]
  cases mergeLoop rec sf sk [] scs ocs <;> rfl

theorem c08w_leaf_result_sub {s : Node} {f : Flags} {lk : LeafKind} {r : Node} {b : Bool}
    (h : leafRule s (.leaf f lk) = (r, b)) : c08w_sub r s := by
  cases b with
  | true => exact c08w_leafRule_same_sub h
  | false =>
    have := (c08w_leafRule_other_del h).1
    subst this
    exact c08w_sub_of_no_children rfl _

theorem c08w_compMerge_sub {rec : Node → Node → Except Err (Node × Bool)} (hl : c08w_RecLeaf rec)
    (hr : c08w_RecSub rec) {sf : Flags} {sk : CompKind} {scs : List (Key × Node)} {o : Node}
    {inh : Option Bool} {r : Node} {s : Bool} (ho : c08w_top inh o = true) (hn : c08w_nnBelow o = true)
    (h : compMerge rec sf sk scs o = .ok (r, s)) : c08w_sub r (.comp sf sk scs) := by
  cases o with
  | leaf f lk =>
    simp only [compMerge] at h
    injection h with h
    exact c08w_leaf_result_sub h
  | comp of ok ocs =>
    obtain ⟨hnd, hk, hocs⟩ := c08w_top_comp ho
    subst hk
    rw [c08w_compMerge_dict rec sf sk scs ocs hnd] at h
    split at h
    · cases h
    · rename_i scs' hloop
      obtain ⟨F, hF⟩ := c08w_finishMerge_dict sf sk scs' of ocs
      rw [hF] at h
      injection h with h
      injection h with h _
      subst h
      intro p hp
      rw [c08w_has_propagate] at hp
      exact c08w_loop_sub hl hr ocs scs scs' hocs hn hloop sf F p hp

theorem c08w_listMerge_sub {rec : Node → Node → Except Err (Node × Bool)} (hl : c08w_RecLeaf rec)
    (hr : c08w_RecSub rec) {sf : Flags} {sk : CompKind} {scs : List (Key × Node)} {o : Node}
    {inh : Option Bool} {r : Node} {s : Bool} (ho : c08w_top inh o = true) (hn : c08w_nnBelow o = true)
    (h : listMerge rec sf sk scs o = .ok (r, s)) : c08w_sub r (.comp sf sk scs) := by
  cases o with
  | leaf f lk => exact c08w_compMerge_sub hl hr ho hn (by simpa only [listMerge] using h)
  | comp of ok ocs =>
    simp only [listMerge] at h
    split at h
    · cases h
    · rw [c08w_filter_top _ ho] at h
      exact c08w_compMerge_sub hl hr ho hn h

theorem c08w_funcMerge_sub {rec : Node → Node → Except Err (Node × Bool)} (hl : c08w_RecLeaf rec)
    (hr : c08w_RecSub rec) {sf : Flags} {sk : CompKind} {g : String} {scs : List (Key × Node)} {o : Node}
    {inh : Option Bool} {r : Node} {s : Bool} (ho : c08w_top inh o = true) (hn : c08w_nnBelow o = true)
    (h : funcMerge rec sf sk g scs o = .ok (r, s)) : c08w_sub r (.comp sf sk scs) := by
  cases o with
  | leaf f lk =>
    simp only [funcMerge] at h
    split at h
    · split at h
      · split at h
        · injection h with h; injection h with h _; subst h
          exact c08w_sub_of_no_children (c08w_children_propagate_nil _ _) _
        · injection h with h; injection h with h _; subst h
          intro p hp
          rw [c08w_has_propagate] at hp
          rwa [c08w_has_comp_congr sf _ rfl] at hp
      · injection h with h; injection h with h _; subst h
        intro p hp
        rw [c08w_has_propagate] at hp
        rwa [c08w_has_comp_congr sf _ rfl] at hp
    · exact c08w_compMerge_sub hl hr ho hn h
  | comp of ok ocs =>
    obtain ⟨_, hk, _⟩ := c08w_top_comp ho
    subst hk
    simp only [funcMerge, CompKind.func?] at h
    exact c08w_compMerge_sub hl hr ho hn h

/-- `on_merge` of such a document creates no path, at every fuel, whatever `self` is -/
theorem c08w_mergeF_sub : ∀ (n : Nat), c08w_RecSub (mergeF n)
  | 0 => fun a b inh r s _ _ _ h => by simp [mergeF] at h
  | n + 1 => fun a b inh r s ha ho hn h => by
    have hl := c08w_recLeaf_mergeF n
    have hr := c08w_mergeF_sub n
    cases a with
    | leaf f lk => cases ha
    | comp sf sk scs =>
      cases sk with
      | dict => exact c08w_compMerge_sub hl hr ho hn (by simpa only [mergeF] using h)
      | call g => exact c08w_funcMerge_sub hl hr ho hn (by simpa only [mergeF] using h)
      | bind g => exact c08w_funcMerge_sub hl hr ho hn (by simpa only [mergeF] using h)
      | list => exact c08w_listMerge_sub hl hr ho hn (by simpa only [mergeF] using h)
      | append => exact c08w_listMerge_sub hl hr ho hn (by simpa only [mergeF] using h)
      | extend => exact c08w_listMerge_sub hl hr ho hn (by simpa only [mergeF] using h)
      | path p => exact c08w_listMerge_sub hl hr ho hn (by simpa only [mergeF] using h)
      | stream => exact c08w_listMerge_sub hl hr ho hn (by simpa only [mergeF] using h)

end AY
