/-
  AY.Lemmas.C16PipeErase — `remove_node` along a path of plain mappings, as a function (`eraseAt`), and
  what it leaves of the data (`Plain.at?`): the removed path is gone, every independent path keeps its data;
  the same for `setNodeAt` (the write-back after a removal below a list).  Helpers for AY.Props.C16_Pipeline.
-/
import AY.Lemmas.C16PipePremerge
namespace AY.C16P
open AY.C04P

/-- the tree without the node at the path (the path runs through mappings) -/
def eraseAt : Path → Node → Node
  | [], n => n
  | _ :: _, .leaf f lk => .leaf f lk
  | [k], .comp f ck cs => .comp f ck (aerase k cs)
  | k :: k1 :: q, .comp f ck cs =>
    match alookup k cs with
    | none => .comp f ck cs
    | some c => .comp f ck (aset k (eraseAt (k1 :: q) c) cs)

/-! ### small facts -/

theorem dictAlong_of_liveAlong : ∀ (p : Path) (n : Node), liveAlong p n = true → dictAlong p n = true
  | [], _, _ => rfl
  | k :: p, n, h => by
    obtain ⟨f, cs, rfl, _, hn, hc⟩ := liveAlong_cons h
    simp only [dictAlong, hn, Bool.true_and]
    cases hl : alookup k cs with
    | none => rfl
    | some c => exact dictAlong_of_liveAlong p c (hc c hl)

theorem isPrefixOf_cons_cons (a b : Key) (p q : Path) :
    (a :: p).isPrefixOf (b :: q) = (a == b && p.isPrefixOf q) := rfl

theorem indep_nil_left (b : Path) : indep [] b = false := by simp [indep, List.isPrefixOf]

theorem indep_nil_right (a : Path) : indep a [] = false := by
  cases a <;> simp [indep, List.isPrefixOf]

theorem indep_cons_same (k : Key) (a b : Path) : indep (k :: a) (k :: b) = indep a b := by
  simp [indep]

theorem indep_comm (a b : Path) : indep a b = indep b a := by
  simp [indep, Bool.and_comm]

/-- `indep` in terms of the propositional prefix relation -/
theorem indep_iff (a b : Path) : indep a b = true ↔ ¬ a <+: b ∧ ¬ b <+: a := by
  have h : ∀ x y : Path, (x.isPrefixOf y = false) ↔ ¬ x <+: y := by
    intro x y
    rw [← List.isPrefixOf_iff_prefix]
    cases x.isPrefixOf y <;> simp
  simp only [indep, Bool.and_eq_true, Bool.not_eq_true', h]

/-- a path that is missing in a tree of mappings holds no data -/
theorem at_none_of_getNode_none : ∀ (q : Path) (n : Node), dictAlong q n = true → getNode n q = none →
    (native n).at? q = none
  | [], _, _, h => by simp [getNode] at h
  | k :: q, n, hd, h => by
    obtain ⟨f, cs, rfl, _, hc⟩ := dictAlong_cons hd
    rw [at_native_dict]
    cases hl : alookup k cs with
    | none => rfl
    | some c =>
      simp only [getNode, hl] at h
      simp only [Option.map_some, Option.bind_some]
      exact at_none_of_getNode_none q c (hc c hl) h

/-- the data found at `p ++ q` is the data found at `q` below the node at `p` -/
theorem at_append_of_getNode : ∀ (p q : Path) (n d : Node), dictAlong p n = true → getNode n p = some d →
    (native n).at? (p ++ q) = (native d).at? q
  | [], q, n, d, _, h => by
    simp only [getNode, Option.some.injEq] at h
    subst h; rfl
  | k :: p, q, n, d, hd, h => by
    obtain ⟨f, cs, rfl, _, hc⟩ := dictAlong_cons hd
    obtain ⟨c, hl, hg⟩ := getNode_cons_dict h
    rw [List.cons_append, at_native_dict, hl]
    simp only [Option.map_some, Option.bind_some]
    exact at_append_of_getNode p q c d (hc c hl) hg

/-! ### `remove_node` along mappings -/

/-- along mappings an existing node is detached, and the tree continues as `eraseAt` -/
theorem removeNode_dictAlong : ∀ (tp : Path) (s d : Node), tp ≠ [] → dictAlong tp s = true →
    getNode s tp = some d → removeNode s tp = some (d, eraseAt tp s)
  | [], _, _, h, _, _ => absurd rfl h
  | [k], s, d, _, hd, hg => by
    obtain ⟨f, cs, rfl, _, _⟩ := dictAlong_cons hd
    obtain ⟨c, hl, hgc⟩ := getNode_cons_dict hg
    simp only [getNode, Option.some.injEq] at hgc
    subst hgc
    simp [removeNode, hl, removeChild, CompKind.isDictFam, ahas, eraseAt]
  | k :: k1 :: q, s, d, _, hd, hg => by
    obtain ⟨f, cs, rfl, _, hc⟩ := dictAlong_cons hd
    obtain ⟨c, hl, hgc⟩ := getNode_cons_dict hg
    have ih := removeNode_dictAlong (k1 :: q) c d (by simp) (hc c hl) hgc
    simp [removeNode, hl, ih, eraseAt]

theorem dictAlong_eraseAt : ∀ (tp t : Path) (s : Node), dictAlong t s = true → dictAlong t (eraseAt tp s) = true
  | [], _, _, h => h
  | _ :: _, [], _, _ => rfl
  | k :: tp, k' :: t, s, h => by
    obtain ⟨f, cs, rfl, hn, hc⟩ := dictAlong_cons h
    cases tp with
    | nil =>
      simp only [eraseAt, dictAlong, keysNodup_aerase k cs hn, Bool.true_and]
      by_cases e : k = k'
      · subst e; rw [alookup_aerase_self k cs hn]
      · rw [alookup_aerase k' k e]
        cases hl : alookup k' cs with
        | none => rfl
        | some c => exact hc c hl
    | cons k1 q =>
      simp only [eraseAt]
      cases hlk : alookup k cs with
      | none => exact h
      | some c =>
        simp only [dictAlong, keysNodup_aset k _ cs hn, alookup_aset, Bool.true_and]
        by_cases e : k = k'
        · subst e
          simp only [if_true]
          exact dictAlong_eraseAt (k1 :: q) t c (hc c hlk)
        · simp only [e, if_false]
          cases hl : alookup k' cs with
          | none => rfl
          | some c' => exact hc c' hl

/-- "removes it from p": nothing is found at the removed path afterwards -/
theorem getNode_eraseAt_self : ∀ (tp : Path) (s : Node), tp ≠ [] → dictAlong tp s = true →
    getNode (eraseAt tp s) tp = none
  | [], _, h, _ => absurd rfl h
  | [k], s, _, hd => by
    obtain ⟨f, cs, rfl, hn, _⟩ := dictAlong_cons hd
    simp [eraseAt, getNode, alookup_aerase_self k cs hn]
  | k :: k1 :: q, s, _, hd => by
    obtain ⟨f, cs, rfl, hn, hc⟩ := dictAlong_cons hd
    simp only [eraseAt]
    cases hl : alookup k cs with
    | none => simp [getNode, hl]
    | some c =>
      simp only [getNode, alookup_aset, if_true]
      exact getNode_eraseAt_self (k1 :: q) c (by simp) (hc c hl)

/-- … nor below it -/
theorem getNode_eraseAt_below (tp q : Path) (s : Node) (hne : tp ≠ []) (hd : dictAlong tp s = true) :
    getNode (eraseAt tp s) (tp ++ q) = none := by
  rw [c16_getNode_append, getNode_eraseAt_self tp s hne hd]
  rfl

/-- FRAME of a removal along mappings, on the data: a path that is neither at / below the removed path nor
    above it keeps its data -/
theorem at_eraseAt_indep : ∀ (tp t : Path) (s : Node), dictAlong tp s = true → indep t tp = true →
    (native (eraseAt tp s)).at? t = (native s).at? t
  | [], t, _, _, h => by rw [indep_nil_right] at h; cases h
  | _ :: _, [], _, _, h => by rw [indep_nil_left] at h; cases h
  | k :: tp, k' :: t, s, hd, hi => by
    obtain ⟨f, cs, rfl, hn, hc⟩ := dictAlong_cons hd
    cases tp with
    | nil =>
      have e : k ≠ k' := by
        intro e; subst e
        simp [indep, List.isPrefixOf] at hi
      simp only [eraseAt, at_native_dict, alookup_aerase k' k e]
    | cons k1 q =>
      simp only [eraseAt]
      cases hlk : alookup k cs with
      | none => rfl
      | some c =>
        simp only [at_native_dict, alookup_aset]
        by_cases e : k = k'
        · subst e
          rw [indep_cons_same] at hi
          simp only [if_true, hlk, Option.map_some, Option.bind_some]
          exact at_eraseAt_indep (k1 :: q) t c (hc c hlk) hi
        · simp only [e, if_false]

/-! ### `setNodeAt` (the write-back of a removal below a list) on the data -/

/-- a path independent of the rewritten one keeps its data -/
theorem at_setNodeAt_indep (v : Node) : ∀ (pp t : Path) (s : Node), dictAlong pp s = true → indep t pp = true →
    (native (setNodeAt s pp v)).at? t = (native s).at? t
  | [], t, _, _, h => by rw [indep_nil_right] at h; cases h
  | _ :: _, [], _, _, h => by rw [indep_nil_left] at h; cases h
  | k :: pp, k' :: t, s, hd, hi => by
    obtain ⟨f, cs, rfl, hn, hc⟩ := dictAlong_cons hd
    simp only [setNodeAt]
    cases hlk : alookup k cs with
    | none => rfl
    | some c =>
      simp only [at_native_dict, alookup_aset]
      by_cases e : k = k'
      · subst e
        rw [indep_cons_same] at hi
        simp only [if_true, hlk, Option.map_some, Option.bind_some]
        exact at_setNodeAt_indep v pp t c (hc c hlk) hi
      · simp only [e, if_false]

/-- mappings along a path stay mappings when a node off that path … or on it is rewritten: the write-back
    keeps `dictAlong` of every path that is independent of the rewritten one -/
theorem dictAlong_setNodeAt_indep (v : Node) : ∀ (pp t : Path) (s : Node), dictAlong pp s = true →
    dictAlong t s = true → indep t pp = true → dictAlong t (setNodeAt s pp v) = true
  | [], t, _, _, _, h => by rw [indep_nil_right] at h; cases h
  | _ :: _, [], _, _, _, h => by rw [indep_nil_left] at h; cases h
  | k :: pp, k' :: t, s, hd, ht, hi => by
    obtain ⟨f, cs, rfl, hn, hc⟩ := dictAlong_cons hd
    obtain ⟨_, _, hsh, _, hc'⟩ := dictAlong_cons ht
    injection hsh with h1 _ h3
    subst h1; subst h3
    simp only [setNodeAt]
    cases hlk : alookup k cs with
    | none => exact ht
    | some c =>
      simp only [dictAlong, keysNodup_aset k _ cs hn, alookup_aset, Bool.true_and]
      by_cases e : k = k'
      · subst e
        rw [indep_cons_same] at hi
        simp only [if_true]
        exact dictAlong_setNodeAt_indep v pp t c (hc c hlk) (hc' c hlk) hi
      · simp only [e, if_false]
        cases hl : alookup k' cs with
        | none => rfl
        | some c' => exact hc' c' hl

end AY.C16P
