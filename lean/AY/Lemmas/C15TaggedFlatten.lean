/-
  AY.Lemmas.C15TaggedFlatten — from one merge to the fold of `Builder.flatten`, and from trees to
  data, for the tagged clauses of property C15:

  * `PermD.native`, `PermC.native`: related trees have the same data up to the order of keys
    (`Plain.PermEq`);
  * `permDB`: an executable check of `PermD` (used by the non-vacuity examples);
  * `PermTree.toPermD`: `PermD` contains the usual "children of mappings permuted" relation on the
    domain;
  * `flatten_fold`: on stages made of mappings and scalars the builder's fold is a fold of `merge`;
  * `flatten_perm`, `flatten_repeat`: the two laws for the fold.
-/
import AY.Lemmas.C15TaggedIdemC
import AY.Lemmas.C15Perm
import AY.Lemmas.C01Eval
import AY.Lemmas.C02Fold
namespace AY.C15T
open AY.C15W (NN nnList nnF)

/-! ### data -/

theorem akeys_nativeList : ∀ cs : List (Key × Node), akeys (nativeList cs) = akeys cs
  | [] => rfl
  | (k, c) :: rest => by simp [nativeList, akeys, akeys_nativeList rest]

theorem keysNodup_nativeList (cs : List (Key × Node)) : keysNodup (nativeList cs) = keysNodup cs :=
  keysNodup_congr _ _ (akeys_nativeList cs)

mutual
theorem native_core : ∀ n : Node, native (core n) = native n
  | .leaf f k => by cases k <;> rfl
  | .comp f k cs => by simp only [core, native, nativeList_core cs, nativeVals_core cs]
theorem nativeList_core : ∀ cs : List (Key × Node), nativeList (coreList cs) = nativeList cs
  | [] => rfl
  | (k, c) :: rest => by simp only [coreList, nativeList, native_core c, nativeList_core rest]
theorem nativeVals_core : ∀ cs : List (Key × Node), nativeVals (coreList cs) = nativeVals cs
  | [] => rfl
  | (k, c) :: rest => by simp only [coreList, nativeVals, native_core c, nativeVals_core rest]
end

/-- related trees: the same data up to the order of keys, at every level -/
theorem PermD.native_permEqF {a b : Node} (h : PermD a b) : permEqF (a.depth + 1) (native a) (native b) := by
  refine PermD.ind (motive := fun a b => permEqF (a.depth + 1) (native a) (native b)) ?_ ?_ h
  · intro f k
    cases k <;> simp [native, permEqF]
  · intro f cs cs' h1 h2 h3 ih
    have e1 : native (.comp f .dict cs) = .dict (nativeList cs) := by simp [native, CompKind.isDictFam]
    have e2 : native (.comp f .dict cs') = .dict (nativeList cs') := by simp [native, CompKind.isDictFam]
    rw [e1, e2]
    simp only [permEqF, dictRel]
    refine ⟨by rw [keysNodup_nativeList]; exact h1, by rw [keysNodup_nativeList]; exact h2, ?_⟩
    intro k
    rw [alookup_nativeList, alookup_nativeList]
    have := h3 k
    cases hc : alookup k cs with
    | none => rw [hc] at this; rw [this.noneL]; trivial
    | some c =>
      rw [hc] at this
      obtain ⟨c', hc', _⟩ := this.someL
      rw [hc']
      simp only [Option.map, optRel]
      have hd : c.depth + 1 ≤ (Node.comp f .dict cs).depth := by
        have := depthList_lookup k cs c hc
        simp only [Node.depth]; omega
      exact permEqF_mono hd (ih k c c' hc hc')

theorem PermD.native {a b : Node} (h : PermD a b) : (native a).PermEq (native b) := ⟨_, h.native_permEqF⟩

theorem PermC.native {a b : Node} (h : PermC a b) : (native a).PermEq (native b) := by
  have := PermD.native h
  rwa [native_core, native_core] at this

/-! ### depth, plain data -/

theorem depthList_le_of {n : Nat} : ∀ cs : List (Key × Node), (∀ k c, (k, c) ∈ cs → c.depth ≤ n) → depthList cs ≤ n
  | [], _ => by simp [depthList]
  | (k, c) :: rest, h => by
    have h1 := h k c (by simp)
    have h2 := depthList_le_of rest (fun k' c' hm => h k' c' (List.mem_cons_of_mem _ hm))
    simp only [depthList]
    omega

theorem PermD.depth_eq {a b : Node} (h : PermD a b) : b.depth = a.depth := by
  refine PermD.ind (motive := fun a b => b.depth = a.depth) (fun _ _ => rfl) ?_ h
  intro f cs cs' h1 h2 h3 ih
  simp only [Node.depth]
  have l1 : depthList cs ≤ depthList cs' := by
    apply depthList_le_of
    intro k c hm
    have hc := alookup_of_mem h1 hm
    have := h3 k
    rw [hc] at this
    obtain ⟨c', hc', _⟩ := this.someL
    rw [← ih k c c' hc hc']
    exact depthList_lookup k cs' c' hc'
  have l2 : depthList cs' ≤ depthList cs := by
    apply depthList_le_of
    intro k c' hm
    have hc' := alookup_of_mem h2 hm
    have := h3 k
    rw [hc'] at this
    obtain ⟨c, hc, _⟩ := this.someR
    rw [ih k c c' hc hc']
    exact depthList_lookup k cs c hc
  omega

theorem dataTList_of_lookup : ∀ (cs : List (Key × Node)),
    (∀ k c, (k, c) ∈ cs → dataT c = true) → dataTList cs = true
  | [], _ => rfl
  | (k, c) :: rest, h => by
    simp only [dataTList, h k c (by simp), Bool.true_and]
    exact dataTList_of_lookup rest (fun k' c' hm => h k' c' (List.mem_cons_of_mem _ hm))

theorem dataTList_lookup : ∀ (cs : List (Key × Node)), dataTList cs = true → ∀ k c,
    alookup k cs = some c → dataT c = true
  | [], _, k, c, h => by simp [alookup] at h
  | (k', x) :: rest, hn, k, c, h => by
    have hn' : dataT x = true ∧ dataTList rest = true := by simpa [dataTList] using hn
    by_cases e : k' = k
    · simp [alookup, e] at h; subst h; exact hn'.1
    · simp [alookup, e] at h; exact dataTList_lookup rest hn'.2 k c h

/-- scalar leaves on one side, scalar leaves on the other -/
theorem PermD.dataT {a b : Node} (h : PermD a b) : dataT a = true → dataT b = true := by
  refine PermD.ind (motive := fun a b => AY.dataT a = true → AY.dataT b = true) (fun _ _ h => h) ?_ h
  intro f cs cs' h1 h2 h3 ih hd
  obtain ⟨_, _, hl⟩ := dataT_comp hd
  simp only [AY.dataT, beq_self_eq_true, Bool.true_or, h2, Bool.true_and]
  apply dataTList_of_lookup
  intro k c' hm
  have hc' := alookup_of_mem h2 hm
  have := h3 k
  rw [hc'] at this
  obtain ⟨c, hc, _⟩ := this.someR
  exact ih k c c' hc hc' (dataTList_lookup cs hl k c hc)

/-! ### an executable check of `PermD` -/

mutual
def permDB : Node → Node → Bool
  | .leaf f k, n' =>
    match n' with
    | .leaf f' k' => decide (f = f') && decide (k = k')
    | _ => false
  | .comp f kd cs, n' =>
    match n' with
    | .comp f' kd' cs' =>
      decide (f = f') && kd == .dict && kd' == .dict && keysNodup cs && keysNodup cs' &&
        (akeys cs').all (fun k => ahas k cs) && permDBList cs cs'
    | _ => false
def permDBList : List (Key × Node) → List (Key × Node) → Bool
  | [], _ => true
  | (k, c) :: rest, cs' =>
    (match alookup k cs' with
      | some c' => permDB c c'
      | none => false) && permDBList rest cs'
end

mutual
theorem permDB_sound : ∀ (n n' : Node), permDB n n' = true → PermD n n'
  | .leaf f k, n', h => by
    cases n' with
    | leaf f' k' =>
      simp only [permDB, Bool.and_eq_true, decide_eq_true_eq] at h
      obtain ⟨rfl, rfl⟩ := h
      exact .leaf f k
    | comp f' kd' cs' => simp [permDB] at h
  | .comp f kd cs, n', h => by
    cases n' with
    | leaf f' k' => simp [permDB] at h
    | comp f' kd' cs' =>
      simp only [permDB, Bool.and_eq_true, decide_eq_true_eq, beq_iff_eq] at h
      obtain ⟨⟨⟨⟨⟨⟨rfl, rfl⟩, rfl⟩, h1⟩, h2⟩, h3⟩, h4⟩ := h
      refine .dict f h1 h2 ?_
      intro k
      have hl := permDBList_sound cs cs' h4
      cases hc : alookup k cs with
      | some c =>
        obtain ⟨c', hc', hr⟩ := hl k c (mem_of_alookup hc)
        rw [hc']
        exact .some hr
      | none =>
        cases hc' : alookup k cs' with
        | none => exact .none
        | some c' =>
          have hm : k ∈ akeys cs' := mem_akeys_of_mem (mem_of_alookup hc')
          have := List.all_eq_true.1 h3 k hm
          simp [ahas, hc] at this
theorem permDBList_sound : ∀ (cs cs' : List (Key × Node)), permDBList cs cs' = true →
    ∀ k c, (k, c) ∈ cs → ∃ c', alookup k cs' = some c' ∧ PermD c c'
  | [], _, _, k, c, hm => by cases hm
  | (k0, c0) :: rest, cs', h, k, c, hm => by
    simp only [permDBList, Bool.and_eq_true] at h
    rcases List.mem_cons.1 hm with heq | hm
    · injection heq with e1 e2
      subst e1; subst e2
      cases hc' : alookup k cs' with
      | none => simp [hc'] at h
      | some c' =>
        simp only [hc'] at h
        exact ⟨c', rfl, permDB_sound c c' h.1⟩
    · exact permDBList_sound rest cs' h.2 k c hm
end

/-! ### the "children of mappings permuted" relation -/

theorem alookup_assocRel {R : Node → Node → Prop} {cs cs' : List (Key × Node)} (h : AssocRel R cs cs') (k : Key) :
    OptRel R (alookup k cs) (alookup k cs') := by
  induction h with
  | nil => exact .none
  | @cons k0 v v' l l' hr _ ih =>
    by_cases e : k0 = k
    · simp only [alookup, e, if_true]; exact .some hr
    · simp only [alookup, e, if_false]; exact ih

theorem alookup_perm {α : Type} {l l' : List (Key × α)} (hp : l.Perm l') (h1 : keysNodup l = true)
    (h2 : keysNodup l' = true) (k : Key) : alookup k l = alookup k l' := by
  cases hc : alookup k l with
  | some v =>
    have := hp.mem_iff.1 (mem_of_alookup hc)
    exact (alookup_of_mem h2 this).symm
  | none =>
    cases hc' : alookup k l' with
    | none => rfl
    | some v' =>
      have := hp.mem_iff.2 (mem_of_alookup hc')
      rw [alookup_of_mem h1 this] at hc
      cases hc

theorem akeys_assocRel {R : Node → Node → Prop} {cs cs' : List (Key × Node)} (h : AssocRel R cs cs') :
    akeys cs = akeys cs' := by
  induction h with
  | nil => rfl
  | cons _ _ ih => simp [akeys, ih]

/-- on the domain, `PermTree` (same flags, the entries of `.dict` mappings listed in another order, at
    any depth) implies `PermD` -/
theorem PermTree.toPermD : ∀ (d : Nat) (n n' : Node), n.depth ≤ d → PermTree n n' → dictTree n = true →
    dictTree n' = true → PermD n n' := by
  intro d
  induction d with
  | zero =>
    intro n n' hd h _ _
    cases h with
    | leaf f k => exact .leaf f k
    | comp f k _ => simp [Node.depth] at hd
    | dict f _ _ => simp [Node.depth] at hd
  | succ d ih =>
    intro n n' hd h ht ht'
    cases h with
    | leaf f k => exact .leaf f k
    | comp f k hk =>
      rename_i cs cs'
      obtain ⟨rfl, h1, hl⟩ := dictTree_comp ht
      obtain ⟨_, h2, hl'⟩ := dictTree_comp ht'
      refine .dict f h1 h2 ?_
      intro key
      have := alookup_assocRel hk key
      cases hc : alookup key cs with
      | none => rw [hc] at this; rw [this.noneL]; exact .none
      | some c =>
        rw [hc] at this
        obtain ⟨c', hc', hr⟩ := this.someL
        rw [hc']
        have hdc : c.depth ≤ d := by
          have := depthList_lookup key cs c hc
          simp only [Node.depth] at hd; omega
        exact .some (ih c c' hdc hr (dictTreeList_lookup cs hl key c hc) (dictTreeList_lookup cs' hl' key c' hc'))
    | dict f hk hp =>
      rename_i cs mid cs'
      obtain ⟨_, h1, hl⟩ := dictTree_comp ht
      obtain ⟨_, h2, hl'⟩ := dictTree_comp ht'
      have hmid : keysNodup mid = true := by
        rw [← keysNodup_congr cs mid (akeys_assocRel hk)]; exact h1
      refine .dict f h1 h2 ?_
      intro key
      have := alookup_assocRel hk key
      rw [alookup_perm hp hmid h2 key] at this
      cases hc : alookup key cs with
      | none => rw [hc] at this; rw [this.noneL]; exact .none
      | some c =>
        rw [hc] at this
        obtain ⟨c', hc', hr⟩ := this.someL
        rw [hc']
        have hdc : c.depth ≤ d := by
          have := depthList_lookup key cs c hc
          simp only [Node.depth] at hd; omega
        exact .some (ih c c' hdc hr (dictTreeList_lookup cs hl key c hc) (dictTreeList_lookup cs' hl' key c' hc'))

/-! ### the builder's fold on stages of mappings and scalars -/

/-- the left fold of `merge` -/
def mergeFold : Node → List Node → Except Err Node
  | root, [] => .ok root
  | root, st :: rest =>
    match merge root st with
    | .error e => .error e
    | .ok r => mergeFold r rest

theorem mergeFold_append (root : Node) (xs ys : List Node) :
    mergeFold root (xs ++ ys) = match mergeFold root xs with
      | .error e => .error e
      | .ok r => mergeFold r ys := by
  induction xs generalizing root with
  | nil => rfl
  | cons x rest ih =>
    simp only [List.cons_append, mergeFold]
    cases merge root x with
    | error e => rfl
    | ok r => exact ih r

/-- a stage of the domain: a mapping of mappings and scalars with distinct keys -/
def Stage (n : Node) : Prop := dataT n = true ∧ dictTree n = true ∧ n.isDict = true

theorem flattenLoop_fold {F : Nat} : ∀ (stages : List Node) (root : Node),
    (∀ st, st ∈ stages → dataT st = true ∧ st.depth < F) →
    flattenLoop (premergeF F) root stages = mergeFold root stages
  | [], _, _ => rfl
  | st :: rest, root, h => by
    obtain ⟨h1, h2⟩ := h st (by simp)
    simp only [flattenLoop, mergeFold, premergeF_dataT F st [] (some root) h1 h2]
    cases merge root st with
    | error e => rfl
    | ok r => exact flattenLoop_fold rest r (fun x hx => h x (List.mem_cons_of_mem _ hx))

theorem flatten_fold (s0 : Node) (rest : List Node) (h : ∀ st, st ∈ s0 :: rest → Stage st) :
    flatten (s0 :: rest) = match reqNew [] [] s0 with
      | some p => .error (.notnew p)
      | none => mergeFold s0 rest := by
  have hall : (s0 :: rest).all Node.isDict = true := by
    rw [List.all_eq_true]; intro x hx; exact (h x hx).2.2
  have hf : ∀ st, st ∈ s0 :: rest → dataT st = true ∧ st.depth < stagesFuel (s0 :: rest) :=
    fun st hst => ⟨(h st hst).1, depth_lt_stagesFuel hst⟩
  obtain ⟨h1, h2⟩ := hf s0 (by simp)
  simp only [flatten, flattenWith, hall, Bool.not_true, Bool.false_eq_true, if_false,
    premergeF_dataT _ s0 [] none h1 h2]
  cases reqNew [] [] s0 with
  | some p => rfl
  | none => exact flattenLoop_fold rest s0 (fun st hst => hf st (List.mem_cons_of_mem _ hst))

/-! ### key order and the fold -/

theorem merge_perm {s s' o o' r : Node} (hs : PermD s s') (ho : PermD o o') (h : merge s o = .ok r) :
    ∃ r', merge s' o' = .ok r' ∧ PermD r r' := by
  simp only [merge] at h ⊢
  rw [ho.depth_eq]
  cases hm : mergeF (o.depth + 1) s o with
  | error e => simp [hm] at h
  | ok res =>
    obtain ⟨r0, b⟩ := res
    simp only [hm, Except.ok.injEq] at h
    subst h
    obtain ⟨r', hr', hrr⟩ := mergeF_perm _ s s' o o' r0 b hs ho hm
    simp only [hr']
    exact ⟨r', rfl, hrr⟩

theorem mergeFold_perm : ∀ {rest rest' : List Node} {root root' r : Node}, ListRel PermD rest rest' →
    PermD root root' → mergeFold root rest = .ok r → ∃ r', mergeFold root' rest' = .ok r' ∧ PermD r r' := by
  intro rest rest' root root' r hl
  induction hl generalizing root root' r with
  | nil =>
    intro hr h
    simp only [mergeFold, Except.ok.injEq] at h ⊢
    subst h
    exact ⟨root', rfl, hr⟩
  | cons hv _ ih =>
    intro hr h
    simp only [mergeFold] at h ⊢
    rename_i v v' l l' _
    cases hm : merge root v with
    | error e => simp [hm] at h
    | ok r1 =>
      simp only [hm] at h
      obtain ⟨r1', hm', hrr⟩ := merge_perm hr hv hm
      simp only [hm']
      exact ih hrr h

theorem ListRel_mem_left {R : Node → Node → Prop} {l l' : List Node} (h : ListRel R l l') {v : Node} (hm : v ∈ l) :
    ∃ v', v' ∈ l' ∧ R v v' := by
  induction h with
  | nil => cases hm
  | cons hr _ ih =>
    rcases List.mem_cons.1 hm with e | hm
    · subst e; exact ⟨_, List.mem_cons_self, hr⟩
    · obtain ⟨v', hv', hr'⟩ := ih hm
      exact ⟨v', List.mem_cons_of_mem _ hv', hr'⟩

theorem ListRel_mem_right {R : Node → Node → Prop} {l l' : List Node} (h : ListRel R l l') {v' : Node} (hm : v' ∈ l') :
    ∃ v, v ∈ l ∧ R v v' := by
  induction h with
  | nil => cases hm
  | cons hr _ ih =>
    rcases List.mem_cons.1 hm with e | hm
    · subst e; exact ⟨_, List.mem_cons_self, hr⟩
    · obtain ⟨v, hv, hr'⟩ := ih hm
      exact ⟨v, List.mem_cons_of_mem _ hv, hr'⟩

theorem ListRel_symm_PermD : ∀ {l l' : List Node}, ListRel PermD l l' → ListRel PermD l' l := by
  intro l l' h
  induction h with
  | nil => exact .nil
  | cons hr _ ih => exact .cons hr.symm ih

/-- two sequences of stages that are position by position equal up to the order of keys -/
theorem flatten_perm {stages stages' : List Node} (hl : ListRel PermD stages stages')
    (hd : ∀ st, st ∈ stages → dataT st = true ∧ st.isDict = true) (r : Node) (h : flatten stages = .ok r) :
    ∃ r', flatten stages' = .ok r' ∧ PermD r r' := by
  cases hl with
  | nil => simp [flatten, flattenWith] at h
  | cons h0 hrest =>
    rename_i s0 s0' rest rest'
    have hst : ∀ st, st ∈ s0 :: rest → Stage st := by
      intro st hm
      refine ⟨(hd st hm).1, ?_, (hd st hm).2⟩
      rcases List.mem_cons.1 hm with e | hm'
      · subst e; exact h0.dictTree_left
      · obtain ⟨v', _, hr⟩ := ListRel_mem_left hrest hm'
        exact hr.dictTree_left
    have hst' : ∀ st, st ∈ s0' :: rest' → Stage st := by
      intro st' hm
      have key : ∃ st, st ∈ s0 :: rest ∧ PermD st st' := by
        rcases List.mem_cons.1 hm with e | hm'
        · subst e; exact ⟨s0, by simp, h0⟩
        · obtain ⟨v, hv, hr⟩ := ListRel_mem_right hrest hm'
          exact ⟨v, List.mem_cons_of_mem _ hv, hr⟩
      obtain ⟨st, hm0, hr⟩ := key
      refine ⟨hr.dataT (hd st hm0).1, hr.dictTree_right, ?_⟩
      have := (hd st hm0).2
      cases hr with
      | leaf f k => exact this
      | dict f _ _ _ => rfl
    rw [flatten_fold s0 rest hst] at h
    rw [flatten_fold s0' rest' hst']
    cases hq : reqNew [] [] s0 with
    | some p => simp [hq] at h
    | none =>
      simp only [hq] at h
      rw [(h0.reqNew_none [] []).1 hq]
      exact mergeFold_perm hrest h0 h

/-! ### repeating the last stage -/

/-- a stage of the domain of the idempotence clause -/
def StageN (n : Node) : Prop := Stage n ∧ NN n = true

theorem StageN.dom {n : Node} (h : StageN n) : Dom n := ⟨h.1.2.1, h.2⟩

theorem merge_dom {a v m : Node} (ha : Dom a) (hv : Dom v) (h : merge a v = .ok m) : Dom m := by
  simp only [merge] at h
  cases hm : mergeF (v.depth + 1) a v with
  | error e => simp [hm] at h
  | ok res =>
    obtain ⟨r0, b⟩ := res
    simp only [hm, Except.ok.injEq] at h
    subst h
    exact mergeF_dom ha hv hm

theorem mergeFold_dom : ∀ (rest : List Node) (root r : Node), Dom root → (∀ st, st ∈ rest → Dom st) →
    mergeFold root rest = .ok r → Dom r
  | [], root, r, hr, _, h => by
    simp only [mergeFold, Except.ok.injEq] at h
    subst h; exact hr
  | st :: rest, root, r, hr, hs, h => by
    simp only [mergeFold] at h
    cases hm : merge root st with
    | error e => simp [hm] at h
    | ok r1 =>
      simp only [hm] at h
      exact mergeFold_dom rest r1 r (merge_dom hr (hs st (by simp)) hm)
        (fun x hx => hs x (List.mem_cons_of_mem _ hx)) h

theorem merge_idem {s o r : Node} (hs : Dom s) (ho : Dom o) (hni : noIdiom o = true) (h : merge s o = .ok r) :
    ∃ r2, merge r o = .ok r2 ∧ PermC r r2 := by
  simp only [merge] at h ⊢
  cases hm : mergeF (o.depth + 1) s o with
  | error e => simp [hm] at h
  | ok res =>
    obtain ⟨r0, b⟩ := res
    simp only [hm, Except.ok.injEq] at h
    subst h
    obtain ⟨r2, b2, h2, hrr⟩ := mergeF_idem (o.depth + 1) hs ho hni (Nat.lt_succ_self _) hm
    simp only [h2]
    exact ⟨r2, rfl, hrr⟩

/-- the fold with the last stage repeated -/
theorem flatten_repeat (stages : List Node) (d : Node) (hst : ∀ st, st ∈ stages ++ [d] → StageN st)
    (hni : noIdiom d = true) :
    (∀ r, flatten (stages ++ [d]) = .ok r → ∃ r2, flatten (stages ++ [d, d]) = .ok r2 ∧ PermC r r2) ∧
    (∀ e, flatten (stages ++ [d]) = .error e → flatten (stages ++ [d, d]) = .error e) := by
  have hdD : StageN d := hst d (by simp)
  have e2 : stages ++ [d, d] = (stages ++ [d]) ++ [d] := by simp
  rw [e2]
  cases hL : stages ++ [d] with
  | nil => simp at hL
  | cons s0 rest0 =>
    rw [hL] at hst
    have hS1 : ∀ st, st ∈ s0 :: rest0 → Stage st := fun st hm => (hst st hm).1
    have hS2 : ∀ st, st ∈ s0 :: (rest0 ++ [d]) → Stage st := by
      intro st hm
      rcases List.mem_cons.1 hm with e | hm'
      · subst e; exact (hst _ (by simp)).1
      · rcases List.mem_append.1 hm' with h1 | h1
        · exact (hst st (List.mem_cons_of_mem _ h1)).1
        · simp at h1; subst h1; exact hdD.1
    rw [List.cons_append, flatten_fold s0 rest0 hS1, flatten_fold s0 (rest0 ++ [d]) hS2, mergeFold_append]
    cases hq : reqNew [] [] s0 with
    | some p =>
      refine ⟨(fun r h => by cases h), fun e h => h⟩
    | none =>
      simp only
      cases hf : mergeFold s0 rest0 with
      | error e =>
        refine ⟨(fun r h => by cases h), fun e' h => h⟩
      | ok r =>
        simp only [mergeFold]
        refine ⟨?_, fun e h => by cases h⟩
        intro r1 h1
        injection h1 with h1
        subst h1
        cases stages with
        | nil =>
          simp only [List.nil_append, List.cons.injEq] at hL
          obtain ⟨rfl, rfl⟩ := hL
          simp only [mergeFold, Except.ok.injEq] at hf
          subst hf
          obtain ⟨m, b, hm, hmd⟩ := selfMerge (d.depth + 1) d d hdD.dom hdD.dom hni (Nat.lt_succ_self _) hdD.dom.refl
          simp only [merge, hm]
          exact ⟨m, rfl, hmd.symm⟩
        | cons x xs =>
          simp only [List.cons_append, List.cons.injEq] at hL
          obtain ⟨rfl, rfl⟩ := hL
          rw [mergeFold_append] at hf
          cases hf1 : mergeFold x xs with
          | error e => simp [hf1] at hf
          | ok r' =>
            simp only [hf1, mergeFold] at hf
            have hr'D : Dom r' := mergeFold_dom xs x r' (hst x (by simp)).dom
              (fun st hm => (hst st (by simp [hm])).dom) hf1
            cases hm : merge r' d with
            | error e => simp [hm] at hf
            | ok r1 =>
              simp only [hm, Except.ok.injEq] at hf
              subst hf
              obtain ⟨r2, h2, hrr⟩ := merge_idem hr'D hdD.dom hni hm
              simp only [h2]
              exact ⟨r2, rfl, hrr⟩

/-- … and the two folds fail together -/
theorem flatten_perm_error {stages stages' : List Node} (hl : ListRel PermD stages stages')
    (hd : ∀ st, st ∈ stages → dataT st = true ∧ st.isDict = true) (e : Err) (h : flatten stages = .error e) :
    ∃ e', flatten stages' = .error e' := by
  cases h' : flatten stages' with
  | error e' => exact ⟨e', rfl⟩
  | ok r' =>
    have hd' : ∀ st', st' ∈ stages' → dataT st' = true ∧ st'.isDict = true := by
      intro st' hm
      obtain ⟨st, hst, hr⟩ := ListRel_mem_right hl hm
      refine ⟨hr.dataT (hd st hst).1, ?_⟩
      have := (hd st hst).2
      cases hr with
      | leaf f k => exact this
      | dict f _ _ _ => rfl
    obtain ⟨r, hr, _⟩ := flatten_perm (ListRel_symm_PermD hl) hd' r' h'
    rw [h] at hr
    cases hr

/-! ### what `PermC` says path by path -/

/-- related trees have related nodes at every path: the same priority, the same explicit `delete`
    flag, the same data up to the order of keys -/
theorem PermC.getNode : ∀ (p : Path) {a b : Node}, PermC a b → ∀ {n : Node}, getNode a p = some n →
    ∃ n2, getNode b p = some n2 ∧ PermC n n2
  | [], a, b, h, n, hg => by
    simp only [AY.getNode, Option.some.injEq] at hg
    subst hg
    exact ⟨b, rfl, h⟩
  | key :: rest, .leaf .., _, _, _, hg => by simp [AY.getNode] at hg
  | key :: rest, .comp f k cs, b, h, n, hg => by
    obtain ⟨_, f', cs', rfl, _, _, _, h3⟩ := h.dict_inv
    simp only [AY.getNode] at hg ⊢
    have := h3 key
    cases hc : alookup key cs with
    | none => simp [hc] at hg
    | some c =>
      rw [hc] at this hg
      obtain ⟨c', hc', hr⟩ := this.someL
      simp only [hc']
      exact PermC.getNode rest hr hg

end AY.C15T
