/-
  AY.Lemmas.C08WholeNew — what a successful merge of a document with nested `!new` nodes creates:
  every path of the result that is not a path of the config is (another spelling of) a path at which
  the document has a node whose `allow_new` is on (`c08w_NewSub`).  `c08w_samePath n p p'`: the two
  paths address the same entries of `n`, component by component (`0` and `-len` in a list).
  First the final state of the key loop, key by key (`c08w_loop_final`).
-/
import AY.Lemmas.C08WholeMain
namespace AY

/-! ### two spellings of one path -/

/-- `p` and `p'` address the same entries of `n` at every step (and exist) -/
inductive c08w_samePath : Node → Path → Path → Prop
  | nil (n : Node) : c08w_samePath n [] []
  | cons {f : Flags} {sk : CompKind} {cs : List (Key × Node)} {key key' : Key} {c : Node} {q q' : Path} :
      c08w_slot sk cs.length key = c08w_slot sk cs.length key' → getChild sk key cs = some c →
      c08w_samePath c q q' → c08w_samePath (.comp f sk cs) (key :: q) (key' :: q')

theorem c08w_samePath_refl : ∀ (p : Path) (n : Node), c08w_has n p = true → c08w_samePath n p p
  | [], n, _ => .nil n
  | key :: q, .leaf f lk, h => by simp [c08w_has_leaf] at h
  | key :: q, .comp f sk cs, h => by
    rw [c08w_has_cons] at h
    cases hg : getChild sk key cs with
    | none => rw [hg] at h; cases h
    | some c => rw [hg] at h; exact .cons rfl hg (c08w_samePath_refl q c h)

theorem c08w_samePath_has {n : Node} {p p' : Path} (h : c08w_samePath n p p') : c08w_has n p = true := by
  induction h with
  | nil n => simp
  | cons _ hg _ ih => rw [c08w_has_cons, hg]; exact ih

/-- the top flags and the class (within its family) do not matter -/
theorem c08w_samePath_comp_congr {f f' : Flags} {sk sk' : CompKind} (hk : sk'.isDictFam = sk.isDictFam)
    {cs : List (Key × Node)} {p p' : Path} (h : c08w_samePath (.comp f sk cs) p p') :
    c08w_samePath (.comp f' sk' cs) p p' := by
  cases h with
  | nil _ => exact .nil _
  | cons hs hg hq =>
    refine .cons ?_ ?_ hq
    · simpa [c08w_slot, hk] using hs
    · simpa [getChild, hk] using hg

theorem c08w_samePath_applyKw : ∀ {p p' : Path} {n : Node} (kw : ChildKw), c08w_samePath n p p' →
    c08w_samePath (applyKw kw n) p p'
  | _, _, n, kw, .nil _ => .nil _
  | _, _, .comp f sk cs, kw, .cons (key := key) (c := c) (q := q) (q' := q') hs hg hq => by
    simp only [applyKw]
    split
    · split
      · exact c08w_samePath_comp_congr (f := f) rfl (.cons hs hg hq)
      · rename_i kw' _
        refine .cons ?_ ?_ (c08w_samePath_applyKw kw' hq)
        · rw [c08w_length_applyKwList]; exact hs
        · rw [c08w_getChild_applyKwList, hg]; rfl
    · exact .cons hs hg hq

theorem c08w_samePath_propagate {n : Node} {p p' : Path} (h : c08w_samePath n p p') :
    c08w_samePath (propagate n) p p' := by
  cases h with
  | nil _ => exact .nil _
  | cons hs hg hq =>
    rename_i f sk cs key key' c q q'
    simp only [propagate]
    split
    · exact .cons hs hg hq
    · rename_i kw _
      refine .cons ?_ ?_ (c08w_samePath_applyKw kw hq)
      · rw [c08w_length_applyKwList]; exact hs
      · rw [c08w_getChild_applyKwList, hg]; rfl

theorem c08w_samePath_setFlags {n : Node} {p p' : Path} (f : Flags) (h : c08w_samePath n p p') :
    c08w_samePath (n.setFlags f) p p' := by
  cases h with
  | nil _ => exact .nil _
  | cons hs hg hq => exact .cons hs hg hq

theorem c08w_samePath_adopt {n : Node} {p p' : Path} (pf : Flags) (pk : CompKind) (h : c08w_samePath n p p') :
    c08w_samePath (adopt pf pk n) p p' := by
  unfold adopt inheritInto
  apply c08w_samePath_propagate
  cases childKw pf pk with
  | none => exact h
  | some kw => exact c08w_samePath_propagate (c08w_samePath_setFlags _ h)

/-! ### paths of a document are its nodes -/

theorem c08w_get_doc : ∀ (q : Path) {inh : Option Bool} (o m : Node), c08w_doc inh o = true →
    c08w_get o q = some m → c08_nodeAt o q m
  | [], _, o, m, _, h => by simp only [c08w_get, Option.some.injEq] at h; subst h; exact .root _
  | key :: q, _, .leaf f lk, m, _, h => by simp [c08w_get] at h
  | key :: q, inh, .comp f k cs, m, ho, h => by
    obtain ⟨_, _, hk, hcs⟩ := c08w_doc_comp ho
    subst hk
    rw [c08w_get_cons] at h
    cases hg : getChild .dict key cs with
    | none => rw [hg] at h; cases h
    | some c =>
      rw [hg] at h
      have hl : alookup key cs = some c := by simpa [getChild, CompKind.isDictFam] using hg
      have hmem := c08_mem_of_alookup key cs c hl
      exact .child hmem (c08w_get_doc q c m (c08w_docL_mem hcs _ hmem) h)

/-! ### the final state of the key loop -/

/-- the entry left by the iteration for `(k, o)`, in terms of the original children `scs` -/
def c08w_StepRes (rec : Node → Node → Except Err (Node × Bool)) (sf : Flags) (sk : CompKind)
    (scs : List (Key × Node)) (k : Key) (o : Node) (c' : Node) : Prop :=
  (getChild sk k scs = none ∧ reqNew [] [] o = none ∧ c' = adopt sf sk o) ∨
  (∃ child nw same, getChild sk k scs = some child ∧ rec child o = .ok (nw, same) ∧
      (c' = nw ∨ c' = adopt sf sk nw) ∧ (child.isComp = false → same = false → reqNewBelow nw = none))

theorem c08w_loop_final {rec : Node → Node → Except Err (Node × Bool)} (hl : c08w_RecLeaf rec)
    {sf : Flags} {sk : CompKind} {scs : List (Key × Node)} :
    ∀ (rest acc acc' : List (Key × Node)),
      (sk.isDictFam = true ∨ (listKeys 0 scs = true ∧
          ∀ kv ∈ rest, (validateIndex scs.length true kv.1).isSome = true)) →
      c08w_slotsNodup sk scs.length rest = true →
      (∀ kv ∈ rest, kv.2.flags.del ≠ some true) →
      (sk.isDictFam = true ∨ acc.length = scs.length) →
      (∀ kv ∈ rest, getChild sk kv.1 acc = getChild sk kv.1 scs) →
      mergeLoop rec sf sk [] acc rest = .ok acc' →
      (sk.isDictFam = true ∨ acc'.length = scs.length) ∧
      ∀ key c', getChild sk key acc' = some c' →
        getChild sk key acc = some c' ∨
        ∃ kv ∈ rest, c08w_slot sk scs.length key = c08w_slot sk scs.length kv.1 ∧
          c08w_StepRes rec sf sk scs kv.1 kv.2 c'
  | [], acc, acc', _, _, _, hlen, _, h => by
    simp only [mergeLoop, Except.ok.injEq] at h
    subst h
    exact ⟨hlen, fun key c' hc => .inl hc⟩
  | (k, o) :: rest, acc, acc', hvalid, hnd, hdel, hlen, hinv, h => by
    obtain ⟨hnd', hslots⟩ := c08w_slotsNodup_cons hnd
    have hd : o.flags.del ≠ some true := hdel (k, o) (by simp)
    have hg0 : getChild sk k acc = getChild sk k scs := hinv (k, o) (by simp)
    simp only [mergeLoop] at h
    cases hs : mergeStep rec sf sk [] acc (k, o) with
    | error e => rw [hs] at h; cases h
    | ok acc1 =>
      rw [hs] at h
      simp only at h
      have hvalid' : sk.isDictFam = true ∨ (listKeys 0 scs = true ∧
          ∀ kv ∈ rest, (validateIndex scs.length true kv.1).isSome = true) := by
        rcases hvalid with h' | ⟨h1, h2⟩
        · exact .inl h'
        · exact .inr ⟨h1, fun kv hkv => h2 kv (List.mem_cons_of_mem _ hkv)⟩
      -- the slots are taken with respect to the original length
      have hslotlen : ∀ key, c08w_slot sk acc.length key = c08w_slot sk scs.length key := by
        intro key
        rcases hlen with hsk | hl'
        · rw [c08w_slot_dict hsk, c08w_slot_dict hsk]
        · rw [hl']
      -- what this step does to every entry
      have hthis : (sk.isDictFam = true ∨ acc1.length = scs.length) ∧
          (∀ key, c08w_slot sk scs.length key ≠ c08w_slot sk scs.length k →
            getChild sk key acc1 = getChild sk key acc) ∧
          (∀ key c', c08w_slot sk scs.length key = c08w_slot sk scs.length k →
            getChild sk key acc1 = some c' → c08w_StepRes rec sf sk scs k o c') := by
        rcases c08w_step_ok_shape hl hd hs with ⟨hg, hr0, hset⟩ | ⟨child, nw, same, K, hg, hr, hK, hlK, hacc, hleaf⟩
        · -- a new key: only in a mapping
          have hsk : sk.isDictFam = true := by
            rcases hvalid with h' | ⟨hnum, hval⟩
            · exact h'
            · cases hskd : sk.isDictFam with
              | true => rfl
              | false =>
                obtain ⟨c, hc⟩ := c08w_getChild_valid hskd hnum (hval (k, o) (by simp))
                rw [hg0] at hg; rw [hg] at hc; cases hc
          simp only [setChild, hsk, if_true, Except.ok.injEq] at hset
          subst hset
          refine ⟨.inl hsk, fun key hne => ?_, fun key c' he hc => ?_⟩
          · rw [c08w_slot_dict hsk, c08w_slot_dict hsk] at hne
            simp only [getChild, hsk, if_true, alookup_aset]
            rw [if_neg]
            intro e; exact hne (by rw [e])
          · rw [c08w_slot_dict hsk, c08w_slot_dict hsk] at he
            injection he with he
            subst he
            simp only [getChild, hsk, if_true, alookup_aset, if_true, Option.some.injEq] at hc
            exact .inl ⟨hg0 ▸ hg, hr0, hc.symm⟩
        · have hl1 : ∀ v, (aset K v acc).length = acc.length := fun v => c08w_length_aset hlK
          have hKs : c08w_slot sk scs.length k = some K := by rw [← hslotlen]; exact hK
          have hall : ∀ v, (acc1 = aset K v acc) →
              (sk.isDictFam = true ∨ acc1.length = scs.length) ∧
              (∀ key, c08w_slot sk scs.length key ≠ c08w_slot sk scs.length k →
                getChild sk key acc1 = getChild sk key acc) ∧
              (∀ key c', c08w_slot sk scs.length key = c08w_slot sk scs.length k →
                getChild sk key acc1 = some c' → c' = v) := by
            intro v e
            subst e
            refine ⟨?_, fun key hne => ?_, fun key c' he hc => ?_⟩
            · rcases hlen with h' | h'
              · exact .inl h'
              · exact .inr (by rw [hl1, h'])
            · rw [c08w_getChild_aset sk key K v child acc hlK, if_neg]
              rw [hslotlen, ← hKs]; exact hne
            · rw [c08w_getChild_aset sk key K v child acc hlK, if_pos (by rw [hslotlen, he, hKs])] at hc
              injection hc with hc; exact hc.symm
          rcases hacc with e | e
          · obtain ⟨h1, h2, h3⟩ := hall _ e
            exact ⟨h1, h2, fun key c' he hc => .inr ⟨child, nw, same, hg0 ▸ hg, hr, .inl (h3 key c' he hc), hleaf⟩⟩
          · obtain ⟨h1, h2, h3⟩ := hall _ e
            exact ⟨h1, h2, fun key c' he hc => .inr ⟨child, nw, same, hg0 ▸ hg, hr, .inr (h3 key c' he hc), hleaf⟩⟩
      obtain ⟨hlen1, hframe, hres⟩ := hthis
      have hinv1 : ∀ kv ∈ rest, getChild sk kv.1 acc1 = getChild sk kv.1 scs := by
        intro kv hkv
        have hne : c08w_slot sk scs.length kv.1 ≠ c08w_slot sk scs.length k := by
          cases hsk : c08w_slot sk scs.length k with
          | none =>
            -- impossible: the key addressed something or is a mapping key
            exfalso
            rcases hvalid with h' | ⟨_, hval⟩
            · rw [c08w_slot_dict h'] at hsk; cases hsk
            · have := hval (k, o) (by simp)
              cases hskd : sk.isDictFam with
              | true => rw [c08w_slot_dict hskd] at hsk; cases hsk
              | false =>
                simp only [c08w_slot, hskd, Bool.false_eq_true, if_false] at hsk
                cases hv : validateIndex scs.length true k with
                | none => rw [hv] at this; cases this
                | some i => rw [hv] at hsk; cases hsk
          | some s => exact hslots s hsk kv hkv
        rw [hframe kv.1 hne]
        exact hinv kv (List.mem_cons_of_mem _ hkv)
      obtain ⟨hlenF, hfin⟩ := c08w_loop_final hl rest acc1 acc' hvalid' hnd'
        (fun kv hkv => hdel kv (List.mem_cons_of_mem _ hkv)) hlen1 hinv1 h
      refine ⟨hlenF, fun key c' hc => ?_⟩
      rcases hfin key c' hc with h1 | ⟨kv, hkv, he, hsr⟩
      · by_cases hk : c08w_slot sk scs.length key = c08w_slot sk scs.length k
        · exact .inr ⟨(k, o), by simp, hk, hres key c' hk h1⟩
        · left; rw [← hframe key hk]; exact h1
      · exact .inr ⟨kv, List.mem_cons_of_mem _ hkv, he, hsr⟩

/-! ### what is created -/

/-- every path of `r` is a path of `a` or (a spelling of) a path where `b` has a node with `allow_new` on -/
def c08w_NewSub (a b r : Node) : Prop :=
  ∀ p, c08w_has r p = true → c08w_has a p = true ∨
    ∃ p' m, c08_nodeAt b p' m ∧ eNew m.flags = true ∧ c08w_samePath r p p'

theorem c08w_has_of_get {n m : Node} {q : Path} (h : c08w_get n q = some m) : c08w_has n q = true := by
  simp [c08w_has, h]

/-- the entry written by one key creates only what the document allows -/
theorem c08w_stepRes_new {rec : Node → Node → Except Err (Node × Bool)} (hl : c08w_RecLeaf rec)
    {sf : Flags} {sk : CompKind} {scs : List (Key × Node)} {inh : Option Bool} {k : Key} {o c' : Node}
    (ho : c08w_doc inh o = true)
    (hrec : ∀ child r s, getChild sk k scs = some child → child.isComp = true → rec child o = .ok (r, s) →
      c08w_NewSub child o r)
    (h : c08w_StepRes rec sf sk scs k o c') :
    ∀ q, c08w_has c' q = true →
      (∃ child, getChild sk k scs = some child ∧ c08w_has child q = true) ∨
      ∃ q' m, c08_nodeAt o q' m ∧ eNew m.flags = true ∧ c08w_samePath c' q q' := by
  intro q hq
  rcases h with ⟨_, hr0, rfl⟩ | ⟨child, nw, same, hg, hr, hc', hleaf⟩
  · right
    rw [c08w_has_adopt] at hq
    cases hgq : c08w_get o q with
    | none => simp [c08w_has, hgq] at hq
    | some m =>
      have hn := c08w_get_doc q o m ho hgq
      refine ⟨q, m, hn, ?_, c08w_samePath_adopt sf sk (c08w_samePath_refl q o hq)⟩
      rcases (c08_reqNew_none_iff [] [] o).1 hr0 q m hn with h | h
      · exact h
      · cases h
  · have hq' : c08w_has nw q = true := by
      rcases hc' with e | e <;> subst e
      · exact hq
      · rwa [c08w_has_adopt] at hq
    have hsp : ∀ q', c08w_samePath nw q q' → c08w_samePath c' q q' := by
      intro q' hsp
      rcases hc' with e | e <;> subst e
      · exact hsp
      · exact c08w_samePath_adopt sf sk hsp
    cases child with
    | comp cf ck ccs =>
      rcases hrec _ nw same hg rfl hr q hq' with h | ⟨q', m, h1, h2, h3⟩
      · exact .inl ⟨_, hg, h⟩
      · exact .inr ⟨q', m, h1, h2, hsp q' h3⟩
    | leaf cf clk =>
      have hlr := hl cf clk o _ _ hr
      cases same with
      | true =>
        left
        refine ⟨_, hg, ?_⟩
        exact c08w_leafRule_same_sub hlr q hq'
      | false =>
        have hnw := (c08w_leafRule_other_del hlr).1
        have hb := hleaf rfl rfl
        cases q with
        | nil => exact .inl ⟨_, hg, by simp⟩
        | cons k2 q2 =>
          right
          have hoq : c08w_has o (k2 :: q2) = true := by
            rw [hnw, c08w_has_propagate, c08w_has_setFlags] at hq'; exact hq'
          cases o with
          | leaf fo lko => simp [c08w_has_leaf] at hoq
          | comp fo ko oocs =>
            obtain ⟨_, _, hk, hoocs⟩ := c08w_doc_comp ho
            subst hk
            simp only [Node.setFlags, Node.flags] at hnw
            rw [hnw, c08w_reqNewBelow_propagate _ _
              (by simpa [c08w_replaceOtherFlags_new, c08w_replaceOtherFlags_iNew] using hoocs)] at hb
            cases hgq : c08w_get (.comp fo .dict oocs) (k2 :: q2) with
            | none => simp [c08w_has, hgq] at hoq
            | some m =>
              have hn := c08w_get_doc (k2 :: q2) _ m ho hgq
              obtain ⟨c2, hm2, hq2⟩ := c08w_nodeAt_cons hn
              have := (c08w_reqNewList_none_iff [] [] oocs).1 hb (k2, c2) hm2
              refine ⟨k2 :: q2, m, hn, ?_, hsp _ (c08w_samePath_refl _ _ hq')⟩
              rcases (c08_reqNew_none_iff [] _ c2).1 this q2 m hq2 with h | h
              · exact h
              · cases h

theorem c08w_compMerge_new {rec : Node → Node → Except Err (Node × Bool)} (hl : c08w_RecLeaf rec)
    {sf : Flags} {sk : CompKind} {scs : List (Key × Node)} {of : Flags} {ocs : List (Key × Node)}
    {inh : Option Bool} {r : Node} {s : Bool} (hnd : c08w_nd of = true) (hocs : c08w_docL inh ocs = true)
    (hna : c08w_noAlias (.comp sf sk scs) (.comp of .dict ocs) = true)
    (hvalid : sk.isDictFam = true ∨ (listKeys 0 scs = true ∧ listKeysValid scs.length ocs = true))
    (hrec : ∀ kv ∈ ocs, ∀ c r s, getChild sk kv.1 scs = some c → c.isComp = true →
      c08w_noAlias c kv.2 = true → rec c kv.2 = .ok (r, s) → c08w_NewSub c kv.2 r)
    (h : compMerge rec sf sk scs (.comp of .dict ocs) = .ok (r, s)) :
    c08w_NewSub (.comp sf sk scs) (.comp of .dict ocs) r := by
  obtain ⟨hsn, hnl⟩ := c08w_noAlias_comp hna
  rw [c08w_compMerge_dict rec sf sk scs ocs hnd] at h
  split at h
  · cases h
  · rename_i scs' hloop
    have hv : sk.isDictFam = true ∨ (listKeys 0 scs = true ∧
        ∀ kv ∈ ocs, (validateIndex scs.length true kv.1).isSome = true) := by
      rcases hvalid with h | ⟨h1, h2⟩
      · exact .inl h
      · exact .inr ⟨h1, c08w_listKeysValid_mem h2⟩
    obtain ⟨hlenF, hfin⟩ := c08w_loop_final (sf := sf) hl ocs scs scs' hv hsn (c08w_docL_del hocs) (.inr rfl)
      (fun _ _ => rfl) hloop
    obtain ⟨F, hF⟩ := c08w_finishMerge_dict sf sk scs' of ocs
    rw [hF] at h
    injection h with h
    injection h with h _
    subst h
    have hslotlen : ∀ key, c08w_slot sk scs'.length key = c08w_slot sk scs.length key := by
      intro key
      rcases hlenF with hsk | hl'
      · rw [c08w_slot_dict hsk, c08w_slot_dict hsk]
      · rw [hl']
    intro p hp
    cases p with
    | nil => exact .inl (by simp)
    | cons key q =>
      rw [c08w_has_propagate, c08w_has_cons] at hp
      cases hg : getChild sk key scs' with
      | none => rw [hg] at hp; cases hp
      | some c' =>
        rw [hg] at hp
        simp only at hp
        rcases hfin key c' hg with h1 | ⟨kv, hkv, he, hsr⟩
        · left; rw [c08w_has_cons, h1]; exact hp
        · obtain ⟨k, o⟩ := kv
          have hgk : getChild sk key scs = getChild sk k scs := by
            rw [c08w_getChild_slot, c08w_getChild_slot, he]
          rcases c08w_stepRes_new hl (c08w_docL_mem hocs _ hkv)
              (fun child r' s' hgc hc hr => hrec _ hkv child r' s' hgc hc (c08w_noAliasL_mem hnl _ hkv child hgc) hr)
              hsr q hp with ⟨child, hgc, hh⟩ | ⟨q', m, h1, h2, h3⟩
          · left; rw [c08w_has_cons, hgk, hgc]; exact hh
          · right
            refine ⟨k :: q', m, .child hkv h1, h2, ?_⟩
            apply c08w_samePath_propagate
            exact .cons (by rw [hslotlen, hslotlen]; exact he) hg h3

/-- the fuel-indexed statement -/
theorem c08w_mergeF_new : ∀ (n : Nat) (a b : Node) (inh : Option Bool) (r : Node) (s : Bool),
    KI.Keyed a = true → a.isComp = true → c08w_top inh b = true → c08w_noAlias a b = true →
    mergeF n a b = .ok (r, s) → c08w_NewSub a b r
  | 0, _, _, _, _, _, _, _, _, _, h => by simp [mergeF] at h
  | n + 1, a, b, inh, r, s, hka, hac, hb, hna, h => by
    have hl := c08w_recLeaf_mergeF n
    cases a with
    | leaf f lk => cases hac
    | comp sf sk scs =>
      have hcs : KI.CS sk scs := (KI.keyed_comp _ _ _).1 hka
      cases b with
      | leaf fb lkb =>
        -- a leaf creates nothing
        have hsub : c08w_sub r (.comp sf sk scs) :=
          c08w_mergeF_sub (n + 1) _ _ none r s rfl (by simpa [c08w_top] using hb) rfl h
        exact fun p hp => .inl (hsub p hp)
      | comp of ok ocs =>
        obtain ⟨hnd, hk, hocs⟩ := c08w_top_comp hb
        subst hk
        have hrec : ∀ kv ∈ ocs, ∀ c r s, getChild sk kv.1 scs = some c → c.isComp = true →
            c08w_noAlias c kv.2 = true → mergeF n c kv.2 = .ok (r, s) → c08w_NewSub c kv.2 r := by
          intro kv hkv c r' s' hg hc hnac hr
          exact c08w_mergeF_new n c kv.2 _ r' s' (KI.getChild_keyed hcs.2 hg) hc
            (c08w_top_of_doc (c08w_docL_mem hocs kv hkv)) hnac hr
        have hcm : ∀ (hv : sk.isDictFam = true ∨ (listKeys 0 scs = true ∧ listKeysValid scs.length ocs = true)),
            compMerge (mergeF n) sf sk scs (.comp of .dict ocs) = .ok (r, s) →
            c08w_NewSub (.comp sf sk scs) (.comp of .dict ocs) r :=
          fun hv h' => c08w_compMerge_new hl hnd hocs hna hv hrec h'
        have hlm : sk.isDictFam = false → listMerge (mergeF n) sf sk scs (.comp of .dict ocs) = .ok (r, s) →
            c08w_NewSub (.comp sf sk scs) (.comp of .dict ocs) r := by
          intro hsk h'
          simp only [listMerge] at h'
          split at h'
          · cases h'
          · rename_i hcond
            rw [c08w_filter_top _ hb] at h'
            have hv : listKeysValid scs.length ocs = true := by
              simp only [CompKind.isDictFam, c08w_eDel_top hb, Bool.not_false, Bool.true_and,
                Bool.not_eq_true', Bool.not_eq_false] at hcond
              exact hcond
            exact hcm (.inr ⟨c08w_listKeys_of_CS hcs hsk, hv⟩) h'
        cases sk with
        | dict => exact hcm (.inl rfl) (by simpa only [mergeF] using h)
        | call g => exact hcm (.inl rfl) (by simpa only [mergeF, funcMerge, CompKind.func?] using h)
        | bind g => exact hcm (.inl rfl) (by simpa only [mergeF, funcMerge, CompKind.func?] using h)
        | list => exact hlm rfl (by simpa only [mergeF] using h)
        | append => exact hlm rfl (by simpa only [mergeF] using h)
        | extend => exact hlm rfl (by simpa only [mergeF] using h)
        | path p => exact hlm rfl (by simpa only [mergeF] using h)
        | stream => exact hlm rfl (by simpa only [mergeF] using h)

end AY
