/-
  AY.Lemmas.C03FuncNorm — the other spellings of a function node.  `!call:f [x0, …]` (list
  arguments = positions 0..n-1), `!call:f x` (scalar argument = position 0) and `!call:f` (no
  argument) construct exactly the node of the mapping spelling `!call:f {0: x0, …}`
  (`FunctionNode.__init__` receives the same children): `normFn` rewrites a document into the
  mapping spelling, and the loader does not see the difference — for EVERY document, no shape
  hypothesis.  The theorems about entry-shaped documents therefore hold for every document whose
  normal form is entry-shaped.
-/
import AY.Lemmas.C03FuncRead
set_option linter.unusedVariables false
set_option linter.unusedSimpArgs false
namespace AY.C03F
open AY

/-- the arguments of `!call:f x` as mapping items -/
def fnItemsOfScalar : RVal → List (Key × Raw)
  | .empty => []
  | .lit s => [(Key.int 0, .scalar .none {} (.lit s))]
  | .text s => [(Key.int 0, .scalar .none {} (.text s))]

/-- the arguments of `!call:f [x0, …]` as mapping items -/
def renumRaw : Nat → List Raw → List (Key × Raw)
  | _, [] => []
  | i, r :: rest => (Key.int i, r) :: renumRaw (i + 1) rest

mutual
/-- every function node at an entry position in its mapping spelling -/
def normFn : Raw → Raw
  | .scalar t kw v =>
    match funcTag? t with
    | some _ => .map t kw (fnItemsOfScalar v)
    | none => .scalar t kw v
  | .seq t kw items =>
    match funcTag? t with
    | some _ => .map t kw (renumRaw 0 items)
    | none => .seq t kw items
  | .map t kw items =>
    match funcTag? t with
    | some _ => .map t kw items
    | none => .map t kw (normFnMap items)
def normFnMap : List (Key × Raw) → List (Key × Raw)
  | [] => []
  | (k, r) :: rest => (k, normFn r) :: normFnMap rest
end

theorem constructDeepMap_renum (env : Env) : ∀ (items : List Raw) (i : Nat),
    constructDeepMap env (renumRaw i items) = constructDeepList env i items
  | [], _ => rfl
  | r :: rest, i => by
    simp only [renumRaw, constructDeepMap, constructDeepList, constructDeepMap_renum env rest (i + 1)]

theorem constructDeepMap_scalarItems (env : Env) (v : RVal) :
    constructDeepMap env (fnItemsOfScalar v) = .ok (match v with | .empty => [] | _ => scalarAsItems env v) := by
  cases v <;> rfl

theorem funcTag?_cases {t : TagKind} {f : String} (h : funcTag? t = some f) : t = .call f ∨ t = .bind f := by
  cases t <;> simp [funcTag?] at h <;> simp [h]

/-- a function-node tag on a scalar: the constructor receives `{0: value}` (nothing for an empty value) -/
theorem wrapScalar_func (env : Env) {t : TagKind} {f : String} (ht : funcTag? t = some f) (kw : CtorKw) (v : RVal) :
    wrapScalar env t kw v = wrapMap env t kw (match v with | .empty => [] | _ => scalarAsItems env v) := by
  rcases funcTag?_cases ht with rfl | rfl <;> cases v <;> rfl

/-- a function-node tag on a sequence: the constructor receives the items under 0..n-1 -/
theorem wrapSeq_func (env : Env) {t : TagKind} {f : String} (ht : funcTag? t = some f) (kw : CtorKw)
    (cs : List (Key × Node)) : wrapSeq env t kw cs = wrapMap env t kw cs := by
  rcases funcTag?_cases ht with rfl | rfl <;> rfl

theorem constructTD_tagged_map (env : Env) (parent : Option (Flags × CompKind)) {t : TagKind} (ht : t ≠ .none)
    (kw : CtorKw) (items : List (Key × Raw)) :
    constructTD env parent (.map t kw items) =
      match constructDeep env (.map t kw items) with
      | .error e => .error e
      | .ok n => .ok (adoptBy parent n) := by
  cases t <;> first | exact absurd rfl ht | rfl | (simp only [constructTD]; rfl) | simp only [constructTD]

theorem constructTD_tagged_seq (env : Env) (parent : Option (Flags × CompKind)) {t : TagKind} (ht : t ≠ .none)
    (kw : CtorKw) (items : List Raw) :
    constructTD env parent (.seq t kw items) =
      match constructDeep env (.seq t kw items) with
      | .error e => .error e
      | .ok n => .ok (adoptBy parent n) := by
  cases t <;> first | exact absurd rfl ht | rfl | (simp only [constructTD]; rfl) | simp only [constructTD]

theorem constructTD_tagged_scalar (env : Env) (parent : Option (Flags × CompKind)) {t : TagKind} (ht : t ≠ .none)
    (kw : CtorKw) (v : RVal) :
    constructTD env parent (.scalar t kw v) =
      match wrapScalar env t kw v with
      | .error e => .error e
      | .ok n => .ok (adoptBy parent n) := by
  cases t <;> first | exact absurd rfl ht | rfl | (simp only [constructTD]; rfl) | simp only [constructTD]

theorem funcTag_ne_none {t : TagKind} {f : String} (h : funcTag? t = some f) : t ≠ .none := by
  intro e; subst e; cases h

theorem funcTag_ne_incl {t : TagKind} {f : String} (h : funcTag? t = some f) : t ≠ .incl := by
  intro e; subst e; cases h

theorem constructDeep_seq_func (env : Env) {t : TagKind} {f : String} (ht : funcTag? t = some f) (kw : CtorKw)
    (items : List Raw) :
    constructDeep env (.seq t kw items) =
      match constructDeepList env 0 items with
      | .error e => .error e
      | .ok cs => wrapMap env t kw cs := by
  rcases funcTag?_cases ht with rfl | rfl <;> simp only [constructDeep] <;>
    cases constructDeepList env 0 items <;> rfl

mutual
/-- the loader does not distinguish a document from its normal form (both construction modes) -/
theorem construct_normFn (env : Env) : ∀ (r : Raw),
    constructDeep env (normFn r) = constructDeep env r ∧
    ∀ parent, constructTD env parent (normFn r) = constructTD env parent r
  | .scalar t kw v => by
    cases ht : funcTag? t with
    | none => exact ⟨by simp only [normFn, ht], fun _ => by simp only [normFn, ht]⟩
    | some f =>
      have hd : constructDeep env (.map t kw (fnItemsOfScalar v)) = wrapScalar env t kw v := by
        simp only [constructDeep, constructDeepMap_scalarItems, wrapScalar_func env ht]
      simp only [normFn, ht]
      refine ⟨hd, fun parent => ?_⟩
      rw [constructTD_tagged_map env parent (funcTag_ne_none ht), constructTD_tagged_scalar env parent (funcTag_ne_none ht), hd]
  | .seq t kw items => by
    cases ht : funcTag? t with
    | none => exact ⟨by simp only [normFn, ht], fun _ => by simp only [normFn, ht]⟩
    | some f =>
      have hd : constructDeep env (.map t kw (renumRaw 0 items)) = constructDeep env (.seq t kw items) := by
        rw [constructDeep_seq_func env ht]
        simp only [constructDeep, constructDeepMap_renum]
        cases constructDeepList env 0 items <;> rfl
      simp only [normFn, ht]
      refine ⟨hd, fun parent => ?_⟩
      rw [constructTD_tagged_map env parent (funcTag_ne_none ht), constructTD_tagged_seq env parent (funcTag_ne_none ht), hd]
  | .map t kw items => by
    cases ht : funcTag? t with
    | some f => exact ⟨by simp only [normFn, ht], fun _ => by simp only [normFn, ht]⟩
    | none =>
      obtain ⟨h1, h2⟩ := constructMap_normFn env items
      have hd : constructDeep env (.map t kw (normFnMap items)) = constructDeep env (.map t kw items) := by
        simp only [constructDeep, h1]
      simp only [normFn, ht]
      refine ⟨hd, fun parent => ?_⟩
      by_cases hn : t = .none
      · subst hn
        simp only [constructTD, h2]
      · rw [constructTD_tagged_map env parent hn, constructTD_tagged_map env parent hn, hd]
theorem constructMap_normFn (env : Env) : ∀ (items : List (Key × Raw)),
    constructDeepMap env (normFnMap items) = constructDeepMap env items ∧
    ∀ pf pk acc, constructTDMap env pf pk (normFnMap items) acc = constructTDMap env pf pk items acc
  | [] => ⟨rfl, fun _ _ _ => rfl⟩
  | (k, r) :: rest => by
    obtain ⟨h1, h2⟩ := construct_normFn env r
    obtain ⟨h3, h4⟩ := constructMap_normFn env rest
    refine ⟨by simp only [normFnMap, constructDeepMap, h1, h3], fun pf pk acc => ?_⟩
    simp only [normFnMap, constructTDMap, h2]
    cases constructTD env (some (pf, pk)) r with
    | error e => rfl
    | ok n => exact h4 pf pk _
end

/-- `yaml.parse` of a document = `yaml.parse` of its normal form -/
theorem construct_normFn' (env : Env) (r : Raw) : construct env (normFn r) = construct env r :=
  (construct_normFn env r).2 none

theorem constructAll_normFn : ∀ (docs : List (Env × Raw)),
    constructAll (docs.map (fun d => (d.1, normFn d.2))) = constructAll docs
  | [] => rfl
  | (env, r) :: rest => by
    simp only [List.map_cons, constructAll, construct_normFn' env r, constructAll_normFn rest]

end AY.C03F
